#include "h.h"
const struct op ops_life[] = { {NULL, NULL} };
