/* allocation lifecycles (C14) and failure injection (C15)
 * allocgen   <fail_at> <fail_from> <kind> <ssidhex> <ch> <elhex> [ops A:/R:/S:/C:/K:] ...
 * allocact   <fail_at> <fail_from> [D:<hex>] ...
 * allocparse <fail_at> <fail_from> <radiotap 0|1> <hex>
 * every line: return values, the allocation trace, blocks still live after all release routines ran */
#include "h.h"

static void arm(char **t) { trace_on = 1; fail_at = (int) tok_ll(t[1]); fail_from = (int) tok_ll(t[2]); }
static void finish(void) {
    trace_on = 0;
    printf(" trace=[%s] live=%d%s", trace_buf, ledger_live(), ledger_errors ? " LEDGER-ERR" : "");
}
static char *cstr_tok(const char *tok) { size_t n; unsigned char *b = hexbuf(tok, &n); char *z = __real_malloc(n + 1); memcpy(z, b, n); z[n] = 0; hfree(b); return z; }

static long tag_op(struct libwifi_tagged_parameters *tags, int kind, void *obj, char *o) {
    long r = 0;
    if (o[0] == 'A') {
        char *c2 = strchr(o + 2, ':'); *c2 = 0;
        size_t n; unsigned char *b = hexbuf(c2 + 1, &n);
        LIB(r = libwifi_quick_add_tag(tags, (int) tok_ll(o + 2), b, n));
        hfree(b); *c2 = ':';
    } else if (o[0] == 'R') { LIB(r = libwifi_remove_tag(tags, (int) tok_ll(o + 2)));
    } else if (o[0] == 'K') { LIB(r = libwifi_check_tag(tags, (int) tok_ll(o + 2)));
    } else if (o[0] == 'S') {
        char *z = cstr_tok(o + 2);
        if (kind == 1) LIB(r = libwifi_set_probe_resp_ssid(obj, z)); else LIB(r = libwifi_set_beacon_ssid(obj, z));
        hfree(z);
    } else if (o[0] == 'C') {
        uint8_t ch = (uint8_t) tok_ll(o + 2);
        switch (kind) {
            case 1: LIB(r = libwifi_set_probe_resp_channel(obj, ch)); break;
            case 5: LIB(r = libwifi_set_assoc_resp_channel(obj, ch)); break;
            case 6: LIB(r = libwifi_set_reassoc_resp_channel(obj, ch)); break;
            default: LIB(r = libwifi_set_beacon_channel(obj, ch));
        }
    }
    return r;
}

/* kinds: 0 beacon 1 probe_resp 2 probe_req 3 assoc_req 4 reassoc_req 5 assoc_resp 6 reassoc_resp 7 timing_ad */
static void op_allocgen(int nt, char **t) {
    unsigned char a[6] = {2, 4, 6, 8, 10, 12};
    int kind = (int) tok_ll(t[3]);
    char *ssid = cstr_tok(t[4]);
    uint8_t ch = (uint8_t) tok_ll(t[5]);
    size_t eln; unsigned char *el = hexbuf(t[6], &eln);
    union { struct libwifi_beacon b; struct libwifi_probe_resp pr; struct libwifi_probe_req pq; struct libwifi_assoc_req aq;
            struct libwifi_reassoc_req rq; struct libwifi_assoc_resp ar; struct libwifi_reassoc_resp rr; struct libwifi_timing_advert ta; } u;
    memset(&u, 0, sizeof u);
    struct libwifi_tagged_parameters *tags;
    int r = 0;
    arm(t);
    switch (kind) {
        case 0: LIB(r = libwifi_create_beacon(&u.b, a, a, a, ssid, ch)); tags = &u.b.tags; break;
        case 1: LIB(r = libwifi_create_probe_resp(&u.pr, a, a, a, ssid, ch)); tags = &u.pr.tags; break;
        case 2: LIB(r = libwifi_create_probe_req(&u.pq, a, a, a, ssid, ch)); tags = &u.pq.tags; break;
        case 3: LIB(r = libwifi_create_assoc_req(&u.aq, a, a, a, ssid, ch)); tags = &u.aq.tags; break;
        case 4: LIB(r = libwifi_create_reassoc_req(&u.rq, a, a, a, a, ssid, ch)); tags = &u.rq.tags; break;
        case 5: LIB(r = libwifi_create_assoc_resp(&u.ar, a, a, a, ch)); tags = &u.ar.tags; break;
        case 6: LIB(r = libwifi_create_reassoc_resp(&u.rr, a, a, a, ch)); tags = &u.rr.tags; break;
        default: {
            struct libwifi_timing_advert_fields f; memset(&f, 0, sizeof f);
            f.timing_capabilities = eln ? el[0] : 0;
            if (eln > 1) memcpy(f.time_value, el + 1, eln - 1 < 10 ? eln - 1 : 10);
            if (eln > 11) memcpy(f.time_error, el + 11, eln - 11 < 5 ? eln - 11 : 5);
            if (eln > 16) memcpy(f.time_update, el + 16, 1);
            LIB(r = libwifi_create_timing_advert(&u.ta, a, a, a, &f, "GB", 1, 2, 3, 4)); tags = &u.ta.tags; break;
        }
    }
    printf("allocgen r=%d", r);
    if (r == 0)
        for (int i = 7; i < nt; i++) {
            size_t before = tags->length; unsigned char *copy = __real_malloc(before); if (before) memcpy(copy, tags->parameters, before);
            long rr = tag_op(tags, kind, &u, t[i]);
            printf(",%ld", rr < 0 ? -1 : rr);
            /* a failed call must not have lost what was stored */
            if (rr < 0 && (tags->length != before || (before && memcmp(copy, tags->parameters, before) != 0))) printf("(LOST:%c)", t[i][0]);
            hfree(copy);
        }
    printf(" tags="); out_hex(tags->parameters, tags->length);
    LIB(free(tags->parameters));
    finish();
    hfree(ssid); hfree(el);
}

static void op_allocact(int nt, char **t) {
    unsigned char a[6] = {2, 4, 6, 8, 10, 12};
    struct libwifi_action act; int r;
    arm(t);
    LIB(r = libwifi_create_action(&act, a, a, a, 7));
    printf("allocact r=%d", r);
    for (int i = 3; i < nt; i++) {
        size_t n; unsigned char *b = hexbuf(t[i] + 2, &n);
        uint8_t before = act.fixed_parameters.details.detail_length;
        size_t rr;
        LIB(rr = libwifi_add_action_detail(&act.fixed_parameters.details, b, n));
        printf(",%ld", (long) rr < 0 ? -1 : (long) rr);
        if ((long) rr < 0 && act.fixed_parameters.details.detail_length != before) printf("(LOST)");
        hfree(b);
    }
    printf(" detail="); out_hex((unsigned char *) act.fixed_parameters.details.detail, act.fixed_parameters.details.detail_length);
    LIB(libwifi_free_action(&act));
    finish();
}

static void op_allocparse(int nt, char **t) {
    (void) nt;
    int rt = (int) tok_ll(t[3]);
    size_t n; unsigned char *b = hexbuf(t[4], &n);
    struct libwifi_frame f; memset(&f, 0x5A, sizeof f);
    int r;
    arm(t);
    LIB(r = libwifi_get_wifi_frame(&f, b, n, rt));
    printf("allocparse r=%d", r < 0 ? -1 : r);
    if (r == 0) {
        struct libwifi_bss bss; struct libwifi_sta sta; int pr;
#define BSSP(fn) LIB(pr = fn(&bss, &f)); printf(",%d", pr < 0 ? (pr == -ENOMEM ? -12 : -1) : pr); LIB(libwifi_free_bss(&bss));
#define STAP(fn) LIB(pr = fn(&sta, &f)); printf(",%d", pr < 0 ? (pr == -ENOMEM ? -12 : -1) : pr); LIB(libwifi_free_sta(&sta));
        BSSP(libwifi_parse_beacon) BSSP(libwifi_parse_probe_resp) BSSP(libwifi_parse_assoc_resp) BSSP(libwifi_parse_reassoc_resp)
        STAP(libwifi_parse_probe_req) STAP(libwifi_parse_assoc_req) STAP(libwifi_parse_reassoc_req)
        { struct libwifi_parsed_deauth d; LIB(pr = libwifi_parse_deauth(&d, &f)); printf(",%d", pr < 0 ? (pr == -ENOMEM ? -12 : -1) : pr); LIB(libwifi_free_parsed_deauth(&d)); }
        { struct libwifi_parsed_disassoc d; LIB(pr = libwifi_parse_disassoc(&d, &f)); printf(",%d", pr < 0 ? (pr == -ENOMEM ? -12 : -1) : pr); LIB(libwifi_free_parsed_disassoc(&d)); }
        { struct libwifi_data d; LIB(pr = libwifi_parse_data(&d, &f)); printf(",%d", pr < 0 ? (pr == -ENOMEM ? -12 : -1) : pr); LIB(libwifi_free_data(&d)); }
        { struct libwifi_wpa_auth_data d; LIB(pr = libwifi_get_wpa_data(&f, &d)); printf(",%d", pr < 0 ? (pr == -ENOMEM ? -12 : -1) : pr); LIB(libwifi_free_wpa_data(&d)); }
    }
    LIB(libwifi_free_wifi_frame(&f));
    finish();
    hfree(b);
}

/* release routines on zero-initialised objects */
static void op_freezero(int nt, char **t) {
    (void) nt; (void) t;
    trace_on = 1;
    { struct libwifi_frame o; memset(&o, 0, sizeof o); launder(&o); LIB(libwifi_free_wifi_frame(&o)); }
    { struct libwifi_bss o; memset(&o, 0, sizeof o); launder(&o); LIB(libwifi_free_bss(&o)); }
    { struct libwifi_sta o; memset(&o, 0, sizeof o); launder(&o); LIB(libwifi_free_sta(&o)); }
    { struct libwifi_data o; memset(&o, 0, sizeof o); launder(&o); LIB(libwifi_free_data(&o)); }
    { struct libwifi_wpa_auth_data o; memset(&o, 0, sizeof o); launder(&o); LIB(libwifi_free_wpa_data(&o)); }
    { struct libwifi_beacon o; memset(&o, 0, sizeof o); launder(&o); LIB(libwifi_free_beacon(&o)); }
    { struct libwifi_probe_req o; memset(&o, 0, sizeof o); launder(&o); LIB(libwifi_free_probe_req(&o)); }
    { struct libwifi_probe_resp o; memset(&o, 0, sizeof o); launder(&o); LIB(libwifi_free_probe_resp(&o)); }
    { struct libwifi_assoc_req o; memset(&o, 0, sizeof o); launder(&o); LIB(libwifi_free_assoc_req(&o)); }
    { struct libwifi_assoc_resp o; memset(&o, 0, sizeof o); launder(&o); LIB(libwifi_free_assoc_resp(&o)); }
    { struct libwifi_reassoc_req o; memset(&o, 0, sizeof o); launder(&o); LIB(libwifi_free_reassoc_req(&o)); }
    { struct libwifi_reassoc_resp o; memset(&o, 0, sizeof o); launder(&o); LIB(libwifi_free_reassoc_resp(&o)); }
    { struct libwifi_auth o; memset(&o, 0, sizeof o); launder(&o); LIB(libwifi_free_auth(&o)); }
    { struct libwifi_deauth o; memset(&o, 0, sizeof o); launder(&o); LIB(libwifi_free_deauth(&o)); }
    { struct libwifi_disassoc o; memset(&o, 0, sizeof o); launder(&o); LIB(libwifi_free_disassoc(&o)); }
    { struct libwifi_timing_advert o; memset(&o, 0, sizeof o); launder(&o); LIB(libwifi_free_timing_advert(&o)); }
    { struct libwifi_action o; memset(&o, 0, sizeof o); launder(&o); LIB(libwifi_free_action(&o)); LIB(libwifi_free_action_detail(&o.fixed_parameters.details)); }
    { struct libwifi_tagged_parameter o; memset(&o, 0, sizeof o); launder(&o); LIB(libwifi_free_tag(&o)); }
    printf("freezero ok");
    finish();
}

const struct op ops_life[] = {
    {"allocgen", op_allocgen},
    {"allocact", op_allocact},
    {"allocparse", op_allocparse},
    {"freezero", op_freezero},
    {NULL, NULL},
};
