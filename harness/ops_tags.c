/* tag iterator, tag-list edit histories, tag dump */
#include "h.h"
#include <stddef.h>

/* iter <hex>: init, then the callers' do/while loop; every pointer printed as an offset */
static void op_iter(int nt, char **t) {
    (void) nt;
    size_t n; unsigned char *b = hexbuf(t[1], &n);
    struct libwifi_tag_iterator it; memset(&it, 0, sizeof it);
    int r;
    LIB(r = libwifi_tag_iterator_init(&it, b, n));
    if (r != 0) { printf("iter err"); hfree(b); return; }
    printf("iter ok end=%td", it._frame_end - b);
    int steps = 0;
    int nx;
    do {
        printf(" (%td,%u,%u,%td,%td)", (unsigned char *) it.tag_header - b, it.tag_header->tag_num,
               it.tag_header->tag_len, it.tag_data - b, (unsigned char *) it._next_tag_header - b);
        LIB(nx = libwifi_tag_iterator_next(&it));
        if (nx != -1 && nx != it.tag_header->tag_num) printf(" BADRET(%d)", nx);
        if (++steps > 100000) { printf(" RUNAWAY"); break; }
    } while (nx != -1);
    hfree(b);
}

/* tagops <kind> <op>...   A:<num>:<hexbody>  D:<num>:<k>  R:<num>  S:<hexssid>  C:<ch>  K:<num>
 * after every op: ret,len,bytes */
static void op_tagops(int nt, char **t) {
    struct libwifi_beacon bc; struct libwifi_probe_resp pr; struct libwifi_assoc_resp ar; struct libwifi_reassoc_resp rr;
    memset(&bc, 0, sizeof bc); memset(&pr, 0, sizeof pr); memset(&ar, 0, sizeof ar); memset(&rr, 0, sizeof rr);
    struct libwifi_tagged_parameters *tags;
    int kind = (int) tok_ll(t[1]);
    switch (kind) { case 1: tags = &pr.tags; break; case 2: tags = &ar.tags; break; case 3: tags = &rr.tags; break; default: tags = &bc.tags; }
    printf("tagops");
    for (int i = 2; i < nt; i++) {
        char *o = t[i];
        long r = 0;
        if (o[0] == 'A') {
            char *c2 = strchr(o + 2, ':');
            *c2 = 0;
            int num = (int) tok_ll(o + 2);
            size_t n; unsigned char *b = hexbuf(c2 + 1, &n);
            LIB(r = libwifi_quick_add_tag(tags, num, b, n));
            hfree(b);
        } else if (o[0] == 'D') {
            /* D:<num>:<k>: add, under number num, the body of the k-th element of THIS list, handed over as a pointer INTO the list
               (the caller's data aliases the block the library is about to reallocate); no k-th element: an empty body */
            char *c2 = strchr(o + 2, ':');
            *c2 = 0;
            int num = (int) tok_ll(o + 2);
            long k = (long) tok_ll(c2 + 1);
            size_t off = 0, bl = 0; const unsigned char *bp = (const unsigned char *) "";
            while (off + 2 <= tags->length) {
                size_t l = tags->parameters[off + 1];
                if (off + 2 + l > tags->length) break;
                if (k-- == 0) { bp = tags->parameters + off + 2; bl = l; break; }
                off += 2 + l;
            }
            LIB(r = libwifi_quick_add_tag(tags, num, bp, bl));
        } else if (o[0] == 'R') {
            LIB(r = libwifi_remove_tag(tags, (int) tok_ll(o + 2)));
        } else if (o[0] == 'K') {
            LIB(r = libwifi_check_tag(tags, (int) tok_ll(o + 2)));
        } else if (o[0] == 'S') {
            size_t n; unsigned char *b = hexbuf(o + 2, &n);
            char *z = __real_malloc(n + 1); memcpy(z, b, n); z[n] = 0;
            if (kind == 1) LIB(r = libwifi_set_probe_resp_ssid(&pr, z)); else LIB(r = libwifi_set_beacon_ssid(&bc, z));
            hfree(z); hfree(b);
        } else if (o[0] == 'C') {
            uint8_t ch = (uint8_t) tok_ll(o + 2);
            switch (kind) {
                case 1: LIB(r = libwifi_set_probe_resp_channel(&pr, ch)); break;
                case 2: LIB(r = libwifi_set_assoc_resp_channel(&ar, ch)); break;
                case 3: LIB(r = libwifi_set_reassoc_resp_channel(&rr, ch)); break;
                default: LIB(r = libwifi_set_beacon_channel(&bc, ch));
            }
        }
        printf(" %s%ld,%zu,", r < 0 ? "err" : "", r < 0 ? 0 : r, tags->length);
        out_hex(tags->parameters, tags->length);
    }
    LIB(free(tags->parameters));
    if (ledger_live() != 0) printf(" LEAK(%d)", ledger_live());
}

/* dumptag <num> <len> <hexbody> <buflen>: buffer of exactly buflen bytes between canaries */
static void op_dumptag(int nt, char **t) {
    (void) nt;
    struct libwifi_tagged_parameter tag; memset(&tag, 0, sizeof tag);
    size_t n; unsigned char *body = hexbuf(t[3], &n);
    tag.header.tag_num = (uint8_t) tok_ll(t[1]);
    tag.header.tag_len = (uint8_t) tok_ll(t[2]);
    tag.body = body;
    size_t bl = (size_t) tok_ll(t[4]);
    unsigned char *buf = __real_malloc(bl);
    memset(buf, 0xEE, bl);
    size_t r;
    LIB(r = libwifi_dump_tag(&tag, buf, bl));
    if ((long) r < 0) {
        int touched = 0;
        for (size_t i = 0; i < bl; i++) touched |= buf[i] != 0xEE;
        printf("dumptag err%s", touched ? " TOUCHED" : "");
    } else {
        printf("dumptag ok %zu ", r);
        out_hex(buf, r <= bl ? r : bl);
        int touched = 0;
        for (size_t i = r; i < bl; i++) touched |= buf[i] != 0xEE;
        if (touched) printf(" BEYOND");
    }
    hfree(buf); hfree(body);
}

const struct op ops_tags[] = {
    {"iter", op_iter},
    {"tagops", op_tagops},
    {"dumptag", op_dumptag},
    {NULL, NULL},
};
