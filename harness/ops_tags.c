#include "h.h"
const struct op ops_tags[] = { {NULL, NULL} };
