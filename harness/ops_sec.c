/* security description routines (C17); RSN/WPA classification ops are added below as they are built */
#include "h.h"

/* secstr <routine 0..3> <info>: exactly LIBWIFI_SECURITY_BUF_LEN bytes on the heap (ASan red zone behind) */
static void op_secstr(int nt, char **t) {
    (void) nt;
    int k = (int) tok_ll(t[1]);
    struct libwifi_bss bss; memset(&bss, 0, sizeof bss);
    bss.encryption_info = tok_ull(t[2]);
    char *buf = __real_malloc(LIBWIFI_SECURITY_BUF_LEN);
    memset(buf, 0x7E, LIBWIFI_SECURITY_BUF_LEN);
    switch (k) {
        case 0: LIB(libwifi_get_security_type(&bss, buf)); break;
        case 1: LIB(libwifi_get_group_ciphers(&bss, buf)); break;
        case 2: LIB(libwifi_get_pairwise_ciphers(&bss, buf)); break;
        default: LIB(libwifi_get_auth_key_suites(&bss, buf)); break;
    }
    size_t n = strnlen(buf, LIBWIFI_SECURITY_BUF_LEN);
    if (n >= LIBWIFI_SECURITY_BUF_LEN) printf("secstr UNTERMINATED");
    else { printf("secstr %zu ", n); out_hex((unsigned char *) buf, n); }
    hfree(buf);
}

const struct op ops_sec[] = {
    {"secstr", op_secstr},
    {NULL, NULL},
};
