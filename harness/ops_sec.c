#include "h.h"
const struct op ops_sec[] = { {NULL, NULL} };
