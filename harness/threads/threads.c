/* C16 workload: N threads generate and parse frames on their own objects; every thread's digest must
 * equal the digest the same work yields sequentially.  Built plainly (quick) and with ThreadSanitizer
 * (thorough). */
#define _GNU_SOURCE
#include <pthread.h>
#include <sched.h>
#include <stdio.h>
#include <stdlib.h>
#include <string.h>
#include <stdint.h>
#include <sys/types.h>
#include "libwifi.h"

static int ITER = 1500;
static uint64_t fnv(uint64_t h, const void *p, size_t n) { const unsigned char *b = p; for (size_t i = 0; i < n; i++) { h ^= b[i]; h *= 1099511628211ULL; } return h; }

/* the kernel's random bytes are replaced (link-time wrap) by a per-thread deterministic stream, so that the random
 * address generator's output can be part of the digest: a library that drew them from a process-wide generator instead
 * (rand, random ...) would give interleaving-dependent results */
static __thread unsigned rnd_ctr;
ssize_t __wrap_getrandom(void *buf, size_t n, unsigned flags) {
    (void) flags;
    for (size_t i = 0; i < n; i++) ((unsigned char *) buf)[i] = (unsigned char) (rnd_ctr++ * 167u + 13u);
    return (ssize_t) n;
}

static uint64_t work(int id) {
    uint64_t h = 1469598103934665603ULL;
    rnd_ctr = (unsigned) id * 100000u;
    for (int j = 0; j < ITER; j++) {
        unsigned char a1[6] = {(unsigned char) id, (unsigned char) j, 3, 4, 5, 6}, a2[6] = {9, 8, (unsigned char) id, 6, 5, (unsigned char) (j >> 3)};
        char ssid[24]; snprintf(ssid, sizeof ssid, "net-%d-%d", id, j % 17);
        struct libwifi_beacon b;
        if (libwifi_create_beacon(&b, a1, a2, a2, ssid, (uint8_t) (j + id)) != 0) return 0;
        unsigned char rsn[] = {1, 0, 0, 0x0f, 0xac, 4, 1, 0, 0, 0x0f, 0xac, (unsigned char) (2 + (j + id) % 10), 1, 0, 0, 0x0f, 0xac, (unsigned char) ((j * 7 + id) % 21), 0, 0};
        libwifi_quick_add_tag(&b.tags, TAG_RSN, rsn, sizeof rsn);
        /* a legacy WPA element, a WMM and a WPS vendor element whose contents differ per thread and iteration */
        unsigned char wpa[] = {0x00, 0x50, 0xf2, 1, 1, 0, 0x00, 0x50, 0xf2, (unsigned char) (1 + (id + j) % 5), 2, 0, 0x00, 0x50, 0xf2, (unsigned char) (id % 6), 0x00, 0x50, 0xf2, (unsigned char) (j % 6),
                               1, 0, 0x00, 0x50, 0xf2, (unsigned char) (1 + (id * 5 + j) % 3)};
        libwifi_quick_add_tag(&b.tags, TAG_VENDOR_SPECIFIC, wpa, sizeof wpa);
        unsigned char wmm[] = {0x00, 0x50, 0xf2, 2, (unsigned char) id, 1}, wps[] = {0x00, 0x50, 0xf2, 4, (unsigned char) j};
        if ((id + j) % 2) libwifi_quick_add_tag(&b.tags, TAG_VENDOR_SPECIFIC, wmm, sizeof wmm);
        if ((id + j) % 3 == 0) libwifi_quick_add_tag(&b.tags, TAG_VENDOR_SPECIFIC, wps, sizeof wps);
        if (j % 3 == 0) libwifi_set_beacon_channel(&b, (uint8_t) (id * 3 + 1));
        size_t len = libwifi_get_beacon_length(&b);
        unsigned char *buf = malloc(len);
        libwifi_dump_beacon(&b, buf, len);
        memset(buf + 24, 0, 8);                                   /* the timestamp is wall-clock time */
        h = fnv(h, buf, len);
        uint32_t crc = libwifi_crc32(buf, (int) len); h = fnv(h, &crc, 4);
        struct libwifi_frame f; struct libwifi_bss bss;
        if (libwifi_get_wifi_frame(&f, buf, len, 0) == 0) {
            if (libwifi_parse_beacon(&bss, &f) == 0) {
                h = fnv(h, bss.ssid, 33); h = fnv(h, &bss.channel, 1); h = fnv(h, &bss.encryption_info, 8);
                char s1[LIBWIFI_SECURITY_BUF_LEN], s2[LIBWIFI_SECURITY_BUF_LEN];
                libwifi_get_security_type(&bss, s1); libwifi_get_auth_key_suites(&bss, s2);
                h = fnv(h, s1, strlen(s1)); h = fnv(h, s2, strlen(s2));
                libwifi_get_group_ciphers(&bss, s1); libwifi_get_pairwise_ciphers(&bss, s2);
                h = fnv(h, s1, strlen(s1)); h = fnv(h, s2, strlen(s2));
                h = fnv(h, &bss.wps, 1); h = fnv(h, &bss.wpa_info.num_unicast_cipher_suites, 2); h = fnv(h, &bss.wpa_info.num_auth_key_mgmt_suites, 2);
                h = fnv(h, bss.wpa_info.unicast_cipher_suites, sizeof bss.wpa_info.unicast_cipher_suites);
                h = fnv(h, bss.wpa_info.auth_key_mgmt_suites, sizeof bss.wpa_info.auth_key_mgmt_suites);
                h = fnv(h, &bss.rsn_info.num_pairwise_cipher_suites, 2); h = fnv(h, bss.rsn_info.pairwise_cipher_suites, sizeof bss.rsn_info.pairwise_cipher_suites);
                struct libwifi_tag_iterator it;
                if (libwifi_tag_iterator_init(&it, bss.tags.parameters, bss.tags.length) == 0)
                    do { h = fnv(h, &it.tag_header->tag_num, 1); h = fnv(h, it.tag_data, it.tag_header->tag_len); } while (libwifi_tag_iterator_next(&it) != -1);
                const char *nm = libwifi_get_tag_name(bss.tags.parameters[0]); h = fnv(h, nm, strlen(nm));
            }
            libwifi_free_bss(&bss);
        }
        libwifi_free_wifi_frame(&f);
        char rt[LIBWIFI_MAX_RADIOTAP_LEN]; struct libwifi_radiotap_info ri; memset(&ri, 0, sizeof ri);
        ri.present = 0x2e | (1u << 22); ri.channel.freq = (uint16_t) (2412 + 5 * (id % 11)); ri.rate_raw = (int8_t) j; ri.timestamp.timestamp = (uint64_t) id * 1000 + j;
        size_t rl = libwifi_create_radiotap(&ri, rt);
        struct libwifi_radiotap_info ro;
        if (libwifi_parse_radiotap_info(&ro, (unsigned char *) rt, rl) == 0) { h = fnv(h, &ro.channel, sizeof ro.channel); h = fnv(h, &ro.timestamp, sizeof ro.timestamp); }
        free(buf);
        libwifi_free_beacon(&b);
        /* a station-side frame, a reason frame and an action frame */
        struct libwifi_assoc_req ar;
        if (libwifi_create_assoc_req(&ar, a1, a2, a2, ssid, (uint8_t) (1 + id)) == 0) {
            size_t l2 = libwifi_get_assoc_req_length(&ar); unsigned char *b2 = malloc(l2);
            libwifi_dump_assoc_req(&ar, b2, l2); h = fnv(h, b2, l2);
            struct libwifi_frame f2; struct libwifi_sta sta;
            if (libwifi_get_wifi_frame(&f2, b2, l2, 0) == 0) {
                if (libwifi_parse_assoc_req(&sta, &f2) == 0) { h = fnv(h, sta.ssid, 33); h = fnv(h, sta.bssid, 6); h = fnv(h, &sta.channel, 1); }
                libwifi_free_sta(&sta);
            }
            libwifi_free_wifi_frame(&f2); free(b2); libwifi_free_assoc_req(&ar);
        }
        struct libwifi_deauth de;
        if (libwifi_create_deauth(&de, a1, a2, a2, (uint16_t) (id * 256 + j)) == 0) {
            size_t l3 = libwifi_get_deauth_length(&de); unsigned char *b3 = malloc(l3);
            libwifi_dump_deauth(&de, b3, l3); h = fnv(h, b3, l3);
            struct libwifi_frame f3; struct libwifi_parsed_deauth pd;
            if (libwifi_get_wifi_frame(&f3, b3, l3, 0) == 0) {
                if (libwifi_parse_deauth(&pd, &f3) == 0) { h = fnv(h, &pd.fixed_parameters.reason_code, 2); }
                libwifi_free_parsed_deauth(&pd);
            }
            libwifi_free_wifi_frame(&f3); free(b3); libwifi_free_deauth(&de);
        }
        struct libwifi_action ac;
        if (libwifi_create_action(&ac, a1, a2, a2, (uint8_t) (id & 15)) == 0) {
            unsigned char det[5] = {(unsigned char) id, (unsigned char) j, 1, 2, 3};
            libwifi_add_action_detail(&ac.fixed_parameters.details, det, sizeof det);
            size_t l4 = libwifi_get_action_length(&ac); unsigned char *b4 = malloc(l4);
            libwifi_dump_action(&ac, b4, l4); h = fnv(h, b4, l4); free(b4); libwifi_free_action(&ac);
        }
        {   /* an EAPOL-Key data frame (plain or QoS) that differs per thread and iteration - message 1..4, key data length, contents -
               through every EAPOL routine and the data parser: a decode kept in a shared static shows as another thread's answer */
            static const unsigned short kinfo[4] = {0x008a, 0x010a, 0x13ca, 0x030a};
            int qos = (id + j) & 1, hl = qos ? 26 : 24, kdl = (id * 7 + j * 3) % 40;
            unsigned char ef[26 + 8 + 99 + 40]; memset(ef, 0, sizeof ef);
            ef[0] = qos ? 0x88 : 0x08; ef[4] = (unsigned char) id; ef[10] = (unsigned char) j;
            unsigned char *bd = ef + hl;
            bd[0] = 0xaa; bd[1] = 0xaa; bd[2] = 3; bd[6] = 0x88; bd[7] = 0x8e;
            bd[8] = 2; bd[9] = 3; bd[10] = 0; bd[11] = (unsigned char) (95 + kdl); bd[12] = 2;
            unsigned short ki = kinfo[(id + j / 2) & 3];
            bd[13] = (unsigned char) (ki >> 8); bd[14] = (unsigned char) ki; bd[16] = 16;
            for (int q = 17; q < 105; q++) bd[q] = (unsigned char) (id * 31 + j + q);
            bd[105] = 0; bd[106] = (unsigned char) kdl;
            for (int q = 0; q < kdl; q++) bd[107 + q] = (unsigned char) (id + q * 5 + j);
            struct libwifi_frame ff;
            if (libwifi_get_wifi_frame(&ff, ef, (size_t) (hl + 107 + kdl), 0) == 0) {
                int hs = libwifi_check_wpa_handshake(&ff), msg = libwifi_check_wpa_message(&ff), kl = libwifi_get_wpa_key_data_length(&ff);
                const char *ms = libwifi_get_wpa_message_string(&ff);
                h = fnv(h, &hs, sizeof hs); h = fnv(h, &msg, sizeof msg); h = fnv(h, &kl, sizeof kl); h = fnv(h, ms, strlen(ms));
                struct libwifi_wpa_auth_data wd;
                if (libwifi_get_wpa_data(&ff, &wd) == 0) {
                    h = fnv(h, &wd.key_info.information, 2); h = fnv(h, wd.key_info.nonce, 32); h = fnv(h, &wd.key_info.key_data_length, 2);
                    if (wd.key_info.key_data_length) h = fnv(h, wd.key_info.key_data, wd.key_info.key_data_length);
                    libwifi_free_wpa_data(&wd);
                }
                struct libwifi_data dd;
                if (libwifi_parse_data(&dd, &ff) == 0) { h = fnv(h, dd.receiver, 6); h = fnv(h, &dd.body_len, sizeof dd.body_len); libwifi_free_data(&dd); }
                libwifi_free_wifi_frame(&ff);
            }
        }
        unsigned char rm[6]; libwifi_random_mac(rm, (unsigned char *) "\x0a\x0b\x0c"); h = fnv(h, rm, 6);
        libwifi_random_mac(rm, NULL); h = fnv(h, rm, 6);
    }
    return h;
}

static uint64_t results[64];
static int nthreads;
static volatile int arrived;
/* all threads leave the barrier together, so that the FIRST call of every library routine in the process is made
   concurrently (a lazily built table, a one-time initialisation flag) */
static void *thr(void *arg) {
    int id = (int) (intptr_t) arg;
    __atomic_add_fetch(&arrived, 1, __ATOMIC_SEQ_CST);
    /* yield while waiting: with more threads than cores a pure spin starves the threads still to arrive (under TSan for minutes) */
    while (__atomic_load_n(&arrived, __ATOMIC_SEQ_CST) < nthreads) sched_yield();
    results[id] = work(id);
    return NULL;
}

int main(int argc, char **argv) {
    int n = argc > 1 ? atoi(argv[1]) : 8;
    if (n > 64) n = 64;
    if (argc > 2 && atoi(argv[2]) > 0) ITER = atoi(argv[2]);
    int threads_first = argc > 3 && atoi(argv[3]) > 0;      /* first use of the library happens inside the threads */
    nthreads = n;
    uint64_t seq[64];
    if (!threads_first) for (int i = 0; i < n; i++) seq[i] = work(i);
    pthread_t th[64];
    for (int i = 0; i < n; i++) pthread_create(&th[i], NULL, thr, (void *) (intptr_t) i);
    for (int i = 0; i < n; i++) pthread_join(th[i], NULL);
    if (threads_first) for (int i = 0; i < n; i++) seq[i] = work(i);
    int bad = 0;
    for (int i = 0; i < n; i++) if (seq[i] != results[i] || seq[i] == 0) { printf("MISMATCH thread %d seq=%llx par=%llx\n", i, (unsigned long long) seq[i], (unsigned long long) results[i]); bad++; }
    printf("threads=%d iterations=%d mismatches=%d digest0=%llx\n", n, ITER, bad, (unsigned long long) seq[0]);
    return bad ? 1 : 0;
}
