/* radiotap: parse (C09), generate (C10, C07) */
#include "h.h"

void print_rtinfo(const struct libwifi_radiotap_info *i) {
    printf("len=%u ch=%u,%u,%u,%u rate=%u,%d ant=%u[", i->length, i->channel.freq, i->channel.flags,
           i->channel.center, i->channel.band, (uint8_t) i->rate_raw, (int) (i->rate * 2), i->antenna_count);
    for (int k = 0; k < i->antenna_count && k < LIBWIFI_MAX_RADIOTAP_ANTENNAS; k++)
        printf("%s%u:%u", k ? "," : "", i->antennas[k].antenna_number, (uint8_t) i->antennas[k].signal);
    printf("] sig=%u fl=%u ext=%u rx=%u tx=%u mcs=%u,%u,%u txp=%u ts=%llu,%u,%u,%u rts=%u data=%u present=%u",
           (uint8_t) i->signal, i->flags, i->extended_flags, i->rx_flags, i->tx_flags, i->mcs.known, i->mcs.flags,
           i->mcs.mcs, (uint8_t) i->tx_power, (unsigned long long) i->timestamp.timestamp, i->timestamp.accuracy,
           i->timestamp.unit, i->timestamp.flags, i->rts_retries, i->data_retries, i->present);
}

/* rtap <hex>: libwifi_parse_radiotap_info on an exactly sized block, output object pre-filled */
static void op_rtap(int nt, char **t) {
    (void) nt;
    size_t n; unsigned char *b = hexbuf(t[1], &n);
    struct libwifi_radiotap_info info; memset(&info, prefill, sizeof info);
    int r;
    LIB(r = libwifi_parse_radiotap_info(&info, b, n));
    if (r != 0) printf("rtap err"); else { printf("rtap ok "); print_rtinfo(&info); }
    hfree(b);
}

static void op_rssi(int nt, char **t) {
    (void) nt;
    size_t n; unsigned char *b = hexbuf(t[1], &n);
    int8_t r;
    LIB(r = libwifi_parse_radiotap_rssi(b));
    printf("rssi %u", (uint8_t) r);
    hfree(b);
}

/* rtgen present freq chfl rate sig fl rx tx mk mf mm txp ts acc unit tsfl rts data nant a0n a0s
 * generated into an exactly LIBWIFI_MAX_RADIOTAP_LEN-byte heap block, then decoded again */
static void op_rtgen(int nt, char **t) {
    (void) nt;
    struct libwifi_radiotap_info in; memset(&in, 0, sizeof in);
    in.present = (uint32_t) tok_ull(t[1]);
    in.channel.freq = (uint16_t) tok_ll(t[2]); in.channel.flags = (uint16_t) tok_ll(t[3]);
    in.rate_raw = (int8_t) tok_ll(t[4]); in.signal = (int8_t) tok_ll(t[5]); in.flags = (uint8_t) tok_ll(t[6]);
    in.rx_flags = (uint16_t) tok_ll(t[7]); in.tx_flags = (uint16_t) tok_ll(t[8]);
    in.mcs.known = (uint8_t) tok_ll(t[9]); in.mcs.flags = (uint8_t) tok_ll(t[10]); in.mcs.mcs = (uint8_t) tok_ll(t[11]);
    in.tx_power = (int8_t) tok_ll(t[12]);
    in.timestamp.timestamp = tok_ull(t[13]); in.timestamp.accuracy = (uint16_t) tok_ll(t[14]);
    in.timestamp.unit = (uint8_t) tok_ll(t[15]); in.timestamp.flags = (uint8_t) tok_ll(t[16]);
    in.rts_retries = (uint8_t) tok_ll(t[17]); in.data_retries = (uint8_t) tok_ll(t[18]);
    in.antenna_count = (uint8_t) tok_ll(t[19]);
    for (int k = 0; k < in.antenna_count && k < LIBWIFI_MAX_RADIOTAP_ANTENNAS; k++) {
        in.antennas[k].antenna_number = (uint8_t) (tok_ll(t[20]) + k); in.antennas[k].signal = (int8_t) (tok_ll(t[21]) + k);
    }
    unsigned char *buf = __real_malloc(LIBWIFI_MAX_RADIOTAP_LEN);
    memset(buf, 0xEE, LIBWIFI_MAX_RADIOTAP_LEN);
    size_t r;
    LIB(r = libwifi_create_radiotap(&in, (char *) buf));
    if (r > LIBWIFI_MAX_RADIOTAP_LEN) { printf("rtgen TOO-LONG %zu", r); hfree(buf); return; }
    printf("rtgen %zu ", r); out_hex(buf, r);
    int touched = 0;
    for (size_t i = r; i < LIBWIFI_MAX_RADIOTAP_LEN; i++) touched |= buf[i] != 0xEE;
    if (touched) printf(" BEYOND");
    /* decode exactly the bytes produced, from a block that puts them at an alignment derived from the selection
       (0..7): a decoder must not care where the header sits in memory */
    size_t mis = (size_t) ((in.present ^ (in.present >> 3) ^ r) % 8);
    unsigned char *gbase = __real_malloc(mis + r);
    unsigned char *gen = gbase + mis; memcpy(gen, buf, r);
    struct libwifi_radiotap_info out; memset(&out, prefill, sizeof out);
    int pr;
    LIB(pr = libwifi_parse_radiotap_info(&out, gen, r));
    if (pr != 0) printf(" parse=err"); else { printf(" parse=ok "); print_rtinfo(&out); }
    __real_free(gbase); hfree(buf);
}

const struct op ops_rtap[] = {
    {"rtgen", op_rtgen},
    {"rtap", op_rtap},
    {"rssi", op_rssi},
    {"rssi_trunc", op_rssi},
    {NULL, NULL},
};
