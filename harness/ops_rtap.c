/* radiotap: parse (C09), generate (C10, C07) */
#include "h.h"

void print_rtinfo(const struct libwifi_radiotap_info *i) {
    printf("len=%u ch=%u,%u,%u,%u rate=%u,%d ant=%u[", i->length, i->channel.freq, i->channel.flags,
           i->channel.center, i->channel.band, (uint8_t) i->rate_raw, (int) (i->rate * 2), i->antenna_count);
    for (int k = 0; k < i->antenna_count && k < LIBWIFI_MAX_RADIOTAP_ANTENNAS; k++)
        printf("%s%u:%u", k ? "," : "", i->antennas[k].antenna_number, (uint8_t) i->antennas[k].signal);
    printf("] sig=%u fl=%u ext=%u rx=%u tx=%u mcs=%u,%u,%u txp=%u ts=%llu,%u,%u,%u rts=%u data=%u present=%u",
           (uint8_t) i->signal, i->flags, i->extended_flags, i->rx_flags, i->tx_flags, i->mcs.known, i->mcs.flags,
           i->mcs.mcs, (uint8_t) i->tx_power, (unsigned long long) i->timestamp.timestamp, i->timestamp.accuracy,
           i->timestamp.unit, i->timestamp.flags, i->rts_retries, i->data_retries, i->present);
}

/* rtap <hex>: libwifi_parse_radiotap_info on an exactly sized block, output object pre-filled */
static void op_rtap(int nt, char **t) {
    (void) nt;
    size_t n; unsigned char *b = hexbuf(t[1], &n);
    struct libwifi_radiotap_info info; memset(&info, 0x5A, sizeof info);
    int r;
    LIB(r = libwifi_parse_radiotap_info(&info, b, n));
    if (r != 0) printf("rtap err"); else { printf("rtap ok "); print_rtinfo(&info); }
    __real_free(b);
}

static void op_rssi(int nt, char **t) {
    (void) nt;
    size_t n; unsigned char *b = hexbuf(t[1], &n);
    int8_t r;
    LIB(r = libwifi_parse_radiotap_rssi(b));
    printf("rssi %u", (uint8_t) r);
    __real_free(b);
}

const struct op ops_rtap[] = {
    {"rtap", op_rtap},
    {"rssi", op_rssi},
    {NULL, NULL},
};
