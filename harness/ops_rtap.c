#include "h.h"
const struct op ops_rtap[] = { {NULL, NULL} };
