/* epoch, tag names, CRC, capability macro, constants as compiled */
#include "h.h"

static void op_epoch(int nt, char **t) {
    (void) nt;
    clk_sec = tok_ll(t[1]); clk_nsec = tok_ll(t[2]);
    unsigned long long v;
    LIB(v = libwifi_get_epoch());
    printf("epoch %llu", v);
}

/* two successive readings */
static void op_epoch2(int nt, char **t) {
    (void) nt;
    unsigned long long v1, v2;
    clk_sec = tok_ll(t[1]); clk_nsec = tok_ll(t[2]);
    LIB(v1 = libwifi_get_epoch());
    clk_sec = tok_ll(t[3]); clk_nsec = tok_ll(t[4]);
    LIB(v2 = libwifi_get_epoch());
    printf("epoch2 %llu %llu", v1, v2);
}

/* timestamp field (bytes 24..31) of a freshly generated beacon / probe response / timing advertisement */
static void op_epoch_frames(int nt, char **t) {
    (void) nt;
    clk_sec = tok_ll(t[1]); clk_nsec = tok_ll(t[2]);
    unsigned char a[6] = {1, 2, 3, 4, 5, 6};
    unsigned char buf[512];
    printf("epoch_frames");
    {
        struct libwifi_beacon b; size_t n = 0; int r;
        LIB(r = libwifi_create_beacon(&b, a, a, a, "x", 1));
        if (r == 0) LIB(n = libwifi_dump_beacon(&b, buf, sizeof buf));
        putchar(' '); if (r == 0 && n >= 32 && n <= sizeof buf) out_hex(buf + 24, 8); else printf("err");
        LIB(libwifi_free_beacon(&b));
    }
    {
        struct libwifi_probe_resp b; size_t n = 0; int r;
        LIB(r = libwifi_create_probe_resp(&b, a, a, a, "x", 1));
        if (r == 0) LIB(n = libwifi_dump_probe_resp(&b, buf, sizeof buf));
        putchar(' '); if (r == 0 && n >= 32 && n <= sizeof buf) out_hex(buf + 24, 8); else printf("err");
        LIB(libwifi_free_probe_resp(&b));
    }
    {
        struct libwifi_timing_advert b; size_t n = 0; int r;
        struct libwifi_timing_advert_fields f; memset(&f, 0, sizeof f);
        LIB(r = libwifi_create_timing_advert(&b, a, a, a, &f, "GB", 1, 1, 1, 1));
        if (r == 0) LIB(n = libwifi_dump_timing_advert(&b, buf, sizeof buf));
        putchar(' '); if (r == 0 && n >= 32 && n <= sizeof buf) out_hex(buf + 24, 8); else printf("err");
        LIB(libwifi_free_timing_advert(&b));
    }
}

/* tagname <int>: the returned string, after checking the pointer is readable and NUL-terminated */
static void op_tagname(int nt, char **t) {
    (void) nt;
    int v = (int) tok_ll(t[1]);
    char *s;
    LIB(s = libwifi_get_tag_name(v));
    if (s == NULL) { printf("tagname null"); return; }
    size_t n = strnlen(s, 256);
    if (n >= 256) { printf("tagname unterminated"); return; }
    printf("tagname %s", s);
}

/* tagname_range lo hi: every z in [lo,hi] whose name differs from the name of INT_MIN */
static void op_tagname_range(int nt, char **t) {
    (void) nt;
    long long lo = tok_ll(t[1]), hi = tok_ll(t[2]);
    const char *d;
    LIB(d = libwifi_get_tag_name((-2147483647 - 1)));
    printf("tagname_range default=%s", d ? d : "null");
    for (long long z = lo; z <= hi; z++) {
        const char *s;
        LIB(s = libwifi_get_tag_name((int) z));
        if (s != d && (s == NULL || d == NULL || strcmp(s, d) != 0)) printf(" %lld=%s", z, s ? s : "null");
    }
}

/* the enumerators themselves are observed at compile time by the translator's probe */
static void op_enumcheck(int nt, char **t) { (void) nt; (void) t; printf("enumcheck compiled"); }

const struct op ops_misc[] = {
    {"epoch", op_epoch},
    {"epoch2", op_epoch2},
    {"epoch_frames", op_epoch_frames},
    {"tagname", op_tagname},
    {"tagname_range", op_tagname_range},
    {"enumcheck", op_enumcheck},
    {NULL, NULL},
};
