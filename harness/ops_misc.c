/* epoch, tag names, CRC, capability macro, constants as compiled */
#include "h.h"

static void op_epoch(int nt, char **t) {
    (void) nt;
    clk_sec = tok_ll(t[1]); clk_nsec = tok_ll(t[2]);
    unsigned long long v;
    LIB(v = libwifi_get_epoch());
    printf("epoch %llu", v);
}

/* two successive readings */
static void op_epoch2(int nt, char **t) {
    (void) nt;
    unsigned long long v1, v2;
    clk_sec = tok_ll(t[1]); clk_nsec = tok_ll(t[2]);
    LIB(v1 = libwifi_get_epoch());
    clk_sec = tok_ll(t[3]); clk_nsec = tok_ll(t[4]);
    LIB(v2 = libwifi_get_epoch());
    printf("epoch2 %llu %llu", v1, v2);
}

/* timestamp field (bytes 24..31) of a freshly generated beacon / probe response / timing advertisement */
static void op_epoch_frames(int nt, char **t) {
    (void) nt;
    clk_sec = tok_ll(t[1]); clk_nsec = tok_ll(t[2]);
    unsigned char a[6] = {1, 2, 3, 4, 5, 6};
    unsigned char buf[512];
    printf("epoch_frames");
    {
        struct libwifi_beacon b; size_t n = 0; int r;
        LIB(r = libwifi_create_beacon(&b, a, a, a, "x", 1));
        if (r == 0) LIB(n = libwifi_dump_beacon(&b, buf, sizeof buf));
        putchar(' '); if (r == 0 && n >= 32 && n <= sizeof buf) out_hex(buf + 24, 8); else printf("err");
        LIB(libwifi_free_beacon(&b));
    }
    {
        struct libwifi_probe_resp b; size_t n = 0; int r;
        LIB(r = libwifi_create_probe_resp(&b, a, a, a, "x", 1));
        if (r == 0) LIB(n = libwifi_dump_probe_resp(&b, buf, sizeof buf));
        putchar(' '); if (r == 0 && n >= 32 && n <= sizeof buf) out_hex(buf + 24, 8); else printf("err");
        LIB(libwifi_free_probe_resp(&b));
    }
    {
        struct libwifi_timing_advert b; size_t n = 0; int r;
        struct libwifi_timing_advert_fields f; memset(&f, 0, sizeof f);
        LIB(r = libwifi_create_timing_advert(&b, a, a, a, &f, "GB", 1, 1, 1, 1));
        if (r == 0) LIB(n = libwifi_dump_timing_advert(&b, buf, sizeof buf));
        putchar(' '); if (r == 0 && n >= 32 && n <= sizeof buf) out_hex(buf + 24, 8); else printf("err");
        LIB(libwifi_free_timing_advert(&b));
    }
}

/* epoch_ticks <sec> <nsec> <step_ns> <rounds>: a clock that advances by step_ns after every reading; beacon, probe
 * response and timing advertisement generated in succession, <rounds> times: per frame "timestamp/readings taken" */
static void op_epoch_ticks(int nt, char **t) {
    (void) nt;
    clk_sec = tok_ll(t[1]); clk_nsec = tok_ll(t[2]); clk_step_ns = tok_ll(t[3]);
    int rounds = (int) tok_ll(t[4]);
    unsigned char a[6] = {1, 2, 3, 4, 5, 6};
    unsigned char buf[512];
    printf("epoch_ticks");
    for (int k = 0; k < rounds; k++) {
        for (int kind = 0; kind < 3; kind++) {
            size_t n = 0; int r; int c0 = clk_calls;
            if (kind == 0) { struct libwifi_beacon b; LIB(r = libwifi_create_beacon(&b, a, a, a, "x", 1));
                             if (r == 0) LIB(n = libwifi_dump_beacon(&b, buf, sizeof buf)); LIB(libwifi_free_beacon(&b)); }
            else if (kind == 1) { struct libwifi_probe_resp b; LIB(r = libwifi_create_probe_resp(&b, a, a, a, "x", 1));
                             if (r == 0) LIB(n = libwifi_dump_probe_resp(&b, buf, sizeof buf)); LIB(libwifi_free_probe_resp(&b)); }
            else { struct libwifi_timing_advert b; struct libwifi_timing_advert_fields f; memset(&f, 0, sizeof f);
                             LIB(r = libwifi_create_timing_advert(&b, a, a, a, &f, "GB", 1, 1, 1, 1));
                             if (r == 0) LIB(n = libwifi_dump_timing_advert(&b, buf, sizeof buf)); LIB(libwifi_free_timing_advert(&b)); }
            if (r == 0 && n >= 32 && n <= sizeof buf) {
                unsigned long long v = 0; for (int i = 7; i >= 0; i--) v = (v << 8) | buf[24 + i];
                printf(" %llu/%d", v, clk_calls - c0);
            } else printf(" err");
        }
    }
    clk_step_ns = 0;
}

/* tagname <int>: the returned string, after checking the pointer is readable and NUL-terminated */
static void op_tagname(int nt, char **t) {
    (void) nt;
    int v = (int) tok_ll(t[1]);
    char *s;
    LIB(s = libwifi_get_tag_name(v));
    if (s == NULL) { printf("tagname null"); return; }
    size_t n = strnlen(s, 256);
    if (n >= 256) { printf("tagname unterminated"); return; }
    printf("tagname %s", s);
}

/* tagname_range lo hi: every z in [lo,hi] whose name differs from the name of INT_MIN */
static void op_tagname_range(int nt, char **t) {
    (void) nt;
    long long lo = tok_ll(t[1]), hi = tok_ll(t[2]);
    const char *d;
    LIB(d = libwifi_get_tag_name((-2147483647 - 1)));
    printf("tagname_range default=%s", d ? d : "null");
    for (long long z = lo; z <= hi; z++) {
        const char *s;
        if (((z - lo) & 0xffff) == 0) dirty_stack();
        LIB_FAST(s = libwifi_get_tag_name((int) z));
        if (s != d && (s == NULL || d == NULL || strcmp(s, d) != 0)) printf(" %lld=%s", z, s ? s : "null");
    }
}

/* the enumerators themselves are observed at compile time by the translator's probe */
static void op_enumcheck(int nt, char **t) { (void) nt; (void) t; printf("enumcheck compiled"); }

/* crc <hex>: libwifi_crc32 and libwifi_calculate_fcs of the message */
static void op_crc(int nt, char **t) {
    (void) nt;
    size_t n; unsigned char *b = hexbuf(t[1], &n);
    uint32_t c, f;
    LIB(c = libwifi_crc32(b, (int) n));
    LIB(f = libwifi_calculate_fcs(b, n));
    unsigned char fb[4]; memcpy(fb, &f, 4);
    printf("crc %u ", c); out_hex(fb, 4);
    hfree(b);
}

/* verify <hex>: libwifi_frame_verify on an exactly sized block; the input must not be modified */
static void op_verify(int nt, char **t) {
    (void) nt;
    size_t n; unsigned char *b = hexbuf(t[1], &n);
    unsigned char *copy = __real_malloc(n); memcpy(copy, b, n);
    int r;
    LIB(r = libwifi_frame_verify(b, n));
    printf("verify %d%s", r, memcmp(copy, b, n) ? " MODIFIED" : "");
    hfree(b); hfree(copy);
}

/* verifyseq <hex> <hex> ...: equally long frames written one after the other into the SAME block, each verified (and its FCS
 * computed) in place: a receive buffer that is re-used; the answers must not depend on what was there before */
static void op_verifyseq(int nt, char **t) {
    size_t n0; unsigned char *first = hexbuf(t[1], &n0);
    unsigned char *blk = __real_malloc(n0 + 1);
    printf("verifyseq");
    for (int i = 1; i < nt; i++) {
        size_t n; unsigned char *b = i == 1 ? first : hexbuf(t[i], &n);
        if (i == 1) n = n0;
        if (n != n0) { printf(" LENGTH-MISMATCH"); if (i != 1) hfree(b); continue; }
        memcpy(blk, b, n);
        int r; uint32_t f = 0;
        LIB(r = libwifi_frame_verify(blk, n));
        if (n >= 4) LIB(f = libwifi_calculate_fcs(blk, n - 4));
        printf(" %d/%08x", r, f);
        if (i != 1) hfree(b);
    }
    hfree(first); __real_free(blk);
}

/* cap <shape> <name index> <a> <b> <c>: the capability macro as the real preprocessor and compiler see it */
#define CAP_NAMES(X) X(CAPABILITIES_ESS) X(CAPABILITIES_IBSS) X(CAPABILITIES_POLL) X(CAPABILITIES_POLL_REQ) \
    X(CAPABILITIES_PRIVACY) X(CAPABILITIES_SHORT_PREAMBLE) X(CAPABILITIES_PBCC) X(CAPABILITIES_CHAN_AGILITY) \
    X(CAPABILITIES_SPECTRUM_AGILITY) X(CAPABILITIES_SHORT_SLOT) X(CAPABILITIES_POWER_SAVE) X(CAPABILITIES_MEASUREMENT) \
    X(CAPABILITIES_DSSS_OFDM) X(CAPABILITIES_DELAYED_ACK) X(CAPABILITIES_IMMEDIATE_ACK)
#define CAP_FN(N) static long long cap_##N(int sh, uint16_t a, uint16_t b, uint16_t c) { \
    switch (sh) { \
        case 0: return libwifi_check_capabilities(a, N); \
        case 1: return libwifi_check_capabilities((a), N); \
        case 2: return libwifi_check_capabilities(a | b, N); \
        case 3: return libwifi_check_capabilities(c ? a : b, N); \
        case 4: return libwifi_check_capabilities(a & b, N); \
        case 5: return libwifi_check_capabilities(a ^ b, N); \
        case 6: return libwifi_check_capabilities(a + b, N); \
        default: return libwifi_check_capabilities(a << 1, N); \
    } }
CAP_NAMES(CAP_FN)
#define CAP_ENTRY(N) {#N, cap_##N},
static const struct { const char *name; long long (*fn)(int, uint16_t, uint16_t, uint16_t); } cap_tab[] = { CAP_NAMES(CAP_ENTRY) };

static void op_cap(int nt, char **t) {
    (void) nt;
    int sh = (int) tok_ll(t[1]);
    unsigned k = (unsigned) tok_ll(t[2]);
    if (k >= sizeof cap_tab / sizeof cap_tab[0]) { printf("cap bad-name"); return; }
    printf("cap %s %lld", cap_tab[k].name, cap_tab[k].fn(sh, (uint16_t) tok_ll(t[3]), (uint16_t) tok_ll(t[4]), (uint16_t) tok_ll(t[5])));
}

/* randmac <0|1 prefix> <prefixhex>: guarded 6-byte heap block */
static void op_randmac(int nt, char **t) {
    (void) nt;
    int usep = (int) tok_ll(t[1]);
    size_t n; unsigned char *p = hexbuf(t[2], &n);
    unsigned char *buf = __real_malloc(6); memset(buf, 0xEE, 6);
    rnd_pattern = 0xC0;
    LIB(libwifi_random_mac(buf, usep ? p : NULL));
    printf("randmac "); out_hex(buf, 6);
    hfree(buf); hfree(p);
}

const struct op ops_misc[] = {
    {"epoch", op_epoch},
    {"epoch2", op_epoch2},
    {"epoch_frames", op_epoch_frames},
    {"epoch_ticks", op_epoch_ticks},
    {"randmac", op_randmac},
    {"cap", op_cap},
    {"crc", op_crc},
    {"verify", op_verify},
    {"verifyseq", op_verifyseq},
    {"tagname", op_tagname},
    {"tagname_range", op_tagname_range},
    {"enumcheck", op_enumcheck},
    {NULL, NULL},
};
