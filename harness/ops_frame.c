#include "h.h"
const struct op ops_frame[] = { {NULL, NULL} };
