/* frame classification (C02), data extraction, management parsers (C04/C08), EAPOL (C12) */
#include "h.h"
void print_rtinfo(const struct libwifi_radiotap_info *i);

/* canonical libwifi_frame: header bytes are the first header_len bytes of the union */
void print_frame(const struct libwifi_frame *f) {
    printf("flags=%u fc=", f->flags);
    out_hex((const unsigned char *) &f->frame_control, 2);
    printf(" len=%zu hl=%zu hdr=", f->len, f->header_len);
    out_hex((const unsigned char *) &f->header, f->header_len <= sizeof f->header ? f->header_len : sizeof f->header);
    printf(" body=");
    size_t bl = f->len - f->header_len;
    if (bl > 0 && f->body) out_hex(f->body, bl); else printf("-");
    if (bl > 0 && !f->body) printf(" NULLBODY");
    if (bl == 0 && f->body) printf(" BODYPTR");
    printf(" rt=[");
    if (f->radiotap_info) print_rtinfo(f->radiotap_info); else printf("-");
    printf("]");
}

/* classify <radiotap 0|1> <hex> */
static void op_classify(int nt, char **t) {
    (void) nt;
    int rt = (int) tok_ll(t[1]);
    size_t n; unsigned char *b = hexbuf(t[2], &n);
    unsigned char *copy = __real_malloc(n); memcpy(copy, b, n);
    struct libwifi_frame f; memset(&f, prefill, sizeof f);
    int r;
    LIB(r = libwifi_get_wifi_frame(&f, b, n, rt));
    int modified = memcmp(copy, b, n) != 0;
    /* a classified frame owns its data: wipe and release the input before looking at the result */
    memset(b, 0xEE, n); hfree(b); hfree(copy);
    if (r != 0) {
        printf("classify err");
    } else {
        printf("classify ok ");
        print_frame(&f);
        struct libwifi_data d; memset(&d, 0, sizeof d);
        int dr;
        LIB(dr = libwifi_parse_data(&d, &f));
        if (dr != 0) printf(" data=err");
        else {
            printf(" data=");
            out_hex(d.receiver, 6); putchar(','); out_hex(d.transmitter, 6); printf(",%zu,", d.body_len);
            if (d.body_len) out_hex(d.body, d.body_len); else putchar('-');
            LIB(libwifi_free_data(&d));
        }
    }
    if (modified) printf(" INPUT-MODIFIED");
    LIB(libwifi_free_wifi_frame(&f));
    if (ledger_live()) printf(" LEAK(%d)", ledger_live());
}

/* eapol <radiotap 0|1> <hex>: classify, then the four EAPOL routines on the classified frame */
static void op_eapol(int nt, char **t) {
    (void) nt;
    int rt = (int) tok_ll(t[1]);
    size_t n; unsigned char *b = hexbuf(t[2], &n);
    struct libwifi_frame f; memset(&f, prefill, sizeof f);
    int r;
    LIB(r = libwifi_get_wifi_frame(&f, b, n, rt));
    memset(b, 0xEE, n); hfree(b);
    if (r != 0) { printf("eapol cls=err"); LIB(libwifi_free_wifi_frame(&f)); return; }
    int hs, msg, kdl, gr;
    const char *ms;
    LIB(hs = libwifi_check_wpa_handshake(&f));
    LIB(msg = libwifi_check_wpa_message(&f));
    LIB(ms = libwifi_get_wpa_message_string(&f));
    LIB(kdl = libwifi_get_wpa_key_data_length(&f));
    struct libwifi_wpa_auth_data d; memset(&d, prefill, sizeof d);
    LIB(gr = libwifi_get_wpa_data(&f, &d));
    printf("eapol hs=%s msg=%d,%s kdl=%s%d data=", hs < 0 ? "err" : "1", msg, ms, kdl < 0 ? "err" : "", kdl < 0 ? 0 : kdl);
    if (gr != 0) printf("err");
    else {
        printf("%u,%u,%u,%u,%u,%u,%llu,", d.version, d.type, d.length, d.descriptor, d.key_info.information,
               d.key_info.key_length, (unsigned long long) d.key_info.replay_counter);
        out_hex(d.key_info.nonce, 32); putchar(','); out_hex(d.key_info.iv, 16); putchar(',');
        out_hex(d.key_info.rsc, 8); putchar(','); out_hex(d.key_info.id, 8); putchar(','); out_hex(d.key_info.mic, 16);
        printf(",%u,", d.key_info.key_data_length);
        if (d.key_info.key_data_length) out_hex(d.key_info.key_data, d.key_info.key_data_length); else putchar('-');
        if (d.key_info.key_data_length == 0 && d.key_info.key_data != NULL) printf(" KEYDATA-PTR");
    }
    LIB(libwifi_free_wpa_data(&d));
    LIB(libwifi_free_wifi_frame(&f));
    if (ledger_live()) printf(" LEAK(%d)", ledger_live());
}

static void pr_suite(const struct libwifi_cipher_suite *c) { out_hex(c->oui, 3); printf(":%u", c->suite_type); }
static void print_bss(const struct libwifi_bss *b) {
    out_hex(b->transmitter, 6); putchar(','); out_hex(b->receiver, 6); putchar(','); out_hex(b->bssid, 6); putchar(',');
    out_hex((const unsigned char *) b->ssid, 33);
    printf(",h%d,c%u,w%u,e%llu,s%d,wpa{%u,", b->hidden, b->channel, b->wps, (unsigned long long) b->encryption_info, b->signal, b->wpa_info.wpa_version);
    pr_suite(&b->wpa_info.multicast_cipher_suite);
    printf(",%u[", b->wpa_info.num_unicast_cipher_suites);
    for (int i = 0; i < LIBWIFI_MAX_CIPHER_SUITES; i++) { pr_suite(&b->wpa_info.unicast_cipher_suites[i]); putchar(' '); }
    printf("],%u[", b->wpa_info.num_auth_key_mgmt_suites);
    for (int i = 0; i < LIBWIFI_MAX_CIPHER_SUITES; i++) { pr_suite(&b->wpa_info.auth_key_mgmt_suites[i]); putchar(' '); }
    printf("]},rsn{%u,", b->rsn_info.rsn_version);
    pr_suite(&b->rsn_info.group_cipher_suite);
    printf(",%d[", b->rsn_info.num_pairwise_cipher_suites);
    for (int i = 0; i < LIBWIFI_MAX_CIPHER_SUITES; i++) { pr_suite(&b->rsn_info.pairwise_cipher_suites[i]); putchar(' '); }
    printf("],%d[", b->rsn_info.num_auth_key_mgmt_suites);
    for (int i = 0; i < LIBWIFI_MAX_CIPHER_SUITES; i++) { pr_suite(&b->rsn_info.auth_key_mgmt_suites[i]); putchar(' '); }
    printf("],%u},t%zu:", b->rsn_info.rsn_capabilities, b->tags.length);
    if (b->tags.length) out_hex(b->tags.parameters, b->tags.length); else putchar('-');
}
static void print_sta(const struct libwifi_sta *s) {
    printf("c%u,r%u,", s->channel, s->randomized);
    out_hex(s->transmitter, 6); putchar(','); out_hex(s->receiver, 6); putchar(','); out_hex(s->bssid, 6); putchar(',');
    out_hex((const unsigned char *) s->ssid, 33);
    printf(",b%u,t%zu:", s->broadcast_ssid, s->tags.length);
    if (s->tags.length) out_hex(s->tags.parameters, s->tags.length); else putchar('-');
}

/* mgmt <radiotap 0|1> <hex>: classify, then all nine management parsers on the classified frame */
static void op_mgmt(int nt, char **t) {
    (void) nt;
    int rt = (int) tok_ll(t[1]);
    size_t n; unsigned char *b = hexbuf(t[2], &n);
    struct libwifi_frame f; memset(&f, prefill, sizeof f);
    int r;
    LIB(r = libwifi_get_wifi_frame(&f, b, n, rt));
    memset(b, 0xEE, n); hfree(b);
    if (r != 0) { printf("mgmt cls=err"); LIB(libwifi_free_wifi_frame(&f)); return; }
    printf("mgmt");
    typedef int (*bssp)(struct libwifi_bss *, struct libwifi_frame *);
    typedef int (*stap)(struct libwifi_sta *, struct libwifi_frame *);
    static const struct { const char *nm; bssp fn; } BP[] = { {"beacon", libwifi_parse_beacon}, {"probe_resp", libwifi_parse_probe_resp},
        {"assoc_resp", libwifi_parse_assoc_resp}, {"reassoc_resp", libwifi_parse_reassoc_resp} };
    static const struct { const char *nm; stap fn; } SP[] = { {"probe_req", libwifi_parse_probe_req}, {"assoc_req", libwifi_parse_assoc_req},
        {"reassoc_req", libwifi_parse_reassoc_req} };
    for (int i = 0; i < 4; i++) {
        struct libwifi_bss bss; memset(&bss, prefill, sizeof bss);
        int pr; LIB(pr = BP[i].fn(&bss, &f));
        printf(" %s=", BP[i].nm);
        if (pr != 0) printf("err"); else print_bss(&bss);
        LIB(libwifi_free_bss(&bss));
    }
    for (int i = 0; i < 3; i++) {
        struct libwifi_sta sta; memset(&sta, prefill, sizeof sta);
        int pr; LIB(pr = SP[i].fn(&sta, &f));
        printf(" %s=", SP[i].nm);
        if (pr != 0) printf("err"); else print_sta(&sta);
        LIB(libwifi_free_sta(&sta));
    }
    {
        struct libwifi_parsed_deauth d; memset(&d, prefill, sizeof d);
        int pr; LIB(pr = libwifi_parse_deauth(&d, &f));
        printf(" deauth=");
        if (pr != 0) printf("err"); else { printf("o%d,", d.ordered); out_hex((unsigned char *) &d.frame_header, d.ordered ? 28 : 24);
            printf(",r%u,t%zu:", d.fixed_parameters.reason_code, d.tags.length); if (d.tags.length) out_hex(d.tags.parameters, d.tags.length); else putchar('-'); }
        LIB(libwifi_free_parsed_deauth(&d));
    }
    {
        struct libwifi_parsed_disassoc d; memset(&d, prefill, sizeof d);
        int pr; LIB(pr = libwifi_parse_disassoc(&d, &f));
        printf(" disassoc=");
        if (pr != 0) printf("err"); else { printf("o%d,", d.ordered); out_hex((unsigned char *) &d.frame_header, d.ordered ? 28 : 24);
            printf(",r%u,t%zu:", d.fixed_parameters.reason_code, d.tags.length); if (d.tags.length) out_hex(d.tags.parameters, d.tags.length); else putchar('-'); }
        LIB(libwifi_free_parsed_disassoc(&d));
    }
    LIB(libwifi_free_wifi_frame(&f));
    if (ledger_live()) printf(" LEAK(%d)", ledger_live());
}

/* ie <rsn|wpa|msft> <hex>: the element decoders called directly on an exactly sized block (C01, C08)
 *   rsn : libwifi_get_rsn_info(info, p, p + n)         (p = element body)
 *   wpa : libwifi_get_wpa_info(info, p, p + n)         (p = what follows the 4-byte vendor header)
 *   msft: libwifi_bss_handle_msft_tag(bss, p, n)       (p = vendor element body, bss zeroed) */
static void op_ie(int nt, char **t) {
    (void) nt;
    size_t n; unsigned char *p = hexbuf(t[2], &n);
    printf("ie %s ", t[1]);
    if (strcmp(t[1], "rsn") == 0) {
        struct libwifi_rsn_info i; memset(&i, prefill, sizeof i);
        int r; LIB(r = libwifi_get_rsn_info(&i, p, p + n));
        if (r != 0) printf("err"); else {
            printf("ok %u,", i.rsn_version); pr_suite(&i.group_cipher_suite);
            printf(",%d[", i.num_pairwise_cipher_suites);
            for (int k = 0; k < LIBWIFI_MAX_CIPHER_SUITES; k++) { pr_suite(&i.pairwise_cipher_suites[k]); putchar(' '); }
            printf("],%d[", i.num_auth_key_mgmt_suites);
            for (int k = 0; k < LIBWIFI_MAX_CIPHER_SUITES; k++) { pr_suite(&i.auth_key_mgmt_suites[k]); putchar(' '); }
            printf("],%u", i.rsn_capabilities);
        }
    } else if (strcmp(t[1], "wpa") == 0) {
        struct libwifi_wpa_info i; memset(&i, prefill, sizeof i);
        int r; LIB(r = libwifi_get_wpa_info(&i, p, p + n));
        if (r != 0) printf("err"); else {
            printf("ok %u,", i.wpa_version); pr_suite(&i.multicast_cipher_suite);
            printf(",%u[", i.num_unicast_cipher_suites);
            for (int k = 0; k < LIBWIFI_MAX_CIPHER_SUITES; k++) { pr_suite(&i.unicast_cipher_suites[k]); putchar(' '); }
            printf("],%u[", i.num_auth_key_mgmt_suites);
            for (int k = 0; k < LIBWIFI_MAX_CIPHER_SUITES; k++) { pr_suite(&i.auth_key_mgmt_suites[k]); putchar(' '); }
            printf("]");
        }
    } else {
        struct libwifi_bss b; memset(&b, 0, sizeof b);
        int r; LIB(r = libwifi_bss_handle_msft_tag(&b, p, (int) n));
        if (r != 0) printf("err"); else printf("ok e%llu,w%u,%u", (unsigned long long) b.encryption_info, b.wps, b.wpa_info.wpa_version);
    }
    hfree(p);
    if (ledger_live()) printf(" LEAK(%d)", ledger_live());
}

const struct op ops_frame[] = {
    {"ie", op_ie},
    {"mgmt", op_mgmt},
    {"eapol", op_eapol},
    {"classify", op_classify},
    {NULL, NULL},
};
