/* Correspondence harness (tie #2), implementation side.
 * Reads one case per line on stdin, runs the real library (built from /repo's working tree),
 * prints one canonical observation line per case on stdout, flushed, so that a crash is
 * attributable to the first case without an answer.
 *
 * Link with -Wl,--wrap=malloc,--wrap=realloc,--wrap=free,--wrap=calloc,--wrap=clock_gettime,--wrap=getrandom
 */
#define _GNU_SOURCE
#include "h.h"

/* ------------------------------------------------------------------ wraps */
volatile int in_lib = 0;              /* set while a library routine runs */
long long clk_sec = 0, clk_nsec = 0;
long long clk_step_ns = 0;        /* the injected clock advances by this much after every reading */
int clk_calls = 0;

int __wrap_clock_gettime(clockid_t id, struct timespec *ts) {
    (void) id;
    clk_calls++;
    ts->tv_sec = (time_t) clk_sec;
    ts->tv_nsec = (long) clk_nsec;
    clk_nsec += clk_step_ns;
    while (clk_nsec >= 1000000000LL) { clk_nsec -= 1000000000LL; clk_sec++; }
    return 0;
}

unsigned char rnd_pattern = 0xC0;
ssize_t __wrap_getrandom(void *buf, size_t len, unsigned int flags) {
    (void) flags;
    unsigned char *p = buf;
    for (size_t i = 0; i < len; i++) p[i] = (unsigned char) (rnd_pattern + i);
    return (ssize_t) len;
}

/* allocation ledger + failure injection */
struct blk { void *p; size_t n; int live; };
static struct blk ledger[MAX_LEDGER];
int n_ledger = 0;
int alloc_count = 0;          /* allocations attempted by library code since reset */
int fail_at = -1;             /* index of the allocation that fails (-1: none) */
int fail_from = -1;           /* all allocations with index >= fail_from fail */
int trace_on = 0;
char trace_buf[TRACE_MAX];
size_t trace_len = 0;
unsigned char heap_fill = 0xA5;
int prefill = 0x5A;              /* pattern output objects are filled with before a call */
size_t env_tail = 0;             /* junk bytes placed right after every input buffer (non-ASan builds) */
unsigned char env_tail_byte = 0x41;
int env_misalign = -1;            /* input placement: -1 = derived from the input (0..7), else fixed offset */
int env_stack = -1;              /* stack pattern before library calls: -1 = derived from the case line, else this byte */
unsigned long line_hash = 0;
#define MAXHB 64
static struct { void *p, *base; } hb[MAXHB];
int ledger_errors = 0;

void *__real_malloc(size_t);
void *__real_realloc(void *, size_t);
void *__real_calloc(size_t, size_t);
void __real_free(void *);

static void tr(const char *fmt, ...) {
    if (!trace_on) return;
    va_list ap;
    va_start(ap, fmt);
    int k = vsnprintf(trace_buf + trace_len, TRACE_MAX - trace_len, fmt, ap);
    va_end(ap);
    if (k > 0 && trace_len + (size_t) k < TRACE_MAX) trace_len += (size_t) k;
}

static int blk_id(void *p) {
    for (int i = n_ledger - 1; i >= 0; i--)
        if (ledger[i].p == p && ledger[i].live) return i;
    return -1;
}

static int should_fail(void) {
    int k = alloc_count++;
    if (fail_at >= 0 && k == fail_at) return 1;
    if (fail_from >= 0 && k >= fail_from) return 1;
    return 0;
}

void *__wrap_malloc(size_t n) {
    if (!in_lib) return __real_malloc(n);
    if (should_fail()) { tr("m(%zu)=F ", n); return NULL; }
    void *p = __real_malloc(n);
    if (p && n) memset(p, heap_fill, n);
    if (n_ledger < MAX_LEDGER) { ledger[n_ledger].p = p; ledger[n_ledger].n = n; ledger[n_ledger].live = 1; n_ledger++; }
    tr("m(%zu)=b%d ", n, n_ledger - 1);
    return p;
}

void *__wrap_calloc(size_t a, size_t b) {
    if (!in_lib) return __real_calloc(a, b);
    if (should_fail()) { tr("c(%zu)=F ", a * b); return NULL; }
    void *p = __real_calloc(a, b);
    if (n_ledger < MAX_LEDGER) { ledger[n_ledger].p = p; ledger[n_ledger].n = a * b; ledger[n_ledger].live = 1; n_ledger++; }
    tr("c(%zu)=b%d ", a * b, n_ledger - 1);
    return p;
}

void *__wrap_realloc(void *q, size_t n) {
    if (!in_lib) return __real_realloc(q, n);
    int id = q ? blk_id(q) : -1;
    if (should_fail()) { tr("r(b%d,%zu)=F ", id, n); return NULL; }
    size_t old = id >= 0 ? ledger[id].n : 0;
    void *p = __real_realloc(q, n);
    if (p && n > old) memset((char *) p + old, heap_fill, n - old);
    if (id >= 0) ledger[id].live = 0;
    else if (q) ledger_errors++;
    if (n_ledger < MAX_LEDGER) { ledger[n_ledger].p = p; ledger[n_ledger].n = n; ledger[n_ledger].live = (p != NULL); n_ledger++; }
    tr("r(b%d,%zu)=b%d ", id, n, n_ledger - 1);
    return p;
}

void __wrap_free(void *q) {
    if (!in_lib) { __real_free(q); return; }
    if (q == NULL) { tr("f(0) "); return; }
    int id = blk_id(q);
    if (id >= 0) ledger[id].live = 0;
    else ledger_errors++;
    tr("f(b%d) ", id);
    __real_free(q);
}

void ledger_reset(void) {
    n_ledger = 0; alloc_count = 0; fail_at = -1; fail_from = -1; trace_len = 0; trace_buf[0] = 0; ledger_errors = 0;
}

int ledger_live(void) {
    int k = 0;
    for (int i = 0; i < n_ledger; i++) k += ledger[i].live;
    return k;
}

size_t ledger_live_bytes(void) {
    size_t k = 0;
    for (int i = 0; i < n_ledger; i++) if (ledger[i].live) k += ledger[i].n;
    return k;
}

/* fills the 24 KiB of stack below the caller's frame: four families of patterns chosen by the hash of the case line -
   every 32-bit word the same small number (0..47: field numbers, indices, counts), all bits set, small pseudo-random
   words, pseudo-random bytes.  A replay of the same line reproduces the same pattern. */
__attribute__((noinline, no_sanitize_address, no_sanitize_undefined)) void dirty_stack(void) {
    volatile uint32_t a[6144];
    unsigned long h = line_hash;
    uint32_t x = (uint32_t) (h >> 16) | 1u;
    int mode = env_stack >= 0 ? 4 : (int) (h % 4);
    for (int i = 0; i < 6144; i++) {
        switch (mode) {
            case 0: a[i] = (uint32_t) ((h >> 8) % 48); break;
            case 1: a[i] = 0xFFFFFFFFu; break;
            case 2: x ^= x << 13; x ^= x >> 17; x ^= x << 5; a[i] = x % 64; break;
            case 3: x ^= x << 13; x ^= x >> 17; x ^= x << 5; a[i] = x; break;
            default: a[i] = 0x01010101u * (uint32_t) (env_stack & 255);
        }
    }
}

void *volatile launder_sink;
__attribute__((noinline)) void launder(void *p) { launder_sink = p; }

/* ------------------------------------------------------------------ helpers */
static int hexv(int c) {
    if (c >= '0' && c <= '9') return c - '0';
    if (c >= 'a' && c <= 'f') return c - 'a' + 10;
    if (c >= 'A' && c <= 'F') return c - 'A' + 10;
    return -1;
}

/* parse a hex token ("-" = empty) into an exactly-sized heap block (ASan redzones on both sides) */
unsigned char *hexbuf(const char *tok, size_t *len) {
    size_t n = (tok == NULL || strcmp(tok, "-") == 0) ? 0 : strlen(tok) / 2;
    /* the input starts `mis` bytes into its block, so that it sits at every alignment over a run; the
       block still ends exactly at the input's last byte (red zone right behind it under ASan) */
    size_t mis = env_misalign >= 0 ? (size_t) env_misalign : (n ? (size_t) ((n * 5 + (size_t) hexv(tok[1])) % 8) : 0);
    unsigned char *base = __real_malloc(mis + n + env_tail);
    unsigned char *b = base + mis;
    for (size_t i = 0; i < n; i++) b[i] = (unsigned char) (hexv(tok[2 * i]) * 16 + hexv(tok[2 * i + 1]));
    for (size_t i = 0; i < env_tail; i++) b[n + i] = (unsigned char) (env_tail_byte + i);
    for (int i = 0; i < MAXHB; i++) if (hb[i].p == NULL) { hb[i].p = b; hb[i].base = base; break; }
    *len = n;
    return b;
}

/* release a block obtained from hexbuf (or any other harness block) */
void hfree(void *p) {
    if (p == NULL) return;
    for (int i = 0; i < MAXHB; i++) if (hb[i].p == p) { hb[i].p = NULL; __real_free(hb[i].base); return; }
    __real_free(p);
}

void out_hex(const unsigned char *p, size_t n) {
    if (n == 0) { fputs("-", stdout); return; }
    static const char *d = "0123456789abcdef";
    for (size_t i = 0; i < n; i++) { putchar(d[p[i] >> 4]); putchar(d[p[i] & 15]); }
}

long long tok_ll(const char *t) { return t ? strtoll(t, NULL, 0) : 0; }
unsigned long long tok_ull(const char *t) { return t ? strtoull(t, NULL, 0) : 0; }

/* ------------------------------------------------------------------ dispatch */
extern const struct op ops_misc[], ops_tags[], ops_frame[], ops_rtap[], ops_sec[], ops_gen[], ops_life[];
static const struct op *all_ops[] = { ops_misc, ops_tags, ops_frame, ops_rtap, ops_sec, ops_gen, ops_life, NULL };

int main(void) {
    static char line[1 << 20];
    char *toks[MAX_TOKS];
    setvbuf(stdout, NULL, _IOFBF, 1 << 16);
    int always_trace = getenv("VERIF_TRACE") != NULL;
    while (fgets(line, sizeof line, stdin)) {
        size_t L = strlen(line);
        while (L && (line[L - 1] == '\n' || line[L - 1] == '\r')) line[--L] = 0;
        if (L == 0 || line[0] == '#') { continue; }
        line_hash = 1469598103934665603UL;
        for (size_t i = 0; i < L; i++) line_hash = (line_hash ^ (unsigned char) line[i]) * 1099511628211UL;
        int nt = 0;
        for (char *p = strtok(line, " "); p && nt < MAX_TOKS; p = strtok(NULL, " ")) toks[nt++] = p;
        for (int i = nt; i < MAX_TOKS; i++) toks[i] = NULL;
        int found = 0;
        for (int g = 0; all_ops[g] && !found; g++)
            for (const struct op *o = all_ops[g]; o->name; o++)
                if (strcmp(o->name, toks[0]) == 0) {
                    ledger_reset();
                    if (always_trace) trace_on = 1;
                    o->fn(nt, toks);
                    if (always_trace) printf(" TRACE[%s]", trace_buf);
                    found = 1;
                    break;
                }
        if (!found && strcmp(toks[0], "env") == 0) {
            /* env <heap fill> <output prefill> <tail bytes> <tail byte>: the environment of the following cases */
            heap_fill = (unsigned char) tok_ll(toks[1]); prefill = (int) tok_ll(toks[2]);
            env_tail = (size_t) tok_ll(toks[3]); env_tail_byte = (unsigned char) tok_ll(toks[4]);
            if (toks[5]) env_misalign = (int) tok_ll(toks[5]);
            if (toks[6]) env_stack = (int) tok_ll(toks[6]);
            printf("env set"); found = 1;
        }
        if (!found) printf("unknown-op %s", toks[0]);
        putchar('\n');
        fflush(stdout);
    }
    return 0;
}
