#ifndef VERIF_H_H
#define VERIF_H_H
#include <errno.h>
#include <stdarg.h>
#include <stdint.h>
#include <stdio.h>
#include <stdlib.h>
#include <string.h>
#include <sys/types.h>
#include <time.h>
#include "libwifi.h"

#define MAX_TOKS 8192
#define MAX_LEDGER 4096
#define TRACE_MAX 16384

struct op { const char *name; void (*fn)(int nt, char **t); };

extern volatile int in_lib;
extern long long clk_sec, clk_nsec, clk_step_ns;
extern int clk_calls;
extern unsigned char rnd_pattern;
extern int n_ledger, alloc_count, fail_at, fail_from, trace_on, ledger_errors;
extern char trace_buf[];
extern size_t trace_len;
extern unsigned char heap_fill;
extern int prefill;
extern size_t env_tail;
extern unsigned char env_tail_byte;

void *__real_malloc(size_t);
void __real_free(void *);
void ledger_reset(void);
int ledger_live(void);
size_t ledger_live_bytes(void);
unsigned char *hexbuf(const char *tok, size_t *len);
void hfree(void *p);
void out_hex(const unsigned char *p, size_t n);
long long tok_ll(const char *t);
unsigned long long tok_ull(const char *t);

/* canonical return: ok(n) for n >= 0, err for negative (size_t returns are read as signed) */
/* before every library call the stack region the call is about to use is filled with a pattern derived from the case
   line (or fixed by the env op), so that an uninitialised automatic object shows up as a difference */
void dirty_stack(void);
void launder(void *p);     /* the object escapes: the compiler may not assume its contents across the call */
#define LIB(expr) do { dirty_stack(); in_lib = 1; expr; in_lib = 0; } while (0)
/* inside sweeps of 2^32 calls: the 24 KiB fill per call would dominate; the sweep dirties the stack every 65536 calls itself */
#define LIB_FAST(expr) do { in_lib = 1; expr; in_lib = 0; } while (0)
#endif
