#include "h.h"
const struct op ops_gen[] = { {NULL, NULL} };
