/* frame generators (C03) and dump bounds (C07)
 * gen <kind> <a1> <a2> <a3> <p1> .. <p7> [extras: A:<num>:<hex> | X (remove every element) | D:<hex>] ... B<buflen>|B*
 *   B<n>: one dump into an exactly n-byte heap block; B*: every size 0..len+2 */
#include "h.h"

#define CLK_SEC 1700000000LL
#define CLK_NSEC 123456789LL

static unsigned char *mac(const char *tok) { size_t n; unsigned char *b = hexbuf(tok, &n); unsigned char *m = __real_malloc(6); memset(m, 0, 6); memcpy(m, b, n < 6 ? n : 6); hfree(b); return m; }
static char *cstr_tok(const char *tok) { size_t n; unsigned char *b = hexbuf(tok, &n); char *z = __real_malloc(n + 1); memcpy(z, b, n); z[n] = 0; hfree(b); return z; }

typedef size_t (*dump_fn)(void *, unsigned char *, size_t);
typedef size_t (*len_fn)(void *);

/* one dump into an exactly sized block with 0xEE fill; prints result and integrity flags */
static void dump_once(void *obj, dump_fn df, size_t bl, size_t expect_len, int print_bytes) {
    unsigned char *buf = __real_malloc(bl);
    memset(buf, 0xEE, bl);
    size_t r;
    LIB(r = df(obj, buf, bl));
    if ((long) r < 0) {
        int touched = 0;
        for (size_t i = 0; i < bl; i++) touched |= buf[i] != 0xEE;
        printf("err%s", touched ? " TOUCHED" : "");
    } else {
        printf("ok %zu ", r);
        if (print_bytes) out_hex(buf, r <= bl ? r : bl);
        int beyond = 0;
        for (size_t i = r; i < bl; i++) beyond |= buf[i] != 0xEE;
        if (beyond) printf(" BEYOND");
        if (r != expect_len) printf(" LEN-MISMATCH");
    }
    hfree(buf);
}

static void do_dump(void *obj, dump_fn df, len_fn lf, const char *btok) {
    size_t len;
    LIB(len = lf(obj));
    printf(" len=%zu dump=", len);
    if (btok[1] == '*') {
        /* reference bytes from an exact-size dump, then every other size */
        unsigned char *ref = __real_malloc(len); size_t r0;
        LIB(r0 = df(obj, ref, len));
        int bad = 0; size_t first_ok = (size_t) -1;
        for (size_t bl = 0; bl <= len + 2 && !bad; bl++) {
            unsigned char *buf = __real_malloc(bl); memset(buf, 0xEE, bl);
            size_t r;
            LIB(r = df(obj, buf, bl));
            if ((long) r < 0) { for (size_t i = 0; i < bl; i++) if (buf[i] != 0xEE) bad = 1; if (bl >= len) bad = 2; }
            else {
                if (first_ok == (size_t) -1) first_ok = bl;
                if (bl < len || r != len || r0 != len || memcmp(buf, ref, len) != 0) bad = 3;
                for (size_t i = len; i < bl; i++) if (buf[i] != 0xEE) bad = 4;
            }
            hfree(buf);
        }
        if (bad) printf("SWEEP-BAD(%d)", bad); else printf("sweep first_ok=%zu", first_ok);
        hfree(ref);
    } else {
        dump_once(obj, df, (size_t) tok_ll(btok + 1), len, 1);
    }
}

/* setters called after creation: S:<hex ssid> (beacon, probe response), C:<channel> (those and the two responses) */
static int (*set_ssid_fn)(void *, const char *) = NULL;
static int (*set_chan_fn)(void *, uint8_t) = NULL;
static void *set_obj = NULL;

static int add_extras(struct libwifi_tagged_parameters *tags, int nt, char **t, int from) {
    int r = 0;
    for (int i = from; i < nt - 1; i++) {
        char *o = t[i];
        if (o[0] == 'X') {            /* strip: remove every element, leaving an object without tagged parameters */
            int guard = 0;
            while (tags->length > 0 && guard++ < 100000) { int num = tags->parameters[0]; LIB(libwifi_remove_tag(tags, num)); }
            continue;
        }
        if (o[0] == 'S' && o[1] == ':' && set_ssid_fn) { char *z = cstr_tok(o + 2); int rr; LIB(rr = set_ssid_fn(set_obj, z)); if (rr != 0) r = rr; hfree(z); continue; }
        if (o[0] == 'C' && o[1] == ':' && set_chan_fn) { int rr; LIB(rr = set_chan_fn(set_obj, (uint8_t) tok_ll(o + 2))); if (rr != 0) r = rr; continue; }
        if (o[0] != 'A') continue;
        char *c2 = strchr(o + 2, ':'); *c2 = 0;
        size_t n; unsigned char *b = hexbuf(c2 + 1, &n);
        int rr;
        LIB(rr = libwifi_quick_add_tag(tags, (int) tok_ll(o + 2), b, n));
        if (rr != 0) r = rr;
        hfree(b);
    }
    return r;
}

#define TAGGED(T, CREATE, DUMP, LEN, FREE) do { \
        struct T o; memset(&o, prefill, sizeof o); int r; \
        LIB(r = CREATE); \
        printf("gen %d", r); \
        if (r == 0) { set_obj = &o; int er = add_extras(&o.tags, nt, t, 12); if (er) printf(" extras=%d", er); \
            do_dump(&o, (dump_fn) DUMP, (len_fn) LEN, t[nt - 1]); } \
        LIB(FREE(&o)); \
    } while (0)

static void op_gen(int nt, char **t) {
    const char *k = t[1];
    set_ssid_fn = NULL; set_chan_fn = NULL;
    if (!strcmp(k, "beacon")) { set_ssid_fn = (int (*)(void *, const char *)) libwifi_set_beacon_ssid; set_chan_fn = (int (*)(void *, uint8_t)) libwifi_set_beacon_channel; }
    else if (!strcmp(k, "probe_resp")) { set_ssid_fn = (int (*)(void *, const char *)) libwifi_set_probe_resp_ssid; set_chan_fn = (int (*)(void *, uint8_t)) libwifi_set_probe_resp_channel; }
    else if (!strcmp(k, "assoc_resp")) set_chan_fn = (int (*)(void *, uint8_t)) libwifi_set_assoc_resp_channel;
    else if (!strcmp(k, "reassoc_resp")) set_chan_fn = (int (*)(void *, uint8_t)) libwifi_set_reassoc_resp_channel;
    unsigned char *a1 = mac(t[2]), *a2 = mac(t[3]), *a3 = mac(t[4]);
    clk_sec = CLK_SEC; clk_nsec = CLK_NSEC;
    if (!strcmp(k, "beacon")) { char *ss = cstr_tok(t[5]);
        TAGGED(libwifi_beacon, libwifi_create_beacon(&o, a1, a2, a3, ss, (uint8_t) tok_ll(t[6])), libwifi_dump_beacon, libwifi_get_beacon_length, libwifi_free_beacon); hfree(ss); }
    else if (!strcmp(k, "probe_resp")) { char *ss = cstr_tok(t[5]);
        TAGGED(libwifi_probe_resp, libwifi_create_probe_resp(&o, a1, a2, a3, ss, (uint8_t) tok_ll(t[6])), libwifi_dump_probe_resp, libwifi_get_probe_resp_length, libwifi_free_probe_resp); hfree(ss); }
    else if (!strcmp(k, "probe_req")) { char *ss = cstr_tok(t[5]);
        TAGGED(libwifi_probe_req, libwifi_create_probe_req(&o, a1, a2, a3, ss, (uint8_t) tok_ll(t[6])), libwifi_dump_probe_req, libwifi_get_probe_req_length, libwifi_free_probe_req); hfree(ss); }
    else if (!strcmp(k, "assoc_req")) { char *ss = cstr_tok(t[5]);
        TAGGED(libwifi_assoc_req, libwifi_create_assoc_req(&o, a1, a2, a3, ss, (uint8_t) tok_ll(t[6])), libwifi_dump_assoc_req, libwifi_get_assoc_req_length, libwifi_free_assoc_req); hfree(ss); }
    else if (!strcmp(k, "reassoc_req")) { char *ss = cstr_tok(t[5]); unsigned char *ap = mac(t[7]);
        TAGGED(libwifi_reassoc_req, libwifi_create_reassoc_req(&o, a1, a2, a3, ap, ss, (uint8_t) tok_ll(t[6])), libwifi_dump_reassoc_req, libwifi_get_reassoc_req_length, libwifi_free_reassoc_req); hfree(ss); hfree(ap); }
    else if (!strcmp(k, "assoc_resp"))
        TAGGED(libwifi_assoc_resp, libwifi_create_assoc_resp(&o, a1, a2, a3, (uint8_t) tok_ll(t[6])), libwifi_dump_assoc_resp, libwifi_get_assoc_resp_length, libwifi_free_assoc_resp);
    else if (!strcmp(k, "reassoc_resp"))
        TAGGED(libwifi_reassoc_resp, libwifi_create_reassoc_resp(&o, a1, a2, a3, (uint8_t) tok_ll(t[6])), libwifi_dump_reassoc_resp, libwifi_get_reassoc_resp_length, libwifi_free_reassoc_resp);
    else if (!strcmp(k, "auth"))
        TAGGED(libwifi_auth, libwifi_create_auth(&o, a1, a2, a3, (uint16_t) tok_ll(t[5]), (uint16_t) tok_ll(t[6]), (uint16_t) tok_ll(t[7])), libwifi_dump_auth, libwifi_get_auth_length, libwifi_free_auth);
    else if (!strcmp(k, "deauth"))
        TAGGED(libwifi_deauth, libwifi_create_deauth(&o, a1, a2, a3, (uint16_t) tok_ll(t[5])), libwifi_dump_deauth, libwifi_get_deauth_length, libwifi_free_deauth);
    else if (!strcmp(k, "disassoc"))
        TAGGED(libwifi_disassoc, libwifi_create_disassoc(&o, a1, a2, a3, (uint16_t) tok_ll(t[5])), libwifi_dump_disassoc, libwifi_get_disassoc_length, libwifi_free_disassoc);
    else if (!strcmp(k, "timing_ad")) {
        struct libwifi_timing_advert_fields f; memset(&f, 0, sizeof f);
        size_t n; unsigned char *b;
        f.timing_capabilities = (uint8_t) tok_ll(t[5]);
        b = hexbuf(t[6], &n); memcpy(f.time_value, b, n < 10 ? n : 10); hfree(b);
        b = hexbuf(t[7], &n); memcpy(f.time_error, b, n < 5 ? n : 5); hfree(b);
        b = hexbuf(t[8], &n); memcpy(f.time_update, b, n < 1 ? n : 1); hfree(b);
        char country[3] = {0, 0, 0};
        b = hexbuf(t[9], &n); memcpy(country, b, n < 3 ? n : 3); hfree(b);
        int mt = 0, tu = 0, nf = 0; sscanf(t[11], "%d,%d,%d", &mt, &tu, &nf);
        TAGGED(libwifi_timing_advert, libwifi_create_timing_advert(&o, a1, a2, a3, &f, country, (uint16_t) tok_ll(t[10]), (uint8_t) mt, (uint8_t) tu, (uint8_t) nf),
               libwifi_dump_timing_advert, libwifi_get_timing_advert_length, libwifi_free_timing_advert);
    }
    else if (!strcmp(k, "action") || !strcmp(k, "action_noack")) {
        struct libwifi_action o; memset(&o, prefill, sizeof o); int r;
        if (k[6]) LIB(r = libwifi_create_action_no_ack(&o, a1, a2, a3, (uint8_t) tok_ll(t[5])));
        else LIB(r = libwifi_create_action(&o, a1, a2, a3, (uint8_t) tok_ll(t[5])));
        printf("gen %d", r);
        for (int i = 12; i < nt - 1; i++) if (t[i][0] == 'D') {
            size_t n; unsigned char *b = hexbuf(t[i] + 2, &n); size_t rr;
            LIB(rr = libwifi_add_action_detail(&o.fixed_parameters.details, b, n));
            printf(" d=%ld", (long) rr);
            hfree(b);
        }
        do_dump(&o, (dump_fn) libwifi_dump_action, (len_fn) libwifi_get_action_length, t[nt - 1]);
        LIB(libwifi_free_action(&o));
    }
    else if (!strcmp(k, "atim")) { struct libwifi_atim o; memset(&o, prefill, sizeof o); int r;
        LIB(r = libwifi_create_atim(&o, a1, a2, a3)); printf("gen %d img=", r); out_hex((unsigned char *) &o, sizeof o); }
    else if (!strcmp(k, "rts")) { struct libwifi_rts o; memset(&o, prefill, sizeof o); int r;
        LIB(r = libwifi_create_rts(&o, a1, a2, (uint16_t) tok_ll(t[5]))); printf("gen %d img=", r); out_hex((unsigned char *) &o, sizeof o); }
    else if (!strcmp(k, "cts")) { struct libwifi_cts o; memset(&o, prefill, sizeof o); int r;
        LIB(r = libwifi_create_cts(&o, a1, (uint16_t) tok_ll(t[5]))); printf("gen %d img=", r); out_hex((unsigned char *) &o, sizeof o); }
    else printf("gen unknown-kind");
    hfree(a1); hfree(a2); hfree(a3);
    if (ledger_live()) printf(" LEAK(%d)", ledger_live());
}

const struct op ops_gen[] = {
    {"gen", op_gen},
    {NULL, NULL},
};
