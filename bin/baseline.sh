#!/bin/sh
# Runs the repository's own test suite (25 ctest tests) against a library built from /repo's working tree
# with the verification guard OFF (no -DLIBWIFI_VERIF), in a scratch directory that is removed afterwards.
set -e
REPO=${VERIF_REPO:-/repo}
T=$(mktemp -d /tmp/lwbase.XXXXXX)
trap 'rm -rf "$T"' EXIT
cmake -S "$REPO" -B "$T/lib" -G Ninja -DCMAKE_BUILD_TYPE=RelWithDebInfo >/dev/null
cmake --build "$T/lib" -j16 >/dev/null
mkdir -p "$T/tests"
pass=0; fail=0
for src in "$REPO"/test/src/*.c; do
  b=$(basename "$src" .c)
  gcc -std=gnu17 -ggdb -O0 -w "$src" -L"$T/lib" -lwifi -Wl,-rpath,"$T/lib" -o "$T/tests/$b"
done
# the add_test lines of test/CMakeLists.txt: NAME <name> COMMAND <bin> <arg>
grep -E '^add_test' "$REPO/test/CMakeLists.txt" | sed -E 's/add_test\(NAME ([^ ]+) COMMAND ([^ ]+) ([^)]+)\)/\1 \2 \3/' > "$T/list"
while read -r name bin arg; do
  if "$T/tests/$bin" "$arg" >/dev/null 2>&1; then pass=$((pass+1)); else fail=$((fail+1)); echo "FAIL $name"; fi
done < "$T/list"
echo "baseline: $pass passed, $fail failed"
[ "$fail" -eq 0 ] && [ "$pass" -eq 25 ]
