open Conv
let zs = string_of_z

let frame_str (f : M.frame) =
  sp "flags=%s fc=%s len=%s hl=%s hdr=%s body=%s rt=[%s]" (zs f.M.f_flags) (hex_of_bytes f.M.f_fc) (zs f.M.f_len)
    (zs f.M.f_header_len) (hex_of_bytes f.M.f_header) (hex_of_bytes f.M.f_body)
    (match f.M.f_rtap with None -> "-" | Some i -> Ops_rtap.info_str i)

let data_str (o : M.data_info M.outcome) = match o with
  | M.Err _ -> " data=err"
  | M.Ok d -> sp " data=%s,%s,%s,%s" (hex_of_bytes d.M.d_receiver) (hex_of_bytes d.M.d_transmitter) (zs d.M.d_body_len) (hex_of_bytes d.M.d_body)

let classify_str (o : M.frame M.outcome) data = match o with
  | M.Err _ -> "classify err"
  | M.Ok f -> "classify ok " ^ frame_str f ^ data_str (data f)

let op_classify t =
  let rt = t.(1) = "1" in
  let a = ints_of_hex t.(2) in
  let rd = rd_strict_arr a in
  let len = z_of_int (Array.length a) in
  let buf = List.map z_of_int (Array.to_list a) in
  let model = match M.get_wifi_frame rd len rt with
    | M.Done o -> classify_str o M.parse_data
    | M.Fault (_, z) -> "classify FAULT@" ^ zs z
    | M.OutOfFuel -> "classify OUTOFFUEL" in
  let spec =
    if not rt then classify_str (M.spec_classify buf None) M.spec_data
    else match M.parse_radiotap_info rd len with
      | M.Done r -> classify_str (M.spec_classify buf (Some r)) M.spec_data
      | _ -> "classify radiotap-decode-not-done" in
  model ^ " ## " ^ spec

let ops : (S.t * (S.t array -> S.t)) list = [ "classify", op_classify ]
