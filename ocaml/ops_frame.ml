open Conv
let zs = string_of_z

let frame_str (f : M.frame) =
  sp "flags=%s fc=%s len=%s hl=%s hdr=%s body=%s rt=[%s]" (zs f.M.f_flags) (hex_of_bytes f.M.f_fc) (zs f.M.f_len)
    (zs f.M.f_header_len) (hex_of_bytes f.M.f_header) (hex_of_bytes f.M.f_body)
    (match f.M.f_rtap with None -> "-" | Some i -> Ops_rtap.info_str i)

let data_str (o : M.data_info M.outcome) = match o with
  | M.Err _ -> " data=err"
  | M.Ok d -> sp " data=%s,%s,%s,%s" (hex_of_bytes d.M.d_receiver) (hex_of_bytes d.M.d_transmitter) (zs d.M.d_body_len) (hex_of_bytes d.M.d_body)

let classify_str (o : M.frame M.outcome) data = match o with
  | M.Err _ -> "classify err"
  | M.Ok f -> "classify ok " ^ frame_str f ^ data_str (data f)

let op_classify t =
  let rt = t.(1) <> "0" in
  let a = ints_of_hex t.(2) in
  let rd = rd_strict_arr a in
  let len = z_of_int (Array.length a) in
  let buf = List.map z_of_int (Array.to_list a) in
  let model = match M.get_wifi_frame rd len rt with
    | M.Done o -> classify_str o M.parse_data
    | M.Fault (_, z) -> "classify FAULT@" ^ zs z
    | M.OutOfFuel -> "classify OUTOFFUEL" in
  let spec =
    if not rt then classify_str (M.spec_classify buf None) M.spec_data
    else match M.parse_radiotap_info rd len with
      | M.Done r -> classify_str (M.spec_classify buf (Some r)) M.spec_data
      | _ -> "classify radiotap-decode-not-done" in
  model ^ " ## " ^ spec

let msg_name m = match int_of_z m with 1 -> "Message 1" | 2 -> "Message 2" | 4 -> "Message 3" | 8 -> "Message 4" | _ -> "Invalid"

let wpa_str (o : M.wpa_data M.outcome) = match o with
  | M.Err _ -> "err"
  | M.Ok d -> sp "%s,%s,%s,%s,%s,%s,%s,%s,%s,%s,%s,%s,%s,%s" (zs d.M.w_version) (zs d.M.w_type) (zs d.M.w_length)
      (zs d.M.w_descriptor) (zs d.M.w_information) (zs d.M.w_key_length) (zs d.M.w_replay)
      (hex_of_bytes d.M.w_nonce) (hex_of_bytes d.M.w_iv) (hex_of_bytes d.M.w_rsc) (hex_of_bytes d.M.w_id)
      (hex_of_bytes d.M.w_mic) (zs d.M.w_key_data_length) (hex_of_bytes d.M.w_key_data)

let fault_str r f = match r with M.Done v -> f v | M.Fault (_, z) -> "FAULT@" ^ zs z | M.OutOfFuel -> "OUTOFFUEL"

let op_eapol t =
  let rt = t.(1) <> "0" in
  let a = ints_of_hex t.(2) in
  let rd = rd_strict_arr a in
  match M.get_wifi_frame rd (z_of_int (Array.length a)) rt with
  | M.Done (M.Err _) -> "eapol cls=err ## eapol cls=err"
  | M.Done (M.Ok f) ->
    let hs = fault_str (M.check_wpa_handshake f) (fun o -> match o with M.Ok _ -> "1" | M.Err _ -> "err") in
    let msg = fault_str (M.check_wpa_message f) (fun m -> zs m ^ "," ^ msg_name m) in
    let kdl = fault_str (M.get_wpa_key_data_length f) (fun v -> if int_of_z v < 0 then "err0" else zs v) in
    let data = fault_str (M.get_wpa_data f) wpa_str in
    let model = sp "eapol hs=%s msg=%s kdl=%s data=%s" hs msg kdl data in
    let is_hs = M.s_is_handshake f in
    let sm = M.s_message f in
    let skdl = if is_hs then zs (M.be16 f.M.f_body (z_of_int 105)) else "err0" in
    let spec = sp "eapol hs=%s msg=%s,%s kdl=%s data=%s" (if is_hs then "1" else "err") (zs sm) (msg_name sm) skdl (wpa_str (M.s_wpa_data f)) in
    model ^ " ## " ^ spec
  | _ -> "eapol cls=FAULT"

let ops : (S.t * (S.t array -> S.t)) list = [ "classify", op_classify; "eapol", op_eapol ]
