open Conv
let zs = string_of_z

let routine k = match k with
  | 0 -> (M.sec_table_security_type, M.sec_none_security_type, M.spec_generations)
  | 1 -> (M.sec_table_group_ciphers, M.sec_none_group_ciphers, M.spec_group)
  | 2 -> (M.sec_table_pairwise_ciphers, M.sec_none_pairwise_ciphers, M.spec_pairwise)
  | _ -> (M.sec_table_auth_key_suites, M.sec_none_auth_key_suites, M.spec_akm)

(* model: the routine on a 256-byte block; spec: names of the DOCUMENTED table, as a sorted set *)
let op_secstr t =
  let (tbl, none, spec) = routine (int_of_string t.(1)) in
  let info = z_of_string t.(2) in
  let model = match M.describe tbl none info with
    | M.Done mem -> let s = M.cstr mem in sp "secstr %d %s" (List.length s) (hex_of_bytes s)
    | M.Fault (_, z) -> "secstr FAULT@" ^ zs z
    | M.OutOfFuel -> "secstr OUTOFFUEL" in
  let names = List.sort compare (List.map hex_of_bytes (M.set_names spec info)) in
  let specl = if info = M.Z0 then "set None" else "set " ^ S.concat "," names in
  model ^ " ## " ^ specl

let ops : (S.t * (S.t array -> S.t)) list = [ "secstr", op_secstr ]
