(* Correspondence driver, model side: same case lines as harness/main.c, same canonical output. *)
open Conv

(* ---------- ops ---------- *)
let op_epoch t =
  match M.epoch (z_of_string t.(1)) (z_of_string t.(2)) with
  | Some v -> "epoch " ^ string_of_z v
  | None -> "epoch untranslated"

let op_epoch2 t =
  match M.epoch (z_of_string t.(1)) (z_of_string t.(2)), M.epoch (z_of_string t.(3)) (z_of_string t.(4)) with
  | Some a, Some b -> "epoch2 " ^ string_of_z a ^ " " ^ string_of_z b
  | _ -> "epoch2 untranslated"

let op_epoch_frames t =
  match M.epoch (z_of_string t.(1)) (z_of_string t.(2)) with
  | Some v -> let h = hex_of_bytes (M.le_enc (nat_of_int 8) v) in "epoch_frames " ^ h ^ " " ^ h ^ " " ^ h
  | None -> "epoch_frames untranslated"

let op_tagname t = "tagname " ^ ocaml_string (M.get_tag_name (z_of_string t.(1)))

let ops : (S.t * (S.t array -> S.t)) list = [
  "epoch", op_epoch;
  "epoch2", op_epoch2;
  "epoch_frames", op_epoch_frames;
  "tagname", op_tagname;
] @ Ops_more.ops

let () =
  let tbl = Hashtbl.create 64 in
  List.iter (fun (k, f) -> Hashtbl.replace tbl k f) ops;
  (try
    while true do
      let line = input_line stdin in
      if S.length line > 0 && line.[0] <> '#' then begin
        let t = Array.of_list (List.filter (fun s -> s <> "") (S.split_on_char ' ' line)) in
        let out = match Hashtbl.find_opt tbl t.(0) with
          | Some f -> (try f t with e -> "model-exception " ^ Printexc.to_string e)
          | None -> "unknown-op " ^ t.(0) in
        print_string out; print_char '\n'
      end
    done
  with End_of_file -> ());
  flush stdout
