(* Correspondence driver, model side: same case lines as harness/main.c, same canonical output. *)
open Conv

(* ---------- ops ---------- *)
let op_epoch t =
  match M.epoch (z_of_string t.(1)) (z_of_string t.(2)) with
  | Some v -> "epoch " ^ string_of_z v
  | None -> "epoch untranslated"

let op_epoch2 t =
  match M.epoch (z_of_string t.(1)) (z_of_string t.(2)), M.epoch (z_of_string t.(3)) (z_of_string t.(4)) with
  | Some a, Some b -> "epoch2 " ^ string_of_z a ^ " " ^ string_of_z b
  | _ -> "epoch2 untranslated"

let op_epoch_frames t =
  match M.epoch (z_of_string t.(1)) (z_of_string t.(2)) with
  | Some v -> let h = hex_of_bytes (M.le_enc (nat_of_int 8) v) in "epoch_frames " ^ h ^ " " ^ h ^ " " ^ h
  | None -> "epoch_frames untranslated"

(* epoch_ticks sec nsec step rounds: every generated frame takes exactly one reading of a clock that advances by step
   after each reading; its timestamp is the epoch of that reading *)
let op_epoch_ticks t =
  let sec = int_of_string t.(1) and nsec = int_of_string t.(2) and step = int_of_string t.(3) and rounds = int_of_string t.(4) in
  let b = Buffer.create 256 in
  Buffer.add_string b "epoch_ticks";
  let s = ref sec and n = ref nsec in
  for _ = 1 to 3 * rounds do
    (match M.epoch (z_of_int !s) (z_of_int !n) with
     | Some v -> Buffer.add_string b (" " ^ string_of_z v ^ "/1")
     | None -> Buffer.add_string b " untranslated");
    n := !n + step;
    while !n >= 1000000000 do n := !n - 1000000000; incr s done
  done;
  Buffer.contents b

let op_tagname t =
  let z = z_of_string t.(1) in
  "tagname " ^ ocaml_string (M.get_tag_name z) ^ " ## tagname " ^ ocaml_string (M.spec_tag_name z)

(* every z in [lo,hi] whose name differs from the name of INT_MIN (the default) *)
let op_tagname_range t =
  let lo = int_of_string t.(1) and hi = int_of_string t.(2) in
  let line f =
    let d = ocaml_string (f (z_of_int (-2147483648))) in
    let b = Buffer.create 4096 in
    Buffer.add_string b ("tagname_range default=" ^ d);
    (* names can only differ from the default on 0..255: outside, both model and spec are proved constant *)
    for z = max lo 0 to min hi 255 do
      let n = ocaml_string (f (z_of_int z)) in
      if n <> d then Buffer.add_string b (sp " %d=%s" z n)
    done;
    Buffer.contents b in
  line M.get_tag_name ^ " ## " ^ line M.spec_tag_name

(* C19 decision procedures: the offending enumerators themselves *)
let op_enumcheck _ =
  let mm = M.all_mismatches and dd = M.all_dups in
  let cov = S.concat "," (List.map (fun ((k, pub), ieee) ->
      sp "%s:%d/%d" (S.map (fun c -> if c = ' ' then '_' else c) (ocaml_string k)) (int_of_nat (M.covered pub ieee)) (List.length pub)) M.kinds) in
  "enumcheck mismatches=[" ^ S.concat ";" (List.map (fun ((n, v), v') ->
      sp "%s=%s(ieee:%s)" (ocaml_string n) (string_of_z v) (string_of_z v')) mm) ^ "] dups=[" ^
  S.concat ";" (List.map (fun ((a, b), v) -> sp "%s=%s=%s" (ocaml_string a) (ocaml_string b) (string_of_z v)) dd) ^
  "] covered=" ^ cov

let ops : (S.t * (S.t array -> S.t)) list = [
  "env", (fun _ -> "env set");
  "epoch", op_epoch;
  "epoch2", op_epoch2;
  "epoch_frames", op_epoch_frames;
  "epoch_ticks", op_epoch_ticks;
  "tagname", op_tagname;
  "tagname_range", op_tagname_range;
  "enumcheck", op_enumcheck;
] @ Ops_tags.ops @ Ops_crc.ops @ Ops_sec.ops @ Ops_rtap.ops @ Ops_frame.ops @ Ops_cap.ops @ Ops_gen.ops @ Ops_mgmt.ops @ Ops_life.ops @ Ops_more.ops

let () =
  let tbl = Hashtbl.create 64 in
  List.iter (fun (k, f) -> Hashtbl.replace tbl k f) ops;
  (try
    while true do
      let line = input_line stdin in
      if S.length line > 0 && line.[0] <> '#' then begin
        let t = Array.of_list (List.filter (fun s -> s <> "") (S.split_on_char ' ' line)) in
        let out = match Hashtbl.find_opt tbl t.(0) with
          | Some f -> (try f t with e -> "model-exception " ^ Printexc.to_string e)
          | None -> "unknown-op " ^ t.(0) in
        print_string out; print_char '\n'
      end
    done
  with End_of_file -> ());
  flush stdout
