open Conv
let zs = string_of_z
let is = int_of_z

let info_str (i : M.rt_info) =
  sp "len=%s ch=%s,%s,%s,%s rate=%s,%s ant=%d[%s] sig=%s fl=%s ext=%s rx=%s tx=%s mcs=%s,%s,%s txp=%s ts=%s,%s,%s,%s rts=%s data=%s present=0"
    (zs i.M.i_length) (zs i.M.i_chan_freq) (zs i.M.i_chan_flags) (zs i.M.i_chan_center) (zs i.M.i_chan_band)
    (zs i.M.i_rate_raw) (zs i.M.i_rate_raw) (List.length i.M.i_antennas)
    (S.concat "," (List.map (fun (n, s) -> zs n ^ ":" ^ zs s) i.M.i_antennas))
    (zs i.M.i_signal) (zs i.M.i_flags) (zs i.M.i_ext_flags) (zs i.M.i_rx_flags) (zs i.M.i_tx_flags)
    (zs i.M.i_mcs_known) (zs i.M.i_mcs_flags) (zs i.M.i_mcs_mcs) (zs i.M.i_tx_power)
    (zs i.M.i_ts) (zs i.M.i_ts_accuracy) (zs i.M.i_ts_unit) (zs i.M.i_ts_flags) (zs i.M.i_rts_retries) (zs i.M.i_data_retries)

let res_str f r = match r with
  | M.Done v -> f v | M.Fault (_, z) -> "FAULT@" ^ zs z | M.OutOfFuel -> "OUTOFFUEL"

(* spec: refused classes -> err; well-formed single-word headers -> the values at the specification's offsets;
   well-formed chains of present words (resets, vendor namespaces) -> the chain specification; anything else (undefined bits,
   field data beyond it_len) is not constrained here *)
let op_rtap t =
  let a = ints_of_hex t.(1) in
  let n = Array.length a in
  let model = "rtap " ^ res_str (fun o -> match o with M.Err _ -> "err" | M.Ok i -> "ok " ^ info_str i)
    (M.parse_radiotap_info (rd_strict_arr a) (z_of_int n)) in
  let itlen = if n >= 4 then a.(2) + 256 * a.(3) else 0 in
  if n < 8 || a.(0) <> 0 || itlen < 8 || n < itlen || itlen > 255 then model ^ " ## rtap err"
  else begin
    let buf = List.map z_of_int (Array.to_list a) in
    if M.s_wf1b buf then model ^ " ## rtap ok " ^ info_str (M.s_info buf)
    else if M.s_wf_chainb buf then model ^ " ## rtap ok " ^ info_str (M.s_info_chain buf)   (* chains: c09_chain *)
    else model
  end

let op_rssi t =
  let a = ints_of_hex t.(1) in
  "rssi " ^ res_str zs (M.parse_radiotap_rssi (rd_strict_arr a))

let mk_info t : M.rt_info =
  let z i = z_of_string t.(i) in
  let u8 v = M.Z.modulo v (z_of_int 256) and u16 v = M.Z.modulo v (z_of_int 65536) in
  let nant = int_of_string t.(19) in
  { M.i_chan_freq = u16 (z 2); i_chan_flags = u16 (z 3); i_chan_center = M.Z0; i_chan_band = M.Z0;
    i_rate_raw = u8 (z 4); i_signal = u8 (z 5); i_flags = u8 (z 6); i_ext_flags = M.Z0;
    i_rx_flags = u16 (z 7); i_tx_flags = u16 (z 8); i_mcs_known = u8 (z 9); i_mcs_flags = u8 (z 10); i_mcs_mcs = u8 (z 11);
    i_tx_power = u8 (z 12); i_ts = z 13; i_ts_accuracy = u16 (z 14); i_ts_unit = u8 (z 15); i_ts_flags = u8 (z 16);
    i_rts_retries = u8 (z 17); i_data_retries = u8 (z 18);
    i_antennas = List.init (min nant 16) (fun k -> (u8 (M.Z.add (z 20) (z_of_int k)), u8 (M.Z.add (z 21) (z_of_int k))));
    i_length = M.Z0 }

let parse_part (bytes : z list) =
  let a = Array.of_list (List.map int_of_z bytes) in
  match M.parse_radiotap_info (rd_strict_arr a) (z_of_int (Array.length a)) with
  | M.Done (M.Ok i) -> " parse=ok " ^ info_str i
  | M.Done (M.Err _) -> " parse=err"
  | _ -> " parse=FAULT"

(* model: create then decode; spec (only for descriptions the header can carry): rendered layout, restricted values *)
let op_rtgen t =
  let present = z_of_string t.(1) in
  let info = mk_info t in
  let model = match M.create_radiotap present info with
    | M.Done b -> sp "rtgen %d %s" (List.length b) (hex_of_bytes b) ^ parse_part b
    | M.Fault (_, z) -> "rtgen FAULT@" ^ zs z
    | M.OutOfFuel -> "rtgen OUTOFFUEL" in
  if M.carriedb present then
    let b = M.s_render present info in
    model ^ " ## " ^ sp "rtgen %d %s" (List.length b) (hex_of_bytes b) ^ " parse=ok " ^ info_str (M.s_restrict present info)
  else model

let ops : (S.t * (S.t array -> S.t)) list = [ "rtap", op_rtap; "rssi", op_rssi; "rssi_trunc", (fun t -> let r = op_rssi t in "rssi_trunc" ^ S.sub r 4 (S.length r - 4)); "rtgen", op_rtgen ]
