open Conv
let zs = string_of_z
let is = int_of_z

let info_str (i : M.rt_info) =
  sp "len=%s ch=%s,%s,%s,%s rate=%s,%s ant=%d[%s] sig=%s fl=%s ext=%s rx=%s tx=%s mcs=%s,%s,%s txp=%s ts=%s,%s,%s,%s rts=%s data=%s present=0"
    (zs i.M.i_length) (zs i.M.i_chan_freq) (zs i.M.i_chan_flags) (zs i.M.i_chan_center) (zs i.M.i_chan_band)
    (zs i.M.i_rate_raw) (zs i.M.i_rate_raw) (List.length i.M.i_antennas)
    (S.concat "," (List.map (fun (n, s) -> zs n ^ ":" ^ zs s) i.M.i_antennas))
    (zs i.M.i_signal) (zs i.M.i_flags) (zs i.M.i_ext_flags) (zs i.M.i_rx_flags) (zs i.M.i_tx_flags)
    (zs i.M.i_mcs_known) (zs i.M.i_mcs_flags) (zs i.M.i_mcs_mcs) (zs i.M.i_tx_power)
    (zs i.M.i_ts) (zs i.M.i_ts_accuracy) (zs i.M.i_ts_unit) (zs i.M.i_ts_flags) (zs i.M.i_rts_retries) (zs i.M.i_data_retries)

let res_str f r = match r with
  | M.Done v -> f v | M.Fault (_, z) -> "FAULT@" ^ zs z | M.OutOfFuel -> "OUTOFFUEL"

let op_rtap t =
  let a = ints_of_hex t.(1) in
  "rtap " ^ res_str (fun o -> match o with M.Err _ -> "err" | M.Ok i -> "ok " ^ info_str i)
    (M.parse_radiotap_info (rd_strict_arr a) (z_of_int (Array.length a)))

let op_rssi t =
  let a = ints_of_hex t.(1) in
  "rssi " ^ res_str zs (M.parse_radiotap_rssi (rd_strict_arr a))

let ops : (S.t * (S.t array -> S.t)) list = [ "rtap", op_rtap; "rssi", op_rssi ]
