open Conv
let zs = string_of_z

let coq_string (s : S.t) : M.string =
  let n = S.length s in
  let rec go i = if i >= n then M.EmptyString else
    let c = Char.code s.[i] in
    let b k = (c lsr k) land 1 = 1 in
    M.String (M.Ascii (b 0, b 1, b 2, b 3, b 4, b 5, b 6, b 7), go (i + 1)) in
  go 0

(* cap <shape index> <name index> a b c: model = the translated macro, expanded, parsed and evaluated;
   spec = the IEEE bit of the name tested in what the argument expression denotes *)
let op_cap t =
  let sh = List.nth M.shapes (int_of_string t.(1)) in
  let (name, bit) = List.nth M.ieee_cap_bits (int_of_string t.(2)) in
  let a = z_of_string t.(3) and b = z_of_string t.(4) and c = z_of_string t.(5) in
  let env (s : M.string) : z option =
    let o = ocaml_string s in
    if o = "a" then Some a else if o = "b" then Some b else if o = "c" then Some c else M.lookup_enum s in
  let model = match M.check_cap_eval sh.M.sh_toks name env with
    | Some v -> sp "cap %s %s" (ocaml_string name) (zs v)
    | None -> sp "cap %s unparsed" (ocaml_string name) in
  let v = sh.M.sh_sem a b c in
  let spec = sp "bit %d" (if M.Z.testbit v bit then 1 else 0) in
  model ^ " ## " ^ spec

let ops : (S.t * (S.t array -> S.t)) list = [ "cap", op_cap ]
