open Conv
let zs = string_of_z

let sched (fail_at : int) (fail_from : int) : M.nat -> bool =
  fun k -> let i = int_of_nat k in (fail_at >= 0 && i = fail_at) || (fail_from >= 0 && i >= fail_from)

let blk_str (b : z option) = match b with None -> "F" | Some b -> "b" ^ zs b
let pblk_str (b : z option) = match b with None -> "b-1" | Some b -> "b" ^ zs b
let ev_str (e : M.ev) = match e with
  | M.EMalloc (n, r) -> sp "m(%s)=%s " (zs n) (blk_str r)
  | M.ERealloc (p, n, r) -> sp "r(%s,%s)=%s " (pblk_str p) (zs n) (blk_str r)
  | M.EFree None -> "f(0) "
  | M.EFree (Some b) -> sp "f(b%s) " (zs b)
let finish (h : M.heap) = sp " trace=[%s] live=%d" (S.concat "" (List.map ev_str h.M.h_trace)) (List.length (M.live_blocks h))
let ret_str r = let v = int_of_z r in if v < 0 then "-1" else string_of_int v
let fault r f = match r with M.Done v -> f v | M.Fault (_, z) -> "FAULT@" ^ zs z | M.OutOfFuel -> "OUTOFFUEL"

let cstr (t : S.t) : z list =
  let rec upto l = match l with [] -> [] | x :: r -> if x = M.Z0 then [] else x :: upto r in upto (bytes_of_hex t)

let op_allocgen t =
  let sc = sched (int_of_string t.(1)) (int_of_string t.(2)) in
  let k = match int_of_string t.(3) with 0 -> M.GBeacon | 1 -> M.GProbeResp | 2 -> M.GProbeReq | 3 -> M.GAssocReq
    | 4 -> M.GReassocReq | 5 -> M.GAssocResp | 6 -> M.GReassocResp | _ -> M.GTimingAd in
  let ssid = cstr t.(4) and ch = M.Z.modulo (z_of_string t.(5)) (z_of_int 256) in
  let elraw = bytes_of_hex t.(6) in
  (* the Time Advertisement element the generator builds from the fields *)
  let el = match elraw with
    | [] -> [M.Z0]
    | cap :: rest ->
      let pad n l = let rec go k l = if k = 0 then [] else match l with [] -> M.Z0 :: go (k - 1) [] | x :: r -> x :: go (k - 1) r in go n l in
      let c = int_of_z cap in
      let tv = pad 10 rest in
      let te = pad 5 (try List.filteri (fun i _ -> i >= 10) rest with _ -> []) in
      let tu = pad 1 (try List.filteri (fun i _ -> i >= 15) rest with _ -> []) in
      cap :: (if c = 1 then tv @ te else if c = 2 then tv @ te @ tu else []) in
  let ops = List.init (Array.length t - 7) (fun i -> Ops_tags.parse_op t.(7 + i)) in
  fault (M.sk_gen_scenario sc k ssid ch el ops) (fun ((rs, tg), h) ->
    match rs with
    | [] -> "allocgen"
    | r0 :: rest -> sp "allocgen r=%s%s" (if int_of_z r0 < 0 then string_of_int (int_of_z r0) else "0")
        (S.concat "" (List.map (fun r -> "," ^ ret_str r) rest)) ^ " tags=" ^ hex_of_bytes tg ^ finish h)

let op_allocact t =
  let sc = sched (int_of_string t.(1)) (int_of_string t.(2)) in
  let h = ref M.heap0 and d = ref M.dobj0 in
  let b = Buffer.create 64 in
  Buffer.add_string b "allocact r=0";
  for i = 3 to Array.length t - 1 do
    let data = bytes_of_hex (S.sub t.(i) 2 (S.length t.(i) - 2)) in
    match M.sk_add_detail sc !d data !h with
    | M.Done ((d', r), h') -> d := d'; h := h'; Buffer.add_string b ("," ^ ret_str r)
    | _ -> Buffer.add_string b ",FAULT"
  done;
  Buffer.add_string b (" detail=" ^ hex_of_bytes (let rec take n l = if n = 0 then [] else match l with [] -> [] | x :: r -> x :: take (n - 1) r in take (int_of_z !d.M.d_len) !d.M.d_bytes));
  (match M.sk_free_action !d !h with M.Done h' -> Buffer.add_string b (finish h') | _ -> Buffer.add_string b " FAULT");
  Buffer.contents b

let op_allocparse t =
  let sc = sched (int_of_string t.(1)) (int_of_string t.(2)) in
  let rt = t.(3) = "1" in
  let a = ints_of_hex t.(4) in
  fault (M.sk_parse_scenario sc (rd_strict_arr a) (z_of_int (Array.length a)) rt) (fun (rs, h) ->
    let code r = let v = int_of_z r in if v = -12 then "-12" else if v < 0 then "-1" else string_of_int v in
    match rs with
    | [] -> "allocparse"
    | r0 :: rest -> sp "allocparse r=%s%s" (if int_of_z r0 < 0 then "-1" else "0") (S.concat "" (List.map (fun r -> "," ^ code r) rest)) ^ finish h)

(* every release routine on a zero-initialised object: eighteen free(NULL) calls (frame: 2, bss, sta, data, eleven generator objects, action, tag; the EAPOL and detail routines guard theirs) *)
let op_freezero _ =
  let h = ref M.heap0 in
  for _ = 1 to 18 do (match M.h_free None !h with M.Done h' -> h := h' | _ -> ()) done;
  "freezero ok" ^ finish !h

let ops : (S.t * (S.t array -> S.t)) list = [ "freezero", op_freezero; "allocgen", op_allocgen; "allocact", op_allocact; "allocparse", op_allocparse ]
