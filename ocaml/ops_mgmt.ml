open Conv
let zs = string_of_z

let pad_list n z l = let rec go k l = if k = 0 then [] else match l with [] -> z :: go (k - 1) [] | x :: r -> x :: go (k - 1) r in go n l
let suite_str ((oui, ty) : M.suite) = hex_of_bytes oui ^ ":" ^ zs ty
let suites_str (l : M.suite list) =
  S.concat "" (List.map (fun s -> suite_str s ^ " ") (pad_list 6 ([M.Z0; M.Z0; M.Z0], M.Z0) l))

let bss_str (b : M.bss) =
  sp "%s,%s,%s,%s,h%s,c%s,w%s,e%s,s0,wpa{%s,%s,%d[%s],%d[%s]},rsn{%s,%s,%d[%s],%d[%s],%s},t%d:%s"
    (hex_of_bytes b.M.b_transmitter) (hex_of_bytes b.M.b_receiver) (hex_of_bytes b.M.b_bssid) (hex_of_bytes b.M.b_ssid)
    (zs b.M.b_hidden) (zs b.M.b_channel) (zs b.M.b_wps) (zs b.M.b_enc)
    (zs b.M.b_wpa.M.wi_version) (suite_str b.M.b_wpa.M.wi_multicast) (List.length b.M.b_wpa.M.wi_unicast) (suites_str b.M.b_wpa.M.wi_unicast)
    (List.length b.M.b_wpa.M.wi_akms) (suites_str b.M.b_wpa.M.wi_akms)
    (zs b.M.b_rsn.M.r_version) (suite_str b.M.b_rsn.M.r_group) (List.length b.M.b_rsn.M.r_pairwise) (suites_str b.M.b_rsn.M.r_pairwise)
    (List.length b.M.b_rsn.M.r_akms) (suites_str b.M.b_rsn.M.r_akms) (zs b.M.b_rsn.M.r_caps)
    (List.length b.M.b_tags) (hex_of_bytes b.M.b_tags)
let sta_str (s : M.sta) =
  sp "c%s,r%s,%s,%s,%s,%s,b%s,t%d:%s" (zs s.M.s_channel) (zs s.M.s_randomized) (hex_of_bytes s.M.s_transmitter)
    (hex_of_bytes s.M.s_receiver) (hex_of_bytes s.M.s_bssid) (hex_of_bytes s.M.s_ssid) (zs s.M.s_broadcast_ssid)
    (List.length s.M.s_tags) (hex_of_bytes s.M.s_tags)
let reason_str (p : M.parsed_reason) =
  sp "o%s,%s,r%s,t%d:%s" (zs p.M.p_ordered) (hex_of_bytes p.M.p_header) (zs p.M.p_reason) (List.length p.M.p_tags) (hex_of_bytes p.M.p_tags)

let out f r = match r with
  | M.Done (M.Ok v) -> f v | M.Done (M.Err _) -> "err" | M.Fault (_, z) -> "FAULT@" ^ zs z | M.OutOfFuel -> "OUTOFFUEL"

let mgmt_line (f : M.frame) =
  sp "mgmt beacon=%s probe_resp=%s assoc_resp=%s reassoc_resp=%s probe_req=%s assoc_req=%s reassoc_req=%s deauth=%s disassoc=%s"
    (out bss_str (M.parse_beacon f)) (out bss_str (M.parse_probe_resp f)) (out bss_str (M.parse_assoc_resp f))
    (out bss_str (M.parse_reassoc_resp f)) (out sta_str (M.parse_probe_req f)) (out sta_str (M.parse_assoc_req f))
    (out sta_str (M.parse_reassoc_req f)) (out reason_str (M.parse_deauth f)) (out reason_str (M.parse_disassoc f))

let outs f (o : 'a M.outcome) = match o with M.Ok v -> f v | M.Err _ -> "err"
let spec_line (f : M.frame) =
  sp "mgmt beacon=%s probe_resp=%s assoc_resp=%s reassoc_resp=%s probe_req=%s assoc_req=%s reassoc_req=%s deauth=%s disassoc=%s"
    (outs bss_str (M.s_parse_beacon f)) (outs bss_str (M.s_parse_probe_resp f)) (outs bss_str (M.s_parse_assoc_resp f))
    (outs bss_str (M.s_parse_reassoc_resp f)) (outs sta_str (M.s_parse_probe_req f)) (outs sta_str (M.s_parse_assoc_req f))
    (outs sta_str (M.s_parse_reassoc_req f)) (outs reason_str (M.s_parse_reason f (z_of_int 12))) (outs reason_str (M.s_parse_reason f (z_of_int 10)))

let op_mgmt t =
  let rt = t.(1) <> "0" in
  let a = ints_of_hex t.(2) in
  match M.get_wifi_frame (rd_strict_arr a) (z_of_int (Array.length a)) rt with
  | M.Done (M.Err _) -> "mgmt cls=err ## mgmt cls=err"
  | M.Done (M.Ok f) -> mgmt_line f ^ " ## " ^ spec_line f
  | _ -> "mgmt cls=FAULT"

(* ie <rsn|wpa|msft> <hex>: the element decoders on their own; model ## spec (decode specs take the element body) *)
let op_ie t =
  let a = ints_of_hex t.(2) in
  let n = Array.length a in
  let rd = rd_strict_arr a in
  let buf = List.map z_of_int (Array.to_list a) in
  let rsn_s (i : M.rsn_info) = sp "ok %s,%s,%d[%s],%d[%s],%s" (zs i.M.r_version) (suite_str i.M.r_group)
      (List.length i.M.r_pairwise) (suites_str i.M.r_pairwise) (List.length i.M.r_akms) (suites_str i.M.r_akms) (zs i.M.r_caps) in
  let wpa_s (i : M.wpa_info) = sp "ok %s,%s,%d[%s],%d[%s]" (zs i.M.wi_version) (suite_str i.M.wi_multicast)
      (List.length i.M.wi_unicast) (suites_str i.M.wi_unicast) (List.length i.M.wi_akms) (suites_str i.M.wi_akms) in
  let res f r = match r with M.Done (M.Ok v) -> f v | M.Done (M.Err _) -> "err" | M.Fault (_, z) -> "FAULT@" ^ zs z | M.OutOfFuel -> "OUTOFFUEL" in
  match t.(1) with
  | "rsn" ->
    let m = res rsn_s (M.get_rsn_info rd M.Z0 (z_of_int n)) in
    let s = match M.s_rsn_decode buf with Some i -> rsn_s i | None -> "err" in
    "ie rsn " ^ m ^ " ## ie rsn " ^ s
  | "wpa" ->
    let m = res wpa_s (M.get_wpa_info rd M.Z0 (z_of_int n)) in
    (* the spec takes the whole vendor element body: put a WPA vendor header in front *)
    let s = match M.s_wpa_decode (List.map z_of_int [0x00; 0x50; 0xf2; 1] @ buf) with Some i -> wpa_s i | None -> "err" in
    "ie wpa " ^ m ^ " ## ie wpa " ^ s
  | _ ->
    let m = res (fun (b : M.bss) -> sp "ok e%s,w%s,%s" (zs b.M.b_enc) (zs b.M.b_wps) (zs b.M.b_wpa.M.wi_version))
        (M.handle_msft rd M.bss0 M.Z0 (z_of_int n)) in
    "ie msft " ^ m

let ops : (S.t * (S.t array -> S.t)) list = [ "mgmt", op_mgmt; "ie", op_ie ]
