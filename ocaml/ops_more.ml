open Conv
let ops : (S.t * (S.t array -> S.t)) list = []
