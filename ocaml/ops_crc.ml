open Conv
let zs = string_of_z

let res_z (r : z M.res) = match r with
  | M.Done v -> zs v | M.Fault (_, z) -> "FAULT@" ^ zs z | M.OutOfFuel -> "OUTOFFUEL"

(* crc <hex>: model (C loop) ## spec (802.3 register for short messages, the G-derived table otherwise) *)
let op_crc t =
  let a = ints_of_hex t.(1) in
  let rd = rd_strict_arr a in
  let len = z_of_int (Array.length a) in
  let msg = List.map z_of_int (Array.to_list a) in
  let model = match M.crc32 rd len, M.calculate_fcs rd len with
    | M.Done c, M.Done f -> sp "crc %s %s" (zs c) (hex_of_bytes (M.le_enc (nat_of_int 4) f))
    | a, _ -> "crc " ^ res_z a in
  let spec =
    if Array.length a <= 600 then sp "crc %s %s" (zs (M.crc32_spec msg)) (hex_of_bytes (M.fcs_octets msg))
    else let c = M.crc32_tbl msg in sp "crc %s %s" (zs c) (hex_of_bytes (M.le_enc (nat_of_int 4) c)) in
  model ^ " ## " ^ spec

let op_verify t =
  let a = ints_of_hex t.(1) in
  let n = Array.length a in
  let model = "verify " ^ res_z (M.frame_verify (rd_strict_arr a) (z_of_int n)) in
  let spec =
    if n < 4 then "verify 0" else begin
      let l = List.map z_of_int (Array.to_list a) in
      let rec split k l = if k = 0 then ([], l) else match l with [] -> ([], []) | x :: r -> let (p, q) = split (k - 1) r in (x :: p, q) in
      let (body, fcs) = split (n - 4) l in
      let expect = if n - 4 <= 600 then M.fcs_octets body else M.le_enc (nat_of_int 4) (M.crc32_tbl body) in
      if expect = fcs then "verify 1" else "verify 0"
    end in
  model ^ " ## " ^ spec

(* verifyseq: every frame of the sequence on its own (a verification has no memory) *)
let op_verifyseq t =
  let one h =
    let a = ints_of_hex h in
    let n = Array.length a in
    let v = res_z (M.frame_verify (rd_strict_arr a) (z_of_int n)) in
    let f = if n >= 4 then (match M.calculate_fcs (rd_strict_arr a) (z_of_int (n - 4)) with M.Done f -> int_of_z f | _ -> -1) else 0 in
    sp " %s/%08x" v f in
  let b = Buffer.create 64 in
  Buffer.add_string b "verifyseq";
  for i = 1 to Array.length t - 1 do Buffer.add_string b (one t.(i)) done;
  Buffer.contents b

let ops : (S.t * (S.t array -> S.t)) list = [ "crc", op_crc; "verify", op_verify; "verifyseq", op_verifyseq ]
