open Conv
let zs = string_of_z

let now = match M.epoch (z_of_string "1700000000") (z_of_string "123456789") with Some v -> v | None -> M.Z0
let mac (t : S.t) : z list =
  let b = bytes_of_hex t in
  let rec take n l = if n = 0 then [] else match l with [] -> M.Z0 :: take (n - 1) [] | x :: r -> x :: take (n - 1) r in
  take 6 b
let cstr (t : S.t) : z list =
  let rec upto l = match l with [] -> [] | x :: r -> if x = M.Z0 then [] else x :: upto r in upto (bytes_of_hex t)
let padded n (t : S.t) : z list =
  let b = bytes_of_hex t in
  let rec take n l = if n = 0 then [] else match l with [] -> M.Z0 :: take (n - 1) [] | x :: r -> x :: take (n - 1) r in
  take n b

let parse_extra (o : S.t) : (z * z list) =
  let arg = S.sub o 2 (S.length o - 2) in
  let i = S.index arg ':' in
  (z_of_string (S.sub arg 0 i), bytes_of_hex (S.sub arg (i + 1) (S.length arg - i - 1)))

let dump_str (len : int) (d : z -> z list M.outcome) (btok : S.t) =
  let head = sp " len=%d dump=" len in
  if btok.[1] = '*' then begin
    (* model of the sweep: Err below len, Ok with identical bytes from len on *)
    let ok = ref true in
    for bl = 0 to len + 2 do
      match d (z_of_int bl) with
      | M.Err _ -> if bl >= len then ok := false
      | M.Ok l -> if bl < len || List.length l <> len then ok := false
    done;
    head ^ (if !ok then sp "sweep first_ok=%d" len else "SWEEP-BAD(model)")
  end else
    let bl = z_of_string (S.sub btok 1 (S.length btok - 1)) in
    head ^ (match d bl with M.Err _ -> "err" | M.Ok l -> sp "ok %d %s" (List.length l) (hex_of_bytes l))

let op_gen t =
  let nt = Array.length t in
  let k = t.(1) in
  let a1 = mac t.(2) and a2 = mac t.(3) and a3 = mac t.(4) in
  let btok = t.(nt - 1) in
  let extras = List.filter_map (fun i -> if t.(i).[0] = 'A' then Some (parse_extra t.(i)) else None)
      (List.init (max 0 (nt - 13)) (fun i -> 12 + i)) in
  (* X = every element removed; the extras after the last X are what the object ends up with besides nothing else *)
  let all_ex = List.filter_map (fun i -> if t.(i).[0] = 'A' then Some (Some (parse_extra t.(i))) else if t.(i) = "X" then Some None else None)
      (List.init (max 0 (nt - 13)) (fun i -> 12 + i)) in
  let stripped = List.exists (fun e -> e = None) all_ex in
  let u8 v = M.Z.modulo v (z_of_int 256) and u16 v = M.Z.modulo v (z_of_int 65536) in
  let zi i = z_of_string t.(i) in
  let wf_extras = List.map (fun (n, b) -> (u8 n, b)) extras in
  (* S:<hex> / C:<n> = the object's own setter (SSID: beacon, probe response; channel: also the two responses) called after creation *)
  let ops_ex = List.filter_map (fun i ->
      let o = t.(i) in
      if o.[0] = 'A' then Some (`Add (parse_extra o)) else if o = "X" then Some `Strip
      else if o.[0] = 'S' && S.length o >= 2 && o.[1] = ':' then Some (`Ssid (cstr (S.sub o 2 (S.length o - 2))))
      else if o.[0] = 'C' && S.length o >= 2 && o.[1] = ':' then Some (`Chan (u8 (z_of_string (S.sub o 2 (S.length o - 2)))))
      else None) (List.init (max 0 (nt - 13)) (fun i -> 12 + i)) in
  let has_set = List.exists (fun e -> match e with `Ssid _ | `Chan _ -> true | _ -> false) ops_ex in
  let tagged (g : M.gobj) (spec : (z * z list) list -> z list) =
    let setop g (o : M.tag_op) = match M.step g.M.g_tags o with M.Done (tg, _) -> M.mk g.M.g_hdr g.M.g_fixed tg | _ -> g in
    let g' = List.fold_left (fun g e -> match e with
        | `Add (n, b) -> M.g_add g n b
        | `Strip -> M.mk g.M.g_hdr g.M.g_fixed M.tags_empty
        | `Ssid s -> setop g (M.OpSetSsid s)
        | `Chan c -> setop g (M.OpSetChannel c)) g ops_ex in
    let len = int_of_z (M.g_length g') in
    let model = "gen 0" ^ dump_str len (M.g_dump g') btok in
    let enc1 (n, b) = [u8 n; z_of_int (List.length b)] @ b in
    let spec =
      if not stripped && not has_set then spec wf_extras else begin
        (* reference: the encoding of the creation arguments, its elements as a list, then each later step on the LIST (Spec's spec_step) *)
        let base = spec [] in
        let hf = List.length g.M.g_hdr + List.length g.M.g_fixed in
        let rec drop n l = if n = 0 then l else match l with [] -> [] | _ :: r -> drop (n - 1) r in
        let rec take n l = if n = 0 then [] else match l with [] -> [] | x :: r -> x :: take (n - 1) r in
        let rec parse l = match l with
          | n :: ln :: r -> let k = int_of_z ln in (n, take k r) :: parse (drop k r)
          | _ -> [] in
        let l0 = parse (drop hf base) in
        let stepl l (o : M.tag_op) = match M.spec_step M.c_TAG_SSID M.c_TAG_DS_PARAMETER l o with Some (l', _) -> l' | None -> l in
        let l = List.fold_left (fun l e -> match e with
            | `Add (n, b) -> stepl l (M.OpAdd (u8 n, b))
            | `Strip -> []
            | `Ssid s -> stepl l (M.OpSetSsid s)
            | `Chan c -> stepl l (M.OpSetChannel c)) l0 ops_ex in
        take hf base @ List.concat (List.map enc1 l)
      end in
    let slen = List.length spec in
    let specl = "gen 0" ^ dump_str slen (fun bl -> if int_of_z bl < slen then M.Err M.Z0 else M.Ok spec) btok in
    model ^ " ## " ^ specl in
  match k with
  | "beacon" -> let s = cstr t.(5) and ch = u8 (zi 6) in
    tagged (M.create_beacon a1 a2 a3 s ch now) (fun ex -> M.s_beacon a1 a2 a3 s ch now ex)
  | "probe_resp" -> let s = cstr t.(5) and ch = u8 (zi 6) in
    tagged (M.create_probe_resp a1 a2 a3 s ch now) (fun ex -> M.s_probe_resp a1 a2 a3 s ch now ex)
  | "probe_req" -> let s = cstr t.(5) and ch = u8 (zi 6) in
    tagged (M.create_probe_req a1 a2 a3 s ch) (fun ex -> M.s_probe_req a1 a2 a3 s ch ex)
  | "assoc_req" -> let s = cstr t.(5) and ch = u8 (zi 6) in
    tagged (M.create_assoc_req a1 a2 a3 s ch) (fun ex -> M.s_assoc_req a1 a2 a3 s ch ex)
  | "reassoc_req" -> let s = cstr t.(5) and ch = u8 (zi 6) and ap = mac t.(7) in
    tagged (M.create_reassoc_req a1 a2 a3 ap s ch) (fun ex -> M.s_reassoc_req a1 a2 a3 ap s ch ex)
  | "assoc_resp" -> let ch = u8 (zi 6) in
    tagged (M.create_assoc_resp a1 a2 a3 ch) (fun ex -> M.s_assoc_resp a1 a2 a3 ch ex)
  | "reassoc_resp" -> let ch = u8 (zi 6) in
    tagged (M.create_reassoc_resp a1 a2 a3 ch) (fun ex -> M.s_reassoc_resp a1 a2 a3 ch ex)
  | "auth" -> let a = u16 (zi 5) and b = u16 (zi 6) and c = u16 (zi 7) in
    tagged (M.create_auth a1 a2 a3 a b c) (fun ex -> M.s_auth a1 a2 a3 a b c ex)
  | "deauth" -> let r = u16 (zi 5) in tagged (M.create_deauth a1 a2 a3 r) (fun ex -> M.s_deauth a1 a2 a3 r ex)
  | "disassoc" -> let r = u16 (zi 5) in tagged (M.create_disassoc a1 a2 a3 r) (fun ex -> M.s_disassoc a1 a2 a3 r ex)
  | "timing_ad" ->
    let cap = u8 (zi 5) and tv = padded 10 t.(6) and te = padded 5 t.(7) and tu = padded 1 t.(8) and co = padded 3 t.(9) in
    let mr = u16 (zi 10) in
    let (mt, tus, nf) = Scanf.sscanf t.(11) "%d,%d,%d" (fun a b c -> (u8 (z_of_int a), u8 (z_of_int b), u8 (z_of_int c))) in
    tagged (M.create_timing_advert a1 a2 a3 cap tv te tu co mr mt tus nf now)
      (fun ex -> M.s_timing_advert a1 a2 a3 cap tv te tu co mr mt tus nf now ex)
  | "action" | "action_noack" ->
    let noack = k <> "action" in
    let details = List.filter_map (fun i -> if t.(i).[0] = 'D' then Some (bytes_of_hex (S.sub t.(i) 2 (S.length t.(i) - 2))) else None)
        (List.init (max 0 (nt - 13)) (fun i -> 12 + i)) in
    let a0 = M.create_action noack a1 a2 a3 (zi 5) in
    let b = Buffer.create 64 in
    let a = List.fold_left (fun a d -> let (a', r) = M.add_action_detail a d in Buffer.add_string b (" d=" ^ zs r); a') a0 details in
    let len = int_of_z (M.a_length a) in
    let model = "gen 0" ^ Buffer.contents b ^ dump_str len (M.a_dump a) btok in
    let spec = M.s_action noack a1 a2 a3 (u8 (zi 5)) details in
    let total = List.fold_left (fun s d -> s + List.length d) 0 details in
    if total <= 255 then begin
      let sb = Buffer.create 64 in
      let run = ref 0 in
      List.iter (fun d -> run := !run + List.length d; Buffer.add_string sb (sp " d=%d" !run)) details;
      let slen = List.length spec in
      model ^ " ## gen 0" ^ Buffer.contents sb ^ dump_str slen (fun bl -> if int_of_z bl < slen then M.Err M.Z0 else M.Ok spec) btok
    end else model
  | "atim" -> "gen 0 img=" ^ hex_of_bytes (M.create_atim a1 a2 a3) ^ " ## gen 0 img=" ^ hex_of_bytes (M.s_atim a1 a2 a3)
  | "rts" -> let d = u16 (zi 5) in
    "gen 0 img=" ^ hex_of_bytes (M.create_rts a1 a2 d) ^ " ## gen 0 img=" ^ hex_of_bytes (M.s_rts a1 a2 d)
  | "cts" -> let d = u16 (zi 5) in
    "gen 0 img=" ^ hex_of_bytes (M.create_cts a1 d) ^ " ## gen 0 img=" ^ hex_of_bytes (M.s_cts a1 d)
  | _ -> "gen unknown-kind"

(* randmac: getrandom is wrapped to deliver c0 c1 c2 ...; model writes into a 6-byte block *)
let op_randmac t =
  let usep = t.(1) = "1" in
  let p = bytes_of_hex t.(2) in
  let rnd = List.init 6 (fun i -> z_of_int (0xC0 + i)) in
  let mem = List.init 6 (fun _ -> z_of_int 0xEE) in
  match M.random_mac mem (if usep then Some p else None) rnd with
  | M.Done m -> "randmac " ^ hex_of_bytes m
  | M.Fault (_, z) -> "randmac FAULT@" ^ zs z
  | M.OutOfFuel -> "randmac OUTOFFUEL"

let ops : (S.t * (S.t array -> S.t)) list = [ "gen", op_gen; "randmac", op_randmac ]
