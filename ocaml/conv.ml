(* conversions between OCaml values and the extracted Coq data types *)
module M = Model
module S = Stdlib.String
type z = M.z
let rec pos_of_int (n : int) : M.positive =
  if n = 1 then M.XH else if n land 1 = 0 then M.XO (pos_of_int (n lsr 1)) else M.XI (pos_of_int (n lsr 1))
let z_of_int (n : int) : z = if n = 0 then M.Z0 else if n > 0 then M.Zpos (pos_of_int n) else M.Zneg (pos_of_int (-n))
let rec int_of_pos (p : M.positive) : int =
  match p with M.XH -> 1 | M.XO q -> 2 * int_of_pos q | M.XI q -> 2 * int_of_pos q + 1
let int_of_z (x : z) : int = match x with M.Z0 -> 0 | M.Zpos p -> int_of_pos p | M.Zneg p -> - (int_of_pos p)
let ten = z_of_int 10
let z_of_string (s : S.t) : z =
  if S.length s > 2 && s.[0] = '0' && (s.[1] = 'x' || s.[1] = 'X') then begin
    let acc = ref M.Z0 in
    let h c = match c with '0'..'9' -> Char.code c - 48 | 'a'..'f' -> Char.code c - 87 | 'A'..'F' -> Char.code c - 55 | _ -> 0 in
    S.iteri (fun i c -> if i >= 2 then acc := M.Z.add (M.Z.mul !acc (z_of_int 16)) (z_of_int (h c))) s; !acc
  end else begin
  let neg = S.length s > 0 && s.[0] = '-' in
  let acc = ref M.Z0 in
  S.iteri (fun i c -> if not (i = 0 && neg) then
    acc := M.Z.add (M.Z.mul !acc ten) (z_of_int (Char.code c - 48))) s;
  if neg then M.Z.opp !acc else !acc end
let string_of_z (x : z) : S.t =
  let neg, a = match x with M.Zneg p -> true, M.Zpos p | _ -> false, x in
  if a = M.Z0 then "0" else begin
    let b = Buffer.create 24 in
    let cur = ref a in
    while !cur <> M.Z0 do
      let d = int_of_z (M.Z.modulo !cur ten) in
      Buffer.add_char b (Char.chr (48 + d));
      cur := M.Z.div !cur ten
    done;
    let s = Buffer.contents b in
    let n = S.length s in
    (if neg then "-" else "") ^ S.init n (fun i -> s.[n - 1 - i])
  end
let rec nat_of_int (n : int) : M.nat = if n <= 0 then M.O else M.S (nat_of_int (n - 1))
let rec int_of_nat (n : M.nat) : int = match n with M.O -> 0 | M.S k -> 1 + int_of_nat k
let char_of_ascii (M.Ascii (b0, b1, b2, b3, b4, b5, b6, b7)) =
  let v x k = if x then 1 lsl k else 0 in
  Char.chr (v b0 0 + v b1 1 + v b2 2 + v b3 3 + v b4 4 + v b5 5 + v b6 6 + v b7 7)
let ocaml_string (s : M.string) : S.t =
  let b = Buffer.create 32 in
  let rec go s = match s with M.EmptyString -> () | M.String (a, r) -> Buffer.add_char b (char_of_ascii a); go r in
  go s; Buffer.contents b
let hex_digit c = match c with
  | '0'..'9' -> Char.code c - 48 | 'a'..'f' -> Char.code c - 87 | 'A'..'F' -> Char.code c - 55 | _ -> 0
let bytes_of_hex (t : S.t) : z list =
  if t = "-" then [] else
  List.init (S.length t / 2) (fun i -> z_of_int (16 * hex_digit t.[2*i] + hex_digit t.[2*i+1]))
let hex_of_bytes (l : z list) : S.t =
  if l = [] then "-" else
  S.concat "" (List.map (fun b -> Printf.sprintf "%02x" (int_of_z b land 255)) l)
let ints_of_hex (t : S.t) : int array =
  if t = "-" then [||] else
  Array.init (S.length t / 2) (fun i -> 16 * hex_digit t.[2*i] + hex_digit t.[2*i+1])
(* read oracle over an int array: strict (Fault outside) *)
let rd_strict_arr (a : int array) : z -> z M.res =
  fun i -> let k = int_of_z i in
    if k >= 0 && k < Array.length a && (match i with M.Zneg _ -> false | _ -> true)
    then M.Done (z_of_int a.(k)) else M.Fault (M.OobRead, i)
let sp = Printf.sprintf
