open Conv
let zs = string_of_z
let is = int_of_z

let elem_str (e : M.elem) (data : int) (next : int) =
  sp " (%d,%d,%d,%d,%d)" (is e.M.e_off) (is e.M.e_num) (is e.M.e_len) data next

(* iter <hex>: model = init/next stepped exactly like the harness; spec = Spec.spec_iterate *)
let op_iter t =
  let a = ints_of_hex t.(1) in
  let rd = rd_strict_arr a in
  let len = z_of_int (Array.length a) in
  let model =
    match M.tag_init rd len with
    | M.Done (M.Err _) -> "iter err"
    | M.Done (M.Ok it0) ->
      let b = Buffer.create 256 in
      Buffer.add_string b (sp "iter ok end=%d" (is it0.M.it_end));
      let rec go it fuel =
        if fuel = 0 then Buffer.add_string b " RUNAWAY" else
        match M.cur_elem rd it with
        | M.Done e ->
          Buffer.add_string b (elem_str e (is it.M.it_data) (is it.M.it_next));
          (match M.tag_next rd it with
           | M.Done (it', Some _) -> go it' (fuel - 1)
           | M.Done (_, None) -> ()
           | M.Fault (_, z) -> Buffer.add_string b (" FAULT@" ^ zs z)
           | M.OutOfFuel -> Buffer.add_string b " OUTOFFUEL")
        | M.Fault (_, z) -> Buffer.add_string b (" FAULT@" ^ zs z)
        | M.OutOfFuel -> Buffer.add_string b " OUTOFFUEL" in
      go it0 100001; Buffer.contents b
    | M.Fault (_, z) -> "iter FAULT@" ^ zs z
    | M.OutOfFuel -> "iter OUTOFFUEL" in
  let buf = List.map z_of_int (Array.to_list a) in
  let spec =
    match M.spec_iterate buf with
    | M.Err _ -> "iter err"
    | M.Ok l -> sp "iter ok end=%d" (Array.length a - 1) ^
        S.concat "" (List.map (fun (e : M.elem) -> elem_str e (is e.M.e_off + 2) (is e.M.e_off + 2 + is e.M.e_len)) l) in
  model ^ " ## " ^ spec

(* body of the k-th element of a well-formed prefix of the byte list; none: the empty body *)
let kth_body (bytes : M.z list) (k : int) : M.z list =
  let a = Array.of_list bytes in
  let n = Array.length a in
  let rec go off k =
    if off + 2 > n then [] else
    let l = is a.(off + 1) in
    if off + 2 + l > n then [] else
    if k = 0 then Array.to_list (Array.sub a (off + 2) l) else go (off + 2 + l) (k - 1) in
  go 0 k

let parse_op (o : S.t) : M.tag_op =
  let arg = S.sub o 2 (S.length o - 2) in
  match o.[0] with
  | 'A' -> let i = S.index arg ':' in
           M.OpAdd (z_of_string (S.sub arg 0 i), bytes_of_hex (S.sub arg (i + 1) (S.length arg - i - 1)))
  | 'R' -> M.OpRemove (z_of_string arg)
  | 'K' -> M.OpCheck (z_of_string arg)
  | 'S' -> M.OpSetSsid (bytes_of_hex arg)
  | 'C' -> M.OpSetChannel (z_of_string arg)
  | _ -> failwith "bad op"

let ret_str r = if is r < 0 then "err0" else zs r

let op_tagops t =
  let b = Buffer.create 1024 and sb = Buffer.create 1024 in
  Buffer.add_string b "tagops"; Buffer.add_string sb "tagops";
  let st = ref M.tags_empty in
  let ref_l = ref (Some []) in
  for i = 2 to Array.length t - 1 do
    let o =
      if t.(i).[0] = 'D' then
        (* D:<num>:<k>: the harness hands the library a pointer INTO the list; for model and Spec it is an add of that element's body *)
        let arg = S.sub t.(i) 2 (S.length t.(i) - 2) in
        let j = S.index arg ':' in
        M.OpAdd (z_of_string (S.sub arg 0 j), kth_body !st.M.t_bytes (int_of_string (S.sub arg (j + 1) (S.length arg - j - 1))))
      else parse_op t.(i) in
    (match M.step !st o with
     | M.Done (s', r) -> st := s';
       Buffer.add_string b (sp " %s,%s,%s" (ret_str r) (zs s'.M.t_len) (hex_of_bytes s'.M.t_bytes))
     | M.Fault (_, z) -> Buffer.add_string b (" FAULT@" ^ zs z)
     | M.OutOfFuel -> Buffer.add_string b " OUTOFFUEL");
    (match !ref_l with
     | None -> Buffer.add_string sb " open"
     | Some l ->
       (match M.spec_step M.c_TAG_SSID M.c_TAG_DS_PARAMETER l o with
        | Some (l', r) -> ref_l := Some l';
          let e = M.enc l' in
          Buffer.add_string sb (sp " %s,%d,%s" (ret_str r) (List.length e) (hex_of_bytes e))
        | None -> ref_l := None; Buffer.add_string sb " open"))
  done;
  Buffer.contents b ^ " ## " ^ Buffer.contents sb

let op_dumptag t =
  let num = z_of_string t.(1) and len = z_of_string t.(2) and body = bytes_of_hex t.(3) and bl = z_of_string t.(4) in
  match M.dump_tag num len body bl with
  | M.Err _ -> "dumptag err"
  | M.Ok l -> sp "dumptag ok %d %s" (List.length l) (hex_of_bytes l)

let ops : (S.t * (S.t array -> S.t)) list = [
  "iter", op_iter; "tagops", op_tagops; "dumptag", op_dumptag ]
