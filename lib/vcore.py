"""Shared machinery of bin/check: translate -> prove -> build -> correspond -> decide -> evidence."""
import fcntl, glob, hashlib, json, os, random, re, shutil, subprocess, sys, time

VERIF = os.path.dirname(os.path.dirname(os.path.abspath(__file__)))
REPO = os.environ.get("VERIF_REPO", "/repo")
COQ = os.path.join(VERIF, "coq")
BUILD = os.path.join(VERIF, "build")
EVID = os.path.join(VERIF, "evidence")
NPROC = os.cpu_count() or 8

WRAPS = "-Wl,--wrap=malloc,--wrap=realloc,--wrap=free,--wrap=calloc,--wrap=clock_gettime,--wrap=getrandom"
CFG = {
    # configuration -> (compiler, flags)
    "san": ("gcc", ["-std=gnu17", "-g", "-O1", "-fsanitize=address,undefined", "-fno-sanitize=nonnull-attribute", "-fno-sanitize-recover=all",
                    "-fno-omit-frame-pointer"]),
    "ship": ("gcc", ["-std=gnu17", "-O2", "-fstack-protector-strong", "-D_FORTIFY_SOURCE=2"]),
    "dbg": ("gcc", ["-std=gnu17", "-g", "-O0"]),
}
COMMON = ["-I" + os.path.join(REPO, "src"), '-DLIBWIFI_VERSION="verif"', "-DLIBWIFI_VERIF", "-w"]


def sh(cmd, timeout=None, cwd=None, env=None, input=None):
    try:
        p = subprocess.run(cmd, stdout=subprocess.PIPE, stderr=subprocess.STDOUT, text=True, timeout=timeout,
                           cwd=cwd, env=env, input=input)
        return p.returncode, p.stdout
    except subprocess.TimeoutExpired as e:
        out = e.stdout or ""
        if isinstance(out, bytes):
            out = out.decode("utf8", "replace")
        return 124, out + "\n[timeout after %ss]" % timeout


class Lock:
    def __enter__(self):
        os.makedirs(BUILD, exist_ok=True)
        self.f = open(os.path.join(BUILD, ".lock"), "w")
        fcntl.flock(self.f, fcntl.LOCK_EX)
        return self

    def __exit__(self, *a):
        fcntl.flock(self.f, fcntl.LOCK_UN)
        self.f.close()


def repo_sources():
    out = []
    for root, _, files in os.walk(os.path.join(REPO, "src")):
        for fn in files:
            if fn.endswith((".c", ".h")):
                out.append(os.path.join(root, fn))
    return sorted(out)


def hash_files(paths, extra=""):
    h = hashlib.sha256(extra.encode())
    for p in paths:
        h.update(p.encode())
        try:
            with open(p, "rb") as f:
                h.update(f.read())
        except OSError:
            h.update(b"<missing>")
    return h.hexdigest()[:16]


# ------------------------------------------------------------------ translate (tie #1)
def translate():
    key = hash_files(repo_sources() + sorted(glob.glob(os.path.join(VERIF, "tools", "*.py"))))
    stamp = os.path.join(BUILD, "translate", "stamp")
    gen_ok = all(os.path.exists(os.path.join(COQ, "Gen", f)) for f in
                 ("Consts.v", "Layout.v", "Arith.v", "Tables.v", "Macros.v", "Rtap.v", "Globals.v", "Sites.v"))
    if gen_ok and os.path.exists(stamp) and open(stamp).read() == key:
        try:
            return json.load(open(os.path.join(BUILD, "translate", "translate.json")))
        except Exception:
            pass
    rc, out = sh([sys.executable, os.path.join(VERIF, "tools", "translate.py")], timeout=600)
    if rc != 0:
        return {"error": out[-3000:]}
    os.makedirs(os.path.dirname(stamp), exist_ok=True)
    with open(stamp, "w") as f:
        f.write(key)
    try:
        return json.loads(out.strip().splitlines()[-1])
    except Exception:
        return {"error": "unparseable translator output: " + out[-500:]}


# ------------------------------------------------------------------ prove
def coq_makefile():
    mk = os.path.join(COQ, "Makefile")
    cp = os.path.join(COQ, "_CoqProject")
    if not os.path.exists(mk) or os.path.getmtime(mk) < os.path.getmtime(cp):
        sh(["coq_makefile", "-f", "_CoqProject", "-o", "Makefile"], cwd=COQ, timeout=120)


def coq_make(targets, timeout=3000):
    """full .vo build of the given targets (never -vos); returns (ok, log)"""
    coq_makefile()
    rc, out = sh(["make", "-k", "-j%d" % NPROC] + targets, cwd=COQ, timeout=timeout)
    os.makedirs(os.path.join(BUILD, "logs"), exist_ok=True)
    return rc == 0, out


def theorems_of(prop_file, kinds=("Theorem",)):
    """names of the Theorems (or Examples) stated in a Properties file"""
    s = open(os.path.join(COQ, prop_file)).read()
    return re.findall(r"^\s*(?:%s)\s+(\w+)" % "|".join(kinds), s, flags=re.M)


def coq_error_site(log):
    """(file, line, enclosing lemma, message) of the first Coq error in a make log"""
    m = re.search(r'File "\./([^"]+)", line (\d+), characters [\d-]+:\s*\n(Error:.*?)(?:\n\n|\nmake|\Z)', log, re.S)
    if not m:
        return None
    f, line, msg = m.group(1), int(m.group(2)), " ".join(m.group(3).split())
    lemma = None
    try:
        src = open(os.path.join(COQ, f)).read().splitlines()
        for i in range(min(line, len(src)) - 1, -1, -1):
            mm = re.match(r"\s*(?:Lemma|Theorem|Corollary|Example|Definition|Fixpoint|Remark|Fact)\s+(\w+)", src[i])
            if mm:
                lemma = mm.group(1)
                break
    except OSError:
        pass
    return {"file": f, "line": line, "lemma": lemma, "message": msg[:600]}


def print_assumptions(prop_file):
    """re-run coqc on the (proof-free) Properties file to capture Print Assumptions output"""
    rc, out = sh(["coqc", "-Q", ".", "LW", "-w", "-notation-overridden", prop_file], cwd=COQ, timeout=600)
    res = []
    # output blocks: either "Closed under the global context" or "Axioms:\n name : type ..."
    blocks = re.split(r"\n(?=Closed under the global context|Axioms:)", "\n" + out)
    for b in blocks:
        b = b.strip()
        if b.startswith("Closed under the global context"):
            res.append([])
        elif b.startswith("Axioms:"):
            names = re.findall(r"^([A-Za-z_][\w.']*)\s*:", b[len("Axioms:"):], flags=re.M)
            res.append(names)
    return rc == 0, res


FORBIDDEN = re.compile(r"\b(Admitted|admit|Axiom|Parameter|Conjecture|Admit Obligations|Unset Guard Checking|"
                       r"Unset Positivity Checking|Unset Universe Checking|bypass_check|type-in-type|"
                       r"impredicative-set)\b")


def grep_gate():
    """no axiom declared, no check disabled, nothing admitted anywhere in the development"""
    bad = []
    for p in glob.glob(os.path.join(COQ, "**", "*.v"), recursive=True):
        txt = open(p).read()
        txt = re.sub(r"\(\*.*?\*\)", " ", txt, flags=re.S)
        for i, line in enumerate(txt.splitlines(), 1):
            m = FORBIDDEN.search(line)
            if m:
                bad.append("%s:%d:%s" % (os.path.relpath(p, COQ), i, m.group(1)))
            if re.match(r"\s*(Variable|Hypothesis|Variables|Hypotheses)\b", line):
                # only allowed inside a Section: checked structurally below
                pass
        # Variable/Hypothesis outside a section
        depth = 0
        for i, line in enumerate(txt.splitlines(), 1):
            if re.match(r"\s*Section\s+\w+", line):
                depth += 1
            elif re.match(r"\s*End\s+\w+\s*\.", line) and depth > 0:
                depth -= 1
            elif depth == 0 and re.match(r"\s*(Variable|Hypothesis|Variables|Hypotheses|Context)\b", line):
                bad.append("%s:%d:%s outside a Section" % (os.path.relpath(p, COQ), i, line.strip()[:30]))
    cp = open(os.path.join(COQ, "_CoqProject")).read()
    if re.search(r"type-in-type|impredicative-set|-vos|-noinit", cp):
        bad.append("_CoqProject: forbidden flag")
    return bad


# ------------------------------------------------------------------ extraction + driver
def build_driver():
    if not os.path.exists(os.path.join(COQ, "model.ml")):
        for f in glob.glob(os.path.join(COQ, "Extract", "Extract.vo*")):
            os.remove(f)
    ok, log = coq_make(["Extract/Extract.vo"])
    if not ok:
        return None, log
    ex = os.path.join(BUILD, "extract")
    os.makedirs(ex, exist_ok=True)
    srcs = [os.path.join(COQ, "model.ml"), os.path.join(COQ, "model.mli")] + \
        sorted(glob.glob(os.path.join(VERIF, "ocaml", "*.ml")))
    key = hash_files(srcs)
    stamp = os.path.join(ex, "stamp")
    drv = os.path.join(ex, "driver")
    if os.path.exists(drv) and os.path.exists(stamp) and open(stamp).read() == key:
        return drv, ""
    for s in srcs:
        shutil.copy(s, ex)
    ops = sorted(os.path.basename(p) for p in glob.glob(os.path.join(VERIF, "ocaml", "ops_*.ml")))
    first = [x for x in ("ops_rtap.ml", "ops_tags.ml") if x in ops]          # modules other ops files refer to
    order = ["model.mli", "model.ml", "conv.ml"] + first + [x for x in ops if x not in first] + ["driver.ml"]
    rc, out = sh(["ocamlfind", "ocamlopt", "-w", "-a"] + order + ["-o", "driver"], cwd=ex, timeout=900)
    if rc != 0:
        return None, out
    with open(stamp, "w") as f:
        f.write(key)
    return drv, ""


# ------------------------------------------------------------------ implementation build
def build_impl(cfg="san"):
    cc, flags = CFG[cfg]
    hsrc = sorted(glob.glob(os.path.join(VERIF, "harness", "*.c")) + glob.glob(os.path.join(VERIF, "harness", "*.h")))
    key = hash_files(repo_sources() + hsrc, extra=cfg + " ".join(flags))
    d = os.path.join(BUILD, "impl", cfg)
    os.makedirs(d, exist_ok=True)
    exe = os.path.join(d, "harness")
    stamp = os.path.join(d, "stamp")
    if os.path.exists(exe) and os.path.exists(stamp) and open(stamp).read() == key:
        return exe, ""
    csrc = [p for p in repo_sources() if p.endswith(".c")] + [p for p in hsrc if p.endswith(".c")]
    # compile in parallel to objects, then link
    objs = []
    procs = []
    for i, c in enumerate(csrc):
        o = os.path.join(d, "o%03d.o" % i)
        objs.append(o)
        procs.append((c, subprocess.Popen([cc] + flags + COMMON + ["-I" + os.path.join(VERIF, "harness"), "-c", c, "-o", o],
                                          stdout=subprocess.PIPE, stderr=subprocess.STDOUT, text=True)))
        if len(procs) >= NPROC:
            c0, p0 = procs.pop(0)
            out, _ = p0.communicate()
            if p0.returncode != 0:
                for _, q in procs:
                    q.kill()
                return None, "compile %s failed:\n%s" % (c0, out[-3000:])
    for c0, p0 in procs:
        out, _ = p0.communicate()
        if p0.returncode != 0:
            return None, "compile %s failed:\n%s" % (c0, out[-3000:])
    rc, out = sh([cc] + flags + objs + [WRAPS, "-o", exe], timeout=600)
    if rc != 0:
        return None, "link failed:\n" + out[-3000:]
    with open(stamp, "w") as f:
        f.write(key)
    return exe, ""


# ------------------------------------------------------------------ running cases
ASAN_ENV = {"ASAN_OPTIONS": "detect_leaks=0:abort_on_error=0:allocator_may_return_null=1:detect_stack_use_after_return=0",
            "UBSAN_OPTIONS": "print_stacktrace=0:halt_on_error=1"}


def classify_crash(text, rc):
    t = text or ""
    m = re.search(r"ERROR: AddressSanitizer: ([\w-]+)", t)
    if m:
        kind = m.group(1)
        rw = re.search(r"\b(READ|WRITE) of size (\d+)", t)
        where = re.search(r"#\d+ 0x[0-9a-f]+ in (libwifi_\w+|ieee80211_\w+|_libwifi\w+)", t)
        return "CRASH asan:%s%s%s" % (kind, (":" + rw.group(1).lower()) if rw else "",
                                      (":" + where.group(1)) if where else "")
    m = re.search(r"runtime error: ([^\n]+)", t)
    if m:
        msg = m.group(1)
        msg = re.sub(r"0x[0-9a-f]+", "ADDR", msg)
        where = re.search(r"(/[\w/.-]+\.c):(\d+)", t)
        return "CRASH ubsan:%s%s" % ("_".join(msg.split()[:6]), (":" + os.path.basename(where.group(1)) + ":" + where.group(2)) if where else "")
    if rc is not None and rc < 0:
        return "CRASH signal:%d" % (-rc)
    return "CRASH exit:%s" % rc


MAX_CRASHES = 400


def run_cases(exe, cases, timeout=1200, env_extra=None, chunk=20000):
    """run case lines through a line-oriented executable; a crash is attributed to the first unanswered case"""
    outs = []
    env = dict(os.environ)
    env.update(ASAN_ENV)
    if env_extra:
        env.update(env_extra)
    i = 0
    n = len(cases)
    crashes = 0
    while i < n:
        if crashes >= MAX_CRASHES:
            # the verdict is settled many times over: do not grind through thousands of further crashes
            outs.extend(["SKIPPED after %d crashes" % crashes] * (n - i))
            break
        part = cases[i:i + chunk]
        p = subprocess.Popen([exe], stdin=subprocess.PIPE, stdout=subprocess.PIPE, stderr=subprocess.PIPE, env=env)
        try:
            so, se = p.communicate(("\n".join(part) + "\n").encode(), timeout=timeout)
        except subprocess.TimeoutExpired:
            p.kill()
            so, se = p.communicate()
            lines = so.decode("utf8", "replace").split("\n")
            lines = lines[:-1]
            outs.extend(lines)
            outs.append("HANG")
            i += len(lines) + 1
            crashes += 1
            continue
        lines = so.decode("utf8", "replace").split("\n")
        if lines and lines[-1] == "":
            lines = lines[:-1]
        complete = lines[:len(part)]
        if p.returncode == 0 and len(complete) == len(part):
            outs.extend(complete)
            i += len(part)
            continue
        # crashed: the case after the last complete line is the culprit. A partially printed line is dropped.
        answered = len(complete)
        if answered > 0 and not so.endswith(b"\n"):
            answered -= 1
            complete = complete[:answered]
        outs.extend(complete)
        if answered < len(part):
            outs.append(classify_crash(se.decode("utf8", "replace"), p.returncode))
            i += answered + 1
            crashes += 1
        else:
            i += answered
    return outs


def _run_driver_1(drv, cases, timeout):
    p = subprocess.run([drv], input=("\n".join(cases) + "\n").encode(), stdout=subprocess.PIPE,
                       stderr=subprocess.PIPE, timeout=timeout)
    lines = p.stdout.decode("utf8", "replace").split("\n")
    if lines and lines[-1] == "":
        lines = lines[:-1]
    if p.returncode != 0 or len(lines) != len(cases):
        lines = lines[:len(cases)]
        lines += ["model-crash rc=%s %s" % (p.returncode, p.stderr.decode("utf8", "replace")[-200:].replace("\n", " "))] * (len(cases) - len(lines))
    return lines


def run_driver(drv, cases, timeout=2400):
    """the extracted model on the case lines; large runs are split over the cores (the cases are independent)"""
    n = len(cases)
    if n < 4000:
        return _run_driver_1(drv, cases, timeout)
    import concurrent.futures
    k = min(NPROC, 12)
    # interleave so that expensive families are spread over the workers
    parts = [cases[i::k] for i in range(k)]
    with concurrent.futures.ThreadPoolExecutor(max_workers=k) as ex:
        outs = list(ex.map(lambda part: _run_driver_1(drv, part, timeout), parts))
    res = [None] * n
    for i in range(k):
        res[i::k] = outs[i]
    return res


# ------------------------------------------------------------------ known findings
def load_known():
    p = os.path.join(VERIF, "known_findings.json")
    try:
        return json.load(open(p))
    except FileNotFoundError:
        return {"findings": []}


def known_match(prop, sig):
    for f in load_known().get("findings", []):
        if f.get("property") == prop and f.get("status") == "open" and re.search(f.get("match", "$^"), sig):
            return f
    return None


# ------------------------------------------------------------------ evidence
def write_evidence(prop, ev):
    # tools/try_patch.py runs the checks against a deliberately broken tree: that run's record goes elsewhere
    d = os.environ.get("VERIF_EVIDENCE_DIR") or EVID
    os.makedirs(d, exist_ok=True)
    with open(os.path.join(d, prop + ".json"), "w") as f:
        json.dump(ev, f, indent=1, sort_keys=False)


def write_replay(prop, tag, data):
    d = os.path.join(BUILD, "replay")
    os.makedirs(d, exist_ok=True)
    h = hashlib.sha256(json.dumps(data, sort_keys=True).encode()).hexdigest()[:10]
    p = os.path.join(d, "%s-%s-%s.json" % (prop, tag, h))
    with open(p, "w") as f:
        json.dump(data, f, indent=1)
    return p
