"""Generic per-property run: each props/cXX.py module supplies

  ID, PROP_FILE, DESIGN_REF, TRUSTED (list of str), ASSUMPTIONS (list of str)
  CONFIGS(tier) -> list of impl configurations (default ["san"])
  gen_cases(tier, seed) -> (cases: list[str], info: dict)     case lines for harness and driver
  judge(case, impl, model, spec) -> None | (sig, message)      property verdict on ONE case given the
                              implementation's line, the model's, and the executable Spec's (driver lines
                              are "model ## spec" when the op has a functional spec); sig = failure class
  nontrivial(case, impl) -> hashable | None                    key of a distinct non-trivial case
  extra(ctx) -> list of (sig, message, replay) [optional]      further checks (readelf, threads, ...)
"""
import json, os, sys, time
from . import vcore as V
from . import xcheck


def run_property(mod, tier, seed, replay=None):
    t0 = time.time()
    prop = mod.ID
    notes = []
    viol = []          # (sig, message, replay dict)
    unproved = []      # descriptions of proof obligations / correspondences that no longer check
    with V.Lock():
        tr = V.translate()
        if "error" in tr:
            unproved.append({"what": "translator", "detail": tr["error"][-1500:]})
        gate = V.grep_gate()
        if gate:
            unproved.append({"what": "grep-gate", "detail": gate})
        thms = V.theorems_of(mod.PROP_FILE)
        target = mod.PROP_FILE[:-2] + ".vo"
        ok, log = V.coq_make([target])
        discharged = len(thms) if ok else 0
        axioms = []
        if ok:
            ok2, ax = V.print_assumptions(mod.PROP_FILE)
            axioms = ax
            allowed = set(getattr(mod, "ALLOWED_AXIOMS", []))
            for i, a in enumerate(ax):
                extra_ax = [x for x in a if x not in allowed]
                if extra_ax:
                    unproved.append({"what": "axioms", "theorem": thms[i] if i < len(thms) else "?", "detail": extra_ax})
            if len(ax) != len(thms):
                notes.append("Print Assumptions blocks: %d for %d theorems" % (len(ax), len(thms)))
        else:
            site = V.coq_error_site(log)
            unproved.append({"what": "theorem", "file": mod.PROP_FILE, "theorems": thms,
                             "detail": site or log[-1500:]})
        # non-vacuity witnesses: concrete non-trivial values that meet each theorem's hypotheses
        ex_file = mod.PROP_FILE.replace("Properties_", "Examples_")
        examples = 0
        if os.path.exists(os.path.join(V.COQ, ex_file)):
            ok3, log3 = V.coq_make([ex_file[:-2] + ".vo"])
            if ok3:
                examples = len(V.theorems_of(ex_file, kinds=("Example",)))
            else:
                unproved.append({"what": "examples", "file": ex_file, "detail": V.coq_error_site(log3) or log3[-1500:]})
        drv, dlog = V.build_driver()
        if drv is None:
            unproved.append({"what": "model-build", "detail": (V.coq_error_site(dlog) or dlog[-1500:])})
        configs = mod.CONFIGS(tier) if hasattr(mod, "CONFIGS") else ["san"]
        exes = {}
        for c in configs:
            exe, blog = V.build_impl(c)
            if exe is None:
                unproved.append({"what": "impl-build", "config": c, "detail": blog[-1500:]})
            else:
                exes[c] = exe
    # ---- cases
    if replay:
        rp = json.load(open(replay))
        cases = rp.get("cases") or []
        info = {"replay_of": replay}
    else:
        cases, info = mod.gen_cases(tier, seed)
        # regression corpus: inputs on which a seeded change or a repaired defect once violated the property run first
        cp = os.path.join(V.VERIF, "corpus", prop + ".txt")
        if os.path.exists(cp):
            seen = set(cases)
            corpus = [l for l in open(cp).read().splitlines() if l and not l.startswith("#") and l not in seen]
            cases = corpus + cases
            info = dict(info, corpus_cases=len(corpus))
    model = V.run_driver(drv, cases) if (drv and cases) else [None] * len(cases)
    # the same model answers evaluated inside Coq for a sample of the cases (cross-check of extraction and of the OCaml glue)
    xc = {"evaluated": 0, "ok": True, "ops": {}}
    if drv and cases and not replay:
        xc = xcheck.run(prop, cases, model)
        if not xc["ok"]:
            unproved.append({"what": "extraction-cross-check", "file": xc.get("file"), "detail": xc["detail"]})
    evaluations = 0
    nontriv = set()
    disagreements = []
    samples = []
    validated = 0
    for c, exe in exes.items():
        impl = V.run_cases(exe, cases) if cases else []
        for k, case in enumerate(cases):
            evaluations += 1
            io = impl[k] if k < len(impl) else "MISSING"
            mo = model[k]
            so = None
            if mo is not None and " ## " in mo:
                mo, so = mo.split(" ## ", 1)
            if io.startswith("SKIPPED"):
                continue        # V.run_cases stopped after MAX_CRASHES crashes: the verdict is already a violation
            j = mod.judge(case, io, mo, so)
            if j is not None:
                # the cases that ran just before it in the same process are kept: a failure may depend on call history
                viol.append((j[0], j[1], {"case": case, "impl": io, "model": mo, "spec": so, "config": c,
                                          "preceding": [x for x in cases[max(0, k - 3):k] if len(x) < 4000]}))
            if mo is not None and hasattr(mod, "canon"):
                a, b = mod.canon(io), mod.canon(mo)
            else:
                a, b = io, mo
            if mo is not None:
                if a != b:
                    disagreements.append({"case": case, "impl": io, "model": mo, "config": c})
                else:
                    validated += 1
            nk = mod.nontrivial(case, io)
            if nk is not None:
                nontriv.add(nk)
            if len(samples) < 6 and k % max(1, len(cases) // 6) == 0:
                samples.append({"case": case[:300], "impl": io[:300], "model": (mo or "")[:300]})
    extra_stats = {}
    if hasattr(mod, "extra"):
        ctx = {"tier": tier, "seed": seed, "exes": exes, "stats": extra_stats, "unproved": unproved, "driver": drv,
               "cases": cases}
        for sig, msg, rp in mod.extra(ctx):
            viol.append((sig, msg, rp))
        evaluations += int(extra_stats.get("evaluations", 0))
        for k in extra_stats.get("nontrivial_keys", []):
            nontriv.add(k)
        samples.extend(extra_stats.get("samples", [])[:4])
        validated += int(extra_stats.get("validated", 0))
    if disagreements:
        unproved.append({"what": "correspondence", "count": len(disagreements), "first": disagreements[:5]})
    # ---- decide
    exit_code = 0
    out_lines = []
    seen_known = set()
    fresh = []
    for sig, msg, rp in viol:
        kf = V.known_match(prop, sig)
        if kf:
            if kf["id"] not in seen_known:
                seen_known.add(kf["id"])
                out_lines.append("KNOWN-FINDING: property=%s %s (%s)" % (prop, kf.get("what", sig), kf["id"]))
        else:
            fresh.append((sig, msg, rp))
    if fresh:
        # one replay per failure class, smallest case first
        by_sig = {}
        for sig, msg, rp in fresh:
            cur = by_sig.get(sig)
            if cur is None or len(json.dumps(rp)) < len(json.dumps(cur[1])):
                by_sig[sig] = (msg, rp)
        for sig, (msg, rp) in sorted(by_sig.items()):
            path = V.write_replay(prop, "fail", {"property": prop, "signature": sig, "message": msg,
                                                 "cases": (rp.get("preceding", []) + [rp.get("case")]) if rp.get("case") else [],
                                                 "observed": rp, "unproved": unproved,
                                                 "replay_cmd": "bin/check %s --replay <this file>" % prop})
            out_lines.append("VIOLATION property=%s replay=%s" % (prop, path))
            out_lines.append("  " + sig + ": " + msg[:400])
        exit_code = 1
    elif unproved and not replay:
        # something no longer checks but no concrete failing input was found. If every violation seen is a
        # known finding and the only unproved items are consequences of it, that was handled above.
        path = V.write_replay(prop, "unproved", {"property": prop, "unproved": unproved,
                                                 "note": "no concrete failing input found in this run's search",
                                                 "cases": [d["case"] for d in disagreements[:20]]})
        out_lines.append("VIOLATION property=%s replay=%s no-failing-input-found" % (prop, path))
        exit_code = 1
    wall = time.time() - t0
    ev = {
        "property_id": prop, "tier": tier, "seed": seed, "level": "proof",
        "coverage": {
            "obligations": len(thms), "discharged": discharged,
            "checker_cmd": "cd coq && make -k -j%d %s   (coqc 8.16.1 full .vo build; Print Assumptions re-run by coqc on %s)" % (V.NPROC, target, mod.PROP_FILE),
            "trusted_base": mod.TRUSTED,
            "theorems": thms, "axioms_per_theorem": axioms, "nonvacuity_examples": examples,
            "gen": {k: tr.get(k) for k in ("changed", "n_enumerators", "n_defines", "n_records")},
            "evaluations": evaluations, "distinct_nontrivial": len(nontriv),
            "rule": getattr(mod, "RULE", ""), "samples": samples,
            "traces_validated_against_impl": validated,
            "correspondence_disagreements": len(disagreements),
            "model_answers_reevaluated_in_coq": {"cases": xc["evaluated"], "agree": bool(xc["ok"]), "ops": xc.get("ops", {})},
            "configs": list(exes.keys()), "input_distribution": info,
            "extra": {k: v for k, v in extra_stats.items() if k not in ("nontrivial_keys", "samples")},
            "unproved": unproved,
        },
        "assumptions": mod.ASSUMPTIONS, "wall_s": round(wall, 2),
        "violations": len(fresh) + (1 if (unproved and not fresh and not replay) else 0),
        "known_findings_seen": sorted(seen_known), "notes": notes,
    }
    if not replay:
        V.write_evidence(prop, ev)
    for l in out_lines:
        print(l)
    if exit_code == 0:
        print("OK property=%s tier=%s theorems=%d/%d cases=%d nontrivial=%d agree=%d wall=%.1fs" %
              (prop, tier, discharged, len(thms), evaluations, len(nontriv), validated, wall))
    return exit_code
