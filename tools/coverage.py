#!/usr/bin/env python3
"""tools/coverage.py [tier]: which lines of /repo/src does the correspondence (tie #2) execute?  Builds the harness with
gcc --coverage -O0, feeds it the case lines of every property, runs gcov and prints per-file line coverage and the
functions / line ranges that no case reaches.  A measurement for DESIGN.md (what is tied by the correspondence), not a check."""
import os, sys, glob, subprocess, shutil, importlib, re, json
V_ = os.path.dirname(os.path.dirname(os.path.abspath(__file__)))
sys.path.insert(0, V_)
from lib import vcore as V
tier = sys.argv[1] if len(sys.argv) > 1 else "quick"
d = os.path.join(V.BUILD, "cov")
shutil.rmtree(d, ignore_errors=True)
os.makedirs(d)
csrc = [p for p in V.repo_sources() if p.endswith(".c")] + sorted(glob.glob(os.path.join(V.VERIF, "harness", "*.c")))
objs = []
procs = []
for i, c in enumerate(csrc):
    o = os.path.join(d, "o%03d.o" % i)
    objs.append(o)
    procs.append(subprocess.Popen(["gcc", "-std=gnu17", "-O0", "-g", "--coverage", "-w"] + V.COMMON + ["-I" + os.path.join(V.VERIF, "harness"), "-c", c, "-o", o]))
for p in procs:
    assert p.wait() == 0
exe = os.path.join(d, "harness")
subprocess.check_call(["gcc", "--coverage"] + objs + [V.WRAPS, "-o", exe])
total = 0
for k in range(1, 21):
    mod = importlib.import_module("props.c%02d" % k)
    cases, _ = mod.gen_cases(tier, 1)
    cp = os.path.join(V.VERIF, "corpus", mod.ID + ".txt")
    if os.path.exists(cp):
        cases = [l for l in open(cp).read().splitlines() if l and not l.startswith("#")] + cases
    total += len(cases)
    V.run_cases(exe, cases)
print("cases run:", total)
rep = {}
for i, c in enumerate(csrc):
    if not c.startswith(V.REPO):
        continue
    out = subprocess.run(["gcov", "-b", "-o", os.path.join(d, "o%03d.o" % i), c], cwd=d, stdout=subprocess.PIPE, stderr=subprocess.STDOUT, text=True).stdout
    g = os.path.join(d, os.path.basename(c) + ".gcov")
    if not os.path.exists(g):
        continue
    lines = open(g, errors="replace").read().splitlines()
    ex = nex = 0
    missed = []
    for l in lines:
        m = re.match(r"\s*([^:]+):\s*(\d+):(.*)", l)
        if not m:
            continue
        cnt, ln, src = m.group(1).strip(), int(m.group(2)), m.group(3)
        if cnt == "-":
            continue
        if cnt.startswith("#####") or cnt.startswith("====="):
            nex += 1; missed.append((ln, src.strip()))
        else:
            ex += 1
    rep[os.path.relpath(c, V.REPO)] = (ex, nex, missed)
    os.rename(g, os.path.join(d, "%03d_" % i + os.path.basename(g)))
tot_e = sum(v[0] for v in rep.values()); tot_n = sum(v[1] for v in rep.values())
print("executable lines: %d, executed: %d (%.1f%%)" % (tot_e + tot_n, tot_e, 100.0 * tot_e / max(1, tot_e + tot_n)))
for f, (e, n, missed) in sorted(rep.items(), key=lambda kv: -kv[1][1]):
    if n:
        print("%-55s %4d/%4d" % (f, e, e + n))
        for ln, src in missed[:400]:
            print("      %5d: %s" % (ln, src[:110]))
