#!/usr/bin/env python3
"""Regenerate MANIFEST.json from the table below (claimed checks) and properties.jsonl (the rest -> not_applicable)."""
import json, os
V = os.path.dirname(os.path.dirname(os.path.abspath(__file__)))
props = [json.loads(l) for l in open(os.path.join(V, "properties.jsonl"))]
TB = ("Trusts: Coq 8.16.1 kernel (vm_compute for finite sweeps and for the per-run in-kernel re-evaluation of sampled model answers - lib/xcheck.py - which cross-checks the extraction for the ops crc, verify, iter, epoch, tagname, classify, rtap; no native_compute); tools/translate.py (+probe, clang AST; tools/sites.py translates every function body with clang's types); "
      "hand-written control-flow models tied only by the differential correspondence (harness/*.c under ASan/UBSan vs the "
      "ExtrOcamlBasic-extracted model in ocaml/driver); C integer semantics modelled in Z under stated range hypotheses.")
CLAIMED = {
 "C01": ("Theorems c01_tag_iteration_safe, c01_radiotap_safe, c01_classify_safe, c01_fcs_safe, c01_pipeline_safe: every refinement theorem "
         "instantiated with the read oracle that FAULTS outside the supplied buffer (c01_ie_decoders_safe: also the three element decoders "
         "called directly) - for every byte string of every length, in both radiotap "
         "modes, every parser applied to every classified frame returns (no fuel exhaustion), reads nothing outside the buffer or the "
         "library's own copies, and yields success or a negative code. PARTIAL: machine-level undefined behaviour below the model (misaligned "
         "typed loads, aliasing) is only observed by ASan/UBSan in the correspondence runs (exhaustive lengths 0..2, every truncation and "
         "length/count perturbation of structured frames, mutation)."
         " Code level (tie #1 for control flow): c01_code_rsn_info_safe / c01_code_wpa_info_safe - the element decoders AS TRANSLATED from the C text of this run, with only the element readable, never get stuck (no load outside, no signed overflow) and every memcpy source lies inside the element. Also c01_code_parse_data(_refines_model) (the data parser on every frame object) and c01_code_get_wpa_data_safe (the declared Key Data Length is clamped to 1024 and to what the body carries). c01_code_rtinit_returns - ieee80211_radiotap_iterator_init as translated, the whole routine with its loop over the extended present words, in any memory holding the header: the run returns (no load outside the buffer, no overflow) the model's answer for EVERY buffer.",
         "Rocq safety corollaries of read-oracle refinement proofs; sanitizer-instrumented differential correspondence; theorems about the C bodies translated from the source on every run (Gen/Sites.v)"),
 "C02": ("Theorems c02_classify_plain / c02_classify_radiotap: for every byte string the classifier returns exactly the Spec's slices "
         "(radiotap length and FCS flag as decoded, frame control, header implied by type/subtype/order, body), c02_accept_iff, c02_layout "
         "(compiled header sizes 24/28/4/24/26, bit-field positions for all 65536 frame-control values, QoS subtype set), c02_data_extract. "
         "Compared field by field with the library on frame-control x length grids crossed with radiotap prefixes and the FCS flag."
         " Code level: c02_code_get_wifi_frame_refines_model - libwifi_get_wifi_frame as translated (both switches, bit-field loads), from arbitrary prior object contents, refines the model for every frame without radiotap.",
         "Rocq refinement proof to a slice spec over translator-regenerated layouts; differential correspondence; theorems about the C bodies translated from the source on every run (Gen/Sites.v)"),
 "C03": ("Theorems c03_<generator> (13) and c03_images: for ALL argument values and ANY list of appended well-formed tags (or details) the "
         "model of create_*/add/dump - struct images built at the compiled offsets, tags through the C05 model - serialises exactly the "
         "hand-written 802.11 byte layout, for every buffer size, with the reported length equal to the byte count; RTS/CTS/ATIM images "
         "are exact. Compared byte for byte with the library for all 16 generators under an injected clock."
         " Code level: c03_code_create_<17> - every generator as translated zeroes its whole object, stores the enumerators / arguments / defaults and adds its tags in order, for every environment; c03_code_length_routines. c03_code_create_tag - libwifi_create_tag as translated stores number and length and returns 2 + length for every length, 0 included.",
         "Rocq algebraic proofs over translator-regenerated layouts; differential correspondence; theorems about the C bodies translated from the source on every run (Gen/Sites.v)"),
 "C07": ("Theorems c07_dump_object / c07_dump_action / c07_dump_tag: for EVERY object and EVERY caller buffer the sequence of checked "
         "writes either reports an error leaving the buffer untouched or writes exactly the reported bytes from the first byte and "
         "nothing beyond, never faulting; c07_radiotap_bound: for ALL 2^32 present words and <= 16 antennas the 120-byte staging area "
         "is never overrun (worst case 89 bytes, computed on the table as compiled) and the header is <= 128 bytes; c07_random_mac. "
         "Every dump routine is run on every buffer size 0..len+2 in exactly sized heap blocks under ASan."
         " Code level: c07_code_dump_<12 routines> / c07_code_dump_tag - the translated dump routines either return the error having copied nothing or fill [buf, buf + L) without gap, L <= buf_len.",
         "Rocq frame-rule proofs over a checked-write memory model; exhaustive buffer-size sweeps under ASan; theorems about the C bodies translated from the source on every run (Gen/Sites.v)"),
 "C04": ("Theorems c04_bss_exact / c04_sta_exact / c04_reason_exact: on EVERY classified frame each of the nine parsers returns exactly the "
         "Spec (addresses, SSID bytes and hidden flag, channel of the last DS/HT element, byte-exact tag copy, zero elsewhere) with all reads "
         "inside its own copies; c04_other_subtype_refused; c04_flag_independent; six round-trip theorems: for all generator arguments and any "
         "neutral appended tags, classifying and parsing the generator's byte layout returns the arguments. All nine parsers are run on "
         "generator-layout, crafted, truncated and radiotap/FCS-wrapped frames and compared field by field."
         " Code level: c04_code_parse_<9> - the parsers as translated refuse exactly on wrong type / subtype / too short, allocate once and copy exactly the bytes that follow the fixed parameters, reading only inside the body. c04_code_handle_ssid_tag - the SSID handler clears the 33-octet field, copies min(len, 32) octets, hidden exactly when empty or all zero.",
         "Rocq refinement + round-trip proofs; differential correspondence; theorems about the C bodies translated from the source on every run (Gen/Sites.v)"),
 "C05": ("Theorems c05_inv (every history of any length keeps the stored bytes a well-formed element sequence with the recorded length), "
         "c05_step_refines / c05_step_refines_total (add/remove/set/check agree with the reference list for EVERY list - the reference is "
         "total since the iterator reports empty elements), c05_spec_total, c05_enc_injective; "
         "the model of tag.c is run against the library on breadth-first histories (state-deduplicated) and long random histories, "
         "comparing return value, length and bytes after every operation."
         " Code level: c05_code_add_tag / _create_tag / _quick_add_tag - allocation, copies, recorded length and error paths of the translated routines for all lengths.",
         "Rocq invariant-by-induction + refinement to an abstract list; differential histories; theorems about the C bodies translated from the source on every run (Gen/Sites.v)"),
 "C06": ("Theorem c06_iterate_exact: for every buffer and every read oracle that agrees with it inside its bounds (arbitrary or faulting "
         "outside) init + the do/while loop return exactly Spec.spec_iterate - termination and in-bounds reads included - plus soundness, "
         "order, maximality, completeness (c06_reports_all: EVERY element of the chain is reported, empty ones included), first-element "
         "refusal and a report bound on the Spec; iterator fields after every step "
         "are compared with the library on exhaustive length-skeleton buffers and random buffers."
         " Code level: c06_code_init_refines_model / c06_code_next_refines_model - libwifi_tag_iterator_init/_next AS TRANSLATED refine the read-oracle model on every buffer with only the buffer readable.",
         "Rocq refinement proof over a read-oracle model; differential correspondence; theorems about the C bodies translated from the source on every run (Gen/Sites.v)"),
 "C08": ("Theorems c08_tables (the six selector->flag switches read from the source equal the documented tables for ALL selectors), "
         "c08_constants, c08_flags_exact, c08_rsn_decode_exact / c08_wpa_decode_exact (for elements of EVERY length: decoded fields equal the "
         "element bytes, lists are delimited by their declared counts with six suites kept, optional trailing fields may be absent, elements "
         "too short for their counts are refused, every read inside the element), c08_bss_exact (the four BSS parsers report exactly the "
         "Spec's summary incl. the WEP and WPS rules). Compared with the library on every single-suite element (256 selectors x kinds x "
         "lists x OUIs), count/suite mismatches, truncation at every byte and random combinations."
         " Code level: c08_code_rsn_info_return_refines_model / _wpa_ - the value returned by the translated decoders is the model's for every element. c08_code_enumerate_<rsn,wpa>_(equal|differ|refines_model) and c08_code_*_cases_match - the enumeration routines for every count, their six switches equal the model's tables; c08_code_bss_handle_rsn_tag / _msft_tag.",
         "Rocq refinement proofs + 256-selector table sweeps over translator-regenerated switch tables; theorems about the C bodies translated from the source on every run (Gen/Sites.v)"),
 "C09": ("Theorems c09_total (every byte string, any chain of present words / namespaces / vendor data: the decoder terminates in bounds), "
         "c09_refused (bad version, it_len < 8, > available, > 255), c09_length, c09_single_word (ALL 2^23 selections of the defined fields, all "
         "values, arbitrary padding/trailing bytes: the values at the specification's aligned little-endian offsets), c09_table (the table as "
         "compiled equals the specification's), c09_band_channel (all 65536 frequencies), c09_chain (EVERY well-formed chain of present words of "
         "any length - namespace resets with per-antenna signal/antenna pairs, vendor namespaces with arbitrary skip lengths, vendor after "
         "vendor, empty continuation words: the decoder returns exactly the fold of the field semantics over the structurally computed "
         "aligned offsets), c09_chain_extends_single, c09_chain_decidable. The executable chain Spec is compared with the library on "
         "generated chains."
         " Code level: c09_code_rtap_switch_field / _refines_spec / _header_guards / _loop_exit - every turn of the translated field switch reads the little-endian values at the field's sub-offsets and refines the Spec's per-field decoder (the iterator routines themselves, which contain goto, stay tied by the correspondence). The iterator's two routines (goto, pointer increments: not executed) are tied per named site: c09_code_rtnext_sites_covered / c09_code_rtinit_sites_covered - all 60 + 26 conditions, assigned and returned values evaluate to the model's formulas; both switches' shapes. c09_code_rtinit_refines_model - ieee80211_radiotap_iterator_init AS TRANSLATED is executable (pointer increments scaled by the pointee size, the while loop an SLoop) and, for every buffer with only the buffer readable, refuses exactly what Model/Radiotap.v rt_init refuses and otherwise leaves the model's iterator in the members (loop over the extended present words by induction); only iterator_next (goto) remains tied per site. iterator_next AS TRANSLATED is executable by Base/CGoto.v's execg (exec + forward gotos; find_ns inlined): c09_code_rtnext_goto_landing (where goto next_entry lands, computed from the body), c09_code_rtnext_enoent, c09_code_rtnext_absent_pass (the whole pass over an absent argument = the model's shift_next, for all values); c09_code_rtnext_field_pass (the pass that reports a field: alignment loaded from the table, padding, bounds, falls into the label, returns the hit at the aligned offset), c09_code_rtnext_ns_reset_pass, c09_code_rtnext_ext_pass (next present word loaded at _next_bitmap); c09_code_rtnext_undefined_field, c09_code_rtnext_unknown_ns_skip, c09_code_rtnext_vendor_pass - every kind of pass of the loop has a whole-pass theorem; the induction composing them into rt_next is open; the translated iterator is RUN by the kernel against the model on seven concrete headers (Example c09_code_rtnext_runs_agree) and on 120 sampled radiotap cases of every run (lib/xcheck.py).",
         "Rocq refinement proof by induction over the field list; differential correspondence; theorems about the C bodies translated from the source on every run (Gen/Sites.v)"),
 "C10": ("Theorems c10_layout (for ALL 2^11 selections of carried fields and all values the generator emits exactly the rendered header), "
         "c10_valid_header (version 0, length field = bytes produced, present word, every field little-endian at its naturally aligned "
         "offset, <= 128 bytes), c10_roundtrip (decoding it - whatever follows it - returns the supplied values, via C09's single-word "
         "theorem), c10_classify_invariant (prepending it, with an FCS when announced, leaves the classification unchanged up to the "
         "radiotap/FCS flags). The generator is compared byte for byte with the library on all 2^11 subsets x boundary and random values, "
         "and the generated bytes are decoded again by the library."
         " Code level: c10_code_rtgen_c10_rtap / _layout - libwifi_create_radiotap as translated (loop over 23 field numbers by induction, alignment loaded from the table bytes) returns the Spec's length and fills the staging area without gap. c10_code_decoder_switch_field / _refines_spec - the decoding side: one turn of the translated field switch reads the little-endian values at the field's sub-offsets (the 64-bit timestamp as one load) and is the specification's per-field decoder.",
         "Rocq algebraic + round-trip proofs by induction over the field list; differential correspondence; theorems about the C bodies translated from the source on every run (Gen/Sites.v)"),
 "C11": ("Theorems c11_crc_exact (the C loop with constants re-read from the source computes the IEEE 802.3 32-stage division "
         "register, for every message and every in-bounds read oracle), c11_tbl_equiv (an independent table-driven CRC derived from G), "
         "c11_fcs_bytes, c11_verify_iff, c11_short_no, c11_burst_detected / c11_single_bit_detected (xoring ANY error pattern confined to <= 32 "
         "transmitted bits - a single bit included - into ANY valid frame of any length makes verification answer no). Compared with the library and with zlib on exhaustive short strings, the "
         "single-bit basis, random strings up to 64 KiB, valid frames and all their single-bit flips."
         " Code level: c11_code_crc32_refines_model (both loops by induction: the translated routine returns the model's CRC-32 of every message, reading only the message), c11_code_frame_verify_exec / _is_fcs_check.",
         "Rocq refinement proof against a bit-serial register spec; differential correspondence; theorems about the C bodies translated from the source on every run (Gen/Sites.v)"),
 "C12": ("Theorems c12_recognise_iff, c12_message (all 65536 key-information values), c12_extract_exact, c12_key_data_length, "
         "c12_classified_ok: on every classified frame the EAPOL routines (offsets, switch table and cap re-read from the source) return "
         "exactly the big-endian fields at the standard offsets and the key data limited by declared length, cap and bytes present, with "
         "every body read inside the library's copy. Compared with the library on key-information sweeps and length grids."
         " Code level: c12_code_check_wpa_handshake(_refines_model), c12_code_get_wpa_data_safe / _refines_model ... - the translated EAPOL routines read only the body and equal the model. c12_code_get_wpa_message_string(_model).",
         "Rocq refinement proofs over a read-oracle model; differential correspondence; theorems about the C bodies translated from the source on every run (Gen/Sites.v)"),
 "C13": ("Theorems c13_*_env_independent: classification, radiotap decode, tag iteration, CRC and FCS verification give the same result for "
         "ALL contents of memory beyond the buffer (read oracle arbitrary outside); parsers of a classified frame are functions of the "
         "frame value, output objects are built from zero records; c13_no_state_between_calls (no writable library state, from the current "
         "objects). PARTIAL: independence from optimisation level / hardening flags is observed, not proved - 27000 inputs are evaluated "
         "in three builds (-O1+sanitizers, shipping -O2 flags, -O0) with different heap fill, output pre-fill, trailing bytes and preceding "
         "call, and must agree field by field with each other and the model. Code level: c13_code_exec_ext - a meta-theorem about the interpreter of the translated C bodies: a run that ended with only the buffer readable is the same run in EVERY memory holding the buffer (so every code-level theorem holds in any surroundings); five instantiations (tag iterator, CRC, classifier, EAPOL recognition). c13_code_rtinit_any_surroundings - the radiotap iterator init as translated returns the model's answer in every memory that holds the header.",
         "Rocq non-interference corollaries; three-build / three-environment differential comparison; theorems about the C bodies translated from the source on every run (Gen/Sites.v)"),
 "C14": ("Theorems c14_tags_history, c14_generators, c14_action, c14_parse_pipeline: in allocation skeletons that perform exactly each routine's "
         "malloc/realloc/free calls (sizes and branches from the functional models), for EVERY edit history, EVERY byte string through "
         "classify + all parsers, and EVERY allocation-failure schedule, no step double-frees, uses a released or NULL block, and after the "
         "release routines no block is live. The skeleton's allocation trace (sizes, order, which block) is compared event by event with "
         "the --wrap ledger of the library. PARTIAL: the allocator "
         "and ASan's detection are trusted."
         " Code level: c14_code_add_action_detail / c14_code_free_action_detail - allocation and release arithmetic of the translated routines for all lengths. c14_code_release_all (each of the 18 release routines frees exactly its owning members, once) and c14_code_lifecycle_<9 pairs> / _owner theorems: what a creating routine allocated and did not release itself is exactly what the release routine frees.",
         "Rocq invariant-by-induction over allocation skeletons; trace-level differential correspondence; theorems about the C bodies translated from the source on every run (Gen/Sites.v)"),
 "C15": ("Theorems c15_add_reported (a tag is reported stored iff stored; a failed add changes nothing and is -ENOMEM), c15_remove_safe, "
         "c15_set_atomic (a failed setter leaves the stored list exactly as it was), c15_detail_reported, "
         "c15_copy_parser_reported, plus C14's theorems for every schedule. Every allocation index of every scenario is failed in turn "
         "(single failure and fail-from-k) and returns, crash class, stored bytes and ledger are compared with the skeleton."
         " Code level: c15_code_set_<6 setters> - the translated setters count, add, then remove last and only after a successful add, for every environment. c15_code_create_tag - libwifi_create_tag as translated reports a NULL malloc answer as -ENOMEM (returning 0 there, C15-n, falsifies it).",
         "Rocq proofs over failure schedules; exhaustive fault injection by link-time wrapping; theorems about the C bodies translated from the source on every run (Gen/Sites.v)"),
 "C16": ("Theorem c16_no_writable_state: the list of writable / thread-local / COMMON data and function-local statics of the library's "
         "objects, re-derived from the current tree on every run (gcc + readelf), is empty; c16_interleaving / "
         "c16_schedules_indistinguishable: in a multi-thread semantics whose only shared component is that (empty) state, for ALL "
         "schedules every thread ends with exactly its sequential result. An 8/16-thread generate/parse workload compares per-thread "
         "digests with the sequential run (under ThreadSanitizer in the thorough tier or when the theorem breaks).",
         "Rocq commutation theorem over translator-derived global-state list; thread workload (TSan)"),
 "C17": ("Theorem c17_describe_exact: for each of the four description routines and EVERY summary value the model of the routine "
         "(snprintf contract, tables re-read from the source on every run) stays inside the LIBWIFI_SECURITY_BUF_LEN-byte block and leaves "
         "a NUL-terminated string shorter than the buffer that is 'None' or the comma-separated names of exactly the set flags; c17_tables / "
         "c17_each_once: the tables are the documented flag-name association, single distinct bits, distinct names. Compared with the "
         "library on exhaustive subsets (2^4, 2^13, 2^14; 2^21 thorough) into an exactly sized heap block."
         " Code level: c17_code_get_<4>_calls - the translated routines call the item helper exactly once per set table flag in table order (induction over the list of ifs the body equals); tables equal Gen/Tables.v.",
         "Rocq generic invariant proof instantiated on translator-regenerated tables; differential correspondence; theorems about the C bodies translated from the source on every run (Gen/Sites.v)"),
 "C18": ("Theorem c18_shapes: for all 15 published names, 8 argument-expression shapes and ALL 16-bit operand values, the macro - expanded "
         "token by token as the preprocessor does from the macro bodies as compiled, parsed with C precedence - is non-zero exactly when the "
         "IEEE-assigned bit is set in the value the argument denotes; c18_values / c18_distinct: enumerators equal the IEEE bit numbers and "
         "are pairwise distinct; c18_any_expression: the same for EVERY argument token list that is a C expression of the modelled grammar "
         "(however it is written), in every environment. The Coq expander/parser is validated against the real compiler on the shapes.",
         "Rocq proof over a token-level macro expander + C expression parser; translator-regenerated macro bodies"),
 "C19": ("Theorems c19_values / c19_distinct (every published enumerator of ten enumerations, as compiled and re-read on every run, equals the "
         "independently transcribed IEEE value; no two names of one kind share a number) and c19_lookup (for every integer the lookup is the "
         "published identifier or the unknown-tag string) over the switch table re-translated from the source; the real lookup is compared "
         "on -1024..1024, boundaries, random ints (quick) and all 2^32 ints (thorough). Code level: c19_code_get_tag_name(_env) / _never_stuck / _labels_distinct - the routine translated statement by statement IS one switch over that table (nothing before or after it) and returns the model's literal for every int.",
         "Rocq table-equality sweeps lifted to all integers; translator-regenerated tables; theorems about the C bodies translated from the source on every run (Gen/Sites.v)"),
 "C20": ("Theorems c20_defined / c20_monotone / c20_unit for all clock readings in range about the return expression of libwifi_get_epoch "
         "as re-translated from the source on every run; the extracted model is run against the real function under an injected clock on a "
         "boundary grid and random pairs, and the timestamp bytes of generated beacons/probe responses/timing advertisements are compared."
         " Code level: c20_code_epoch - the translated return expression with clang's conversions is sec * 10^6 + nsec / 1000.",
         "Rocq proof over translated expression; differential correspondence under injected clock; theorems about the C bodies translated from the source on every run (Gen/Sites.v)"),
}
m = {"version": 1, "setup_cmd": "bin/setup",
     "hooks": {"guard": "LIBWIFI_VERIF",
               "enable": "checks compile /repo/src with -DLIBWIFI_VERIF; no source hook exists (observation is by link-time --wrap and harness-owned buffers)",
               "baseline_off_cmd": "bin/baseline.sh", "source_commits": [], "add_only": True},
     "engines": [{"name": "rocq-model+correspondence", "path": "bin/check", "serves_properties": sorted(CLAIMED),
                  "kind_free_text": "Coq 8.16.1 theorems over models regenerated from / tied to /repo (translator + extracted-model differential harness)"}],
     "checks": [], "not_applicable": [],
     "notes": "See DESIGN.md. known_findings.json lists genuine defects found (fixed by 'fix:' commits in /repo except the open finding F34)."}
for p in props:
    pid = p["id"]
    if pid in CLAIMED:
        text, tech = CLAIMED[pid]
        m["checks"].append({"property_id": pid, "quick_cmd": "bin/check %s --tier quick" % pid,
                            "thorough_cmd": "bin/check %s --tier thorough" % pid,
                            "evidence_file": "evidence/%s.json" % pid,
                            "replay_cmd_template": "bin/check %s --replay {path}" % pid,
                            "engine": "rocq-model+correspondence",
                            "level_claimed": {"category": "proof", "text": text, "design_ref": "DESIGN.md section 8 (%s)" % pid},
                            "level_note": TB, "technique": tech})
    else:
        m["not_applicable"].append({"property_id": pid, "reason": "check not built yet (work in progress; the technique applies - DESIGN.md section 8)"})
json.dump(m, open(os.path.join(V, "MANIFEST.json"), "w"), indent=1)
print("claimed:", sorted(CLAIMED))
