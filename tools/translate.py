#!/usr/bin/env python3
"""Translator (tie #1): regenerate coq/Gen/*.v from /repo's working tree.

  Consts.v  - every enumerator and every object-like #define of the libwifi headers with the value
              *as compiled* (printed by a generated probe program built with the repo's flags)
  Layout.v  - sizeof / offsetof / field size / bit-field byte masks of every libwifi struct (same probe)
  Tables.v  - switch tables and flag/name lists read from the clang AST (tools/astq.py)
  Arith.v   - the epoch return expression and the CRC constants (clang AST)
  Globals.v - writable / thread-local symbols of the freshly built objects (readelf)

Files are written only when their content changes so that `make` rebuilds only what a source change reaches.
"""
import json, os, re, subprocess, sys, hashlib, tempfile, shutil

REPO = os.environ.get("VERIF_REPO", "/repo")
VERIF = os.path.dirname(os.path.dirname(os.path.abspath(__file__)))
GEN = os.path.join(VERIF, "coq", "Gen")
BUILD = os.path.join(VERIF, "build")
SRC = os.path.join(REPO, "src")
CFLAGS = ["-std=gnu17", "-I" + SRC, '-DLIBWIFI_VERSION="verif"', "-DLIBWIFI_VERIF", "-w"]


def run(cmd, **kw):
    return subprocess.run(cmd, stdout=subprocess.PIPE, stderr=subprocess.PIPE, text=True, **kw)


def write_if_changed(path, content):
    os.makedirs(os.path.dirname(path), exist_ok=True)
    try:
        if open(path).read() == content:
            return False
    except FileNotFoundError:
        pass
    with open(path, "w") as f:
        f.write(content)
    return True


def headers():
    out = []
    for root, _, files in os.walk(os.path.join(SRC, "libwifi")):
        for fn in sorted(files):
            if fn.endswith(".h"):
                out.append(os.path.join(root, fn))
    return sorted(out)


def strip_comments(s):
    s = re.sub(r"/\*.*?\*/", " ", s, flags=re.S)
    s = re.sub(r"//[^\n]*", " ", s)
    return s


def harvest_enums():
    """[(enum_name, [enumerator names])] in source order"""
    res = []
    for h in headers():
        s = strip_comments(open(h, errors="replace").read())
        for m in re.finditer(r"\benum\s+(\w+)\s*\{([^}]*)\}", s):
            names = []
            for item in m.group(2).split(","):
                item = item.strip()
                if not item:
                    continue
                mm = re.match(r"(\w+)", item)
                if mm:
                    names.append(mm.group(1))
            res.append((m.group(1), names))
    return res


def harvest_defines():
    names = []
    for h in headers():
        s = strip_comments(open(h, errors="replace").read())
        s = s.replace("\\\n", " ")
        for m in re.finditer(r"^[ \t]*#[ \t]*define[ \t]+(\w+)(\(?)", s, flags=re.M):
            if m.group(2) == "(" and s[m.end(1)] == "(":
                continue  # function-like
            n = m.group(1)
            if n.endswith("_H") or n.startswith("__"):
                continue
            if n not in names:
                names.append(n)
    return names


def ast_records():
    """{struct name: [(field path, is_bitfield)]} for libwifi_/ieee80211_ records"""
    recs = {}
    for filt in ("libwifi_", "ieee80211_radiotap_header", "radiotap_align_size"):
        r = run(["clang"] + CFLAGS + ["-fsyntax-only", "-Xclang", "-ast-dump=json", "-Xclang",
                 "-ast-dump-filter=" + filt, os.path.join(SRC, "libwifi.h")])
        dec = json.JSONDecoder()
        s = r.stdout
        i = 0
        while True:
            while i < len(s) and s[i] != "{":
                i += 1
            if i >= len(s):
                break
            try:
                obj, j = dec.raw_decode(s, i)
            except json.JSONDecodeError:
                break
            i = j
            walk_records(obj, recs)
    return recs


def walk_records(node, recs):
    if isinstance(node, dict):
        if node.get("kind") == "RecordDecl" and node.get("completeDefinition") and node.get("name"):
            fields = []
            for ch in node.get("inner", []):
                if ch.get("kind") == "FieldDecl" and ch.get("name"):
                    fields.append((ch["name"], bool(ch.get("isBitfield")), ch.get("type", {}).get("qualType", "")))
            key = (node.get("tagUsed", "struct"), node["name"])
            if key not in recs:
                recs[key] = fields
        for ch in node.get("inner", []):
            walk_records(ch, recs)


PROBE_HEAD = r'''
#include <stdio.h>
#include <stddef.h>
#include <string.h>
#include <limits.h>
#include "libwifi.h"
static void pi(const char *k, const char *n, long long v) { printf("%s %s %lld\n", k, n, v); }
static void pu(const char *k, const char *n, unsigned long long v) { printf("%s %s %llu\n", k, n, v); }
static void ps(const char *k, const char *n, const char *s, size_t len) {
    printf("%s %s", k, n); for (size_t i = 0; i < len; i++) printf(" %u", (unsigned char) s[i]); printf("\n"); }
#define P_INT(k, n, v) _Generic((v), unsigned long long: pu, unsigned long: pu, default: pi)(k, n, v)
#define P_DEF(n) _Generic((n), char *: (void) 0, const char *: (void) 0, default: (void) 0)
int main(void) {
#if __BYTE_ORDER__ != __ORDER_LITTLE_ENDIAN__ || CHAR_BIT != 8
#error "the models assume a little-endian host with 8-bit bytes"
#endif
    pi("host", "sizeof_size_t", sizeof(size_t));
    pi("host", "sizeof_int", sizeof(int));
    pi("host", "sizeof_ptr", sizeof(void *));
'''


def build_probe(enums, defines, recs):
    lines = [PROBE_HEAD]
    tagged = []  # (line index in generated file, description) for error-driven pruning
    for en, names in enums:
        for n in names:
            lines.append('    pi("enum:%s", "%s", (long long) %s);' % (en, n, n))
    for d in defines:
        lines.append('    { __typeof__(%s) _v = %s; (void)_v; '
                     '_Generic((_v), char *: ps("defstr", "%s", (const char *)(size_t)(_v), sizeof(%s) - 1), '
                     'const char *: ps("defstr", "%s", (const char *)(size_t)(_v), sizeof(%s) - 1), '
                     'float: (void)0, double: (void)0, '
                     'unsigned long long: pu("def", "%s", (unsigned long long)(size_t)(_v)), '
                     'unsigned long: pu("def", "%s", (unsigned long long)(size_t)(_v)), '
                     'default: pi("def", "%s", (long long)(size_t)(_v))); }' % ((d,) * 9))
    for (tag, sn), fields in sorted(recs.items()):
        t = "%s %s" % (tag, sn)
        lines.append('    pi("sizeof", "%s", sizeof(%s));' % (sn, t))
        for fn, isbf, qt in fields:
            if isbf:
                lines.append('    { %s _o; memset(&_o, 0, sizeof _o); _o.%s = ~0; '
                             'ps("bfmask", "%s.%s", (const char *) &_o, sizeof _o); }' % (t, fn, sn, fn))
            else:
                lines.append('    pi("offsetof", "%s.%s", offsetof(%s, %s));' % (sn, fn, t, fn))
                lines.append('    pi("fieldsize", "%s.%s", sizeof(((%s *) 0)->%s));' % (sn, fn, t, fn))
                # nested struct of bit-fields (frame_ctrl.flags)
                m = re.match(r"struct (\w+)$", qt)
                if m and ("struct", m.group(1)) in recs:
                    for fn2, isbf2, _ in recs[("struct", m.group(1))]:
                        if isbf2:
                            lines.append('    { %s _o; memset(&_o, 0, sizeof _o); _o.%s.%s = ~0; '
                                         'ps("bfmask", "%s.%s.%s", (const char *) &_o, sizeof _o); }'
                                         % (t, fn, fn2, sn, fn, fn2))
    lines.append("    return 0;\n}\n")
    return "\n".join(lines)


def compile_probe(src_text, workdir):
    """compile, dropping lines gcc rejects (macros that are not expressions)"""
    lines = src_text.split("\n")
    dropped = []
    for _ in range(12):
        path = os.path.join(workdir, "probe.c")
        with open(path, "w") as f:
            f.write("\n".join(lines))
        r = run(["gcc"] + CFLAGS + ["-o", os.path.join(workdir, "probe"), path])
        if r.returncode == 0:
            return dropped
        bad = set()
        for m in re.finditer(r"probe\.c:(\d+):\d+: (?:error|note: in expansion of macro)", r.stderr):
            bad.add(int(m.group(1)) - 1)
        if not bad:
            sys.stderr.write(r.stderr[:4000])
            raise SystemExit("translate: probe does not compile")
        for i in bad:
            if 0 <= i < len(lines) and lines[i].startswith("    "):
                dropped.append(lines[i].strip()[:80])
                lines[i] = ""
            else:
                sys.stderr.write(r.stderr[:4000])
                raise SystemExit("translate: probe error outside generated lines")
    raise SystemExit("translate: probe keeps failing")


def coq_ident(s):
    return re.sub(r"\W", "_", s.replace(".", "__"))


def coq_str(s):
    return '"' + s.replace('"', '""') + '"'


def zlit(v):
    v = int(v)
    return "(%d)" % v if v < 0 else "%d" % v


def zlist(vs):
    return "[" + "; ".join(zlit(v) for v in vs) + "]"


def emit_consts(rows):
    enums = {}
    order = []
    defs = []
    defstrs = []
    host = []
    for k, n, vals in rows:
        if k.startswith("enum:"):
            e = k[5:]
            if e not in enums:
                enums[e] = []
                order.append(e)
            enums[e].append((n, vals[0]))
        elif k == "def":
            defs.append((n, vals[0]))
        elif k == "defstr":
            defstrs.append((n, vals))
        elif k == "host":
            host.append((n, vals[0]))
    o = ["(* GENERATED by tools/translate.py from %s - do not edit *)" % REPO,
         "From Coq Require Import List ZArith String.", "Import ListNotations.",
         "Local Open Scope Z_scope.", "Local Open Scope string_scope.", ""]
    seen = set()
    for n, v in host:
        o.append("Definition host_%s : Z := %s." % (n, zlit(v)))
    for e in order:
        for n, v in enums[e]:
            if n in seen:
                continue
            seen.add(n)
            o.append("Definition c_%s : Z := %s." % (n, zlit(v)))
    for n, v in defs:
        if n in seen:
            continue
        seen.add(n)
        o.append("Definition c_%s : Z := %s." % (n, zlit(v)))
    for n, vs in defstrs:
        if n in seen:
            continue
        seen.add(n)
        o.append("Definition c_%s : list Z := %s." % (n, zlist(vs)))
    o.append("")
    for e in order:
        o.append("Definition enum_%s : list (string * Z) := [" % e)
        o.append(";\n".join("  (%s, %s)" % (coq_str(n), zlit(v)) for n, v in enums[e]))
        o.append("].")
    o.append("Definition all_enums : list (string * list (string * Z)) := [")
    o.append(";\n".join("  (%s, enum_%s)" % (coq_str(e), e) for e in order))
    o.append("].")
    o.append("Definition all_defines : list (string * Z) := [")
    o.append(";\n".join("  (%s, %s)" % (coq_str(n), zlit(v)) for n, v in defs))
    o.append("].")
    return "\n".join(o) + "\n"


def emit_layout(rows):
    o = ["(* GENERATED by tools/translate.py from %s - do not edit *)" % REPO,
         "From Coq Require Import List ZArith String.", "Import ListNotations.",
         "Local Open Scope Z_scope.", "Local Open Scope string_scope.", ""]
    sizes, offs, fsz, bfs = [], [], [], []
    for k, n, vals in rows:
        if k == "sizeof":
            o.append("Definition sizeof_%s : Z := %s." % (coq_ident(n), zlit(vals[0])))
            sizes.append((n, vals[0]))
        elif k == "offsetof":
            o.append("Definition off_%s : Z := %s." % (coq_ident(n), zlit(vals[0])))
            offs.append((n, vals[0]))
        elif k == "fieldsize":
            o.append("Definition fsz_%s : Z := %s." % (coq_ident(n), zlit(vals[0])))
            fsz.append((n, vals[0]))
        elif k == "bfmask":
            o.append("Definition bf_%s : list Z := %s." % (coq_ident(n), zlist(vals)))
            bfs.append((n, vals))
    o.append("")
    o.append("Definition all_sizeof : list (string * Z) := [")
    o.append(";\n".join("  (%s, %s)" % (coq_str(n), zlit(v)) for n, v in sizes))
    o.append("].")
    # per struct: ordered (field, offset, size) triples, for the contiguity sweep
    per = {}
    fs = dict(fsz)
    for n, v in offs:
        s, f = n.split(".", 1)
        per.setdefault(s, []).append((f, v, fs.get(n, 0)))
    o.append("Definition all_fields : list (string * list (string * Z * Z)) := [")
    o.append(";\n".join("  (%s, [%s])" % (coq_str(s), "; ".join("(%s, %s, %s)" % (coq_str(f), zlit(a), zlit(b))
                                                              for f, a, b in fl)) for s, fl in per.items()))
    o.append("].")
    return "\n".join(o) + "\n"


TOK_RE = re.compile(r"\s*(?:(0[xX][0-9a-fA-F]+|\d+)[uUlL]*|([A-Za-z_]\w*)|(<<|>>|<=|>=|==|!=|&&|\|\||[-+*/%&|^~!<>?:])|(\()|(\))|(,))")


def tokenize(body):
    toks, i = [], 0
    body = body.strip()
    while i < len(body):
        m = TOK_RE.match(body, i)
        if not m or m.end() == i:
            return None
        num, ident, op, lp, rp, comma = m.groups()
        if num is not None:
            toks.append("TNum %s" % zlit(int(num, 0)))
        elif ident is not None:
            toks.append("TId %s" % coq_str(ident))
        elif op is not None:
            toks.append("TOp %s" % coq_str(op))
        elif lp:
            toks.append("TLParen")
        elif rp:
            toks.append("TRParen")
        else:
            toks.append("TComma")
        i = m.end()
    return toks


def emit_macros():
    """function-like macros as compiled (active #if branch), as token lists"""
    r = run(["gcc"] + CFLAGS + ["-E", "-dM", os.path.join(SRC, "libwifi.h")])
    wanted = ["libwifi_check_capabilities", "BYTESWAP16", "BYTESWAP32", "BYTESWAP64"]
    found = {}
    for line in r.stdout.splitlines():
        m = re.match(r"#define (\w+)\(([^)]*)\)\s*(.*)$", line)
        if m and m.group(1) in wanted:
            params = [p.strip() for p in m.group(2).split(",") if p.strip()]
            found[m.group(1)] = (params, tokenize(m.group(3)))
    o = ["(* GENERATED by tools/translate.py from %s - do not edit *)" % REPO,
         "From Coq Require Import List ZArith String.", "From LW Require Import Base.Tok.", "Import ListNotations.",
         "Local Open Scope Z_scope.", "Local Open Scope string_scope.", ""]
    for w in wanted:
        if w in found and found[w][1] is not None:
            params, toks = found[w]
            o.append("Definition macro_%s : macro := {| m_name := %s; m_params := [%s]; m_body := [%s] |}." %
                     (w, coq_str(w), "; ".join(coq_str(p) for p in params), "; ".join(toks)))
        else:
            o.append("(* %s: not a function-like macro with a tokenisable body any more *)" % w)
            o.append("Definition macro_%s : macro := {| m_name := %s; m_params := []; m_body := [TOp \"?untranslated\"] |}." % (w, coq_str(w)))
    o.append("Definition all_macros : list macro := [%s]." % "; ".join("macro_" + w for w in wanted))
    return "\n".join(o) + "\n"


RTAP_PROBE = r"""
#include <stdio.h>
#include "libwifi.h"
int main(void) {
    printf("n_bits %d\n", radiotap_ns.n_bits);
    for (int i = 0; i < radiotap_ns.n_bits; i++)
        printf("as %d %d %d\n", i, radiotap_ns.align_size[i].align, radiotap_ns.align_size[i].size);
    return 0;
}
"""


def emit_rtap(work):
    """the radiotap alignment/size table as compiled into radiotap_ns"""
    path = os.path.join(work, "rtprobe.c")
    with open(path, "w") as f:
        f.write(RTAP_PROBE)
    exe = os.path.join(work, "rtprobe")
    r = run(["gcc"] + CFLAGS + ["-o", exe, path, os.path.join(SRC, "libwifi/core/radiotap/radiotap.c")])
    rows, nb = [], 0
    ok = r.returncode == 0
    if ok:
        out = run([exe]).stdout
        for line in out.splitlines():
            p = line.split()
            if p[0] == "n_bits":
                nb = int(p[1])
            else:
                rows.append((int(p[2]), int(p[3])))
    o = ["(* GENERATED by tools/translate.py from %s - do not edit *)" % REPO,
         "From Coq Require Import List ZArith.", "Import ListNotations.", "Local Open Scope Z_scope.", "",
         "Definition rtap_table_ok : bool := %s." % ("true" if ok else "false"),
         "Definition rtap_n_bits : Z := %d." % nb,
         "(* (align, size) of radiotap_ns.align_size[i], i = 0 .. n_bits-1 *)",
         "Definition rtap_align_size : list (Z * Z) := [%s]." % "; ".join("(%d, %d)" % r for r in rows)]
    return "\n".join(o) + "\n"


STATEFUL_LIBC = set("""asctime basename catgets crypt ctime dbm_clearerr dbm_close dbm_delete dbm_error dbm_fetch dbm_firstkey dbm_nextkey
dbm_open dbm_store dirname dlerror drand48 ecvt encrypt endgrent endpwent endutxent fcvt ftw gcvt getc_unlocked getchar_unlocked
getdate getgrent getgrgid getgrnam gethostbyaddr gethostbyname gethostent getlogin getnetbyaddr getnetbyname getnetent
getopt getprotobyname getprotobynumber getprotoent getpwent getpwnam getpwuid getservbyname getservbyport getservent getutxent
getutxid getutxline gmtime hcreate hdestroy hsearch inet_ntoa l64a lgamma lgammaf lgammal localeconv localtime lrand48 mrand48
nftw nl_langinfo ptsname putc_unlocked putchar_unlocked putenv pututxline rand readdir setenv setgrent setkey setpwent setutxent
strerror strsignal strtok system tmpnam ttyname unsetenv wcrtomb wcsrtombs wcstombs wctomb mbrtowc mbsrtowcs mbtowc mblen mbrlen
srand random srandom initstate setstate srand48 seed48 lcong48 setlocale""".split())


def emit_globals(work):
    """writable / thread-local data of the library's objects built with the shipping flags (readelf), and
    function-local static non-const variables (clang AST)"""
    objd = os.path.join(work, "objs")
    shutil.rmtree(objd, ignore_errors=True)
    os.makedirs(objd)
    srcs = []
    for root, _, files in os.walk(os.path.join(SRC, "libwifi")):
        for fn in sorted(files):
            if fn.endswith(".c"):
                srcs.append(os.path.join(root, fn))
    srcs.sort()
    ship = ["-std=gnu17", "-O2", "-fstack-protector-strong", "-D_FORTIFY_SOURCE=2", "-fPIC", "-I" + SRC,
            '-DLIBWIFI_VERSION="verif"', "-w"]
    procs = []
    for i, c in enumerate(srcs):
        o = os.path.join(objd, "o%03d.o" % i)
        procs.append((c, o, subprocess.Popen(["gcc"] + ship + ["-c", c, "-o", o], stdout=subprocess.PIPE, stderr=subprocess.PIPE)))
    ok = True
    for c, o, p in procs:
        p.communicate()
        ok = ok and p.returncode == 0
    rows = []          # (file, section or symbol, kind, size)
    for c, o, _ in procs:
        if not os.path.exists(o):
            continue
        rel = os.path.relpath(c, SRC)
        r = run(["readelf", "-S", "-W", o])
        for line in r.stdout.splitlines():
            m = re.match(r"\s*\[\s*\d+\]\s+(\S+)\s+(\S+)\s+[0-9a-f]+\s+[0-9a-f]+\s+([0-9a-f]+)\s+\S+\s+(\S*)", line)
            if not m:
                continue
            name, typ, size, flags = m.group(1), m.group(2), int(m.group(3), 16), m.group(4)
            if size == 0 or "A" not in flags:
                continue
            writable = "W" in flags or "T" in flags
            if name.startswith(".data.rel.ro"):
                continue               # read-only after relocation
            if writable:
                rows.append((rel, name, "section", size))
        r = run(["readelf", "-s", "-W", o])
        for line in r.stdout.splitlines():
            p = line.split()
            if len(p) >= 8 and p[6] == "COM":
                rows.append((rel, p[7], "common", int(p[2])))
            if len(p) >= 8 and p[3] == "TLS":
                rows.append((rel, p[7], "tls", int(p[2])))
    # undefined (imported) symbols that keep hidden process-wide state inside the C library: POSIX's list of functions that
    # need not be thread-safe, plus the rand/random family and locale/environment setters
    imports = []
    for c, o, _ in procs:
        if not os.path.exists(o):
            continue
        r = run(["nm", "-u", o])
        for line in r.stdout.splitlines():
            sym = line.split()[-1] if line.split() else ""
            sym = sym.split("@")[0]
            base = sym[2:-4] if sym.startswith("__") and sym.endswith("_chk") else sym
            if base in STATEFUL_LIBC:
                imports.append((os.path.relpath(c, SRC), sym))
    statics = []
    # function-local statics live in the .c files: scan each with a light regex (the AST of every file would be slow)
    for c in srcs:
        txt = strip_comments(open(c, errors="replace").read())
        depth = 0
        for line in txt.splitlines():
            if depth > 0 and re.match(r"\s*static\s+(?!const\b)(?!inline\b)[\w\s\*]+\b\w+\s*(\[|=|;)", line):
                statics.append((os.path.relpath(c, SRC), " ".join(line.split())[:80]))
            depth += line.count("{") - line.count("}")
    o = ["(* GENERATED by tools/translate.py from %s - do not edit *)" % REPO,
         "From Coq Require Import List ZArith String.", "Import ListNotations.", "Local Open Scope Z_scope.",
         "Local Open Scope string_scope.", "",
         "Definition globals_scan_ok : bool := %s." % ("true" if ok else "false"),
         "Definition n_objects : Z := %d." % len(srcs),
         "(* (source file, section or symbol, kind, size) of every writable or thread-local datum *)",
         "Definition writable : list (string * string * string * Z) := [%s]." % ";\n  ".join(
             "(%s, %s, %s, %d)" % (coq_str(a), coq_str(b), coq_str(k), sz) for a, b, k, sz in rows),
         "Definition static_locals : list (string * string) := [%s]." % ";\n  ".join(
             "(%s, %s)" % (coq_str(a), coq_str(b)) for a, b in statics),
         "(* (source file, imported C-library function that keeps process-wide state) *)",
         "Definition stateful_imports : list (string * string) := [%s]." % ";\n  ".join(
             "(%s, %s)" % (coq_str(a), coq_str(b)) for a, b in sorted(set(imports)))]
    return "\n".join(o) + "\n"


def main():
    os.makedirs(GEN, exist_ok=True)
    os.makedirs(BUILD, exist_ok=True)
    work = os.path.join(BUILD, "translate")
    os.makedirs(work, exist_ok=True)
    enums = harvest_enums()
    defines = harvest_defines()
    recs = ast_records()
    src = build_probe(enums, defines, recs)
    dropped = compile_probe(src, work)
    r = run([os.path.join(work, "probe")])
    if r.returncode != 0:
        raise SystemExit("translate: probe failed to run")
    rows = []
    for line in r.stdout.splitlines():
        p = line.split(" ")
        rows.append((p[0], p[1], [int(x) for x in p[2:]]))
    changed = []
    if write_if_changed(os.path.join(GEN, "Consts.v"), emit_consts(rows)):
        changed.append("Consts.v")
    if write_if_changed(os.path.join(GEN, "Layout.v"), emit_layout(rows)):
        changed.append("Layout.v")
    if write_if_changed(os.path.join(GEN, "Globals.v"), emit_globals(work)):
        changed.append("Globals.v")
    if write_if_changed(os.path.join(GEN, "Rtap.v"), emit_rtap(work)):
        changed.append("Rtap.v")
    if write_if_changed(os.path.join(GEN, "Macros.v"), emit_macros()):
        changed.append("Macros.v")
    sys.path.insert(0, os.path.dirname(os.path.abspath(__file__)))
    import astq
    env = {n: vals[0] for k, n, vals in rows if k.startswith("enum:") or k == "def"}
    changed += astq.emit_all(REPO, GEN, CFLAGS, write_if_changed, BUILD, env)
    import sites
    changed += sites.emit(REPO, GEN, CFLAGS, write_if_changed, BUILD)
    info = {"changed": changed, "dropped_probe_lines": dropped,
            "n_enumerators": sum(len(n) for _, n in enums), "n_defines": len(defines), "n_records": len(recs)}
    with open(os.path.join(work, "translate.json"), "w") as f:
        json.dump(info, f, indent=1)
    print(json.dumps(info))


if __name__ == "__main__":
    main()
