"""Typed-expression sites (tie #1 for arithmetic): for every function defined in /repo/src/libwifi, the conditions of its
if/loop statements, the initialisers of its integer and pointer locals, its assignments, its return values and the
arguments of its calls to the allocation / copy / formatting routines, each as a `cexpr` (coq/Base/CExpr.v) that keeps
the type clang computed for every node and every implicit or explicit conversion.  -> coq/Gen/Sites.v

A node the translator does not understand becomes CUnknown: a theorem about that site then fails instead of holding
for the wrong reason."""
import os, re, glob, subprocess, json
import astq

PRIM = {
    "_Bool": (False, 8), "char": (True, 8), "signed char": (True, 8), "unsigned char": (False, 8),
    "short": (True, 16), "unsigned short": (False, 16), "int": (True, 32), "unsigned int": (False, 32),
    "long": (True, 64), "unsigned long": (False, 64), "long long": (True, 64), "unsigned long long": (False, 64),
    "__int128": (True, 128), "unsigned __int128": (False, 128),
}
PRIM.update({"uint8_t": (False, 8), "uint16_t": (False, 16), "uint32_t": (False, 32), "uint64_t": (False, 64),
             "int8_t": (True, 8), "int16_t": (True, 16), "int32_t": (True, 32), "int64_t": (True, 64), "size_t": (False, 64),
             "u8": (False, 8), "u16": (False, 16), "u32": (False, 32), "u64": (False, 64), "__le16": (False, 16), "__le32": (False, 32), "__le64": (False, 64)})
CALLS = {"malloc", "calloc", "realloc", "free", "memcpy", "memmove", "memset", "memcmp", "strncpy", "strncmp", "snprintf", "strlen",
         "strnlen", "getrandom", "libwifi_crc32", "libwifi_calculate_fcs"}
BINOPS = {"+": "OAdd", "-": "OSub", "*": "OMul", "/": "ODiv", "%": "ORem", "<<": "OShl", ">>": "OShr", "&": "OAnd", "|": "OOr",
          "^": "OXor", "<": "OLt", "<=": "OLe", ">": "OGt", ">=": "OGe", "==": "OEq", "!=": "ONe", "&&": "OLAnd", "||": "OLOr"}


def qual(t):
    if not t:
        return ""
    q = t.get("desugaredQualType") or t.get("qualType") or ""
    q = re.sub(r"\b(const|volatile|restrict)\b", "", q)
    return re.sub(r"\s+", " ", q).strip()


def is_ptr(q):
    return q.endswith("*")


def is_arr(q):
    return q.endswith("]")


class Ctx:
    def __init__(self, src, sizes, enum_unsigned, path=None):
        self.path = path
        self.src = src
        self.subst = {}               # inlining: parameter name -> ("obj", text of the object whose address was passed) | ("expr", cexpr text)
        self.locals = set()           # inlining: the callee's locals
        self.lprefix = ""             # inlining: what the callee's locals and keys are prefixed with
        self.inl_names = {}           # id of an inlined call node -> the name its result is stored under
        self.inline_ok = False        # calls to the iterator routines are inlined in this routine
        self.sizes = sizes            # type text -> size
        self.want = set()             # type texts whose size is needed
        self.enum_unsigned = enum_unsigned

    def cty(self, q):
        """-> (signed, bits) for integer / pointer / enum types, None otherwise"""
        if q in PRIM:
            return PRIM[q]
        if is_ptr(q) or is_arr(q) or "(*)" in q:
            return (False, 64)
        if q.startswith("enum "):
            return (False, 32)
        return None

    def tystr(self, q):
        c = self.cty(q)
        if c is None:
            return None
        return "(mkty %s %d)" % ("true" if c[0] else "false", c[1])

    def sizeof(self, q):
        q = q.strip()
        if q in ("void",):
            return 1
        if q in PRIM:
            return PRIM[q][1] // 8
        if is_ptr(q):
            return 8
        self.want.add(q)
        return self.sizes.get(q)

    def offsetof(self, ty, path):
        key = "@offsetof(%s, %s)" % (ty, path)
        self.want.add(key)
        return self.sizes.get(key)

    def bitfield(self, ty, path):
        key = "@BF(%s, %s)" % (ty, path)
        self.want.add(key)
        return self.sizes.get(key)

    def text(self, n):
        r = n.get("range") or {}
        b, e = r.get("begin") or {}, r.get("end") or {}
        # a token of a macro ARGUMENT is spelled in this file (use that), a token of a macro BODY is spelled where the macro is defined
        # (then the expansion site is all there is)
        def pick(x):
            if "spellingLoc" in x and x["spellingLoc"].get("_file") == self.path and "offset" in x["spellingLoc"]:
                return x["spellingLoc"]
            return x.get("expansionLoc", x)
        b, e = pick(b), pick(e)
        if "offset" not in b or "offset" not in e:
            return None
        if b.get("_file") != self.path or e.get("_file") != self.path:
            return None                 # the text lives in another file (a macro body, an inline function of a header)
        s = self.src[b["offset"]: e["offset"] + e.get("tokLen", 0)].decode("utf8", "replace")
        s = re.sub(r"\s+", "", s)
        # offsets of nodes that come from a macro body or another file do not index this file: keep only what reads as an lvalue
        if not s or not re.fullmatch(r"[\w\->.\[\]()*&+]+", s) or s.count("(") != s.count(")") or s.count("[") != s.count("]"):
            return None
        return self.rename(s)

    def rename(self, s):
        """an inlined callee's lvalue text in terms of the caller's objects: p->f becomes x.f when &x was passed for p; locals are prefixed"""
        amp = s.startswith("&")
        core = s[1:] if amp else s
        m = re.match(r"[A-Za-z_]\w*", core)
        if m:
            head = m.group(0)
            if head in self.subst and self.subst[head][0] == "obj" and core[len(head):len(head) + 2] == "->":
                core = self.subst[head][1] + "." + core[len(head) + 2:]
            elif head in self.locals:
                core = self.lprefix + core
        return ("&" if amp else "") + core


def coq_s(s):
    return '"' + s.replace('"', '""') + '"'


def zl(v):
    return "(%d)" % v if v < 0 else "%d" % v


def param_types(fq):
    """parameter type texts of a function type 'R (A, B, C)' (qualifiers kept)"""
    m = re.search(r"\((.*)\)\s*$", fq)
    if not m:
        return []
    out, depth, cur = [], 0, ""
    for ch in m.group(1):
        if ch == "(":
            depth += 1
        elif ch == ")":
            depth -= 1
        if ch == "," and depth == 0:
            out.append(cur.strip()); cur = ""
        else:
            cur += ch
    if cur.strip():
        out.append(cur.strip())
    return out


def member_path(cx, n):
    """for q->a.b.c where q is a pointer into memory (not simply a parameter): (node of q, pointee type text, "a.b.c"), else None"""
    path = []
    m = n
    while m.get("kind") == "MemberExpr" and not m.get("isArrow"):
        path.append(m.get("name"))
        m = (m.get("inner") or [{}])[0]
        while m.get("kind") == "ParenExpr":
            m = (m.get("inner") or [{}])[0]
    if m.get("kind") != "MemberExpr" or not m.get("isArrow"):
        return None
    path.append(m.get("name"))
    base = (m.get("inner") or [{}])[0]
    bs = base
    while bs.get("kind") in ("ParenExpr", "ImplicitCastExpr") and bs.get("castKind") in (None, "LValueToRValue", "NoOp") and bs.get("inner"):
        bs = bs["inner"][0]
    if bs.get("kind") == "DeclRefExpr" and (bs.get("referencedDecl") or {}).get("kind") != "VarDecl":
        return None                      # param->field: the routine's own object, a variable (a pointer that is CAST first, or a
                                         # LOCAL pointer variable - it was computed from some buffer address - is memory)
    qb = qual(base.get("type"))
    if not is_ptr(qb):
        return None
    return base, qb[:-1].strip(), ".".join(reversed(path))


def bitfield_load(cx, n, ty):
    """q->bits where the member is a bit-field: load the bytes that hold it, shift, mask"""
    mp = member_path(cx, n)
    basee = None
    if mp is None:
        # x.bits where x is an array element chosen at run time
        b0 = (n.get("inner") or [{}])[0]
        while b0.get("kind") == "ParenExpr" and b0.get("inner"):
            b0 = b0["inner"][0]
        if n.get("isArrow") or b0.get("kind") != "ArraySubscriptExpr":
            return None
        basee = addr_of(cx, b0)
        if basee is None:
            return None
        sty, path = qual(b0.get("type")), n.get("name")
    else:
        base, sty, path = mp
        basee = expr(cx, base)
    v = cx.bitfield(sty, path)
    if v is None or v < 0:
        return None
    first, width = v // 1000, v % 1000
    byteoff, shift = first // 8, first % 8
    nbits = 8 if shift + width <= 8 else 16 if shift + width <= 16 else 32 if shift + width <= 32 else None
    if nbits is None or width == 0:
        return None
    load = "(CLoad (mkty false %d) (CBin OAdd s64 %s (CLit s64 %d)))" % (nbits, basee, byteoff)
    return "(CCast %s (CBin OAnd u32 (CBin OShr u32 (CCast u32 %s) (CLit s32 %d)) (CLit u32 %d)))" % (ty, load, shift, (1 << width) - 1)


def addr_of(cx, n, addr_taken=False):
    """address expression of an lvalue that lives in memory the routine was handed - p[i], *p, and q->f / q->f.g where q is not
    simply a parameter or local (a pointer that was itself loaded or computed).  None: the lvalue is treated as a variable named by
    its source text (fields of the routine's own objects: `it->_frame_end`, `tags->length`, `spec.tv_sec` ...)."""
    k = n.get("kind")
    inner = n.get("inner") or []
    if k == "ParenExpr" and inner:
        return addr_of(cx, inner[0], addr_taken)
    if k == "ArraySubscriptExpr" and len(inner) == 2:
        base, idx = inner
        qb = qual(base.get("type"))
        bs = astq.strip(base)
        if (bs.get("kind") in ("MemberExpr", "DeclRefExpr")) and is_arr(qual(bs.get("type"))):
            if astq.const_value(idx) is not None or addr_taken:
                return None                  # (&arr[i] of an array object stays a name: it is a destination handed to a callee) a fixed element of an array object (the routine's own, or a global): a variable by its text
            # an element chosen at run time: the address of the array object plus the scaled index - a load from the table's bytes
            tb = cx.text(bs)
            aq = qual(bs.get("type"))
            eq_ = aq[:aq.rindex("[")].strip()
            sz = cx.sizeof(eq_)
            if tb is None or sz is None:
                return None
            ie = "(CCast s64 %s)" % expr(cx, idx)
            if sz != 1:
                ie = "(CBin OMul s64 %s (CLit s64 %d))" % (ie, sz)
            return "(CBin OAdd s64 (CVar u64 %s) %s)" % (coq_s("&" + tb), ie)
        if not is_ptr(qb):
            return None
        sz = cx.sizeof(qb[:-1].strip())
        if sz is None:
            return None
        ie = "(CCast s64 %s)" % expr(cx, idx)
        if sz != 1:
            ie = "(CBin OMul s64 %s (CLit s64 %d))" % (ie, sz)
        return "(CBin OAdd s64 %s %s)" % (expr(cx, base), ie)
    if k == "UnaryOperator" and n.get("opcode") == "*" and inner:
        return expr(cx, inner[0])
    if k == "MemberExpr" and inner and not n.get("isArrow"):
        # x.f where x itself lives at a computed address (an array element chosen at run time)
        b0 = inner[0]
        while b0.get("kind") == "ParenExpr" and b0.get("inner"):
            b0 = b0["inner"][0]
        if b0.get("kind") == "ArraySubscriptExpr":
            a0 = addr_of(cx, b0)
            if a0 is not None:
                off = cx.offsetof(qual(b0.get("type")), n.get("name"))
                if off is not None:
                    return "(CBin OAdd s64 %s (CLit s64 %d))" % (a0, off)
    if k == "MemberExpr" and inner:
        mp = member_path(cx, n)
        if mp is None:
            return None
        base, sty, path = mp
        off = cx.offsetof(sty, path)
        if off is None:
            return None
        return "(CBin OAdd s64 %s (CLit s64 %d))" % (expr(cx, base), off)
    return None


INLINABLE = {"libwifi_tag_iterator_init", "libwifi_tag_iterator_next", "find_ns"}
INLINE_IN = {"libwifi_check_tag", "libwifi_remove_tag", "libwifi_bss_tag_parser", "libwifi_sta_tag_parser",
             "ieee80211_radiotap_iterator_next"}     # find_ns(iterator, oui, subns): the same object under the same name
FNMAP = {}          # name -> (function node, source bytes, path)


def inl_name(cx, call, nm):
    i = call.get("id")
    if i not in cx.inl_names:
        cx.inl_names[i] = "ret$%s#%d" % (nm, sum(1 for v in cx.inl_names.values() if v.startswith("ret$%s#" % nm)))
    return cx.inl_names[i]


def stmtexpr_load(cx, n):
    """the GNU statement expression of get_unaligned(): ({ T tmp; memmove(&tmp, P, sizeof tmp); tmp; }) is a load of T from P"""
    q = qual(n.get("type"))
    mt = re.fullmatch(r"typeof \(\*\(\((\w+) \*\)\(.*\)\)\)", q)
    if mt:
        q = mt.group(1)                       # typeof(*((T *)(p))) is T
    lt = cx.cty(q)
    if not lt or is_ptr(q) or is_arr(q):
        return None
    calls = [m for m in astq.walk(n) if m.get("kind") == "CallExpr"]
    if len(calls) != 1:
        return None
    ci = calls[0].get("inner") or []
    callee = astq.strip(ci[0]) if ci else {}
    nm = (callee.get("referencedDecl") or {}).get("name")
    if nm not in ("memmove", "memcpy", "__builtin_memmove", "__builtin_memcpy") or len(ci) != 4:
        return None
    d0 = ci[1]
    while d0.get("kind") in ("ParenExpr", "ImplicitCastExpr", "CStyleCastExpr") and d0.get("inner"):
        d0 = d0["inner"][0]
    if not (d0.get("kind") == "UnaryOperator" and d0.get("opcode") == "&"):
        return None
    szv = astq.const_value(ci[3])
    if szv is None:
        e3 = expr(cx, ci[3])
        m_ = re.fullmatch(r"\(CLit u64 (\d+)\)", e3)
        szv = int(m_.group(1)) if m_ else None
    if szv is None or szv * 8 != lt[1]:
        return None
    return "(CLoad %s %s)" % (cx.tystr(q), expr(cx, ci[2]))


def expr(cx, n):
    """-> Coq cexpr text"""
    if not isinstance(n, dict):
        return "CUnknown"
    k = n.get("kind")
    q = qual(n.get("type"))
    ty = cx.tystr(q)
    inner = n.get("inner") or []
    if k in ("ParenExpr", "ConstantExpr", "ExprWithCleanups"):
        return expr(cx, inner[0]) if inner else "CUnknown"
    if k == "IntegerLiteral" and ty:
        return "(CLit %s %s)" % (ty, zl(int(n["value"])))
    if k == "StmtExpr":
        ld = stmtexpr_load(cx, n)
        return ld if ld is not None else "CUnknown"
    if k == "StringLiteral":
        v = astq.string_literal(n)
        if v is None:
            return "CUnknown"
        # the address of a string literal: a name that carries the literal's text (non-printable octets as \xNN)
        txt = "".join(ch if 32 <= ord(ch) < 127 and ch != "\\" else "\\x%02x" % (ord(ch) & 255) for ch in v)
        return "(CVar u64 %s)" % coq_s("str:" + txt)
    if k == "CharacterLiteral" and ty:
        return "(CLit %s %s)" % (ty, zl(int(n["value"])))
    if k in ("ImplicitCastExpr", "CStyleCastExpr"):
        ck = n.get("castKind")
        if not inner:
            return "CUnknown"
        if ck in ("LValueToRValue", "NoOp", "BitCast", "FunctionToPointerDecay"):
            return expr(cx, inner[-1])
        if ck == "ArrayToPointerDecay":
            if astq.strip(inner[-1]).get("kind") == "StringLiteral":
                return expr(cx, astq.strip(inner[-1]))
            a = addr_of(cx, inner[-1])
            if a is not None:
                return "(CCast u64 %s)" % a
            t = cx.text(inner[-1])
            return "(CVar u64 %s)" % coq_s("&" + t) if t else "CUnknown"
        if ck == "NullToPointer":
            return "(CLit u64 0)"
        if ck in ("IntegralCast", "IntegralToPointer", "PointerToIntegral", "BooleanToSignedIntegral") and ty:
            return "(CCast %s %s)" % (ty, expr(cx, inner[-1]))
        if ck in ("IntegralToBoolean", "PointerToBoolean"):
            return "(CBin ONe s32 %s (CLit s32 0))" % expr(cx, inner[-1])
        if ck == "ToVoid":
            return "CUnknown"
        return "CUnknown"
    if k == "DeclRefExpr":
        rd = n.get("referencedDecl") or {}
        if rd.get("kind") == "EnumConstantDecl":
            v = astq.const_value(n)
            if v is not None and ty:
                return "(CLit %s %s)" % (ty, zl(v))
            return "CUnknown"
        if rd.get("name") in cx.subst and rd.get("kind") == "ParmVarDecl":
            kind, val = cx.subst[rd["name"]]
            return val if kind == "expr" else "(CVar u64 %s)" % coq_s("&" + val)
        if ty and rd.get("name"):
            return "(CVar %s %s)" % (ty, coq_s(cx.rename(rd["name"])))
        return "CUnknown"
    if k in ("MemberExpr", "ArraySubscriptExpr") or (k == "UnaryOperator" and n.get("opcode") == "*"):
        a = addr_of(cx, n)
        if a is not None and ty:
            return "(CLoad %s %s)" % (ty, a)
        if k == "MemberExpr" and ty:
            bf = bitfield_load(cx, n, ty)
            if bf is not None:
                return bf
        t = cx.text(n)
        if ty and t:
            return "(CVar %s %s)" % (ty, coq_s(t))
        return "CUnknown"
    if k == "UnaryOperator":
        op = n.get("opcode")
        if op == "&":
            a = addr_of(cx, inner[0], addr_taken=True) if inner else None
            if a is not None:
                return "(CCast u64 %s)" % a          # &p->f, &p[i] through a pointer into memory: the address itself
            t = cx.text(n)
            return "(CVar u64 %s)" % coq_s(t) if t else "CUnknown"
        u = {"-": "UNeg", "~": "UNot", "!": "ULNot", "+": None, "__extension__": None}.get(op, "?")
        if u == "?" or not ty or not inner:
            return "CUnknown"
        if u is None:
            return expr(cx, inner[0])
        return "(CUn %s %s %s)" % (u, ty, expr(cx, inner[0]))
    if k == "UnaryExprOrTypeTraitExpr" and n.get("name") == "sizeof":
        at = n.get("argType")
        tq = qual(at) if at else (qual(inner[0].get("type")) if inner else "")
        # sizeof(expr) does not evaluate expr; parenthesised operands are ParenExpr nodes with the operand's type
        sz = cx.sizeof(tq) if tq else None
        if sz is None:
            return "CUnknown"
        return "(CLit u64 %d)" % sz
    if k == "BinaryOperator":
        op = n.get("opcode")
        if op == ",":
            return "CUnknown"
        if op not in BINOPS or len(inner) != 2:
            return "CUnknown"
        a, b = inner
        qa, qb = qual(a.get("type")), qual(b.get("type"))
        if op in ("+", "-") and (is_ptr(qa) or is_ptr(qb)):
            if is_ptr(qa) and is_ptr(qb):          # pointer difference, in elements
                sz = cx.sizeof(qa[:-1].strip())
                if sz is None:
                    return "CUnknown"
                d = "(CBin OSub s64 %s %s)" % (expr(cx, a), expr(cx, b))
                return d if sz == 1 else "(CBin ODiv s64 %s (CLit s64 %d))" % (d, sz)
            p, i = (a, b) if is_ptr(qa) else (b, a)
            sz = cx.sizeof(qual(p.get("type"))[:-1].strip())
            if sz is None:
                return "CUnknown"
            ie = "(CCast s64 %s)" % expr(cx, i)
            if sz != 1:
                ie = "(CBin OMul s64 %s (CLit s64 %d))" % (ie, sz)
            # address arithmetic: computed in the integers here, the theorem states the range
            return "(CBin %s s64 %s %s)" % (BINOPS[op], expr(cx, p), ie) if is_ptr(qa) or op == "+" else "CUnknown"
        if not ty:
            return "CUnknown"
        return "(CBin %s %s %s %s)" % (BINOPS[op], ty, expr(cx, a), expr(cx, b))
    if k == "ConditionalOperator" and ty and len(inner) == 3:
        return "(CCond %s %s %s %s)" % (ty, expr(cx, inner[0]), expr(cx, inner[1]), expr(cx, inner[2]))
    if k == "CallExpr":
        callee = astq.strip(inner[0]) if inner else {}
        nm = (callee.get("referencedDecl") or {}).get("name", "?")
        if cx.inline_ok and nm in INLINABLE and nm in FNMAP:
            return "(CVar %s %s)" % (ty or "s32", coq_s(inl_name(cx, n, nm)))
        if nm in ("__uint16_identity", "__uint32_identity", "__uint64_identity") and ty and len(inner) == 2:
            return "(CCast %s %s)" % (ty, expr(cx, inner[1]))          # le16toh & co on a little-endian host
        bs = {"ntohs": 16, "htons": 16, "__bswap_16": 16, "ntohl": 32, "htonl": 32, "__bswap_32": 32, "__bswap_64": 64}.get(nm)
        if bs and len(inner) == 2:
            # byte swap written out with shifts and masks in the unsigned 64-bit type, then converted to the result type
            x = "(CCast u64 (CCast (mkty false %d) %s))" % (bs, expr(cx, inner[1]))
            terms = []
            nb = bs // 8
            for i in range(nb):
                byte = "(CBin OAnd u64 (CBin OShr u64 %s (CLit s32 %d)) (CLit u64 255))" % (x, 8 * i)
                terms.append("(CBin OShl u64 %s (CLit s32 %d))" % (byte, 8 * (nb - 1 - i)))
            e = terms[0]
            for t in terms[1:]:
                e = "(CBin OOr u64 %s %s)" % (e, t)
            return "(CCast %s %s)" % (ty or "(mkty false %d)" % bs, e)
        return "(CCall %s %s [%s])" % (ty or "s32", coq_s(nm), "; ".join(expr(cx, a) for a in inner[1:]))
    return "CUnknown"


def sites_of(cx, fn, kprefix=""):
    """-> (flat list of (key, cexpr), structured body as Coq text of a `list cstmt`)"""
    out = []
    cnt = {}

    def key(base):
        c = cnt.get(base, 0)
        cnt[base] = c + 1
        return "%s%s#%d" % (kprefix, base, c)

    def inline_call(m, nm):
        """the callee's body, translated with its parameters replaced by this call's arguments"""
        cfn, csrc, cpath = FNMAP[nm]
        inner = m.get("inner") or []
        params = [c for c in cfn.get("inner", []) if c.get("kind") == "ParmVarDecl"]
        c2 = Ctx(csrc, cx.sizes, True, cpath)
        c2.want = cx.want
        c2.inline_ok = False
        rn = inl_name(cx, m, nm)
        c2.lprefix = rn[4:] + "$"
        c2.locals = {v.get("name") for v in astq.walk(cfn) if v.get("kind") == "VarDecl"}
        for pd, a in zip(params, inner[1:]):
            b = a
            while b.get("kind") in ("ParenExpr", "ImplicitCastExpr", "CStyleCastExpr") and b.get("castKind") in (None, "BitCast", "NoOp") and b.get("inner"):
                b = b["inner"][0]
            t = cx.text(b["inner"][0]) if (b.get("kind") == "UnaryOperator" and b.get("opcode") == "&" and b.get("inner")) else None
            if t is not None:
                c2.subst[pd.get("name")] = ("obj", t)
            else:
                c2.subst[pd.get("name")] = ("expr", expr(cx, a))
        sub_out, sub_tree = sites_of(c2, cfn, kprefix="%s:" % rn[4:])
        out.extend(sub_out)
        return "(SInline %s %s)" % (coq_s(rn), lst(sub_tree))

    def lst(items):
        return "[" + "; ".join(items) + "]"

    def sset(k, lhs, e):
        out.append((k, e))
        return "(SSet %s %s %s)" % (coq_s(k), coq_s(lhs), e)

    def calls_in(n):
        """calls to the listed routines inside an expression, in evaluation order of clang's walk"""
        res = []

        def post(x):                      # a call's arguments are evaluated before the call: inner calls first
            if isinstance(x, dict):
                if x.get("kind") == "StmtExpr" and stmtexpr_load(cx, x) is not None:
                    return                    # translated as a load: its memmove is not a call of the routine
                for c in x.get("inner", []) or []:
                    yield from post(c)
                yield x
        for m in post(n):
            if m.get("kind") == "CallExpr":
                inner = m.get("inner") or []
                callee = astq.strip(inner[0]) if inner else {}
                nm = (callee.get("referencedDecl") or {}).get("name", "?")
                if cx.inline_ok and nm in INLINABLE and nm in FNMAP:
                    res.append(inline_call(m, nm))
                    continue
                kk = key("call:" + nm)
                args = [expr(cx, a) for a in inner[1:]]
                if nm in CALLS:
                    for i, a in enumerate(args):
                        out.append(("%s:%d" % (kk, i), a))
                res.append("(SCall %s %s %s)" % (coq_s(kk), coq_s(nm), lst(args)))
                # memset(p, 0, sizeof *p) on a pointer variable, memset(&x, 0, sizeof x): the object reads 0 afterwards
                if nm == "memset" and len(inner) == 4 and astq.const_value(inner[2]) == 0:
                    szv = astq.const_value(inner[3])
                    if szv is None:
                        m_ = re.fullmatch(r"\(CLit u64 (\d+)\)", args[2])
                        szv = int(m_.group(1)) if m_ else None
                    d0 = inner[1]
                    while d0.get("kind") in ("ParenExpr", "ImplicitCastExpr", "CStyleCastExpr") and d0.get("castKind") in (None, "BitCast", "NoOp", "LValueToRValue") and d0.get("inner"):
                        d0 = d0["inner"][0]
                    if d0.get("kind") == "DeclRefExpr" and is_ptr(qual(d0.get("type"))) and szv is not None:
                        psz = cx.sizeof(qual(d0.get("type"))[:-1].strip())
                        nm0 = (d0.get("referencedDecl") or {}).get("name")
                        if psz is not None and psz == szv and nm0:
                            res.append("(SZero %s)" % coq_s(nm0 + "->"))
                            continue
                    if d0.get("kind") == "UnaryOperator" and d0.get("opcode") == "&" and d0.get("inner") and szv is not None:
                        tq = qual(d0["inner"][0].get("type"))
                        tsz = cx.sizeof(tq)
                        tx = cx.text(d0["inner"][0])
                        if tsz is not None and tsz == szv and tx:
                            res.append("(SZero %s)" % coq_s(tx))
                            continue
                # an argument &x / a local array handed over through a pointer to non-const: the callee may write x
                ptypes = param_types(((callee.get("type") or {}).get("qualType")) or "")
                for i, a in enumerate(inner[1:]):
                    b = a
                    while b.get("kind") in ("ParenExpr", "ImplicitCastExpr", "CStyleCastExpr") and b.get("castKind") in (None, "BitCast", "NoOp") and b.get("inner"):
                        b = b["inner"][0]
                    target = None
                    if b.get("kind") == "UnaryOperator" and b.get("opcode") == "&" and b.get("inner"):
                        target = cx.text(b["inner"][0])
                    elif b.get("kind") == "ImplicitCastExpr" and b.get("castKind") == "ArrayToPointerDecay" and b.get("inner"):
                        target = cx.text(b["inner"][0])
                    if target is None:
                        continue
                    # memcpy(&x, src, sizeof x) into an integer object is a little-endian load of x's type from src
                    if nm == "memcpy" and i == 0 and len(inner) == 4 and b.get("kind") == "UnaryOperator":
                        lq = qual(b["inner"][0].get("type"))
                        lt = cx.cty(lq)
                        szv = astq.const_value(inner[3])
                        if szv is None:
                            m_ = re.fullmatch(r"\(CLit u64 (\d+)\)", args[2])
                            szv = int(m_.group(1)) if m_ else None
                        if lt and not is_ptr(lq) and not is_arr(lq) and szv is not None and szv * 8 == lt[1]:
                            srcn = inner[2]
                            while srcn.get("kind") in ("ParenExpr", "ImplicitCastExpr", "CStyleCastExpr") and srcn.get("castKind") in (None, "BitCast", "NoOp") and srcn.get("inner"):
                                srcn = srcn["inner"][0]
                            sq = qual((srcn.get("inner") or [{}])[0].get("type")) if srcn.get("kind") == "UnaryOperator" and srcn.get("opcode") == "&" else None
                            if sq and cx.cty(sq) and not is_ptr(sq) and not is_arr(sq) and cx.cty(sq)[1] == lt[1]:
                                # memcpy(&x, &y, sizeof x) between integer objects of one width: x = y (same representation)
                                res.append(sset(key("load:" + target), target, "(CCast %s %s)" % (cx.tystr(lq), expr(cx, srcn["inner"][0]))))
                            else:
                                res.append(sset(key("load:" + target), target, "(CLoad %s %s)" % (cx.tystr(lq), args[1])))
                            continue
                    pt = ptypes[i] if i < len(ptypes) else ""
                    if re.search(r"\bconst\b[^*]*\*\s*(restrict|__restrict)?\s*$", pt):
                        continue            # pointer to const: the callee only reads
                    res.append("(SClobber %s)" % coq_s(target))
        return res

    def block(n):
        if not isinstance(n, dict):
            return []
        if n.get("kind") == "CompoundStmt":
            r = []
            for c in n.get("inner") or []:
                r += visit(c)
            return r
        return visit(n)

    def visit(n):
        if not isinstance(n, dict):
            return []
        k = n.get("kind")
        inner = n.get("inner") or []
        if k == "CompoundStmt":
            return block(n)
        if k == "NullStmt":
            return []
        if k == "LabelStmt":
            # the label itself is not executable (a goto target); the statement it labels is translated in place
            r = ["(SOther %s)" % coq_s("label " + str(n.get("name", "")))]
            for c in inner:
                r += visit(c)
            return r
        if k == "IfStmt" and inner:
            kk = key("if")
            c = expr(cx, inner[0])
            out.append((kk, c))
            pre = calls_in(inner[0])
            a = block(inner[1]) if len(inner) > 1 else []
            b = block(inner[2]) if len(inner) > 2 else []
            return pre + ["(SIf %s %s %s %s)" % (coq_s(kk), c, lst(a), lst(b))]
        if k == "WhileStmt" and len(inner) >= 2:
            kk = key("loop")
            c = expr(cx, inner[0])
            out.append((kk, c))
            pre = calls_in(inner[0])
            if pre and all(x.startswith("(SCall ") for x in pre):
                # the calls the condition makes are recorded before the first test and again at the end of every pass
                return pre + ["(SLoop %s true %s %s [])" % (coq_s(kk), c, lst(block(inner[-1]) + pre))]
            if pre:
                return ["(SOther \"call in loop condition\")"] + block(inner[-1])
            return ["(SLoop %s true %s %s [])" % (coq_s(kk), c, lst(block(inner[-1])))]
        if k == "DoStmt" and len(inner) == 2:
            body = block(inner[0])
            kk = key("loop")
            c = expr(cx, inner[1])
            out.append((kk, c))
            cc = calls_in(inner[1])
            if cc and all(x.startswith("(SInline ") for x in cc):
                # the condition's call is an inlined routine: it runs at the end of every pass, the condition reads its result
                return ["(SLoop %s false %s %s [])" % (coq_s(kk), c, lst(body + cc))]
            if cc:
                return body + ["(SOther \"call in loop condition\")"]
            return ["(SLoop %s false %s %s [])" % (coq_s(kk), c, lst(body))]
        if k == "ForStmt":
            parts = n.get("inner") or []
            if len(parts) == 5:
                init = visit(parts[0]) if parts[0] else []
                kk = key("loop")
                c = expr(cx, parts[2]) if parts[2] else "(CLit s32 1)"
                out.append((kk, c))
                step = visit(parts[3]) if parts[3] else []
                body = block(parts[4])
                return init + ["(SLoop %s true %s %s %s)" % (coq_s(kk), c, lst(body), lst(step))]
            return ["(SOther \"for\")"]
        if k == "DeclStmt":
            r = []
            for d in inner:
                if d.get("kind") == "VarDecl":
                    q = qual(d.get("type"))
                    init = [c for c in (d.get("inner") or []) if c.get("kind", "").endswith(("Expr", "Operator", "Literal"))]
                    if init and cx.cty(q) and not is_arr(q):
                        r += calls_in(init[0])
                        r.append(sset(key("decl:" + d.get("name", "?")), cx.rename(d.get("name", "?")), "(CCast %s %s)" % (cx.tystr(q), expr(cx, init[0]))))
                    elif init:
                        r += calls_in(init[0])          # a struct / array local: memory is not modelled
            return r
        if k == "ReturnStmt":
            kk = key("ret")
            if inner:
                e = expr(cx, inner[0])
                out.append((kk, e))
                return calls_in(inner[0]) + ["(SRet %s (Some %s))" % (coq_s(kk), e)]
            return ["(SRet %s None)" % coq_s(kk)]
        if k == "BinaryOperator" and n.get("opcode") == "=" and len(inner) == 2:
            q = qual(n.get("type"))
            t = cx.text(inner[0])
            pre = calls_in(inner[1])
            if cx.cty(q) and t:
                return pre + [sset(key("set:" + t), t, "(CCast %s %s)" % (cx.tystr(q), expr(cx, inner[1])))]
            return pre                               # assignment of a struct value: memory is not modelled
        if k == "CompoundAssignOperator" and len(inner) == 2:
            q = qual(n.get("type"))
            t = cx.text(inner[0])
            op = (n.get("opcode") or "")[:-1]
            cl, cr = qual(n.get("computeLHSType")), qual(n.get("computeResultType"))
            pre = calls_in(inner[1])
            if cx.cty(q) and t and op in BINOPS and cx.cty(cl) and cx.cty(cr):
                lhs = expr(cx, inner[0])
                qa = qual(inner[0].get("type"))
                if is_ptr(qa):
                    sz = cx.sizeof(qa[:-1].strip())
                    ie = "(CCast s64 %s)" % expr(cx, inner[1])
                    if sz is None:
                        e = "CUnknown"
                    else:
                        if sz != 1:
                            ie = "(CBin OMul s64 %s (CLit s64 %d))" % (ie, sz)
                        e = "(CCast u64 (CBin %s s64 %s %s))" % (BINOPS[op], lhs, ie)
                else:
                    e = "(CCast %s (CBin %s %s (CCast %s %s) %s))" % (cx.tystr(q), BINOPS[op], cx.tystr(cr), cx.tystr(cl), lhs, expr(cx, inner[1]))
                return pre + [sset(key("upd:" + t), t, e)]
            return pre + ["(SOther %s)" % coq_s("compound assignment to " + (t or "?"))]
        if k == "UnaryOperator" and n.get("opcode") in ("++", "--") and inner:
            t = cx.text(inner[0])
            q = qual(n.get("type"))
            if t and cx.cty(q) and not is_ptr(q):
                ty = cx.tystr(q)
                pq = cx.cty(q)
                promo = ty if pq[1] >= 32 else "s32"
                return [sset(key("upd:" + t), t, "(CCast %s (CBin %s %s (CCast %s %s) (CLit %s 1)))" % (
                    ty, "OAdd" if n["opcode"] == "++" else "OSub", promo, promo, expr(cx, inner[0]), promo))]
            if t and is_ptr(q) and cx.sizeof(q[:-1].strip()) is not None:
                # p++ / p-- on a pointer: the address moves by the size of the pointee
                return [sset(key("upd:" + t), t, "(CCast u64 (CBin %s s64 %s (CLit s64 %d)))" % (
                    "OAdd" if n["opcode"] == "++" else "OSub", expr(cx, inner[0]), cx.sizeof(q[:-1].strip())))]
            return ["(SOther %s)" % coq_s("increment of " + (t or "?"))]
        if k == "CallExpr":
            return calls_in(n)
        if k in ("ImplicitCastExpr", "CStyleCastExpr", "ParenExpr") and inner:
            return visit(inner[0])
        if k == "GotoStmt":
            # not executable by exec (stays an SOther); the target label is named so that Base/CGoto.v's execg can find it
            return ["(SOther %s)" % coq_s("goto " + labels.get(n.get("targetLabelDeclId"), "?"))]
        if k == "BreakStmt":
            return ["SBreak"]
        if k == "SwitchStmt" and len(inner) >= 2:
            return switch(n)
        return ["(SOther %s)" % coq_s(k or "?")]

    def switch(n):
        inner = n.get("inner") or []
        kk = key("switch")
        scrut = expr(cx, inner[0])
        out.append((kk, scrut))
        comp = inner[-1]
        if comp.get("kind") != "CompoundStmt":
            return ["(SOther \"switch without a block\")"]
        groups = []            # (labels or None for default, [statement nodes])
        for c in comp.get("inner") or []:
            labels = []
            is_default = False
            node = c
            started = False
            while node.get("kind") in ("CaseStmt", "DefaultStmt"):
                started = True
                ci = node.get("inner") or []
                if node["kind"] == "CaseStmt":
                    v = astq.const_value(ci[0]) if ci else None
                    if v is None:
                        return ["(SOther \"switch with a non-constant label\")"]
                    labels.append(v)
                    node = ci[-1] if len(ci) >= 2 else {}
                else:
                    is_default = True
                    node = ci[-1] if ci else {}
            if started:
                groups.append([labels, is_default, [node] if node else []])
            elif groups:
                groups[-1][2].append(c)
            else:
                return ["(SOther \"statement before the first case\")"]
        # stacked labels whose own statement is empty were merged by clang's nesting; a group must end in break / return
        cases, default = [], []
        falls = False
        for gi, (labels, is_default, stmts) in enumerate(groups):
            body = []
            for st in stmts:
                body += visit(st)
            last = stmts[-1] if stmts else {}
            while last.get("kind") == "CompoundStmt" and last.get("inner"):
                last = last["inner"][-1]
            # a group ending in goto leaves the switch as well (its body then ends in the non-executable SOther "GotoStmt")
            if last.get("kind") not in ("BreakStmt", "ReturnStmt", "GotoStmt") and gi != len(groups) - 1:
                falls = True          # keep visiting: the expressions of the later groups are still recorded as sites
            if is_default:
                default = body
                if labels:
                    cases.append((labels, body))
            else:
                cases.append((labels, body))
        if falls:
            return ["(SOther \"switch with fall-through\")"]
        cs = lst(["(%s, %s)" % (lst([zl(v) for v in labels]), lst(body)) for labels, body in cases])
        return ["(SSwitch %s %s %s %s)" % (coq_s(kk), scrut, cs, lst(default))]

    body = [c for c in fn["inner"] if c.get("kind") == "CompoundStmt"]
    labels = {}

    def find_labels(x):
        if isinstance(x, dict):
            if x.get("kind") == "LabelStmt" and x.get("declId"):
                labels[x["declId"]] = str(x.get("name", "?"))
            for v in x.get("inner") or []:
                find_labels(v)
    for c in body:
        find_labels(c)
    tree = block(body[0]) if body else []
    return out, tree


def annotate_files(docs):
    """clang prints "file" in a location only when it differs from the previously printed location: walk the document in print
    order and write the current file into every location object"""
    cur = [None]

    def go(x):
        if isinstance(x, dict):
            if "offset" in x or "file" in x:
                if "file" in x:
                    cur[0] = x["file"]
                x["_file"] = cur[0]
            for kk, v in x.items():
                if kk != "includedFrom":
                    go(v)
        elif isinstance(x, list):
            for v in x:
                go(v)
    for d in docs:          # the documents of ONE clang run: the "current file" carries over from one to the next
        go(d)


BFDEF = ('static long bf_scan(const unsigned char *p, size_t n) { long first = -1; long w = 0; for (size_t i = 0; i < n * 8; i++) '
         'if ((p[i / 8] >> (i % 8)) & 1) { if (first < 0) first = (long) i; w++; } return first < 0 ? -1 : first * 1000 + w; }\n'
         '#define BF(T, path) ({ T x_; memset(&x_, 0, sizeof x_); x_.path = -1; bf_scan((const unsigned char *) &x_, sizeof x_); })\n')


def probe_sizes(types, cflags, build):
    if not types:
        return {}
    src = os.path.join(build, "sizes_probe.c")
    exe = os.path.join(build, "sizes_probe")
    types = sorted(types)
    with open(src, "w") as f:
        f.write('#include <stdio.h>\n#include <stddef.h>\n#include <string.h>\n#include "libwifi.h"\n#include "libwifi/core/radiotap/radiotap_iter.h"\n' + BFDEF + 'int main(void) {\n')
        for i, t in enumerate(types):
            f.write('  printf("%%d %%ld\\n", %d, (long) (%s));\n' % (i, (t[1:] if t.startswith("@") else "sizeof(%s)" % t)))
        f.write("  return 0;\n}\n")
    r = subprocess.run(["gcc"] + [c for c in cflags if not c.startswith("-fsyntax")] + ["-w", src, "-o", exe], stdout=subprocess.PIPE, stderr=subprocess.STDOUT, text=True)
    if r.returncode != 0:
        # drop the types that do not compile one by one (anonymous structs ...)
        ok = {}
        for t in types:
            with open(src, "w") as f:
                f.write('#include <stdio.h>\n#include <stddef.h>\n#include <string.h>\n#include "libwifi.h"\n#include "libwifi/core/radiotap/radiotap_iter.h"\n' + BFDEF + 'int main(void) { printf("%%zu\\n", (size_t) (%s)); return 0; }\n' % (t[1:] if t.startswith("@") else "sizeof(%s)" % t))
            r = subprocess.run(["gcc"] + cflags + ["-w", src, "-o", exe], stdout=subprocess.PIPE, stderr=subprocess.STDOUT, text=True)
            if r.returncode == 0:
                ok[t] = int(subprocess.run([exe], stdout=subprocess.PIPE, text=True).stdout.strip())
        return ok
    out = subprocess.run([exe], stdout=subprocess.PIPE, text=True).stdout
    res = {}
    for l in out.splitlines():
        i, v = l.split()
        res[types[int(i)]] = int(v)
    return res


def emit(repo, gen, cflags, write_if_changed, build):
    files = sorted(glob.glob(os.path.join(repo, "src", "libwifi", "**", "*.c"), recursive=True))
    sizes = {}
    result = None
    for attempt in range(3):
        allf = []
        want = set()
        if attempt == 0:
            parsed = []
            for path in files:
                src = open(path, "rb").read()          # clang's offsets count bytes (the sources have UTF-8 box drawings in comments)
                d1, d2 = astq.ast_of(cflags, path, "libwifi_"), astq.ast_of(cflags, path, "ieee80211_radiotap_")
                annotate_files(d1)
                annotate_files(d2)
                # the static helper the radiotap iterator calls (inlined at its call site)
                srcb = src if isinstance(src, (bytes, bytearray)) else str(src).encode()
                d3 = astq.ast_of(cflags, path, "find_ns") if b"find_ns(" in srcb else []
                annotate_files(d3)
                fns = []
                seen = set()
                for d in d1 + d2 + d3:
                    for n in astq.walk(d):
                        if n.get("kind") == "FunctionDecl" and n.get("name") and n["name"] not in seen and any(
                                c.get("kind") == "CompoundStmt" for c in n.get("inner", [])):
                            loc = n.get("loc") or {}
                            # only definitions whose text is in this file (not inline functions of included headers)
                            if "includedFrom" in loc or "includedFrom" in ((n.get("range") or {}).get("begin") or {}):
                                continue
                            seen.add(n["name"])
                            fns.append(n)
                            FNMAP[n["name"]] = (n, src, path)
                parsed.append((path, src, fns))
        for path, src, fns in parsed:
            cx = Ctx(src, sizes, True, path)
            for n in fns:
                cx.inline_ok = n["name"] in INLINE_IN
                cx.inl_names = {}
                allf.append((n["name"], os.path.relpath(path, repo), sites_of(cx, n)))
            want |= cx.want
        missing = {t for t in want if t not in sizes}
        result = allf
        if not missing:
            break
        got = probe_sizes(missing, cflags, build)
        for t in missing:
            sizes[t] = got.get(t)          # None: unknown, stays CUnknown
    o = ["(* GENERATED by tools/translate.py (sites) - do not edit *)", "From Coq Require Import List ZArith String.", "Import ListNotations.",
         "Local Open Scope Z_scope.", "Local Open Scope string_scope.", "From LW Require Import Base.CExpr.", ""]
    names = []
    for nm, rel, (ss, tree) in sorted(result):
        o.append("(* %s *)" % rel)
        o.append("Definition sites_%s : list (string * cexpr) := [" % nm)
        o.append(";\n".join("  (%s, %s)" % (coq_s(k), e) for k, e in ss))
        o.append("].")
        o.append("Definition body_%s : list cstmt := [" % nm)
        o.append(";\n".join("  " + t for t in tree))
        o.append("].")
        names.append(nm)
    o.append("")
    o.append("Definition site_functions : list string := [%s]." % "; ".join(coq_s(n) for n in names))
    return ["Sites.v"] if write_if_changed(os.path.join(gen, "Sites.v"), "\n".join(o) + "\n") else []
