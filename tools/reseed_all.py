#!/usr/bin/env python3
"""tools/reseed_all.py: re-run every seeded change that still applies to /repo's HEAD against the checks that caught it
(quick tier, evidence written to build/evidence_seeded) and report which are still caught.  Used after the checks or the
library changed.  Writes build/reseed_report.json."""
import subprocess, sys, os, json, glob
V = os.path.dirname(os.path.dirname(os.path.abspath(__file__)))
def sh(cmd, **kw):
    p = subprocess.run(cmd, shell=True, stdout=subprocess.PIPE, stderr=subprocess.STDOUT, text=True, **kw)
    return p.returncode, p.stdout
rep = {}
only = sys.argv[1:]
for d in sorted(glob.glob(os.path.join(V, "seeded", "*"))):
    sid = os.path.basename(d)
    if only and sid not in only:
        continue
    patch = os.path.join(d, "patch.diff")
    meta = json.load(open(os.path.join(d, "meta.json")))
    rc, out = sh("git -C /repo apply --check %s" % patch)
    if rc != 0:
        rep[sid] = {"applies": False}
        print(sid, "does not apply to the current tree"); continue
    sh("git -C /repo apply %s" % patch)
    res = {"applies": True, "checks": {}}
    try:
        for p in meta["caught_by"][:2]:
            rc, out = sh("%s %s --tier quick" % (os.path.join(V, "bin/check"), p), cwd=V,
                         env=dict(os.environ, VERIF_EVIDENCE_DIR=os.path.join(V, "build", "evidence_seeded")))
            first = [l for l in out.splitlines() if l.startswith("VIOLATION")][:1]
            res["checks"][p] = {"exit": rc, "line": first[0] if first else (out.strip().splitlines() or ["(no output)"])[-1][:160]}
    finally:
        sh("git -C /repo checkout -- .")
    rep[sid] = res
    print(sid, {k: ("CAUGHT" if v["exit"] == 1 else "MISSED") + (" (abstract)" if "no-failing-input-found" in v["line"] else "") for k, v in res["checks"].items()}, flush=True)
json.dump(rep, open(os.path.join(V, "build", "reseed_report.json"), "w"), indent=1)
