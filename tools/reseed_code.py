#!/usr/bin/env python3
"""tools/reseed_code.py <seeded ids...>: apply each seeded change, run the quick check of the property it breaks and record, besides the
verdict, which proof obligation stopped checking (the lemma named in the replay's `unproved` list) - i.e. whether the change is
caught by a theorem about the translated code, by the correspondence, or both.  Writes build/reseed_code.json."""
import subprocess, sys, os, json, glob, re
V = os.path.dirname(os.path.dirname(os.path.abspath(__file__)))
def sh(cmd, **kw):
    p = subprocess.run(cmd, shell=True, stdout=subprocess.PIPE, stderr=subprocess.STDOUT, text=True, **kw)
    return p.returncode, p.stdout
rep = {}
outp = os.path.join(V, "build", "reseed_code.json")
if os.path.exists(outp):
    rep = json.load(open(outp))
for sid in sys.argv[1:]:
    d = os.path.join(V, "seeded", sid)
    patch = os.path.join(d, "patch.diff")
    meta = json.load(open(os.path.join(d, "meta.json")))
    prop = meta["breaks_property"]
    rc, out = sh("git -C /repo apply --check %s" % patch)
    if rc != 0:
        rep[sid] = {"applies": False}; continue
    sh("git -C /repo apply %s" % patch)
    try:
        base = None
        if os.environ.get("BASELINE"):
            rcb, outb = sh(os.path.join(V, "bin/baseline.sh"))
            base = outb.strip().splitlines()[-1] if outb.strip() else "?"
        rc, out = sh("%s %s --tier quick" % (os.path.join(V, "bin/check"), prop), cwd=V,
                     env=dict(os.environ, VERIF_EVIDENCE_DIR=os.path.join(V, "build", "evidence_seeded")))
        viol = [l for l in out.splitlines() if l.startswith("VIOLATION")]
        lemmas, concrete = [], [l for l in viol if "no-failing-input-found" not in l]
        for l in viol:
            m = re.search(r"replay=(\S+)", l)
            if m and os.path.exists(m.group(1)):
                rp = json.load(open(m.group(1)))
                for u in rp.get("unproved", []):
                    if u.get("what") in ("theorem", "examples") and isinstance(u.get("detail"), dict):
                        lemmas.append("%s:%s" % (u["detail"].get("file"), u["detail"].get("lemma")))
                    elif u.get("what") not in ("theorem", "examples"):
                        lemmas.append(u.get("what"))
        rep[sid] = {"applies": True, "exit": rc, "concrete": len(concrete) > 0, "broken_obligations": sorted(set(lemmas)), "baseline": base,
                    "lines": [l[:300] for l in out.splitlines() if l.startswith(("VIOLATION", "  ", "OK"))][:4]}
    finally:
        sh("git -C /repo checkout -- .")
    print(sid, rep[sid], flush=True)
    json.dump(rep, open(outp, "w"), indent=1)
