"""clang-AST queries used by translate.py: switch tables, flag/name lists, arithmetic expressions."""
import json, os, re, subprocess


def run(cmd, **kw):
    return subprocess.run(cmd, stdout=subprocess.PIPE, stderr=subprocess.PIPE, text=True, **kw)


def ast_of(cflags, path, filt):
    r = run(["clang"] + cflags + ["-fsyntax-only", "-Xclang", "-ast-dump=json", "-Xclang",
             "-ast-dump-filter=" + filt, path])
    dec = json.JSONDecoder()
    s = r.stdout
    i = 0
    docs = []
    while True:
        while i < len(s) and s[i] != "{":
            i += 1
        if i >= len(s):
            break
        try:
            obj, j = dec.raw_decode(s, i)
        except json.JSONDecodeError:
            break
        docs.append(obj)
        i = j
    return docs


def find_function(docs, name):
    for d in docs:
        for n in walk(d):
            if n.get("kind") == "FunctionDecl" and n.get("name") == name and any(
                    c.get("kind") == "CompoundStmt" for c in n.get("inner", [])):
                return n
    return None


def walk(n):
    if isinstance(n, dict):
        yield n
        for c in n.get("inner", []) or []:
            yield from walk(c)


def strip(n):
    """skip implicit casts / parens / constant-expr wrappers"""
    while isinstance(n, dict) and n.get("kind") in ("ImplicitCastExpr", "ParenExpr", "ConstantExpr",
                                                     "CStyleCastExpr", "ExprWithCleanups") and n.get("inner"):
        n = n["inner"][0]
    return n


ENV = {}


def const_value(n, env=None):
    """integer value of a constant expression node (enumerators resolved through the probe's values)"""
    env = ENV if env is None else env
    if not isinstance(n, dict):
        return None
    if n.get("kind") == "ConstantExpr" and "value" in n:
        return int(n["value"])
    m = strip(n)
    k = m.get("kind")
    if k == "IntegerLiteral":
        return int(m["value"])
    if k == "CharacterLiteral":
        return int(m["value"])
    if k == "DeclRefExpr" and m.get("referencedDecl", {}).get("kind") == "EnumConstantDecl":
        return env.get(m["referencedDecl"].get("name"))
    if k == "UnaryOperator":
        v = const_value(m["inner"][0], env)
        if v is None:
            return None
        return {"-": -v, "+": v, "~": ~v, "!": int(not v)}.get(m.get("opcode"))
    if k == "BinaryOperator":
        a = const_value(m["inner"][0], env)
        b = const_value(m["inner"][1], env)
        if a is None or b is None:
            return None
        op = m.get("opcode")
        try:
            return {"+": a + b, "-": a - b, "*": a * b, "<<": a << b, ">>": a >> b, "&": a & b, "|": a | b,
                    "^": a ^ b}.get(op)
        except Exception:
            return None
    return None


def c_unescape(v):
    """decode the C string literal text clang prints (with its quotes) into a latin-1 str"""
    v = v.strip()
    if v.startswith('"') and v.endswith('"'):
        v = v[1:-1]
    out, i = [], 0
    simple = {"n": 10, "t": 9, "r": 13, "0": 0, "\\": 92, '"': 34, "'": 39, "a": 7, "b": 8, "f": 12, "v": 11}
    while i < len(v):
        c = v[i]
        if c != "\\":
            out.append(ord(c)); i += 1
            continue
        i += 1
        if i >= len(v):
            break
        c = v[i]
        if c in "01234567":
            j = i
            while j < len(v) and j < i + 3 and v[j] in "01234567":
                j += 1
            out.append(int(v[i:j], 8) & 255); i = j
        elif c == "x":
            j = i + 1
            while j < len(v) and v[j] in "0123456789abcdefABCDEF":
                j += 1
            out.append(int(v[i + 1:j], 16) & 255); i = j
        else:
            out.append(simple.get(c, ord(c))); i += 1
    return "".join(chr(b) for b in out)


def string_literal(n):
    m = strip(n)
    if m.get("kind") == "StringLiteral":
        return c_unescape(m.get("value", '""'))
    return None


# ------------------------------------------------------------------ epoch expression
def expr_to_coq(n):
    m = strip(n)
    k = m.get("kind")
    if k == "IntegerLiteral":
        return "(EConst %s)" % m["value"]
    if k == "MemberExpr":
        nm = m.get("name")
        if nm == "tv_sec":
            return "ESec"
        if nm == "tv_nsec":
            return "ENsec"
        return "EUnknown"
    if k == "BinaryOperator":
        op = {"+": "EAdd", "-": "ESub", "*": "EMul", "/": "EDiv", "%": "EMod"}.get(m.get("opcode"))
        if op is None:
            return "EUnknown"
        a, b = m["inner"]
        return "(%s %s %s)" % (op, expr_to_coq(a), expr_to_coq(b))
    return "EUnknown"


def epoch_expr(repo, cflags):
    path = os.path.join(repo, "src/libwifi/core/misc/epoch.c")
    fn = find_function(ast_of(cflags, path, "libwifi_get_epoch"), "libwifi_get_epoch")
    if fn is None:
        return "EUnknown"
    rets = [n for n in walk(fn) if n.get("kind") == "ReturnStmt"]
    if len(rets) != 1 or not rets[0].get("inner"):
        return "EUnknown"
    # the function must be: declare spec; clock_gettime(.., &spec); return <expr>;  anything else -> unknown
    body = [c for c in fn["inner"] if c.get("kind") == "CompoundStmt"][0]
    kinds = [c.get("kind") for c in body.get("inner", [])]
    if kinds != ["DeclStmt", "CallExpr", "ReturnStmt"]:
        return "EUnknown"
    return expr_to_coq(rets[0]["inner"][0])


# ------------------------------------------------------------------ switch (value -> returned string)
def switch_string_table(fn):
    """for `switch (x) { case V: return "S"; ... default: return "D"; }` -> ([(V,S)], D) or None"""
    sw = [n for n in walk(fn) if n.get("kind") == "SwitchStmt"]
    if len(sw) != 1:
        return None
    body = [c for c in sw[0]["inner"] if c.get("kind") == "CompoundStmt"]
    if not body:
        return None
    table, default = [], None
    pending = []

    def handle(stmt):
        nonlocal default, pending
        k = stmt.get("kind")
        if k == "CaseStmt":
            v = const_value(stmt["inner"][0])
            pending.append(v)
            handle(stmt["inner"][-1])
        elif k == "DefaultStmt":
            pending.append("default")
            handle(stmt["inner"][-1])
        elif k == "ReturnStmt":
            s = string_literal(stmt["inner"][0]) if stmt.get("inner") else None
            for p in pending:
                if p == "default":
                    default = s
                else:
                    table.append((p, s))
            pending = []
        elif k == "BreakStmt":
            for p in pending:
                table.append((p, None))
            pending = []
        else:
            for p in pending:
                table.append((p, None))
            pending = []

    for st in body[0].get("inner", []):
        handle(st)
    return table, default


def coq_str(s):
    return '"' + s.replace('"', '""') + '"'


def zlit(v):
    v = int(v)
    return "(%d)" % v if v < 0 else "%d" % v


def tag_name_table(repo, cflags):
    path = os.path.join(repo, "src/libwifi/core/frame/tag.c")
    fn = find_function(ast_of(cflags, path, "libwifi_get_tag_name"), "libwifi_get_tag_name")
    if fn is None:
        return None
    t = switch_string_table(fn)
    if t is None:
        return None
    table, default = t
    # statements after the switch (a trailing return) would make the default ambiguous: require none
    if default is None or any(v is None or s is None for v, s in table):
        return None
    return table, default


# ------------------------------------------------------------------ security description routines
SEC_FUNCS = ["libwifi_get_security_type", "libwifi_get_group_ciphers", "libwifi_get_pairwise_ciphers",
             "libwifi_get_auth_key_suites"]


def sec_table(fn):
    """ordered [(flag value, name)] of `if (bss->encryption_info & FLAG) _libwifi_add_sec_item(.., "NAME")`,
    and the string written when encryption_info == 0; None when the body has another shape"""
    body = [c for c in fn["inner"] if c.get("kind") == "CompoundStmt"][0]
    table, none_str = [], None
    for st in body.get("inner", []):
        if st.get("kind") != "IfStmt":
            continue
        cond = strip(st["inner"][0])
        then = st["inner"][1]
        calls = [n for n in walk(then) if n.get("kind") == "CallExpr"]
        if cond.get("kind") == "BinaryOperator" and cond.get("opcode") == "==":
            # encryption_info == 0  ->  snprintf(buf, LEN, "None"); return;
            if const_value(cond["inner"][1]) != 0 or len(calls) != 1:
                return None
            strs = [string_literal(a) for a in calls[0]["inner"][1:]]
            strs = [x for x in strs if x is not None]
            if len(strs) != 1 or not any(n.get("kind") == "ReturnStmt" for n in walk(then)):
                return None
            none_str = strs[0]
        elif cond.get("kind") == "BinaryOperator" and cond.get("opcode") == "&":
            a, b = cond["inner"]
            v = const_value(b)
            if v is None:
                v = const_value(a)
            if v is None or len(calls) != 1:
                return None
            callee = strip(calls[0]["inner"][0])
            if callee.get("referencedDecl", {}).get("name") != "_libwifi_add_sec_item":
                return None
            strs = [string_literal(x) for x in calls[0]["inner"][1:]]
            strs = [x for x in strs if x is not None]
            if len(strs) != 1:
                return None
            table.append((v, strs[0]))
        else:
            return None
    if none_str is None:
        return None
    return table, none_str


def sec_tables(repo, cflags):
    path = os.path.join(repo, "src/libwifi/parse/misc/security.c")
    docs = ast_of(cflags, path, "libwifi_get_")
    out = []
    for f in SEC_FUNCS:
        fn = find_function(docs, f)
        t = sec_table(fn) if fn is not None else None
        out.append((f, t))
    # the separator written by the append helper
    sep = None
    fn = find_function(ast_of(cflags, path, "_libwifi_add_sec_item"), "_libwifi_add_sec_item")
    if fn is not None:
        lits = [string_literal(n) for n in walk(fn) if n.get("kind") == "StringLiteral"]
        lits = [x for x in lits if x not in (None, "%s")]
        if lits and all(x == lits[0] for x in lits):
            sep = lits[0]
    return out, sep


def bytes_list(s):
    return "[" + "; ".join(str(b) for b in s.encode("latin1")) + "]"


# ------------------------------------------------------------------ QoS subtype set of libwifi_get_wifi_frame
def qos_subtypes(repo, cflags):
    """case labels of the switch over frame_control->subtype whose body sets LIBWIFI_FLAGS_IS_QOS"""
    path = os.path.join(repo, "src/libwifi/core/frame/frame.c")
    fn = find_function(ast_of(cflags, path, "libwifi_get_wifi_frame"), "libwifi_get_wifi_frame")
    if fn is None:
        return None
    res = None
    for sw in walk(fn):
        if sw.get("kind") != "SwitchStmt":
            continue
        cond = sw["inner"][0]
        if not any(n.get("kind") == "MemberExpr" and n.get("name") == "subtype" for n in walk(cond)):
            continue
        if res is not None:
            return None            # more than one switch over the subtype: shape not recognised
        vals = []
        for n in walk(sw):
            if n.get("kind") == "CaseStmt":
                v = const_value(n["inner"][0])
                if v is None:
                    return None
                vals.append(v)
        # every case must fall through to the single statement that sets the QoS flag
        assigns = [n for n in walk(sw) if n.get("kind") == "CompoundAssignOperator" and n.get("opcode") == "|="]
        if len(assigns) != 1 or any(n.get("kind") == "DefaultStmt" for n in walk(sw)):
            return None
        res = vals
    return res


# ------------------------------------------------------------------ RSN / WPA suite enumeration switches
def suite_tables(repo, cflags, fname):
    """the three switches of libwifi_enumerate_{rsn,wpa}_suites in source order: for each
    [(selector, or of the flags set in that case)], plus the OUI literal(s) compared with memcmp"""
    path = os.path.join(repo, "src/libwifi/parse/misc/security.c")
    fn = find_function(ast_of(cflags, path, fname), fname)
    if fn is None:
        return None
    sws = [n for n in walk(fn) if n.get("kind") == "SwitchStmt"]
    if len(sws) != 3:
        return None
    tables = []
    for sw in sws:
        body = [c for c in sw["inner"] if c.get("kind") == "CompoundStmt"]
        if not body:
            return None
        table, pending, acc = [], [], 0

        def flush():
            nonlocal pending, acc
            for p in pending:
                if p != "default":
                    table.append((p, acc))
            pending, acc = [], 0

        def handle(st):
            nonlocal pending, acc
            k = st.get("kind")
            if k == "CaseStmt":
                if pending and acc:
                    return False
                v = const_value(st["inner"][0])
                if v is None:
                    return False
                pending.append(v)
                return handle(st["inner"][-1])
            if k == "DefaultStmt":
                pending.append("default")
                return handle(st["inner"][-1])
            if k == "CompoundAssignOperator" and st.get("opcode") == "|=":
                v = const_value(st["inner"][1])
                if v is None:
                    return False
                acc |= v
                return True
            if k == "BreakStmt":
                flush()
                return True
            return False
        for st in body[0].get("inner", []):
            if not handle(st):
                return None
        flush()
        tables.append(table)
    ouis = []
    for n in walk(fn):
        if n.get("kind") == "CallExpr":
            callee = strip(n["inner"][0])
            if callee.get("referencedDecl", {}).get("name") == "memcmp":
                lits = [string_literal(a) for a in n["inner"][1:]]
                lits = [x for x in lits if x is not None]
                ouis += lits
    if not ouis or any(o != ouis[0] for o in ouis) or len(ouis) != 3:
        return None
    return tables, ouis[0]


# ------------------------------------------------------------------ EAPOL: key-information switch, key-data cap
def eapol_tables(repo, cflags):
    path = os.path.join(repo, "src/libwifi/parse/data/eapol.c")
    docs = ast_of(cflags, path, "libwifi_")
    msg = None
    fn = find_function(docs, "libwifi_check_wpa_message")
    if fn is not None:
        sw = [n for n in walk(fn) if n.get("kind") == "SwitchStmt"]
        if len(sw) == 1:
            table, default, pending, ok = [], None, [], True
            body = [c for c in sw[0]["inner"] if c.get("kind") == "CompoundStmt"]

            def handle(st):
                nonlocal default, pending, ok
                k = st.get("kind")
                if k == "CaseStmt":
                    pending.append(const_value(st["inner"][0]))
                    handle(st["inner"][-1])
                elif k == "DefaultStmt":
                    pending.append("default")
                    handle(st["inner"][-1])
                elif k == "ReturnStmt" and st.get("inner"):
                    v = const_value(st["inner"][0])
                    for p in pending:
                        if p == "default":
                            default = v
                        else:
                            table.append((p, v))
                    pending = []
                else:
                    ok = False
            for st in (body[0].get("inner", []) if body else []):
                handle(st)
            if ok and default is not None and all(a is not None and b is not None for a, b in table):
                msg = (table, default)
    cap = None
    fn = find_function(docs, "libwifi_get_wpa_data")
    if fn is not None:
        caps = []
        for n in walk(fn):
            if n.get("kind") == "IfStmt":
                c = strip(n["inner"][0])
                if c.get("kind") == "BinaryOperator" and c.get("opcode") == ">" and \
                        any(m.get("kind") == "MemberExpr" and m.get("name") == "key_data_length" for m in walk(c["inner"][0])):
                    v = const_value(c["inner"][1])
                    if v is not None and v > 0 and strip(c["inner"][1]).get("kind") == "IntegerLiteral":
                        asg = [a for a in walk(n["inner"][1]) if a.get("kind") == "BinaryOperator" and a.get("opcode") == "="]
                        if len(asg) == 1 and const_value(asg[0]["inner"][1]) == v:
                            caps.append(v)
        if len(caps) == 1:
            cap = caps[0]
    return msg, cap


# ------------------------------------------------------------------ CRC constants
def crc_consts(repo, cflags):
    """(init, poly, nbits, final_xor) of libwifi_crc32, or None when the function has another shape"""
    path = os.path.join(repo, "src/libwifi/core/frame/crc.c")
    fn = find_function(ast_of(cflags, path, "libwifi_crc32"), "libwifi_crc32")
    if fn is None:
        return None
    init = poly = nbits = final = None

    def refname(n):
        m = strip(n)
        if m.get("kind") == "DeclRefExpr":
            return m.get("referencedDecl", {}).get("name")
        return None
    for n in walk(fn):
        k = n.get("kind")
        if k == "BinaryOperator" and n.get("opcode") == "=" and refname(n["inner"][0]) == "crc":
            v = const_value(n["inner"][1])
            if v is not None and strip(n["inner"][1]).get("kind") == "IntegerLiteral" and init is None:
                init = v
        if k == "BinaryOperator" and n.get("opcode") == "&":
            a, b = n["inner"]
            for x, y in ((a, b), (b, a)):
                if refname(y) == "mask" and strip(x).get("kind") == "IntegerLiteral":
                    poly = const_value(x)
        if k == "ForStmt":
            parts = n.get("inner", [])
            try:
                ini, cond, inc = parts[0], parts[2], parts[3]
                a = const_value(strip(ini)["inner"][1])
                c = strip(cond)
                b = const_value(c["inner"][1])
                i = strip(inc)
                if c.get("opcode") == ">=" and i.get("kind") == "UnaryOperator" and i.get("opcode") == "--":
                    nbits = a - b + 1
                elif c.get("opcode") == ">" and i.get("opcode") == "--":
                    nbits = a - b
                elif c.get("opcode") == "<" and i.get("opcode") == "++":
                    nbits = b - a
                elif c.get("opcode") == "<=" and i.get("opcode") == "++":
                    nbits = b - a + 1
            except Exception:
                pass
        if k == "ReturnStmt" and n.get("inner"):
            e = strip(n["inner"][0])
            if e.get("kind") == "UnaryOperator" and e.get("opcode") == "~" and refname(e["inner"][0]) == "crc":
                final = 0xFFFFFFFF
            elif e.get("kind") == "BinaryOperator" and e.get("opcode") == "^":
                a, b = e["inner"]
                for x, y in ((a, b), (b, a)):
                    if refname(x) == "crc" and const_value(y) is not None:
                        final = const_value(y)
            elif refname(e) == "crc":
                final = 0
    if None in (init, poly, nbits, final):
        return None
    return init, poly, nbits, final


HDR = ["(* GENERATED by tools/translate.py (astq) - do not edit *)",
       "From Coq Require Import List ZArith String.", "Import ListNotations.",
       "Local Open Scope Z_scope.", "Local Open Scope string_scope.", ""]


def emit_all(repo, gen, cflags, write_if_changed, build, env=None):
    changed = []
    ENV.clear()
    ENV.update(env or {})
    # Arith.v
    o = list(HDR)
    o.append("From LW Require Import Base.Expr.")
    o.append("Definition epoch_expr : texpr := %s." % epoch_expr(repo, cflags))
    cc = crc_consts(repo, cflags)
    if cc is None:
        o.append("(* libwifi_crc32 no longer has the shift/mask shape the translator recognises *)")
        cc = (0, 0, 0, 0)
        o.append("Definition crc_shape_ok : bool := false.")
    else:
        o.append("Definition crc_shape_ok : bool := true.")
    o.append("Definition crc_init : Z := %d.\nDefinition crc_poly : Z := %d.\nDefinition crc_nbits : Z := %d.\nDefinition crc_final : Z := %d." % cc)
    if write_if_changed(os.path.join(gen, "Arith.v"), "\n".join(o) + "\n"):
        changed.append("Arith.v")
    # Tables.v
    o = list(HDR)
    t = tag_name_table(repo, cflags)
    if t is None:
        o.append("(* libwifi_get_tag_name is no longer a plain switch over constants: table not derivable *)")
        o.append("Definition tag_name_table_ok : bool := false.")
        o.append("Definition tag_name_table : list (Z * string) := [].")
        o.append('Definition tag_name_default : string := "".')
    else:
        table, default = t
        o.append("Definition tag_name_table_ok : bool := true.")
        o.append("Definition tag_name_table : list (Z * string) := [")
        o.append(";\n".join("  (%s, %s)" % (zlit(v), coq_str(s)) for v, s in table))
        o.append("].")
        o.append("Definition tag_name_default : string := %s." % coq_str(default))
    for kind in ("rsn", "wpa"):
        t = suite_tables(repo, cflags, "libwifi_enumerate_%s_suites" % kind)
        o.append("Definition %s_suites_ok : bool := %s." % (kind, "true" if t else "false"))
        names = ("group", "pairwise", "akm")
        for i, nm in enumerate(names):
            rows = t[0][i] if t else []
            o.append("Definition %s_%s_table : list (Z * Z) := [%s]." % (kind, nm, "; ".join("(%s, %s)" % (zlit(a), zlit(b)) for a, b in rows)))
        o.append("Definition %s_oui : list Z := %s." % (kind, bytes_list(t[1]) if t else "[]"))
    msg, cap = eapol_tables(repo, cflags)
    o.append("Definition eapol_msg_ok : bool := %s." % ("true" if msg is not None else "false"))
    o.append("Definition eapol_msg_table : list (Z * Z) := [%s]." % "; ".join("(%s, %s)" % (zlit(a), zlit(b)) for a, b in (msg[0] if msg else [])))
    o.append("Definition eapol_msg_default : Z := %s." % zlit(msg[1] if msg else 0))
    o.append("Definition eapol_keydata_cap_ok : bool := %s." % ("true" if cap is not None else "false"))
    o.append("Definition eapol_keydata_cap : Z := %s." % zlit(cap or 0))
    q = qos_subtypes(repo, cflags)
    o.append("Definition qos_subtypes_ok : bool := %s." % ("true" if q is not None else "false"))
    o.append("Definition qos_subtypes : list Z := [%s]." % "; ".join(zlit(v) for v in (q or [])))
    st, sep = sec_tables(repo, cflags)
    for f, t in st:
        short = f.replace("libwifi_get_", "")
        if t is None or sep is None:
            o.append("Definition sec_ok_%s : bool := false." % short)
            o.append("Definition sec_table_%s : list (Z * list Z) := []." % short)
            o.append("Definition sec_none_%s : list Z := []." % short)
        else:
            o.append("Definition sec_ok_%s : bool := true." % short)
            o.append("Definition sec_table_%s : list (Z * list Z) := [" % short)
            o.append(";\n".join("  (%d, %s) (* %s *)" % (v, bytes_list(n), n) for v, n in t[0]))
            o.append("].")
            o.append("Definition sec_none_%s : list Z := %s." % (short, bytes_list(t[1])))
    o.append("Definition sec_separator : list Z := %s." % bytes_list(sep or ""))
    if write_if_changed(os.path.join(gen, "Tables.v"), "\n".join(o) + "\n"):
        changed.append("Tables.v")
    return changed
