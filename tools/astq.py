"""clang-AST queries used by translate.py: switch tables, flag/name lists, arithmetic expressions."""
import json, os, re, subprocess


def run(cmd, **kw):
    return subprocess.run(cmd, stdout=subprocess.PIPE, stderr=subprocess.PIPE, text=True, **kw)


def ast_of(cflags, path, filt):
    r = run(["clang"] + cflags + ["-fsyntax-only", "-Xclang", "-ast-dump=json", "-Xclang",
             "-ast-dump-filter=" + filt, path])
    dec = json.JSONDecoder()
    s = r.stdout
    i = 0
    docs = []
    while True:
        while i < len(s) and s[i] != "{":
            i += 1
        if i >= len(s):
            break
        try:
            obj, j = dec.raw_decode(s, i)
        except json.JSONDecodeError:
            break
        docs.append(obj)
        i = j
    return docs


def find_function(docs, name):
    for d in docs:
        for n in walk(d):
            if n.get("kind") == "FunctionDecl" and n.get("name") == name and any(
                    c.get("kind") == "CompoundStmt" for c in n.get("inner", [])):
                return n
    return None


def walk(n):
    if isinstance(n, dict):
        yield n
        for c in n.get("inner", []) or []:
            yield from walk(c)


def strip(n):
    """skip implicit casts / parens / constant-expr wrappers"""
    while isinstance(n, dict) and n.get("kind") in ("ImplicitCastExpr", "ParenExpr", "ConstantExpr",
                                                     "CStyleCastExpr", "ExprWithCleanups") and n.get("inner"):
        n = n["inner"][0]
    return n


ENV = {}


def const_value(n, env=None):
    """integer value of a constant expression node (enumerators resolved through the probe's values)"""
    env = ENV if env is None else env
    if not isinstance(n, dict):
        return None
    if n.get("kind") == "ConstantExpr" and "value" in n:
        return int(n["value"])
    m = strip(n)
    k = m.get("kind")
    if k == "IntegerLiteral":
        return int(m["value"])
    if k == "CharacterLiteral":
        return int(m["value"])
    if k == "DeclRefExpr" and m.get("referencedDecl", {}).get("kind") == "EnumConstantDecl":
        return env.get(m["referencedDecl"].get("name"))
    if k == "UnaryOperator":
        v = const_value(m["inner"][0], env)
        if v is None:
            return None
        return {"-": -v, "+": v, "~": ~v, "!": int(not v)}.get(m.get("opcode"))
    if k == "BinaryOperator":
        a = const_value(m["inner"][0], env)
        b = const_value(m["inner"][1], env)
        if a is None or b is None:
            return None
        op = m.get("opcode")
        try:
            return {"+": a + b, "-": a - b, "*": a * b, "<<": a << b, ">>": a >> b, "&": a & b, "|": a | b,
                    "^": a ^ b}.get(op)
        except Exception:
            return None
    return None


def string_literal(n):
    m = strip(n)
    if m.get("kind") == "StringLiteral":
        v = m.get("value", '""')
        try:
            return json.loads(v)
        except Exception:
            return v.strip('"')
    return None


# ------------------------------------------------------------------ epoch expression
def expr_to_coq(n):
    m = strip(n)
    k = m.get("kind")
    if k == "IntegerLiteral":
        return "(EConst %s)" % m["value"]
    if k == "MemberExpr":
        nm = m.get("name")
        if nm == "tv_sec":
            return "ESec"
        if nm == "tv_nsec":
            return "ENsec"
        return "EUnknown"
    if k == "BinaryOperator":
        op = {"+": "EAdd", "-": "ESub", "*": "EMul", "/": "EDiv", "%": "EMod"}.get(m.get("opcode"))
        if op is None:
            return "EUnknown"
        a, b = m["inner"]
        return "(%s %s %s)" % (op, expr_to_coq(a), expr_to_coq(b))
    return "EUnknown"


def epoch_expr(repo, cflags):
    path = os.path.join(repo, "src/libwifi/core/misc/epoch.c")
    fn = find_function(ast_of(cflags, path, "libwifi_get_epoch"), "libwifi_get_epoch")
    if fn is None:
        return "EUnknown"
    rets = [n for n in walk(fn) if n.get("kind") == "ReturnStmt"]
    if len(rets) != 1 or not rets[0].get("inner"):
        return "EUnknown"
    # the function must be: declare spec; clock_gettime(.., &spec); return <expr>;  anything else -> unknown
    body = [c for c in fn["inner"] if c.get("kind") == "CompoundStmt"][0]
    kinds = [c.get("kind") for c in body.get("inner", [])]
    if kinds != ["DeclStmt", "CallExpr", "ReturnStmt"]:
        return "EUnknown"
    return expr_to_coq(rets[0]["inner"][0])


# ------------------------------------------------------------------ switch (value -> returned string)
def switch_string_table(fn):
    """for `switch (x) { case V: return "S"; ... default: return "D"; }` -> ([(V,S)], D) or None"""
    sw = [n for n in walk(fn) if n.get("kind") == "SwitchStmt"]
    if len(sw) != 1:
        return None
    body = [c for c in sw[0]["inner"] if c.get("kind") == "CompoundStmt"]
    if not body:
        return None
    table, default = [], None
    pending = []

    def handle(stmt):
        nonlocal default, pending
        k = stmt.get("kind")
        if k == "CaseStmt":
            v = const_value(stmt["inner"][0])
            pending.append(v)
            handle(stmt["inner"][-1])
        elif k == "DefaultStmt":
            pending.append("default")
            handle(stmt["inner"][-1])
        elif k == "ReturnStmt":
            s = string_literal(stmt["inner"][0]) if stmt.get("inner") else None
            for p in pending:
                if p == "default":
                    default = s
                else:
                    table.append((p, s))
            pending = []
        elif k == "BreakStmt":
            for p in pending:
                table.append((p, None))
            pending = []
        else:
            for p in pending:
                table.append((p, None))
            pending = []

    for st in body[0].get("inner", []):
        handle(st)
    return table, default


def coq_str(s):
    return '"' + s.replace('"', '""') + '"'


def zlit(v):
    v = int(v)
    return "(%d)" % v if v < 0 else "%d" % v


def tag_name_table(repo, cflags):
    path = os.path.join(repo, "src/libwifi/core/frame/tag.c")
    fn = find_function(ast_of(cflags, path, "libwifi_get_tag_name"), "libwifi_get_tag_name")
    if fn is None:
        return None
    t = switch_string_table(fn)
    if t is None:
        return None
    table, default = t
    # statements after the switch (a trailing return) would make the default ambiguous: require none
    if default is None or any(v is None or s is None for v, s in table):
        return None
    return table, default


HDR = ["(* GENERATED by tools/translate.py (astq) - do not edit *)",
       "From Coq Require Import List ZArith String.", "Import ListNotations.",
       "Local Open Scope Z_scope.", "Local Open Scope string_scope.", ""]


def emit_all(repo, gen, cflags, write_if_changed, build, env=None):
    changed = []
    ENV.clear()
    ENV.update(env or {})
    # Arith.v
    o = list(HDR)
    o.append("From LW Require Import Base.Expr.")
    o.append("Definition epoch_expr : texpr := %s." % epoch_expr(repo, cflags))
    if write_if_changed(os.path.join(gen, "Arith.v"), "\n".join(o) + "\n"):
        changed.append("Arith.v")
    # Tables.v
    o = list(HDR)
    t = tag_name_table(repo, cflags)
    if t is None:
        o.append("(* libwifi_get_tag_name is no longer a plain switch over constants: table not derivable *)")
        o.append("Definition tag_name_table_ok : bool := false.")
        o.append("Definition tag_name_table : list (Z * string) := [].")
        o.append('Definition tag_name_default : string := "".')
    else:
        table, default = t
        o.append("Definition tag_name_table_ok : bool := true.")
        o.append("Definition tag_name_table : list (Z * string) := [")
        o.append(";\n".join("  (%s, %s)" % (zlit(v), coq_str(s)) for v, s in table))
        o.append("].")
        o.append("Definition tag_name_default : string := %s." % coq_str(default))
    if write_if_changed(os.path.join(gen, "Tables.v"), "\n".join(o) + "\n"):
        changed.append("Tables.v")
    return changed
