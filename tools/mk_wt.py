#!/usr/bin/env python3
"""tools/mk_wt.py <ID> <suffix>: scratch worktree /tmp/wt_<ID><suffix> of /repo HEAD with PROPERTY.txt (the property text only)."""
import json, subprocess, sys, os
pid, suf = sys.argv[1], (sys.argv[2] if len(sys.argv) > 2 else "")
wt = "/tmp/wt_%s%s" % (pid, suf)
subprocess.run(["git", "-C", "/repo", "worktree", "add", "--detach", wt, "HEAD"], check=True, stdout=subprocess.DEVNULL, stderr=subprocess.DEVNULL)
for l in open(os.path.join(os.path.dirname(os.path.dirname(os.path.abspath(__file__))), "properties.jsonl")):
    d = json.loads(l)
    if d["id"] == pid:
        with open(os.path.join(wt, "PROPERTY.txt"), "w") as f:
            f.write("%s\n\n%s\n\nQuantified over: %s\n\nWhy the existing tests cannot settle it: %s\n\nAnchored in: %s\n" % (
                d["title"], d["statement"], d["quantifier"]["text"], d["why_tests_cant"],
                "; ".join(m["where"] for m in d["anchors"]["mechanism"])))
print(wt)
