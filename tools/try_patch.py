#!/usr/bin/env python3
"""tools/try_patch.py <patch.diff> <prop id> [<prop id> ...]: apply a candidate breaking change to /repo, run the
baseline suite and the given checks (quick), undo the change.  Used to validate seeded changes."""
import subprocess, sys, os, json
patch = os.path.abspath(sys.argv[1])
props = sys.argv[2:]
V = os.path.dirname(os.path.dirname(os.path.abspath(__file__)))
def sh(cmd, **kw):
    p = subprocess.run(cmd, shell=True, stdout=subprocess.PIPE, stderr=subprocess.STDOUT, text=True, **kw)
    return p.returncode, p.stdout
rc, out = sh("git -C /repo apply --check %s" % patch)
if rc != 0:
    print("patch does not apply:", out); sys.exit(2)
sh("git -C /repo apply %s" % patch)
res = {}
try:
    rc, out = sh(os.path.join(V, "bin/baseline.sh"))
    res["baseline"] = out.strip().splitlines()[-1] if out.strip() else "?"
    for p in props:
        rc, out = sh("%s %s --tier quick" % (os.path.join(V, "bin/check"), p), cwd=V,
                     env=dict(os.environ, VERIF_EVIDENCE_DIR=os.path.join(V, "build", "evidence_seeded")))
        lines = [l for l in out.splitlines() if l.startswith(("VIOLATION", "OK", "KNOWN", "  "))]
        res[p] = {"exit": rc, "lines": lines[:6]}
finally:
    sh("git -C /repo checkout -- .")
print(json.dumps(res, indent=1))
