(* C19 - published protocol numbers and tag names follow the IEEE assignments.  Statements only. *)
From Coq Require Import List ZArith String.
From LW Require Import Base.Sweep Spec.IEEE Spec.Numbers Gen.Consts Model.TagName Proofs.NumbersProofs.
Local Open Scope Z_scope.

(* every published enumerator of the ten enumerations (six kinds) has the IEEE-assigned value,
   for every name the independent transcription vouches for *)
Theorem c19_values : forall kind pub ieee n v v',
  In (kind, pub, ieee) kinds -> In (n, v) pub -> lookup_s n ieee = Some v' -> v = v'.
Proof. exact values_follow_ieee. Qed.
Print Assumptions c19_values.

Theorem c19_distinct : forall kind pub ieee, In (kind, pub, ieee) kinds -> NoDup (map snd pub).
Proof. exact numbers_distinct. Qed.
Print Assumptions c19_distinct.

(* for EVERY integer (negative and out-of-octet included) the lookup returns the identifier of the
   published tag with that number, else the fixed unknown-tag string *)
Theorem c19_lookup : forall z : Z, get_tag_name z = spec_tag_name z.
Proof. exact tag_name_all_integers. Qed.
Print Assumptions c19_lookup.

(* ---- libwifi_get_tag_name AS TRANSLATED statement by statement (Gen/Sites.v, tools/sites.py): its body IS one switch over the table that the OTHER translator (tools/translate.py,
   Gen/Tables.v) extracted - nothing in front of it, nothing behind it - so a guard added before the switch, a changed label or a changed literal falsifies these ---- *)
From Coq Require Import List.
Import ListNotations.
From LW Require Import Base.CExpr Gen.Sites Gen.Tables Spec.CodeSpec Proofs.CodeNames.
Local Open Scope list_scope.
Local Open Scope string_scope.
Local Open Scope Z_scope.

(* for EVERY environment, memory, trace and fuel: the routine returns the literal Model/TagName.v names for the argument read as the int it is, calls nothing, changes nothing *)
Theorem c19_code_get_tag_name_env : forall f m rho tr,
  exec (S (S f)) m rho tr body_libwifi_get_tag_name =
  Returned (Some (wrap u64 (rho ("str:" ++ get_tag_name (wrap s32 (rho "tag_number")))))) rho tr.
Proof. exact code_get_tag_name_env. Qed.
Print Assumptions c19_code_get_tag_name_env.

(* every int *)
Theorem c19_code_get_tag_name : forall n m rho,
  - 2 ^ 31 <= n < 2 ^ 31 -> rho "tag_number" = n ->
  exec 5 m rho [] body_libwifi_get_tag_name = Returned (Some (wrap u64 (rho ("str:" ++ get_tag_name n)))) rho [].
Proof. exact code_get_tag_name. Qed.
Print Assumptions c19_code_get_tag_name.

(* no case label twice; the labels of the C switch are the table's, in order *)
Theorem c19_code_tag_name_labels_distinct : NoDup (map fst tag_name_table) /\ NoDup (switch_labels body_libwifi_get_tag_name) /\
  switch_labels body_libwifi_get_tag_name = map fst tag_name_table.
Proof. exact code_tag_name_labels_distinct. Qed.
Print Assumptions c19_code_tag_name_labels_distinct.

(* negative and out-of-octet values get the fixed unknown-tag string *)
Theorem c19_code_tag_name_outside : forall f m rho tr n,
  wrap s32 (rho "tag_number") = n -> n < 0 \/ 255 < n ->
  exec (S (S f)) m rho tr body_libwifi_get_tag_name = Returned (Some (wrap u64 (rho "str:Unknown Tag"))) rho tr.
Proof. exact code_tag_name_outside. Qed.
Print Assumptions c19_code_tag_name_outside.

(* a valid constant string for every integer: one of the 170 literals *)
Theorem c19_code_tag_name_never_stuck : forall f m rho tr,
  exists s, In s tag_name_literals /\
            exec (S (S f)) m rho tr body_libwifi_get_tag_name = Returned (Some (wrap u64 (rho ("str:" ++ s)))) rho tr.
Proof. exact code_tag_name_never_stuck. Qed.
Print Assumptions c19_code_tag_name_never_stuck.

(* the 170 literals are pairwise different *)
Theorem c19_code_tag_name_names_distinct : NoDup tag_name_literals.
Proof. exact code_tag_name_names_distinct. Qed.
Print Assumptions c19_code_tag_name_names_distinct.

