(* C19 - published protocol numbers and tag names follow the IEEE assignments.  Statements only. *)
From Coq Require Import List ZArith String.
From LW Require Import Base.Sweep Spec.IEEE Spec.Numbers Gen.Consts Model.TagName Proofs.NumbersProofs.
Local Open Scope Z_scope.

(* every published enumerator of the ten enumerations (six kinds) has the IEEE-assigned value,
   for every name the independent transcription vouches for *)
Theorem c19_values : forall kind pub ieee n v v',
  In (kind, pub, ieee) kinds -> In (n, v) pub -> lookup_s n ieee = Some v' -> v = v'.
Proof. exact values_follow_ieee. Qed.
Print Assumptions c19_values.

Theorem c19_distinct : forall kind pub ieee, In (kind, pub, ieee) kinds -> NoDup (map snd pub).
Proof. exact numbers_distinct. Qed.
Print Assumptions c19_distinct.

(* for EVERY integer (negative and out-of-octet included) the lookup returns the identifier of the
   published tag with that number, else the fixed unknown-tag string *)
Theorem c19_lookup : forall z : Z, get_tag_name z = spec_tag_name z.
Proof. exact tag_name_all_integers. Qed.
Print Assumptions c19_lookup.
