(* C11 - CRC-32 and frame-check-sequence verification are exact.  Statements only. *)
From Coq Require Import List ZArith.
From LW Require Import Base.Bytes Model.CRC Spec.CRCSpec Proofs.CRCProofs Proofs.CRCBurst.
Local Open Scope Z_scope.

(* the C loop (whole octet xor-ed in, eight shift/mask steps, constants as translated from the source)
   computes the IEEE 802.3 division register, for every message and every read oracle that agrees
   with the message inside its bounds *)
Theorem c11_crc_exact : forall msg rd, wfbytes msg -> agrees rd msg ->
  crc32 rd (zlen msg) = Done (crc32_spec msg).
Proof. exact crc_exact. Qed.
Print Assumptions c11_crc_exact.

Theorem c11_crc_range : forall msg, 0 <= crc32_spec msg < 2 ^ 32.
Proof. exact crc_range. Qed.
Print Assumptions c11_crc_range.

(* an independent table-driven implementation (table derived from G alone) agrees *)
Theorem c11_tbl_equiv : forall msg, wfbytes msg -> crc32_tbl msg = crc32_spec msg.
Proof. exact tbl_equiv. Qed.
Print Assumptions c11_tbl_equiv.

(* the FCS routine returns the value whose in-memory (little-endian) bytes are the on-air FCS octets *)
Theorem c11_fcs_bytes : forall msg rd, wfbytes msg -> agrees rd msg ->
  exists v, calculate_fcs rd (zlen msg) = Done v /\ le_enc 4 v = fcs_octets msg.
Proof. exact fcs_bytes. Qed.
Print Assumptions c11_fcs_bytes.

(* verification answers yes exactly when the last four bytes are the FCS of the bytes before them *)
Theorem c11_verify_iff : forall f rd, wfbytes f -> agrees rd f -> 4 <= zlen f ->
  exists r, frame_verify rd (zlen f) = Done r /\ (r = 1 \/ r = 0) /\
            (r = 1 <-> lastn 4 f = fcs_octets (firstn (length f - 4) f)).
Proof. exact verify_iff. Qed.
Print Assumptions c11_verify_iff.

(* a frame shorter than an FCS is answered no, with no read at all (rd is arbitrary) *)
Theorem c11_short_no : forall (rd : Z -> res byte) len, len < 4 -> frame_verify rd len = Done 0.
Proof. exact short_no. Qed.
Print Assumptions c11_short_no.

(* error detection, for frames of every length: a frame that carries its own FCS (valid_frame), hit by an
   error pattern e of the same length whose bit stream in transmission order is zeros, then a window of
   at most 32 bits starting with a 1, then zeros (burst32) - anywhere, the FCS octets included - is
   answered no *)
Theorem c11_burst_detected : forall f e rd,
  wfbytes f -> wfbytes e -> length e = length f -> valid_frame f -> burst32 (message_bits e) ->
  agrees rd (xor_bytes f e) ->
  frame_verify rd (zlen f) = Done 0.
Proof. exact burst_detected. Qed.
Print Assumptions c11_burst_detected.

(* in particular one inverted bit: bit b of octet k, any k inside the frame *)
Theorem c11_single_bit_detected : forall f k b rd,
  wfbytes f -> valid_frame f -> (k < length f)%nat -> (b < 8)%nat ->
  agrees rd (flip_bit f k b) ->
  frame_verify rd (zlen f) = Done 0.
Proof. exact single_bit_detected. Qed.
Print Assumptions c11_single_bit_detected.

(* flip_bit is the xor with the pattern that is zero except for bit b of octet k *)
Theorem c11_flip_bit_xor : forall f k b, (k < length f)%nat ->
  flip_bit f k b = xor_bytes f (single_bit_error (length f) k b).
Proof. exact flip_bit_xor. Qed.
Print Assumptions c11_flip_bit_xor.
