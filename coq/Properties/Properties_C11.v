(* C11 - CRC-32 and frame-check-sequence verification are exact.  Statements only. *)
From Coq Require Import List ZArith.
From LW Require Import Base.Bytes Model.CRC Spec.CRCSpec Proofs.CRCProofs Proofs.CRCBurst.
Local Open Scope Z_scope.

(* the C loop (whole octet xor-ed in, eight shift/mask steps, constants as translated from the source)
   computes the IEEE 802.3 division register, for every message and every read oracle that agrees
   with the message inside its bounds *)
Theorem c11_crc_exact : forall msg rd, wfbytes msg -> agrees rd msg ->
  crc32 rd (zlen msg) = Done (crc32_spec msg).
Proof. exact crc_exact. Qed.
Print Assumptions c11_crc_exact.

Theorem c11_crc_range : forall msg, 0 <= crc32_spec msg < 2 ^ 32.
Proof. exact crc_range. Qed.
Print Assumptions c11_crc_range.

(* an independent table-driven implementation (table derived from G alone) agrees *)
Theorem c11_tbl_equiv : forall msg, wfbytes msg -> crc32_tbl msg = crc32_spec msg.
Proof. exact tbl_equiv. Qed.
Print Assumptions c11_tbl_equiv.

(* the FCS routine returns the value whose in-memory (little-endian) bytes are the on-air FCS octets *)
Theorem c11_fcs_bytes : forall msg rd, wfbytes msg -> agrees rd msg ->
  exists v, calculate_fcs rd (zlen msg) = Done v /\ le_enc 4 v = fcs_octets msg.
Proof. exact fcs_bytes. Qed.
Print Assumptions c11_fcs_bytes.

(* verification answers yes exactly when the last four bytes are the FCS of the bytes before them *)
Theorem c11_verify_iff : forall f rd, wfbytes f -> agrees rd f -> 4 <= zlen f ->
  exists r, frame_verify rd (zlen f) = Done r /\ (r = 1 \/ r = 0) /\
            (r = 1 <-> lastn 4 f = fcs_octets (firstn (length f - 4) f)).
Proof. exact verify_iff. Qed.
Print Assumptions c11_verify_iff.

(* a frame shorter than an FCS is answered no, with no read at all (rd is arbitrary) *)
Theorem c11_short_no : forall (rd : Z -> res byte) len, len < 4 -> frame_verify rd len = Done 0.
Proof. exact short_no. Qed.
Print Assumptions c11_short_no.

(* error detection, for frames of every length: a frame that carries its own FCS (valid_frame), hit by an
   error pattern e of the same length whose bit stream in transmission order is zeros, then a window of
   at most 32 bits starting with a 1, then zeros (burst32) - anywhere, the FCS octets included - is
   answered no *)
Theorem c11_burst_detected : forall f e rd,
  wfbytes f -> wfbytes e -> length e = length f -> valid_frame f -> burst32 (message_bits e) ->
  agrees rd (xor_bytes f e) ->
  frame_verify rd (zlen f) = Done 0.
Proof. exact burst_detected. Qed.
Print Assumptions c11_burst_detected.

(* in particular one inverted bit: bit b of octet k, any k inside the frame *)
Theorem c11_single_bit_detected : forall f k b rd,
  wfbytes f -> valid_frame f -> (k < length f)%nat -> (b < 8)%nat ->
  agrees rd (flip_bit f k b) ->
  frame_verify rd (zlen f) = Done 0.
Proof. exact single_bit_detected. Qed.
Print Assumptions c11_single_bit_detected.

(* flip_bit is the xor with the pattern that is zero except for bit b of octet k *)
Theorem c11_flip_bit_xor : forall f k b, (k < length f)%nat ->
  flip_bit f k b = xor_bytes f (single_bit_error (length f) k b).
Proof. exact flip_bit_xor. Qed.
Print Assumptions c11_flip_bit_xor.

(* ---- statements about the C code AS TRANSLATED on this run (Gen/Sites.v: every guard, declaration, conversion and call argument with the
   types clang computed; tools/sites.py), for every memory m and every environment: tie #1 extended from constants to arithmetic and
   control flow.  Vocabulary in Spec/CodeSpec.v, evaluator and interpreter in Base/CExpr.v, proofs in Proofs/SitesMisc.v. ---- *)
From Coq Require Import String.
From LW Require Import Base.CExpr Gen.Sites Spec.CodeSpec Proofs.SitesMisc.
Local Open Scope string_scope.
Local Open Scope Z_scope.

(* len = frame_len, frame = the address of the frame *)
Theorem c11_code_frame_verify : forall m rho len frame,
  rho "frame_len" = len -> rho "frame" = frame ->
  (0 <= len < 2 ^ 64 -> ceval rho m (site sites_libwifi_frame_verify "if#0") = Some (b2z (len <? 4))) /\
  (4 <= len < 2 ^ 63 -> 0 <= frame -> frame + len < 2 ^ 63 ->
   ceval rho m (site sites_libwifi_frame_verify "call:libwifi_calculate_fcs#0:1") = Some (len - 4) /\
   ceval rho m (site sites_libwifi_frame_verify "call:memcpy#0:1") = Some (frame + len - 4) /\
   ceval rho m (site sites_libwifi_frame_verify "call:memcpy#0:2") = Some 4).
Proof. exact code_frame_verify. Qed.
Print Assumptions c11_code_frame_verify.

(* the CRC routine: one turn of the inner loop (mask, then the shifted and conditionally reduced register), the final
   complement, the header and the step of the outer loop (i = the index, n = message_len) *)
Theorem c11_code_crc_step : forall m rho crc i n,
  0 <= crc < 2 ^ 32 -> 0 <= i < n -> n < 2 ^ 31 ->
  (exists mk,
     ceval (upd rho "crc" crc) m (site sites_libwifi_crc32 "set:mask#0") = Some mk /\
     ceval (upd (upd rho "crc" crc) "mask" mk) m (site sites_libwifi_crc32 "set:crc#2") =
       Some (Z.lxor (Z.shiftr crc 1) (if Z.odd crc then 3988292384 else 0))) /\
  ceval (upd rho "crc" crc) m (site sites_libwifi_crc32 "ret#0") = Some (Z.lxor crc 4294967295) /\
  ceval (upd (upd rho "i" i) "message_len" n) m (site sites_libwifi_crc32 "loop#0") = Some (b2z (i <? n)) /\
  ceval (upd (upd rho "i" i) "message_len" n) m (site sites_libwifi_crc32 "set:i#1") = Some (i + 1).
Proof. exact code_crc_step. Qed.
Print Assumptions c11_code_crc_step.

(* libwifi_crc32 AS TRANSLATED from crc.c on this run - both loops, the int index, the unsigned register, the load message[i],
   the mask -(crc & 1), the final complement - computes the model's CRC-32 of EVERY message of up to 2^31 - 1 octets placed anywhere
   in memory, reading nothing but the message (anything else makes execution stuck), within an explicit number of steps; with the
   theorems above that is the IEEE 802.3 FCS.  A non-positive length reads nothing and returns the CRC of the empty message. *)
From LW Require Import Base.Bytes Model.CRC Proofs.CodeIter Proofs.CodeCRC.

Theorem c11_code_crc32_refines_model : forall msg start rho,
  wfbytes msg -> 0 < start -> start + zlen msg < 2 ^ 62 -> zlen msg < 2 ^ 31 ->
  observe (exec (60 * length msg + 60) (mem_at start msg) (upd (upd rho "message" start) "message_len" (zlen msg)) []
                body_libwifi_crc32) = Some (Some (crc32_list msg), []).
Proof. exact code_crc32_refines. Qed.
Print Assumptions c11_code_crc32_refines_model.

Theorem c11_code_crc32_nonpositive_length : forall m start n rho,
  - 2 ^ 31 <= n <= 0 ->
  observe (exec 10 m (upd (upd rho "message" start) "message_len" n) [] body_libwifi_crc32) = Some (Some 0, []).
Proof. exact code_crc32_nonpositive_length_mem. Qed.
Print Assumptions c11_code_crc32_nonpositive_length.

(* the whole of libwifi_frame_verify and libwifi_calculate_fcs as translated: too-short frames answer 0 reading nothing; otherwise the
   received FCS is LOADED from the last four octets (frame + (len - 4), in size_t), the checksum is asked over the len - 4 octets
   before them, and the answer is 1 exactly when the two are equal.  With the callee's answer being what c11_code_crc32_refines_model
   gives for libwifi_crc32 on those octets, that is the property. *)
From LW Require Import Proofs.CodeVerify.

Theorem c11_code_frame_verify_exec : forall m rho frame len o,
  0 < frame -> 0 <= len -> frame + len < 2 ^ 62 -> 0 <= o < 2 ^ 32 ->
  (4 <= len -> load_le m (frame + (len - 4)) (Z.to_nat (32 / 8)) = Some o) ->
  let rho0 := upd (upd rho "frame" frame) "frame_len" len in
  let c := wrap u32 (rho "ret:libwifi_calculate_fcs") in
  observe (exec 30 m rho0 [] body_libwifi_frame_verify) =
    if len <? 4 then Some (Some 0, [])
    else Some (Some (b2z (c =? o)),
               [("memcpy", [wrap u64 (rho "&oCRC"); frame + (len - 4); 4]); ("libwifi_calculate_fcs", [frame; len - 4])]).
Proof. exact code_frame_verify_exec. Qed.
Print Assumptions c11_code_frame_verify_exec.

Theorem c11_code_calculate_fcs_exec : forall m rho frame n,
  0 <= frame < 2 ^ 62 -> 0 <= n < 2 ^ 31 ->
  let rho0 := upd (upd rho "frame" frame) "frame_len" n in
  observe (exec 10 m rho0 [] body_libwifi_calculate_fcs) =
    Some (Some (wrap u32 (rho "ret:libwifi_crc32")), [("libwifi_crc32", [frame; n])]).
Proof. exact code_calculate_fcs_exec. Qed.
Print Assumptions c11_code_calculate_fcs_exec.

Theorem c11_code_frame_verify_is_fcs_check : forall buf frame rho,
  wfbytes buf -> 0 < frame -> frame + zlen buf < 2 ^ 62 -> 4 <= zlen buf < 2 ^ 31 ->
  rho "ret:libwifi_calculate_fcs" = crc32_list (zfirstn (zlen buf - 4) buf) ->
  0 <= crc32_list (zfirstn (zlen buf - 4) buf) < 2 ^ 32 ->
  let o := znth buf (zlen buf - 4) + 256 * (znth buf (zlen buf - 3) + 256 * (znth buf (zlen buf - 2) + 256 * znth buf (zlen buf - 1))) in
  exists tr,
  observe (exec 30 (mem_at frame buf) (upd (upd rho "frame" frame) "frame_len" (zlen buf)) [] body_libwifi_frame_verify) =
    Some (Some (b2z (crc32_list (zfirstn (zlen buf - 4) buf) =? o)), tr).
Proof. exact code_frame_verify_is_fcs_check. Qed.
Print Assumptions c11_code_frame_verify_is_fcs_check.
