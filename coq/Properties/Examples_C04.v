(* C04 - non-vacuity witnesses and worked instances for Properties_C04.v.
   All frames are classified byte strings (frame_ok through c12_classified_ok).
   Frames: a beacon from s_beacon (SSID "home", channel 6, rates, RSN WPA2-PSK/CCMP, WPA vendor element), the same
           beacon classified behind a radiotap header announcing an FCS, a probe response with the same contents,
           an association response, a probe request from a locally administered (randomised) address, an
           association and a reassociation request, a deauthentication (reason 7) with a vendor element, a
           disassociation (reason 8).
   Covered:  c04_bss_exact             (nonvacuous + instances: beacon record written out; probe response; assoc response),
             c04_sta_exact             (nonvacuous + instances: probe request record written out; (re)assoc request),
             c04_reason_exact          (nonvacuous + instances: deauth and disassoc records written out),
             c04_other_subtype_refused (nonvacuous + instance: the beacon handed to subtype 5 / 4 / 12 parsers),
             c04_flag_independent      (nonvacuous + instance: beacon with / without radiotap+FCS; the two frame
                                        records differ in f_flags and f_rtap),
             c04_elements_after_empty  (instance: SSID, EMPTY element 114, DS, RSN - four elements reported; beacon
                                        carrying them: channel 6 and WPA2 flags, WEP cleared; repeated SSID element:
                                        the last one replaces the first),
             c04_roundtrip_beacon      (nonvacuous + instance, NON-EMPTY neutral extras; second witness: hidden SSID),
             c04_roundtrip_probe_resp  (nonvacuous + instance),
             c04_roundtrip_assoc_resp  (nonvacuous + instance),
             c04_roundtrip_reassoc_resp(nonvacuous + instance),
             c04_roundtrip_sta         (nonvacuous + instance: all three request kinds, randomised address),
             c04_roundtrip_reason      (nonvacuous + instance, reason 7 with a vendor element).
   Skipped:  nothing. *)
From Coq Require Import ZArith Lia List Bool.
From LW Require Import Base.Bytes Model.TagIter Spec.TagSpec Model.Radiotap Model.Frame Spec.FrameSpec Model.Security
  Model.Mgmt Spec.EapolSpec Spec.SecuritySpec Spec.MgmtSpec Spec.GenSpec Spec.CRCSpec
  Properties.Properties_C12 Properties.Properties_C04.
Local Open Scope Z_scope.

(* ---------- concrete values ---------- *)
Definition bcast : list byte := [255; 255; 255; 255; 255; 255].
Definition ap_mac : list byte := [0; 22; 62; 17; 34; 51].             (* 00:16:3e:11:22:33 *)
Definition sta_mac : list byte := [160; 136; 180; 68; 85; 102].       (* a0:88:b4:44:55:66 *)
Definition rnd_mac : list byte := [218; 161; 25; 10; 11; 12].         (* da:a1:19:0a:0b:0c, locally administered *)
Definition old_ap : list byte := [0; 22; 62; 119; 136; 153].
Definition home : list byte := [104; 111; 109; 101].
Definition rates : list byte := [130; 132; 139; 150].
Definition now : Z := 1311768467463790320.                            (* 0x123456789ABCDEF0 *)
Definition rsn_body : list byte := [1;0; 0;15;172;4; 1;0; 0;15;172;4; 1;0; 0;15;172;2; 0;0].
Definition wpa_body : list byte :=
  [0;80;242;1; 1;0; 0;80;242;2; 2;0; 0;80;242;2; 0;80;242;4; 1;0; 0;80;242;2].
Definition sec_extras : list tag := [(1, rates); (48, rsn_body); (221, wpa_body)].
(* rates, ERP, extended rates, extended capabilities: none of 0, 3, 61, 48, 221 *)
Definition neutral_extras : list tag := [(1, rates); (42, [0]); (50, [12; 18; 24; 96]); (127, [4; 0; 8; 0; 0; 0; 0; 64])].
Definition vendor_extras : list tag := [(221, [0; 23; 242; 10; 0; 1; 4])].
Definition rsn_home : rsn_info :=
  {| r_version := 1; r_group := ([0; 15; 172], 4); r_pairwise := [([0; 15; 172], 4)];
     r_akms := [([0; 15; 172], 2)]; r_caps := 0 |}.
Definition wpa_home : wpa_info :=
  {| wi_version := 1; wi_multicast := ([0; 80; 242], 2); wi_unicast := [([0; 80; 242], 2); ([0; 80; 242], 4)];
     wi_akms := [([0; 80; 242], 2)] |}.
Definition ssid33 (s : list byte) : list byte := s ++ repeat 0 (33 - length s).

Definition beacon_bytes := s_beacon bcast ap_mac ap_mac home 6 now sec_extras.
Definition presp_bytes := s_probe_resp sta_mac ap_mac ap_mac home 6 now sec_extras.
Definition aresp_bytes := s_assoc_resp sta_mac ap_mac ap_mac 6 [(48, rsn_body)].
Definition preq_bytes := s_probe_req bcast rnd_mac bcast home 6 [(1, rates)].
Definition areq_bytes := s_assoc_req ap_mac sta_mac ap_mac home 6 [(1, rates); (48, rsn_body)].
Definition rreq_bytes := s_reassoc_req ap_mac sta_mac ap_mac old_ap home 6 [(1, rates)].
Definition deauth_bytes := s_deauth sta_mac ap_mac ap_mac 7 vendor_extras.
Definition disassoc_bytes := s_disassoc ap_mac sta_mac ap_mac 8 [].
Definition rtap_hdr : list byte :=
  [0; 0; 23; 0; 47; 0; 0; 0;  1; 2; 3; 4; 5; 6; 7; 8;  16; 12; 133; 9; 160; 0; 206].
Definition beacon_rt_bytes := rtap_hdr ++ beacon_bytes ++ fcs_octets beacon_bytes.

Definition frame0 : frame :=
  {| f_rtap := None; f_flags := 0; f_fc := []; f_len := 0; f_header := []; f_header_len := 0; f_body := [] |}.
Definition classified (buf : list byte) (rtres : option (outcome rt_info)) : frame :=
  match spec_classify buf rtres with Ok f => f | Err _ => frame0 end.
Definition info_rt : rt_info := Eval vm_compute in
  match parse_radiotap_info (rd_strict beacon_rt_bytes) (zlen beacon_rt_bytes) with Done (Ok i) => i | _ => info0 end.
Definition f_beacon : frame := Eval vm_compute in classified beacon_bytes None.
Definition f_beacon_rt : frame := Eval vm_compute in classified beacon_rt_bytes (Some (Ok info_rt)).
Definition f_presp : frame := Eval vm_compute in classified presp_bytes None.
Definition f_aresp : frame := Eval vm_compute in classified aresp_bytes None.
Definition f_preq : frame := Eval vm_compute in classified preq_bytes None.
Definition f_areq : frame := Eval vm_compute in classified areq_bytes None.
Definition f_rreq : frame := Eval vm_compute in classified rreq_bytes None.
Definition f_deauth : frame := Eval vm_compute in classified deauth_bytes None.
Definition f_disassoc : frame := Eval vm_compute in classified disassoc_bytes None.

Ltac wf := apply wfbytesb_spec; vm_compute; reflexivity.
Ltac by_classification buf :=
  apply (c12_classified_ok buf None); [wf | vm_compute; reflexivity | intros ? ?; discriminate].
Lemma ok_beacon : frame_ok f_beacon. Proof. by_classification beacon_bytes. Qed.
Lemma ok_presp : frame_ok f_presp. Proof. by_classification presp_bytes. Qed.
Lemma ok_aresp : frame_ok f_aresp. Proof. by_classification aresp_bytes. Qed.
Lemma ok_preq : frame_ok f_preq. Proof. by_classification preq_bytes. Qed.
Lemma ok_areq : frame_ok f_areq. Proof. by_classification areq_bytes. Qed.
Lemma ok_rreq : frame_ok f_rreq. Proof. by_classification rreq_bytes. Qed.
Lemma ok_deauth : frame_ok f_deauth. Proof. by_classification deauth_bytes. Qed.
Lemma ok_disassoc : frame_ok f_disassoc. Proof. by_classification disassoc_bytes. Qed.
Lemma ok_beacon_rt : frame_ok f_beacon_rt.
Proof.
  apply (c12_classified_ok beacon_rt_bytes (Some (Ok info_rt))); [wf | vm_compute; reflexivity |].
  intros info H. injection H as <-. vm_compute. split; discriminate.
Qed.

(* helpers for the round-trip hypotheses *)
Lemma wf_tagb_ok t : wf_tagb t = true -> wf_tag t.
Proof.
  unfold wf_tagb, wf_tag. rewrite !andb_true_iff. intros [[[A B] C] D].
  apply wfbytesb_spec in D. repeat split; try assumption; lia.
Qed.
Lemma wf_tagsb_ok l : forallb wf_tagb l = true -> wf_tags l.
Proof.
  unfold wf_tags. rewrite forallb_forall, Forall_forall. intros H x Hx. apply wf_tagb_ok, H, Hx.
Qed.
Ltac mac := split; [vm_compute; reflexivity | wf].
Lemma mac_bcast : mac_ok bcast. Proof. mac. Qed.
Lemma mac_ap : mac_ok ap_mac. Proof. mac. Qed.
Lemma mac_sta : mac_ok sta_mac. Proof. mac. Qed.
Lemma mac_rnd : mac_ok rnd_mac. Proof. mac. Qed.
Lemma mac_old : mac_ok old_ap. Proof. mac. Qed.
Lemma ssid_home : ssid_ok home. Proof. split; [vm_compute; discriminate | wf]. Qed.
Lemma ssid_zero : ssid_ok [0; 0; 0; 0]. Proof. split; [vm_compute; discriminate | wf]. Qed.
Lemma wf_neutral : wf_tags neutral_extras. Proof. apply wf_tagsb_ok. vm_compute. reflexivity. Qed.
Lemma wf_vendor : wf_tags vendor_extras. Proof. apply wf_tagsb_ok. vm_compute. reflexivity. Qed.
(* neutral is satisfiable by a non-empty list *)
Lemma neutral_ok : neutral neutral_extras.
Proof. unfold neutral, neutral_extras. repeat constructor; simpl; intuition discriminate. Qed.

(* ---------- c04_bss_exact ---------- *)
Example c04_bss_exact_nonvacuous :
  (spec_classify beacon_bytes None = Ok f_beacon /\ frame_ok f_beacon) /\ frame_ok f_presp /\ frame_ok f_aresp.
Proof. split; [split; [vm_compute; reflexivity | exact ok_beacon]|]. exact (conj ok_presp ok_aresp). Qed.

(* the flag word: WPA2 | WPA | group TKIP, CCMP | pairwise TKIP, CCMP | PSK *)
Definition enc_mixed : Z := 8 + 4 + 2 ^ 6 + 2 ^ 8 + 2 ^ 20 + 2 ^ 22 + 2 ^ 34.
Definition bss_home (tx rx : list byte) : bss :=
  {| b_transmitter := tx; b_receiver := rx; b_bssid := ap_mac; b_ssid := ssid33 home; b_hidden := 0;
     b_channel := 6; b_wps := 0; b_enc := enc_mixed; b_wpa := wpa_home; b_rsn := rsn_home;
     b_tags := enc ([(0, home); (3, [6])] ++ sec_extras) |}.

Example c04_bss_exact_instance :
  parse_beacon f_beacon = Done (Ok (bss_home ap_mac bcast)) /\ parse_probe_resp f_beacon = Done (Err (-22)) /\
  parse_assoc_resp f_beacon = Done (Err (-22)) /\ parse_reassoc_resp f_beacon = Done (Err (-22)).
Proof.
  destruct (c04_bss_exact f_beacon ok_beacon) as [A [B [C D]]]. rewrite A, B, C, D.
  vm_compute. repeat split; reflexivity.
Qed.
(* probe response: same contents; transmitter = address 2 (the AP), receiver = address 1 (the station) like the other
   BSS parsers (finding F48: they used to be left zero) *)
Example c04_bss_exact_instance_probe_resp :
  parse_probe_resp f_presp = Done (Ok (bss_home ap_mac sta_mac)) /\ parse_beacon f_presp = Done (Err (-22)).
Proof.
  destruct (c04_bss_exact f_presp ok_presp) as [A [B _]]. rewrite A, B. vm_compute. split; reflexivity.
Qed.
(* association response carrying an RSN element: fixed part of 6 bytes, channel from DS, WPA2 flags *)
Example c04_bss_exact_instance_assoc_resp :
  exists b, parse_assoc_resp f_aresp = Done (Ok b) /\ b_transmitter b = ap_mac /\ b_receiver b = sta_mac /\
            b_channel b = 6 /\ b_ssid b = zero33 /\ b_rsn b = rsn_home /\ b_enc b = 8 + 2 ^ 8 + 2 ^ 22 + 2 ^ 34.
Proof.
  destruct (c04_bss_exact f_aresp ok_aresp) as [_ [_ [C _]]]. rewrite C.
  eexists. split; [vm_compute; reflexivity|]. vm_compute. repeat split; reflexivity.
Qed.

(* ---------- c04_sta_exact ---------- *)
Example c04_sta_exact_nonvacuous :
  (spec_classify preq_bytes None = Ok f_preq /\ frame_ok f_preq) /\ frame_ok f_areq /\ frame_ok f_rreq.
Proof. split; [split; [vm_compute; reflexivity | exact ok_preq]|]. exact (conj ok_areq ok_rreq). Qed.

Example c04_sta_exact_instance :
  parse_probe_req f_preq = Done (Ok
    {| s_channel := 6; s_randomized := 1; s_transmitter := rnd_mac; s_receiver := bcast; s_bssid := bcast;
       s_ssid := ssid33 home; s_broadcast_ssid := 0; s_tags := enc [(0, home); (3, [6]); (1, rates)] |}) /\
  parse_assoc_req f_preq = Done (Err (-22)) /\ parse_reassoc_req f_preq = Done (Err (-22)).
Proof.
  destruct (c04_sta_exact f_preq ok_preq) as [A [B C]]. rewrite A, B, C. vm_compute. repeat split; reflexivity.
Qed.
(* the receiver is address 1 (finding F48: it used to be left zero).
   association request (4 fixed bytes) and reassociation request (10 fixed bytes: the current AP is skipped) *)
Example c04_sta_exact_instance_assoc :
  parse_assoc_req f_areq = Done (Ok
    {| s_channel := 6; s_randomized := 0; s_transmitter := sta_mac; s_receiver := ap_mac; s_bssid := ap_mac;
       s_ssid := ssid33 home; s_broadcast_ssid := 0;
       s_tags := enc [(0, home); (3, [6]); (1, rates); (48, rsn_body)] |}) /\
  parse_reassoc_req f_rreq = Done (Ok
    {| s_channel := 6; s_randomized := 0; s_transmitter := sta_mac; s_receiver := ap_mac; s_bssid := ap_mac;
       s_ssid := ssid33 home; s_broadcast_ssid := 0; s_tags := enc [(0, home); (3, [6]); (1, rates)] |}).
Proof.
  rewrite (proj1 (proj2 (c04_sta_exact f_areq ok_areq))), (proj2 (proj2 (c04_sta_exact f_rreq ok_rreq))).
  vm_compute. split; reflexivity.
Qed.

(* ---------- c04_reason_exact ---------- *)
Example c04_reason_exact_nonvacuous :
  (spec_classify deauth_bytes None = Ok f_deauth /\ frame_ok f_deauth) /\ frame_ok f_disassoc.
Proof. split; [split; [vm_compute; reflexivity | exact ok_deauth] | exact ok_disassoc]. Qed.

Example c04_reason_exact_instance :
  parse_deauth f_deauth = Done (Ok
    {| p_ordered := 0; p_header := [192; 0; 0; 0] ++ sta_mac ++ ap_mac ++ ap_mac ++ [0; 0]; p_reason := 7;
       p_tags := [221; 7; 0; 23; 242; 10; 0; 1; 4] |}) /\
  parse_disassoc f_deauth = Done (Err (-22)) /\
  parse_disassoc f_disassoc = Done (Ok
    {| p_ordered := 0; p_header := [160; 0; 0; 0] ++ ap_mac ++ sta_mac ++ ap_mac ++ [0; 0]; p_reason := 8;
       p_tags := [] |}) /\
  parse_deauth f_disassoc = Done (Err (-22)).
Proof.
  destruct (c04_reason_exact f_deauth ok_deauth) as [A B]. destruct (c04_reason_exact f_disassoc ok_disassoc) as [C D].
  rewrite A, B, C, D. vm_compute. repeat split; reflexivity.
Qed.

(* ---------- c04_other_subtype_refused ---------- *)
Example c04_other_subtype_refused_nonvacuous :
  s_is f_beacon 5 = false /\ s_is f_beacon 4 = false /\ s_is f_beacon 12 = false /\ s_is f_beacon 8 = true.
Proof. vm_compute. repeat split; reflexivity. Qed.
Example c04_other_subtype_refused_instance :
  s_parse_bss f_beacon 5 12 10 false = Err (-22) /\ s_parse_sta f_beacon 4 0 = Err (-22) /\
  s_parse_reason f_beacon 12 = Err (-22).
Proof.
  destruct c04_other_subtype_refused_nonvacuous as [H5 [H4 [H12 _]]].
  destruct (c04_other_subtype_refused f_beacon 5 12 10 false H5) as [A _].
  destruct (c04_other_subtype_refused f_beacon 4 0 0 false H4) as [_ [B _]].
  destruct (c04_other_subtype_refused f_beacon 12 0 0 false H12) as [_ [_ C]].
  exact (conj A (conj B C)).
Qed.

(* ---------- c04_flag_independent ---------- *)
(* the same beacon captured bare and behind radiotap + FCS: different frame records ... *)
Example c04_flag_independent_nonvacuous :
  f_fc f_beacon = f_fc f_beacon_rt /\ f_header f_beacon = f_header f_beacon_rt /\ f_body f_beacon = f_body f_beacon_rt /\
  f_flags f_beacon = 0 /\ f_flags f_beacon_rt = 9 /\ f_rtap f_beacon = None /\ f_rtap f_beacon_rt = Some info_rt /\
  spec_classify beacon_rt_bytes (Some (Ok info_rt)) = Ok f_beacon_rt /\ frame_ok f_beacon_rt.
Proof. split; [|split; [|split; [|split; [|split; [|split; [|split; [|split]]]]]]];
  try (vm_compute; reflexivity). exact ok_beacon_rt. Qed.
(* ... the same report *)
Example c04_flag_independent_instance :
  s_parse_beacon f_beacon_rt = Ok (bss_home ap_mac bcast) /\ parse_beacon f_beacon_rt = Done (Ok (bss_home ap_mac bcast)) /\
  s_parse_reason f_beacon_rt 12 = s_parse_reason f_beacon 12.
Proof.
  destruct c04_flag_independent_nonvacuous as [A [B [C _]]].
  destruct (c04_flag_independent f_beacon f_beacon_rt A B C) as [E [_ [_ [_ [_ [_ [_ R]]]]]]].
  assert (S : s_parse_beacon f_beacon_rt = Ok (bss_home ap_mac bcast)).
  { rewrite <- E. vm_compute. reflexivity. }
  split; [exact S|]. split; [|symmetry; apply R].
  rewrite (proj1 (c04_bss_exact f_beacon_rt ok_beacon_rt)), S. reflexivity.
Qed.

(* ---------- c04_elements_after_empty ---------- *)
(* SSID "home", an element with an EMPTY body (114, mesh ID, wildcard), DS channel 6, RSN (CCMP / PSK): iteration reports
   all four (it used to stop in front of the empty one, finding F44) *)
Definition gap_tags : list tag := [(0, home); (114, []); (3, [6]); (48, rsn_body)].
Example c04_elements_after_empty_instance :
  enc gap_tags = [0; 4; 104; 111; 109; 101;  114; 0;  3; 1; 6;
                  48; 20; 1;0; 0;15;172;4; 1;0; 0;15;172;4; 1;0; 0;15;172;2; 0;0] /\
  spec_iterate (enc gap_tags) =
    Ok [ {| e_off := 0; e_num := 0; e_len := 4 |}; {| e_off := 6; e_num := 114; e_len := 0 |};
         {| e_off := 8; e_num := 3; e_len := 1 |}; {| e_off := 11; e_num := 48; e_len := 20 |} ].
Proof.
  split; [vm_compute; reflexivity|]. unfold gap_tags. rewrite c04_elements_after_empty. vm_compute. reflexivity.
Qed.
(* a beacon (privacy bit set in the capability field: 0x0011) carrying these elements: the parser reports channel 6 and
   the RSN summary with the WEP flag cleared.  Before the repair of F44 it stopped in front of the empty element and
   reported channel 0 and WEP. *)
Definition beacon_with (tags : list tag) : list byte :=
  s_mgmt_header 8 bcast ap_mac ap_mac ++ le_enc 8 now ++ le_enc 2 100 ++ le_enc 2 17 ++ enc tags.
Definition gap_bytes := beacon_with gap_tags.
Definition f_gap : frame := Eval vm_compute in classified gap_bytes None.
Lemma ok_gap : frame_ok f_gap. Proof. by_classification gap_bytes. Qed.
Example c04_elements_after_empty_beacon :
  spec_classify gap_bytes None = Ok f_gap /\
  parse_beacon f_gap = Done (Ok
    {| b_transmitter := ap_mac; b_receiver := bcast; b_bssid := ap_mac; b_ssid := ssid33 home; b_hidden := 0;
       b_channel := 6; b_wps := 0; b_enc := 8 + 2 ^ 8 + 2 ^ 22 + 2 ^ 34; b_wpa := wpa0; b_rsn := rsn_home;
       b_tags := enc gap_tags |}).
Proof.
  split; [vm_compute; reflexivity|].
  rewrite (proj1 (c04_bss_exact f_gap ok_gap)). vm_compute. reflexivity.
Qed.
(* the same beacon cut behind the empty element: what the unrepaired iterator made of the whole frame *)
Example c04_elements_after_empty_contrast :
  exists f, spec_classify (beacon_with [(0, home); (114, [])]) None = Ok f /\
    s_parse_beacon f = Ok {| b_transmitter := ap_mac; b_receiver := bcast; b_bssid := ap_mac; b_ssid := ssid33 home;
                             b_hidden := 0; b_channel := 0; b_wps := 0; b_enc := 2; b_wpa := wpa0; b_rsn := rsn0;
                             b_tags := enc [(0, home); (114, [])] |}.
Proof. eexists. split; [vm_compute; reflexivity|]. vm_compute. reflexivity. Qed.

(* a repeated SSID element REPLACES the earlier one (memset then memcpy, finding F47; the earlier bytes used to show
   through behind a shorter later SSID: "xycdef"): "abcdef" then "xy" is reported as "xy" followed by zeros *)
Definition twice_tags : list tag := [(0, [97; 98; 99; 100; 101; 102]); (0, [120; 121]); (3, [1])].
Definition twice_bytes := beacon_with twice_tags.
Definition f_twice : frame := Eval vm_compute in classified twice_bytes None.
Lemma ok_twice : frame_ok f_twice. Proof. by_classification twice_bytes. Qed.
Example c04_repeated_ssid_replaces :
  exists b, parse_beacon f_twice = Done (Ok b) /\ b_ssid b = [120; 121] ++ repeat 0 31 /\ b_hidden b = 0 /\
            b_channel b = 1 /\ b_enc b = 2.
Proof.
  rewrite (proj1 (c04_bss_exact f_twice ok_twice)).
  eexists. split; [vm_compute; reflexivity|]. vm_compute. repeat split; reflexivity.
Qed.
(* ... also for the station parsers: a probe request *)
Example c04_repeated_ssid_replaces_sta :
  exists f, spec_classify (s_mgmt_header 4 bcast sta_mac bcast ++ enc twice_tags) None = Ok f /\ frame_ok f /\
    exists s, parse_probe_req f = Done (Ok s) /\ s_ssid s = [120; 121] ++ repeat 0 31 /\ s_channel s = 1 /\
              s_receiver s = bcast.
Proof.
  eexists. split; [vm_compute; reflexivity|].
  match goal with |- frame_ok ?f /\ _ => assert (Hok : frame_ok f) end.
  { apply (c12_classified_ok (s_mgmt_header 4 bcast sta_mac bcast ++ enc twice_tags) None);
      [wf | vm_compute; reflexivity | intros ? ?; discriminate]. }
  split; [exact Hok|]. rewrite (proj1 (c04_sta_exact _ Hok)).
  eexists. split; [vm_compute; reflexivity|]. vm_compute. repeat split; reflexivity.
Qed.

(* ---------- c04_roundtrip_beacon / probe_resp ---------- *)
Example c04_roundtrip_beacon_nonvacuous :
  mac_ok bcast /\ mac_ok ap_mac /\ mac_ok ap_mac /\ ssid_ok home /\ zlen home <= 32 /\ u8 6 /\ 0 <= now < 2 ^ 64 /\
  wf_tags neutral_extras /\ neutral neutral_extras.
Proof.
  split; [exact mac_bcast|]. split; [exact mac_ap|]. split; [exact mac_ap|]. split; [exact ssid_home|].
  split; [vm_compute; discriminate|]. split; [unfold u8; lia|]. split; [unfold now; lia|].
  split; [exact wf_neutral | exact neutral_ok].
Qed.

Definition rt_beacon_bytes := s_beacon bcast ap_mac ap_mac home 6 now neutral_extras.
Definition f_rt_beacon : frame := Eval vm_compute in classified rt_beacon_bytes None.
Definition bss_open (tx rx ssid : list byte) (hidden : Z) (tags : list tag) : bss :=
  {| b_transmitter := tx; b_receiver := rx; b_bssid := ap_mac; b_ssid := ssid; b_hidden := hidden; b_channel := 6;
     b_wps := 0; b_enc := 0; b_wpa := wpa0; b_rsn := rsn0; b_tags := enc tags |}.

Example c04_roundtrip_beacon_instance :
  spec_classify rt_beacon_bytes None = Ok f_rt_beacon /\ zlen rt_beacon_bytes = 70 /\
  s_parse_beacon f_rt_beacon =
    Ok (bss_open ap_mac bcast (ssid33 home) 0 ([(0, home); (3, [6])] ++ neutral_extras)).
Proof.
  destruct c04_roundtrip_beacon_nonvacuous as [A1 [A2 [A3 [S [L [C [N [W U]]]]]]]].
  destruct (c04_roundtrip_beacon bcast ap_mac ap_mac home 6 now neutral_extras A1 A2 A3 S L C N W U) as [f [Hc Hp]].
  assert (E : f = f_rt_beacon) by (vm_compute in Hc; vm_compute; congruence). subst f.
  split; [exact Hc|]. split; [vm_compute; reflexivity|]. rewrite Hp. vm_compute. reflexivity.
Qed.
(* hidden network: the SSID element holds four zero octets *)
Example c04_roundtrip_beacon_instance_hidden :
  exists f, spec_classify (s_beacon bcast ap_mac ap_mac [0; 0; 0; 0] 6 now neutral_extras) None = Ok f /\
    s_parse_beacon f = Ok (bss_open ap_mac bcast zero33 1 ([(0, [0; 0; 0; 0]); (3, [6])] ++ neutral_extras)).
Proof.
  destruct c04_roundtrip_beacon_nonvacuous as [A1 [A2 [A3 [_ [_ [C [N [W U]]]]]]]].
  destruct (c04_roundtrip_beacon bcast ap_mac ap_mac [0; 0; 0; 0] 6 now neutral_extras A1 A2 A3 ssid_zero
              ltac:(vm_compute; discriminate) C N W U) as [f [Hc Hp]].
  exists f. split; [exact Hc|]. rewrite Hp. vm_compute. reflexivity.
Qed.

Example c04_roundtrip_probe_resp_nonvacuous :
  mac_ok sta_mac /\ mac_ok ap_mac /\ mac_ok ap_mac /\ ssid_ok home /\ zlen home <= 32 /\ u8 6 /\ 0 <= now < 2 ^ 64 /\
  wf_tags neutral_extras /\ neutral neutral_extras.
Proof.
  split; [exact mac_sta|]. split; [exact mac_ap|]. split; [exact mac_ap|]. split; [exact ssid_home|].
  split; [vm_compute; discriminate|]. split; [unfold u8; lia|]. split; [unfold now; lia|].
  split; [exact wf_neutral | exact neutral_ok].
Qed.
Example c04_roundtrip_probe_resp_instance :
  exists f, spec_classify (s_probe_resp sta_mac ap_mac ap_mac home 6 now neutral_extras) None = Ok f /\
    f_fc f = [80; 0] /\ zlen (f_body f) = 46 /\
    s_parse_probe_resp f = Ok (bss_open ap_mac sta_mac (ssid33 home) 0 ([(0, home); (3, [6])] ++ neutral_extras)).
Proof.
  destruct c04_roundtrip_probe_resp_nonvacuous as [A1 [A2 [A3 [S [L [C [N [W U]]]]]]]].
  destruct (c04_roundtrip_probe_resp sta_mac ap_mac ap_mac home 6 now neutral_extras A1 A2 A3 S L C N W U)
    as [f [Hc Hp]].
  exists f. split; [exact Hc|]. vm_compute in Hc. injection Hc as <-.
  split; [reflexivity|]. split; [reflexivity|]. rewrite Hp. vm_compute. reflexivity.
Qed.

(* ---------- c04_roundtrip_assoc_resp / reassoc_resp ---------- *)
Example c04_roundtrip_assoc_resp_nonvacuous :
  mac_ok sta_mac /\ mac_ok ap_mac /\ mac_ok ap_mac /\ u8 6 /\ wf_tags neutral_extras /\ neutral neutral_extras.
Proof.
  split; [exact mac_sta|]. split; [exact mac_ap|]. split; [exact mac_ap|]. split; [unfold u8; lia|].
  split; [exact wf_neutral | exact neutral_ok].
Qed.
Example c04_roundtrip_assoc_resp_instance :
  exists f, spec_classify (s_assoc_resp sta_mac ap_mac ap_mac 6 neutral_extras) None = Ok f /\ f_fc f = [16; 0] /\
    s_parse_assoc_resp f =
      Ok (bss_open ap_mac sta_mac zero33 0 ([(3, [6]); (1, [130; 132; 139; 150; 36; 48; 72; 108])] ++ neutral_extras)).
Proof.
  destruct c04_roundtrip_assoc_resp_nonvacuous as [A1 [A2 [A3 [C [W U]]]]].
  destruct (c04_roundtrip_assoc_resp sta_mac ap_mac ap_mac 6 neutral_extras A1 A2 A3 C W U) as [f [Hc Hp]].
  exists f. split; [exact Hc|]. vm_compute in Hc. injection Hc as <-.
  split; [reflexivity|]. rewrite Hp. vm_compute. reflexivity.
Qed.
Example c04_roundtrip_reassoc_resp_nonvacuous :
  mac_ok sta_mac /\ mac_ok ap_mac /\ mac_ok ap_mac /\ u8 11 /\ wf_tags neutral_extras /\ neutral neutral_extras.
Proof.
  split; [exact mac_sta|]. split; [exact mac_ap|]. split; [exact mac_ap|]. split; [unfold u8; lia|].
  split; [exact wf_neutral | exact neutral_ok].
Qed.
Example c04_roundtrip_reassoc_resp_instance :
  exists f, spec_classify (s_reassoc_resp sta_mac ap_mac ap_mac 11 neutral_extras) None = Ok f /\ f_fc f = [48; 0] /\
    s_parse_reassoc_resp f =
      Ok {| b_transmitter := ap_mac; b_receiver := sta_mac; b_bssid := ap_mac; b_ssid := zero33; b_hidden := 0;
            b_channel := 11; b_wps := 0; b_enc := 0; b_wpa := wpa0; b_rsn := rsn0;
            b_tags := enc ([(3, [11])] ++ neutral_extras) |}.
Proof.
  destruct c04_roundtrip_reassoc_resp_nonvacuous as [A1 [A2 [A3 [C [W U]]]]].
  destruct (c04_roundtrip_reassoc_resp sta_mac ap_mac ap_mac 11 neutral_extras A1 A2 A3 C W U) as [f [Hc Hp]].
  exists f. split; [exact Hc|]. vm_compute in Hc. injection Hc as <-.
  split; [reflexivity|]. rewrite Hp. vm_compute. reflexivity.
Qed.

(* ---------- c04_roundtrip_sta ---------- *)
Example c04_roundtrip_sta_nonvacuous :
  mac_ok ap_mac /\ mac_ok rnd_mac /\ mac_ok ap_mac /\ mac_ok old_ap /\ ssid_ok home /\ zlen home <= 32 /\ u8 6 /\
  wf_tags neutral_extras /\ neutral neutral_extras.
Proof.
  split; [exact mac_ap|]. split; [exact mac_rnd|]. split; [exact mac_ap|]. split; [exact mac_old|].
  split; [exact ssid_home|]. split; [vm_compute; discriminate|]. split; [unfold u8; lia|].
  split; [exact wf_neutral | exact neutral_ok].
Qed.
Definition sta_expect : sta :=
  {| s_channel := 6; s_randomized := 1; s_transmitter := rnd_mac; s_receiver := ap_mac; s_bssid := ap_mac;
     s_ssid := ssid33 home; s_broadcast_ssid := 0; s_tags := enc ([(0, home); (3, [6])] ++ neutral_extras) |}.
Example c04_roundtrip_sta_instance :
  (exists f, spec_classify (s_probe_req ap_mac rnd_mac ap_mac home 6 neutral_extras) None = Ok f /\
             f_fc f = [64; 0] /\ zlen (f_body f) = 34 /\ s_parse_probe_req f = Ok sta_expect) /\
  (exists f, spec_classify (s_assoc_req ap_mac rnd_mac ap_mac home 6 neutral_extras) None = Ok f /\
             f_fc f = [0; 0] /\ zlen (f_body f) = 38 /\ s_parse_assoc_req f = Ok sta_expect) /\
  (exists f, spec_classify (s_reassoc_req ap_mac rnd_mac ap_mac old_ap home 6 neutral_extras) None = Ok f /\
             f_fc f = [32; 0] /\ zlen (f_body f) = 44 /\ s_parse_reassoc_req f = Ok sta_expect).
Proof.
  destruct c04_roundtrip_sta_nonvacuous as [A1 [A2 [A3 [A4 [S [L [C [W U]]]]]]]].
  destruct (c04_roundtrip_sta ap_mac rnd_mac ap_mac old_ap home 6 neutral_extras A1 A2 A3 A4 S L C W U)
    as [[f1 [Hc1 Hp1]] [[f2 [Hc2 Hp2]] [f3 [Hc3 Hp3]]]].
  split; [|split].
  - exists f1. split; [exact Hc1|]. vm_compute in Hc1. injection Hc1 as <-.
    split; [reflexivity|]. split; [reflexivity|]. rewrite Hp1. vm_compute. reflexivity.
  - exists f2. split; [exact Hc2|]. vm_compute in Hc2. injection Hc2 as <-.
    split; [reflexivity|]. split; [reflexivity|]. rewrite Hp2. vm_compute. reflexivity.
  - exists f3. split; [exact Hc3|]. vm_compute in Hc3. injection Hc3 as <-.
    split; [reflexivity|]. split; [reflexivity|]. rewrite Hp3. vm_compute. reflexivity.
Qed.

(* ---------- c04_roundtrip_reason ---------- *)
Example c04_roundtrip_reason_nonvacuous :
  mac_ok sta_mac /\ mac_ok ap_mac /\ mac_ok ap_mac /\ u16 7 /\ wf_tags vendor_extras.
Proof.
  split; [exact mac_sta|]. split; [exact mac_ap|]. split; [exact mac_ap|]. split; [unfold u16; lia | exact wf_vendor].
Qed.
Example c04_roundtrip_reason_instance :
  spec_classify deauth_bytes None = Ok f_deauth /\
  s_parse_reason f_deauth 12 =
    Ok {| p_ordered := 0; p_header := [192; 0; 0; 0] ++ sta_mac ++ ap_mac ++ ap_mac ++ [0; 0]; p_reason := 7;
          p_tags := [221; 7; 0; 23; 242; 10; 0; 1; 4] |} /\
  (exists f, spec_classify (s_disassoc sta_mac ap_mac ap_mac 7 vendor_extras) None = Ok f /\ f_fc f = [160; 0] /\
     s_parse_reason f 10 =
       Ok {| p_ordered := 0; p_header := [160; 0; 0; 0] ++ sta_mac ++ ap_mac ++ ap_mac ++ [0; 0]; p_reason := 7;
             p_tags := [221; 7; 0; 23; 242; 10; 0; 1; 4] |}).
Proof.
  destruct c04_roundtrip_reason_nonvacuous as [A1 [A2 [A3 [R W]]]].
  destruct (c04_roundtrip_reason sta_mac ap_mac ap_mac 7 vendor_extras A1 A2 A3 R W)
    as [[f1 [Hc1 Hp1]] [f2 [Hc2 Hp2]]].
  assert (E : f1 = f_deauth) by (vm_compute in Hc1; vm_compute; congruence). subst f1.
  split; [exact Hc1|]. split; [rewrite Hp1; vm_compute; reflexivity|].
  exists f2. split; [exact Hc2|]. vm_compute in Hc2. injection Hc2 as <-.
  split; [reflexivity|]. rewrite Hp2. vm_compute. reflexivity.
Qed.
