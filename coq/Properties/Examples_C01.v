(* C01 - non-vacuity witnesses and concrete instances for Properties_C01.v.

   c01_pipeline_safe is the only theorem with a real hypothesis
   (get_wifi_frame (rd_strict buf) (zlen buf) rt = Done (Ok f)).  It gets three witnesses:
     c01_pipeline_safe_nonvacuous           a WPA2 beacon (SSID, rates, DS, RSN, WMM), no radiotap header
     c01_pipeline_safe_nonvacuous_radiotap  the same beacon behind a 24-octet radiotap header (TSFT, flags
                                            with FCS-at-end, rate, channel, signal, antenna: alignment
                                            padding is exercised) and followed by its correct FCS
     c01_pipeline_safe_nonvacuous_eapol     a QoS data frame carrying EAPOL-Key message 2 with an RSN
                                            element as key data
   with c01_pipeline_safe_instance{,_radiotap,_eapol} (the theorem applied) and
   c01_pipeline_safe_values{,_radiotap,_eapol} (concrete outcomes of several of the 14 conjuncts, obtained
   from the theorem's conjuncts).
   The other four theorems only assume wfbytes buf; each gets instances on non-trivial input:
     c01_tag_iteration_safe_instance_{good,truncated,refused}
     c01_radiotap_safe_instance_{good,overlong}
     c01_classify_safe_instance_{one_byte,truncated_header,truncated_radiotap}
     c01_fcs_safe_instance_{good,corrupt}
   c01_ie_decoders_safe assumes wfbytes buf and agrees rd buf:
     c01_ie_decoders_safe_nonvacuous        a 3-octet range under rd_strict, the empty range under an oracle that
                                            faults on EVERY address
     c01_ie_decoders_safe_instance_{three,empty,cut_rsn,wpa,msft_short,msft_wps}
     c01_ie_decoders_no_read                the model run on lengths 0..5 (RSN, WPA) and 0..3 (Microsoft handler)
                                            under the everywhere-faulting oracle: Done, so nothing was read; one octet
                                            more and the first read faults
   Skipped: none. *)
From LW Require Import Base.Bytes Model.TagIter Model.Radiotap Model.Frame Model.CRC Model.Eapol Model.Security Model.Mgmt
  Spec.CRCSpec Proofs.SafetyProofs Properties.Properties_C01.
Local Open Scope Z_scope.

Ltac wf := apply wfbytesb_spec; vm_compute; reflexivity.
(* H : exists o, X = Done o /\ _      goal : X = Done v *)
Ltac value_of H :=
  let o := fresh "o" in let E := fresh "E" in
  destruct H as [o [E _]]; rewrite E; vm_compute in E; injection E as E; rewrite <- E; reflexivity.
(* H : exists o, X = Done o           goal : X = Done v *)
Ltac value_of1 H :=
  let o := fresh "o" in let E := fresh "E" in
  destruct H as [o E]; rewrite E; vm_compute in E; injection E as E; rewrite <- E; reflexivity.

(* ---------- shared byte strings ---------- *)
Definition AP  : list byte := [0; 22; 62; 17; 34; 51].                   (* 00:16:3e:11:22:33 *)
Definition STA : list byte := [2; 26; 17; 170; 187; 204].                (* 02:1a:11:aa:bb:cc, locally administered *)
Definition RSNIE : list byte :=                                           (* RSN: CCMP group, CCMP pairwise, PSK *)
  [48; 20; 1; 0; 0; 15; 172; 4; 1; 0; 0; 15; 172; 4; 1; 0; 0; 15; 172; 2; 0; 0].
Definition TAGS : list byte :=
  [0; 4; 104; 111; 109; 101;  1; 4; 130; 132; 139; 150;  3; 1; 6] ++ RSNIE ++ [221; 6; 0; 80; 242; 2; 1; 1].
Definition BEACON_HDR : list byte :=
  [128; 0; 0; 0; 255; 255; 255; 255; 255; 255] ++ AP ++ AP ++ [16; 0].
(* timestamp 0x0123456789ABCDEF, interval 100, capabilities 0x0411 (ESS, privacy, short slot) *)
Definition BEACON_FIXED : list byte := [239; 205; 171; 137; 103; 69; 35; 1; 100; 0; 17; 4].
Definition BEACON : list byte := BEACON_HDR ++ BEACON_FIXED ++ TAGS.      (* 81 octets *)
Definition BEACON_FCS : list byte := [30; 178; 6; 243].
(* radiotap: version 0, length 24, present = TSFT|FLAGS|RATE|CHANNEL|DBM_ANTSIGNAL|ANTENNA;
   TSFT (8, aligned 8), flags 0x10 = FCS at end, rate 2, channel 2437 MHz flags 0x00a0, -60 dBm, antenna 1 *)
Definition RTAP : list byte := [0; 0; 24; 0; 47; 8; 0; 0;  1; 2; 3; 4; 5; 6; 7; 8;  16; 2; 133; 9; 160; 0; 196; 1].
Definition CAPTURE : list byte := RTAP ++ BEACON ++ BEACON_FCS.           (* 109 octets *)
(* EAPOL-Key message 2 of the 4-way handshake in a QoS data frame to the AP *)
Definition QOS_HDR : list byte := [136; 1; 58; 1] ++ AP ++ STA ++ AP ++ [32; 0; 7; 0].
Definition LLC : list byte := [170; 170; 3; 0; 0; 0; 136; 142].
Definition SNONCE : list byte :=
  [1; 2; 3; 4; 5; 6; 7; 8; 9; 10; 11; 12; 13; 14; 15; 16; 17; 18; 19; 20; 21; 22; 23; 24; 25; 26; 27; 28; 29; 30; 31; 32].
Definition MIC : list byte := [160; 161; 162; 163; 164; 165; 166; 167; 168; 169; 170; 171; 172; 173; 174; 175].
Definition KEYDESC : list byte :=
  [1; 3; 0; 117; 2] ++ [1; 10] ++ [0; 16] ++ [0; 0; 0; 0; 0; 0; 0; 1] ++ SNONCE ++
  repeat 0 16 ++ repeat 0 8 ++ repeat 0 8 ++ MIC ++ [0; 22].
Definition EAPOL2 : list byte := QOS_HDR ++ LLC ++ KEYDESC ++ RSNIE.      (* 155 octets *)

Lemma BEACON_wf : wfbytes BEACON. Proof. wf. Qed.
Lemma CAPTURE_wf : wfbytes CAPTURE. Proof. wf. Qed.
Lemma EAPOL2_wf : wfbytes EAPOL2. Proof. wf. Qed.
(* the FCS literal above is the IEEE 802.3 FCS of the beacon *)
Example BEACON_FCS_is_fcs : BEACON_FCS = fcs_octets BEACON.
Proof. vm_compute. reflexivity. Qed.

(* the classified frames *)
Definition F_BEACON : frame :=
  {| f_rtap := None; f_flags := 0; f_fc := [128; 0]; f_len := 81;
     f_header := BEACON_HDR; f_header_len := 24; f_body := BEACON_FIXED ++ TAGS |}.
Definition RTAP_INFO : rt_info :=
  {| i_chan_flags := 160; i_chan_freq := 2437; i_chan_center := 6; i_chan_band := 1; i_rate_raw := 2;
     i_antennas := []; i_signal := 196; i_flags := 16; i_ext_flags := 0; i_rx_flags := 0; i_tx_flags := 0;
     i_mcs_known := 0; i_mcs_flags := 0; i_mcs_mcs := 0; i_tx_power := 0;
     i_ts := 0; i_ts_accuracy := 0; i_ts_unit := 0; i_ts_flags := 0;
     i_rts_retries := 0; i_data_retries := 0; i_length := 24 |}.
(* flags 9 = radiotap present | FCS present; the FCS is not part of the 81 data octets *)
Definition F_CAPTURE : frame :=
  {| f_rtap := Some RTAP_INFO; f_flags := 9; f_fc := [128; 0]; f_len := 81;
     f_header := BEACON_HDR; f_header_len := 24; f_body := BEACON_FIXED ++ TAGS |}.
(* flags 2 = QoS *)
Definition F_EAPOL2 : frame :=
  {| f_rtap := None; f_flags := 2; f_fc := [136; 1]; f_len := 155;
     f_header := QOS_HDR; f_header_len := 26; f_body := LLC ++ KEYDESC ++ RSNIE |}.

Lemma classify_beacon : get_wifi_frame (rd_strict BEACON) (zlen BEACON) false = Done (Ok F_BEACON).
Proof. vm_compute. reflexivity. Qed.
Lemma classify_capture : get_wifi_frame (rd_strict CAPTURE) (zlen CAPTURE) true = Done (Ok F_CAPTURE).
Proof. vm_compute. reflexivity. Qed.
Lemma classify_eapol2 : get_wifi_frame (rd_strict EAPOL2) (zlen EAPOL2) false = Done (Ok F_EAPOL2).
Proof. vm_compute. reflexivity. Qed.

(* ---------- c01_pipeline_safe: hypotheses ---------- *)
Example c01_pipeline_safe_nonvacuous :
  wfbytes BEACON /\ get_wifi_frame (rd_strict BEACON) (zlen BEACON) false = Done (Ok F_BEACON).
Proof. exact (conj BEACON_wf classify_beacon). Qed.
Example c01_pipeline_safe_nonvacuous_radiotap :
  wfbytes CAPTURE /\ get_wifi_frame (rd_strict CAPTURE) (zlen CAPTURE) true = Done (Ok F_CAPTURE).
Proof. exact (conj CAPTURE_wf classify_capture). Qed.
Example c01_pipeline_safe_nonvacuous_eapol :
  wfbytes EAPOL2 /\ get_wifi_frame (rd_strict EAPOL2) (zlen EAPOL2) false = Done (Ok F_EAPOL2).
Proof. exact (conj EAPOL2_wf classify_eapol2). Qed.

(* ---------- c01_pipeline_safe: the theorem applied ---------- *)
Definition pipeline_conclusion (f : frame) : Prop :=
  (exists o, parse_beacon f = Done o /\ negative_or_ok o) /\ (exists o, parse_probe_resp f = Done o /\ negative_or_ok o) /\
  (exists o, parse_assoc_resp f = Done o /\ negative_or_ok o) /\ (exists o, parse_reassoc_resp f = Done o /\ negative_or_ok o) /\
  (exists o, parse_probe_req f = Done o /\ negative_or_ok o) /\ (exists o, parse_assoc_req f = Done o /\ negative_or_ok o) /\
  (exists o, parse_reassoc_req f = Done o /\ negative_or_ok o) /\
  (exists o, parse_deauth f = Done o /\ negative_or_ok o) /\ (exists o, parse_disassoc f = Done o /\ negative_or_ok o) /\
  negative_or_ok (parse_data f) /\
  (exists o, check_wpa_handshake f = Done o /\ negative_or_ok o) /\ (exists m, check_wpa_message f = Done m) /\
  (exists n, get_wpa_key_data_length f = Done n) /\ (exists o, get_wpa_data f = Done o /\ negative_or_ok o).

Example c01_pipeline_safe_instance : pipeline_conclusion F_BEACON.
Proof. exact (c01_pipeline_safe BEACON false F_BEACON BEACON_wf classify_beacon). Qed.
Example c01_pipeline_safe_instance_radiotap : pipeline_conclusion F_CAPTURE.
Proof. exact (c01_pipeline_safe CAPTURE true F_CAPTURE CAPTURE_wf classify_capture). Qed.
Example c01_pipeline_safe_instance_eapol : pipeline_conclusion F_EAPOL2.
Proof. exact (c01_pipeline_safe EAPOL2 false F_EAPOL2 EAPOL2_wf classify_eapol2). Qed.

(* what the beacon parser returns for the beacon: addresses, SSID in the 33-octet buffer, channel,
   encryption flags from the privacy bit and the RSN element, decoded RSN, and its copy of the elements *)
Definition BSS_HOME : bss :=
  {| b_transmitter := AP; b_receiver := [255; 255; 255; 255; 255; 255]; b_bssid := AP;
     b_ssid := [104; 111; 109; 101] ++ repeat 0 29; b_hidden := 0; b_channel := 6; b_wps := 0;
     b_enc := 17184063752;
     b_wpa := wpa0;
     b_rsn := {| r_version := 1; r_group := ([0; 15; 172], 4); r_pairwise := [([0; 15; 172], 4)];
                 r_akms := [([0; 15; 172], 2)]; r_caps := 0 |};
     b_tags := TAGS |}.

Example c01_pipeline_safe_values :
  parse_beacon F_BEACON = Done (Ok BSS_HOME) /\
  parse_probe_resp F_BEACON = Done (Err (-22)) /\
  parse_probe_req F_BEACON = Done (Err (-22)) /\
  parse_deauth F_BEACON = Done (Err (-22)) /\
  parse_data F_BEACON = Err (-22) /\
  check_wpa_handshake F_BEACON = Done (Err (-22)) /\
  check_wpa_message F_BEACON = Done 16 /\                 (* HANDSHAKE_INVALID *)
  get_wpa_key_data_length F_BEACON = Done (-22) /\
  get_wpa_data F_BEACON = Done (Err (-22)).
Proof.
  destruct c01_pipeline_safe_instance as (H1 & H2 & _ & _ & H5 & _ & _ & H8 & _ & _ & H11 & H12 & H13 & H14).
  split; [value_of H1 |]. split; [value_of H2 |]. split; [value_of H5 |]. split; [value_of H8 |].
  split; [vm_compute; reflexivity |].
  split; [value_of H11 |]. split; [value_of1 H12 |]. split; [value_of1 H13 |]. value_of H14.
Qed.

(* behind the radiotap header the same beacon is decoded; the radiotap information is kept in the frame *)
Example c01_pipeline_safe_values_radiotap :
  parse_beacon F_CAPTURE = Done (Ok BSS_HOME) /\
  parse_assoc_resp F_CAPTURE = Done (Err (-22)) /\
  parse_disassoc F_CAPTURE = Done (Err (-22)) /\
  check_wpa_message F_CAPTURE = Done 16.
Proof.
  destruct c01_pipeline_safe_instance_radiotap as (H1 & _ & H3 & _ & _ & _ & _ & _ & H9 & _ & _ & H12 & _ & _).
  split; [value_of H1 |]. split; [value_of H3 |]. split; [value_of H9 |]. value_of1 H12.
Qed.

Definition WPA_MSG2 : wpa_data :=
  {| w_version := 1; w_type := 3; w_length := 117; w_descriptor := 2;
     w_information := 266; w_key_length := 16; w_replay := 1;
     w_nonce := SNONCE; w_iv := repeat 0 16; w_rsc := repeat 0 8; w_id := repeat 0 8; w_mic := MIC;
     w_key_data_length := 22; w_key_data := RSNIE |}.

Example c01_pipeline_safe_values_eapol :
  parse_beacon F_EAPOL2 = Done (Err (-22)) /\
  parse_reassoc_req F_EAPOL2 = Done (Err (-22)) /\
  parse_data F_EAPOL2 = Ok {| d_receiver := AP; d_transmitter := STA; d_body := LLC ++ KEYDESC ++ RSNIE;
                              d_body_len := 129 |} /\
  check_wpa_handshake F_EAPOL2 = Done (Ok 1) /\
  check_wpa_message F_EAPOL2 = Done 2 /\                  (* HANDSHAKE_M2 *)
  get_wpa_key_data_length F_EAPOL2 = Done 22 /\
  get_wpa_data F_EAPOL2 = Done (Ok WPA_MSG2).
Proof.
  destruct c01_pipeline_safe_instance_eapol as (H1 & _ & _ & _ & _ & _ & H7 & _ & _ & _ & H11 & H12 & H13 & H14).
  split; [value_of H1 |]. split; [value_of H7 |].
  split; [vm_compute; reflexivity |].
  split; [value_of H11 |]. split; [value_of1 H12 |]. split; [value_of1 H13 |]. value_of H14.
Qed.

(* ---------- c01_tag_iteration_safe ---------- *)
(* five elements, all reported *)
Example c01_tag_iteration_safe_instance_good :
  iterate (rd_strict TAGS) (zlen TAGS) =
  Done (Ok [ {| e_off := 0; e_num := 0; e_len := 4 |}; {| e_off := 6; e_num := 1; e_len := 4 |};
             {| e_off := 12; e_num := 3; e_len := 1 |}; {| e_off := 15; e_num := 48; e_len := 20 |};
             {| e_off := 37; e_num := 221; e_len := 6 |} ]).
Proof. assert (W : wfbytes TAGS) by wf. pose proof (c01_tag_iteration_safe TAGS W) as H. value_of H. Qed.
(* cut in the middle of the RSN element (its length octet promises 20, 9 are there): the walk stops
   before it without reading past the end *)
Definition TAGS_CUT : list byte := firstn 26 TAGS.
Example c01_tag_iteration_safe_instance_truncated :
  iterate (rd_strict TAGS_CUT) (zlen TAGS_CUT) =
  Done (Ok [ {| e_off := 0; e_num := 0; e_len := 4 |}; {| e_off := 6; e_num := 1; e_len := 4 |};
             {| e_off := 12; e_num := 3; e_len := 1 |} ]).
Proof. assert (W : wfbytes TAGS_CUT) by wf. pose proof (c01_tag_iteration_safe TAGS_CUT W) as H. value_of H. Qed.
(* the first element itself does not fit: negative error *)
Definition TAGS_BAD : list byte := [0; 32; 104; 111; 109; 101].
Example c01_tag_iteration_safe_instance_refused :
  iterate (rd_strict TAGS_BAD) (zlen TAGS_BAD) = Done (Err (-22)).
Proof. assert (W : wfbytes TAGS_BAD) by wf. pose proof (c01_tag_iteration_safe TAGS_BAD W) as H. value_of H. Qed.

(* ---------- c01_radiotap_safe ---------- *)
Example c01_radiotap_safe_instance_good :
  parse_radiotap_info (rd_strict CAPTURE) (zlen CAPTURE) = Done (Ok RTAP_INFO).
Proof. pose proof (c01_radiotap_safe CAPTURE CAPTURE_wf) as H. value_of H. Qed.
(* the length field says 64 but only the 24 header octets are supplied *)
Definition RTAP_OVERLONG : list byte := [0; 0; 64; 0] ++ skipn 4 RTAP.
Example c01_radiotap_safe_instance_overlong :
  zlen RTAP_OVERLONG = 24 /\ parse_radiotap_info (rd_strict RTAP_OVERLONG) (zlen RTAP_OVERLONG) = Done (Err (-22)).
Proof.
  split; [reflexivity |].
  assert (W : wfbytes RTAP_OVERLONG) by wf. pose proof (c01_radiotap_safe RTAP_OVERLONG W) as H. value_of H.
Qed.
(* the present word announces more fields (adds TIMESTAMP, bit 22, 12 octets aligned 8) than the declared
   24 octets hold: the iterator stops, the fields that fit are kept *)
Definition RTAP_GREEDY : list byte := [0; 0; 24; 0; 47; 8; 64; 0] ++ skipn 8 RTAP.
Example c01_radiotap_safe_instance_greedy :
  parse_radiotap_info (rd_strict RTAP_GREEDY) (zlen RTAP_GREEDY) = Done (Ok RTAP_INFO).
Proof. assert (W : wfbytes RTAP_GREEDY) by wf. pose proof (c01_radiotap_safe RTAP_GREEDY W) as H. value_of H. Qed.

(* ---------- c01_classify_safe ---------- *)
Definition ONE_BYTE : list byte := [128].
Example c01_classify_safe_instance_one_byte :
  get_wifi_frame (rd_strict ONE_BYTE) (zlen ONE_BYTE) false = Done (Err (-22)).
Proof. assert (W : wfbytes ONE_BYTE) by wf. pose proof (c01_classify_safe ONE_BYTE false W) as H. value_of H. Qed.
(* a beacon cut inside the third address *)
Definition BEACON_CUT : list byte := firstn 20 BEACON.
Example c01_classify_safe_instance_truncated_header :
  get_wifi_frame (rd_strict BEACON_CUT) (zlen BEACON_CUT) false = Done (Err (-22)).
Proof. assert (W : wfbytes BEACON_CUT) by wf. pose proof (c01_classify_safe BEACON_CUT false W) as H. value_of H. Qed.
(* radiotap header (FCS flag set) followed by only 3 octets: no room for the FCS *)
Definition CAPTURE_CUT : list byte := firstn 27 CAPTURE.
Example c01_classify_safe_instance_truncated_radiotap :
  get_wifi_frame (rd_strict CAPTURE_CUT) (zlen CAPTURE_CUT) true = Done (Err (-22)).
Proof. assert (W : wfbytes CAPTURE_CUT) by wf. pose proof (c01_classify_safe CAPTURE_CUT true W) as H. value_of H. Qed.
(* the whole beacon classified as a frame with a radiotap header: octet 0 = 128 is not version 0 *)
Example c01_classify_safe_instance_no_radiotap :
  get_wifi_frame (rd_strict BEACON) (zlen BEACON) true = Done (Err (-22)).
Proof. pose proof (c01_classify_safe BEACON true BEACON_wf) as H. value_of H. Qed.

(* ---------- c01_fcs_safe ---------- *)
Definition BEACON_WITH_FCS : list byte := BEACON ++ BEACON_FCS.
(* one bit of the SSID flipped ("home" -> "hoMe"), FCS unchanged *)
Definition BEACON_CORRUPT : list byte := firstn 40 BEACON ++ [77] ++ skipn 41 BEACON ++ BEACON_FCS.
Example c01_fcs_safe_instance_good :
  crc32 (rd_strict BEACON) (zlen BEACON) = Done 4077302302 /\                      (* 0xF306B21E *)
  le_dec BEACON_FCS = 4077302302 /\
  frame_verify (rd_strict BEACON_WITH_FCS) (zlen BEACON_WITH_FCS) = Done 1.
Proof.
  destruct (c01_fcs_safe BEACON BEACON_wf) as [Hc _].
  assert (W : wfbytes BEACON_WITH_FCS) by wf.
  destruct (c01_fcs_safe BEACON_WITH_FCS W) as [_ Hv].
  split; [value_of1 Hc |]. split; [reflexivity |]. value_of Hv.
Qed.
Example c01_fcs_safe_instance_corrupt :
  zlen BEACON_CORRUPT = 85 /\ frame_verify (rd_strict BEACON_CORRUPT) (zlen BEACON_CORRUPT) = Done 0.
Proof.
  split; [reflexivity |].
  assert (W : wfbytes BEACON_CORRUPT) by wf.
  destruct (c01_fcs_safe BEACON_CORRUPT W) as [_ Hv]. value_of Hv.
Qed.
(* fewer than four octets: nothing is read, the answer is 0 *)
Definition THREE_BYTES : list byte := [128; 0; 0].
Example c01_fcs_safe_instance_short :
  frame_verify (rd_strict THREE_BYTES) (zlen THREE_BYTES) = Done 0.
Proof. assert (W : wfbytes THREE_BYTES) by wf. destruct (c01_fcs_safe THREE_BYTES W) as [_ Hv]. value_of Hv. Qed.

(* ---------- c01_ie_decoders_safe ---------- *)
(* the element decoders handed byte ranges directly.  RD_NOTHING faults on every address *)
Definition RD_NOTHING : Z -> res byte := rd_strict [].
Definition RSN_THREE : list byte := [1; 0; 0].                              (* version and one octet of the group suite *)
Example c01_ie_decoders_safe_nonvacuous :
  (wfbytes RSN_THREE /\ agrees (rd_strict RSN_THREE) RSN_THREE) /\ (wfbytes [] /\ agrees RD_NOTHING []) /\
  (forall i, RD_NOTHING i = Fault OobRead i).
Proof.
  split; [split; [wf | apply agrees_strict]|]. split; [split; [constructor | apply agrees_strict]|].
  intros i. unfold RD_NOTHING, rd_strict. change (zlen []) with 0.
  destruct (0 <=? i) eqn:A; destruct (i <? 0) eqn:B; try reflexivity.
  apply Z.leb_le in A. apply Z.ltb_lt in B. exfalso. apply (Z.lt_irrefl 0). eapply Z.le_lt_trans; eassumption.
Qed.
(* three octets: refused (before the repair of F45 octets 3, 4, 5 behind the range were read) *)
Example c01_ie_decoders_safe_instance_three :
  get_rsn_info (rd_strict RSN_THREE) 0 (zlen RSN_THREE) = Done (Err (-22)) /\
  get_wpa_info (rd_strict RSN_THREE) 0 (zlen RSN_THREE) = Done (Err (-22)) /\
  handle_msft (rd_strict RSN_THREE) bss0 0 (zlen RSN_THREE) = Done (Err (-22)).
Proof.
  destruct c01_ie_decoders_safe_nonvacuous as [[W A] _].
  destruct (c01_ie_decoders_safe RSN_THREE _ W A) as [H1 [H2 H3]]. specialize (H3 bss0).
  split; [value_of H1|]. split; [value_of H2 | value_of H3].
Qed.
(* the empty range under the oracle that faults everywhere *)
Example c01_ie_decoders_safe_instance_empty :
  get_rsn_info RD_NOTHING 0 0 = Done (Err (-22)) /\ get_wpa_info RD_NOTHING 0 0 = Done (Err (-22)) /\
  handle_msft RD_NOTHING bss0 0 0 = Done (Err (-22)).
Proof.
  destruct c01_ie_decoders_safe_nonvacuous as [_ [[W A] _]].
  destruct (c01_ie_decoders_safe [] _ W A) as [H1 [H2 H3]]. specialize (H3 bss0).
  change (zlen []) with 0 in *.
  split; [value_of H1|]. split; [value_of H2 | value_of H3].
Qed.
(* an RSN body cut inside its pairwise list (count 1, two octets of the suite): refused, reads stay inside;
   the whole body decodes *)
Definition RSN_BODY : list byte := skipn 2 RSNIE.
Definition RSN_CUT : list byte := firstn 10 RSN_BODY.
Example c01_ie_decoders_safe_instance_cut_rsn :
  get_rsn_info (rd_strict RSN_CUT) 0 (zlen RSN_CUT) = Done (Err (-22)) /\
  get_rsn_info (rd_strict RSN_BODY) 0 (zlen RSN_BODY) =
    Done (Ok {| r_version := 1; r_group := ([0; 15; 172], 4); r_pairwise := [([0; 15; 172], 4)];
                r_akms := [([0; 15; 172], 2)]; r_caps := 0 |}) /\
  (* version + group suite only: the shortest element that decodes (F46) *)
  get_rsn_info (rd_strict (firstn 6 RSN_BODY)) 0 6 =
    Done (Ok {| r_version := 1; r_group := ([0; 15; 172], 4); r_pairwise := []; r_akms := []; r_caps := 0 |}).
Proof.
  assert (W1 : wfbytes RSN_CUT) by wf. assert (W2 : wfbytes RSN_BODY) by wf. assert (W3 : wfbytes (firstn 6 RSN_BODY)) by wf.
  destruct (c01_ie_decoders_safe RSN_CUT _ W1 (agrees_strict _)) as [H1 _].
  destruct (c01_ie_decoders_safe RSN_BODY _ W2 (agrees_strict _)) as [H2 _].
  destruct (c01_ie_decoders_safe (firstn 6 RSN_BODY) _ W3 (agrees_strict _)) as [H3 _].
  change (zlen (firstn 6 RSN_BODY)) with 6 in H3.
  split; [value_of H1|]. split; [value_of H2 | value_of H3].
Qed.
(* what follows the vendor header of a WPA element (version, TKIP multicast, one unicast suite promised, half of it
   present): refused; the Microsoft element handler on whole vendor bodies: a 3-octet body (no type octet) is refused,
   a WPS body sets the flag *)
Definition WPA_TAIL_CUT : list byte := [1; 0; 0; 80; 242; 2; 1; 0; 0; 80].
Definition MSFT_SHORT : list byte := [0; 80; 242].
Definition MSFT_WPS : list byte := [0; 80; 242; 4; 16; 74; 0; 1; 16].
Example c01_ie_decoders_safe_instance_wpa :
  get_wpa_info (rd_strict WPA_TAIL_CUT) 0 (zlen WPA_TAIL_CUT) = Done (Err (-22)).
Proof.
  assert (W : wfbytes WPA_TAIL_CUT) by wf.
  destruct (c01_ie_decoders_safe WPA_TAIL_CUT _ W (agrees_strict _)) as [_ [H _]]. value_of H.
Qed.
Example c01_ie_decoders_safe_instance_msft_short :
  handle_msft (rd_strict MSFT_SHORT) bss0 0 (zlen MSFT_SHORT) = Done (Err (-22)).
Proof.
  assert (W : wfbytes MSFT_SHORT) by wf.
  destruct (c01_ie_decoders_safe MSFT_SHORT _ W (agrees_strict _)) as [_ [_ H]]. specialize (H bss0). value_of H.
Qed.
Example c01_ie_decoders_safe_instance_msft_wps :
  exists b, handle_msft (rd_strict MSFT_WPS) bss0 0 (zlen MSFT_WPS) = Done (Ok b) /\ b_wps b = 1 /\ b_enc b = 0.
Proof.
  assert (W : wfbytes MSFT_WPS) by wf.
  destruct (c01_ie_decoders_safe MSFT_WPS _ W (agrees_strict _)) as [_ [_ H]]. specialize (H bss0).
  destruct H as [o [E _]]. rewrite E. vm_compute in E. injection E as <-.
  eexists. split; [reflexivity|]. split; reflexivity.
Qed.
(* no read at all on a range too short for the mandatory part: the model completes under the oracle that faults on
   every address; with the first length that passes the check the first read happens (and faults here) *)
Example c01_ie_decoders_no_read :
  (forall len, In len [0; 1; 2; 3; 4; 5] ->
     get_rsn_info RD_NOTHING 0 len = Done (Err (-22)) /\ get_wpa_info RD_NOTHING 0 len = Done (Err (-22))) /\
  (forall len, In len [0; 1; 2; 3] -> handle_msft RD_NOTHING bss0 0 len = Done (Err (-22))) /\
  get_rsn_info RD_NOTHING 0 6 = Fault OobRead 0 /\ get_wpa_info RD_NOTHING 0 6 = Fault OobRead 0 /\
  handle_msft RD_NOTHING bss0 0 4 = Fault OobRead 3.
Proof.
  split; [|split; [|split; [|split]]]; try (vm_compute; reflexivity).
  - intros len H. cbn [In] in H.
    repeat (destruct H as [<-|H]; [split; vm_compute; reflexivity|]). contradiction.
  - intros len H. cbn [In] in H.
    repeat (destruct H as [<-|H]; [vm_compute; reflexivity|]). contradiction.
Qed.
