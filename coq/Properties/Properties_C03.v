(* C03 - generated frames are byte-exact 802.11 encodings of their arguments.  Statements only. *)
From LW Require Import Base.Bytes Model.TagIter Spec.TagSpec Model.Tags Model.Gen Spec.GenSpec Proofs.GenProofs.
Local Open Scope Z_scope.

(* appended tags, in order, up to the one-octet limits of each element *)
Definition with_extras (g : gobj) (extras : list tag) : gobj :=
  fold_left (fun g e => g_add g (fst e) (snd e)) extras g.
(* dump gives exactly `bytes` for every buffer size >= their length and is refused below; the reported
   length is their length *)
Definition dumps_exactly (g : gobj) (bytes : list byte) : Prop :=
  g_length g = zlen bytes /\
  forall n, g_dump g n = if n <? zlen bytes then Err (- EINVAL) else Ok bytes.

Theorem c03_beacon : forall a1 a2 a3 ssid ch now extras,
  mac_ok a1 -> mac_ok a2 -> mac_ok a3 -> ssid_ok ssid -> u8 ch -> 0 <= now < 2 ^ 64 -> wf_tags extras ->
  dumps_exactly (with_extras (create_beacon a1 a2 a3 ssid ch now) extras) (s_beacon a1 a2 a3 ssid ch now extras).
Proof. exact beacon_exact. Qed.
Print Assumptions c03_beacon.

Theorem c03_probe_resp : forall a1 a2 a3 ssid ch now extras,
  mac_ok a1 -> mac_ok a2 -> mac_ok a3 -> ssid_ok ssid -> u8 ch -> 0 <= now < 2 ^ 64 -> wf_tags extras ->
  dumps_exactly (with_extras (create_probe_resp a1 a2 a3 ssid ch now) extras) (s_probe_resp a1 a2 a3 ssid ch now extras).
Proof. exact probe_resp_exact. Qed.
Print Assumptions c03_probe_resp.

Theorem c03_probe_req : forall a1 a2 a3 ssid ch extras,
  mac_ok a1 -> mac_ok a2 -> mac_ok a3 -> ssid_ok ssid -> u8 ch -> wf_tags extras ->
  dumps_exactly (with_extras (create_probe_req a1 a2 a3 ssid ch) extras) (s_probe_req a1 a2 a3 ssid ch extras).
Proof. exact probe_req_exact. Qed.
Print Assumptions c03_probe_req.

Theorem c03_assoc_req : forall a1 a2 a3 ssid ch extras,
  mac_ok a1 -> mac_ok a2 -> mac_ok a3 -> ssid_ok ssid -> u8 ch -> wf_tags extras ->
  dumps_exactly (with_extras (create_assoc_req a1 a2 a3 ssid ch) extras) (s_assoc_req a1 a2 a3 ssid ch extras).
Proof. exact assoc_req_exact. Qed.
Print Assumptions c03_assoc_req.

Theorem c03_reassoc_req : forall a1 a2 a3 ap ssid ch extras,
  mac_ok a1 -> mac_ok a2 -> mac_ok a3 -> mac_ok ap -> ssid_ok ssid -> u8 ch -> wf_tags extras ->
  dumps_exactly (with_extras (create_reassoc_req a1 a2 a3 ap ssid ch) extras) (s_reassoc_req a1 a2 a3 ap ssid ch extras).
Proof. exact reassoc_req_exact. Qed.
Print Assumptions c03_reassoc_req.

Theorem c03_assoc_resp : forall a1 a2 a3 ch extras,
  mac_ok a1 -> mac_ok a2 -> mac_ok a3 -> u8 ch -> wf_tags extras ->
  dumps_exactly (with_extras (create_assoc_resp a1 a2 a3 ch) extras) (s_assoc_resp a1 a2 a3 ch extras).
Proof. exact assoc_resp_exact. Qed.
Print Assumptions c03_assoc_resp.

Theorem c03_reassoc_resp : forall a1 a2 a3 ch extras,
  mac_ok a1 -> mac_ok a2 -> mac_ok a3 -> u8 ch -> wf_tags extras ->
  dumps_exactly (with_extras (create_reassoc_resp a1 a2 a3 ch) extras) (s_reassoc_resp a1 a2 a3 ch extras).
Proof. exact reassoc_resp_exact. Qed.
Print Assumptions c03_reassoc_resp.

Theorem c03_auth : forall a1 a2 a3 algo seq status extras,
  mac_ok a1 -> mac_ok a2 -> mac_ok a3 -> u16 algo -> u16 seq -> u16 status -> wf_tags extras ->
  dumps_exactly (with_extras (create_auth a1 a2 a3 algo seq status) extras) (s_auth a1 a2 a3 algo seq status extras).
Proof. exact auth_exact. Qed.
Print Assumptions c03_auth.

Theorem c03_deauth : forall a1 a2 a3 reason extras,
  mac_ok a1 -> mac_ok a2 -> mac_ok a3 -> u16 reason -> wf_tags extras ->
  dumps_exactly (with_extras (create_deauth a1 a2 a3 reason) extras) (s_deauth a1 a2 a3 reason extras).
Proof. exact deauth_exact. Qed.
Print Assumptions c03_deauth.

Theorem c03_disassoc : forall a1 a2 a3 reason extras,
  mac_ok a1 -> mac_ok a2 -> mac_ok a3 -> u16 reason -> wf_tags extras ->
  dumps_exactly (with_extras (create_disassoc a1 a2 a3 reason) extras) (s_disassoc a1 a2 a3 reason extras).
Proof. exact disassoc_exact. Qed.
Print Assumptions c03_disassoc.

Theorem c03_timing_advert : forall a1 a2 a3 cap tv te tu country max_reg max_tx tx_used noise now extras,
  mac_ok a1 -> mac_ok a2 -> mac_ok a3 -> u8 cap -> zlen tv = 10 -> wfbytes tv -> zlen te = 5 -> wfbytes te ->
  zlen tu = 1 -> wfbytes tu -> zlen country = 3 -> wfbytes country -> u16 max_reg -> u8 max_tx -> u8 tx_used -> u8 noise ->
  0 <= now < 2 ^ 64 -> wf_tags extras ->
  dumps_exactly (with_extras (create_timing_advert a1 a2 a3 cap tv te tu country max_reg max_tx tx_used noise now) extras)
                (s_timing_advert a1 a2 a3 cap tv te tu country max_reg max_tx tx_used noise now extras).
Proof. exact timing_advert_exact. Qed.
Print Assumptions c03_timing_advert.

(* action / action-no-ack: category octet then the details in the order they were added, as long as the
   running detail length fits its one-octet counter *)
Theorem c03_action : forall noack a1 a2 a3 category details,
  mac_ok a1 -> mac_ok a2 -> mac_ok a3 -> u8 category -> Forall wfbytes details -> zlen (concat details) <= 255 ->
  let a := fold_left (fun a d => fst (add_action_detail a d)) details (create_action noack a1 a2 a3 category) in
  a_length a = zlen (s_action noack a1 a2 a3 category details) /\
  forall n, a_dump a n = if n <? zlen (s_action noack a1 a2 a3 category details) then Err (- EINVAL)
                         else Ok (s_action noack a1 a2 a3 category details).
Proof. exact action_exact. Qed.
Print Assumptions c03_action.

(* RTS, CTS and ATIM objects are byte-exact in their in-memory form *)
Theorem c03_images : forall a1 a2 a3 duration, mac_ok a1 -> mac_ok a2 -> mac_ok a3 -> u16 duration ->
  create_atim a1 a2 a3 = s_atim a1 a2 a3 /\ create_rts a1 a2 duration = s_rts a1 a2 duration /\
  create_cts a1 duration = s_cts a1 duration.
Proof. exact images_exact. Qed.
Print Assumptions c03_images.

(* ---- statements about the C code AS TRANSLATED on this run (Gen/Sites.v: every guard, declaration, conversion and call argument with the
   types clang computed; tools/sites.py), for every memory m and every environment: tie #1 extended from constants to arithmetic and
   control flow.  Vocabulary in Spec/CodeSpec.v, evaluator and interpreter in Base/CExpr.v, proofs in Proofs/SitesMisc.v. ---- *)
From Coq Require Import String.
From LW Require Import Base.CExpr Gen.Sites Spec.CodeSpec Proofs.SitesMisc.
Local Open Scope string_scope.
Local Open Scope Z_scope.


Theorem c03_code_length_routines : forall m ,
  length_site_ok m sites_libwifi_get_beacon_length "beacon->tags.length" (2 ^ 63) (24 + 12) /\
  length_site_ok m sites_libwifi_get_probe_req_length "probe_req->tags.length" (2 ^ 63) 24 /\
  length_site_ok m sites_libwifi_get_probe_resp_length "probe_resp->tags.length" (2 ^ 63) (24 + 12) /\
  length_site_ok m sites_libwifi_get_assoc_req_length "assoc_req->tags.length" (2 ^ 63) (24 + 4) /\
  length_site_ok m sites_libwifi_get_assoc_resp_length "assoc_resp->tags.length" (2 ^ 63) (24 + 6) /\
  length_site_ok m sites_libwifi_get_reassoc_req_length "reassoc_req->tags.length" (2 ^ 63) (24 + 10) /\
  length_site_ok m sites_libwifi_get_reassoc_resp_length "reassoc_resp->tags.length" (2 ^ 63) (24 + 6) /\
  length_site_ok m sites_libwifi_get_auth_length "auth->tags.length" (2 ^ 63) (24 + 6) /\
  length_site_ok m sites_libwifi_get_deauth_length "deauth->tags.length" (2 ^ 63) (24 + 2) /\
  length_site_ok m sites_libwifi_get_disassoc_length "disassoc->tags.length" (2 ^ 63) (24 + 2) /\
  length_site_ok m sites_libwifi_get_timing_advert_length "adv->tags.length" (2 ^ 63) (24 + 21) /\
  length_site_ok m sites_libwifi_get_action_length "action->fixed_parameters.details.detail_length" 256 (24 + 1).
Proof. exact code_length_routines. Qed.
Print Assumptions c03_code_length_routines.
