(* C03 - generated frames are byte-exact 802.11 encodings of their arguments.  Statements only. *)
From LW Require Import Base.Bytes Model.TagIter Spec.TagSpec Model.Tags Model.Gen Spec.GenSpec Proofs.GenProofs.
Local Open Scope Z_scope.

(* appended tags, in order, up to the one-octet limits of each element *)
Definition with_extras (g : gobj) (extras : list tag) : gobj :=
  fold_left (fun g e => g_add g (fst e) (snd e)) extras g.
(* dump gives exactly `bytes` for every buffer size >= their length and is refused below; the reported
   length is their length *)
Definition dumps_exactly (g : gobj) (bytes : list byte) : Prop :=
  g_length g = zlen bytes /\
  forall n, g_dump g n = if n <? zlen bytes then Err (- EINVAL) else Ok bytes.

Theorem c03_beacon : forall a1 a2 a3 ssid ch now extras,
  mac_ok a1 -> mac_ok a2 -> mac_ok a3 -> ssid_ok ssid -> u8 ch -> 0 <= now < 2 ^ 64 -> wf_tags extras ->
  dumps_exactly (with_extras (create_beacon a1 a2 a3 ssid ch now) extras) (s_beacon a1 a2 a3 ssid ch now extras).
Proof. exact beacon_exact. Qed.
Print Assumptions c03_beacon.

Theorem c03_probe_resp : forall a1 a2 a3 ssid ch now extras,
  mac_ok a1 -> mac_ok a2 -> mac_ok a3 -> ssid_ok ssid -> u8 ch -> 0 <= now < 2 ^ 64 -> wf_tags extras ->
  dumps_exactly (with_extras (create_probe_resp a1 a2 a3 ssid ch now) extras) (s_probe_resp a1 a2 a3 ssid ch now extras).
Proof. exact probe_resp_exact. Qed.
Print Assumptions c03_probe_resp.

Theorem c03_probe_req : forall a1 a2 a3 ssid ch extras,
  mac_ok a1 -> mac_ok a2 -> mac_ok a3 -> ssid_ok ssid -> u8 ch -> wf_tags extras ->
  dumps_exactly (with_extras (create_probe_req a1 a2 a3 ssid ch) extras) (s_probe_req a1 a2 a3 ssid ch extras).
Proof. exact probe_req_exact. Qed.
Print Assumptions c03_probe_req.

Theorem c03_assoc_req : forall a1 a2 a3 ssid ch extras,
  mac_ok a1 -> mac_ok a2 -> mac_ok a3 -> ssid_ok ssid -> u8 ch -> wf_tags extras ->
  dumps_exactly (with_extras (create_assoc_req a1 a2 a3 ssid ch) extras) (s_assoc_req a1 a2 a3 ssid ch extras).
Proof. exact assoc_req_exact. Qed.
Print Assumptions c03_assoc_req.

Theorem c03_reassoc_req : forall a1 a2 a3 ap ssid ch extras,
  mac_ok a1 -> mac_ok a2 -> mac_ok a3 -> mac_ok ap -> ssid_ok ssid -> u8 ch -> wf_tags extras ->
  dumps_exactly (with_extras (create_reassoc_req a1 a2 a3 ap ssid ch) extras) (s_reassoc_req a1 a2 a3 ap ssid ch extras).
Proof. exact reassoc_req_exact. Qed.
Print Assumptions c03_reassoc_req.

Theorem c03_assoc_resp : forall a1 a2 a3 ch extras,
  mac_ok a1 -> mac_ok a2 -> mac_ok a3 -> u8 ch -> wf_tags extras ->
  dumps_exactly (with_extras (create_assoc_resp a1 a2 a3 ch) extras) (s_assoc_resp a1 a2 a3 ch extras).
Proof. exact assoc_resp_exact. Qed.
Print Assumptions c03_assoc_resp.

Theorem c03_reassoc_resp : forall a1 a2 a3 ch extras,
  mac_ok a1 -> mac_ok a2 -> mac_ok a3 -> u8 ch -> wf_tags extras ->
  dumps_exactly (with_extras (create_reassoc_resp a1 a2 a3 ch) extras) (s_reassoc_resp a1 a2 a3 ch extras).
Proof. exact reassoc_resp_exact. Qed.
Print Assumptions c03_reassoc_resp.

Theorem c03_auth : forall a1 a2 a3 algo seq status extras,
  mac_ok a1 -> mac_ok a2 -> mac_ok a3 -> u16 algo -> u16 seq -> u16 status -> wf_tags extras ->
  dumps_exactly (with_extras (create_auth a1 a2 a3 algo seq status) extras) (s_auth a1 a2 a3 algo seq status extras).
Proof. exact auth_exact. Qed.
Print Assumptions c03_auth.

Theorem c03_deauth : forall a1 a2 a3 reason extras,
  mac_ok a1 -> mac_ok a2 -> mac_ok a3 -> u16 reason -> wf_tags extras ->
  dumps_exactly (with_extras (create_deauth a1 a2 a3 reason) extras) (s_deauth a1 a2 a3 reason extras).
Proof. exact deauth_exact. Qed.
Print Assumptions c03_deauth.

Theorem c03_disassoc : forall a1 a2 a3 reason extras,
  mac_ok a1 -> mac_ok a2 -> mac_ok a3 -> u16 reason -> wf_tags extras ->
  dumps_exactly (with_extras (create_disassoc a1 a2 a3 reason) extras) (s_disassoc a1 a2 a3 reason extras).
Proof. exact disassoc_exact. Qed.
Print Assumptions c03_disassoc.

Theorem c03_timing_advert : forall a1 a2 a3 cap tv te tu country max_reg max_tx tx_used noise now extras,
  mac_ok a1 -> mac_ok a2 -> mac_ok a3 -> u8 cap -> zlen tv = 10 -> wfbytes tv -> zlen te = 5 -> wfbytes te ->
  zlen tu = 1 -> wfbytes tu -> zlen country = 3 -> wfbytes country -> u16 max_reg -> u8 max_tx -> u8 tx_used -> u8 noise ->
  0 <= now < 2 ^ 64 -> wf_tags extras ->
  dumps_exactly (with_extras (create_timing_advert a1 a2 a3 cap tv te tu country max_reg max_tx tx_used noise now) extras)
                (s_timing_advert a1 a2 a3 cap tv te tu country max_reg max_tx tx_used noise now extras).
Proof. exact timing_advert_exact. Qed.
Print Assumptions c03_timing_advert.

(* action / action-no-ack: category octet then the details in the order they were added, as long as the
   running detail length fits its one-octet counter *)
Theorem c03_action : forall noack a1 a2 a3 category details,
  mac_ok a1 -> mac_ok a2 -> mac_ok a3 -> u8 category -> Forall wfbytes details -> zlen (concat details) <= 255 ->
  let a := fold_left (fun a d => fst (add_action_detail a d)) details (create_action noack a1 a2 a3 category) in
  a_length a = zlen (s_action noack a1 a2 a3 category details) /\
  forall n, a_dump a n = if n <? zlen (s_action noack a1 a2 a3 category details) then Err (- EINVAL)
                         else Ok (s_action noack a1 a2 a3 category details).
Proof. exact action_exact. Qed.
Print Assumptions c03_action.

(* RTS, CTS and ATIM objects are byte-exact in their in-memory form *)
Theorem c03_images : forall a1 a2 a3 duration, mac_ok a1 -> mac_ok a2 -> mac_ok a3 -> u16 duration ->
  create_atim a1 a2 a3 = s_atim a1 a2 a3 /\ create_rts a1 a2 duration = s_rts a1 a2 duration /\
  create_cts a1 duration = s_cts a1 duration.
Proof. exact images_exact. Qed.
Print Assumptions c03_images.

(* ---- statements about the C code AS TRANSLATED on this run (Gen/Sites.v: every guard, declaration, conversion and call argument with the
   types clang computed; tools/sites.py), for every memory m and every environment: tie #1 extended from constants to arithmetic and
   control flow.  Vocabulary in Spec/CodeSpec.v, evaluator and interpreter in Base/CExpr.v, proofs in Proofs/SitesMisc.v. ---- *)
From Coq Require Import String.
From LW Require Import Base.CExpr Gen.Sites Spec.CodeSpec Proofs.SitesMisc.
Local Open Scope string_scope.
Local Open Scope Z_scope.


Theorem c03_code_length_routines : forall m ,
  length_site_ok m sites_libwifi_get_beacon_length "beacon->tags.length" (2 ^ 63) (24 + 12) /\
  length_site_ok m sites_libwifi_get_probe_req_length "probe_req->tags.length" (2 ^ 63) 24 /\
  length_site_ok m sites_libwifi_get_probe_resp_length "probe_resp->tags.length" (2 ^ 63) (24 + 12) /\
  length_site_ok m sites_libwifi_get_assoc_req_length "assoc_req->tags.length" (2 ^ 63) (24 + 4) /\
  length_site_ok m sites_libwifi_get_assoc_resp_length "assoc_resp->tags.length" (2 ^ 63) (24 + 6) /\
  length_site_ok m sites_libwifi_get_reassoc_req_length "reassoc_req->tags.length" (2 ^ 63) (24 + 10) /\
  length_site_ok m sites_libwifi_get_reassoc_resp_length "reassoc_resp->tags.length" (2 ^ 63) (24 + 6) /\
  length_site_ok m sites_libwifi_get_auth_length "auth->tags.length" (2 ^ 63) (24 + 6) /\
  length_site_ok m sites_libwifi_get_deauth_length "deauth->tags.length" (2 ^ 63) (24 + 2) /\
  length_site_ok m sites_libwifi_get_disassoc_length "disassoc->tags.length" (2 ^ 63) (24 + 2) /\
  length_site_ok m sites_libwifi_get_timing_advert_length "adv->tags.length" (2 ^ 63) (24 + 21) /\
  length_site_ok m sites_libwifi_get_action_length "action->fixed_parameters.details.detail_length" 256 (24 + 1).
Proof. exact code_length_routines. Qed.
Print Assumptions c03_code_length_routines.

(* ---- the libwifi_create_* generators AS TRANSLATED (Gen/Sites.v), for EVERY environment (nothing assumed about the prior contents of the object: the translated memset of the
   whole object zeroes it) and every argument value: the first call is memset(obj, 0, sizeof obj) with the size of Gen/Layout.v; type and subtype are the header's enumerators; the three
   addresses are copied into addr1, addr2, addr3 from the stated arguments; every assigned fixed parameter is its argument or the documented default; every other member reads 0; the
   tag-carrying ones add SSID (strlen octets), DS parameter (1 octet), rates in that order and return the first non-zero answer at once.  mgmt_events, ev_add_tag, reads_zero,
   untouched ... are defined in Proofs/CodeGen.v. ---- *)
From Coq Require Import String.
From LW Require Import Base.CExpr Gen.Sites Gen.Consts Gen.Layout Spec.CodeSpec Proofs.CodeGen.
Local Open Scope string_scope.
Local Open Scope Z_scope.

Theorem c03_code_create_action : forall m rho cat,
  0 <= cat < 256 ->
  let rho0 := upd rho "category" cat in
  exists rho',
    exec 40 m rho0 [] body_libwifi_create_action =
      Returned (Some 0) rho' (mgmt_events rho "action" sizeof_libwifi_action "receiver" "transmitter" "address3") /\
    rho' "action->frame_header.frame_control.type" = c_TYPE_MANAGEMENT /\
    rho' "action->frame_header.frame_control.subtype" = c_SUBTYPE_ACTION /\
    rho' "action->fixed_parameters.category" = cat /\
    rho' "action->fixed_parameters.details.detail_length" = 0 /\
    rho' "action->fixed_parameters.details.detail" = 0 /\
    reads_zero rho' "action->frame_header." mgmt_rest /\
    untouched "action->"
      ["action->frame_header.frame_control.type"; "action->frame_header.frame_control.subtype"; "action->fixed_parameters.category"]
      ["action->frame_header.addr1"; "action->frame_header.addr2"; "action->frame_header.addr3"] rho'.
Proof. exact code_create_action. Qed.
Print Assumptions c03_code_create_action.

Theorem c03_code_create_action_no_ack : forall m rho cat,
  0 <= cat < 256 ->
  let rho0 := upd rho "category" cat in
  exists rho',
    exec 40 m rho0 [] body_libwifi_create_action_no_ack =
      Returned (Some 0) rho' (mgmt_events rho "action" sizeof_libwifi_action "receiver" "transmitter" "address3") /\
    rho' "action->frame_header.frame_control.type" = c_TYPE_MANAGEMENT /\
    rho' "action->frame_header.frame_control.subtype" = c_SUBTYPE_ACTION_NOACK /\
    rho' "action->fixed_parameters.category" = cat /\
    rho' "action->fixed_parameters.details.detail_length" = 0 /\
    rho' "action->fixed_parameters.details.detail" = 0 /\
    reads_zero rho' "action->frame_header." mgmt_rest /\
    untouched "action->"
      ["action->frame_header.frame_control.type"; "action->frame_header.frame_control.subtype"; "action->fixed_parameters.category"]
      ["action->frame_header.addr1"; "action->frame_header.addr2"; "action->frame_header.addr3"] rho'.
Proof. exact code_create_action_no_ack. Qed.
Print Assumptions c03_code_create_action_no_ack.

Theorem c03_code_create_atim : forall m rho,
  exists rho',
    exec 40 m rho [] body_libwifi_create_atim =
      Returned (Some 0) rho' (mgmt_events rho "atim" sizeof_libwifi_atim "transmitter" "receiver" "address3") /\
    rho' "atim->frame_header.frame_control.type" = c_TYPE_MANAGEMENT /\
    rho' "atim->frame_header.frame_control.subtype" = c_SUBTYPE_ATIM /\
    reads_zero rho' "atim->frame_header." mgmt_rest /\
    untouched "atim->"
      ["atim->frame_header.frame_control.type"; "atim->frame_header.frame_control.subtype"]
      ["atim->frame_header.addr1"; "atim->frame_header.addr2"; "atim->frame_header.addr3"] rho'.
Proof. exact code_create_atim. Qed.
Print Assumptions c03_code_create_atim.

Theorem c03_code_create_auth : forall m rho alg seq st,
  0 <= alg < 65536 -> 0 <= seq < 65536 -> 0 <= st < 65536 ->
  let rho0 := upd (upd (upd rho "algorithm_number" alg) "transaction_sequence" seq) "status_code" st in
  exists rho',
    exec 40 m rho0 [] body_libwifi_create_auth =
      Returned (Some 0) rho' (mgmt_events rho "auth" sizeof_libwifi_auth "receiver" "transmitter" "address3") /\
    rho' "auth->frame_header.frame_control.type" = c_TYPE_MANAGEMENT /\
    rho' "auth->frame_header.frame_control.subtype" = c_SUBTYPE_AUTH /\
    rho' "auth->fixed_parameters.algorithm_number" = alg /\
    rho' "auth->fixed_parameters.transaction_sequence" = seq /\
    rho' "auth->fixed_parameters.status_code" = st /\
    rho' "auth->tags.length" = 0 /\ rho' "auth->tags.parameters" = 0 /\
    reads_zero rho' "auth->frame_header." mgmt_rest /\
    untouched "auth->"
      ["auth->frame_header.frame_control.type"; "auth->frame_header.frame_control.subtype";
       "auth->fixed_parameters.algorithm_number"; "auth->fixed_parameters.transaction_sequence"; "auth->fixed_parameters.status_code"]
      ["auth->frame_header.addr1"; "auth->frame_header.addr2"; "auth->frame_header.addr3"] rho'.
Proof. exact code_create_auth. Qed.
Print Assumptions c03_code_create_auth.

Theorem c03_code_create_deauth : forall m rho reason,
  0 <= reason < 65536 ->
  let rho0 := upd rho "reason_code" reason in
  exists rho',
    exec 40 m rho0 [] body_libwifi_create_deauth =
      Returned (Some 0) rho'
        (mgmt_events rho "deauth" sizeof_libwifi_deauth "receiver" "transmitter" "address3" ++
         [ev_memcpy rho "&deauth->fixed_parameters.reason_code" "&reason_code" 2]) /\
    rho' "deauth->frame_header.frame_control.type" = c_TYPE_MANAGEMENT /\
    rho' "deauth->frame_header.frame_control.subtype" = c_SUBTYPE_DEAUTH /\
    rho' "deauth->fixed_parameters.reason_code" = reason /\
    rho' "deauth->tags.length" = 0 /\ rho' "deauth->tags.parameters" = 0 /\
    reads_zero rho' "deauth->frame_header." mgmt_rest /\
    untouched "deauth->"
      ["deauth->frame_header.frame_control.type"; "deauth->frame_header.frame_control.subtype"; "deauth->fixed_parameters.reason_code"]
      ["deauth->frame_header.addr1"; "deauth->frame_header.addr2"; "deauth->frame_header.addr3"] rho'.
Proof. exact code_create_deauth. Qed.
Print Assumptions c03_code_create_deauth.

Theorem c03_code_create_disassoc : forall m rho reason,
  0 <= reason < 65536 ->
  let rho0 := upd rho "reason_code" reason in
  exists rho',
    exec 40 m rho0 [] body_libwifi_create_disassoc =
      Returned (Some 0) rho'
        (mgmt_events rho "disassoc" sizeof_libwifi_disassoc "receiver" "transmitter" "address3" ++
         [ev_memcpy rho "&disassoc->fixed_parameters.reason_code" "&reason_code" 2]) /\
    rho' "disassoc->frame_header.frame_control.type" = c_TYPE_MANAGEMENT /\
    rho' "disassoc->frame_header.frame_control.subtype" = c_SUBTYPE_DISASSOC /\
    rho' "disassoc->fixed_parameters.reason_code" = reason /\
    rho' "disassoc->tags.length" = 0 /\ rho' "disassoc->tags.parameters" = 0 /\
    reads_zero rho' "disassoc->frame_header." mgmt_rest /\
    untouched "disassoc->"
      ["disassoc->frame_header.frame_control.type"; "disassoc->frame_header.frame_control.subtype";
       "disassoc->fixed_parameters.reason_code"]
      ["disassoc->frame_header.addr1"; "disassoc->frame_header.addr2"; "disassoc->frame_header.addr3"] rho'.
Proof. exact code_create_disassoc. Qed.
Print Assumptions c03_code_create_disassoc.

Theorem c03_code_create_rts : forall m rho dur,
  0 <= dur < 65536 ->
  let rho0 := upd rho "duration" dur in
  exists rho',
    exec 40 m rho0 [] body_libwifi_create_rts =
      Returned (Some 0) rho'
        [ev_memset rho "rts" sizeof_libwifi_rts;
         ev_memcpy rho "&rts->transmitter_addr" "transmitter" 6;
         ev_memcpy rho "&rts->receiver_addr" "receiver" 6] /\
    rho' "rts->frame_header.frame_control.type" = c_TYPE_CONTROL /\
    rho' "rts->frame_header.frame_control.subtype" = c_SUBTYPE_RTS /\
    rho' "rts->frame_header.duration" = dur /\
    reads_zero rho' "rts->frame_header." ctrl_rest /\
    untouched "rts->"
      ["rts->frame_header.frame_control.type"; "rts->frame_header.frame_control.subtype"; "rts->frame_header.duration"]
      ["rts->transmitter_addr"; "rts->receiver_addr"] rho'.
Proof. exact code_create_rts. Qed.
Print Assumptions c03_code_create_rts.

Theorem c03_code_create_cts : forall m rho dur,
  0 <= dur < 65536 ->
  let rho0 := upd rho "duration" dur in
  exists rho',
    exec 40 m rho0 [] body_libwifi_create_cts =
      Returned (Some 0) rho'
        [ev_memset rho "cts" sizeof_libwifi_cts; ev_memcpy rho "&cts->receiver_addr" "receiver" 6] /\
    rho' "cts->frame_header.frame_control.type" = c_TYPE_CONTROL /\
    rho' "cts->frame_header.frame_control.subtype" = c_SUBTYPE_CTS /\
    rho' "cts->frame_header.duration" = dur /\
    reads_zero rho' "cts->frame_header." ctrl_rest /\
    untouched "cts->"
      ["cts->frame_header.frame_control.type"; "cts->frame_header.frame_control.subtype"; "cts->frame_header.duration"]
      ["cts->receiver_addr"] rho'.
Proof. exact code_create_cts. Qed.
Print Assumptions c03_code_create_cts.

Theorem c03_code_create_assoc_req : forall m rho n r,
  0 <= n < 2 ^ 64 -> - 2 ^ 31 <= r < 2 ^ 31 ->
  let rho0 := upd (upd rho "ret:strlen" n) "ret:libwifi_quick_add_tag" r in
  exists rho',
    exec 40 m rho0 [] body_libwifi_create_assoc_req =
      Returned (Some r) rho'
        (mgmt_events rho "assoc_req" sizeof_libwifi_assoc_req "receiver" "transmitter" "address3" ++
         [("strlen", [wrap u64 (rho "ssid")]); ev_add_tag rho "&assoc_req->tags" c_TAG_SSID "ssid" n] ++
         (if r =? 0 then [ev_add_tag rho "&assoc_req->tags" c_TAG_DS_PARAMETER "&channel" 1] else [])) /\
    rho' "assoc_req->frame_header.frame_control.type" = c_TYPE_MANAGEMENT /\
    rho' "assoc_req->frame_header.frame_control.subtype" = c_SUBTYPE_ASSOC_REQ /\
    rho' "assoc_req->fixed_parameters.capabilities_information" = c_LIBWIFI_DEFAULT_AP_CAPABS /\
    rho' "assoc_req->fixed_parameters.listen_interval" = c_LIBWIFI_DEFAULT_LISTEN_INTERVAL /\
    reads_zero rho' "assoc_req->frame_header." mgmt_rest /\
    untouched "assoc_req->"
      ["assoc_req->frame_header.frame_control.type"; "assoc_req->frame_header.frame_control.subtype";
       "assoc_req->fixed_parameters.capabilities_information"; "assoc_req->fixed_parameters.listen_interval"]
      ["assoc_req->frame_header.addr1"; "assoc_req->frame_header.addr2"; "assoc_req->frame_header.addr3"; "assoc_req->tags"] rho'.
Proof. exact code_create_assoc_req. Qed.
Print Assumptions c03_code_create_assoc_req.

Theorem c03_code_create_probe_req : forall m rho n r,
  0 <= n < 2 ^ 64 -> - 2 ^ 31 <= r < 2 ^ 31 ->
  let rho0 := upd (upd rho "ret:strlen" n) "ret:libwifi_quick_add_tag" r in
  exists rho',
    exec 40 m rho0 [] body_libwifi_create_probe_req =
      Returned (Some r) rho'
        (mgmt_events rho "probe_req" sizeof_libwifi_probe_req "receiver" "transmitter" "address3" ++
         [("strlen", [wrap u64 (rho "ssid")]); ev_add_tag rho "&probe_req->tags" c_TAG_SSID "ssid" n] ++
         (if r =? 0 then [ev_add_tag rho "&probe_req->tags" c_TAG_DS_PARAMETER "&channel" 1] else [])) /\
    rho' "probe_req->frame_header.frame_control.type" = c_TYPE_MANAGEMENT /\
    rho' "probe_req->frame_header.frame_control.subtype" = c_SUBTYPE_PROBE_REQ /\
    reads_zero rho' "probe_req->frame_header." mgmt_rest /\
    untouched "probe_req->"
      ["probe_req->frame_header.frame_control.type"; "probe_req->frame_header.frame_control.subtype"]
      ["probe_req->frame_header.addr1"; "probe_req->frame_header.addr2"; "probe_req->frame_header.addr3"; "probe_req->tags"] rho'.
Proof. exact code_create_probe_req. Qed.
Print Assumptions c03_code_create_probe_req.

Theorem c03_code_create_reassoc_req : forall m rho n r,
  0 <= n < 2 ^ 64 -> - 2 ^ 31 <= r < 2 ^ 31 ->
  let rho0 := upd (upd rho "ret:strlen" n) "ret:libwifi_quick_add_tag" r in
  exists rho',
    exec 40 m rho0 [] body_libwifi_create_reassoc_req =
      Returned (Some r) rho'
        (mgmt_events rho "reassoc_req" sizeof_libwifi_reassoc_req "receiver" "transmitter" "address3" ++
         [ev_memcpy rho "&reassoc_req->fixed_parameters.current_ap_address" "current_ap" 6;
          ("strlen", [wrap u64 (rho "ssid")]); ev_add_tag rho "&reassoc_req->tags" c_TAG_SSID "ssid" n] ++
         (if r =? 0 then [ev_add_tag rho "&reassoc_req->tags" c_TAG_DS_PARAMETER "&channel" 1] else [])) /\
    rho' "reassoc_req->frame_header.frame_control.type" = c_TYPE_MANAGEMENT /\
    rho' "reassoc_req->frame_header.frame_control.subtype" = c_SUBTYPE_REASSOC_REQ /\
    rho' "reassoc_req->fixed_parameters.capabilities_information" = c_LIBWIFI_DEFAULT_AP_CAPABS /\
    rho' "reassoc_req->fixed_parameters.listen_interval" = c_LIBWIFI_DEFAULT_LISTEN_INTERVAL /\
    reads_zero rho' "reassoc_req->frame_header." mgmt_rest /\
    untouched "reassoc_req->"
      ["reassoc_req->frame_header.frame_control.type"; "reassoc_req->frame_header.frame_control.subtype";
       "reassoc_req->fixed_parameters.capabilities_information"; "reassoc_req->fixed_parameters.listen_interval"]
      ["reassoc_req->frame_header.addr1"; "reassoc_req->frame_header.addr2"; "reassoc_req->frame_header.addr3";
       "reassoc_req->fixed_parameters.current_ap_address"; "reassoc_req->tags"] rho'.
Proof. exact code_create_reassoc_req. Qed.
Print Assumptions c03_code_create_reassoc_req.

Theorem c03_code_create_beacon : forall m rho now s c ch,
  0 <= now < 2 ^ 64 -> - 2 ^ 31 <= s < 2 ^ 31 -> - 2 ^ 31 <= c < 2 ^ 31 -> 0 <= ch < 256 ->
  let rho0 := upd (upd (upd (upd rho "ret:libwifi_get_epoch" now) "ret:libwifi_set_beacon_ssid" s)
                     "ret:libwifi_set_beacon_channel" c) "channel" ch in
  exists rho',
    exec 40 m rho0 [] body_libwifi_create_beacon =
      Returned (Some (if s =? 0 then c else s)) rho'
        (mgmt_events rho "beacon" sizeof_libwifi_beacon "receiver" "transmitter" "address3" ++
         [("libwifi_get_epoch", []); ("libwifi_set_beacon_ssid", [wrap u64 (rho "beacon"); wrap u64 (rho "ssid")])] ++
         (if s =? 0 then [("libwifi_set_beacon_channel", [wrap u64 (rho "beacon"); ch])] else [])) /\
    rho' "beacon->frame_header.frame_control.type" = c_TYPE_MANAGEMENT /\
    rho' "beacon->frame_header.frame_control.subtype" = c_SUBTYPE_BEACON /\
    rho' "beacon->fixed_parameters.timestamp" = now /\
    rho' "beacon->fixed_parameters.beacon_interval" = c_LIBWIFI_DEFAULT_BEACON_INTERVAL /\
    rho' "beacon->fixed_parameters.capabilities_information" = c_LIBWIFI_DEFAULT_AP_CAPABS /\
    reads_zero rho' "beacon->frame_header." mgmt_rest /\
    untouched "beacon->"
      ["beacon->frame_header.frame_control.type"; "beacon->frame_header.frame_control.subtype";
       "beacon->fixed_parameters.timestamp"; "beacon->fixed_parameters.beacon_interval";
       "beacon->fixed_parameters.capabilities_information"]
      ["beacon->frame_header.addr1"; "beacon->frame_header.addr2"; "beacon->frame_header.addr3"; "beacon->tags"] rho'.
Proof. exact code_create_beacon. Qed.
Print Assumptions c03_code_create_beacon.

Theorem c03_code_create_probe_resp : forall m rho now s c ch,
  0 <= now < 2 ^ 64 -> - 2 ^ 31 <= s < 2 ^ 31 -> - 2 ^ 31 <= c < 2 ^ 31 -> 0 <= ch < 256 ->
  let rho0 := upd (upd (upd (upd rho "ret:libwifi_get_epoch" now) "ret:libwifi_set_probe_resp_ssid" s)
                     "ret:libwifi_set_probe_resp_channel" c) "channel" ch in
  exists rho',
    exec 40 m rho0 [] body_libwifi_create_probe_resp =
      Returned (Some (if s =? 0 then c else s)) rho'
        (mgmt_events rho "probe_resp" sizeof_libwifi_probe_resp "receiver" "transmitter" "address3" ++
         [("libwifi_get_epoch", []); ("libwifi_set_probe_resp_ssid", [wrap u64 (rho "probe_resp"); wrap u64 (rho "ssid")])] ++
         (if s =? 0 then [("libwifi_set_probe_resp_channel", [wrap u64 (rho "probe_resp"); ch])] else [])) /\
    rho' "probe_resp->frame_header.frame_control.type" = c_TYPE_MANAGEMENT /\
    rho' "probe_resp->frame_header.frame_control.subtype" = c_SUBTYPE_PROBE_RESP /\
    rho' "probe_resp->fixed_parameters.timestamp" = now /\
    rho' "probe_resp->fixed_parameters.probe_resp_interval" = c_LIBWIFI_DEFAULT_BEACON_INTERVAL /\
    rho' "probe_resp->fixed_parameters.capabilities_information" = c_LIBWIFI_DEFAULT_AP_CAPABS /\
    reads_zero rho' "probe_resp->frame_header." mgmt_rest /\
    untouched "probe_resp->"
      ["probe_resp->frame_header.frame_control.type"; "probe_resp->frame_header.frame_control.subtype";
       "probe_resp->fixed_parameters.timestamp"; "probe_resp->fixed_parameters.probe_resp_interval";
       "probe_resp->fixed_parameters.capabilities_information"]
      ["probe_resp->frame_header.addr1"; "probe_resp->frame_header.addr2"; "probe_resp->frame_header.addr3"; "probe_resp->tags"] rho'.
Proof. exact code_create_probe_resp. Qed.
Print Assumptions c03_code_create_probe_resp.

Theorem c03_code_create_assoc_resp : forall m rho s r ch,
  - 2 ^ 31 <= s < 2 ^ 31 -> - 2 ^ 31 <= r < 2 ^ 31 -> 0 <= ch < 256 ->
  let rho0 := upd (upd (upd rho "ret:libwifi_set_assoc_resp_channel" s) "ret:libwifi_quick_add_tag" r) "channel" ch in
  exists rho',
    exec 40 m rho0 [] body_libwifi_create_assoc_resp =
      Returned (Some (if s =? 0 then r else s)) rho'
        (mgmt_events rho "assoc_resp" sizeof_libwifi_assoc_resp "receiver" "transmitter" "address3" ++
         [("libwifi_set_assoc_resp_channel", [wrap u64 (rho "assoc_resp"); ch])] ++
         (if s =? 0 then [ev_add_tag rho "&assoc_resp->tags" c_TAG_SUPP_RATES "&supported_rates"
                            (Z.of_nat (List.length c_LIBWIFI_DEFAULT_SUPP_RATES))] else [])) /\
    rho' "assoc_resp->frame_header.frame_control.type" = c_TYPE_MANAGEMENT /\
    rho' "assoc_resp->frame_header.frame_control.subtype" = c_SUBTYPE_ASSOC_RESP /\
    rho' "assoc_resp->fixed_parameters.capabilities_information" = c_LIBWIFI_DEFAULT_AP_CAPABS /\
    rho' "assoc_resp->fixed_parameters.status_code" = c_STATUS_SUCCESS /\
    rho' "assoc_resp->fixed_parameters.association_id" = 0 /\
    reads_zero rho' "assoc_resp->frame_header." mgmt_rest /\
    untouched "assoc_resp->"
      ["assoc_resp->frame_header.frame_control.type"; "assoc_resp->frame_header.frame_control.subtype";
       "assoc_resp->fixed_parameters.capabilities_information"; "assoc_resp->fixed_parameters.status_code"]
      ["assoc_resp->frame_header.addr1"; "assoc_resp->frame_header.addr2"; "assoc_resp->frame_header.addr3"; "assoc_resp->tags"] rho'.
Proof. exact code_create_assoc_resp. Qed.
Print Assumptions c03_code_create_assoc_resp.

Theorem c03_code_create_reassoc_resp : forall m rho s ch,
  - 2 ^ 31 <= s < 2 ^ 31 -> 0 <= ch < 256 ->
  let rho0 := upd (upd rho "ret:libwifi_set_reassoc_resp_channel" s) "channel" ch in
  exists rho',
    exec 40 m rho0 [] body_libwifi_create_reassoc_resp =
      Returned (Some s) rho'
        (mgmt_events rho "reassoc_resp" sizeof_libwifi_reassoc_resp "receiver" "transmitter" "address3" ++
         [("libwifi_set_reassoc_resp_channel", [wrap u64 (rho "reassoc_resp"); ch])]) /\
    rho' "reassoc_resp->frame_header.frame_control.type" = c_TYPE_MANAGEMENT /\
    rho' "reassoc_resp->frame_header.frame_control.subtype" = c_SUBTYPE_REASSOC_RESP /\
    rho' "reassoc_resp->fixed_parameters.capabilities_information" = c_LIBWIFI_DEFAULT_AP_CAPABS /\
    rho' "reassoc_resp->fixed_parameters.status_code" = c_STATUS_SUCCESS /\
    rho' "reassoc_resp->fixed_parameters.association_id" = 0 /\
    reads_zero rho' "reassoc_resp->frame_header." mgmt_rest /\
    untouched "reassoc_resp->"
      ["reassoc_resp->frame_header.frame_control.type"; "reassoc_resp->frame_header.frame_control.subtype";
       "reassoc_resp->fixed_parameters.capabilities_information"; "reassoc_resp->fixed_parameters.status_code"]
      ["reassoc_resp->frame_header.addr1"; "reassoc_resp->frame_header.addr2"; "reassoc_resp->frame_header.addr3";
       "reassoc_resp->tags"] rho'.
Proof. exact code_create_reassoc_resp. Qed.
Print Assumptions c03_code_create_reassoc_resp.

Theorem c03_code_create_timing_advert_null : forall m rho now mrp mtp tpu nf,
  0 <= now < 2 ^ 64 -> 0 <= mrp < 65536 -> 0 <= mtp < 256 -> 0 <= tpu < 256 -> 0 <= nf < 256 ->
  let rho0 := ta_args rho now mrp mtp tpu nf 0 in
  exists rho',
    exec 60 m rho0 [] body_libwifi_create_timing_advert = Returned (Some (-22)) rho' (ta_events rho) /\
    ta_fields rho' now mrp mtp tpu nf.
Proof. exact code_create_timing_advert_null. Qed.
Print Assumptions c03_code_create_timing_advert_null.

Theorem c03_code_create_timing_advert : forall m rho now mrp mtp tpu nf af tc e r,
  0 <= now < 2 ^ 64 -> 0 <= mrp < 65536 -> 0 <= mtp < 256 -> 0 <= tpu < 256 -> 0 <= nf < 256 ->
  0 < af < 2 ^ 64 -> 0 <= tc < 256 -> 0 <= e -> e + 17 < 2 ^ 63 -> - 2 ^ 31 <= r < 2 ^ 31 ->
  let rho0 := upd (upd (upd (ta_args rho now mrp mtp tpu nf af) "adv_fields->timing_capabilities" tc) "&element_data" e)
                "ret:libwifi_quick_add_tag" r in
  let copy dst src n : event := ("memcpy", [dst; wrap u64 (rho src); n]) in
  let copies :=
    if tc =? 1 then [copy (e + 1) "&adv_fields->time_value" 10; copy (e + 11) "&adv_fields->time_error" 5]
    else if tc =? 2 then [copy (e + 1) "&adv_fields->time_value" 10; copy (e + 11) "&adv_fields->time_error" 5;
                          copy (e + 16) "&adv_fields->time_update" 1]
    else [] in
  let len := if tc =? 1 then 16 else if tc =? 2 then 17 else 1 in
  exists rho',
    exec 60 m rho0 [] body_libwifi_create_timing_advert =
      Returned (Some r) rho'
        (ta_events rho ++ [copy e "&adv_fields->timing_capabilities" 1] ++ copies ++
         [("libwifi_quick_add_tag", [wrap u64 (rho "&adv->tags"); c_TAG_TIME_ADVERTISEMENT; e; len])]) /\
    ta_fields rho' now mrp mtp tpu nf.
Proof. exact code_create_timing_advert. Qed.
Print Assumptions c03_code_create_timing_advert.


(* libwifi_create_tag AS TRANSLATED (also stated under C05): the object is zeroed, number and length stored through the one-octet
   conversions, ONE malloc(tag_length); a NULL answer is reported as -ENOMEM (as a size_t: quick_add_tag narrows it to a negative int
   - C15-n), otherwise the body block is cleared and filled and 2 + tag_length returned, for EVERY length - 0 included (C03-n returns early for an empty body, before the header is filled: an empty element with a non-zero number is encoded as 00 00). *)
From Coq Require Import String List.
From LW Require Import Base.CExpr Gen.Sites Spec.CodeSpec Proofs.SitesTags.
Import ListNotations.
Local Open Scope string_scope.
Local Open Scope list_scope.
Local Open Scope Z_scope.
Theorem c03_code_create_tag : forall m rho num tl q,
  - 2 ^ 31 <= num < 2 ^ 31 -> 0 <= tl < 2 ^ 63 -> rho "ret:malloc" = q -> 0 <= q < 2 ^ 63 ->
  let rho0 := upd (upd rho "tag_number" num) "tag_length" tl in
  let pre := [("memset", [wrap u64 (rho "tagged_parameter"); 0; 10]); ("malloc", [tl])] in
  if (q =? 0)%Z then observe (exec 40 m rho0 [] body_libwifi_create_tag) = Some (Some (2 ^ 64 - 12), pre)
  else exists rho',
    exec 40 m rho0 [] body_libwifi_create_tag =
      Returned (Some (2 + tl)) rho'
        (pre ++ [("memset", [q; 0; tl]); ("memcpy", [q; wrap u64 (rho "tag_data"); tl])]) /\
    rho' "tagged_parameter->header.tag_len" = tl mod 256 /\ rho' "tagged_parameter->header.tag_num" = num mod 256 /\
    rho' "tagged_parameter->body" = q.
Proof. exact code_create_tag. Qed.
Print Assumptions c03_code_create_tag.
