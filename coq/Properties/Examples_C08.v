(* C08 - non-vacuity witnesses and worked instances for Properties_C08.v.
   Byte strings: the tagged parameters of a beacon (82 bytes: SSID "home", DS 6, rates, a WPA2-PSK/CCMP RSN
   element, a WPA vendor element with TKIP group, TKIP+CCMP pairwise and PSK, a second RSN element whose pairwise
   count promises two suites but holds one, and an ERP element after it); an RSN element of a WPA2/WPA3
   transition network (AKMs PSK + SAE, capabilities 0x0080); an RSN element listing seven pairwise suites; a WPA
   element cut after its first pairwise suite.  Beacons (classified byte strings, frame_ok through
   c12_classified_ok): privacy bit + RSN + WPA, privacy bit alone (WEP), open with a WPS vendor element,
   privacy bit + the truncated RSN element.
   Covered:  c08_rsn_decode_exact (nonvacuous + instances: decoded record at offset 17 of the 82 bytes, also with
                                   an oracle that returns 255 outside the buffer; truncated element at offset 67
                                   -> Err -22 although the bytes that follow it are readable; transition element;
                                   seven pairwise suites -> first six kept; MINIMAL element of 6 octets (version +
                                   group suite) and element ending after the pairwise list -> decoded, rest empty;
                                   3- and 0-octet elements -> Err -22 under an oracle that FAULTS EVERYWHERE: no read),
             c08_wpa_decode_exact (nonvacuous + instances: decoded record at offset 39; cut element -> Err -22;
                                   minimal 10-octet element; 3-octet element, shorter than the vendor header, -> Err -22
                                   under the everywhere-faulting oracle),
             c08_bss_exact        (nonvacuous + instances: full bss record of the mixed beacon with the flag word
                                   decomposed; WEP beacon; WPS beacon; undecodable RSN -> the whole beacon refused;
                                   beacon with the minimal 6-octet RSN element -> accepted, group cipher flag, WEP cleared),
             c08_flags_exact      (no hypotheses: instance on the two decoded records and on a record listing a
                                   suite under a foreign OUI),
             c08_tables           (no hypotheses: instance at selectors 4, 8 and the undefined 99).
   Skipped:  c08_constants (no hypotheses, closed statement). *)
From Coq Require Import ZArith Lia List Bool.
From LW Require Import Base.Bytes Base.Sweep Gen.Consts Gen.Tables Spec.TagSpec Model.Radiotap Model.Frame
  Spec.FrameSpec Model.Security Model.Mgmt Spec.EapolSpec Spec.SecuritySpec Spec.MgmtSpec Spec.GenSpec
  Properties.Properties_C12 Properties.Properties_C08.
Local Open Scope Z_scope.

(* ---------- element bodies ---------- *)
Definition home : list byte := [104; 111; 109; 101].
Definition rates : list byte := [130; 132; 139; 150].
Definition rsn_body : list byte := [1;0; 0;15;172;4; 1;0; 0;15;172;4; 1;0; 0;15;172;2; 0;0].
Definition wpa_body : list byte :=
  [0;80;242;1; 1;0; 0;80;242;2; 2;0; 0;80;242;2; 0;80;242;4; 1;0; 0;80;242;2].
Definition rsn_short : list byte := [1;0; 0;15;172;4; 2;0; 0;15;172;4].            (* 2 promised, 1 present *)
Definition rsn_w3 : list byte := [1;0; 0;15;172;4; 1;0; 0;15;172;4; 2;0; 0;15;172;2; 0;15;172;8; 128;0].
Definition rsn_seven : list byte :=
  [1;0; 0;15;172;4; 7;0; 0;15;172;1; 0;15;172;2; 0;15;172;4; 0;15;172;5; 0;15;172;8; 0;15;172;9; 0;15;172;10;
   1;0; 0;15;172;2; 0;0].
Definition wpa_cut : list byte := [0;80;242;1; 1;0; 0;80;242;2; 2;0; 0;80;242;2].   (* 2 promised, 1 present *)
Definition wps_body : list byte := [0;80;242;4; 16;74;0;1;16].

Definition tagbuf : list byte :=
  enc [(0, home); (3, [6]); (1, rates); (48, rsn_body); (221, wpa_body); (48, rsn_short); (42, [0])].
Definition w3buf : list byte := enc [(48, rsn_w3); (42, [0])].
Definition sevenbuf : list byte := enc [(48, rsn_seven); (42, [0])].
Definition wpacutbuf : list byte := enc [(221, wpa_cut); (42, [0])].

Definition rsn_home : rsn_info :=
  {| r_version := 1; r_group := ([0; 15; 172], 4); r_pairwise := [([0; 15; 172], 4)];
     r_akms := [([0; 15; 172], 2)]; r_caps := 0 |}.
Definition wpa_home : wpa_info :=
  {| wi_version := 1; wi_multicast := ([0; 80; 242], 2); wi_unicast := [([0; 80; 242], 2); ([0; 80; 242], 4)];
     wi_akms := [([0; 80; 242], 2)] |}.
Definition rsn_transition : rsn_info :=
  {| r_version := 1; r_group := ([0; 15; 172], 4); r_pairwise := [([0; 15; 172], 4)];
     r_akms := [([0; 15; 172], 2); ([0; 15; 172], 8)]; r_caps := 128 |}.

Ltac wf := apply wfbytesb_spec; vm_compute; reflexivity.
Lemma wf_tagbuf : wfbytes tagbuf. Proof. wf. Qed.
Lemma wf_w3buf : wfbytes w3buf. Proof. wf. Qed.
Lemma wf_sevenbuf : wfbytes sevenbuf. Proof. wf. Qed.
Lemma wf_wpacutbuf : wfbytes wpacutbuf. Proof. wf. Qed.

(* where the element bodies sit *)
Example c08_tagbuf_layout :
  zlen tagbuf = 82 /\ slice 15 2 tagbuf = [48; 20] /\ slice 17 20 tagbuf = rsn_body /\
  slice 37 2 tagbuf = [221; 26] /\ slice 39 26 tagbuf = wpa_body /\
  slice 65 2 tagbuf = [48; 12] /\ slice 67 12 tagbuf = rsn_short /\ slice 79 3 tagbuf = [42; 1; 0].
Proof. vm_compute. repeat split; reflexivity. Qed.

(* ---------- c08_rsn_decode_exact ---------- *)
(* base = first byte of the element BODY (after number and length), len = the element's length octet *)
Example c08_rsn_decode_exact_nonvacuous :
  wfbytes tagbuf /\ agrees (rd_strict tagbuf) tagbuf /\ 0 <= 17 /\ 0 <= 20 /\ 17 + 20 <= zlen tagbuf.
Proof.
  split; [exact wf_tagbuf|]. split; [apply agrees_strict|]. vm_compute. repeat split; discriminate.
Qed.
Example c08_rsn_decode_exact_nonvacuous_short :
  wfbytes tagbuf /\ agrees (rd_env tagbuf (fun _ => 255)) tagbuf /\ 0 <= 67 /\ 0 <= 12 /\ 67 + 12 <= zlen tagbuf.
Proof.
  split; [exact wf_tagbuf|]. split; [apply agrees_env|]. vm_compute. repeat split; discriminate.
Qed.

Example c08_rsn_decode_exact_instance : get_rsn_info (rd_strict tagbuf) 17 37 = Done (Ok rsn_home).
Proof.
  destruct c08_rsn_decode_exact_nonvacuous as [A [B [C [D E]]]].
  change 37 with (17 + 20). rewrite (c08_rsn_decode_exact tagbuf _ 17 20 A B C D E). vm_compute. reflexivity.
Qed.
(* the same with an oracle that answers 255 for every address outside the buffer *)
Example c08_rsn_decode_exact_instance_env :
  get_rsn_info (rd_env tagbuf (fun _ => 255)) 17 37 = Done (Ok rsn_home).
Proof.
  change 37 with (17 + 20).
  rewrite (c08_rsn_decode_exact tagbuf _ 17 20 wf_tagbuf (agrees_env _ _) ltac:(lia) ltac:(lia)
             ltac:(vm_compute; discriminate)).
  vm_compute. reflexivity.
Qed.
(* truncated: the pairwise count says 2, the element ends after one suite.  The three bytes that follow the
   element (42 1 0) are readable, yet the result is -EINVAL: the decoder stops at the element's end *)
Example c08_rsn_decode_exact_instance_short :
  get_rsn_info (rd_env tagbuf (fun _ => 255)) 67 79 = Done (Err (-22)).
Proof.
  destruct c08_rsn_decode_exact_nonvacuous_short as [A [B [C [D E]]]].
  change 79 with (67 + 12). rewrite (c08_rsn_decode_exact tagbuf _ 67 12 A B C D E). vm_compute. reflexivity.
Qed.
(* WPA2/WPA3 transition element: two AKMs, capabilities 0x0080 *)
Example c08_rsn_decode_exact_instance_transition :
  get_rsn_info (rd_strict w3buf) 2 26 = Done (Ok rsn_transition).
Proof.
  change 26 with (2 + 24).
  rewrite (c08_rsn_decode_exact w3buf _ 2 24 wf_w3buf (agrees_strict _) ltac:(lia) ltac:(lia)
             ltac:(vm_compute; discriminate)).
  vm_compute. reflexivity.
Qed.
(* a well-formed element with SEVEN pairwise suites: the first six are kept and the key-management list that
   follows the seventh is still found (before the repair of finding F43 the seventh suite was read as a count) *)
Example c08_rsn_decode_exact_instance_seven :
  (exists i, get_rsn_info (rd_strict sevenbuf) 2 46 = Done (Ok i) /\ List.length (r_pairwise i) = 6%nat /\
             r_akms i = [([0; 15; 172], 2)]) /\ zlen rsn_seven = 44.
Proof.
  split; [|vm_compute; reflexivity]. change 46 with (2 + 44).
  rewrite (c08_rsn_decode_exact sevenbuf _ 2 44 wf_sevenbuf (agrees_strict _) ltac:(lia) ltac:(lia)
             ltac:(vm_compute; discriminate)).
  vm_compute. eexists. split; [reflexivity|]. split; reflexivity.
Qed.

(* the MINIMAL element: version and group cipher suite, nothing else (every later field is optional, finding F46:
   such an element used to be refused).  Also an element that ends behind its pairwise list. *)
Definition rsn_min : list byte := [1;0; 0;15;172;4].
Definition rsn_pw : list byte := [1;0; 0;15;172;4; 1;0; 0;15;172;4].
Definition minbuf : list byte := enc [(48, rsn_min); (48, rsn_pw); (42, [0])].
Lemma wf_minbuf : wfbytes minbuf. Proof. wf. Qed.
Example c08_rsn_decode_exact_instance_minimal :
  slice 2 6 minbuf = rsn_min /\ slice 10 12 minbuf = rsn_pw /\
  get_rsn_info (rd_strict minbuf) 2 8 =
    Done (Ok {| r_version := 1; r_group := ([0; 15; 172], 4); r_pairwise := []; r_akms := []; r_caps := 0 |}) /\
  get_rsn_info (rd_strict minbuf) 10 22 =
    Done (Ok {| r_version := 1; r_group := ([0; 15; 172], 4); r_pairwise := [([0; 15; 172], 4)]; r_akms := [];
                r_caps := 0 |}).
Proof.
  split; [vm_compute; reflexivity|]. split; [vm_compute; reflexivity|].
  change 8 with (2 + 6). change 22 with (10 + 12).
  rewrite (c08_rsn_decode_exact minbuf _ 2 6 wf_minbuf (agrees_strict _) ltac:(lia) ltac:(lia)
             ltac:(vm_compute; discriminate)).
  rewrite (c08_rsn_decode_exact minbuf _ 10 12 wf_minbuf (agrees_strict _) ltac:(lia) ltac:(lia)
             ltac:(vm_compute; discriminate)).
  vm_compute. split; reflexivity.
Qed.
(* an element too short for version + group suite is refused BEFORE any read (finding F45: six octets used to be read
   unconditionally).  rd_nothing faults on every address; it agrees with the empty buffer, so the theorem applies with
   len = 0, and for the 3-octet case the model is run directly: the result is Done, no read was attempted *)
Definition rd_nothing : Z -> res byte := rd_strict [].
Example c08_rsn_decode_exact_instance_tiny :
  (forall i, rd_nothing i = Fault OobRead i) /\ rd_nothing 2 = Fault OobRead 2 /\
  get_rsn_info rd_nothing 0 3 = Done (Err (-22)) /\ get_rsn_info rd_nothing 0 5 = Done (Err (-22)) /\
  get_rsn_info rd_nothing 0 0 = Done (Err (-22)) /\
  (* with one octet more the first read happens - and faults under this oracle *)
  get_rsn_info rd_nothing 0 6 = Fault OobRead 0.
Proof.
  split; [intros i; unfold rd_nothing, rd_strict; change (zlen []) with 0; destruct (_ && _) eqn:E; [lia|reflexivity]|].
  split; [vm_compute; reflexivity|].
  split; [vm_compute; reflexivity|]. split; [vm_compute; reflexivity|].
  split; [|vm_compute; reflexivity].
  change (get_rsn_info rd_nothing 0 0) with (get_rsn_info rd_nothing 0 (0 + 0)).
  rewrite (c08_rsn_decode_exact [] rd_nothing 0 0 ltac:(constructor) (agrees_strict _) ltac:(lia) ltac:(lia)
             ltac:(vm_compute; discriminate)).
  vm_compute. reflexivity.
Qed.
(* the 3-octet element inside a real buffer, through the theorem *)
Example c08_rsn_decode_exact_instance_three :
  get_rsn_info (rd_env (enc [(48, [1; 0; 0]); (42, [0])]) (fun _ => 255)) 2 5 = Done (Err (-22)).
Proof.
  change 5 with (2 + 3).
  rewrite (c08_rsn_decode_exact (enc [(48, [1; 0; 0]); (42, [0])]) _ 2 3 ltac:(wf) (agrees_env _ _) ltac:(lia) ltac:(lia)
             ltac:(vm_compute; discriminate)).
  vm_compute. reflexivity.
Qed.

(* ---------- c08_wpa_decode_exact ---------- *)
(* base = first byte of the vendor element body (the OUI); the routine is handed base + 4 *)
Example c08_wpa_decode_exact_nonvacuous :
  (wfbytes tagbuf /\ agrees (rd_strict tagbuf) tagbuf /\ 0 <= 39 /\ 0 <= 26 /\ 39 + 26 <= zlen tagbuf) /\
  (wfbytes wpacutbuf /\ agrees (rd_strict wpacutbuf) wpacutbuf /\ 0 <= 2 /\ 0 <= 16 /\ 2 + 16 <= zlen wpacutbuf).
Proof.
  split.
  - split; [exact wf_tagbuf|]. split; [apply agrees_strict|]. vm_compute. repeat split; discriminate.
  - split; [exact wf_wpacutbuf|]. split; [apply agrees_strict|]. vm_compute. repeat split; discriminate.
Qed.
Example c08_wpa_decode_exact_instance : get_wpa_info (rd_strict tagbuf) 43 65 = Done (Ok wpa_home).
Proof.
  destruct c08_wpa_decode_exact_nonvacuous as [[A [B [C [D E]]]] _].
  change 43 with (39 + 4). change 65 with (39 + 26).
  rewrite (c08_wpa_decode_exact tagbuf _ 39 26 A B C D E). vm_compute. reflexivity.
Qed.
Example c08_wpa_decode_exact_instance_cut : get_wpa_info (rd_strict wpacutbuf) 6 18 = Done (Err (-22)).
Proof.
  destruct c08_wpa_decode_exact_nonvacuous as [_ [A [B [C [D E]]]]].
  change 6 with (2 + 4). change 18 with (2 + 16).
  rewrite (c08_wpa_decode_exact wpacutbuf _ 2 16 A B C D E). vm_compute. reflexivity.
Qed.

(* minimal WPA element (vendor header, version, multicast suite); a vendor element of three octets - shorter than the
   vendor header, so that base + 4 lies behind its end - is refused without a read *)
Definition wpa_min : list byte := [0;80;242;1; 1;0; 0;80;242;2].
Definition wpaminbuf : list byte := enc [(221, wpa_min); (221, [0; 80; 242]); (42, [0])].
Lemma wf_wpaminbuf : wfbytes wpaminbuf. Proof. wf. Qed.
Example c08_wpa_decode_exact_instance_minimal :
  slice 2 10 wpaminbuf = wpa_min /\ slice 14 3 wpaminbuf = [0; 80; 242] /\
  get_wpa_info (rd_strict wpaminbuf) 6 12 =
    Done (Ok {| wi_version := 1; wi_multicast := ([0; 80; 242], 2); wi_unicast := []; wi_akms := [] |}) /\
  get_wpa_info (rd_strict wpaminbuf) 18 17 = Done (Err (-22)) /\
  get_wpa_info rd_nothing 18 17 = Done (Err (-22)).
Proof.
  split; [vm_compute; reflexivity|]. split; [vm_compute; reflexivity|].
  split; [|split; [|vm_compute; reflexivity]].
  - change 6 with (2 + 4). change 12 with (2 + 10).
    rewrite (c08_wpa_decode_exact wpaminbuf _ 2 10 wf_wpaminbuf (agrees_strict _) ltac:(lia) ltac:(lia)
               ltac:(vm_compute; discriminate)).
    vm_compute. reflexivity.
  - change 18 with (14 + 4). change 17 with (14 + 3).
    rewrite (c08_wpa_decode_exact wpaminbuf _ 14 3 wf_wpaminbuf (agrees_strict _) ltac:(lia) ltac:(lia)
               ltac:(vm_compute; discriminate)).
    vm_compute. reflexivity.
Qed.

(* ---------- c08_flags_exact / c08_tables ---------- *)
(* CCMP group (bit 8), CCMP pairwise (bit 22), PSK (WPA2 + bit 34); TKIP group (bit 6), TKIP pairwise (bit 20),
   PSK (WPA + bit 34); SAE adds WPA3 + bit 41.
   ODD: the WPA element's second pairwise suite 00-50-F2-04 (AES-CCMP in the WPA specification) contributes
   NOTHING: the library's WPA switch (and the Spec's s_wpa_pairwise / s_wpa_group, which follow it) know the
   selectors 0,1,2,3,5 only.  See also c08_bss_exact_instance_wpa_ccmp. *)
Definition ors (l : list Z) : Z := fold_left Z.lor l 0.
Example c08_flags_exact_instance :
  enumerate_rsn rsn_home = ors [F_WPA2; bit 8; bit 22; bit 34] /\
  enumerate_wpa wpa_home = ors [F_WPA; bit 6; bit 20; bit 34] /\
  enumerate_rsn rsn_transition = ors [F_WPA2; F_WPA3; bit 8; bit 22; bit 34; bit 41] /\
  (* a pairwise suite under the Microsoft OUI inside an RSN element contributes nothing *)
  enumerate_rsn {| r_version := 1; r_group := ([0; 15; 172], 4); r_pairwise := [([0; 80; 242], 2)];
                   r_akms := []; r_caps := 0 |} = bit 8.
Proof.
  rewrite (proj1 (c08_flags_exact rsn_home wpa_home)), (proj2 (c08_flags_exact rsn_home wpa_home)).
  rewrite (proj1 (c08_flags_exact rsn_transition wpa_home)).
  rewrite (proj1 (c08_flags_exact _ wpa_home)).
  vm_compute. repeat split; reflexivity.
Qed.
Example c08_tables_instance :
  tbl rsn_group_table 4 = bit 8 /\ tbl rsn_pairwise_table 4 = bit 22 /\ tbl rsn_akm_table 2 = Z.lor F_WPA2 (bit 34) /\
  tbl rsn_akm_table 8 = Z.lor F_WPA3 (bit 41) /\ tbl wpa_group_table 2 = bit 6 /\ tbl wpa_pairwise_table 4 = 0 /\
  tbl wpa_akm_table 2 = Z.lor F_WPA (bit 34) /\ tbl rsn_akm_table 99 = 0 /\ tbl rsn_pairwise_table 1 = 0.
Proof.
  destruct (c08_tables 4) as [G4 [P4 [_ [_ [WP4 _]]]]].
  destruct (c08_tables 2) as [_ [_ [A2 [WG2 [_ WA2]]]]].
  destruct (c08_tables 8) as [_ [_ [A8 _]]].
  destruct (c08_tables 99) as [_ [_ [A99 _]]].
  destruct (c08_tables 1) as [_ [P1 _]].
  rewrite G4, P4, A2, A8, WG2, WP4, WA2, A99, P1. vm_compute. repeat split; reflexivity.
Qed.

(* ---------- c08_bss_exact ---------- *)
Definition bcast : list byte := [255; 255; 255; 255; 255; 255].
Definition ap_mac : list byte := [0; 22; 62; 17; 34; 51].
(* beacon with a chosen capability field (0x0411: ESS, privacy, short slot; 0x0401: no privacy) *)
Definition beacon_with (cap : Z) (tags : list tag) : list byte :=
  s_mgmt_header 8 bcast ap_mac ap_mac ++ le_enc 8 1311768467463790320 ++ le_enc 2 100 ++ le_enc 2 cap ++
  enc ([(0, home); (3, [6]); (1, rates)] ++ tags).
Definition mixed_bytes := beacon_with 1041 [(48, rsn_body); (221, wpa_body); (42, [0])].
Definition wep_bytes := beacon_with 1041 [(42, [0])].
Definition wps_bytes := beacon_with 1025 [(221, wps_body)].
Definition badrsn_bytes := beacon_with 1041 [(48, rsn_short); (42, [0])].
(* WPA (version 1) with AES-CCMP as group and only pairwise cipher, PSK *)
Definition wpa_ccmp_body : list byte := [0;80;242;1; 1;0; 0;80;242;4; 1;0; 0;80;242;4; 1;0; 0;80;242;2].
Definition wpaccmp_bytes := beacon_with 1041 [(221, wpa_ccmp_body)].

Definition minrsn_bytes := beacon_with 1041 [(48, rsn_min); (42, [0])].

Definition frame0 : frame :=
  {| f_rtap := None; f_flags := 0; f_fc := []; f_len := 0; f_header := []; f_header_len := 0; f_body := [] |}.
Definition classified (buf : list byte) : frame :=
  match spec_classify buf None with Ok f => f | Err _ => frame0 end.
Definition f_mixed : frame := Eval vm_compute in classified mixed_bytes.
Definition f_wep : frame := Eval vm_compute in classified wep_bytes.
Definition f_wps : frame := Eval vm_compute in classified wps_bytes.
Definition f_badrsn : frame := Eval vm_compute in classified badrsn_bytes.
Definition f_wpaccmp : frame := Eval vm_compute in classified wpaccmp_bytes.
Definition f_minrsn : frame := Eval vm_compute in classified minrsn_bytes.
Ltac by_classification buf :=
  apply (c12_classified_ok buf None); [wf | vm_compute; reflexivity | intros ? ?; discriminate].
Lemma ok_mixed : frame_ok f_mixed. Proof. by_classification mixed_bytes. Qed.
Lemma ok_wep : frame_ok f_wep. Proof. by_classification wep_bytes. Qed.
Lemma ok_wps : frame_ok f_wps. Proof. by_classification wps_bytes. Qed.
Lemma ok_badrsn : frame_ok f_badrsn. Proof. by_classification badrsn_bytes. Qed.
Lemma ok_wpaccmp : frame_ok f_wpaccmp. Proof. by_classification wpaccmp_bytes. Qed.
Lemma ok_minrsn : frame_ok f_minrsn. Proof. by_classification minrsn_bytes. Qed.

Example c08_bss_exact_nonvacuous :
  (spec_classify mixed_bytes None = Ok f_mixed /\ frame_ok f_mixed) /\ frame_ok f_wep /\ frame_ok f_wps /\
  frame_ok f_badrsn.
Proof.
  split; [split; [vm_compute; reflexivity | exact ok_mixed]|]. exact (conj ok_wep (conj ok_wps ok_badrsn)).
Qed.

(* privacy bit + RSN + WPA: WEP is cleared by the first security element; WPA2 from the RSN AKM, WPA from the
   vendor element; the cipher and AKM bits of both; both decoded elements are reported *)
Example c08_bss_exact_instance :
  parse_beacon f_mixed = Done (Ok
    {| b_transmitter := ap_mac; b_receiver := bcast; b_bssid := ap_mac; b_ssid := home ++ repeat 0 29;
       b_hidden := 0; b_channel := 6; b_wps := 0;
       b_enc := ors [F_WPA2; F_WPA; bit 6; bit 8; bit 20; bit 22; bit 34];
       b_wpa := wpa_home; b_rsn := rsn_home;
       b_tags := enc [(0, home); (3, [6]); (1, rates); (48, rsn_body); (221, wpa_body); (42, [0])] |}) /\
  parse_probe_resp f_mixed = Done (Err (-22)) /\ parse_assoc_resp f_mixed = Done (Err (-22)) /\
  parse_reassoc_resp f_mixed = Done (Err (-22)).
Proof.
  destruct (c08_bss_exact f_mixed ok_mixed) as [A [B [C D]]]. rewrite A, B, C, D.
  vm_compute. repeat split; reflexivity.
Qed.
(* privacy bit, no security element: WEP *)
Example c08_bss_exact_instance_wep :
  exists b, parse_beacon f_wep = Done (Ok b) /\ b_enc b = F_WEP /\ b_rsn b = rsn0 /\ b_wpa b = wpa0 /\ b_wps b = 0.
Proof.
  rewrite (proj1 (c08_bss_exact f_wep ok_wep)). eexists. split; [vm_compute; reflexivity|].
  vm_compute. repeat split; reflexivity.
Qed.
(* open network announcing WPS (vendor element 00-50-F2-04) *)
Example c08_bss_exact_instance_wps :
  exists b, parse_beacon f_wps = Done (Ok b) /\ b_enc b = 0 /\ b_wps b = 1 /\ b_wpa b = wpa0.
Proof.
  rewrite (proj1 (c08_bss_exact f_wps ok_wps)). eexists. split; [vm_compute; reflexivity|].
  vm_compute. repeat split; reflexivity.
Qed.
(* an RSN element that does not decode makes the parser refuse the whole beacon *)
Example c08_bss_exact_instance_badrsn : parse_beacon f_badrsn = Done (Err (-22)).
Proof. rewrite (proj1 (c08_bss_exact f_badrsn ok_badrsn)). vm_compute. reflexivity. Qed.
(* ODD: a WPA-PSK network using AES-CCMP (00-50-F2-04) for group and pairwise traffic is summarised as
   WPA + PSK with NO cipher bit at all (the decoded element is reported correctly) *)
Example c08_bss_exact_instance_wpa_ccmp :
  exists b, parse_beacon f_wpaccmp = Done (Ok b) /\ b_enc b = ors [F_WPA; bit 34] /\
            b_wpa b = {| wi_version := 1; wi_multicast := ([0; 80; 242], 4); wi_unicast := [([0; 80; 242], 4)];
                         wi_akms := [([0; 80; 242], 2)] |}.
Proof.
  rewrite (proj1 (c08_bss_exact f_wpaccmp ok_wpaccmp)). eexists. split; [vm_compute; reflexivity|].
  vm_compute. repeat split; reflexivity.
Qed.
(* a beacon whose RSN element holds version and group suite only: accepted (it used to be refused, finding F46); the
   summary holds the group cipher's flag, the WEP flag of the privacy bit is cleared, no WPA2 flag (that comes with an AKM) *)
Example c08_bss_exact_instance_minimal_rsn :
  exists b, parse_beacon f_minrsn = Done (Ok b) /\ b_enc b = bit 8 /\ b_channel b = 6 /\ b_wpa b = wpa0 /\
            b_rsn b = {| r_version := 1; r_group := ([0; 15; 172], 4); r_pairwise := []; r_akms := []; r_caps := 0 |}.
Proof.
  rewrite (proj1 (c08_bss_exact f_minrsn ok_minrsn)). eexists. split; [vm_compute; reflexivity|].
  vm_compute. repeat split; reflexivity.
Qed.
