(* C13 - parsing is a pure function of the input bytes.  Statements only.
   rd_env buf env returns the buffer's bytes inside its bounds and env's arbitrary bytes outside:
   equal results for all env1, env2 say that nothing beyond the stated length influences the outcome.
   The parsers that work on a classified frame are Gallina functions of the frame record alone, and the
   models build every output object from a zero record (the C code's memset), so prior contents of the
   output object and earlier calls cannot enter; the absence of library state between calls is C16's
   c16_no_writable_state.  Independence from optimisation level and hardening flags is observed by the
   three-build comparison of the check, not proved. *)
From Coq Require Import List.
From LW Require Import Base.Bytes Model.TagIter Model.Radiotap Model.Frame Model.CRC Model.Security Model.Mgmt Gen.Globals Proofs.SafetyProofs.
Import ListNotations.
Local Open Scope Z_scope.

Theorem c13_classify_env_independent : forall buf rt env1 env2, wfbytes buf ->
  get_wifi_frame (rd_env buf env1) (zlen buf) rt = get_wifi_frame (rd_env buf env2) (zlen buf) rt.
Proof. exact classify_env_indep. Qed.
Print Assumptions c13_classify_env_independent.

Theorem c13_radiotap_env_independent : forall buf env1 env2, wfbytes buf ->
  parse_radiotap_info (rd_env buf env1) (zlen buf) = parse_radiotap_info (rd_env buf env2) (zlen buf).
Proof. exact radiotap_env_indep. Qed.
Print Assumptions c13_radiotap_env_independent.

Theorem c13_iteration_env_independent : forall buf env1 env2, wfbytes buf ->
  iterate (rd_env buf env1) (zlen buf) = iterate (rd_env buf env2) (zlen buf).
Proof. exact iteration_env_indep. Qed.
Print Assumptions c13_iteration_env_independent.

Theorem c13_fcs_env_independent : forall buf env1 env2, wfbytes buf ->
  crc32 (rd_env buf env1) (zlen buf) = crc32 (rd_env buf env2) (zlen buf) /\
  frame_verify (rd_env buf env1) (zlen buf) = frame_verify (rd_env buf env2) (zlen buf).
Proof. exact fcs_env_indep. Qed.
Print Assumptions c13_fcs_env_independent.

(* the element decoders called directly on a byte range *)
Theorem c13_ie_decoders_env_independent : forall buf env1 env2, wfbytes buf ->
  get_rsn_info (rd_env buf env1) 0 (zlen buf) = get_rsn_info (rd_env buf env2) 0 (zlen buf) /\
  get_wpa_info (rd_env buf env1) 0 (zlen buf) = get_wpa_info (rd_env buf env2) 0 (zlen buf) /\
  (forall b, handle_msft (rd_env buf env1) b 0 (zlen buf) = handle_msft (rd_env buf env2) b 0 (zlen buf)).
Proof. exact decoders_env_indep. Qed.
Print Assumptions c13_ie_decoders_env_independent.

(* the classified frame is a value built from the input bytes (it owns its data), and the library has no
   state that one call could leave for the next *)
Theorem c13_no_state_between_calls : writable = [] /\ static_locals = [].
Proof. split; reflexivity. Qed.
Print Assumptions c13_no_state_between_calls.

(* ---- purity AT THE LEVEL OF THE TRANSLATED C TEXT (Base/CExpr.v's interpreter, Gen/Sites.v's bodies): memory a routine cannot read cannot influence it.  Every code-level
   theorem of this development runs a translated body with ONLY the input buffer readable and concludes that the run returns; exec_ext says, once for the whole statement language
   and every body, fuel, environment and trace, that such a run gives the SAME result in every memory that extends the readable one - in particular in every memory that holds the
   buffer, whatever lies beyond it (exec_any_surroundings).  The remaining theorems instantiate it: the same conclusions as c06_code_*, c11_code_crc32_*, c02_code_*, c12_code_*
   with `mem_at a buf` replaced by ANY memory M that agrees with the buffer. ---- *)
From Coq Require Import String.
From LW Require Import Base.Bytes Base.CExpr Gen.Sites Spec.CodeSpec Model.TagIter Model.Frame Model.Eapol Proofs.SitesLemmas Proofs.CodeIter Proofs.CodeCRC Proofs.CodeFrame Proofs.CodeEapol Proofs.MemExt Proofs.MemExtUses.
Local Open Scope string_scope.
Local Open Scope list_scope.
Local Open Scope Z_scope.

(* an expression that evaluates with less memory readable evaluates to the same value with more *)
Theorem c13_code_ceval_ext : forall rho m m',
  mem_le m m' -> forall e v, ceval rho m e = Some v -> ceval rho m' e = Some v.
Proof. exact ceval_ext. Qed.
Print Assumptions c13_code_ceval_ext.

(* THE meta-theorem: a run that ended (returned / fell through / broke; not stuck, not out of fuel) is the same run in every extension of the memory *)
Theorem c13_code_exec_ext : forall m m' f rho tr s r,
  mem_le m m' -> exec f m rho tr s = r -> ended r -> exec f m' rho tr s = r.
Proof. exact exec_ext. Qed.
Print Assumptions c13_code_exec_ext.

(* the same through the observable outcome (returned value and trace of calls) *)
Theorem c13_code_observe_ext : forall m m' f rho tr s x,
  mem_le m m' -> observe (exec f m rho tr s) = Some x -> observe (exec f m' rho tr s) = Some x.
Proof. exact observe_ext. Qed.
Print Assumptions c13_code_observe_ext.

(* so a run with only the buffer readable is the run in ANY memory holding the buffer *)
Theorem c13_code_exec_any_surroundings : forall M a buf f rho tr s r,
  mem_agrees M a buf -> exec f (mem_at a buf) rho tr s = r -> ended r -> exec f M rho tr s = r.
Proof. exact exec_any_surroundings. Qed.
Print Assumptions c13_code_exec_any_surroundings.

(* tag iterator init in any surroundings *)
Theorem c13_code_tag_iterator_init_any_surroundings : forall M buf start rho,
  mem_agrees M start buf ->
  wfbytes buf -> 0 <= start -> start + zlen buf < 2 ^ 62 ->
  let rho0 := upd (upd rho "tags_start" start) "data_len" (zlen buf) in
  let run := exec 30 M rho0 [] body_libwifi_tag_iterator_init in
  match tag_init (rd_strict buf) (zlen buf) with
  | Done (Err c) => observe run = Some (Some c, [])
  | Done (Ok it) =>
      exists rho1, run = Returned (Some 0) rho1 [] /\
        rho1 "it->tag_header" = start + it_hdr it /\ rho1 "it->tag_data" = start + it_data it /\
        rho1 "it->_next_tag_header" = start + it_next it /\ rho1 "it->_frame_end" = start + it_end it
  | _ => False
  end.
Proof. exact code_tag_iterator_init_any_surroundings. Qed.
Print Assumptions c13_code_tag_iterator_init_any_surroundings.

(* tag iterator next in any surroundings *)
Theorem c13_code_tag_iterator_next_any_surroundings : forall M buf start rho it,
  mem_agrees M start buf ->
  wfbytes buf -> 0 < start -> start + zlen buf < 2 ^ 62 ->
  0 <= it_next it < 2 ^ 62 -> -1 <= it_end it < zlen buf ->
  let run := exec 30 M (it_env rho start it) [] body_libwifi_tag_iterator_next in
  match tag_next (rd_strict buf) it with
  | Done (it', r) =>
      exists rho1, run = Returned (Some (match r with None => -1 | Some n => n end)) rho1 [] /\ it_fields rho1 start it'
  | _ => False
  end.
Proof. exact code_tag_iterator_next_any_surroundings. Qed.
Print Assumptions c13_code_tag_iterator_next_any_surroundings.

(* the CRC loop in any surroundings *)
Theorem c13_code_crc32_any_surroundings : forall M msg start rho,
  mem_agrees M start msg ->
  wfbytes msg -> 0 < start -> start + zlen msg < 2 ^ 62 -> zlen msg < 2 ^ 31 ->
  observe (exec (60 * length msg + 60) M (upd (upd rho "message" start) "message_len" (zlen msg)) []
                body_libwifi_crc32) = Some (Some (crc32_list msg), []).
Proof. exact code_crc32_any_surroundings. Qed.
Print Assumptions c13_code_crc32_any_surroundings.

(* the CRC of a message that sits inside a larger readable buffer *)
Theorem c13_code_crc32_inside_larger_buffer : forall pre msg post start rho,
  wfbytes msg -> 0 < start -> start + zlen msg < 2 ^ 62 -> zlen msg < 2 ^ 31 ->
  observe (exec (60 * length msg + 60) (mem_at (start - zlen pre) (pre ++ msg ++ post))
                (upd (upd rho "message" start) "message_len" (zlen msg)) [] body_libwifi_crc32) = Some (Some (crc32_list msg), []).
Proof. exact code_crc32_inside_larger_buffer. Qed.
Print Assumptions c13_code_crc32_inside_larger_buffer.

(* the classifier in any surroundings *)
Theorem c13_code_get_wifi_frame_plain_ret_any_surroundings : forall M buf a rho,
  mem_agrees M a buf ->
  wfbytes buf -> 0 < a -> a + zlen buf < 2 ^ 62 -> 0 <= rho "ret:malloc" < 2 ^ 62 ->
  exists v tr,
    observe (frame_run_in M buf a rho) = Some (Some v, tr) /\
    (v = -22 <-> frame_refused buf) /\ (v = -22 -> tr = [frame_memset rho]) /\ (v = -22 \/ v = -12 \/ v = 0) /\
    copies_inside a (a + zlen buf) tr.
Proof. exact code_get_wifi_frame_plain_ret_any_surroundings. Qed.
Print Assumptions c13_code_get_wifi_frame_plain_ret_any_surroundings.

(* EAPOL recognition in any surroundings *)
Theorem c13_code_check_wpa_handshake_any_surroundings : forall M b a hl ty rho,
  mem_agrees M a b ->
  wfbytes b -> 0 < a -> a + zlen b < 2 ^ 62 -> hl = 24 \/ hl = 26 -> 0 <= ty <= 3 ->
  let len := hl + zlen b in
  let mc := wrap s32 (rho "ret:memcmp") in
  observe (exec 30 M (frame_env rho ty len hl a) [] body_libwifi_check_wpa_handshake) =
    Some (Some (if hs_accepts b ty hl len mc then 1 else -22), hs_trace rho b a ty hl len mc).
Proof. exact code_check_wpa_handshake_any_surroundings. Qed.
Print Assumptions c13_code_check_wpa_handshake_any_surroundings.


(* ieee80211_radiotap_iterator_init AS TRANSLATED, the whole routine (Proofs/CodeRadiotapInit.v), in ANY memory that holds the
   header buffer and with any fuel from 60 + 8 * length on: the run RETURNS - it never reads outside the buffer, never overflows,
   the loop over the extended present words ends - with 0 exactly when Model/Radiotap.v rt_init accepts the header and with the
   model's negative code otherwise; what lies around the buffer has no influence. *)
From Coq Require Import String.
From LW Require Import Base.Bytes Base.CExpr Gen.Layout Gen.Sites Spec.CodeSpec Model.Radiotap Proofs.MemExt Proofs.CodeRadiotapInit.
Local Open Scope string_scope.
Local Open Scope list_scope.
Local Open Scope Z_scope.
Theorem c13_code_rtinit_any_surroundings : forall M buf h rho vns rns F,
  mem_agrees M h buf ->
  wfbytes buf -> 0 < h -> h + zlen buf < 2 ^ 62 -> zlen buf < 2 ^ 31 ->
  rho "max_length" = zlen buf -> rho "radiotap_header" = h ->
  (1 <= zlen buf -> rho "radiotap_header->it_version" = znth buf 0) ->
  rho "&radiotap_header->it_len" = h + off_ieee80211_radiotap_header__it_len ->
  rho "&radiotap_header->it_present" = h + off_ieee80211_radiotap_header__it_present ->
  rho "vns" = vns -> rho "&radiotap_ns" = rns -> 0 <= vns < 2 ^ 64 -> 0 <= rns < 2 ^ 64 ->
  (60 + 8 * Z.to_nat (zlen buf) <= F)%nat ->
  exists v rho1 tr1, exec F M rho [] body_ieee80211_radiotap_iterator_init = Returned (Some v) rho1 tr1 /\
    match rt_init (rd_strict buf) (zlen buf) with
    | Done (Err c) => v = c
    | Done (Ok _) => v = 0
    | _ => False
    end.
Proof. exact code_rtinit_returns_model_anywhere. Qed.
Print Assumptions c13_code_rtinit_any_surroundings.
