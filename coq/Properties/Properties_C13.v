(* C13 - parsing is a pure function of the input bytes.  Statements only.
   rd_env buf env returns the buffer's bytes inside its bounds and env's arbitrary bytes outside:
   equal results for all env1, env2 say that nothing beyond the stated length influences the outcome.
   The parsers that work on a classified frame are Gallina functions of the frame record alone, and the
   models build every output object from a zero record (the C code's memset), so prior contents of the
   output object and earlier calls cannot enter; the absence of library state between calls is C16's
   c16_no_writable_state.  Independence from optimisation level and hardening flags is observed by the
   three-build comparison of the check, not proved. *)
From Coq Require Import List.
From LW Require Import Base.Bytes Model.TagIter Model.Radiotap Model.Frame Model.CRC Model.Security Model.Mgmt Gen.Globals Proofs.SafetyProofs.
Import ListNotations.
Local Open Scope Z_scope.

Theorem c13_classify_env_independent : forall buf rt env1 env2, wfbytes buf ->
  get_wifi_frame (rd_env buf env1) (zlen buf) rt = get_wifi_frame (rd_env buf env2) (zlen buf) rt.
Proof. exact classify_env_indep. Qed.
Print Assumptions c13_classify_env_independent.

Theorem c13_radiotap_env_independent : forall buf env1 env2, wfbytes buf ->
  parse_radiotap_info (rd_env buf env1) (zlen buf) = parse_radiotap_info (rd_env buf env2) (zlen buf).
Proof. exact radiotap_env_indep. Qed.
Print Assumptions c13_radiotap_env_independent.

Theorem c13_iteration_env_independent : forall buf env1 env2, wfbytes buf ->
  iterate (rd_env buf env1) (zlen buf) = iterate (rd_env buf env2) (zlen buf).
Proof. exact iteration_env_indep. Qed.
Print Assumptions c13_iteration_env_independent.

Theorem c13_fcs_env_independent : forall buf env1 env2, wfbytes buf ->
  crc32 (rd_env buf env1) (zlen buf) = crc32 (rd_env buf env2) (zlen buf) /\
  frame_verify (rd_env buf env1) (zlen buf) = frame_verify (rd_env buf env2) (zlen buf).
Proof. exact fcs_env_indep. Qed.
Print Assumptions c13_fcs_env_independent.

(* the element decoders called directly on a byte range *)
Theorem c13_ie_decoders_env_independent : forall buf env1 env2, wfbytes buf ->
  get_rsn_info (rd_env buf env1) 0 (zlen buf) = get_rsn_info (rd_env buf env2) 0 (zlen buf) /\
  get_wpa_info (rd_env buf env1) 0 (zlen buf) = get_wpa_info (rd_env buf env2) 0 (zlen buf) /\
  (forall b, handle_msft (rd_env buf env1) b 0 (zlen buf) = handle_msft (rd_env buf env2) b 0 (zlen buf)).
Proof. exact decoders_env_indep. Qed.
Print Assumptions c13_ie_decoders_env_independent.

(* the classified frame is a value built from the input bytes (it owns its data), and the library has no
   state that one call could leave for the next *)
Theorem c13_no_state_between_calls : writable = [] /\ static_locals = [].
Proof. split; reflexivity. Qed.
Print Assumptions c13_no_state_between_calls.
