(* C15 - allocation failure is reported as an error, never a crash or silent loss.  Statements only.
   (Absence of faults and of leaks under every schedule is C14's c14_* theorems, which quantify over sc.) *)
From LW Require Import Base.Bytes Model.TagIter Spec.TagSpec Model.Tags Gen.Consts Model.Alloc Model.AllocScen Proofs.AllocProofs.
Local Open Scope Z_scope.

Definition tags_inv (t : tags) : Prop := exists l, wf_tags l /\ t_bytes t = enc l /\ t_len t = zlen (t_bytes t).
Definition ptr_inv (o : tobj) (h : heap) : Prop :=
  (t_len (o_tags o) = 0 \/ exists b, o_ptr o = Some b /\ is_live b h = true) /\
  (forall b, o_ptr o = Some b -> is_live b h = true).

(* a tag that could not be stored is never reported as stored; one that is reported as stored is stored;
   a failed add changes nothing *)
Theorem c15_add_reported : forall sc o h num data o' r h',
  tags_inv (o_tags o) -> ptr_inv o h -> wf_tag (num, data) ->
  sk_quick_add sc o num data h = Done (o', r, h') ->
  (r = 0 /\ o_tags o' = fst (quick_add_tag (o_tags o) num data)) \/
  (r = - ENOMEM /\ o_tags o' = o_tags o /\ exists k, (h_count h <= k < h_count h')%nat /\ sc k = true).
Proof. exact add_reported. Qed.
Print Assumptions c15_add_reported.

(* removal never loses anything it was not asked to remove, whatever realloc does *)
Theorem c15_remove_safe : forall sc o h num o' r h',
  tags_inv (o_tags o) -> ptr_inv o h ->
  sk_remove_tag sc o num h = Done (o', r, h') ->
  exists t', remove_tag (o_tags o) num = Done (t', r) /\ o_tags o' = t'.
Proof. exact remove_safe. Qed.
Print Assumptions c15_remove_safe.

(* the setters are failure-atomic: success means the element was replaced; on any failure the stored list is unchanged *)
Theorem c15_set_atomic : forall sc o h num data o' r h',
  tags_inv (o_tags o) -> ptr_inv o h -> wf_tag (num, data) ->
  sk_set_tag sc o num data h = Done (o', r, h') ->
  (r = 0 /\ set_tag (o_tags o) num data = Done (o_tags o', 0)) \/
  (r < 0 /\ o_tags o' = o_tags o).
Proof. exact set_atomic. Qed.
Print Assumptions c15_set_atomic.

(* action details: a failed or refused extension keeps what was stored *)
Theorem c15_detail_reported : forall sc d data h d' r h', 0 <= d_len d ->
  sk_add_detail sc d data h = Done (d', r, h') ->
  (r = - ENOMEM /\ d' = d) \/ (r = - Model.TagIter.EINVAL /\ d' = d) \/ (0 <= r /\ d_bytes d' = d_bytes d ++ data).
Proof. exact detail_reported. Qed.
Print Assumptions c15_detail_reported.

(* classification and every copying parser: the call whose allocation failed returns -ENOMEM *)
Theorem c15_copy_parser_reported : forall sc reached n code h p r h',
  sk_copy_parser sc reached n code h = (p, r, h') ->
  (reached = true /\ sc (h_count h) = true /\ r = - ENOMEM /\ p = None) \/
  (reached = true /\ sc (h_count h) = false /\ r = code /\ exists b, p = Some b /\ is_live b h' = true) \/
  (reached = false /\ r = code /\ p = None /\ h' = h).
Proof. exact copy_parser_reported. Qed.
Print Assumptions c15_copy_parser_reported.

From Coq Require Import String.
From LW Require Import Base.CExpr Gen.Sites.
Local Open Scope string_scope.
Local Open Scope Z_scope.
(* ---- the six SSID / channel setters AS TRANSLATED (Gen/Sites.v): count, then add, then remove the old element LAST and only when the addition succeeded; any failing step
   ends the routine with its answer and nothing further is called.  setter_ok is defined in Proofs/CodeSetters.v; it quantifies over EVERY environment, so a local read before
   it is assigned (a dropped initialiser) falsifies it - no_initialiser_refuted, remove_before_add_refuted show it on two altered bodies. ---- *)
From LW Require Import Gen.Consts Proofs.CodeSetters.


Theorem c15_code_set_beacon_ssid : setter_ok body_libwifi_set_beacon_ssid c_TAG_SSID "beacon->tags.length".
Proof. exact code_set_beacon_ssid. Qed.
Print Assumptions c15_code_set_beacon_ssid.


Theorem c15_code_set_beacon_channel : setter_ok body_libwifi_set_beacon_channel c_TAG_DS_PARAMETER "beacon->tags.length".
Proof. exact code_set_beacon_channel. Qed.
Print Assumptions c15_code_set_beacon_channel.


Theorem c15_code_set_probe_resp_ssid : setter_ok body_libwifi_set_probe_resp_ssid c_TAG_SSID "probe_resp->tags.length".
Proof. exact code_set_probe_resp_ssid. Qed.
Print Assumptions c15_code_set_probe_resp_ssid.


Theorem c15_code_set_probe_resp_channel : setter_ok body_libwifi_set_probe_resp_channel c_TAG_DS_PARAMETER "probe_resp->tags.length".
Proof. exact code_set_probe_resp_channel. Qed.
Print Assumptions c15_code_set_probe_resp_channel.


Theorem c15_code_set_assoc_resp_channel : setter_ok body_libwifi_set_assoc_resp_channel c_TAG_DS_PARAMETER "assoc_resp->tags.length".
Proof. exact code_set_assoc_resp_channel. Qed.
Print Assumptions c15_code_set_assoc_resp_channel.


Theorem c15_code_set_reassoc_resp_channel : setter_ok body_libwifi_set_reassoc_resp_channel c_TAG_DS_PARAMETER "reassoc_resp->tags.length".
Proof. exact code_set_reassoc_resp_channel. Qed.
Print Assumptions c15_code_set_reassoc_resp_channel.

(* libwifi_remove_tag as translated (iterator inlined), for every list: the block is released exactly when the list becomes empty (free, pointer cleared), shrunk otherwise, and a
   failed shrink keeps the old, still valid block and the new length - the allocation side of the removal, from the C text of this run (also stated as c05_code_remove_tag_refines_model) *)
From Coq Require Import String.
From LW Require Import Base.Bytes Base.CExpr Gen.Sites Spec.CodeSpec Model.TagIter Model.Tags Proofs.CodeTagEdit.
Local Open Scope string_scope.
Local Open Scope list_scope.
Local Open Scope Z_scope.

Theorem c15_code_remove_tag_refines_model : forall buf p n rho F,
  wfbytes buf -> 0 < p -> p + zlen buf < 2 ^ 62 -> - 2 ^ 31 <= n < 2 ^ 31 ->
  rho "tags->parameters" = p -> rho "tags->length" = zlen buf -> rho "tag_number" = n ->
  (remove_fuel (zlen buf) <= F)%nat ->
  let s := {| t_len := zlen buf; t_bytes := buf |} in
  let run := exec F (mem_at p buf) rho [] body_libwifi_remove_tag in
  let ans := wrap u64 (rho "ret:realloc") in
  match walk_of buf with
  | Err _ =>
      remove_tag s n = Done (s, -22) /\
      exists rho', run = Returned (Some (-22)) rho' [] /\ rho' "tags->length" = zlen buf /\ rho' "tags->parameters" = p
  | Ok l =>
      match find_num n l with
      | None =>
          remove_tag s n = Done (s, 0) /\
          exists rho', run = Returned (Some 0) rho' [] /\ rho' "tags->length" = zlen buf /\ rho' "tags->parameters" = p
      | Some e =>
          let o := e_off e in let L := e_len e in
          (e_num e = n /\ exists l1 l2, l = l1 ++ e :: l2 /\ Forall (fun x => e_num x <> n) l1) /\
          (0 <= o /\ o + 2 + L <= zlen buf /\ n = znth buf o /\ L = znth buf (o + 1) /\ 0 <= L < 256) /\
          (exists s', remove_tag s n = Done (s', 0) /\ t_len s' = zlen buf - 2 - L /\
                      t_bytes s' = zfirstn o buf ++ slice (o + 2 + L) (zlen buf - o - 2 - L) buf) /\
          exists rho', run = Returned (Some 0) rho' (remove_trace p o L (zlen buf)) /\
                       rho' "tags->length" = zlen buf - 2 - L /\
                       rho' "tags->parameters" = new_params p ans (zlen buf - 2 - L)
      end
  end.
Proof. exact code_remove_tag_refines_model. Qed.
Print Assumptions c15_code_remove_tag_refines_model.

(* libwifi_create_tag AS TRANSLATED (also stated under C05): the object is zeroed, number and length stored through the one-octet
   conversions, ONE malloc(tag_length); a NULL answer is reported as -ENOMEM (as a size_t: quick_add_tag narrows it to a negative int
   - C15-n returns 0 there and the failure is reported as success), otherwise the body block is cleared and filled and 2 + tag_length returned, for EVERY length - 0 included (C03-n). *)
From Coq Require Import String List.
From LW Require Import Base.CExpr Gen.Sites Spec.CodeSpec Proofs.SitesTags.
Import ListNotations.
Local Open Scope string_scope.
Local Open Scope list_scope.
Local Open Scope Z_scope.
Theorem c15_code_create_tag : forall m rho num tl q,
  - 2 ^ 31 <= num < 2 ^ 31 -> 0 <= tl < 2 ^ 63 -> rho "ret:malloc" = q -> 0 <= q < 2 ^ 63 ->
  let rho0 := upd (upd rho "tag_number" num) "tag_length" tl in
  let pre := [("memset", [wrap u64 (rho "tagged_parameter"); 0; 10]); ("malloc", [tl])] in
  if (q =? 0)%Z then observe (exec 40 m rho0 [] body_libwifi_create_tag) = Some (Some (2 ^ 64 - 12), pre)
  else exists rho',
    exec 40 m rho0 [] body_libwifi_create_tag =
      Returned (Some (2 + tl)) rho'
        (pre ++ [("memset", [q; 0; tl]); ("memcpy", [q; wrap u64 (rho "tag_data"); tl])]) /\
    rho' "tagged_parameter->header.tag_len" = tl mod 256 /\ rho' "tagged_parameter->header.tag_num" = num mod 256 /\
    rho' "tagged_parameter->body" = q.
Proof. exact code_create_tag. Qed.
Print Assumptions c15_code_create_tag.
