(* C15 - allocation failure is reported as an error, never a crash or silent loss.  Statements only.
   (Absence of faults and of leaks under every schedule is C14's c14_* theorems, which quantify over sc.) *)
From LW Require Import Base.Bytes Model.TagIter Spec.TagSpec Model.Tags Gen.Consts Model.Alloc Model.AllocScen Proofs.AllocProofs.
Local Open Scope Z_scope.

Definition tags_inv (t : tags) : Prop := exists l, wf_tags l /\ t_bytes t = enc l /\ t_len t = zlen (t_bytes t).
Definition ptr_inv (o : tobj) (h : heap) : Prop :=
  (t_len (o_tags o) = 0 \/ exists b, o_ptr o = Some b /\ is_live b h = true) /\
  (forall b, o_ptr o = Some b -> is_live b h = true).

(* a tag that could not be stored is never reported as stored; one that is reported as stored is stored;
   a failed add changes nothing *)
Theorem c15_add_reported : forall sc o h num data o' r h',
  tags_inv (o_tags o) -> ptr_inv o h -> wf_tag (num, data) ->
  sk_quick_add sc o num data h = Done (o', r, h') ->
  (r = 0 /\ o_tags o' = fst (quick_add_tag (o_tags o) num data)) \/
  (r = - ENOMEM /\ o_tags o' = o_tags o /\ exists k, (h_count h <= k < h_count h')%nat /\ sc k = true).
Proof. exact add_reported. Qed.
Print Assumptions c15_add_reported.

(* removal never loses anything it was not asked to remove, whatever realloc does *)
Theorem c15_remove_safe : forall sc o h num o' r h',
  tags_inv (o_tags o) -> ptr_inv o h ->
  sk_remove_tag sc o num h = Done (o', r, h') ->
  exists t', remove_tag (o_tags o) num = Done (t', r) /\ o_tags o' = t'.
Proof. exact remove_safe. Qed.
Print Assumptions c15_remove_safe.

(* the setters are failure-atomic: success means the element was replaced; on any failure the stored list is unchanged *)
Theorem c15_set_atomic : forall sc o h num data o' r h',
  tags_inv (o_tags o) -> ptr_inv o h -> wf_tag (num, data) ->
  sk_set_tag sc o num data h = Done (o', r, h') ->
  (r = 0 /\ set_tag (o_tags o) num data = Done (o_tags o', 0)) \/
  (r < 0 /\ o_tags o' = o_tags o).
Proof. exact set_atomic. Qed.
Print Assumptions c15_set_atomic.

(* action details: a failed or refused extension keeps what was stored *)
Theorem c15_detail_reported : forall sc d data h d' r h', 0 <= d_len d ->
  sk_add_detail sc d data h = Done (d', r, h') ->
  (r = - ENOMEM /\ d' = d) \/ (r = - Model.TagIter.EINVAL /\ d' = d) \/ (0 <= r /\ d_bytes d' = d_bytes d ++ data).
Proof. exact detail_reported. Qed.
Print Assumptions c15_detail_reported.

(* classification and every copying parser: the call whose allocation failed returns -ENOMEM *)
Theorem c15_copy_parser_reported : forall sc reached n code h p r h',
  sk_copy_parser sc reached n code h = (p, r, h') ->
  (reached = true /\ sc (h_count h) = true /\ r = - ENOMEM /\ p = None) \/
  (reached = true /\ sc (h_count h) = false /\ r = code /\ exists b, p = Some b /\ is_live b h' = true) \/
  (reached = false /\ r = code /\ p = None /\ h' = h).
Proof. exact copy_parser_reported. Qed.
Print Assumptions c15_copy_parser_reported.

From Coq Require Import String.
From LW Require Import Base.CExpr Gen.Sites.
Local Open Scope string_scope.
Local Open Scope Z_scope.
(* ---- the six SSID / channel setters AS TRANSLATED (Gen/Sites.v): count, then add, then remove the old element LAST and only when the addition succeeded; any failing step
   ends the routine with its answer and nothing further is called.  setter_ok is defined in Proofs/CodeSetters.v; it quantifies over EVERY environment, so a local read before
   it is assigned (a dropped initialiser) falsifies it - no_initialiser_refuted, remove_before_add_refuted show it on two altered bodies. ---- *)
From LW Require Import Gen.Consts Proofs.CodeSetters.


Theorem c15_code_set_beacon_ssid : setter_ok body_libwifi_set_beacon_ssid c_TAG_SSID "beacon->tags.length".
Proof. exact code_set_beacon_ssid. Qed.
Print Assumptions c15_code_set_beacon_ssid.


Theorem c15_code_set_beacon_channel : setter_ok body_libwifi_set_beacon_channel c_TAG_DS_PARAMETER "beacon->tags.length".
Proof. exact code_set_beacon_channel. Qed.
Print Assumptions c15_code_set_beacon_channel.


Theorem c15_code_set_probe_resp_ssid : setter_ok body_libwifi_set_probe_resp_ssid c_TAG_SSID "probe_resp->tags.length".
Proof. exact code_set_probe_resp_ssid. Qed.
Print Assumptions c15_code_set_probe_resp_ssid.


Theorem c15_code_set_probe_resp_channel : setter_ok body_libwifi_set_probe_resp_channel c_TAG_DS_PARAMETER "probe_resp->tags.length".
Proof. exact code_set_probe_resp_channel. Qed.
Print Assumptions c15_code_set_probe_resp_channel.


Theorem c15_code_set_assoc_resp_channel : setter_ok body_libwifi_set_assoc_resp_channel c_TAG_DS_PARAMETER "assoc_resp->tags.length".
Proof. exact code_set_assoc_resp_channel. Qed.
Print Assumptions c15_code_set_assoc_resp_channel.


Theorem c15_code_set_reassoc_resp_channel : setter_ok body_libwifi_set_reassoc_resp_channel c_TAG_DS_PARAMETER "reassoc_resp->tags.length".
Proof. exact code_set_reassoc_resp_channel. Qed.
Print Assumptions c15_code_set_reassoc_resp_channel.

