(* C10 - non-vacuity witnesses and concrete instances.

   Covered (every theorem of Properties_C10 has the hypotheses `carried present` and `info_in_range info`):
     c10_layout              nonvacuous, instance (the emitted bytes written out, two selections)
     c10_valid_header        nonvacuous, instance (version, length, present word, offsets list, field slices)
     c10_roundtrip           nonvacuous (tail = start of a beacon, strict oracle), instance (decoded record)
     c10_classify_invariant  nonvacuous (ACK frame, FCS announced / not announced, and a refused frame),
                             instance (classified record written out; refusal code)
   Skipped: none.

   Selections used:
     pA = all eleven carried fields (bits 1 2 3 5 10 14 15 16 17 19 22): the MCS field ends at 25, so SEVEN
          zero padding bytes precede the 8-aligned timestamp at 32; header length 44; flags = 0x10 (FCS).
     pB = FLAGS | CHANNEL | DBM_ANTSIGNAL | RX_FLAGS (bits 1 3 5 14): one padding byte after the flags
          (channel 2-aligned at 10) and one after the signal (RX flags at 16); header length 18.
   Note: TSFT (bit 0) and ANTENNA (bit 11) are not `carried`; the 8-aligned carried field is TIMESTAMP (22). *)
From LW Require Import Base.Bytes Model.Radiotap Model.RadiotapGen Model.Frame Spec.RadiotapSpec
  Spec.RadiotapGenSpec Spec.FrameSpec Properties.Properties_C10.
Local Open Scope Z_scope.

Ltac closed_cmp := vm_compute; first [reflexivity | discriminate | (intro; discriminate)].
Ltac wf_bytes := apply wfbytesb_spec; vm_compute; reflexivity.

(* `carried` from its boolean version (Spec.RadiotapGenSpec.carriedb) *)
Lemma carried_by_compute p : carriedb p = true -> carried p.
Proof.
  unfold carriedb, carried. rewrite !andb_true_iff, forallb_forall. intros [[H1 H2] H3].
  split; [lia|]. intros b Hb Ht.
  assert (Hin : In b [0;1;2;3;4;5;6;7;8;9;10;11;12;13;14;15;16;17;18;19;20;21;22]) by (simpl; lia).
  specialize (H3 b Hin). rewrite Ht in H3. cbn [negb orb] in H3.
  apply existsb_exists in H3. destruct H3 as [x [Hx Hbx]]. apply Z.eqb_eq in Hbx. subst x. exact Hx.
Qed.

(* a received-frame description: 2437 MHz OFDM, 6 Mb/s, -42 dBm, FCS included, MCS 7, a 64-bit timestamp,
   and two per-antenna entries (which no carried field transports) *)
Definition infoA : rt_info :=
  {| i_chan_flags := 192; i_chan_freq := 2437; i_chan_center := 6; i_chan_band := 1; i_rate_raw := 12;
     i_antennas := [(0, 200); (1, 190)]; i_signal := 214; i_flags := 16; i_ext_flags := 0; i_rx_flags := 2;
     i_tx_flags := 8; i_mcs_known := 7; i_mcs_flags := 1; i_mcs_mcs := 7; i_tx_power := 20;
     i_ts := 1234605616436508552; i_ts_accuracy := 16; i_ts_unit := 1; i_ts_flags := 3;
     i_rts_retries := 2; i_data_retries := 5; i_length := 0 |}.
(* 5180 MHz, short preamble, no FCS, maximal 16-bit RX flags *)
Definition infoB : rt_info :=
  {| i_chan_flags := 320; i_chan_freq := 5180; i_chan_center := 0; i_chan_band := 0; i_rate_raw := 108;
     i_antennas := []; i_signal := 191; i_flags := 2; i_ext_flags := 0; i_rx_flags := 65535;
     i_tx_flags := 0; i_mcs_known := 0; i_mcs_flags := 0; i_mcs_mcs := 0; i_tx_power := 0;
     i_ts := 0; i_ts_accuracy := 0; i_ts_unit := 0; i_ts_flags := 0;
     i_rts_retries := 0; i_data_retries := 0; i_length := 0 |}.
Definition pA : Z := 4965422.   (* 0x004bc42e *)
Definition pB : Z := 16426.     (* 0x0000402a *)

Definition renderA : list byte :=
  [0; 0; 44; 0; 46; 196; 75; 0;
   16; 12; 133; 9; 192; 0; 214; 20; 2; 0; 8; 0; 2; 5; 7; 1; 7;
   0; 0; 0; 0; 0; 0; 0;
   136; 119; 102; 85; 68; 51; 34; 17; 16; 0; 1; 3].
Definition renderB : list byte :=
  [0; 0; 18; 0; 42; 64; 0; 0;  2; 0; 60; 20; 64; 1; 191; 0; 255; 255].
(* what a decoder must report for (pA, infoA): every carried field, band/channel derived, no antennas *)
Definition decodedA : rt_info :=
  {| i_chan_flags := 192; i_chan_freq := 2437; i_chan_center := 6; i_chan_band := 1; i_rate_raw := 12;
     i_antennas := []; i_signal := 214; i_flags := 16; i_ext_flags := 0; i_rx_flags := 2;
     i_tx_flags := 8; i_mcs_known := 7; i_mcs_flags := 1; i_mcs_mcs := 7; i_tx_power := 20;
     i_ts := 1234605616436508552; i_ts_accuracy := 16; i_ts_unit := 1; i_ts_flags := 3;
     i_rts_retries := 2; i_data_retries := 5; i_length := 44 |}.
(* ... and for (pB, infoB): the unselected rate (108) is dropped *)
Definition decodedB : rt_info :=
  {| i_chan_flags := 320; i_chan_freq := 5180; i_chan_center := 36; i_chan_band := 2; i_rate_raw := 0;
     i_antennas := []; i_signal := 191; i_flags := 2; i_ext_flags := 0; i_rx_flags := 65535;
     i_tx_flags := 0; i_mcs_known := 0; i_mcs_flags := 0; i_mcs_mcs := 0; i_tx_power := 0;
     i_ts := 0; i_ts_accuracy := 0; i_ts_unit := 0; i_ts_flags := 0;
     i_rts_retries := 0; i_data_retries := 0; i_length := 18 |}.

Example carried_A : carried pA. Proof. apply carried_by_compute; vm_compute; reflexivity. Qed.
Example carried_B : carried pB. Proof. apply carried_by_compute; vm_compute; reflexivity. Qed.
Example range_A : info_in_range infoA. Proof. unfold info_in_range; repeat apply conj; closed_cmp. Qed.
Example range_B : info_in_range infoB. Proof. unfold info_in_range; repeat apply conj; closed_cmp. Qed.
(* the selections really are the bit sets named above *)
Example pA_bits : filter (Z.testbit pA) [0;1;2;3;4;5;6;7;8;9;10;11;12;13;14;15;16;17;18;19;20;21;22;23;24;25;26;27;28;29;30;31]
                  = [1;2;3;5;10;14;15;16;17;19;22].
Proof. vm_compute; reflexivity. Qed.
Example pB_bits : filter (Z.testbit pB) [0;1;2;3;4;5;6;7;8;9;10;11;12;13;14;15;16;17;18;19;20;21;22;23;24;25;26;27;28;29;30;31]
                  = [1;3;5;14].
Proof. vm_compute; reflexivity. Qed.

(* ---------------- c10_layout ---------------- *)
Example c10_layout_nonvacuous : (carried pA /\ info_in_range infoA) /\ (carried pB /\ info_in_range infoB).
Proof. exact (conj (conj carried_A range_A) (conj carried_B range_B)). Qed.
Example c10_layout_instance :
  create_radiotap pA infoA = Done renderA /\ create_radiotap pB infoB = Done renderB.
Proof.
  split.
  - rewrite (c10_layout pA infoA carried_A range_A). vm_compute; reflexivity.
  - rewrite (c10_layout pB infoB carried_B range_B). vm_compute; reflexivity.
Qed.

(* ---------------- c10_valid_header ---------------- *)
Example c10_valid_header_nonvacuous : (carried pA /\ info_in_range infoA) /\ (carried pB /\ info_in_range infoB).
Proof. exact c10_layout_nonvacuous. Qed.
Example offsets_A : s_field_offsets pA =
  ([(1, 8); (2, 9); (3, 10); (5, 14); (10, 15); (14, 16); (15, 18); (16, 20); (17, 21); (19, 22); (22, 32)], 44).
Proof. vm_compute; reflexivity. Qed.
Example offsets_B : s_field_offsets pB = ([(1, 8); (3, 10); (5, 14); (14, 16)], 18).
Proof. vm_compute; reflexivity. Qed.
Example c10_valid_header_instance :
  s_render pA infoA = renderA /\
  znth renderA 0 = 0 /\ le16 renderA 2 = 44 /\ le32 renderA 4 = pA /\ zlen renderA = 44 /\
  (* channel at 10, MCS at 22, timestamp at 32 (after seven padding bytes) *)
  slice 10 4 renderA = [133; 9; 192; 0] /\
  slice 22 3 renderA = [7; 1; 7] /\
  slice 32 12 renderA = [136; 119; 102; 85; 68; 51; 34; 17; 16; 0; 1; 3].
Proof.
  assert (E : s_render pA infoA = renderA) by (vm_compute; reflexivity).
  pose proof (c10_valid_header pA infoA carried_A range_A) as H. cbv zeta in H. rewrite E in H.
  destruct H as (H0 & H1 & H2 & H3 & _ & HF).
  split; [exact E|]. split; [exact H0|].
  split; [rewrite H1; vm_compute; reflexivity|]. split; [exact H2|].
  split; [rewrite H3, offsets_A; reflexivity|].
  assert (In3 : In (3, 10) (fst (s_field_offsets pA))) by (rewrite offsets_A; simpl; tauto).
  assert (In19 : In (19, 22) (fst (s_field_offsets pA))) by (rewrite offsets_A; simpl; tauto).
  assert (In22 : In (22, 32) (fst (s_field_offsets pA))) by (rewrite offsets_A; simpl; tauto).
  pose proof (HF _ _ In3) as F3. pose proof (HF _ _ In19) as F19. pose proof (HF _ _ In22) as F22.
  change (zlen (s_field_bytes infoA 3)) with 4 in F3. change (zlen (s_field_bytes infoA 19)) with 3 in F19.
  change (zlen (s_field_bytes infoA 22)) with 12 in F22.
  split; [|split].
  - rewrite F3. vm_compute; reflexivity.
  - rewrite F19. vm_compute; reflexivity.
  - rewrite F22. vm_compute; reflexivity.
Qed.
Example c10_valid_header_instance_B :
  s_render pB infoB = renderB /\ le16 renderB 2 = zlen renderB /\ le32 renderB 4 = pB /\ zlen renderB = 18 /\
  slice 16 2 renderB = [255; 255].
Proof.
  assert (E : s_render pB infoB = renderB) by (vm_compute; reflexivity).
  pose proof (c10_valid_header pB infoB carried_B range_B) as H. cbv zeta in H. rewrite E in H.
  destruct H as (_ & H1 & H2 & H3 & _ & HF).
  split; [exact E|]. split; [exact H1|]. split; [exact H2|].
  split; [rewrite H3, offsets_B; reflexivity|].
  assert (In14 : In (14, 16) (fst (s_field_offsets pB))) by (rewrite offsets_B; simpl; tauto).
  pose proof (HF _ _ In14) as F. change (zlen (s_field_bytes infoB 14)) with 2 in F.
  rewrite F. vm_compute; reflexivity.
Qed.

(* ---------------- c10_roundtrip ---------------- *)
(* what follows the header: the 24-byte MAC header of a beacon (broadcast, BSSID 00:16:3e:11:22:33), the
   timestamp / interval / capability fields and an SSID element "lab" *)
Definition beacon_start : list byte :=
  [128;0; 0;0; 255;255;255;255;255;255; 0;22;62;17;34;51; 0;22;62;17;34;51; 16;0;
   1;2;3;4;5;6;7;8; 100;0; 1;4;  0;3;108;97;98].
Definition bufA : list byte := s_render pA infoA ++ beacon_start.
Definition bufB : list byte := s_render pB infoB ++ beacon_start.

Example c10_roundtrip_nonvacuous :
  (carried pA /\ info_in_range infoA /\ wfbytes beacon_start /\ agrees (rd_strict bufA) bufA) /\
  (carried pB /\ info_in_range infoB /\ wfbytes beacon_start /\ agrees (rd_env bufB (fun _ => 255)) bufB).
Proof.
  assert (W : wfbytes beacon_start) by wf_bytes.
  exact (conj (conj carried_A (conj range_A (conj W (agrees_strict bufA))))
              (conj carried_B (conj range_B (conj W (agrees_env bufB _))))).
Qed.
Example c10_roundtrip_instance :
  parse_radiotap_info (rd_strict bufA) (zlen bufA) = Done (Ok decodedA) /\
  parse_radiotap_info (rd_env bufB (fun _ => 255)) (zlen bufB) = Done (Ok decodedB).
Proof.
  destruct c10_roundtrip_nonvacuous as [(CA & RA & WA & AA) (CB & RB & WB & AB)].
  split.
  - unfold bufA in *. rewrite (c10_roundtrip pA infoA beacon_start _ CA RA WA AA). vm_compute; reflexivity.
  - unfold bufB in *. rewrite (c10_roundtrip pB infoB beacon_start _ CB RB WB AB). vm_compute; reflexivity.
Qed.
Example restrict_values : s_restrict pA infoA = decodedA /\ s_restrict pB infoB = decodedB.
Proof. split; vm_compute; reflexivity. Qed.

(* ---------------- c10_classify_invariant ---------------- *)
(* an ACK control frame: frame control d4 00, duration 0, receiver 00:16:3e:11:22:33 *)
Definition ack : list byte := [212;0;0;0; 0;22;62;17;34;51].
Definition fcs4 : list byte := [222;173;190;239].
(* frame control type 3 (extension): refused by the classifier *)
Definition ext_frame : list byte := [12;0; 1;2;3;4;5;6].

Example c10_classify_invariant_nonvacuous :
  (* FCS announced: flags selected and 0x10 set, four FCS bytes follow the frame *)
  (carried pA /\ info_in_range infoA /\ wfbytes ack /\ wfbytes fcs4 /\
   zlen fcs4 = (if announces_fcs pA infoA then 4 else 0)) /\
  (* FCS not announced: nothing follows the frame *)
  (carried pB /\ info_in_range infoB /\ wfbytes ack /\ wfbytes [] /\
   zlen (@nil byte) = (if announces_fcs pB infoB then 4 else 0)) /\
  (* a frame the classifier refuses *)
  (carried pA /\ info_in_range infoA /\ wfbytes ext_frame /\ wfbytes fcs4 /\
   zlen fcs4 = (if announces_fcs pA infoA then 4 else 0)).
Proof.
  assert (WA : wfbytes ack) by wf_bytes. assert (WF : wfbytes fcs4) by wf_bytes.
  assert (WE : wfbytes ext_frame) by wf_bytes. assert (WN : wfbytes []) by constructor.
  assert (LA : zlen fcs4 = (if announces_fcs pA infoA then 4 else 0)) by (vm_compute; reflexivity).
  assert (LB : zlen (@nil byte) = (if announces_fcs pB infoB then 4 else 0)) by (vm_compute; reflexivity).
  exact (conj (conj carried_A (conj range_A (conj WA (conj WF LA))))
        (conj (conj carried_B (conj range_B (conj WA (conj WN LB))))
              (conj carried_A (conj range_A (conj WE (conj WF LA)))))).
Qed.
Example announces_values : announces_fcs pA infoA = true /\ announces_fcs pB infoB = false.
Proof. split; vm_compute; reflexivity. Qed.

Definition ack_frame : frame :=
  {| f_rtap := None; f_flags := 0; f_fc := [212; 0]; f_len := 10; f_header := [212; 0; 0; 0];
     f_header_len := 4; f_body := [0; 22; 62; 17; 34; 51] |}.
Example ack_classified : spec_classify ack None = Ok ack_frame.
Proof. vm_compute; reflexivity. Qed.
Example ext_refused : spec_classify ext_frame None = Err (-22).
Proof. vm_compute; reflexivity. Qed.

Example c10_classify_invariant_instance :
  spec_classify (s_render pA infoA ++ ack ++ fcs4) (Some (Ok (s_restrict pA infoA))) =
    Ok {| f_rtap := Some decodedA; f_flags := 9 (* FL_FCS | FL_RADIOTAP *); f_fc := [212; 0]; f_len := 10;
          f_header := [212; 0; 0; 0]; f_header_len := 4; f_body := [0; 22; 62; 17; 34; 51] |} /\
  spec_classify (s_render pB infoB ++ ack ++ []) (Some (Ok (s_restrict pB infoB))) =
    Ok {| f_rtap := Some decodedB; f_flags := 8 (* FL_RADIOTAP *); f_fc := [212; 0]; f_len := 10;
          f_header := [212; 0; 0; 0]; f_header_len := 4; f_body := [0; 22; 62; 17; 34; 51] |} /\
  spec_classify (s_render pA infoA ++ ext_frame ++ fcs4) (Some (Ok (s_restrict pA infoA))) = Err (-22).
Proof.
  destruct c10_classify_invariant_nonvacuous as
    [(CA & RA & WA & WF & LA) [(CB & RB & WB & WN & LB) (_ & _ & WE & _ & _)]].
  repeat apply conj.
  - pose proof (c10_classify_invariant pA infoA ack fcs4 CA RA WA WF LA) as H.
    cbv zeta in H. rewrite ack_classified in H. cbv beta iota in H. rewrite H. vm_compute; reflexivity.
  - pose proof (c10_classify_invariant pB infoB ack [] CB RB WB WN LB) as H.
    cbv zeta in H. rewrite ack_classified in H. cbv beta iota in H. rewrite H. vm_compute; reflexivity.
  - pose proof (c10_classify_invariant pA infoA ext_frame fcs4 CA RA WE WF LA) as H.
    cbv zeta in H. rewrite ext_refused in H. cbv beta iota in H. exact H.
Qed.
