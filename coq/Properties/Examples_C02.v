(* C02 - non-vacuity witnesses and worked instances for Properties_C02.v.
   Byte strings: a beacon built with the Spec's s_beacon (SSID "home", channel 6, rates, an RSN element and a
   WPA vendor element; 101 bytes), the same beacon behind a 23-byte radiotap header (TSFT, FLAGS announcing
   an FCS, RATE, CHANNEL, DBM_ANTSIGNAL; channel needs no padding after rate, TSFT is 8-aligned) and followed
   by its real FCS, behind the minimal 8-byte radiotap header, a QoS data frame (26-byte header, LLC/SNAP +
   IPv4/ICMP body), the beacon cut to 20 bytes, and a frame of the reserved type 3.
   Covered:  c02_accept_iff       (nonvacuous; instances: both directions on the beacon, refusal of the cut
                                   beacon and of the type-3 frame obtained through the iff),
             c02_data_extract     (nonvacuous + instance: QoS data frame without radiotap and behind radiotap+FCS,
                                   receiver / transmitter / body written out; the beacon is refused),
             c02_classify_plain   (only wfbytes/agrees: instance on the beacon with rd_strict; the cut beacon),
             c02_classify_radiotap(only wfbytes/agrees: instances with the 23-byte header + FCS, with the minimal
                                   header, and on a buffer that does not start with a radiotap header),
             c02_layout           (no hypotheses, inner ranges only: instance at frame control 0x88 0x80 / 0x80 0x00
                                   and the reserved QoS subtype 13).
   Skipped:  nothing. *)
From Coq Require Import ZArith Lia List Bool.
From LW Require Import Base.Bytes Spec.TagSpec Model.Radiotap Model.Frame Spec.FrameSpec Spec.GenSpec Spec.CRCSpec
  Properties.Properties_C02.
Local Open Scope Z_scope.

(* ---------- concrete byte strings ---------- *)
Definition bcast : list byte := [255; 255; 255; 255; 255; 255].
Definition ap_mac : list byte := [0; 22; 62; 17; 34; 51].            (* 00:16:3e:11:22:33 *)
Definition sta_mac : list byte := [160; 136; 180; 68; 85; 102].      (* a0:88:b4:44:55:66 *)
Definition home : list byte := [104; 111; 109; 101].                  (* "home" *)
(* RSN: version 1, group CCMP, one pairwise CCMP, one AKM PSK, capabilities 0 *)
Definition rsn_body : list byte := [1;0; 0;15;172;4; 1;0; 0;15;172;4; 1;0; 0;15;172;2; 0;0].
(* WPA: 00-50-F2-01, version 1, group TKIP, pairwise TKIP + CCMP, AKM PSK *)
Definition wpa_body : list byte :=
  [0;80;242;1; 1;0; 0;80;242;2; 2;0; 0;80;242;2; 0;80;242;4; 1;0; 0;80;242;2].
Definition extras : list tag := [(1, [130; 132; 139; 150]); (48, rsn_body); (221, wpa_body)].
Definition beacon_bytes : list byte := s_beacon bcast ap_mac ap_mac home 6 1311768467463790320 extras.

Definition rtap_hdr : list byte :=
  [0; 0; 23; 0; 47; 0; 0; 0;  1; 2; 3; 4; 5; 6; 7; 8;  16; 12; 133; 9; 160; 0; 206].
Definition rtap_min : list byte := [0; 0; 8; 0; 0; 0; 0; 0].
Definition beacon_rt_bytes : list byte := rtap_hdr ++ beacon_bytes ++ fcs_octets beacon_bytes.
Definition beacon_rtmin_bytes : list byte := rtap_min ++ beacon_bytes.

(* QoS data, to-DS: receiver (address 1) = access point, transmitter (address 2) = station *)
Definition data_body : list byte := [170; 170; 3; 0; 0; 0; 8; 0] ++
  [69; 0; 0; 28; 0; 1; 0; 0; 64; 1; 247; 127; 192; 168; 1; 10; 192; 168; 1; 1; 8; 0; 247; 253; 0; 1; 0; 1].
Definition data_bytes : list byte :=
  [136; 1; 44; 0] ++ ap_mac ++ sta_mac ++ ap_mac ++ [48; 0] ++ [7; 0] ++ data_body.
Definition data_rt_bytes : list byte := rtap_hdr ++ data_bytes ++ fcs_octets data_bytes.

Definition beacon_cut : list byte := zfirstn 20 beacon_bytes.
Definition type3_bytes : list byte := [12; 0] ++ zskipn 2 beacon_bytes.     (* type bits 11: reserved *)

Definition frame0 : frame :=
  {| f_rtap := None; f_flags := 0; f_fc := []; f_len := 0; f_header := []; f_header_len := 0; f_body := [] |}.
Definition classified (buf : list byte) (rtres : option (outcome rt_info)) : frame :=
  match spec_classify buf rtres with Ok f => f | Err _ => frame0 end.
Definition decoded (buf : list byte) : rt_info :=
  match parse_radiotap_info (rd_strict buf) (zlen buf) with Done (Ok i) => i | _ => info0 end.

Definition info_rt : rt_info := Eval vm_compute in decoded beacon_rt_bytes.
Definition info_min : rt_info := Eval vm_compute in decoded beacon_rtmin_bytes.
Definition f_beacon : frame := Eval vm_compute in classified beacon_bytes None.
Definition f_beacon_rt : frame := Eval vm_compute in classified beacon_rt_bytes (Some (Ok info_rt)).
Definition f_beacon_rtmin : frame := Eval vm_compute in classified beacon_rtmin_bytes (Some (Ok info_min)).
Definition f_data : frame := Eval vm_compute in classified data_bytes None.
Definition f_data_rt : frame := Eval vm_compute in classified data_rt_bytes (Some (Ok info_rt)).

(* the data frame sits behind the same radiotap header, so its decode gives the same rt_info *)
Example c02_info_rt_is_decoded : decoded data_rt_bytes = info_rt /\ decoded beacon_rt_bytes = info_rt.
Proof. vm_compute. split; reflexivity. Qed.

Ltac wf := apply wfbytesb_spec; vm_compute; reflexivity.
Lemma wf_beacon : wfbytes beacon_bytes. Proof. wf. Qed.
Lemma wf_beacon_rt : wfbytes beacon_rt_bytes. Proof. wf. Qed.
Lemma wf_beacon_rtmin : wfbytes beacon_rtmin_bytes. Proof. wf. Qed.
Lemma wf_data : wfbytes data_bytes. Proof. wf. Qed.
Lemma wf_data_rt : wfbytes data_rt_bytes. Proof. wf. Qed.
Lemma wf_cut : wfbytes beacon_cut. Proof. wf. Qed.
Lemma wf_type3 : wfbytes type3_bytes. Proof. wf. Qed.

(* what the classified beacon looks like *)
Example c02_f_beacon_shape :
  f_fc f_beacon = [128; 0] /\ f_flags f_beacon = 0 /\ f_len f_beacon = 101 /\ f_header_len f_beacon = 24 /\
  f_header f_beacon = [128; 0; 0; 0] ++ bcast ++ ap_mac ++ ap_mac ++ [0; 0] /\
  f_body f_beacon = zskipn 24 beacon_bytes /\ zlen (f_body f_beacon) = 77 /\ f_rtap f_beacon = None.
Proof. vm_compute. repeat split; reflexivity. Qed.

(* ---------- c02_classify_plain ---------- *)
Example c02_classify_plain_instance :
  get_wifi_frame (rd_strict beacon_bytes) (zlen beacon_bytes) false = Done (Ok f_beacon).
Proof.
  rewrite (c02_classify_plain beacon_bytes (rd_strict beacon_bytes) wf_beacon (agrees_strict _)).
  vm_compute. reflexivity.
Qed.
(* 20 bytes of a management frame: refused, and with the strict oracle no read left the 20 bytes *)
Example c02_classify_plain_instance_cut :
  get_wifi_frame (rd_strict beacon_cut) (zlen beacon_cut) false = Done (Err (-22)).
Proof.
  rewrite (c02_classify_plain beacon_cut (rd_strict beacon_cut) wf_cut (agrees_strict _)).
  vm_compute. reflexivity.
Qed.

(* ---------- c02_classify_radiotap ---------- *)
(* 23-byte header whose FLAGS field announces an FCS: header stripped, 4 trailing bytes dropped,
   flags = FCS_PRESENT | RADIOTAP_PRESENT = 9, header and body equal to those of the bare beacon *)
Example c02_classify_radiotap_instance :
  parse_radiotap_info (rd_strict beacon_rt_bytes) (zlen beacon_rt_bytes) = Done (Ok info_rt) /\
  get_wifi_frame (rd_strict beacon_rt_bytes) (zlen beacon_rt_bytes) true = Done (Ok f_beacon_rt) /\
  i_length info_rt = 23 /\ i_flags info_rt = 16 /\ i_chan_freq info_rt = 2437 /\ i_rate_raw info_rt = 12 /\
  zlen beacon_rt_bytes = 128 /\
  f_flags f_beacon_rt = 9 /\ f_len f_beacon_rt = 101 /\ f_rtap f_beacon_rt = Some info_rt /\
  f_header f_beacon_rt = f_header f_beacon /\ f_body f_beacon_rt = f_body f_beacon.
Proof.
  destruct (c02_classify_radiotap beacon_rt_bytes (rd_strict beacon_rt_bytes) wf_beacon_rt (agrees_strict _))
    as [rtres [H1 H2]].
  assert (E : rtres = Ok info_rt) by (vm_compute in H1; vm_compute; congruence).
  subst rtres. split; [exact H1|]. split; [rewrite H2; vm_compute; reflexivity|].
  vm_compute. repeat split; reflexivity.
Qed.
(* minimal header, no FCS: flags = RADIOTAP_PRESENT = 8, nothing dropped at the end *)
Example c02_classify_radiotap_instance_min :
  parse_radiotap_info (rd_strict beacon_rtmin_bytes) (zlen beacon_rtmin_bytes) = Done (Ok info_min) /\
  get_wifi_frame (rd_strict beacon_rtmin_bytes) (zlen beacon_rtmin_bytes) true = Done (Ok f_beacon_rtmin) /\
  i_length info_min = 8 /\ f_flags f_beacon_rtmin = 8 /\ f_len f_beacon_rtmin = 101 /\
  f_body f_beacon_rtmin = f_body f_beacon.
Proof.
  destruct (c02_classify_radiotap beacon_rtmin_bytes (rd_strict beacon_rtmin_bytes) wf_beacon_rtmin (agrees_strict _))
    as [rtres [H1 H2]].
  assert (E : rtres = Ok info_min) by (vm_compute in H1; vm_compute; congruence).
  subst rtres. split; [exact H1|]. split; [rewrite H2; vm_compute; reflexivity|].
  vm_compute. repeat split; reflexivity.
Qed.
(* the bare beacon handed over as if it had a radiotap header (version octet 0x80): the decode refuses, so
   does the classifier, and nothing is read outside the buffer *)
Example c02_classify_radiotap_instance_not_radiotap :
  parse_radiotap_info (rd_strict beacon_bytes) (zlen beacon_bytes) = Done (Err (-22)) /\
  get_wifi_frame (rd_strict beacon_bytes) (zlen beacon_bytes) true = Done (Err (-22)).
Proof.
  destruct (c02_classify_radiotap beacon_bytes (rd_strict beacon_bytes) wf_beacon (agrees_strict _))
    as [rtres [H1 H2]].
  assert (E : rtres = Err (-22)) by (vm_compute in H1; congruence).
  subst rtres. split; [exact H1 | rewrite H2; reflexivity].
Qed.

(* ---------- c02_layout ---------- *)
Example c02_layout_instance :
  (fc_type [136; 128] = 2 /\ fc_subtype [136; 128] = 8 /\ (fc_ordered [136; 128] =? 0) = false) /\
  (fc_type [128; 0] = 0 /\ fc_subtype [128; 0] = 8 /\ (fc_ordered [128; 0] =? 0) = true) /\
  is_qos_subtype 8 = true /\ is_qos_subtype 13 = false /\ is_qos_subtype 4 = false.
Proof.
  destruct c02_layout as [_ [_ [_ [_ [_ [_ [Hfc Hq]]]]]]].
  pose proof (Hfc 136 128 ltac:(lia) ltac:(lia)) as [A1 [A2 A3]].
  pose proof (Hfc 128 0 ltac:(lia) ltac:(lia)) as [B1 [B2 B3]].
  rewrite A1, A2, A3, B1, B2, B3, (Hq 8), (Hq 13), (Hq 4) by lia.
  vm_compute. repeat split; reflexivity.
Qed.

(* ---------- c02_accept_iff ---------- *)
Example c02_accept_iff_nonvacuous : wfbytes beacon_bytes /\ wfbytes beacon_cut /\ wfbytes type3_bytes.
Proof. exact (conj wf_beacon (conj wf_cut wf_type3)). Qed.

(* left to right: from the classification result to the header condition *)
Example c02_accept_iff_instance_fwd :
  exists fc0 fc1 rest hl, beacon_bytes = fc0 :: fc1 :: rest /\
    s_hdr_len (s_type fc0) (s_subtype fc0) (s_ordered fc1) = Some hl /\ hl <= zlen beacon_bytes.
Proof.
  apply (proj1 (c02_accept_iff beacon_bytes wf_beacon)). exists f_beacon. vm_compute. reflexivity.
Qed.
(* right to left: frame control 0x80 0x00 is management/beacon/not ordered, header 24 <= 101, hence accepted *)
Example c02_accept_iff_instance_bwd : exists f, spec_classify beacon_bytes None = Ok f.
Proof.
  apply (proj2 (c02_accept_iff beacon_bytes wf_beacon)).
  exists 128, 0, (zskipn 2 beacon_bytes), 24. split; [vm_compute; reflexivity|].
  split; [vm_compute; reflexivity | vm_compute; discriminate].
Qed.
(* 20 bytes are fewer than the 24 the frame control implies: no frame, hence (through the iff) no header length fits *)
Example c02_accept_iff_instance_cut :
  ~ (exists f, spec_classify beacon_cut None = Ok f) /\
  ~ (exists fc0 fc1 rest hl, beacon_cut = fc0 :: fc1 :: rest /\
       s_hdr_len (s_type fc0) (s_subtype fc0) (s_ordered fc1) = Some hl /\ hl <= zlen beacon_cut).
Proof.
  assert (N : ~ (exists f, spec_classify beacon_cut None = Ok f)).
  { intros [f Hf]. vm_compute in Hf. discriminate. }
  split; [exact N|]. intro H. apply N. apply (proj2 (c02_accept_iff beacon_cut wf_cut)). exact H.
Qed.
(* reserved type 3: long enough, but no header length is implied *)
Example c02_accept_iff_instance_type3 :
  ~ (exists fc0 fc1 rest hl, type3_bytes = fc0 :: fc1 :: rest /\
       s_hdr_len (s_type fc0) (s_subtype fc0) (s_ordered fc1) = Some hl /\ hl <= zlen type3_bytes) /\
  s_hdr_len (s_type 12) (s_subtype 12) (s_ordered 0) = None.
Proof.
  split; [|vm_compute; reflexivity].
  intro H. apply (proj2 (c02_accept_iff type3_bytes wf_type3)) in H. destruct H as [f Hf].
  vm_compute in Hf. discriminate.
Qed.

(* ---------- c02_data_extract ---------- *)
Example c02_data_extract_nonvacuous :
  (wfbytes data_bytes /\ spec_classify data_bytes None = Ok f_data) /\
  (wfbytes data_rt_bytes /\ spec_classify data_rt_bytes (Some (Ok info_rt)) = Ok f_data_rt) /\
  (wfbytes beacon_bytes /\ spec_classify beacon_bytes None = Ok f_beacon).
Proof.
  split; [split; [exact wf_data | vm_compute; reflexivity]|].
  split; [split; [exact wf_data_rt | vm_compute; reflexivity]|].
  split; [exact wf_beacon | vm_compute; reflexivity].
Qed.

Example c02_data_extract_instance :
  parse_data f_data = Ok {| d_receiver := ap_mac; d_transmitter := sta_mac; d_body := data_body; d_body_len := 36 |} /\
  f_flags f_data = 2 /\ f_header_len f_data = 26.
Proof.
  destruct c02_data_extract_nonvacuous as [[A B] _].
  rewrite (c02_data_extract data_bytes None f_data A B). vm_compute. repeat split; reflexivity.
Qed.
(* the same frame behind radiotap + FCS (flags FCS|QOS|RADIOTAP = 11): same addresses, same 36-byte body *)
Example c02_data_extract_instance_radiotap :
  parse_data f_data_rt =
    Ok {| d_receiver := ap_mac; d_transmitter := sta_mac; d_body := data_body; d_body_len := 36 |} /\
  f_flags f_data_rt = 11 /\ zlen data_rt_bytes = 89.
Proof.
  destruct c02_data_extract_nonvacuous as [_ [[A B] _]].
  rewrite (c02_data_extract data_rt_bytes (Some (Ok info_rt)) f_data_rt A B). vm_compute. repeat split; reflexivity.
Qed.
(* a management frame is not data *)
Example c02_data_extract_instance_beacon : parse_data f_beacon = Err (-22).
Proof.
  destruct c02_data_extract_nonvacuous as [_ [_ [A B]]].
  rewrite (c02_data_extract beacon_bytes None f_beacon A B). vm_compute. reflexivity.
Qed.
