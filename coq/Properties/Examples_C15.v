(* C15 - non-vacuity witnesses and worked instances for Properties_C15.v.
   The state (o3, h3) used throughout is the one three successful libwifi_quick_add_tag calls reach from the
   empty object and the empty heap (c15_state_reached: also under the schedules that fail a later allocation);
   it holds SSID "home" and the vendor element 221 twice, one live block of 13 bytes, six allocations so far.
   c15_hyps_reachable shows in general that EVERY state reached by a well-formed history under ANY schedule
   satisfies tags_inv and ptr_inv, so these hypotheses are exactly as inhabited as the model's reachable states.
   Covered (nonvacuous + instance each, with the disjunct of the conclusion that holds):
     c15_add_reported         - success (r = 0), temporary-tag malloc fails (-ENOMEM), list realloc fails (-ENOMEM);
     c15_remove_safe          - shrink realloc succeeds / fails (r = 0 both times, same stored list);
     c15_set_atomic           - success, failing malloc, failing growth realloc (unchanged list), failing shrink
                                realloc after the replacement (still success);
     c15_detail_reported      - -ENOMEM, -EINVAL (append would pass 255), success;
     c15_copy_parser_reported - reached & failing, reached & succeeding, not reached.
   Skipped: none.
   Extra: c15_ptr_inv_needed (with a heap in which the object's block is not live the same call is a
   use-after-free fault: ptr_inv is what makes the equation hypothesis satisfiable). *)
From Coq Require Import ZArith Lia List Bool.
From LW Require Import Base.Bytes Model.TagIter Spec.TagSpec Model.Tags Gen.Consts Model.Alloc Model.AllocScen
  Proofs.TagsProofs Proofs.AllocProofs Properties.Properties_C15.
Local Open Scope Z_scope.

Lemma wf_tagb_ok t : wf_tagb t = true -> wf_tag t.
Proof.
  unfold wf_tagb, wf_tag. rewrite !andb_true_iff. intros [[[A B] C] D].
  apply wfbytesb_spec in D. repeat split; try assumption; lia.
Qed.
Lemma wf_tagsb_ok l : forallb wf_tagb l = true -> wf_tags l.
Proof.
  unfold wf_tags. rewrite forallb_forall, Forall_forall. intros H x Hx. apply wf_tagb_ok, H, Hx.
Qed.

(* schedules: none fails / exactly allocation attempt 6, 7, 8 (counted from 0) fails *)
Definition sc_ok : sched := fun _ => false.
Definition sc6 : sched := fun k => Nat.eqb k 6.
Definition sc7 : sched := fun k => Nat.eqb k 7.
Definition sc8 : sched := fun k => Nat.eqb k 8.

Definition home : list byte := [104; 111; 109; 101].      (* "home" *)
Definition cafe : list byte := [99; 97; 102; 101].         (* "cafe" *)

(* ---------- the reached state ---------- *)
Definition l3 : list tag := [(0, home); (221, [1; 2]); (221, [9])].
Definition t3 : tags := {| t_len := 13; t_bytes := [0; 4; 104; 111; 109; 101; 221; 2; 1; 2; 221; 1; 9] |}.
Definition o3 : tobj := {| o_tags := t3; o_ptr := Some 5 |}.
Definition trace3 : list ev :=
  [EMalloc 4 (Some 0); EMalloc 6 (Some 1); EFree (Some 0);
   EMalloc 2 (Some 2); ERealloc (Some 1) 10 (Some 3); EFree (Some 2);
   EMalloc 1 (Some 4); ERealloc (Some 3) 13 (Some 5); EFree (Some 4)].
Definition h3 : heap := {| h_live := [(5, 13)]; h_next := 6; h_count := 6; h_trace := trace3 |}.

Example c15_state_reached :
  (forall sc, In sc [sc_ok; sc6; sc7; sc8] ->
     sk_run sc tobj0 [OpAdd 0 home; OpAdd 221 [1; 2]; OpAdd 221 [9]] heap0 = Done (o3, h3)) /\
  exists o1 h1 o2 h2,
    sk_quick_add sc6 tobj0 0 home heap0 = Done (o1, 0, h1) /\
    sk_quick_add sc6 o1 221 [1; 2] h1 = Done (o2, 0, h2) /\
    sk_quick_add sc6 o2 221 [9] h2 = Done (o3, 0, h3).
Proof.
  split.
  - intros sc [<- | [<- | [<- | [<- | []]]]]; vm_compute; reflexivity.
  - eexists _, _, _, _. split; [vm_compute; reflexivity |]. split; vm_compute; reflexivity.
Qed.

Lemma tags_inv_o3 : tags_inv (o_tags o3).
Proof. exists l3. split; [apply wf_tagsb_ok; vm_compute; reflexivity | split; vm_compute; reflexivity]. Qed.
Lemma ptr_inv_o3 : ptr_inv o3 h3.
Proof.
  split.
  - right. exists 5. split; reflexivity.
  - intros b H. cbn in H. injection H as <-. reflexivity.
Qed.

(* general: every state a well-formed history reaches, under any schedule, satisfies both hypotheses *)
Lemma c15_hyps_reachable : forall sc ops, Forall AllocProofs.wf_op ops ->
  exists o h, sk_run sc tobj0 ops heap0 = Done (o, h) /\ tags_inv (o_tags o) /\ ptr_inv o h.
Proof.
  intros sc ops H. destruct (run_T sc ops tobj0 heap0 Tinv0 H) as (o & h & R & (HI & Hz & HL & HF)).
  exists o, h. split; [exact R |]. split; [exact HI |].
  assert (P : forall b, o_ptr o = Some b -> is_live b h = true).
  { intros b Hb. apply is_live_In. rewrite HL, Hb. left. reflexivity. }
  split; [| exact P].
  destruct (o_ptr o) as [b |] eqn:E.
  - right. exists b. split; [reflexivity | apply P; reflexivity].
  - left. apply Hz. reflexivity.
Qed.

(* the equation hypothesis of the theorems is NOT satisfiable without ptr_inv: same object, a heap in which
   its block 5 is not live -> the call faults *)
Example c15_ptr_inv_needed : sk_quick_add sc_ok o3 3 [6] heap0 = Fault UseAfterFree 5.
Proof. vm_compute. reflexivity. Qed.

(* ---------- c15_add_reported: add the DS parameter element (3, [6]) ---------- *)
(* (a) no failure *)
Definition o_add : tobj :=
  {| o_tags := {| t_len := 16; t_bytes := [0; 4; 104; 111; 109; 101; 221; 2; 1; 2; 221; 1; 9; 3; 1; 6] |};
     o_ptr := Some 7 |}.
Definition h_add : heap :=
  {| h_live := [(7, 16)]; h_next := 8; h_count := 8;
     h_trace := trace3 ++ [EMalloc 1 (Some 6); ERealloc (Some 5) 16 (Some 7); EFree (Some 6)] |}.
Example c15_add_reported_nonvacuous :
  tags_inv (o_tags o3) /\ ptr_inv o3 h3 /\ wf_tag (3, [6]) /\
  sk_quick_add sc_ok o3 3 [6] h3 = Done (o_add, 0, h_add).
Proof.
  split; [exact tags_inv_o3 |]. split; [exact ptr_inv_o3 |].
  split; [apply wf_tagb_ok; vm_compute; reflexivity | vm_compute; reflexivity].
Qed.
Example c15_add_reported_instance :
  0 = 0 /\ o_tags o_add = fst (quick_add_tag (o_tags o3) 3 [6]).
Proof.
  destruct c15_add_reported_nonvacuous as (A & B & C & E).
  destruct (c15_add_reported sc_ok o3 h3 3 [6] o_add 0 h_add A B C E) as [H | [H _]]; [exact H |].
  vm_compute in H. discriminate H.
Qed.

(* (b) allocation 6, the malloc of the temporary tag, fails *)
Definition h_add6 : heap :=
  {| h_live := [(5, 13)]; h_next := 6; h_count := 7; h_trace := trace3 ++ [EMalloc 1 None] |}.
Example c15_add_reported_nonvacuous_fail :
  tags_inv (o_tags o3) /\ ptr_inv o3 h3 /\ wf_tag (3, [6]) /\
  sk_quick_add sc6 o3 3 [6] h3 = Done (o3, -12, h_add6).
Proof.
  split; [exact tags_inv_o3 |]. split; [exact ptr_inv_o3 |].
  split; [apply wf_tagb_ok; vm_compute; reflexivity | vm_compute; reflexivity].
Qed.
Example c15_add_reported_instance_fail :
  -12 = - ENOMEM /\ o_tags o3 = t3 /\ sc6 6%nat = true.
Proof.
  destruct c15_add_reported_nonvacuous_fail as (A & B & C & E).
  destruct (c15_add_reported sc6 o3 h3 3 [6] o3 (-12) h_add6 A B C E) as [[H _] | (H1 & H2 & k & Hk & Hs)].
  - discriminate H.
  - split; [exact H1 |]. split; [exact H2 |].
    assert (k = 6%nat) as <- by (unfold h3, h_add6 in Hk; cbn [h_count] in Hk; lia). exact Hs.
Qed.

(* (c) allocation 7, the realloc that grows the list, fails; the temporary tag is still released *)
Definition h_add7 : heap :=
  {| h_live := [(5, 13)]; h_next := 7; h_count := 8;
     h_trace := trace3 ++ [EMalloc 1 (Some 6); ERealloc (Some 5) 16 None; EFree (Some 6)] |}.
Example c15_add_reported_nonvacuous_fail_realloc :
  tags_inv (o_tags o3) /\ ptr_inv o3 h3 /\ wf_tag (3, [6]) /\
  sk_quick_add sc7 o3 3 [6] h3 = Done (o3, -12, h_add7).
Proof.
  split; [exact tags_inv_o3 |]. split; [exact ptr_inv_o3 |].
  split; [apply wf_tagb_ok; vm_compute; reflexivity | vm_compute; reflexivity].
Qed.
Example c15_add_reported_instance_fail_realloc :
  -12 = - ENOMEM /\ o_tags o3 = t3 /\ exists k, (6 <= k < 8)%nat /\ sc7 k = true.
Proof.
  destruct c15_add_reported_nonvacuous_fail_realloc as (A & B & C & E).
  destruct (c15_add_reported sc7 o3 h3 3 [6] o3 (-12) h_add7 A B C E) as [[H _] | (H1 & H2 & H3)].
  - discriminate H.
  - split; [exact H1 |]. split; [exact H2 | exact H3].
Qed.

(* ---------- c15_remove_safe: remove the duplicated element 221 ---------- *)
Definition t_rm : tags := {| t_len := 9; t_bytes := [0; 4; 104; 111; 109; 101; 221; 1; 9] |}.
(* (a) the shrinking realloc succeeds: new block 6 *)
Definition h_rm : heap :=
  {| h_live := [(6, 9)]; h_next := 7; h_count := 7; h_trace := trace3 ++ [ERealloc (Some 5) 9 (Some 6)] |}.
Example c15_remove_safe_nonvacuous :
  tags_inv (o_tags o3) /\ ptr_inv o3 h3 /\
  sk_remove_tag sc_ok o3 221 h3 = Done ({| o_tags := t_rm; o_ptr := Some 6 |}, 0, h_rm).
Proof.
  split; [exact tags_inv_o3 |]. split; [exact ptr_inv_o3 | vm_compute; reflexivity].
Qed.
Example c15_remove_safe_instance : remove_tag (o_tags o3) 221 = Done (t_rm, 0).
Proof.
  destruct c15_remove_safe_nonvacuous as (A & B & E).
  destruct (c15_remove_safe sc_ok o3 h3 221 _ 0 h_rm A B E) as [t' [Hr Ht]].
  rewrite Hr, <- Ht. reflexivity.
Qed.
(* (b) the shrinking realloc (allocation 6) fails: the old 13-byte block 5 is kept, the list is the same
   shortened one and the call still returns 0 *)
Definition h_rm6 : heap :=
  {| h_live := [(5, 13)]; h_next := 6; h_count := 7; h_trace := trace3 ++ [ERealloc (Some 5) 9 None] |}.
Example c15_remove_safe_nonvacuous_fail :
  tags_inv (o_tags o3) /\ ptr_inv o3 h3 /\
  sk_remove_tag sc6 o3 221 h3 = Done ({| o_tags := t_rm; o_ptr := Some 5 |}, 0, h_rm6).
Proof.
  split; [exact tags_inv_o3 |]. split; [exact ptr_inv_o3 | vm_compute; reflexivity].
Qed.
Example c15_remove_safe_instance_fail : remove_tag (o_tags o3) 221 = Done (t_rm, 0).
Proof.
  destruct c15_remove_safe_nonvacuous_fail as (A & B & E).
  destruct (c15_remove_safe sc6 o3 h3 221 _ 0 h_rm6 A B E) as [t' [Hr Ht]].
  rewrite Hr, <- Ht. reflexivity.
Qed.

(* ---------- c15_set_atomic: set the SSID to "cafe" ---------- *)
Definition t_set : tags := {| t_len := 13; t_bytes := [221; 2; 1; 2; 221; 1; 9; 0; 4; 99; 97; 102; 101] |}.
(* (a) no failure: check, add (two allocations), remove the old SSID (shrinking realloc) *)
Definition h_set : heap :=
  {| h_live := [(8, 13)]; h_next := 9; h_count := 9;
     h_trace := trace3 ++ [EMalloc 4 (Some 6); ERealloc (Some 5) 19 (Some 7); EFree (Some 6);
                           ERealloc (Some 7) 13 (Some 8)] |}.
Example c15_set_atomic_nonvacuous :
  tags_inv (o_tags o3) /\ ptr_inv o3 h3 /\ wf_tag (0, cafe) /\
  sk_set_tag sc_ok o3 0 cafe h3 = Done ({| o_tags := t_set; o_ptr := Some 8 |}, 0, h_set).
Proof.
  split; [exact tags_inv_o3 |]. split; [exact ptr_inv_o3 |].
  split; [apply wf_tagb_ok; vm_compute; reflexivity | vm_compute; reflexivity].
Qed.
Example c15_set_atomic_instance : 0 = 0 /\ set_tag (o_tags o3) 0 cafe = Done (t_set, 0).
Proof.
  destruct c15_set_atomic_nonvacuous as (A & B & C & E).
  destruct (c15_set_atomic sc_ok o3 h3 0 cafe _ 0 h_set A B C E) as [H | [H _]]; [exact H | lia].
Qed.
(* (b) the temporary tag's malloc fails: -ENOMEM, stored list unchanged *)
Definition h_set6 : heap :=
  {| h_live := [(5, 13)]; h_next := 6; h_count := 7; h_trace := trace3 ++ [EMalloc 4 None] |}.
Example c15_set_atomic_nonvacuous_fail :
  tags_inv (o_tags o3) /\ ptr_inv o3 h3 /\ wf_tag (0, cafe) /\
  sk_set_tag sc6 o3 0 cafe h3 = Done (o3, -12, h_set6).
Proof.
  split; [exact tags_inv_o3 |]. split; [exact ptr_inv_o3 |].
  split; [apply wf_tagb_ok; vm_compute; reflexivity | vm_compute; reflexivity].
Qed.
Example c15_set_atomic_instance_fail : -12 < 0 /\ o_tags o3 = t3.
Proof.
  destruct c15_set_atomic_nonvacuous_fail as (A & B & C & E).
  destruct (c15_set_atomic sc6 o3 h3 0 cafe o3 (-12) h_set6 A B C E) as [[H _] | H]; [discriminate H | exact H].
Qed.
(* (c) the growing realloc fails: -ENOMEM, stored list unchanged *)
Definition h_set7 : heap :=
  {| h_live := [(5, 13)]; h_next := 7; h_count := 8;
     h_trace := trace3 ++ [EMalloc 4 (Some 6); ERealloc (Some 5) 19 None; EFree (Some 6)] |}.
Example c15_set_atomic_nonvacuous_fail_realloc :
  tags_inv (o_tags o3) /\ ptr_inv o3 h3 /\ wf_tag (0, cafe) /\
  sk_set_tag sc7 o3 0 cafe h3 = Done (o3, -12, h_set7).
Proof.
  split; [exact tags_inv_o3 |]. split; [exact ptr_inv_o3 |].
  split; [apply wf_tagb_ok; vm_compute; reflexivity | vm_compute; reflexivity].
Qed.
Example c15_set_atomic_instance_fail_realloc : -12 < 0 /\ o_tags o3 = t3.
Proof.
  destruct c15_set_atomic_nonvacuous_fail_realloc as (A & B & C & E).
  destruct (c15_set_atomic sc7 o3 h3 0 cafe o3 (-12) h_set7 A B C E) as [[H _] | H]; [discriminate H | exact H].
Qed.
(* (d) the last allocation, the shrinking realloc of the removal, fails: the replacement is complete, the
   call returns 0 and the (larger) 19-byte block 7 is kept *)
Definition h_set8 : heap :=
  {| h_live := [(7, 19)]; h_next := 8; h_count := 9;
     h_trace := trace3 ++ [EMalloc 4 (Some 6); ERealloc (Some 5) 19 (Some 7); EFree (Some 6);
                           ERealloc (Some 7) 13 None] |}.
Example c15_set_atomic_nonvacuous_fail_shrink :
  tags_inv (o_tags o3) /\ ptr_inv o3 h3 /\ wf_tag (0, cafe) /\
  sk_set_tag sc8 o3 0 cafe h3 = Done ({| o_tags := t_set; o_ptr := Some 7 |}, 0, h_set8).
Proof.
  split; [exact tags_inv_o3 |]. split; [exact ptr_inv_o3 |].
  split; [apply wf_tagb_ok; vm_compute; reflexivity | vm_compute; reflexivity].
Qed.
Example c15_set_atomic_instance_fail_shrink : 0 = 0 /\ set_tag (o_tags o3) 0 cafe = Done (t_set, 0).
Proof.
  destruct c15_set_atomic_nonvacuous_fail_shrink as (A & B & C & E).
  destruct (c15_set_atomic sc8 o3 h3 0 cafe _ 0 h_set8 A B C E) as [H | [H _]]; [exact H | lia].
Qed.

(* ---------- c15_detail_reported ---------- *)
(* an action-detail object holding [1;2;3] ++ [4;5] after two successful appends *)
Definition d2 : dobj := {| d_len := 5; d_bytes := [1; 2; 3; 4; 5]; d_ptr := Some 1 |}.
Definition hd2 : heap :=
  {| h_live := [(1, 5)]; h_next := 2; h_count := 2; h_trace := [EMalloc 3 (Some 0); ERealloc (Some 0) 5 (Some 1)] |}.
Definition scd : sched := fun k => Nat.eqb k 2.
Example c15_detail_state_reached :
  exists d1 h1, sk_add_detail scd dobj0 [1; 2; 3] heap0 = Done (d1, 3, h1) /\
                sk_add_detail scd d1 [4; 5] h1 = Done (d2, 5, hd2).
Proof. eexists _, _. split; vm_compute; reflexivity. Qed.

(* (a) the realloc (allocation 2) fails: -ENOMEM, object unchanged *)
Example c15_detail_reported_nonvacuous :
  0 <= d_len d2 /\
  sk_add_detail scd d2 [6; 7] hd2 =
    Done (d2, -12, {| h_live := [(1, 5)]; h_next := 2; h_count := 3;
                      h_trace := h_trace hd2 ++ [ERealloc (Some 1) 7 None] |}).
Proof. split; [vm_compute; discriminate | vm_compute; reflexivity]. Qed.
Example c15_detail_reported_instance : -12 = - ENOMEM /\ d2 = d2.
Proof.
  destruct c15_detail_reported_nonvacuous as (A & E).
  destruct (c15_detail_reported scd d2 [6; 7] hd2 d2 (-12) _ A E) as [H | [[H _] | [H _]]].
  - exact H.
  - vm_compute in H. discriminate H.
  - vm_compute in H. exfalso. apply H. reflexivity.
Qed.
(* (b) an append of 251 bytes would make the one-octet length 256: refused with -EINVAL, no allocation *)
Example c15_detail_reported_nonvacuous_einval :
  0 <= d_len d2 /\ sk_add_detail sc_ok d2 (repeat 0 251) hd2 = Done (d2, -22, hd2).
Proof. split; [vm_compute; discriminate | vm_compute; reflexivity]. Qed.
Example c15_detail_reported_instance_einval : -22 = - Model.TagIter.EINVAL /\ d2 = d2.
Proof.
  destruct c15_detail_reported_nonvacuous_einval as (A & E).
  destruct (c15_detail_reported sc_ok d2 (repeat 0 251) hd2 d2 (-22) hd2 A E) as [[H _] | [H | [H _]]].
  - vm_compute in H. discriminate H.
  - exact H.
  - vm_compute in H. exfalso. apply H. reflexivity.
Qed.
(* (c) success: the return value is the new length 7 *)
Definition d3 : dobj := {| d_len := 7; d_bytes := [1; 2; 3; 4; 5; 6; 7]; d_ptr := Some 2 |}.
Example c15_detail_reported_nonvacuous_ok :
  0 <= d_len d2 /\
  sk_add_detail sc_ok d2 [6; 7] hd2 =
    Done (d3, 7, {| h_live := [(2, 7)]; h_next := 3; h_count := 3;
                    h_trace := h_trace hd2 ++ [ERealloc (Some 1) 7 (Some 2)] |}).
Proof. split; [vm_compute; discriminate | vm_compute; reflexivity]. Qed.
Example c15_detail_reported_instance_ok : 0 <= 7 /\ d_bytes d3 = d_bytes d2 ++ [6; 7].
Proof.
  destruct c15_detail_reported_nonvacuous_ok as (A & E).
  destruct (c15_detail_reported sc_ok d2 [6; 7] hd2 d3 7 _ A E) as [[H _] | [[H _] | H]].
  - vm_compute in H. discriminate H.
  - vm_compute in H. discriminate H.
  - exact H.
Qed.

(* ---------- c15_copy_parser_reported ---------- *)
(* the heap after libwifi_get_wifi_frame stored the 31-byte body of a beacon (see Examples_C14); the beacon
   parser then copies the 19 tag bytes; its result code after the copy is 0 *)
Definition hf : heap := {| h_live := [(0, 31)]; h_next := 1; h_count := 1; h_trace := [EMalloc 31 (Some 0)] |}.
Definition scp : sched := fun k => Nat.eqb k 1.
Example c15_copy_parser_state_reached : h_malloc scp 31 heap0 = (Some 0, hf).
Proof. vm_compute. reflexivity. Qed.

(* (a) reached, the copy's malloc (allocation 1) fails *)
Definition hf_fail : heap :=
  {| h_live := [(0, 31)]; h_next := 1; h_count := 2; h_trace := [EMalloc 31 (Some 0); EMalloc 19 None] |}.
Example c15_copy_parser_reported_nonvacuous : sk_copy_parser scp true 19 0 hf = (None, -12, hf_fail).
Proof. vm_compute. reflexivity. Qed.
Example c15_copy_parser_reported_instance :
  true = true /\ scp (h_count hf) = true /\ -12 = - ENOMEM /\ @None blk = None.
Proof.
  destruct (c15_copy_parser_reported scp true 19 0 hf None (-12) hf_fail c15_copy_parser_reported_nonvacuous)
    as [H | [(_ & H & _) | (H & _)]]; [exact H | vm_compute in H; discriminate H | discriminate H].
Qed.
(* (b) reached, no failure: block 1 is returned and live; r is the parser's own code *)
Definition hf_ok : heap :=
  {| h_live := [(1, 19); (0, 31)]; h_next := 2; h_count := 2;
     h_trace := [EMalloc 31 (Some 0); EMalloc 19 (Some 1)] |}.
Example c15_copy_parser_reported_nonvacuous_ok : sk_copy_parser sc_ok true 19 0 hf = (Some 1, 0, hf_ok).
Proof. vm_compute. reflexivity. Qed.
Example c15_copy_parser_reported_instance_ok :
  true = true /\ sc_ok (h_count hf) = false /\ 0 = 0 /\ exists b, Some 1 = Some b /\ is_live b hf_ok = true.
Proof.
  destruct (c15_copy_parser_reported sc_ok true 19 0 hf (Some 1) 0 hf_ok c15_copy_parser_reported_nonvacuous_ok)
    as [(_ & H & _) | [H | (H & _)]]; [vm_compute in H; discriminate H | exact H | discriminate H].
Qed.
(* (c) not reached (an earlier check of the parser fails with -EINVAL): no allocation, heap untouched, even
   under a schedule that would fail the next allocation *)
Example c15_copy_parser_reported_nonvacuous_notreached : sk_copy_parser scp false 19 (-22) hf = (None, -22, hf).
Proof. vm_compute. reflexivity. Qed.
Example c15_copy_parser_reported_instance_notreached :
  false = false /\ -22 = -22 /\ @None blk = None /\ hf = hf.
Proof.
  destruct (c15_copy_parser_reported scp false 19 (-22) hf None (-22) hf
              c15_copy_parser_reported_nonvacuous_notreached)
    as [(H & _) | [(H & _) | H]]; [discriminate H | discriminate H | exact H].
Qed.
