(* C10 - generated radiotap headers are valid and decode to the same values.  Statements only. *)
From LW Require Import Base.Bytes Model.Radiotap Model.RadiotapGen Model.Frame Spec.RadiotapSpec Spec.RadiotapGenSpec
  Spec.FrameSpec Proofs.RadiotapGenProofs.
Local Open Scope Z_scope.

(* for every selection of carried fields (all 2^11 subsets at once) and all field values, the generator
   emits exactly the rendered layout *)
Theorem c10_layout : forall present info, carried present -> info_in_range info ->
  create_radiotap present info = Done (s_render present info).
Proof. exact gen_layout. Qed.
Print Assumptions c10_layout.

(* that layout is a valid header: version 0, length field = bytes produced, the requested present word,
   every selected field little-endian at its naturally aligned offset in bit order, within the maximum *)
Theorem c10_valid_header : forall present info, carried present -> info_in_range info ->
  let b := s_render present info in
  znth b 0 = 0 /\ le16 b 2 = zlen b /\ le32 b 4 = present /\ zlen b = snd (s_field_offsets present) /\ zlen b <= 128 /\
  forall bit o, In (bit, o) (fst (s_field_offsets present)) ->
    slice o (zlen (s_field_bytes info bit)) b = s_field_bytes info bit.
Proof. exact render_valid. Qed.
Print Assumptions c10_valid_header.

(* decoding it (whatever follows it in the buffer) returns exactly the supplied value of every selected field *)
Theorem c10_roundtrip : forall present info tail rd, carried present -> info_in_range info -> wfbytes tail ->
  agrees rd (s_render present info ++ tail) ->
  parse_radiotap_info rd (zlen (s_render present info ++ tail)) = Done (Ok (s_restrict present info)).
Proof. exact gen_roundtrip. Qed.
Print Assumptions c10_roundtrip.

(* prepending it to any frame, with an FCS appended when the flags field announces one, gives the same
   classification as the bare frame - same frame control, length, header, body; acceptance and refusal
   coincide; only the radiotap / FCS flags are added *)
Definition announces_fcs (present : Z) (info : rt_info) : bool :=
  Z.testbit present 1 && negb (Z.land (i_flags info) RT_F_FCS =? 0).
Theorem c10_classify_invariant : forall present info frame fcs, carried present -> info_in_range info ->
  wfbytes frame -> wfbytes fcs -> zlen fcs = (if announces_fcs present info then 4 else 0) ->
  let wrapped := spec_classify (s_render present info ++ frame ++ fcs) (Some (Ok (s_restrict present info))) in
  match spec_classify frame None with
  | Ok f => wrapped = Ok {| f_rtap := Some (s_restrict present info);
                            f_flags := Z.lor (f_flags f) (if announces_fcs present info then Z.lor FL_FCS FL_RADIOTAP else FL_RADIOTAP);
                            f_fc := f_fc f; f_len := f_len f; f_header := f_header f; f_header_len := f_header_len f;
                            f_body := f_body f |}
  | Err c => wrapped = Err c
  end.
Proof. exact classify_invariant. Qed.
Print Assumptions c10_classify_invariant.
