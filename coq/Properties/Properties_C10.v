(* C10 - generated radiotap headers are valid and decode to the same values.  Statements only. *)
From LW Require Import Base.Bytes Model.Radiotap Model.RadiotapGen Model.Frame Spec.RadiotapSpec Spec.RadiotapGenSpec
  Spec.FrameSpec Proofs.RadiotapGenProofs.
Local Open Scope Z_scope.

(* for every selection of carried fields (all 2^11 subsets at once) and all field values, the generator
   emits exactly the rendered layout *)
Theorem c10_layout : forall present info, carried present -> info_in_range info ->
  create_radiotap present info = Done (s_render present info).
Proof. exact gen_layout. Qed.
Print Assumptions c10_layout.

(* that layout is a valid header: version 0, length field = bytes produced, the requested present word,
   every selected field little-endian at its naturally aligned offset in bit order, within the maximum *)
Theorem c10_valid_header : forall present info, carried present -> info_in_range info ->
  let b := s_render present info in
  znth b 0 = 0 /\ le16 b 2 = zlen b /\ le32 b 4 = present /\ zlen b = snd (s_field_offsets present) /\ zlen b <= 128 /\
  forall bit o, In (bit, o) (fst (s_field_offsets present)) ->
    slice o (zlen (s_field_bytes info bit)) b = s_field_bytes info bit.
Proof. exact render_valid. Qed.
Print Assumptions c10_valid_header.

(* decoding it (whatever follows it in the buffer) returns exactly the supplied value of every selected field *)
Theorem c10_roundtrip : forall present info tail rd, carried present -> info_in_range info -> wfbytes tail ->
  agrees rd (s_render present info ++ tail) ->
  parse_radiotap_info rd (zlen (s_render present info ++ tail)) = Done (Ok (s_restrict present info)).
Proof. exact gen_roundtrip. Qed.
Print Assumptions c10_roundtrip.

(* prepending it to any frame, with an FCS appended when the flags field announces one, gives the same
   classification as the bare frame - same frame control, length, header, body; acceptance and refusal
   coincide; only the radiotap / FCS flags are added *)
Definition announces_fcs (present : Z) (info : rt_info) : bool :=
  Z.testbit present 1 && negb (Z.land (i_flags info) RT_F_FCS =? 0).
Theorem c10_classify_invariant : forall present info frame fcs, carried present -> info_in_range info ->
  wfbytes frame -> wfbytes fcs -> zlen fcs = (if announces_fcs present info then 4 else 0) ->
  let wrapped := spec_classify (s_render present info ++ frame ++ fcs) (Some (Ok (s_restrict present info))) in
  match spec_classify frame None with
  | Ok f => wrapped = Ok {| f_rtap := Some (s_restrict present info);
                            f_flags := Z.lor (f_flags f) (if announces_fcs present info then Z.lor FL_FCS FL_RADIOTAP else FL_RADIOTAP);
                            f_fc := f_fc f; f_len := f_len f; f_header := f_header f; f_header_len := f_header_len f;
                            f_body := f_body f |}
  | Err c => wrapped = Err c
  end.
Proof. exact classify_invariant. Qed.
Print Assumptions c10_classify_invariant.

(* ---- libwifi_create_radiotap AS TRANSLATED from gen/misc/radiotap.c on this run (Gen/Sites.v): the loop over the 23 field numbers (induction on the field number), the alignment
   LOADED from the namespace table's bytes (low nibble of radiotap_ns.align_size[field]), the padding expression, the switch.  With the table bytes as Gen/Rtap.v lists them, for EVERY
   carried selection the routine is never stuck, returns the Spec's total length, stores it in it_len, and its staging writes fill [rtap_data, rtap_data + len - 8) in order without
   gap before the two final copies into the caller's buffer.  table_at, fills_from, carried, lay are defined in Proofs/CodeRadiotapGen.v / Spec. ---- *)
From Coq Require Import String.
From LW Require Import Base.Bytes Base.CExpr Gen.Sites Gen.Rtap Spec.CodeSpec Proofs.CodeRadiotapGen.
Local Open Scope string_scope.
Local Open Scope Z_scope.


Theorem c10_code_rtgen_c10_rtap : forall m rho present cnt base ants hdr T,
  rho "radiotap_ns.align_size" = T -> 0 < T < 2 ^ 62 ->
  (forall k, 0 <= k < 23 -> m (T + k) = Some (fst (table_entry k) + 16 * snd (table_entry k))) ->
  rho "info->present" = present -> carried present -> rho "radiotap_ns.n_bits" = 23 ->
  rho "info->antenna_count" = cnt -> 0 <= cnt <= 255 -> rho "&rtap_data" = base -> 0 <= base < 2 ^ 62 ->
  rho "&info->antennas" = ants -> 0 <= ants < 2 ^ 62 -> rho "radiotap_header" = hdr -> 0 <= hdr < 2 ^ 62 ->
  let len := snd (s_field_offsets present) in
  exists rho' evs,
    (forall F, (400 <= F)%nat ->
       exec F m rho [] body_libwifi_create_radiotap =
         Returned (Some len) rho'
           (evs ++ [("memcpy", [hdr; wrap u64 (rho "&rtap_hdr"); 8]); ("memcpy", [hdr + 8; base; len - 8])])) /\
    fills_from base evs (base + (len - 8)) /\
    rho' "rtap_hdr.it_len" = len /\ rho' "rtap_hdr.it_present" = present /\ rho' "rtap_hdr.it_version" = 0 /\ rho' "rtap_hdr.it_pad" = 0.
Proof. exact code_rtgen_c10_rtap. Qed.
Print Assumptions c10_code_rtgen_c10_rtap.

(* goal 2 on body_libwifi_create_radiotap itself *)
Theorem c10_code_rtgen_layout : forall m rho present cnt base ants hdr T algn sz,
  rho "radiotap_ns.align_size" = T -> 0 < T < 2 ^ 62 -> table_at m T algn sz ->
  (forall k, 0 <= k < 23 -> 0 <= algn k < 16 /\ 0 <= sz k < 16) ->
  rho "info->present" = present -> 0 <= present < 2 ^ 32 -> rho "radiotap_ns.n_bits" = 23 ->
  rho "info->antenna_count" = cnt -> 0 <= cnt <= 255 -> rho "&rtap_data" = base -> 0 <= base < 2 ^ 62 ->
  rho "&info->antennas" = ants -> 0 <= ants < 2 ^ 62 -> rho "radiotap_header" = hdr -> 0 <= hdr < 2 ^ 62 ->
  let L := lay algn cnt 23 0 present 0 in
  exists rho' evs,
    (forall F, (400 <= F)%nat ->
       exec F m rho [] body_libwifi_create_radiotap =
         Returned (Some (8 + L)) rho'
           (evs ++ [("memcpy", [hdr; wrap u64 (rho "&rtap_hdr"); 8]); ("memcpy", [hdr + 8; base; L])])) /\
    fills_from base evs (base + L) /\ 0 <= L <= 18400 /\
    rho' "offset" = L /\ rho' "rtap_hdr.it_len" = 8 + L /\ rho' "rtap_hdr.it_present" = present /\
    rho' "rtap_hdr.it_version" = 0 /\ rho' "rtap_hdr.it_pad" = 0.
Proof. exact code_rtgen_layout. Qed.
Print Assumptions c10_code_rtgen_layout.


(* The DECODING side of the round trip at the level of the C text (also stated under C09): one turn of the field switch of
   libwifi_parse_radiotap_info AS TRANSLATED assigns, for every field number and field contents, exactly the little-endian values at
   the field's sub-offsets (TIMESTAMP: 64 bits at +0 as ONE load, accuracy at +8, unit +10, flags +11 - C10-n's byte-wise assembly
   with `ts[3] << 24` in int is a different term and stops this obligation), and that turn is the specification's per-field decoder. *)
From LW Require Import Spec.RadiotapChainSpec Proofs.CodeRadiotapParse.
Theorem c10_code_decoder_switch_field : forall p fb rho tr k F,
  0 < p -> p + zlen fb < 2 ^ 62 -> wfbytes fb -> rho "it.this_arg" = p ->
  wrap (mkty true 32) (rho "it.this_arg_index") = k -> rt_size k <= zlen fb -> (30 <= F)%nat ->
  exec F (mem_at p fb) rho tr [rt_switch] = Fell (rt_turn_env k fb rho) (tr ++ rt_turn_calls k p fb rho)%list.
Proof. exact code_rtap_switch_field. Qed.
Print Assumptions c10_code_decoder_switch_field.

Theorem c10_code_decoder_switch_refines_spec : forall fb rho k x sk,
  k <> 31 -> info_rel rho x sk ->
  info_rel (rt_turn_env k fb rho) (fst (s_apply fb (x, sk) (k, 0))) (snd (s_apply fb (x, sk) (k, 0))).
Proof. exact code_rtap_switch_refines_spec. Qed.
Print Assumptions c10_code_decoder_switch_refines_spec.
