(* C02 - frame classification slices radiotap, header, body and FCS exactly.  Statements only. *)
From LW Require Import Base.Bytes Model.Radiotap Model.Frame Spec.FrameSpec Gen.Layout Gen.Consts Gen.Tables
  Proofs.RadiotapProofs Proofs.FrameProofs Proofs.FrameCompose.
Local Open Scope Z_scope.

(* without a radiotap prefix: for every byte string, the classifier returns exactly the Spec *)
Theorem c02_classify_plain : forall buf rd, wfbytes buf -> agrees rd buf ->
  get_wifi_frame rd (zlen buf) false = Done (spec_classify buf None).
Proof. exact classify_plain. Qed.
Print Assumptions c02_classify_plain.

(* with a radiotap prefix: for every byte string the radiotap decode terminates in bounds (C09) and the
   classifier returns exactly the Spec applied to what the decode reported (its length and FCS flag) *)
Theorem c02_classify_radiotap : forall buf rd, wfbytes buf -> agrees rd buf ->
  exists rtres, parse_radiotap_info rd (zlen buf) = Done rtres /\
                get_wifi_frame rd (zlen buf) true = Done (spec_classify buf (Some rtres)).
Proof. exact classify_radiotap. Qed.
Print Assumptions c02_classify_radiotap.

(* the compiled header structures have the wire sizes 24/28/4/24/26, the frame-control bit-fields sit
   where the standard puts them, the flag values and the QoS subtype set are the documented ones *)
Theorem c02_layout :
  sizeof_libwifi_mgmt_unordered_frame_header = 24 /\ sizeof_libwifi_mgmt_ordered_frame_header = 28 /\
  sizeof_libwifi_ctrl_frame_header = 4 /\ sizeof_libwifi_data_frame_header = 24 /\
  sizeof_libwifi_data_qos_frame_header = 26 /\ sizeof_libwifi_frame_ctrl = 2 /\
  (forall fc0 fc1, 0 <= fc0 < 256 -> 0 <= fc1 < 256 ->
     fc_type [fc0; fc1] = s_type fc0 /\ fc_subtype [fc0; fc1] = s_subtype fc0 /\
     (fc_ordered [fc0; fc1] =? 0) = negb (s_ordered fc1)) /\
  (forall st, 0 <= st < 16 -> is_qos_subtype st = s_qos st).
Proof. exact layout_ok. Qed.
Print Assumptions c02_layout.

(* acceptance, as an explicit iff (no-radiotap form): accepted exactly when the type is management,
   control or data and the frame is at least as long as its implied header *)
Theorem c02_accept_iff : forall buf, wfbytes buf ->
  (exists f, spec_classify buf None = Ok f) <->
  (exists fc0 fc1 rest hl, buf = fc0 :: fc1 :: rest /\
      s_hdr_len (s_type fc0) (s_subtype fc0) (s_ordered fc1) = Some hl /\ hl <= zlen buf).
Proof. exact accept_iff. Qed.
Print Assumptions c02_accept_iff.

(* data-frame extraction: address 1 receiver, address 2 transmitter, the same body *)
Theorem c02_data_extract : forall buf rtres f, wfbytes buf -> spec_classify buf rtres = Ok f ->
  parse_data f = spec_data f.
Proof. exact data_exact. Qed.
Print Assumptions c02_data_extract.

(* the reported lengths are kept in Z by the model: the C fields that hold them are size_t wide *)
Theorem c02_length_fields_wide :
  fsz_libwifi_frame__len = host_sizeof_size_t /\ fsz_libwifi_frame__header_len = host_sizeof_size_t /\ 8 <= host_sizeof_size_t.
Proof. repeat split; try reflexivity; try (vm_compute; discriminate). Qed.
Print Assumptions c02_length_fields_wide.

(* ---- libwifi_get_wifi_frame AS TRANSLATED from frame.c on this run (Gen/Sites.v), without radiotap, run with ONLY the frame readable and NOTHING assumed about
   the prior contents of the frame object (the translated memset zeroes it): it is never stuck, refuses exactly what the model refuses having done nothing but the
   memset, and otherwise leaves the model's lengths and flags and copies exactly the model's body.  frame_run, frame_memset, hdr_copies, body_events, copies_inside,
   frame_refused are defined in Proofs/CodeFrame.v. ---- *)
From Coq Require Import String.
From LW Require Import Base.Bytes Base.CExpr Gen.Sites Spec.CodeSpec Model.Frame Proofs.CodeFrame.
Local Open Scope string_scope.
Local Open Scope Z_scope.

(* the model does not model the allocator: where it answers Ok f, the C code returns 0, except -12 when the body is not empty and
   malloc answered 0 *)
Theorem c02_code_get_wifi_frame_refines_model : forall buf a rho,
  wfbytes buf -> 0 < a -> a + zlen buf < 2 ^ 62 -> 0 <= rho "ret:malloc" < 2 ^ 62 ->
  let q := rho "ret:malloc" in
  match get_wifi_frame (rd_strict buf) (zlen buf) false with
  | Done (Err c) => c = -22 /\ observe (frame_run buf a rho) = Some (Some c, [frame_memset rho])
  | Done (Ok f) =>
      let bl := zlen (f_body f) in
      let tr := (frame_memset rho :: hdr_copies rho a (znth buf 0) (znth buf 1) ++
                 ("memcpy", [wrap u64 (rho "&fi->frame_control"); a; 2]) :: body_events q a (f_header_len f) bl)%list in
      exists rho1,
        frame_run buf a rho = Returned (Some (if (0 <? bl) && (q =? 0) then -12 else 0)) rho1 tr /\
        rho1 "fi->len" = f_len f /\ rho1 "fi->header_len" = f_header_len f /\ rho1 "fi->flags" = f_flags f /\
        bl = f_len f - f_header_len f /\ f_len f = zlen buf /\
        f_header f = zfirstn (f_header_len f) buf /\ f_body f = zskipn (f_header_len f) buf /\
        copies_inside a (a + zlen buf) tr
  | _ => False
  end.
Proof. exact code_get_wifi_frame_refines_model. Qed.
Print Assumptions c02_code_get_wifi_frame_refines_model.

(* the run is never stuck, and returns -22 (-EINVAL) exactly on the refused inputs, having called nothing but the initial memset;
   the other return values are 0 and -12 (-ENOMEM: the allocator answered 0 for a non-empty body) *)
Theorem c02_code_get_wifi_frame_plain_ret : forall buf a rho,
  wfbytes buf -> 0 < a -> a + zlen buf < 2 ^ 62 -> 0 <= rho "ret:malloc" < 2 ^ 62 ->
  exists v tr,
    observe (frame_run buf a rho) = Some (Some v, tr) /\
    (v = -22 <-> frame_refused buf) /\ (v = -22 -> tr = [frame_memset rho]) /\ (v = -22 \/ v = -12 \/ v = 0) /\
    copies_inside a (a + zlen buf) tr.
Proof. exact code_get_wifi_frame_plain_ret. Qed.
Print Assumptions c02_code_get_wifi_frame_plain_ret.

