(* C17 - security descriptions are complete, correctly named and fit their buffer.  Statements only. *)
From Coq Require Import List ZArith.
From LW Require Import Base.Bytes Model.SecStr Spec.SecStrSpec Gen.Tables Gen.Consts Proofs.SecStrProofs.
Import ListNotations.
Local Open Scope Z_scope.

(* (table as read from the routine's source, its "None" string, the documented table) *)
Definition routines : list (list (Z * list byte) * list byte * list (Z * list byte)) :=
  [ (sec_table_security_type, sec_none_security_type, spec_generations);
    (sec_table_group_ciphers, sec_none_group_ciphers, spec_group);
    (sec_table_pairwise_ciphers, sec_none_pairwise_ciphers, spec_pairwise);
    (sec_table_auth_key_suites, sec_none_auth_key_suites, spec_akm) ].

(* for EVERY summary value (unrelated bits included): no write outside the LIBWIFI_SECURITY_BUF_LEN-byte
   buffer (Done, not Fault; the block keeps its size), the buffer holds a NUL-terminated string shorter
   than the buffer, and the string is "None" for the empty summary, otherwise the comma-separated names
   of exactly the flags that are set *)
Theorem c17_describe_exact : forall tbl none spec info,
  In (tbl, none, spec) routines -> 0 <= info ->
  exists mem, describe tbl none info = Done mem /\ zlen mem = buf_len /\
              cstr mem = spec_describe tbl info /\ zlen (cstr mem) < buf_len.
Proof. exact describe_exact. Qed.
Print Assumptions c17_describe_exact.

(* the names are the documented ones: each routine's table is the documented table up to order, every
   flag is one distinct bit, names are pairwise distinct, non-empty, free of NUL and comma *)
Theorem c17_tables : forall tbl none spec, In (tbl, none, spec) routines ->
  same_table tbl spec = true /\ none = spec_none /\ sec_separator = spec_sep /\
  forallb single_bit (map fst tbl) = true /\ NoDup (map fst tbl) /\
  distinct_names (map snd tbl) = true /\ forallb name_ok (map snd tbl) = true.
Proof. exact tables_ok. Qed.
Print Assumptions c17_tables.

(* each set flag is listed exactly once and nothing else is listed *)
Theorem c17_each_once : forall tbl none spec info name, In (tbl, none, spec) routines ->
  (In name (set_names tbl info) <-> exists f, In (f, name) spec /\ Z.land info f <> 0) /\
  NoDup (set_names tbl info).
Proof. exact each_once. Qed.
Print Assumptions c17_each_once.

(* ---- the four description routines AS TRANSLATED from security.c (Gen/Sites.v): for EVERY 64-bit summary the run is never stuck and its calls are memset(buf, 0, 256), then
   snprintf "None" when the summary is 0, otherwise exactly one _libwifi_add_sec_item(buf, &offset, &append, NAME) per flag of the routine's table that is set, in table order - proved by
   induction over the list of ifs the body is (body_*_shape: the body EQUALS the list built from the table), not by case splits; the (flag, name) tables the control flow walks equal
   Gen/Tables.v's; no flag or name occurs twice; a non-empty summary without the routine's own flags yields only the memset (empty string).  The three routines that write at buf + offset
   need buf < 2^63 when the summary is 0 (the sum is a signed pointer addition: code_get_*_refuted).  expected_trace, sec_trace, code_table_* are defined in Proofs/CodeSecStr.v. ---- *)
From Coq Require Import String.
From LW Require Import Base.CExpr Gen.Sites Gen.Tables Spec.CodeSpec Proofs.CodeSecStr.
Local Open Scope string_scope.
Local Open Scope Z_scope.

Theorem c17_code_get_security_type_calls : forall rho m info F,
  0 <= info < 2 ^ 64 -> rho "bss->encryption_info" = info -> (12 <= F)%nat ->
  observe (exec F m rho [] body_libwifi_get_security_type) =
    Some (None, expected_trace rho info code_table_security_type).
Proof. exact code_get_security_type_calls. Qed.
Print Assumptions c17_code_get_security_type_calls.

Theorem c17_code_get_group_ciphers_calls : forall rho m info F,
  0 <= info < 2 ^ 64 -> rho "bss->encryption_info" = info ->
  (info = 0 -> wrap u64 (rho "buf") < 2 ^ 63) -> (21 <= F)%nat ->
  observe (exec F m rho [] body_libwifi_get_group_ciphers) =
    Some (None, expected_trace rho info code_table_group_ciphers).
Proof. exact code_get_group_ciphers_calls. Qed.
Print Assumptions c17_code_get_group_ciphers_calls.

Theorem c17_code_get_pairwise_ciphers_calls : forall rho m info F,
  0 <= info < 2 ^ 64 -> rho "bss->encryption_info" = info ->
  (info = 0 -> wrap u64 (rho "buf") < 2 ^ 63) -> (22 <= F)%nat ->
  observe (exec F m rho [] body_libwifi_get_pairwise_ciphers) =
    Some (None, expected_trace rho info code_table_pairwise_ciphers).
Proof. exact code_get_pairwise_ciphers_calls. Qed.
Print Assumptions c17_code_get_pairwise_ciphers_calls.

Theorem c17_code_get_auth_key_suites_calls : forall rho m info F,
  0 <= info < 2 ^ 64 -> rho "bss->encryption_info" = info ->
  (info = 0 -> wrap u64 (rho "buf") < 2 ^ 63) -> (29 <= F)%nat ->
  observe (exec F m rho [] body_libwifi_get_auth_key_suites) =
    Some (None, expected_trace rho info code_table_auth_key_suites).
Proof. exact code_get_auth_key_suites_calls. Qed.
Print Assumptions c17_code_get_auth_key_suites_calls.

Theorem c17_code_get_security_type_foreign_only : forall rho m info F,
  0 <= info < 2 ^ 64 -> rho "bss->encryption_info" = info -> (12 <= F)%nat ->
  info <> 0 -> (forall flag name, In (flag, name) code_table_security_type -> Z.land info flag = 0) ->
  observe (exec F m rho [] body_libwifi_get_security_type) = Some (None, [memset_event rho]).
Proof. exact code_get_security_type_foreign_only. Qed.
Print Assumptions c17_code_get_security_type_foreign_only.

Theorem c17_code_get_group_ciphers_foreign_only : forall rho m info F,
  0 <= info < 2 ^ 64 -> rho "bss->encryption_info" = info -> (21 <= F)%nat ->
  info <> 0 -> (forall flag name, In (flag, name) code_table_group_ciphers -> Z.land info flag = 0) ->
  observe (exec F m rho [] body_libwifi_get_group_ciphers) = Some (None, [memset_event rho]).
Proof. exact code_get_group_ciphers_foreign_only. Qed.
Print Assumptions c17_code_get_group_ciphers_foreign_only.

Theorem c17_code_get_pairwise_ciphers_foreign_only : forall rho m info F,
  0 <= info < 2 ^ 64 -> rho "bss->encryption_info" = info -> (22 <= F)%nat ->
  info <> 0 -> (forall flag name, In (flag, name) code_table_pairwise_ciphers -> Z.land info flag = 0) ->
  observe (exec F m rho [] body_libwifi_get_pairwise_ciphers) = Some (None, [memset_event rho]).
Proof. exact code_get_pairwise_ciphers_foreign_only. Qed.
Print Assumptions c17_code_get_pairwise_ciphers_foreign_only.

Theorem c17_code_get_auth_key_suites_foreign_only : forall rho m info F,
  0 <= info < 2 ^ 64 -> rho "bss->encryption_info" = info -> (29 <= F)%nat ->
  info <> 0 -> (forall flag name, In (flag, name) code_table_auth_key_suites -> Z.land info flag = 0) ->
  observe (exec F m rho [] body_libwifi_get_auth_key_suites) = Some (None, [memset_event rho]).
Proof. exact code_get_auth_key_suites_foreign_only. Qed.
Print Assumptions c17_code_get_auth_key_suites_foreign_only.

Theorem c17_code_get_security_type_table_matches_gen : table_bytes code_table_security_type = sec_table_security_type.
Proof. exact code_get_security_type_table_matches_gen. Qed.
Print Assumptions c17_code_get_security_type_table_matches_gen.

Theorem c17_code_get_group_ciphers_table_matches_gen : table_bytes code_table_group_ciphers = sec_table_group_ciphers.
Proof. exact code_get_group_ciphers_table_matches_gen. Qed.
Print Assumptions c17_code_get_group_ciphers_table_matches_gen.

Theorem c17_code_get_pairwise_ciphers_table_matches_gen : table_bytes code_table_pairwise_ciphers = sec_table_pairwise_ciphers.
Proof. exact code_get_pairwise_ciphers_table_matches_gen. Qed.
Print Assumptions c17_code_get_pairwise_ciphers_table_matches_gen.

Theorem c17_code_get_auth_key_suites_table_matches_gen : table_bytes code_table_auth_key_suites = sec_table_auth_key_suites.
Proof. exact code_get_auth_key_suites_table_matches_gen. Qed.
Print Assumptions c17_code_get_auth_key_suites_table_matches_gen.

