(* C17 - security descriptions are complete, correctly named and fit their buffer.  Statements only. *)
From Coq Require Import List ZArith.
From LW Require Import Base.Bytes Model.SecStr Spec.SecStrSpec Gen.Tables Gen.Consts Proofs.SecStrProofs.
Import ListNotations.
Local Open Scope Z_scope.

(* (table as read from the routine's source, its "None" string, the documented table) *)
Definition routines : list (list (Z * list byte) * list byte * list (Z * list byte)) :=
  [ (sec_table_security_type, sec_none_security_type, spec_generations);
    (sec_table_group_ciphers, sec_none_group_ciphers, spec_group);
    (sec_table_pairwise_ciphers, sec_none_pairwise_ciphers, spec_pairwise);
    (sec_table_auth_key_suites, sec_none_auth_key_suites, spec_akm) ].

(* for EVERY summary value (unrelated bits included): no write outside the LIBWIFI_SECURITY_BUF_LEN-byte
   buffer (Done, not Fault; the block keeps its size), the buffer holds a NUL-terminated string shorter
   than the buffer, and the string is "None" for the empty summary, otherwise the comma-separated names
   of exactly the flags that are set *)
Theorem c17_describe_exact : forall tbl none spec info,
  In (tbl, none, spec) routines -> 0 <= info ->
  exists mem, describe tbl none info = Done mem /\ zlen mem = buf_len /\
              cstr mem = spec_describe tbl info /\ zlen (cstr mem) < buf_len.
Proof. exact describe_exact. Qed.
Print Assumptions c17_describe_exact.

(* the names are the documented ones: each routine's table is the documented table up to order, every
   flag is one distinct bit, names are pairwise distinct, non-empty, free of NUL and comma *)
Theorem c17_tables : forall tbl none spec, In (tbl, none, spec) routines ->
  same_table tbl spec = true /\ none = spec_none /\ sec_separator = spec_sep /\
  forallb single_bit (map fst tbl) = true /\ NoDup (map fst tbl) /\
  distinct_names (map snd tbl) = true /\ forallb name_ok (map snd tbl) = true.
Proof. exact tables_ok. Qed.
Print Assumptions c17_tables.

(* each set flag is listed exactly once and nothing else is listed *)
Theorem c17_each_once : forall tbl none spec info name, In (tbl, none, spec) routines ->
  (In name (set_names tbl info) <-> exists f, In (f, name) spec /\ Z.land info f <> 0) /\
  NoDup (set_names tbl info).
Proof. exact each_once. Qed.
Print Assumptions c17_each_once.
