(* C11 - non-vacuity witnesses and worked instances for Properties_C11.v.
   The project already has one witness for the burst theorem's hypotheses: Proofs/CRCBurst.v
   [ex_frame] (3 body octets + FCS), [ex_error] (a full 32-bit burst across body and FCS), [ex_hypotheses],
   [ex_intact_accepted], [ex_corrupted_rejected].  It is re-exported below (c11_burst_detected_nonvacuous_crcburst)
   and a second, real-looking frame is added: an 802.11 ACK control frame carrying its FCS (14 octets).
   Covered:  c11_verify_iff           (nonvacuous + instance: intact ACK -> 1 and the equation holds; corrupted -> 0),
             c11_short_no             (nonvacuous + instance, with a read oracle that faults everywhere),
             c11_burst_detected       (nonvacuous + instance: a 27-bit burst straddling body and FCS),
             c11_single_bit_detected  (nonvacuous + instance: bit 3 of octet 5),
             c11_flip_bit_xor         (nonvacuous + instance),
             c11_crc_exact / c11_tbl_equiv / c11_fcs_bytes (only wfbytes/agrees: instance on the classic check string
                                       "123456789", CRC-32 = 0xCBF43926).
   Skipped:  c11_crc_range (no hypotheses). *)
From Coq Require Import List ZArith Lia.
From LW Require Import Base.Bytes Model.CRC Spec.CRCSpec Proofs.CRCBurst Properties.Properties_C11.
Local Open Scope Z_scope.

Definition check_msg : list byte := [49; 50; 51; 52; 53; 54; 55; 56; 57].          (* "123456789" *)
(* ACK: frame control D4 00, duration 0, receiver 00:16:3e:11:22:33 *)
Definition ack_body : list byte := [212; 0; 0; 0; 0; 22; 62; 17; 34; 51].
Definition ack_frame : list byte := ack_body ++ fcs_octets ack_body.
(* error pattern: first wrong bit = bit 6 of octet 8 (body), last = bit 0 of octet 12 (FCS): a 27-bit window *)
Definition ack_error : list byte := [0; 0; 0; 0; 0; 0; 0; 0; 64; 165; 60; 129; 1; 0].

Lemma wf_check : wfbytes check_msg. Proof. apply wfbytesb_spec; vm_compute; reflexivity. Qed.
Lemma wf_ack : wfbytes ack_frame. Proof. apply wfbytesb_spec; vm_compute; reflexivity. Qed.
Lemma ack_frame_bytes : ack_frame = [212; 0; 0; 0; 0; 22; 62; 17; 34; 51; 132; 68; 162; 79].
Proof. vm_compute. reflexivity. Qed.

(* ---- wfbytes/agrees only: instances ---- *)
Example c11_crc_exact_instance : crc32 (rd_strict check_msg) 9 = Done 3421780262 (* 0xCBF43926 *).
Proof.
  change 9 with (zlen check_msg).
  rewrite (c11_crc_exact check_msg _ wf_check (agrees_strict _)). vm_compute. reflexivity.
Qed.
Example c11_tbl_equiv_instance : crc32_tbl check_msg = 3421780262.
Proof. rewrite (c11_tbl_equiv _ wf_check). vm_compute. reflexivity. Qed.
Example c11_fcs_bytes_instance :
  exists v, calculate_fcs (rd_strict check_msg) 9 = Done v /\ le_enc 4 v = [38; 57; 244; 203] (* 26 39 F4 CB *).
Proof.
  destruct (c11_fcs_bytes check_msg _ wf_check (agrees_strict _)) as [v [H1 H2]].
  exists v. split; [exact H1 | rewrite H2; vm_compute; reflexivity].
Qed.

(* ---- c11_verify_iff ---- *)
Example c11_verify_iff_nonvacuous :
  wfbytes ack_frame /\ agrees (rd_strict ack_frame) ack_frame /\ 4 <= zlen ack_frame.
Proof. split; [exact wf_ack|]. split; [apply agrees_strict | vm_compute; discriminate]. Qed.

Example c11_verify_iff_instance :
  frame_verify (rd_strict ack_frame) (zlen ack_frame) = Done 1 /\
  lastn 4 ack_frame = fcs_octets (firstn (length ack_frame - 4) ack_frame).
Proof.
  destruct c11_verify_iff_nonvacuous as [A [B C]].
  destruct (c11_verify_iff _ _ A B C) as [r [Hr [_ Hiff]]].
  assert (E : r = 1) by (vm_compute in Hr; congruence). subst r.
  split; [exact Hr | apply Hiff; reflexivity].
Qed.
(* the other direction on a damaged frame (last FCS octet 79 -> 78): answered 0, so the equation fails *)
Definition ack_bad : list byte := [212; 0; 0; 0; 0; 22; 62; 17; 34; 51; 132; 68; 162; 78].
Example c11_verify_iff_instance_bad :
  frame_verify (rd_strict ack_bad) (zlen ack_bad) = Done 0 /\
  lastn 4 ack_bad <> fcs_octets (firstn (length ack_bad - 4) ack_bad).
Proof.
  assert (A : wfbytes ack_bad) by (apply wfbytesb_spec; vm_compute; reflexivity).
  destruct (c11_verify_iff _ _ A (agrees_strict _) ltac:(vm_compute; discriminate)) as [r [Hr [_ Hiff]]].
  assert (E : r = 0) by (vm_compute in Hr; congruence). subst r.
  split; [exact Hr|]. intros H. apply Hiff in H. discriminate H.
Qed.

(* ---- c11_short_no: three octets, and an oracle that faults on EVERY read ---- *)
Example c11_short_no_nonvacuous : 3 < 4.
Proof. lia. Qed.
Example c11_short_no_instance : frame_verify (fun i => Fault OobRead i) 3 = Done 0.
Proof. exact (c11_short_no _ 3 c11_short_no_nonvacuous). Qed.

(* ---- c11_burst_detected ---- *)
Example c11_burst_detected_nonvacuous :
  wfbytes ack_frame /\ wfbytes ack_error /\ length ack_error = length ack_frame /\
  valid_frame ack_frame /\ burst32 (message_bits ack_error) /\
  agrees (rd_strict (xor_bytes ack_frame ack_error)) (xor_bytes ack_frame ack_error).
Proof.
  split; [exact wf_ack|].
  split; [apply wfbytesb_spec; vm_compute; reflexivity|].
  split; [vm_compute; reflexivity|].
  split; [split; [vm_compute; discriminate | vm_compute; reflexivity]|].
  split; [|apply agrees_strict].
  exists 70%nat, (firstn 26 (skipn 71 (message_bits ack_error))), 15%nat.
  split; [vm_compute; reflexivity | vm_compute; lia].
Qed.

Example c11_burst_detected_instance :
  xor_bytes ack_frame ack_error = [212; 0; 0; 0; 0; 22; 62; 17; 98; 150; 184; 197; 163; 79] /\
  frame_verify (rd_strict (xor_bytes ack_frame ack_error)) (zlen ack_frame) = Done 0.
Proof.
  split; [vm_compute; reflexivity|].
  destruct c11_burst_detected_nonvacuous as (H1 & H2 & H3 & H4 & H5 & H6).
  exact (c11_burst_detected _ _ _ H1 H2 H3 H4 H5 H6).
Qed.

(* the witness that was already in the project (a maximal, 32-bit burst) *)
Example c11_burst_detected_nonvacuous_crcburst :
  wfbytes ex_frame /\ wfbytes ex_error /\ length ex_error = length ex_frame /\
  valid_frame ex_frame /\ burst32 (message_bits ex_error) /\
  agrees (rd_strict (xor_bytes ex_frame ex_error)) (xor_bytes ex_frame ex_error).
Proof. exact ex_hypotheses. Qed.

(* the burst bound in the hypothesis is tight, not decoration: the 33-bit pattern that is the generator
   polynomial G itself (1 followed by the 32 low coefficients, highest first, put at bit 64 of the stream) turns
   the valid ACK into ANOTHER valid frame, which verification accepts *)
Definition g_error : list byte := [0; 0; 0; 0; 0; 0; 0; 0; 65; 6; 113; 219; 1; 0].
Example c11_burst_bound_tight :
  message_bits g_error = repeat false 64 ++ (true :: rev g_low) ++ repeat false 15 /\
  xor_bytes ack_frame g_error <> ack_frame /\
  frame_verify (rd_strict (xor_bytes ack_frame g_error)) (zlen ack_frame) = Done 1.
Proof. split; [vm_compute; reflexivity|]. split; [vm_compute; discriminate | vm_compute; reflexivity]. Qed.

(* ---- c11_single_bit_detected ---- *)
Example c11_single_bit_detected_nonvacuous :
  wfbytes ack_frame /\ valid_frame ack_frame /\ (5 < length ack_frame)%nat /\ (3 < 8)%nat /\
  agrees (rd_strict (flip_bit ack_frame 5 3)) (flip_bit ack_frame 5 3).
Proof.
  split; [exact wf_ack|]. split; [split; [vm_compute; discriminate | vm_compute; reflexivity]|].
  split; [vm_compute; lia|]. split; [lia | apply agrees_strict].
Qed.
Example c11_single_bit_detected_instance :
  flip_bit ack_frame 5 3 = [212; 0; 0; 0; 0; 30; 62; 17; 34; 51; 132; 68; 162; 79] /\
  frame_verify (rd_strict (flip_bit ack_frame 5 3)) (zlen ack_frame) = Done 0.
Proof.
  split; [vm_compute; reflexivity|].
  destruct c11_single_bit_detected_nonvacuous as (H1 & H2 & H3 & H4 & H5).
  exact (c11_single_bit_detected _ _ _ _ H1 H2 H3 H4 H5).
Qed.

(* ---- c11_flip_bit_xor ---- *)
Example c11_flip_bit_xor_nonvacuous : (5 < length ack_frame)%nat.
Proof. vm_compute. lia. Qed.
Example c11_flip_bit_xor_instance :
  flip_bit ack_frame 5 3 = xor_bytes ack_frame [0; 0; 0; 0; 0; 8; 0; 0; 0; 0; 0; 0; 0; 0].
Proof.
  rewrite (c11_flip_bit_xor ack_frame 5 3 c11_flip_bit_xor_nonvacuous). vm_compute. reflexivity.
Qed.

(* ---- the translated routine on the check string ---- *)
From Coq Require Import String.
From LW Require Import Base.CExpr Gen.Sites Spec.CodeSpec.
Local Open Scope string_scope.
Local Open Scope Z_scope.
Example c11_code_crc32_refines_model_instance :
  wfbytes check_msg /\ zlen check_msg < 2 ^ 31 /\
  observe (exec (60 * List.length check_msg + 60) (mem_at 4096 check_msg) (upd (upd (fun _ => 0) "message" 4096) "message_len" (zlen check_msg)) []
                body_libwifi_crc32) = Some (Some 3421780262, []).
Proof. split; [exact wf_check | ]. split; vm_compute; reflexivity. Qed.

(* the translated verification on the ACK frame: its four last octets are its FCS, with one bit flipped they are not *)
Example c11_code_frame_verify_instance :
  let rho c := upd (upd (upd (fun _ => 0) "ret:libwifi_calculate_fcs" c) "frame" 8192) "frame_len" (zlen ack_frame) in
  observe (exec 30 (mem_at 8192 ack_frame) (rho (crc32_list ack_body)) [] body_libwifi_frame_verify) =
    Some (Some 1, [("memcpy", [0; 8202; 4]); ("libwifi_calculate_fcs", [8192; 10])]) /\
  observe (exec 30 (mem_at 8192 ack_frame) (rho (crc32_list (0 :: tl ack_body))) [] body_libwifi_frame_verify) =
    Some (Some 0, [("memcpy", [0; 8202; 4]); ("libwifi_calculate_fcs", [8192; 10])]) /\
  observe (exec 30 (mem_at 8192 [1; 2; 3]) (upd (upd (fun _ => 0) "frame" 8192) "frame_len" 3) [] body_libwifi_frame_verify) = Some (Some 0, []).
Proof. repeat split; vm_compute; reflexivity. Qed.
