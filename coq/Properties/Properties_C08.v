(* C08 - security classification follows the RSN and WPA elements exactly.  Statements only. *)
From LW Require Import Base.Bytes Base.Sweep Gen.Consts Gen.Tables Model.Radiotap Model.Frame Model.Security Model.Mgmt
  Spec.EapolSpec Spec.SecuritySpec Spec.MgmtSpec Proofs.MgmtProofs.
Local Open Scope Z_scope.

(* the selector -> flag tables read from the two enumerate routines, the OUIs they compare and the
   summary flag values are the documented ones, for ALL selectors (not only the defined ones) *)
Definition tbl (t : list (Z * Z)) (sel : Z) : Z := match lookup_z sel t with Some f => f | None => 0 end.
Theorem c08_tables : forall sel : Z,
  tbl rsn_group_table sel = s_rsn_group sel /\ tbl rsn_pairwise_table sel = s_rsn_pairwise sel /\
  tbl rsn_akm_table sel = s_rsn_akm sel /\ tbl wpa_group_table sel = s_wpa_group sel /\
  tbl wpa_pairwise_table sel = s_wpa_pairwise sel /\ tbl wpa_akm_table sel = s_wpa_akm sel.
Proof. exact tables_exact. Qed.
Print Assumptions c08_tables.

Theorem c08_constants :
  rsn_oui = IEEE_OUI /\ wpa_oui = MSFT_OUI /\ c_WEP = F_WEP /\ c_WPA = F_WPA /\ c_WPA2 = F_WPA2 /\ c_WPA3 = F_WPA3 /\
  c_MICROSOFT_OUI = MSFT_OUI /\ c_LIBWIFI_MAX_CIPHER_SUITES = 6.
Proof. exact sec_constants. Qed.
Print Assumptions c08_constants.

(* the summary contains exactly the flags of the suites listed under the element kind's OUI *)
Theorem c08_flags_exact : forall ri wi, enumerate_rsn ri = s_rsn_flags ri /\ enumerate_wpa wi = s_wpa_flags wi.
Proof. exact flags_exact. Qed.
Print Assumptions c08_flags_exact.

(* decoded fields equal the element's bytes; too short for the mandatory fields or for its own counts -> refused;
   every read of the decoder stays inside the element (rd is arbitrary outside buf, and the slice is the element).
   There is no lower bound on len: an element shorter than version + group suite is refused before any read (F45),
   and one that ends after the group suite or after the pairwise list decodes with the rest empty (F46). *)
Theorem c08_rsn_decode_exact : forall buf rd base len, wfbytes buf -> agrees rd buf ->
  0 <= base -> 0 <= len -> base + len <= zlen buf ->
  get_rsn_info rd base (base + len) =
    Done (match s_rsn_decode (slice base len buf) with Some i => Ok i | None => Err (- EINVAL) end).
Proof. exact rsn_decode_exact. Qed.
Print Assumptions c08_rsn_decode_exact.

(* the element body starts with the 4-octet vendor header (OUI, type); the decoder is handed what follows it.  Also
   for len < 4, where base + 4 lies behind the element's end: refused before any read *)
Theorem c08_wpa_decode_exact : forall buf rd base len, wfbytes buf -> agrees rd buf ->
  0 <= base -> 0 <= len -> base + len <= zlen buf ->
  get_wpa_info rd (base + 4) (base + len) =
    Done (match s_wpa_decode (slice base len buf) with Some i => Ok i | None => Err (- EINVAL) end).
Proof. exact wpa_decode_exact. Qed.
Print Assumptions c08_wpa_decode_exact.

(* the four BSS parsers report exactly the Spec's summary (flags, WEP rule, WPS, decoded elements), and
   fail when an RSN/WPA element does not decode: for every classified frame *)
Theorem c08_bss_exact : forall f, frame_ok f ->
  parse_beacon f = Done (s_parse_beacon f) /\ parse_probe_resp f = Done (s_parse_probe_resp f) /\
  parse_assoc_resp f = Done (s_parse_assoc_resp f) /\ parse_reassoc_resp f = Done (s_parse_reassoc_resp f).
Proof. exact bss_parsers_exact. Qed.
Print Assumptions c08_bss_exact.

(* ---- the RSN and WPA element decoders AS TRANSLATED from security.c on this run (Gen/Sites.v), run with ONLY the element body readable ---- *)
From Coq Require Import String.
From LW Require Import Base.Bytes Base.CExpr Gen.Sites Spec.CodeSpec Model.Security Proofs.CodeSecurity.
Local Open Scope string_scope.
Local Open Scope Z_scope.
(* the value returned is the model's: 0 exactly when the model decodes the element, -EINVAL exactly when it refuses; the model never faults *)

Theorem c08_code_rsn_info_return_refines_model : forall buf start rho,
  wfbytes buf -> 0 < start -> start + zlen buf < 2 ^ 62 ->
  let rho0 := upd (upd rho "tag_data" start) "tag_end" (start + zlen buf) in
  let model := get_rsn_info (rd_strict buf) 0 (zlen buf) in
  exists v tr,
    observe (exec 400 (mem_at start buf) rho0 [] body_libwifi_get_rsn_info) = Some (Some v, tr) /\
    (v = 0 <-> exists i, model = Done (Ok i)) /\
    (v = -22 <-> exists c, model = Done (Err c)) /\
    (forall c, model = Done (Err c) -> c = v) /\
    (exists o, model = Done o).
Proof. exact code_rsn_info_return_refines_model. Qed.
Print Assumptions c08_code_rsn_info_return_refines_model.


Theorem c08_code_wpa_info_return_refines_model : forall buf start rho,
  wfbytes buf -> 0 < start -> start + zlen buf < 2 ^ 62 ->
  let rho0 := upd (upd rho "tag_data" start) "tag_end" (start + zlen buf) in
  let model := get_wpa_info (rd_strict buf) 0 (zlen buf) in
  exists v tr,
    observe (exec 400 (mem_at start buf) rho0 [] body_libwifi_get_wpa_info) = Some (Some v, tr) /\
    (v = 0 <-> exists i, model = Done (Ok i)) /\
    (v = -22 <-> exists c, model = Done (Err c)) /\
    (forall c, model = Done (Err c) -> c = v) /\
    (exists o, model = Done o).
Proof. exact code_wpa_info_return_refines_model. Qed.
Print Assumptions c08_code_wpa_info_return_refines_model.

(* ---- the two element handlers that feed the security summary, AS TRANSLATED (Gen/Sites.v): the WEP bit is cleared whenever an RSN or WPA1 element is seen, the decoder is
   called with exactly the element's body bounds, short elements are refused before any call, and the summary is copied only after a successful decode ---- *)
From LW Require Import Proofs.CodeSmall.
Local Open Scope list_scope.

(* the RSN element handler *)
Theorem c08_code_bss_handle_rsn_tag : forall rho e d len m,
  0 <= e < 2 ^ 64 -> 0 <= d < 2 ^ 63 -> - 2 ^ 31 <= len < 2 ^ 31 -> d + len < 2 ^ 63 ->
  let rho0 := upd (upd (upd rho "bss->encryption_info" e) "rsn_data" d) "rsn_len" len in
  let r := wrap s32 (rho "ret:libwifi_get_rsn_info") in
  let c1 := ("libwifi_get_rsn_info", [wrap u64 (rho "&rsn_info"); d; d + len]) in
  let res := exec 40 m rho0 [] body_libwifi_bss_handle_rsn_tag in
  exists rho', rho' "bss->encryption_info" = clear_wep e /\
    if len <? 6 then res = Returned (Some (-22)) rho' []
    else if negb (r =? 0) then res = Returned (Some (-22)) rho' [c1]
    else res = Returned (Some 0) rho' [c1; ("libwifi_enumerate_rsn_suites", [wrap u64 (rho "&rsn_info"); wrap u64 (rho "bss")]);
                                       ("memcpy", [wrap u64 (rho "&bss->rsn_info"); wrap u64 (rho "&rsn_info"); 64])].
Proof. exact code_bss_handle_rsn_tag. Qed.
Print Assumptions c08_code_bss_handle_rsn_tag.

(* the vendor (Microsoft OUI type 1 = WPA1, type 4 = WPS) element handler *)
Theorem c08_code_bss_handle_msft_tag : forall rho e a len buf,
  0 <= e < 2 ^ 64 -> 0 < a -> a + zlen buf < 2 ^ 62 -> wfbytes buf -> - 2 ^ 31 <= len < 2 ^ 31 -> (4 <= len -> 4 <= zlen buf) ->
  let rho0 := upd (upd (upd rho "bss->encryption_info" e) "msft_data" a) "msft_len" len in
  let t := znth buf 3 in
  let r := wrap s32 (rho "ret:libwifi_get_wpa_info") in
  let c1 := ("libwifi_get_wpa_info", [wrap u64 (rho "&wpa_info"); a + 4; a + len]) in
  let res := exec 60 (mem_at a buf) rho0 [] body_libwifi_bss_handle_msft_tag in
  if len <? 4 then exists rho', res = Returned (Some (-22)) rho' [] /\ rho' "bss->encryption_info" = e /\ rho' "bss->wps" = rho "bss->wps"
  else if t =? 1 then
    exists rho', rho' "bss->encryption_info" = Z.lor (clear_wep e) 4 /\ rho' "bss->wps" = rho "bss->wps" /\
      if len <? 10 then res = Returned (Some (-22)) rho' []
      else if negb (r =? 0) then res = Returned (Some (-22)) rho' [c1]
      else res = Returned (Some 0) rho'
                   [c1; ("libwifi_enumerate_wpa_suites", [wrap u64 (rho "&wpa_info"); wrap u64 (rho "bss")]);
                        ("memcpy", [wrap u64 (rho "&bss->wpa_info"); wrap u64 (rho "&wpa_info"); 58])]
  else exists rho', res = Returned (Some 0) rho' [] /\ rho' "bss->encryption_info" = e /\
                    rho' "bss->wps" = (if t =? 4 then 1 else rho "bss->wps").
Proof. exact code_bss_handle_msft_tag. Qed.
Print Assumptions c08_code_bss_handle_msft_tag.

(* ---- libwifi_enumerate_rsn_suites / _wpa_suites AS TRANSLATED (Gen/Sites.v): the group switch and both loops, for EVERY count, by induction; the type octet of the i-th suite is
   LOADED from the array at 4 i + 3; vocabulary (types_at, enum_trace, enum_fuel, rsn_env, flagv, flags_of, table_of, desc_of, group_cases, loop_cases) in Proofs/CodeEnum.v.
   A call's answer is one unknown per run, so the theorems cover "every OUI comparison answers equal" and "every one answers different". ---- *)
From LW Require Import Base.Sweep Gen.Tables Proofs.CodeEnum.
Local Open Scope list_scope.

(* RSN, all OUIs the expected one: exactly 1 + np + na comparisons at the right addresses, the summary ends as e | group flag | pairwise flags | AKM flags, each flag the model table's *)
Theorem c08_code_enumerate_rsn_equal : forall rho m e g P A tp ta,
  0 <= e < 2 ^ 64 -> 0 <= g < 256 -> zlen tp < 2 ^ 31 -> zlen ta < 2 ^ 31 ->
  0 <= P -> P + 4 * zlen tp <= 2 ^ 63 -> 0 <= A -> A + 4 * zlen ta <= 2 ^ 63 ->
  types_at m P tp -> types_at m A ta ->
  wrap s32 (rho "ret:memcmp") = 0 ->
  exists rho',
    exec (enum_fuel (length tp) (length ta)) m (rsn_env rho e g (zlen tp) (zlen ta) P A) [] body_libwifi_enumerate_rsn_suites =
      Fell rho' (enum_trace (wrap u64 (rho "&rsn_info->group_cipher_suite.oui")) (wrap u64 (rho "str:\x00\x0f\xac")) P A (length tp) (length ta)) /\
    rho' "bss->encryption_info" =
      Z.lor (Z.lor (Z.lor e (flagv rsn_group_table g)) (flags_of rsn_pairwise_table tp)) (flags_of rsn_akm_table ta).
Proof. exact code_enumerate_rsn_equal. Qed.
Print Assumptions c08_code_enumerate_rsn_equal.

(* the same for the WPA1 element *)
Theorem c08_code_enumerate_wpa_equal : forall rho m e g P A tp ta,
  0 <= e < 2 ^ 64 -> 0 <= g < 256 -> zlen tp < 65536 -> zlen ta < 65536 ->
  0 <= P -> P + 4 * zlen tp <= 2 ^ 63 -> 0 <= A -> A + 4 * zlen ta <= 2 ^ 63 ->
  types_at m P tp -> types_at m A ta ->
  wrap s32 (rho "ret:memcmp") = 0 ->
  exists rho',
    exec (enum_fuel (length tp) (length ta)) m (wpa_env rho e g (zlen tp) (zlen ta) P A) [] body_libwifi_enumerate_wpa_suites =
      Fell rho' (enum_trace (wrap u64 (rho "&wpa_info->multicast_cipher_suite.oui")) (wrap u64 (rho "str:\x00P\xf2")) P A (length tp) (length ta)) /\
    rho' "bss->encryption_info" =
      Z.lor (Z.lor (Z.lor e (flagv wpa_group_table g)) (flags_of wpa_pairwise_table tp)) (flags_of wpa_akm_table ta).
Proof. exact code_enumerate_wpa_equal. Qed.
Print Assumptions c08_code_enumerate_wpa_equal.

(* RSN, foreign OUIs: the same calls, nothing ORed, no memory read *)
Theorem c08_code_enumerate_rsn_differ : forall rho m e g P A np na,
  0 <= e < 2 ^ 64 -> 0 <= g < 256 -> 0 <= np < 2 ^ 31 -> 0 <= na < 2 ^ 31 ->
  0 <= P -> P + 4 * np <= 2 ^ 63 -> 0 <= A -> A + 4 * na <= 2 ^ 63 ->
  wrap s32 (rho "ret:memcmp") <> 0 ->
  exists rho',
    exec (enum_fuel (Z.to_nat np) (Z.to_nat na)) m (rsn_env rho e g np na P A) [] body_libwifi_enumerate_rsn_suites =
      Fell rho' (enum_trace (wrap u64 (rho "&rsn_info->group_cipher_suite.oui")) (wrap u64 (rho "str:\x00\x0f\xac")) P A (Z.to_nat np) (Z.to_nat na)) /\
    rho' "bss->encryption_info" = e.
Proof. exact code_enumerate_rsn_differ. Qed.
Print Assumptions c08_code_enumerate_rsn_differ.

(* WPA1, foreign OUIs *)
Theorem c08_code_enumerate_wpa_differ : forall rho m e g P A np na,
  0 <= e < 2 ^ 64 -> 0 <= g < 256 -> 0 <= np < 65536 -> 0 <= na < 65536 ->
  0 <= P -> P + 4 * np <= 2 ^ 63 -> 0 <= A -> A + 4 * na <= 2 ^ 63 ->
  wrap s32 (rho "ret:memcmp") <> 0 ->
  exists rho',
    exec (enum_fuel (Z.to_nat np) (Z.to_nat na)) m (wpa_env rho e g np na P A) [] body_libwifi_enumerate_wpa_suites =
      Fell rho' (enum_trace (wrap u64 (rho "&wpa_info->multicast_cipher_suite.oui")) (wrap u64 (rho "str:\x00P\xf2")) P A (Z.to_nat np) (Z.to_nat na)) /\
    rho' "bss->encryption_info" = e.
Proof. exact code_enumerate_wpa_differ. Qed.
Print Assumptions c08_code_enumerate_wpa_differ.

(* against Model/Security.v enumerate_rsn *)
Theorem c08_code_enumerate_rsn_refines_model : forall rho m e P A (info : rsn_info),
  let g := snd (r_group info) in let tp := map snd (r_pairwise info) in let ta := map snd (r_akms info) in
  fst (r_group info) = rsn_oui -> Forall (fun s => fst s = rsn_oui) (r_pairwise info) -> Forall (fun s => fst s = rsn_oui) (r_akms info) ->
  0 <= e < 2 ^ 64 -> 0 <= g < 256 -> zlen tp < 2 ^ 31 -> zlen ta < 2 ^ 31 ->
  0 <= P -> P + 4 * zlen tp <= 2 ^ 63 -> 0 <= A -> A + 4 * zlen ta <= 2 ^ 63 ->
  types_at m P tp -> types_at m A ta ->
  wrap s32 (rho "ret:memcmp") = 0 ->
  exists rho',
    exec (enum_fuel (length tp) (length ta)) m (rsn_env rho e g (zlen tp) (zlen ta) P A) [] body_libwifi_enumerate_rsn_suites =
      Fell rho' (enum_trace (wrap u64 (rho "&rsn_info->group_cipher_suite.oui")) (wrap u64 (rho "str:\x00\x0f\xac")) P A (length tp) (length ta)) /\
    rho' "bss->encryption_info" = Z.lor e (enumerate_rsn info).
Proof. exact code_enumerate_rsn_refines_model. Qed.
Print Assumptions c08_code_enumerate_rsn_refines_model.

(* against Model/Security.v enumerate_wpa *)
Theorem c08_code_enumerate_wpa_refines_model : forall rho m e P A (info : wpa_info),
  let g := snd (wi_multicast info) in let tp := map snd (wi_unicast info) in let ta := map snd (wi_akms info) in
  fst (wi_multicast info) = wpa_oui -> Forall (fun s => fst s = wpa_oui) (wi_unicast info) -> Forall (fun s => fst s = wpa_oui) (wi_akms info) ->
  0 <= e < 2 ^ 64 -> 0 <= g < 256 -> zlen tp < 65536 -> zlen ta < 65536 ->
  0 <= P -> P + 4 * zlen tp <= 2 ^ 63 -> 0 <= A -> A + 4 * zlen ta <= 2 ^ 63 ->
  types_at m P tp -> types_at m A ta ->
  wrap s32 (rho "ret:memcmp") = 0 ->
  exists rho',
    exec (enum_fuel (length tp) (length ta)) m (wpa_env rho e g (zlen tp) (zlen ta) P A) [] body_libwifi_enumerate_wpa_suites =
      Fell rho' (enum_trace (wrap u64 (rho "&wpa_info->multicast_cipher_suite.oui")) (wrap u64 (rho "str:\x00P\xf2")) P A (length tp) (length ta)) /\
    rho' "bss->encryption_info" = Z.lor e (enumerate_wpa info).
Proof. exact code_enumerate_wpa_refines_model. Qed.
Print Assumptions c08_code_enumerate_wpa_refines_model.

(* the case labels and shift counts of this switch in the C text equal the table the model uses (a changed label or shift falsifies it) *)
Theorem c08_code_rsn_group_cases_match : table_of (map desc_of (group_cases body_libwifi_enumerate_rsn_suites)) = rsn_group_table.
Proof. exact rsn_group_cases_match. Qed.
Print Assumptions c08_code_rsn_group_cases_match.

(* the case labels and shift counts of this switch in the C text equal the table the model uses (a changed label or shift falsifies it) *)
Theorem c08_code_rsn_pairwise_cases_match : table_of (map desc_of (loop_cases 4 body_libwifi_enumerate_rsn_suites)) = rsn_pairwise_table.
Proof. exact rsn_pairwise_cases_match. Qed.
Print Assumptions c08_code_rsn_pairwise_cases_match.

(* the case labels and shift counts of this switch in the C text equal the table the model uses (a changed label or shift falsifies it) *)
Theorem c08_code_rsn_akm_cases_match : table_of (map desc_of (loop_cases 6 body_libwifi_enumerate_rsn_suites)) = rsn_akm_table.
Proof. exact rsn_akm_cases_match. Qed.
Print Assumptions c08_code_rsn_akm_cases_match.

(* the case labels and shift counts of this switch in the C text equal the table the model uses (a changed label or shift falsifies it) *)
Theorem c08_code_wpa_group_cases_match : table_of (map desc_of (group_cases body_libwifi_enumerate_wpa_suites)) = wpa_group_table.
Proof. exact wpa_group_cases_match. Qed.
Print Assumptions c08_code_wpa_group_cases_match.

(* the case labels and shift counts of this switch in the C text equal the table the model uses (a changed label or shift falsifies it) *)
Theorem c08_code_wpa_pairwise_cases_match : table_of (map desc_of (loop_cases 4 body_libwifi_enumerate_wpa_suites)) = wpa_pairwise_table.
Proof. exact wpa_pairwise_cases_match. Qed.
Print Assumptions c08_code_wpa_pairwise_cases_match.

(* the case labels and shift counts of this switch in the C text equal the table the model uses (a changed label or shift falsifies it) *)
Theorem c08_code_wpa_akm_cases_match : table_of (map desc_of (loop_cases 6 body_libwifi_enumerate_wpa_suites)) = wpa_akm_table.
Proof. exact wpa_akm_cases_match. Qed.
Print Assumptions c08_code_wpa_akm_cases_match.

