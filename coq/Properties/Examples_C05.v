(* C05 - non-vacuity witnesses and worked instances for Properties_C05.v.
   Covered:  c05_inv           (nonvacuous + instance: a 5-operation history on a 4-element list that holds the
                                vendor element 221 twice; the resulting state is written out),
             c05_step_refines  (nonvacuous + instance, three operations: removing the duplicated element 221,
                                setting the SSID, counting 221; each with spec_step = Some ...; then the formerly open / refused
                                cases: remove, set and count on a list with a non-leading empty element, and
                                remove / count on the empty list),
             c05_spec_total, c05_step_refines_total (instance: the empty-element list, OpRemove).
             c05_enc_injective (nonvacuous + instance: a 3-element list with an empty-bodied element).
   Skipped:  c05_inv_init (no hypotheses).
   Extra:    c05_inv_reached (the literal start state is the one four adds from tags_empty produce),
             c05_len_matters (with a recorded length that is off by two the same history faults: the
             hypothesis t_len = zlen bytes is not decoration). *)
From Coq Require Import ZArith Lia List Bool.
From LW Require Import Base.Bytes Model.TagIter Spec.TagSpec Model.Tags Gen.Consts Properties.Properties_C05.
Local Open Scope Z_scope.

(* boolean checker for wf_tags, so that well-formedness of literal lists is proved by computation *)
Lemma wf_tagb_ok t : wf_tagb t = true -> wf_tag t.
Proof.
  unfold wf_tagb, wf_tag. rewrite !andb_true_iff. intros [[[A B] C] D].
  apply wfbytesb_spec in D. repeat split; try assumption; lia.
Qed.
Lemma wf_tagsb_ok l : forallb wf_tagb l = true -> wf_tags l.
Proof.
  unfold wf_tags. rewrite forallb_forall, Forall_forall. intros H x Hx. apply wf_tagb_ok, H, Hx.
Qed.

Definition home : list byte := [104; 111; 109; 101].      (* "home" *)
Definition cafe : list byte := [99; 97; 102; 101].         (* "cafe" *)

(* SSID "home", vendor element, DS parameter (channel 6), a second vendor element *)
Definition l0 : list tag := [(0, home); (221, [1; 2]); (3, [6]); (221, [9])].
Definition s0 : tags :=
  {| t_len := 16; t_bytes := [0; 4; 104; 111; 109; 101; 221; 2; 1; 2; 3; 1; 6; 221; 1; 9] |}.
Definition ops : list tag_op :=
  [OpAdd 221 [7; 7; 7]; OpSetSsid cafe; OpSetChannel 11; OpRemove 221; OpCheck 221].
(* after the history: first 221 removed, SSID and channel replaced (moved to the end), 221 [7;7;7] added *)
Definition s_final : tags :=
  {| t_len := 17; t_bytes := [221; 1; 9; 221; 3; 7; 7; 7; 0; 4; 99; 97; 102; 101; 3; 1; 11] |}.

Lemma wf_l0 : wf_tags l0.
Proof. apply wf_tagsb_ok. vm_compute. reflexivity. Qed.
Lemma inv_s0 : Inv s0.
Proof. exists l0. split; [exact wf_l0 | split; vm_compute; reflexivity]. Qed.
Lemma wf_ops : Forall wf_op ops.
Proof.
  unfold ops. repeat constructor; cbn [wf_op]; try (apply wf_tagb_ok; vm_compute; reflexivity); lia.
Qed.

(* the literal start state is reachable: four adds from the empty list produce it *)
Example c05_inv_reached :
  run tags_empty [OpAdd 0 home; OpAdd 221 [1; 2]; OpAdd 3 [6]; OpAdd 221 [9]] = Done s0.
Proof. vm_compute. reflexivity. Qed.

(* ---------- c05_inv ---------- *)
Example c05_inv_nonvacuous : Inv s0 /\ Forall wf_op ops.
Proof. split; [exact inv_s0 | exact wf_ops]. Qed.

Example c05_inv_instance : run s0 ops = Done s_final /\ Inv s_final.
Proof.
  destruct (c05_inv ops s0 inv_s0 wf_ops) as [s' [Hr Hi]].
  assert (s' = s_final) as <-; [| split; assumption].
  vm_compute in Hr. injection Hr as <-. reflexivity.
Qed.
(* the witness list of the final state, written out *)
Example c05_inv_instance_list :
  t_bytes s_final = enc [(221, [9]); (221, [7; 7; 7]); (0, cafe); (3, [11])].
Proof. vm_compute. reflexivity. Qed.

(* the length hypothesis inside Inv matters: same bytes, recorded length 18, same history -> fault *)
Example c05_len_matters :
  run {| t_len := 18; t_bytes := t_bytes s0 |} ops = Fault OobRead 22.
Proof. vm_compute. reflexivity. Qed.

(* ---------- c05_step_refines ---------- *)
(* (a) remove the duplicated element 221: only the first occurrence goes *)
Definition l_rm : list tag := [(0, home); (3, [6]); (221, [9])].
Example c05_step_refines_nonvacuous :
  wf_tags l0 /\ t_bytes s0 = enc l0 /\ t_len s0 = zlen (enc l0) /\ wf_op (OpRemove 221) /\
  spec_step c_TAG_SSID c_TAG_DS_PARAMETER l0 (OpRemove 221) = Some (l_rm, 0).
Proof. split; [exact wf_l0 |]. repeat split; vm_compute; reflexivity. Qed.

Example c05_step_refines_instance :
  step s0 (OpRemove 221) =
    Done ({| t_len := 12; t_bytes := [0; 4; 104; 111; 109; 101; 3; 1; 6; 221; 1; 9] |}, 0).
Proof.
  destruct c05_step_refines_nonvacuous as [A [B [C [D E]]]].
  destruct (c05_step_refines s0 l0 (OpRemove 221) l_rm 0 A B C D E) as [s' [Hs [Hb Hl]]].
  rewrite Hs. destruct s' as [len bytes]. cbn [t_bytes t_len] in Hb, Hl. subst len bytes.
  vm_compute. reflexivity.
Qed.

(* (b) set the SSID: the old SSID element is removed, the new one appended *)
Definition l_ssid : list tag := [(221, [1; 2]); (3, [6]); (221, [9]); (0, cafe)].
Example c05_step_refines_nonvacuous_ssid :
  wf_tags l0 /\ t_bytes s0 = enc l0 /\ t_len s0 = zlen (enc l0) /\ wf_op (OpSetSsid cafe) /\
  spec_step c_TAG_SSID c_TAG_DS_PARAMETER l0 (OpSetSsid cafe) = Some (l_ssid, 0).
Proof.
  split; [exact wf_l0 |]. split; [vm_compute; reflexivity |]. split; [vm_compute; reflexivity |].
  split; [| vm_compute; reflexivity].
  cbn [wf_op]. apply wf_tagb_ok. vm_compute. reflexivity.
Qed.

Example c05_step_refines_instance_ssid :
  step s0 (OpSetSsid cafe) =
    Done ({| t_len := 16; t_bytes := [221; 2; 1; 2; 3; 1; 6; 221; 1; 9; 0; 4; 99; 97; 102; 101] |}, 0).
Proof.
  destruct c05_step_refines_nonvacuous_ssid as [A [B [C [D E]]]].
  destruct (c05_step_refines s0 l0 (OpSetSsid cafe) l_ssid 0 A B C D E) as [s' [Hs [Hb Hl]]].
  rewrite Hs. destruct s' as [len bytes]. cbn [t_bytes t_len] in Hb, Hl. subst len bytes.
  vm_compute. reflexivity.
Qed.

(* (c) count the duplicated element: return value 2, state unchanged *)
Example c05_step_refines_nonvacuous_check :
  wf_tags l0 /\ t_bytes s0 = enc l0 /\ t_len s0 = zlen (enc l0) /\ wf_op (OpCheck 221) /\
  spec_step c_TAG_SSID c_TAG_DS_PARAMETER l0 (OpCheck 221) = Some (l0, 2).
Proof. split; [exact wf_l0 |]. repeat split; vm_compute; reflexivity. Qed.

Example c05_step_refines_instance_check : step s0 (OpCheck 221) = Done (s0, 2).
Proof.
  destruct c05_step_refines_nonvacuous_check as [A [B [C [D E]]]].
  destruct (c05_step_refines s0 l0 (OpCheck 221) l0 2 A B C D E) as [s' [Hs [Hb Hl]]].
  rewrite Hs. destruct s' as [len bytes]. cbn [t_bytes t_len] in Hb, Hl. subst len bytes.
  vm_compute. reflexivity.
Qed.

(* (d) formerly left open (spec_step was None): a list with a non-leading EMPTY element.  The iterator used to stop
   at (5, []) and never saw the DS element behind it; now remove / set / count reach it (finding F44) *)
Definition le : list tag := [(0, home); (5, []); (3, [6])].
Definition se : tags := {| t_len := 11; t_bytes := [0; 4; 104; 111; 109; 101; 5; 0; 3; 1; 6] |}.
Lemma wf_le : wf_tags le.
Proof. apply wf_tagsb_ok. vm_compute. reflexivity. Qed.
Example c05_step_refines_nonvacuous_empty :
  wf_tags le /\ t_bytes se = enc le /\ t_len se = zlen (enc le) /\
  spec_step c_TAG_SSID c_TAG_DS_PARAMETER le (OpRemove 3) = Some ([(0, home); (5, [])], 0) /\
  spec_step c_TAG_SSID c_TAG_DS_PARAMETER le (OpSetChannel 11) = Some ([(0, home); (5, []); (3, [11])], 0) /\
  spec_step c_TAG_SSID c_TAG_DS_PARAMETER le (OpCheck 3) = Some (le, 1).
Proof. split; [exact wf_le |]. repeat split; vm_compute; reflexivity. Qed.

Example c05_step_refines_instance_empty :
  step se (OpRemove 3) = Done ({| t_len := 8; t_bytes := [0; 4; 104; 111; 109; 101; 5; 0] |}, 0) /\
  step se (OpSetChannel 11) =
    Done ({| t_len := 11; t_bytes := [0; 4; 104; 111; 109; 101; 5; 0; 3; 1; 11] |}, 0) /\
  step se (OpCheck 3) = Done (se, 1).
Proof.
  destruct c05_step_refines_nonvacuous_empty as [A [B [C [E1 [E2 E3]]]]].
  split; [| split].
  - destruct (c05_step_refines se le (OpRemove 3) _ 0 A B C I E1) as [s' [Hs [Hb Hl]]].
    rewrite Hs. destruct s' as [len bytes]. cbn [t_bytes t_len] in Hb, Hl. subst len bytes.
    vm_compute. reflexivity.
  - assert (D : wf_op (OpSetChannel 11)) by (cbn [wf_op]; lia).
    destruct (c05_step_refines se le (OpSetChannel 11) _ 0 A B C D E2) as [s' [Hs [Hb Hl]]].
    rewrite Hs. destruct s' as [len bytes]. cbn [t_bytes t_len] in Hb, Hl. subst len bytes.
    vm_compute. reflexivity.
  - destruct (c05_step_refines se le (OpCheck 3) le 1 A B C I E3) as [s' [Hs [Hb Hl]]].
    rewrite Hs. destruct s' as [len bytes]. cbn [t_bytes t_len] in Hb, Hl. subst len bytes.
    vm_compute. reflexivity.
Qed.

(* (e) formerly -EINVAL: removing from / counting in the EMPTY list returns 0 and leaves it empty (finding F50) *)
Example c05_step_refines_nonvacuous_nil :
  wf_tags [] /\ t_bytes tags_empty = enc [] /\ t_len tags_empty = zlen (enc []) /\
  spec_step c_TAG_SSID c_TAG_DS_PARAMETER [] (OpRemove 3) = Some ([], 0) /\
  spec_step c_TAG_SSID c_TAG_DS_PARAMETER [] (OpCheck 3) = Some ([], 0).
Proof. split; [constructor |]. repeat split. Qed.

Example c05_step_refines_instance_nil :
  step tags_empty (OpRemove 3) = Done (tags_empty, 0) /\ step tags_empty (OpCheck 3) = Done (tags_empty, 0).
Proof.
  destruct c05_step_refines_nonvacuous_nil as [A [B [C [E1 E2]]]].
  split.
  - destruct (c05_step_refines tags_empty [] (OpRemove 3) [] 0 A B C I E1) as [s' [Hs [Hb Hl]]].
    rewrite Hs. destruct s' as [len bytes]. cbn [t_bytes t_len] in Hb, Hl. subst len bytes.
    vm_compute. reflexivity.
  - destruct (c05_step_refines tags_empty [] (OpCheck 3) [] 0 A B C I E2) as [s' [Hs [Hb Hl]]].
    rewrite Hs. destruct s' as [len bytes]. cbn [t_bytes t_len] in Hb, Hl. subst len bytes.
    vm_compute. reflexivity.
Qed.

(* ---------- c05_spec_total / c05_step_refines_total ---------- *)
(* no case is left open any more: on the empty-element list the reference step exists and the C step is it *)
Example c05_spec_total_instance :
  spec_step c_TAG_SSID c_TAG_DS_PARAMETER le (OpRemove 5) = Some ([(0, home); (3, [6])], 0).
Proof.
  destruct (c05_spec_total le (OpRemove 5)) as [l' [r H]]. rewrite H.
  vm_compute in H. injection H as <- <-. reflexivity.
Qed.
Example c05_step_refines_total_instance :
  step se (OpRemove 5) = Done ({| t_len := 9; t_bytes := [0; 4; 104; 111; 109; 101; 3; 1; 6] |}, 0).
Proof.
  destruct c05_step_refines_nonvacuous_empty as [A [B [C _]]].
  destruct (c05_step_refines_total se le (OpRemove 5) A B C I) as [s' [l' [r [Sp [Hs [_ [Hb Hl]]]]]]].
  vm_compute in Sp. injection Sp as <- <-.
  rewrite Hs. destruct s' as [len bytes]. cbn [t_bytes t_len] in Hb, Hl. subst len bytes.
  vm_compute. reflexivity.
Qed.

(* ---------- c05_enc_injective ---------- *)
(* a 3-element list whose middle element has an empty body *)
Definition l3 : list tag := [(0, home); (5, []); (3, [6])].
Definition l3' : list tag := [(0, [104; 111; 109; 101]); (5, []); (3, [6])].
Example c05_enc_injective_nonvacuous : wf_tags l3 /\ wf_tags l3' /\ enc l3 = enc l3'.
Proof. repeat split; try (apply wf_tagsb_ok); vm_compute; reflexivity. Qed.

Example c05_enc_injective_instance : l3 = l3'.
Proof.
  destruct c05_enc_injective_nonvacuous as [A [B C]]. exact (c05_enc_injective l3 l3' A B C).
Qed.
Example c05_enc_injective_bytes : enc l3 = [0; 4; 104; 111; 109; 101; 5; 0; 3; 1; 6].
Proof. vm_compute. reflexivity. Qed.
