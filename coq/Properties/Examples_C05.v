(* C05 - non-vacuity witnesses and worked instances for Properties_C05.v.
   Covered:  c05_inv           (nonvacuous + instance: a 5-operation history on a 4-element list that holds the
                                vendor element 221 twice; the resulting state is written out),
             c05_step_refines  (nonvacuous + instance, three operations: removing the duplicated element 221,
                                setting the SSID, counting 221; each with spec_step = Some ...),
             c05_enc_injective (nonvacuous + instance: a 3-element list with an empty-bodied element).
   Skipped:  c05_inv_init (no hypotheses).
   Extra:    c05_inv_reached (the literal start state is the one four adds from tags_empty produce),
             c05_len_matters (with a recorded length that is off by two the same history faults: the
             hypothesis t_len = zlen bytes is not decoration). *)
From Coq Require Import ZArith Lia List Bool.
From LW Require Import Base.Bytes Model.TagIter Spec.TagSpec Model.Tags Gen.Consts Properties.Properties_C05.
Local Open Scope Z_scope.

(* boolean checker for wf_tags, so that well-formedness of literal lists is proved by computation *)
Lemma wf_tagb_ok t : wf_tagb t = true -> wf_tag t.
Proof.
  unfold wf_tagb, wf_tag. rewrite !andb_true_iff. intros [[[A B] C] D].
  apply wfbytesb_spec in D. repeat split; try assumption; lia.
Qed.
Lemma wf_tagsb_ok l : forallb wf_tagb l = true -> wf_tags l.
Proof.
  unfold wf_tags. rewrite forallb_forall, Forall_forall. intros H x Hx. apply wf_tagb_ok, H, Hx.
Qed.

Definition home : list byte := [104; 111; 109; 101].      (* "home" *)
Definition cafe : list byte := [99; 97; 102; 101].         (* "cafe" *)

(* SSID "home", vendor element, DS parameter (channel 6), a second vendor element *)
Definition l0 : list tag := [(0, home); (221, [1; 2]); (3, [6]); (221, [9])].
Definition s0 : tags :=
  {| t_len := 16; t_bytes := [0; 4; 104; 111; 109; 101; 221; 2; 1; 2; 3; 1; 6; 221; 1; 9] |}.
Definition ops : list tag_op :=
  [OpAdd 221 [7; 7; 7]; OpSetSsid cafe; OpSetChannel 11; OpRemove 221; OpCheck 221].
(* after the history: first 221 removed, SSID and channel replaced (moved to the end), 221 [7;7;7] added *)
Definition s_final : tags :=
  {| t_len := 17; t_bytes := [221; 1; 9; 221; 3; 7; 7; 7; 0; 4; 99; 97; 102; 101; 3; 1; 11] |}.

Lemma wf_l0 : wf_tags l0.
Proof. apply wf_tagsb_ok. vm_compute. reflexivity. Qed.
Lemma inv_s0 : Inv s0.
Proof. exists l0. split; [exact wf_l0 | split; vm_compute; reflexivity]. Qed.
Lemma wf_ops : Forall wf_op ops.
Proof.
  unfold ops. repeat constructor; cbn [wf_op]; try (apply wf_tagb_ok; vm_compute; reflexivity); lia.
Qed.

(* the literal start state is reachable: four adds from the empty list produce it *)
Example c05_inv_reached :
  run tags_empty [OpAdd 0 home; OpAdd 221 [1; 2]; OpAdd 3 [6]; OpAdd 221 [9]] = Done s0.
Proof. vm_compute. reflexivity. Qed.

(* ---------- c05_inv ---------- *)
Example c05_inv_nonvacuous : Inv s0 /\ Forall wf_op ops.
Proof. split; [exact inv_s0 | exact wf_ops]. Qed.

Example c05_inv_instance : run s0 ops = Done s_final /\ Inv s_final.
Proof.
  destruct (c05_inv ops s0 inv_s0 wf_ops) as [s' [Hr Hi]].
  assert (s' = s_final) as <-; [| split; assumption].
  vm_compute in Hr. injection Hr as <-. reflexivity.
Qed.
(* the witness list of the final state, written out *)
Example c05_inv_instance_list :
  t_bytes s_final = enc [(221, [9]); (221, [7; 7; 7]); (0, cafe); (3, [11])].
Proof. vm_compute. reflexivity. Qed.

(* the length hypothesis inside Inv matters: same bytes, recorded length 18, same history -> fault *)
Example c05_len_matters :
  run {| t_len := 18; t_bytes := t_bytes s0 |} ops = Fault OobRead 22.
Proof. vm_compute. reflexivity. Qed.

(* ---------- c05_step_refines ---------- *)
(* (a) remove the duplicated element 221: only the first occurrence goes *)
Definition l_rm : list tag := [(0, home); (3, [6]); (221, [9])].
Example c05_step_refines_nonvacuous :
  wf_tags l0 /\ t_bytes s0 = enc l0 /\ t_len s0 = zlen (enc l0) /\ wf_op (OpRemove 221) /\
  spec_step c_TAG_SSID c_TAG_DS_PARAMETER l0 (OpRemove 221) = Some (l_rm, 0).
Proof. split; [exact wf_l0 |]. repeat split; vm_compute; reflexivity. Qed.

Example c05_step_refines_instance :
  step s0 (OpRemove 221) =
    Done ({| t_len := 12; t_bytes := [0; 4; 104; 111; 109; 101; 3; 1; 6; 221; 1; 9] |}, 0).
Proof.
  destruct c05_step_refines_nonvacuous as [A [B [C [D E]]]].
  destruct (c05_step_refines s0 l0 (OpRemove 221) l_rm 0 A B C D E) as [s' [Hs [Hb Hl]]].
  rewrite Hs. destruct s' as [len bytes]. cbn [t_bytes t_len] in Hb, Hl. subst len bytes.
  vm_compute. reflexivity.
Qed.

(* (b) set the SSID: the old SSID element is removed, the new one appended *)
Definition l_ssid : list tag := [(221, [1; 2]); (3, [6]); (221, [9]); (0, cafe)].
Example c05_step_refines_nonvacuous_ssid :
  wf_tags l0 /\ t_bytes s0 = enc l0 /\ t_len s0 = zlen (enc l0) /\ wf_op (OpSetSsid cafe) /\
  spec_step c_TAG_SSID c_TAG_DS_PARAMETER l0 (OpSetSsid cafe) = Some (l_ssid, 0).
Proof.
  split; [exact wf_l0 |]. split; [vm_compute; reflexivity |]. split; [vm_compute; reflexivity |].
  split; [| vm_compute; reflexivity].
  cbn [wf_op]. apply wf_tagb_ok. vm_compute. reflexivity.
Qed.

Example c05_step_refines_instance_ssid :
  step s0 (OpSetSsid cafe) =
    Done ({| t_len := 16; t_bytes := [221; 2; 1; 2; 3; 1; 6; 221; 1; 9; 0; 4; 99; 97; 102; 101] |}, 0).
Proof.
  destruct c05_step_refines_nonvacuous_ssid as [A [B [C [D E]]]].
  destruct (c05_step_refines s0 l0 (OpSetSsid cafe) l_ssid 0 A B C D E) as [s' [Hs [Hb Hl]]].
  rewrite Hs. destruct s' as [len bytes]. cbn [t_bytes t_len] in Hb, Hl. subst len bytes.
  vm_compute. reflexivity.
Qed.

(* (c) count the duplicated element: return value 2, state unchanged *)
Example c05_step_refines_nonvacuous_check :
  wf_tags l0 /\ t_bytes s0 = enc l0 /\ t_len s0 = zlen (enc l0) /\ wf_op (OpCheck 221) /\
  spec_step c_TAG_SSID c_TAG_DS_PARAMETER l0 (OpCheck 221) = Some (l0, 2).
Proof. split; [exact wf_l0 |]. repeat split; vm_compute; reflexivity. Qed.

Example c05_step_refines_instance_check : step s0 (OpCheck 221) = Done (s0, 2).
Proof.
  destruct c05_step_refines_nonvacuous_check as [A [B [C [D E]]]].
  destruct (c05_step_refines s0 l0 (OpCheck 221) l0 2 A B C D E) as [s' [Hs [Hb Hl]]].
  rewrite Hs. destruct s' as [len bytes]. cbn [t_bytes t_len] in Hb, Hl. subst len bytes.
  vm_compute. reflexivity.
Qed.

(* the case the theorem leaves open: a non-leading empty element makes spec_step None for remove/set/check *)
Example c05_step_refines_open_case :
  spec_step c_TAG_SSID c_TAG_DS_PARAMETER [(0, home); (5, []); (3, [6])] (OpRemove 3) = None.
Proof. vm_compute. reflexivity. Qed.

(* ---------- c05_enc_injective ---------- *)
(* a 3-element list whose middle element has an empty body *)
Definition l3 : list tag := [(0, home); (5, []); (3, [6])].
Definition l3' : list tag := [(0, [104; 111; 109; 101]); (5, []); (3, [6])].
Example c05_enc_injective_nonvacuous : wf_tags l3 /\ wf_tags l3' /\ enc l3 = enc l3'.
Proof. repeat split; try (apply wf_tagsb_ok); vm_compute; reflexivity. Qed.

Example c05_enc_injective_instance : l3 = l3'.
Proof.
  destruct c05_enc_injective_nonvacuous as [A [B C]]. exact (c05_enc_injective l3 l3' A B C).
Qed.
Example c05_enc_injective_bytes : enc l3 = [0; 4; 104; 111; 109; 101; 5; 0; 3; 1; 6].
Proof. vm_compute. reflexivity. Qed.
