(* C18 - non-vacuity witnesses and worked instances for Properties_C18.v.
   Covered:  c18_shapes                  (nonvacuous + instance: PRIVACY (bit 4) on the conditional shape, both branches),
             c18_values                  (nonvacuous + instance),
             c18_any_expression          (nonvacuous + instance: argument  caps & ~(1 << CAPABILITIES_SHORT_SLOT)  in an
                                          environment that is NOT env_of; the project's own example
                                          Proofs/MacroGeneral.v [example_hyps]/[example_satisfiable] is referenced too),
             c18_any_expression_env_of   (nonvacuous + instance, with MacroGeneral's example_arg  c ? a | 256 : (b ^ a) << 1),
             c18_parse_fuel              (nonvacuous + instance: a fuel (13) different from parse_expr's own).
   Skipped:  c18_distinct, c18_any_expression_example (closed statements, no hypotheses). *)
From Coq Require Import List ZArith String Lia.
From LW Require Import Base.Tok Gen.Consts Gen.Macros Spec.CapSpec Spec.CapGeneralSpec Model.Macro
  Proofs.MacroGeneral Properties.Properties_C18.
Import ListNotations.
Local Open Scope Z_scope.
Local Open Scope string_scope.

(* ---- c18_shapes ---- *)
Definition sh_cond : shape :=
  {| sh_name := "cond"; sh_toks := [TId "c"; TOp "?"; TId "a"; TOp ":"; TId "b"];
     sh_sem := fun a b c => if (c =? 0)%Z then b else a |}.
(* a = 0x0431 (ESS, PRIVACY, SHORT_PREAMBLE, SHORT_SLOT), b = 0x0001 (ESS only) *)
Example c18_shapes_nonvacuous :
  In ("CAPABILITIES_PRIVACY", 4) ieee_cap_bits /\ In sh_cond shapes /\
  0 <= 1073 < 65536 /\ 0 <= 1 < 65536 /\ 0 <= 1 < 65536.
Proof. repeat split; try lia; unfold sh_cond; simpl; tauto. Qed.

Example c18_shapes_instance :
  check_cap_eval (sh_toks sh_cond) "CAPABILITIES_PRIVACY" (env_of 1073 1 1) = Some 16 /\
  Z.testbit (sh_sem sh_cond 1073 1 1) 4 = true /\
  check_cap_eval (sh_toks sh_cond) "CAPABILITIES_PRIVACY" (env_of 1073 1 0) = Some 0 /\
  Z.testbit (sh_sem sh_cond 1073 1 0) 4 = false.
Proof.
  destruct c18_shapes_nonvacuous as [A [B [Ha [Hb Hc]]]].
  destruct (c18_shapes _ _ _ 1073 1 1 A B Ha Hb Hc) as [v [Hv Hiff]].
  destruct (c18_shapes _ _ _ 1073 1 0 A B Ha Hb ltac:(lia)) as [w [Hw Hiff']].
  assert (Ev : v = 16) by (vm_compute in Hv; congruence).
  assert (Ew : w = 0) by (vm_compute in Hw; congruence).
  subst v w. split; [|split; [|split]].
  - exact Hv.
  - apply Hiff. discriminate.
  - exact Hw.
  - destruct (Z.testbit (sh_sem sh_cond 1073 1 0) 4) eqn:E; [|reflexivity].
    exfalso. apply (proj2 Hiff'); reflexivity.
Qed.

(* ---- c18_values ---- *)
Example c18_values_nonvacuous : In ("CAPABILITIES_SHORT_SLOT", 10) ieee_cap_bits.
Proof. simpl. tauto. Qed.
Example c18_values_instance : lookup_enum "CAPABILITIES_SHORT_SLOT" = Some 10.
Proof. exact (c18_values _ _ c18_values_nonvacuous). Qed.

(* ---- c18_any_expression: an environment of our own, an argument with a unary operator, a parenthesis
        and an enumerator inside the argument ---- *)
Definition arg2 : list tok :=
  [TId "caps"; TOp "&"; TOp "~"; TLParen; TNum 1; TOp "<<"; TId "CAPABILITIES_SHORT_SLOT"; TRParen].
Definition e2 : cexpr :=
  EBin BAnd (EVar "caps") (EUn UBitNot (EBin BShl (ELit 1) (EVar "CAPABILITIES_SHORT_SLOT"))).
Definition env2 (s : string) : option Z :=
  if String.eqb s "caps" then Some 1073 else assoc_str s ieee_cap_bits.

Example c18_any_expression_nonvacuous :
  In ("CAPABILITIES_PRIVACY", 4) ieee_cap_bits /\ arg_ok arg2 /\ parse_expr arg2 = Some e2 /\
  (forall s b, In (s, b) ieee_cap_bits -> env2 s = Some b) /\ eval env2 e2 = Some 49.
Proof.
  split; [simpl; tauto|]. split; [|split; [vm_compute; reflexivity|split; [|vm_compute; reflexivity]]].
  - intros s Hin. unfold arg2 in Hin. cbn [In] in Hin.
    repeat (destruct Hin as [Hin|Hin]; [try discriminate Hin; injection Hin as <-; reflexivity|]).
    destruct Hin.
  - intros s b Hin. unfold ieee_cap_bits in Hin. cbn [In] in Hin.
    repeat (destruct Hin as [Hin|Hin]; [injection Hin as <- <-; reflexivity|]).
    destruct Hin.
Qed.

(* 0x431 & ~0x400 = 0x31: PRIVACY is reported set, SHORT_SLOT (masked away by the argument itself) is not *)
Example c18_any_expression_instance :
  check_cap_eval arg2 "CAPABILITIES_PRIVACY" env2 = Some 16 /\ Z.testbit 49 4 = true /\
  check_cap_eval arg2 "CAPABILITIES_SHORT_SLOT" env2 = Some 0 /\ Z.testbit 49 10 = false.
Proof.
  destruct c18_any_expression_nonvacuous as [A [B [C [D E]]]].
  destruct (c18_any_expression _ _ _ _ _ _ A B C D E) as [r [Hr Hiff]].
  destruct (c18_any_expression _ _ _ _ _ _ c18_values_nonvacuous B C D E) as [r' [Hr' Hiff']].
  assert (Er : r = 16) by (vm_compute in Hr; congruence).
  assert (Er' : r' = 0) by (vm_compute in Hr'; congruence).
  subst r r'. split; [exact Hr|]. split; [apply Hiff; discriminate|]. split; [exact Hr'|].
  destruct (Z.testbit 49 10) eqn:T; [|reflexivity]. exfalso. apply (proj2 Hiff'); reflexivity.
Qed.

(* ---- c18_any_expression_env_of: the project's own example argument (Spec/CapGeneralSpec.v example_arg,
        witnesses in Proofs/MacroGeneral.v: example_arg_ok, example_hyps, example_satisfiable) ---- *)
Definition e_example : cexpr :=
  ECond (EVar "c") (EBin BOr (EVar "a") (ELit 256)) (EBin BShl (EBin BXor (EVar "b") (EVar "a")) (ELit 1)).

Example c18_any_expression_env_of_nonvacuous :
  In ("CAPABILITIES_IMMEDIATE_ACK", 15) ieee_cap_bits /\ arg_ok example_arg /\
  parse_expr example_arg = Some e_example /\ eval (env_of 4660 22136 0) e_example = Some 34968.
Proof.
  split; [simpl; tauto|]. split; [exact example_arg_ok|]. split; vm_compute; reflexivity.
Qed.

(* c = 0 selects (0x5678 ^ 0x1234) << 1 = 0x8898: bit 15 set, so the IMMEDIATE_ACK test is non-zero (0x8000) *)
Example c18_any_expression_env_of_instance :
  check_cap_eval example_arg "CAPABILITIES_IMMEDIATE_ACK" (env_of 4660 22136 0) = Some 32768 /\
  Z.testbit 34968 15 = true.
Proof.
  destruct c18_any_expression_env_of_nonvacuous as [A [B [C D]]].
  destruct (c18_any_expression_env_of _ _ _ _ _ _ _ _ A B C D) as [r [Hr Hiff]].
  assert (Er : r = 32768) by (vm_compute in Hr; congruence).
  subst r. split; [exact Hr | apply Hiff; discriminate].
Qed.

(* ---- c18_parse_fuel: 13 units of fuel (parse_expr itself uses 6*13+8 = 86) ---- *)
Example c18_parse_fuel_nonvacuous : parse_cond 13 example_arg = Some (e_example, []).
Proof. vm_compute. reflexivity. Qed.
Example c18_parse_fuel_instance : parse_expr example_arg = Some e_example.
Proof. exact (c18_parse_fuel 13 _ _ c18_parse_fuel_nonvacuous). Qed.
(* and too little fuel is a rejection, which is why the theorem matters *)
Example c18_parse_fuel_too_little : parse_cond 5 example_arg = None.
Proof. vm_compute. reflexivity. Qed.
