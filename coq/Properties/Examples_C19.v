(* C19 - non-vacuity witnesses and worked instances for Properties_C19.v.
   Covered:  c19_values   (nonvacuous: one name of EVERY one of the ten enumerations satisfies all three
                           hypotheses, so no kind is covered vacuously; coverage count per kind; instance),
             c19_distinct (nonvacuous + instance on the reason codes),
             c19_lookup   (no hypotheses; instances on defined, undefined, negative, out-of-octet numbers).
   Skipped:  none. *)
From Coq Require Import List ZArith String.
From LW Require Import Base.Sweep Spec.IEEE Spec.Numbers Gen.Consts Model.TagName Properties.Properties_C19.
Import ListNotations.
Local Open Scope Z_scope.
Local Open Scope string_scope.

(* ---- c19_values ---- *)
Example c19_values_nonvacuous :
  In ("reason code", enum_libwifi_reason_codes, ieee_reason_codes) kinds /\
  In ("REASON_STA_LEAVING_BSS", 8) enum_libwifi_reason_codes /\
  lookup_s "REASON_STA_LEAVING_BSS" ieee_reason_codes = Some 8.
Proof. split; [|split]; [simpl; tauto | simpl; tauto | vm_compute; reflexivity]. Qed.

(* the theorem applied: whatever value v' the IEEE transcription gives that name, the published 8 is it *)
Example c19_values_instance : forall v', lookup_s "REASON_STA_LEAVING_BSS" ieee_reason_codes = Some v' -> 8 = v'.
Proof.
  destruct c19_values_nonvacuous as [A [B _]]. intros v' H.
  exact (c19_values _ _ _ _ _ _ A B H).
Qed.

(* the third hypothesis (the name is vouched for by the independent transcription) is satisfiable in EVERY
   kind, and for almost every published name: (kind, names vouched for, names published) *)
Example c19_values_coverage :
  map (fun k => (fst (fst k), covered (snd (fst k)) (snd k), List.length (snd (fst k)))) kinds =
  [("frame type", 4, 4); ("management subtype", 14, 14); ("control subtype", 13, 13);
   ("control extension subtype", 9, 9); ("data subtype", 9, 9); ("extension subtype", 2, 2);
   ("action category", 30, 30); ("element id", 168, 169); ("reason code", 61, 61);
   ("status code", 94, 94)]%nat.
Proof. vm_compute. reflexivity. Qed.

(* one witness per kind, checked through the theorem's own hypotheses *)
Definition witness_ok (kind n : string) (v : Z) : Prop :=
  exists pub ieee, In (kind, pub, ieee) kinds /\ In (n, v) pub /\ lookup_s n ieee = Some v.
Example c19_values_nonvacuous_every_kind :
  witness_ok "frame type" "TYPE_DATA" 2 /\
  witness_ok "management subtype" "SUBTYPE_BEACON" 8 /\
  witness_ok "control subtype" "SUBTYPE_ACK" 13 /\
  witness_ok "control extension subtype" "SUBTYPE_CF_EXT_GRANT" 4 /\
  witness_ok "data subtype" "SUBTYPE_DATA_QOS_DATA" 8 /\
  witness_ok "extension subtype" "SUBTYPE_EXTENSION_SIG_BEACON" 1 /\
  witness_ok "action category" "ACTION_VHT" 21 /\
  witness_ok "element id" "TAG_RSN" 48 /\
  witness_ok "reason code" "REASON_FOURWAY_HANDSHAKE_TIMEOUT" 15 /\
  witness_ok "status code" "STATUS_SUCCESS" 0.
Proof.
  unfold witness_ok.
  repeat split; do 2 eexists; (split; [simpl; auto 20 | split; [|vm_compute; reflexivity]]);
    apply lookup_s_In; vm_compute; reflexivity.
Qed.

(* ---- c19_distinct ---- *)
Example c19_distinct_nonvacuous : In ("status code", enum_libwifi_status_codes, ieee_status_codes) kinds.
Proof. simpl. tauto. Qed.
Example c19_distinct_instance : NoDup (map snd enum_libwifi_status_codes) /\
  List.length enum_libwifi_status_codes = 94%nat.
Proof. split; [exact (c19_distinct _ _ _ c19_distinct_nonvacuous) | reflexivity]. Qed.

(* ---- c19_lookup (no hypotheses) ---- *)
Example c19_lookup_instance :
  get_tag_name 48 = "TAG_RSN" /\ get_tag_name 221 = "TAG_VENDOR_SPECIFIC" /\ get_tag_name 3 = "TAG_DS_PARAMETER" /\
  get_tag_name 2 = "Unknown Tag" /\ get_tag_name 300 = "Unknown Tag" /\ get_tag_name (-1) = "Unknown Tag".
Proof. rewrite !c19_lookup. vm_compute. repeat split. Qed.
