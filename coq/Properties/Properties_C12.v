(* C12 - EAPOL-Key frames are recognised, classified and extracted exactly.  Statements only. *)
From LW Require Import Base.Bytes Model.Radiotap Model.Frame Model.Eapol Spec.FrameSpec Spec.EapolSpec
  Gen.Consts Gen.Tables Proofs.EapolProofs.
Local Open Scope Z_scope.

(* recognition: for every classified frame, yes exactly for data frames whose body starts with an LLC/SNAP
   header carrying the zero OUI and EtherType 0x888E and holds a complete EAPOL-Key descriptor; every body
   read stays inside the library's copy (Done, not Fault) *)
Theorem c12_recognise_iff : forall f, frame_ok f ->
  check_wpa_handshake f = Done (if s_is_handshake f then Ok 1 else Err (- EINVAL)).
Proof. exact recognise_exact. Qed.
Print Assumptions c12_recognise_iff.

(* message number: 1..4 exactly for key information 0x008A, 0x010A, 0x13CA, 0x030A (all 65536 values are
   covered: the body is universally quantified), invalid otherwise and for frames without a descriptor *)
Theorem c12_message : forall f, frame_ok f -> check_wpa_message f = Done (s_message f).
Proof. exact message_exact. Qed.
Print Assumptions c12_message.

Theorem c12_message_values :
  c_HANDSHAKE_M1 = M1 /\ c_HANDSHAKE_M2 = M2 /\ c_HANDSHAKE_M3 = M3 /\ c_HANDSHAKE_M4 = M4 /\
  c_HANDSHAKE_INVALID = MINVALID /\ eapol_keydata_cap = KEY_DATA_CAP /\
  c_EAPOL_KEY_INFO_M1 = 138 /\ c_EAPOL_KEY_INFO_M2 = 266 /\ c_EAPOL_KEY_INFO_M3 = 5066 /\ c_EAPOL_KEY_INFO_M4 = 778.
Proof. exact message_values. Qed.
Print Assumptions c12_message_values.

(* extraction: every field is the big-endian value at its standard offset, the key data are the bytes after
   the descriptor limited to the declared length, the cap and the bytes present *)
Theorem c12_extract_exact : forall f, frame_ok f -> get_wpa_data f = Done (s_wpa_data f).
Proof. exact extract_exact. Qed.
Print Assumptions c12_extract_exact.

Theorem c12_key_data_length : forall f, frame_ok f ->
  get_wpa_key_data_length f = Done (if s_is_handshake f then be16 (f_body f) 105 else - EINVAL).
Proof. exact key_data_length_exact. Qed.
Print Assumptions c12_key_data_length.

(* frames produced by classification satisfy frame_ok, so the theorems apply to every classified frame *)
Theorem c12_classified_ok : forall buf rtres f, wfbytes buf -> spec_classify buf rtres = Ok f ->
  (forall info, rtres = Some (Ok info) -> 0 <= i_length info <= zlen buf) -> frame_ok f.
Proof. exact classified_ok. Qed.
Print Assumptions c12_classified_ok.

(* ---- EAPOL-Key recognition and extraction AS TRANSLATED from eapol.c on this run (Gen/Sites.v), run with ONLY the frame body readable.  frame_env, hs_accepts, hs_trace
   and the other abbreviations are defined in Proofs/CodeEapol.v (hs_accepts = data frame, eight LLC/SNAP octets AA AA 03 + OUI equal by memcmp + 88 8E, 107 body octets). ---- *)
From Coq Require Import String.
From LW Require Import Base.Bytes Base.CExpr Gen.Sites Spec.CodeSpec Model.Frame Model.Eapol Proofs.CodeEapol.
Local Open Scope string_scope.
Local Open Scope Z_scope.


Theorem c12_code_check_wpa_handshake : forall b a hl ty rho,
  wfbytes b -> 0 < a -> a + zlen b < 2 ^ 62 -> hl = 24 \/ hl = 26 -> 0 <= ty <= 3 ->
  let len := hl + zlen b in
  let mc := wrap s32 (rho "ret:memcmp") in
  observe (exec 30 (mem_at a b) (frame_env rho ty len hl a) [] body_libwifi_check_wpa_handshake) =
    Some (Some (if hs_accepts b ty hl len mc then 1 else -22), hs_trace rho b a ty hl len mc).
Proof. exact code_check_wpa_handshake. Qed.
Print Assumptions c12_code_check_wpa_handshake.

(* (2) the translated routine and the model agree on every classified frame, when memcmp answers as the C library does *)
Theorem c12_code_check_wpa_handshake_refines_model : forall f a rho,
  let b := f_body f in
  let hl := f_header_len f in
  let ty := fc_type (f_fc f) in
  let mc := wrap s32 (rho "ret:memcmp") in
  wfbytes b -> 0 < a -> a + zlen b < 2 ^ 62 -> hl = 24 \/ hl = 26 -> 0 <= ty <= 3 ->
  f_len f = hl + zlen b ->
  (8 <= zlen b -> (mc = 0 <-> znth b 3 = 0 /\ znth b 4 = 0 /\ znth b 5 = 0)) ->
  let run := exec 30 (mem_at a b) (frame_env rho ty (f_len f) hl a) [] body_libwifi_check_wpa_handshake in
  match check_wpa_handshake f with
  | Done (Ok v) => v = 1 /\ observe run = Some (Some 1, hs_trace rho b a ty hl (f_len f) mc)
  | Done (Err c) => c = -22 /\ observe run = Some (Some (-22), hs_trace rho b a ty hl (f_len f) mc)
  | _ => False
  end.
Proof. exact code_check_wpa_handshake_refines_model. Qed.
Print Assumptions c12_code_check_wpa_handshake_refines_model.


Theorem c12_code_check_wpa_message_refines_model : forall f a rho,
  let b := f_body f in
  let hl := f_header_len f in
  wfbytes b -> 0 < a -> a + zlen b < 2 ^ 62 -> hl = 24 \/ hl = 26 -> f_len f = hl + zlen b ->
  let run := exec 30 (mem_at a b) (frame_env rho (fc_type (f_fc f)) (f_len f) hl a) [] body_libwifi_check_wpa_message in
  match check_wpa_message f with
  | Done v => observe run = Some (Some v, [])
  | _ => False
  end.
Proof. exact code_check_wpa_message_refines_model. Qed.
Print Assumptions c12_code_check_wpa_message_refines_model.

(* the key-data length against its model: the call to the check answers what the routine of theorem (1) returns *)
Theorem c12_code_get_wpa_key_data_length_refines_model : forall f a rho mc,
  let b := f_body f in
  let hl := f_header_len f in
  let ty := fc_type (f_fc f) in
  wfbytes b -> 0 < a -> a + zlen b < 2 ^ 62 -> hl = 24 \/ hl = 26 -> f_len f = hl + zlen b ->
  (8 <= zlen b -> (mc = 0 <-> znth b 3 = 0 /\ znth b 4 = 0 /\ znth b 5 = 0)) ->
  wrap s32 (rho "ret:libwifi_check_wpa_handshake") = (if hs_accepts b ty hl (f_len f) mc then 1 else -22) ->
  let run := exec 30 (mem_at a b) (frame_env rho ty (f_len f) hl a) [] body_libwifi_get_wpa_key_data_length in
  match get_wpa_key_data_length f with
  | Done v => exists tr, observe run = Some (Some v, tr)
  | _ => False
  end.
Proof. exact code_get_wpa_key_data_length_refines_model. Qed.
Print Assumptions c12_code_get_wpa_key_data_length_refines_model.

(* every memcpy reads inside the body; the key-data copy takes at most what is present and at most 1024 octets *)
Theorem c12_code_get_wpa_data_safe : forall b a hl ty rho mc,
  wfbytes b -> 0 < a -> a + zlen b < 2 ^ 62 -> hl = 24 \/ hl = 26 ->
  hs_accepts b ty hl (hl + zlen b) mc = true ->
  wrap s32 (rho "ret:libwifi_check_wpa_handshake") = 1 ->
  exists v tr,
    observe (exec 60 (mem_at a b) (frame_env rho ty (hl + zlen b) hl a) [] body_libwifi_get_wpa_data) = Some (Some v, tr) /\
    (v = 0 \/ v = -12) /\
    forall d s n, In ("memcpy", [d; s; n]) tr ->
      a <= s /\ 0 <= n /\ s + n <= a + zlen b /\
      (s = a + 13 /\ n = 94 \/
       s = a + 107 /\ n <= 1024 /\ n <= zlen b - 107 /\ n <= 256 * znth b 105 + znth b 106 /\ d = wrap u64 (rho "ret:malloc") /\ d <> 0).
Proof. exact code_get_wpa_data_safe. Qed.
Print Assumptions c12_code_get_wpa_data_safe.


Theorem c12_code_get_wpa_data_refines_model : forall f a rho mc,
  let b := f_body f in
  let hl := f_header_len f in
  let ty := fc_type (f_fc f) in
  wfbytes b -> 0 < a -> a + zlen b < 2 ^ 62 -> hl = 24 \/ hl = 26 -> f_len f = hl + zlen b ->
  (8 <= zlen b -> (mc = 0 <-> znth b 3 = 0 /\ znth b 4 = 0 /\ znth b 5 = 0)) ->
  hs_accepts b ty hl (f_len f) mc = true ->
  wrap s32 (rho "ret:libwifi_check_wpa_handshake") = 1 ->
  let run := exec 60 (mem_at a b) (frame_env rho ty (f_len f) hl a) [] body_libwifi_get_wpa_data in
  exists w v tr,
    get_wpa_data f = Done (Ok w) /\ observe run = Some (Some v, tr) /\ (v = 0 \/ v = -12) /\
    forall d s n, In ("memcpy", [d; s; n]) tr -> s = a + 107 ->
      n = w_key_data_length w /\ w_key_data w = firstn (Z.to_nat n) (skipn (Z.to_nat (s - a)) b).
Proof. exact code_get_wpa_data_refines_model. Qed.
Print Assumptions c12_code_get_wpa_data_refines_model.

(* ---- libwifi_get_wpa_message_string AS TRANSLATED (Gen/Sites.v): one call of the message classifier, then the literal for its answer ---- *)
From LW Require Import Base.Sweep Gen.Consts Proofs.CodeNames.
Local Open Scope list_scope.

(* for every answer of the classifier: Message 1..4 for 1, 2, 4, 8, Invalid for everything else; exactly one call *)
Theorem c12_code_get_wpa_message_string : forall f m rho tr,
  let v := wrap s32 (rho "ret:libwifi_check_wpa_message") in
  exec (S (S (S (S f)))) m rho tr body_libwifi_get_wpa_message_string =
  Returned (Some (wrap u64 (rho ("str:" ++ wpa_message_name v)%string))) (upd rho "message" v)
           (tr ++ [("libwifi_check_wpa_message", [wrap u64 (rho "frame")])]).
Proof. exact code_get_wpa_message_string. Qed.
Print Assumptions c12_code_get_wpa_message_string.

(* with the answer Model/Eapol.v computes for the frame *)
Theorem c12_code_get_wpa_message_string_model : forall fr v f m rho tr,
  check_wpa_message fr = Done v -> rho "ret:libwifi_check_wpa_message" = v ->
  exec (S (S (S (S f)))) m rho tr body_libwifi_get_wpa_message_string =
  Returned (Some (wrap u64 (rho ("str:" ++ wpa_message_name v)%string))) (upd rho "message" v)
           (tr ++ [("libwifi_check_wpa_message", [wrap u64 (rho "frame")])]) /\
  (exists s, lookup_z v wpa_message_table = Some s /\ wpa_message_name v = s) /\
  (wpa_message_name v = "Invalid" <-> v = c_HANDSHAKE_INVALID).
Proof. exact code_get_wpa_message_string_model. Qed.
Print Assumptions c12_code_get_wpa_message_string_model.

