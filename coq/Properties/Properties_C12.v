(* C12 - EAPOL-Key frames are recognised, classified and extracted exactly.  Statements only. *)
From LW Require Import Base.Bytes Model.Radiotap Model.Frame Model.Eapol Spec.FrameSpec Spec.EapolSpec
  Gen.Consts Gen.Tables Proofs.EapolProofs.
Local Open Scope Z_scope.

(* recognition: for every classified frame, yes exactly for data frames whose body starts with an LLC/SNAP
   header carrying the zero OUI and EtherType 0x888E and holds a complete EAPOL-Key descriptor; every body
   read stays inside the library's copy (Done, not Fault) *)
Theorem c12_recognise_iff : forall f, frame_ok f ->
  check_wpa_handshake f = Done (if s_is_handshake f then Ok 1 else Err (- EINVAL)).
Proof. exact recognise_exact. Qed.
Print Assumptions c12_recognise_iff.

(* message number: 1..4 exactly for key information 0x008A, 0x010A, 0x13CA, 0x030A (all 65536 values are
   covered: the body is universally quantified), invalid otherwise and for frames without a descriptor *)
Theorem c12_message : forall f, frame_ok f -> check_wpa_message f = Done (s_message f).
Proof. exact message_exact. Qed.
Print Assumptions c12_message.

Theorem c12_message_values :
  c_HANDSHAKE_M1 = M1 /\ c_HANDSHAKE_M2 = M2 /\ c_HANDSHAKE_M3 = M3 /\ c_HANDSHAKE_M4 = M4 /\
  c_HANDSHAKE_INVALID = MINVALID /\ eapol_keydata_cap = KEY_DATA_CAP /\
  c_EAPOL_KEY_INFO_M1 = 138 /\ c_EAPOL_KEY_INFO_M2 = 266 /\ c_EAPOL_KEY_INFO_M3 = 5066 /\ c_EAPOL_KEY_INFO_M4 = 778.
Proof. exact message_values. Qed.
Print Assumptions c12_message_values.

(* extraction: every field is the big-endian value at its standard offset, the key data are the bytes after
   the descriptor limited to the declared length, the cap and the bytes present *)
Theorem c12_extract_exact : forall f, frame_ok f -> get_wpa_data f = Done (s_wpa_data f).
Proof. exact extract_exact. Qed.
Print Assumptions c12_extract_exact.

Theorem c12_key_data_length : forall f, frame_ok f ->
  get_wpa_key_data_length f = Done (if s_is_handshake f then be16 (f_body f) 105 else - EINVAL).
Proof. exact key_data_length_exact. Qed.
Print Assumptions c12_key_data_length.

(* frames produced by classification satisfy frame_ok, so the theorems apply to every classified frame *)
Theorem c12_classified_ok : forall buf rtres f, wfbytes buf -> spec_classify buf rtres = Ok f ->
  (forall info, rtres = Some (Ok info) -> 0 <= i_length info <= zlen buf) -> frame_ok f.
Proof. exact classified_ok. Qed.
Print Assumptions c12_classified_ok.
