(* C17 - non-vacuity witnesses and worked instances for Properties_C17.v.
   Covered:  c17_describe_exact (nonvacuous + instances: a summary with three AKM flags, one generation flag and
                                 one group-cipher flag; the all-ones summary (longest possible string, 247 < 256);
                                 a summary with ONLY unrelated bits - see the remark there),
             c17_tables         (nonvacuous: all four members of `routines`; instance),
             c17_each_once      (nonvacuous + instance).
   Skipped:  none. *)
From Coq Require Import List ZArith String.
From LW Require Import Base.Bytes Model.SecStr Spec.SecStrSpec Gen.Tables Gen.Consts Properties.Properties_C17.
Import ListNotations.
Local Open Scope Z_scope.

(* PSK | 802.1X_FT | SAE (three AKM names) plus WPA2 (generation) and CCMP128 (group cipher): the AKM routine
   must list the three AKM names only *)
Definition info1 : Z :=
  c_LIBWIFI_AKM_SUITE_PSK + c_LIBWIFI_AKM_SUITE_1X_FT + c_LIBWIFI_AKM_SUITE_SAE + c_WPA2 + c_LIBWIFI_GROUP_CIPHER_SUITE_CCMP128.
Definition akm_routine := (sec_table_auth_key_suites, sec_none_auth_key_suites, spec_akm).
Definition gen_routine := (sec_table_security_type, sec_none_security_type, spec_generations).

Example c17_describe_exact_nonvacuous : In akm_routine routines /\ 0 <= info1.
Proof. split; [unfold routines, akm_routine; simpl; tauto | vm_compute; discriminate]. Qed.

(* the theorem applied to info1: the buffer keeps its 256 bytes and holds "PSK, 802.1X_FT, SAE" *)
Example c17_describe_exact_instance :
  exists mem, get_auth_key_suites info1 = Done mem /\ zlen mem = 256 /\
              cstr mem = bytes_of_string "PSK, 802.1X_FT, SAE" /\ zlen (cstr mem) = 19.
Proof.
  destruct c17_describe_exact_nonvacuous as [A B].
  destruct (c17_describe_exact _ _ _ info1 A B) as [mem [H1 [H2 [H3 H4]]]].
  exists mem. split; [exact H1|]. split; [exact H2|].
  assert (E : cstr mem = bytes_of_string "PSK, 802.1X_FT, SAE") by (rewrite H3; vm_compute; reflexivity).
  split; [exact E | rewrite E; reflexivity].
Qed.

(* same summary, generation routine: "WPA2" *)
Example c17_describe_exact_instance_generation :
  exists mem, get_security_type info1 = Done mem /\ cstr mem = bytes_of_string "WPA2".
Proof.
  assert (A : In gen_routine routines) by (unfold routines, gen_routine; simpl; tauto).
  destruct (c17_describe_exact _ _ _ info1 A (proj2 c17_describe_exact_nonvacuous)) as [mem [H1 [_ [H3 _]]]].
  exists mem. split; [exact H1 | rewrite H3; vm_compute; reflexivity].
Qed.

(* worst case: every bit of a 64-bit summary set - all 21 AKM names, 247 characters, still inside the buffer *)
Example c17_describe_exact_instance_all_ones :
  exists mem, get_auth_key_suites (2 ^ 64 - 1) = Done mem /\ zlen mem = 256 /\ zlen (cstr mem) = 247.
Proof.
  destruct c17_describe_exact_nonvacuous as [A _].
  destruct (c17_describe_exact _ _ _ (2 ^ 64 - 1) A ltac:(vm_compute; discriminate)) as [mem [H1 [H2 [H3 _]]]].
  exists mem. split; [exact H1|]. split; [exact H2|]. rewrite H3. vm_compute. reflexivity.
Qed.

(* REMARK (not a vacuity problem, but worth knowing): a NON-ZERO summary in which no flag of the routine's own
   table is set (here only the WPA2 generation bit, given to the AKM routine) yields the EMPTY string, not
   "None": spec_describe - and the C routine it describes - test the whole summary against 0. *)
Example c17_describe_exact_instance_unrelated_only :
  exists mem, get_auth_key_suites c_WPA2 = Done mem /\ cstr mem = [].
Proof.
  destruct c17_describe_exact_nonvacuous as [A _].
  destruct (c17_describe_exact _ _ _ c_WPA2 A ltac:(vm_compute; discriminate)) as [mem [H1 [_ [H3 _]]]].
  exists mem. split; [exact H1 | rewrite H3; vm_compute; reflexivity].
Qed.
Example c17_describe_exact_instance_none :
  exists mem, get_auth_key_suites 0 = Done mem /\ cstr mem = bytes_of_string "None".
Proof.
  destruct c17_describe_exact_nonvacuous as [A _].
  destruct (c17_describe_exact _ _ _ 0 A ltac:(lia)) as [mem [H1 [_ [H3 _]]]].
  exists mem. split; [exact H1 | rewrite H3; vm_compute; reflexivity].
Qed.

(* ---- c17_tables: its only hypothesis is membership; all four members exist and are distinct tables ---- *)
Example c17_tables_nonvacuous :
  In akm_routine routines /\ In gen_routine routines /\
  In (sec_table_group_ciphers, sec_none_group_ciphers, spec_group) routines /\
  In (sec_table_pairwise_ciphers, sec_none_pairwise_ciphers, spec_pairwise) routines /\
  map (fun r => List.length (fst (fst r))) routines = [4; 13; 14; 21]%nat.
Proof. unfold routines, akm_routine, gen_routine. repeat split; simpl; tauto. Qed.

Example c17_tables_instance :
  same_table sec_table_auth_key_suites spec_akm = true /\ sec_none_auth_key_suites = bytes_of_string "None" /\
  sec_separator = bytes_of_string ", " /\ NoDup (map fst sec_table_auth_key_suites).
Proof.
  destruct (c17_tables _ _ _ (proj1 c17_tables_nonvacuous)) as [H1 [H2 [H3 [_ [H5 _]]]]].
  repeat split; assumption.
Qed.

(* ---- c17_each_once ---- *)
Example c17_each_once_nonvacuous : In akm_routine routines.
Proof. exact (proj1 c17_tables_nonvacuous). Qed.

(* "SAE" is listed for info1 (witness flag: c_LIBWIFI_AKM_SUITE_SAE); "OWE" is not; the list has no repetition *)
Example c17_each_once_instance :
  In (bytes_of_string "SAE") (set_names sec_table_auth_key_suites info1) /\
  ~ In (bytes_of_string "OWE") (set_names sec_table_auth_key_suites info1) /\
  NoDup (set_names sec_table_auth_key_suites info1) /\
  set_names sec_table_auth_key_suites info1 = map bytes_of_string ["PSK"; "802.1X_FT"; "SAE"]%string.
Proof.
  pose proof (c17_each_once _ _ _ info1 (bytes_of_string "SAE") c17_each_once_nonvacuous) as [[_ Hsae] Hnd].
  pose proof (c17_each_once _ _ _ info1 (bytes_of_string "OWE") c17_each_once_nonvacuous) as [[Howe _] _].
  split; [|split; [|split]].
  - apply Hsae. exists c_LIBWIFI_AKM_SUITE_SAE. split; [vm_compute; auto 30 | vm_compute; discriminate].
  - intros Hin. destruct (Howe Hin) as [f [Hf Hland]].
    vm_compute in Hf.
    repeat (destruct Hf as [Hf|Hf]; [injection Hf as <-; try discriminate; apply Hland; vm_compute; reflexivity|]).
    exact Hf.
  - exact Hnd.
  - vm_compute. reflexivity.
Qed.
