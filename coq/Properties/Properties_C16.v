(* C16 - no shared mutable state: concurrent use equals sequential use.  Statements only. *)
From Coq Require Import List Arith ZArith String.
From LW Require Import Gen.Globals Model.Threads Proofs.ThreadsProofs.
Import ListNotations.

(* every object file of the library, built with the shipping flags from the current tree, has no
   writable or thread-local data, no COMMON symbol, no function-local static variable, and imports no C-library
   function that keeps process-wide state of its own (rand, strtok, localtime, strerror, getenv ...: POSIX's list of
   functions that need not be thread-safe, plus the random/locale/environment families) *)
Theorem c16_no_writable_state :
  globals_scan_ok = true /\ writable = [] /\ static_locals = [] /\ stateful_imports = [].
Proof. repeat split; reflexivity. Qed.
Print Assumptions c16_no_writable_state.

(* hence the library-owned shared state is trivial (unit): every library step has an empty footprint on
   it, and for ALL schedules of any number of threads each thread ends with exactly the result it
   obtains alone; schedules cannot be told apart *)
Theorem c16_interleaving : forall (L : Type) (f : nat -> L -> L) (sched : list nat) (s : nat -> L) (u : nat),
  let step := fun (t : nat) (g : unit) (l : L) => (g, f t l) in
  snd (run unit L step sched tt s) u = snd (alone unit L step u (count_occ Nat.eq_dec sched u) tt (s u)).
Proof.
  intros L f sched s u step.
  apply (interleaving_equals_sequential unit L step).
  exists f. intros t g l. reflexivity.
Qed.
Print Assumptions c16_interleaving.

Theorem c16_schedules_indistinguishable : forall (G L : Type) (step : nat -> G -> L -> G * L),
  footprint_empty G L step ->
  forall s1 s2 g s, (forall u, count_occ Nat.eq_dec s1 u = count_occ Nat.eq_dec s2 u) ->
  forall u, snd (run G L step s1 g s) u = snd (run G L step s2 g s) u.
Proof. exact schedules_indistinguishable. Qed.
Print Assumptions c16_schedules_indistinguishable.
