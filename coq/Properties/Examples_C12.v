(* C12 - non-vacuity witnesses and worked instances for Properties_C12.v.
   All frames are obtained by CLASSIFYING byte strings (spec_classify), and frame_ok is derived for them
   with c12_classified_ok, so the witnesses are frames the library really produces.
   Frames: the four messages of a WPA2 4-way handshake as QoS data frames (M1/M3 from the access point with
           from-DS set, M2/M4 from the station with to-DS set; M1 carries a PMKID KDE, M2 the station's RSN
           element, M3 56 bytes of wrapped key data, M4 none), a QoS data frame carrying an IPv4/ICMP packet,
           an M3 cut in the middle of its key data, an EAPOL-Start (too short for a key descriptor), and the
           M1 again behind a radiotap header announcing an FCS.
   Covered:  c12_recognise_iff   (nonvacuous + instances: M1, M3 -> Ok 1; IP data, EAPOL-Start -> Err -22),
             c12_message         (nonvacuous + instances: M1..M4 -> 1, 2, 4, 8; IP data / EAPOL-Start -> 16),
             c12_extract_exact   (nonvacuous + instances: the full wpa_data record of M1 and of M3; the cut M3
                                  reports the bytes present, not the declared length; IP data -> Err),
             c12_key_data_length (nonvacuous + instances: 22 / 56 / 0; the cut M3 still reports the declared 56;
                                  IP data -> -22),
             c12_classified_ok   (nonvacuous + instance, both with rtres = None and with rtres = Some (Ok info)
                                  for the info really decoded from the radiotap header, so that the third
                                  hypothesis is not trivial).
   Skipped:  c12_message_values (no hypotheses).
   Extra:    c12_radiotap_info_is_decoded (the rt_info used is what parse_radiotap_info returns),
             c12_odd_* : what the recognition does NOT look at (see the comments there),
             c12_llc_octets_are_examined : since F49 the LLC octets AA AA 03 are required. *)
From Coq Require Import ZArith Lia List Bool.
From LW Require Import Base.Bytes Model.Radiotap Model.Frame Model.Eapol Spec.FrameSpec Spec.EapolSpec
  Spec.CRCSpec Properties.Properties_C12.
Local Open Scope Z_scope.

(* ---------- concrete frames ---------- *)
Definition ap_mac : list byte := [0; 22; 62; 17; 34; 51].           (* 00:16:3e:11:22:33 *)
Definition sta_mac : list byte := [160; 136; 180; 68; 85; 102].     (* a0:88:b4:44:55:66 *)
Definition bytes_from (s n : nat) : list byte := map Z.of_nat (seq s n).

(* QoS data header (26 bytes): frame control 0x88 + flags, duration, three addresses, sequence, QoS control *)
Definition qos_hdr (fc1 : Z) (a1 a2 a3 : list byte) (seqno : Z) : list byte :=
  [136; fc1] ++ [44; 0] ++ a1 ++ a2 ++ a3 ++ le_enc 2 (seqno * 16) ++ [7; 0].
Definition hdr_from_ap (seqno : Z) := qos_hdr 2 sta_mac ap_mac ap_mac seqno.   (* from-DS *)
Definition hdr_to_ap (seqno : Z) := qos_hdr 1 ap_mac sta_mac ap_mac seqno.     (* to-DS *)

Definition llc_snap (ethertype : Z) : list byte := [170; 170; 3; 0; 0; 0] ++ be_enc 2 ethertype.
(* EAPOL header (version 2, type 3 = key, body length) and the 95-byte key descriptor followed by key data *)
Definition eapol_key (info keylen replay : Z) (nonce iv rsc id mic kd : list byte) : list byte :=
  llc_snap 34958 ++ [2; 3] ++ be_enc 2 (95 + zlen kd) ++
  [2] ++ be_enc 2 info ++ be_enc 2 keylen ++ be_enc 8 replay ++ nonce ++ iv ++ rsc ++ id ++ mic ++
  be_enc 2 (zlen kd) ++ kd.
Definition zeros (n : nat) : list byte := repeat 0 n.
Definition anonce : list byte := bytes_from 1 32.
Definition snonce : list byte := bytes_from 65 32.
Definition mic2 : list byte := bytes_from 200 16.
Definition mic3 : list byte := bytes_from 216 16.
Definition mic4 : list byte := bytes_from 232 16.
Definition rsn_body : list byte := [1;0; 0;15;172;4; 1;0; 0;15;172;4; 1;0; 0;15;172;2; 0;0].
Definition pmkid_kde : list byte := [221; 20; 0; 15; 172; 4] ++ bytes_from 100 16.
Definition wrapped_gtk : list byte := bytes_from 128 56.

Definition m1_body := eapol_key 138 16 1 anonce (zeros 16) (zeros 8) (zeros 8) (zeros 16) pmkid_kde.
Definition m2_body := eapol_key 266 0 1 snonce (zeros 16) (zeros 8) (zeros 8) mic2 ([48; 20] ++ rsn_body).
Definition m3_body := eapol_key 5066 16 2 anonce (zeros 16) [9; 0; 0; 0; 0; 0; 0; 0] (zeros 8) mic3 wrapped_gtk.
Definition m4_body := eapol_key 778 0 2 (zeros 32) (zeros 16) (zeros 8) (zeros 8) mic4 [].
Definition m1_bytes := hdr_from_ap 1 ++ m1_body.
Definition m2_bytes := hdr_to_ap 1 ++ m2_body.
Definition m3_bytes := hdr_from_ap 2 ++ m3_body.
Definition m4_bytes := hdr_to_ap 2 ++ m4_body.
(* the M3 with its last 30 bytes missing: declares 56 bytes of key data, 26 are present *)
Definition m3cut_bytes := zfirstn (zlen m3_bytes - 30) m3_bytes.
(* IPv4 / ICMP echo request 192.168.1.10 -> 192.168.1.1 *)
Definition ip_bytes := hdr_to_ap 3 ++ llc_snap 2048 ++
  [69; 0; 0; 28; 0; 1; 0; 0; 64; 1; 247; 127; 192; 168; 1; 10; 192; 168; 1; 1; 8; 0; 247; 253; 0; 1; 0; 1].
(* EAPOL-Start: version 2, type 1, length 0 *)
Definition start_bytes := hdr_to_ap 0 ++ llc_snap 34958 ++ [2; 1; 0; 0].
(* radiotap: TSFT, FLAGS (0x10: FCS at end), RATE, CHANNEL (2437 MHz), DBM_ANTSIGNAL; then M1, then its FCS *)
Definition rtap_hdr : list byte :=
  [0; 0; 23; 0; 47; 0; 0; 0;  1; 2; 3; 4; 5; 6; 7; 8;  16; 12; 133; 9; 160; 0; 206].
Definition m1_rt_bytes := rtap_hdr ++ m1_bytes ++ fcs_octets m1_bytes.

Definition frame0 : frame :=
  {| f_rtap := None; f_flags := 0; f_fc := []; f_len := 0; f_header := []; f_header_len := 0; f_body := [] |}.
Definition classified (buf : list byte) (rtres : option (outcome rt_info)) : frame :=
  match spec_classify buf rtres with Ok f => f | Err _ => frame0 end.
Definition rt_info_m1 : rt_info := Eval vm_compute in
  match parse_radiotap_info (rd_strict m1_rt_bytes) (zlen m1_rt_bytes) with Done (Ok i) => i | _ => info0 end.

Definition f_m1 : frame := Eval vm_compute in classified m1_bytes None.
Definition f_m2 : frame := Eval vm_compute in classified m2_bytes None.
Definition f_m3 : frame := Eval vm_compute in classified m3_bytes None.
Definition f_m4 : frame := Eval vm_compute in classified m4_bytes None.
Definition f_m3cut : frame := Eval vm_compute in classified m3cut_bytes None.
Definition f_ip : frame := Eval vm_compute in classified ip_bytes None.
Definition f_start : frame := Eval vm_compute in classified start_bytes None.
Definition f_m1_rt : frame := Eval vm_compute in classified m1_rt_bytes (Some (Ok rt_info_m1)).

Ltac wf := apply wfbytesb_spec; vm_compute; reflexivity.
Ltac by_classification buf :=
  apply (c12_classified_ok buf None); [wf | vm_compute; reflexivity | intros ? ?; discriminate].

Example c12_radiotap_info_is_decoded :
  parse_radiotap_info (rd_strict m1_rt_bytes) (zlen m1_rt_bytes) = Done (Ok rt_info_m1) /\
  i_length rt_info_m1 = 23 /\ i_flags rt_info_m1 = 16 /\ i_chan_freq rt_info_m1 = 2437 /\ zlen m1_rt_bytes = 182.
Proof. vm_compute. repeat split; reflexivity. Qed.

(* ---------- c12_classified_ok ---------- *)
Example c12_classified_ok_nonvacuous :
  wfbytes m1_bytes /\ spec_classify m1_bytes None = Ok f_m1 /\
  (forall info, @None (outcome rt_info) = Some (Ok info) -> 0 <= i_length info <= zlen m1_bytes).
Proof. split; [wf|]. split; [vm_compute; reflexivity|]. intros ? ?; discriminate. Qed.

(* with a radiotap header: the third hypothesis now says something (23 <= 182) *)
Example c12_classified_ok_nonvacuous_radiotap :
  wfbytes m1_rt_bytes /\ spec_classify m1_rt_bytes (Some (Ok rt_info_m1)) = Ok f_m1_rt /\
  (forall info, Some (Ok rt_info_m1) = Some (Ok info) -> 0 <= i_length info <= zlen m1_rt_bytes).
Proof.
  split; [wf|]. split; [vm_compute; reflexivity|].
  intros info H. injection H as <-. vm_compute. split; discriminate.
Qed.

Lemma ok_m1 : frame_ok f_m1. Proof. by_classification m1_bytes. Qed.
Lemma ok_m2 : frame_ok f_m2. Proof. by_classification m2_bytes. Qed.
Lemma ok_m3 : frame_ok f_m3. Proof. by_classification m3_bytes. Qed.
Lemma ok_m4 : frame_ok f_m4. Proof. by_classification m4_bytes. Qed.
Lemma ok_m3cut : frame_ok f_m3cut. Proof. by_classification m3cut_bytes. Qed.
Lemma ok_ip : frame_ok f_ip. Proof. by_classification ip_bytes. Qed.
Lemma ok_start : frame_ok f_start. Proof. by_classification start_bytes. Qed.
Lemma ok_m1_rt : frame_ok f_m1_rt.
Proof.
  destruct c12_classified_ok_nonvacuous_radiotap as [A [B C]].
  exact (c12_classified_ok m1_rt_bytes (Some (Ok rt_info_m1)) f_m1_rt A B C).
Qed.

(* the conclusion written out: body well-formed, two frame-control bytes, len = header_len + body *)
Example c12_classified_ok_instance :
  frame_ok f_m1 /\ f_fc f_m1 = [136; 2] /\ f_header_len f_m1 = 26 /\ zlen (f_body f_m1) = 129 /\ f_len f_m1 = 155 /\
  f_flags f_m1 = 2 /\ f_rtap f_m1 = None.
Proof. split; [exact ok_m1 | vm_compute; repeat split; reflexivity]. Qed.
(* behind radiotap + FCS the same header and body come out; flags = FCS | QOS | RADIOTAP *)
Example c12_classified_ok_instance_radiotap :
  frame_ok f_m1_rt /\ f_header f_m1_rt = f_header f_m1 /\ f_body f_m1_rt = f_body f_m1 /\ f_len f_m1_rt = 155 /\
  f_flags f_m1_rt = 11 /\ f_rtap f_m1_rt = Some rt_info_m1.
Proof. split; [exact ok_m1_rt | vm_compute; repeat split; reflexivity]. Qed.

(* ---------- c12_recognise_iff ---------- *)
Example c12_recognise_iff_nonvacuous :
  frame_ok f_m1 /\ frame_ok f_m3 /\ frame_ok f_ip /\ frame_ok f_start /\ frame_ok f_m1_rt.
Proof. exact (conj ok_m1 (conj ok_m3 (conj ok_ip (conj ok_start ok_m1_rt)))). Qed.

Example c12_recognise_iff_instance :
  check_wpa_handshake f_m1 = Done (Ok 1) /\ check_wpa_handshake f_m3 = Done (Ok 1) /\
  check_wpa_handshake f_m1_rt = Done (Ok 1) /\
  check_wpa_handshake f_ip = Done (Err (-22)) /\ check_wpa_handshake f_start = Done (Err (-22)).
Proof.
  rewrite (c12_recognise_iff _ ok_m1), (c12_recognise_iff _ ok_m3), (c12_recognise_iff _ ok_m1_rt),
    (c12_recognise_iff _ ok_ip), (c12_recognise_iff _ ok_start).
  vm_compute. repeat split; reflexivity.
Qed.

(* ---------- c12_message ---------- *)
Example c12_message_nonvacuous : frame_ok f_m1 /\ frame_ok f_m2 /\ frame_ok f_m3 /\ frame_ok f_m4.
Proof. exact (conj ok_m1 (conj ok_m2 (conj ok_m3 ok_m4))). Qed.

Example c12_message_instance :
  check_wpa_message f_m1 = Done 1 /\ check_wpa_message f_m2 = Done 2 /\ check_wpa_message f_m3 = Done 4 /\
  check_wpa_message f_m4 = Done 8 /\ check_wpa_message f_ip = Done 16 /\ check_wpa_message f_start = Done 16.
Proof.
  rewrite (c12_message _ ok_m1), (c12_message _ ok_m2), (c12_message _ ok_m3), (c12_message _ ok_m4),
    (c12_message _ ok_ip), (c12_message _ ok_start).
  vm_compute. repeat split; reflexivity.
Qed.

(* ---------- c12_extract_exact ---------- *)
Example c12_extract_exact_nonvacuous : frame_ok f_m1 /\ frame_ok f_m3 /\ frame_ok f_m3cut /\ frame_ok f_ip.
Proof. exact (conj ok_m1 (conj ok_m3 (conj ok_m3cut ok_ip))). Qed.

Example c12_extract_exact_instance_m1 :
  get_wpa_data f_m1 = Done (Ok
    {| w_version := 2; w_type := 3; w_length := 117; w_descriptor := 2; w_information := 138; w_key_length := 16;
       w_replay := 1; w_nonce := anonce; w_iv := zeros 16; w_rsc := zeros 8; w_id := zeros 8; w_mic := zeros 16;
       w_key_data_length := 22; w_key_data := pmkid_kde |}).
Proof. rewrite (c12_extract_exact _ ok_m1). vm_compute. reflexivity. Qed.

Example c12_extract_exact_instance_m3 :
  get_wpa_data f_m3 = Done (Ok
    {| w_version := 2; w_type := 3; w_length := 151; w_descriptor := 2; w_information := 5066; w_key_length := 16;
       w_replay := 2; w_nonce := anonce; w_iv := zeros 16; w_rsc := [9; 0; 0; 0; 0; 0; 0; 0]; w_id := zeros 8;
       w_mic := mic3; w_key_data_length := 56; w_key_data := wrapped_gtk |}).
Proof. rewrite (c12_extract_exact _ ok_m3). vm_compute. reflexivity. Qed.

(* the cut M3: 26 of the declared 56 key-data bytes are there, and exactly those are reported *)
Example c12_extract_exact_instance_m3cut :
  exists d, get_wpa_data f_m3cut = Done (Ok d) /\ w_length d = 151 /\ w_information d = 5066 /\
            w_key_data_length d = 26 /\ w_key_data d = zfirstn 26 wrapped_gtk.
Proof.
  rewrite (c12_extract_exact _ ok_m3cut). eexists. split; [vm_compute; reflexivity|].
  vm_compute. repeat split; reflexivity.
Qed.

Example c12_extract_exact_instance_ip : get_wpa_data f_ip = Done (Err (-22)).
Proof. rewrite (c12_extract_exact _ ok_ip). vm_compute. reflexivity. Qed.

(* ---------- c12_key_data_length ---------- *)
Example c12_key_data_length_nonvacuous :
  frame_ok f_m1 /\ frame_ok f_m3 /\ frame_ok f_m4 /\ frame_ok f_m3cut /\ frame_ok f_ip.
Proof. exact (conj ok_m1 (conj ok_m3 (conj ok_m4 (conj ok_m3cut ok_ip)))). Qed.

(* note the cut M3: this routine returns the DECLARED length 56 although only 26 bytes are present
   (c12_extract_exact_instance_m3cut reports 26 for the same frame) *)
Example c12_key_data_length_instance :
  get_wpa_key_data_length f_m1 = Done 22 /\ get_wpa_key_data_length f_m3 = Done 56 /\
  get_wpa_key_data_length f_m4 = Done 0 /\ get_wpa_key_data_length f_m3cut = Done 56 /\
  get_wpa_key_data_length f_ip = Done (-22).
Proof.
  rewrite (c12_key_data_length _ ok_m1), (c12_key_data_length _ ok_m3), (c12_key_data_length _ ok_m4),
    (c12_key_data_length _ ok_m3cut), (c12_key_data_length _ ok_ip).
  vm_compute. repeat split; reflexivity.
Qed.

(* ---------- what recognition does not look at ---------- *)
(* (1) Neither the EAPOL packet type nor the descriptor type are examined: an EAP-Packet (type 0) with
   EtherType 0x888E and a 99-byte payload under a proper LLC/SNAP header AA AA 03 00 00 00 is "a handshake",
   and since its bytes 13..14 happen to be 00 8A it is "message 1". *)
Definition eap_packet_bytes := hdr_from_ap 4 ++ [170; 170; 3; 0; 0; 0; 136; 142] ++ [2; 0; 0; 99] ++
  [1; 0; 138] ++ bytes_from 3 96.
Definition f_eap : frame := Eval vm_compute in classified eap_packet_bytes None.
Lemma ok_eap : frame_ok f_eap. Proof. by_classification eap_packet_bytes. Qed.
Example c12_odd_eap_packet_is_m1 :
  check_wpa_handshake f_eap = Done (Ok 1) /\ check_wpa_message f_eap = Done 1.
Proof.
  rewrite (c12_recognise_iff _ ok_eap), (c12_message _ ok_eap). vm_compute. split; reflexivity.
Qed.
(* (1') The LLC octets ARE examined (F49): the same payload under LLC octets 01 02 03, and the real M1 with
   any one of DSAP / SSAP / control altered, are not handshakes (and nothing is extracted from them);
   check_wpa_message, which does not ask for a handshake (see (2)), still numbers the former "message 1". *)
Definition eap_badllc_bytes := hdr_from_ap 4 ++ [1; 2; 3; 0; 0; 0; 136; 142] ++ [2; 0; 0; 99] ++
  [1; 0; 138] ++ bytes_from 3 96.
Definition set_byte (i : nat) (v : byte) (l : list byte) : list byte := firstn i l ++ v :: skipn (S i) l.
Definition m1_baddsap_bytes := hdr_from_ap 1 ++ set_byte 0 171 m1_body.
Definition m1_badssap_bytes := hdr_from_ap 1 ++ set_byte 1 171 m1_body.
Definition m1_badctl_bytes := hdr_from_ap 1 ++ set_byte 2 19 m1_body.
Definition f_eap_badllc : frame := Eval vm_compute in classified eap_badllc_bytes None.
Definition f_m1_baddsap : frame := Eval vm_compute in classified m1_baddsap_bytes None.
Definition f_m1_badssap : frame := Eval vm_compute in classified m1_badssap_bytes None.
Definition f_m1_badctl : frame := Eval vm_compute in classified m1_badctl_bytes None.
Lemma ok_eap_badllc : frame_ok f_eap_badllc. Proof. by_classification eap_badllc_bytes. Qed.
Lemma ok_m1_baddsap : frame_ok f_m1_baddsap. Proof. by_classification m1_baddsap_bytes. Qed.
Lemma ok_m1_badssap : frame_ok f_m1_badssap. Proof. by_classification m1_badssap_bytes. Qed.
Lemma ok_m1_badctl : frame_ok f_m1_badctl. Proof. by_classification m1_badctl_bytes. Qed.
Example c12_llc_octets_are_examined :
  check_wpa_handshake f_eap_badllc = Done (Err (-22)) /\ check_wpa_message f_eap_badllc = Done 1 /\
  check_wpa_handshake f_m1_baddsap = Done (Err (-22)) /\ check_wpa_handshake f_m1_badssap = Done (Err (-22)) /\
  check_wpa_handshake f_m1_badctl = Done (Err (-22)) /\
  get_wpa_data f_m1_badctl = Done (Err (-22)) /\ get_wpa_key_data_length f_m1_badctl = Done (-22) /\
  zlen (f_body f_m1_badctl) = 129 /\ zskipn 3 (f_body f_m1_badctl) = zskipn 3 (f_body f_m1).
Proof.
  rewrite (c12_recognise_iff _ ok_eap_badllc), (c12_message _ ok_eap_badllc),
    (c12_recognise_iff _ ok_m1_baddsap), (c12_recognise_iff _ ok_m1_badssap), (c12_recognise_iff _ ok_m1_badctl),
    (c12_extract_exact _ ok_m1_badctl), (c12_key_data_length _ ok_m1_badctl).
  vm_compute. repeat split; reflexivity.
Qed.
(* (2) check_wpa_message does not ask for a handshake at all: any classified frame with a body of at least
   107 bytes is numbered by its bytes 13..14; here a QoS data frame carrying IPv4 (EtherType 0x0800). *)
Definition ip_long_bytes := hdr_to_ap 5 ++ llc_snap 2048 ++ [69; 0; 0; 120; 0] ++ [1; 10] ++ bytes_from 0 100.
Definition f_ip_long : frame := Eval vm_compute in classified ip_long_bytes None.
Lemma ok_ip_long : frame_ok f_ip_long. Proof. by_classification ip_long_bytes. Qed.
Example c12_odd_message_without_handshake :
  check_wpa_handshake f_ip_long = Done (Err (-22)) /\ check_wpa_message f_ip_long = Done 2.
Proof.
  rewrite (c12_recognise_iff _ ok_ip_long), (c12_message _ ok_ip_long). vm_compute. split; reflexivity.
Qed.
