(* C16 - non-vacuity witnesses and worked instances for Properties_C16.v.
   Covered:  c16_interleaving               (no hypotheses; instance: two threads, schedule [0;1;1;0;1], each
                                             thread extending its own tag-like byte list),
             c16_schedules_indistinguishable (nonvacuous: a step function over a NON-trivial shared type G = nat
                                             that has an empty footprint, and two different schedules with the
                                             same per-thread step counts; instance; and a counter-model showing
                                             that the hypothesis footprint_empty is what makes it true).
   Skipped:  c16_no_writable_state (closed statement, no hypotheses). *)
From Coq Require Import List Arith ZArith.
From LW Require Import Model.Threads Properties.Properties_C16.
Import ListNotations.

(* thread t appends an element (number t+48, one-byte body = current length) to ITS OWN list *)
Definition f (t : nat) (l : list nat) : list nat := l ++ [t + 48; 1; length l].
Definition sched1 : list nat := [0; 1; 1; 0; 1].
Definition sched2 : list nat := [1; 1; 1; 0; 0].
Definition start (t : nat) : list nat := [0; 1; t].       (* each thread starts with its own one-element list *)

Example c16_interleaving_instance :
  snd (run unit _ (fun t g l => (g, f t l)) sched1 tt start) 0 = [0; 1; 0; 48; 1; 3; 48; 1; 6] /\
  snd (run unit _ (fun t g l => (g, f t l)) sched1 tt start) 1 = [0; 1; 1; 49; 1; 3; 49; 1; 6; 49; 1; 9] /\
  snd (alone unit _ (fun t g l => (g, f t l)) 1 3 tt (start 1)) = [0; 1; 1; 49; 1; 3; 49; 1; 6; 49; 1; 9].
Proof.
  pose proof (c16_interleaving _ f sched1 start 0) as H0.
  pose proof (c16_interleaving _ f sched1 start 1) as H1.
  cbv zeta in H0, H1. rewrite H0, H1. vm_compute. repeat split.
Qed.

(* ---- c16_schedules_indistinguishable ---- *)
(* shared state of type nat that the step function neither reads nor writes *)
Definition step_pure (t : nat) (g : nat) (l : list nat) : nat * list nat := (g, f t l).

Example c16_schedules_indistinguishable_nonvacuous :
  footprint_empty nat (list nat) step_pure /\
  (forall u, count_occ Nat.eq_dec sched1 u = count_occ Nat.eq_dec sched2 u) /\ sched1 <> sched2.
Proof.
  split; [exists f; intros; reflexivity|]. split; [|discriminate].
  intros [|[|u]]; reflexivity.
Qed.

Example c16_schedules_indistinguishable_instance : forall u,
  snd (run _ _ step_pure sched1 7 start) u = snd (run _ _ step_pure sched2 7 start) u.
Proof.
  destruct c16_schedules_indistinguishable_nonvacuous as [A [B _]].
  exact (c16_schedules_indistinguishable _ _ step_pure A sched1 sched2 7 start B).
Qed.
Example c16_schedules_indistinguishable_instance_value :
  snd (run _ _ step_pure sched2 7 start) 1 = [0; 1; 1; 49; 1; 3; 49; 1; 6; 49; 1; 9] /\
  snd (run _ _ step_pure sched2 7 start) 5 = [0; 1; 5].
Proof. vm_compute. split; reflexivity. Qed.

(* the hypothesis is not decoration: a library WITH a shared counter (each call stores the counter in the
   caller's object and bumps it) has no empty footprint, and the two schedules above are told apart *)
Definition step_shared (t : nat) (g : nat) (l : list nat) : nat * list nat := (S g, l ++ [g]).
Example c16_footprint_hypothesis_matters :
  ~ footprint_empty nat (list nat) step_shared /\
  snd (run _ _ step_shared sched1 0 start) 0 <> snd (run _ _ step_shared sched2 0 start) 0.
Proof.
  split.
  - intros [h H]. specialize (H 0 0 []). discriminate H.
  - vm_compute. discriminate.
Qed.
