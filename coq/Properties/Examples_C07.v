(* C07 - non-vacuity witnesses and concrete instances.

   Covered:
     c07_dump_object     nonvacuous (beacon + vendor tag; caller buffers one byte too short / exact / larger
                         with sentinel bytes), instance (return code and buffer afterwards written out)
     c07_dump_action     nonvacuous (action frame with two detail chunks; buffers 31 / 32 / 34), instance
     c07_dump_tag        nonvacuous (tag 221, five body bytes; buffers 6 / 7 / 9), instance
     c07_radiotap_bound  nonvacuous (present = 0xffffffff and a mid value selecting ANTENNA, description
                         with the maximum of 16 antennas), instance + concrete lengths / bytes
     c07_random_mac      nonvacuous (8-byte buffer = 6 + 2 sentinels; prefix Some / None), instance + values
   Skipped: none. *)
From LW Require Import Base.Bytes Model.Tags Model.Radiotap Model.RadiotapGen Model.Gen Gen.Consts Gen.Layout
  Properties.Properties_C07.
Local Open Scope Z_scope.

Ltac closed_cmp := vm_compute; first [reflexivity | discriminate | (intro; discriminate)].

Definition bcast : list byte := [255;255;255;255;255;255].
Definition ap : list byte := [0;22;62;17;34;51].          (* 00:16:3e:11:22:33 *)
Definition ssid_lab : list byte := [108;97;98].           (* "lab" *)
Definition fill (n : nat) : list byte := repeat 170 n.    (* 0xaa *)
Definition sentinels : list byte := [171;172;173].

(* ---------------- c07_dump_object ---------------- *)
(* libwifi_create_beacon(broadcast, ap, ap, "lab", channel 6) at epoch 1700000000, then a WMM-style vendor tag *)
Definition g1 : gobj := g_add (create_beacon bcast ap ap ssid_lab 6 1700000000) 221 [0;80;242;2;1].
Definition g1_bytes : list byte :=
  [128; 0; 0; 0; 255; 255; 255; 255; 255; 255; 0; 22; 62; 17; 34; 51; 0; 22; 62; 17; 34; 51; 0; 0;   (* header *)
   0; 241; 83; 101; 0; 0; 0; 0; 100; 0; 1; 0;                                                    (* fixed *)
   0; 3; 108; 97; 98;  3; 1; 6;  221; 5; 0; 80; 242; 2; 1].                                        (* tags *)
Definition mem_short : list byte := fill 50.
Definition mem_exact : list byte := fill 51.
Definition mem_large : list byte := fill 51 ++ sentinels.

Example g1_shape : g_length g1 = 51 /\ g_hdr g1 ++ g_fixed g1 ++ t_bytes (g_tags g1) = g1_bytes /\
                   g_tags g1 = {| t_len := 15; t_bytes := [0; 3; 108; 97; 98; 3; 1; 6; 221; 5; 0; 80; 242; 2; 1] |}.
Proof. repeat apply conj; vm_compute; reflexivity. Qed.

Example c07_dump_object_nonvacuous : tags_ok (g_tags g1).
Proof. unfold tags_ok; vm_compute; reflexivity. Qed.
Example c07_dump_object_instance :
  g_dump_mem g1 mem_short = Done (Err (-22), mem_short) /\
  g_dump_mem g1 mem_exact = Done (Ok 51, g1_bytes) /\
  g_dump_mem g1 mem_large = Done (Ok 51, g1_bytes ++ sentinels).
Proof.
  repeat apply conj; rewrite (c07_dump_object g1 _ c07_dump_object_nonvacuous); vm_compute; reflexivity.
Qed.

(* ---------------- c07_dump_action ---------------- *)
(* libwifi_create_action(ap -> broadcast, category 4) with two libwifi_add_action_detail calls *)
Definition a1 : aobj :=
  fst (add_action_detail (fst (add_action_detail (create_action false ap bcast ap 4) [9; 1; 2])) [127; 0; 0; 1]).
Definition a1_bytes : list byte :=
  [208; 0; 0; 0; 0; 22; 62; 17; 34; 51; 255; 255; 255; 255; 255; 255; 0; 22; 62; 17; 34; 51; 0; 0;
   4;  9; 1; 2; 127; 0; 0; 1].
Example a1_shape : a_length a1 = 32 /\ a_detail a1 = [9; 1; 2; 127; 0; 0; 1] /\ a_detail_len a1 = 7.
Proof. repeat apply conj; vm_compute; reflexivity. Qed.

Example c07_dump_action_nonvacuous : a_detail_len a1 = zlen (a_detail a1).
Proof. vm_compute; reflexivity. Qed.
Example c07_dump_action_instance :
  a_dump_mem a1 (fill 31) = Done (Err (-22), fill 31) /\
  a_dump_mem a1 (fill 32) = Done (Ok 32, a1_bytes) /\
  a_dump_mem a1 (fill 32 ++ sentinels) = Done (Ok 32, a1_bytes ++ sentinels).
Proof.
  repeat apply conj; rewrite (c07_dump_action a1 _ c07_dump_action_nonvacuous); vm_compute; reflexivity.
Qed.

(* ---------------- c07_dump_tag ---------------- *)
Definition tag_body : list byte := [0;80;242;2;1].
Example c07_dump_tag_nonvacuous : 0 <= 5 /\ 5 = zlen tag_body.
Proof. split; closed_cmp. Qed.
Example c07_dump_tag_instance :
  dump_tag_mem 221 5 tag_body (fill 6) = Done (Err (-22), fill 6) /\
  dump_tag_mem 221 5 tag_body (fill 7) = Done (Ok 7, [221; 5; 0; 80; 242; 2; 1]) /\
  dump_tag_mem 221 5 tag_body (fill 6 ++ sentinels) = Done (Ok 7, [221; 5; 0; 80; 242; 2; 1; 172; 173]).
Proof.
  destruct c07_dump_tag_nonvacuous as [H0 HL].
  repeat apply conj; rewrite (c07_dump_tag 221 5 tag_body _ H0 HL); vm_compute; reflexivity.
Qed.

(* ---------------- c07_radiotap_bound ---------------- *)
(* a description with LIBWIFI_MAX_RADIOTAP_ANTENNAS = 16 per-antenna entries and every field non-zero *)
Definition infoM : rt_info :=
  {| i_chan_flags := 192; i_chan_freq := 2437; i_chan_center := 6; i_chan_band := 1; i_rate_raw := 12;
     i_antennas := [(0,200);(1,199);(2,198);(3,197);(4,196);(5,195);(6,194);(7,193);
                    (8,192);(9,191);(10,190);(11,189);(12,188);(13,187);(14,186);(15,185)];
     i_signal := 214; i_flags := 16; i_ext_flags := 0; i_rx_flags := 2;
     i_tx_flags := 8; i_mcs_known := 7; i_mcs_flags := 1; i_mcs_mcs := 7; i_tx_power := 20;
     i_ts := 1234605616436508552; i_ts_accuracy := 16; i_ts_unit := 1; i_ts_flags := 3;
     i_rts_retries := 2; i_data_retries := 5; i_length := 0 |}.
Definition p_all : Z := 4294967295.   (* 0xffffffff: every bit, including the namespace / EXT bits *)
Definition p_mid : Z := 4967470.      (* 0x004bcc2e: the eleven handled fields plus ANTENNA (bit 11) *)

Example c07_radiotap_bound_nonvacuous :
  (0 <= p_all < 2 ^ 32 /\ zlen (i_antennas infoM) <= c_LIBWIFI_MAX_RADIOTAP_ANTENNAS) /\
  (0 <= p_mid < 2 ^ 32 /\ zlen (i_antennas infoM) <= c_LIBWIFI_MAX_RADIOTAP_ANTENNAS).
Proof. repeat apply conj; closed_cmp. Qed.
Example antennas_max : zlen (i_antennas infoM) = c_LIBWIFI_MAX_RADIOTAP_ANTENNAS.
Proof. vm_compute; reflexivity. Qed.
Example c07_radiotap_bound_instance :
  (exists b, create_radiotap p_all infoM = Done b /\ zlen b <= c_LIBWIFI_MAX_RADIOTAP_LEN) /\
  (exists b, create_radiotap p_mid infoM = Done b /\ zlen b <= c_LIBWIFI_MAX_RADIOTAP_LEN).
Proof.
  destruct c07_radiotap_bound_nonvacuous as [[R1 A1] [R2 A2]].
  split; apply c07_radiotap_bound; assumption.
Qed.
(* the concrete output: 76 bytes in both cases.  The ANTENNA field is written as 16 copies of the FIRST
   entry (number 0, signal 200), two bytes each, and for 0xffffffff the fields the generator does not
   handle (TSFT, FHSS, ...) get alignment padding but no data *)
Example c07_radiotap_bound_values :
  create_radiotap p_mid infoM = Done
    [0; 0; 76; 0; 46; 204; 75; 0;
     16; 12; 133; 9; 192; 0; 214; 20;
     0; 200; 0; 200; 0; 200; 0; 200; 0; 200; 0; 200; 0; 200; 0; 200;
     0; 200; 0; 200; 0; 200; 0; 200; 0; 200; 0; 200; 0; 200; 0; 200;
     2; 0; 8; 0; 2; 5; 7; 1; 7; 0; 0; 0; 0; 0; 0; 0;
     136; 119; 102; 85; 68; 51; 34; 17; 16; 0; 1; 3] /\
  (exists b, create_radiotap p_all infoM = Done b /\ zlen b = 76 /\ zfirstn 8 b = [0; 0; 76; 0; 255; 255; 255; 255]).
Proof.
  split; [vm_compute; reflexivity|]. eexists; repeat apply conj; vm_compute; reflexivity.
Qed.

(* ---------------- c07_random_mac ---------------- *)
Definition mac_mem : list byte := [1;2;3;4;5;6; 171;172].                 (* six address bytes + two sentinels *)
Definition rnd6 : list byte := [17;34;51;68;85;102].
Definition xen_prefix : option (list byte) := Some [0;22;62; 9;9;9].       (* only 00:16:3e is used *)

Example c07_random_mac_nonvacuous :
  (6 <= zlen mac_mem /\ 6 <= zlen rnd6 /\ (forall p, xen_prefix = Some p -> 3 <= zlen p)) /\
  (6 <= zlen mac_mem /\ 6 <= zlen rnd6 /\ (forall p, @None (list byte) = Some p -> 3 <= zlen p)).
Proof.
  repeat apply conj; try closed_cmp.
  - intros p H; injection H as <-; closed_cmp.
Qed.
Example c07_random_mac_instance :
  (exists m, random_mac mac_mem xen_prefix rnd6 = Done m /\ zlen m = zlen mac_mem /\ zskipn 6 m = zskipn 6 mac_mem /\
             zfirstn 3 m = zfirstn 3 [0;22;62; 9;9;9] /\ slice 3 3 m = zfirstn 3 rnd6) /\
  (exists m, random_mac mac_mem None rnd6 = Done m /\ zlen m = zlen mac_mem /\ zskipn 6 m = zskipn 6 mac_mem /\
             zfirstn 6 m = zfirstn 6 rnd6).
Proof.
  destruct c07_random_mac_nonvacuous as [(M1 & R1 & P1) (M2 & R2 & P2)].
  split.
  - exact (c07_random_mac mac_mem xen_prefix rnd6 M1 R1 P1).
  - exact (c07_random_mac mac_mem None rnd6 M2 R2 P2).
Qed.
Example c07_random_mac_values :
  random_mac mac_mem xen_prefix rnd6 = Done [0;22;62; 17;34;51; 171;172] /\
  random_mac mac_mem None rnd6 = Done [17;34;51;68;85;102; 171;172].
Proof. split; vm_compute; reflexivity. Qed.

(* ---- the translated dump routine on concrete numbers: a beacon with 9 bytes of elements into 45 and into 44 bytes ---- *)
From Coq Require Import String.
From LW Require Import Base.CExpr Gen.Sites Spec.CodeSpec.
Local Open Scope string_scope.
Local Open Scope Z_scope.
Example c07_code_dump_beacon_instance :
  let rho bl := upd (upd (upd (upd (fun _ => 0) "buf" 8192) "buf_len" bl) "beacon->tags.length" 9) "ret:libwifi_get_beacon_length" 45 in
  observe (exec 10 (fun _ => None) (rho 45) [] body_libwifi_get_beacon_length) = Some (Some 45, []) /\
  observe (exec 60 (fun _ => None) (rho 45) [] body_libwifi_dump_beacon) =
    Some (Some 45, [("libwifi_get_beacon_length", [0]); ("memcpy", [8192; 0; 24]); ("memcpy", [8216; 0; 12]); ("memcpy", [8228; 0; 9])]) /\
  observe (exec 60 (fun _ => None) (rho 44) [] body_libwifi_dump_beacon) = Some (Some (2 ^ 64 - 22), [("libwifi_get_beacon_length", [0])]).
Proof. repeat split; vm_compute; reflexivity. Qed.
