(* C01 - parsing arbitrary bytes is memory-safe and always returns.  Statements only.
   Every theorem instantiates a refinement theorem with the read oracle rd_strict, which FAULTS on
   every index outside the supplied buffer: `Done` therefore says that no byte outside the buffer is read
   and that the fuel (the loop bound) suffices - for every byte string of every length.
   Machine-level undefined behaviour below the model (misaligned typed loads, aliasing) is not covered
   here; it is observed by ASan/UBSan in the correspondence runs. *)
From LW Require Import Base.Bytes Model.TagIter Model.Radiotap Model.Frame Model.CRC Model.Eapol Model.Security Model.Mgmt
  Proofs.SafetyProofs.
Local Open Scope Z_scope.

Definition negative_or_ok {A} (o : outcome A) : Prop := match o with Ok _ => True | Err c => c < 0 end.

Theorem c01_tag_iteration_safe : forall buf, wfbytes buf ->
  exists o, iterate (rd_strict buf) (zlen buf) = Done o /\ negative_or_ok o.
Proof. exact iteration_safe. Qed.
Print Assumptions c01_tag_iteration_safe.

Theorem c01_radiotap_safe : forall buf, wfbytes buf ->
  exists o, parse_radiotap_info (rd_strict buf) (zlen buf) = Done o /\ negative_or_ok o.
Proof. exact radiotap_safe. Qed.
Print Assumptions c01_radiotap_safe.

Theorem c01_classify_safe : forall buf rt, wfbytes buf ->
  exists o, get_wifi_frame (rd_strict buf) (zlen buf) rt = Done o /\ negative_or_ok o.
Proof. exact classify_safe. Qed.
Print Assumptions c01_classify_safe.

Theorem c01_fcs_safe : forall buf, wfbytes buf ->
  (exists v, crc32 (rd_strict buf) (zlen buf) = Done v) /\
  (exists r, frame_verify (rd_strict buf) (zlen buf) = Done r /\ (r = 0 \/ r = 1)).
Proof. exact fcs_safe. Qed.
Print Assumptions c01_fcs_safe.

(* every parser applied to every classified frame: all reads stay inside the library's own copies *)
Theorem c01_pipeline_safe : forall buf rt f, wfbytes buf ->
  get_wifi_frame (rd_strict buf) (zlen buf) rt = Done (Ok f) ->
  (exists o, parse_beacon f = Done o /\ negative_or_ok o) /\ (exists o, parse_probe_resp f = Done o /\ negative_or_ok o) /\
  (exists o, parse_assoc_resp f = Done o /\ negative_or_ok o) /\ (exists o, parse_reassoc_resp f = Done o /\ negative_or_ok o) /\
  (exists o, parse_probe_req f = Done o /\ negative_or_ok o) /\ (exists o, parse_assoc_req f = Done o /\ negative_or_ok o) /\
  (exists o, parse_reassoc_req f = Done o /\ negative_or_ok o) /\
  (exists o, parse_deauth f = Done o /\ negative_or_ok o) /\ (exists o, parse_disassoc f = Done o /\ negative_or_ok o) /\
  negative_or_ok (parse_data f) /\
  (exists o, check_wpa_handshake f = Done o /\ negative_or_ok o) /\ (exists m, check_wpa_message f = Done m) /\
  (exists n, get_wpa_key_data_length f = Done n) /\ (exists o, get_wpa_data f = Done o /\ negative_or_ok o).
Proof. exact pipeline_safe. Qed.
Print Assumptions c01_pipeline_safe.

(* the element decoders are public routines: called DIRECTLY on an arbitrary byte range of ANY length (0 included) they
   return, and every read stays inside the range - rd is arbitrary (it may fault or lie) outside buf.  Since finding
   F45 each routine checks the length of the range before its first read; before, the RSN / WPA decoders read six
   octets and the Microsoft element handler its fourth octet unconditionally. *)
Theorem c01_ie_decoders_safe : forall buf rd, wfbytes buf -> agrees rd buf ->
  (exists o, get_rsn_info rd 0 (zlen buf) = Done o /\ negative_or_ok o) /\
  (exists o, get_wpa_info rd 0 (zlen buf) = Done o /\ negative_or_ok o) /\
  (forall b, exists o, handle_msft rd b 0 (zlen buf) = Done o /\ negative_or_ok o).
Proof. exact decoders_direct_safe. Qed.
Print Assumptions c01_ie_decoders_safe.

(* ---- the RSN and WPA element decoders AS TRANSLATED from security.c on this run (Gen/Sites.v), run with ONLY the element body readable ---- *)
From Coq Require Import String.
From LW Require Import Base.Bytes Base.CExpr Gen.Sites Spec.CodeSpec Model.Security Proofs.CodeSecurity.
Local Open Scope string_scope.
Local Open Scope Z_scope.
(* for EVERY element body the run returns - it is never stuck, so no load leaves the element and no signed arithmetic overflows - with 0 or -EINVAL,
   and every memcpy it makes reads inside the element *)

Theorem c01_code_rsn_info_safe : forall buf start rho,
  wfbytes buf -> 0 < start -> start + zlen buf < 2 ^ 62 ->
  let rho0 := upd (upd rho "tag_data" start) "tag_end" (start + zlen buf) in
  exists v tr,
    observe (exec 400 (mem_at start buf) rho0 [] body_libwifi_get_rsn_info) = Some (Some v, tr) /\
    (v = 0 \/ v = -22) /\
    (forall dst src n, In ("memcpy", [dst; src; n]) tr -> start <= src /\ src + n <= start + zlen buf).
Proof. exact code_rsn_info_safe. Qed.
Print Assumptions c01_code_rsn_info_safe.


Theorem c01_code_wpa_info_safe : forall buf start rho,
  wfbytes buf -> 0 < start -> start + zlen buf < 2 ^ 62 ->
  let rho0 := upd (upd rho "tag_data" start) "tag_end" (start + zlen buf) in
  exists v tr,
    observe (exec 400 (mem_at start buf) rho0 [] body_libwifi_get_wpa_info) = Some (Some v, tr) /\
    (v = 0 \/ v = -22) /\
    (forall dst src n, In ("memcpy", [dst; src; n]) tr -> start <= src /\ src + n <= start + zlen buf).
Proof. exact code_wpa_info_safe. Qed.
Print Assumptions c01_code_wpa_info_safe.

(* ---- libwifi_parse_data AS TRANSLATED from the source on this run (Gen/Sites.v): for every frame object the run returns, the output object is cleared first (so its prior
   contents play no part), the answer and every call made are functions of the frame's type, flags and lengths and of malloc's answer alone, and it agrees with Model/Frame.v parse_data ---- *)
From Coq Require Import String.
From LW Require Import Base.Bytes Base.CExpr Gen.Sites Spec.CodeSpec Model.Frame Proofs.CodeSmall.
Local Open Scope string_scope.
Local Open Scope list_scope.
Local Open Scope Z_scope.

(* every exit of the data parser *)
Theorem c01_code_parse_data : forall rho ty fl len hl b q m,
  0 <= ty < 2 ^ 31 -> 0 <= fl < 65536 -> 0 <= hl <= len -> len < 2 ^ 64 -> 0 <= b < 2 ^ 64 ->
  rho "ret:malloc" = q -> 0 <= q < 2 ^ 64 ->
  let n := len - hl in
  let qos := Z.testbit fl 1 in
  let t0 := [("memset", [wrap u64 (rho "data"); 0; 32])] in
  let t1 := (t0 ++ data_copies rho qos)%list in
  let res := exec 40 m (data_env rho ty fl len hl b) [] body_libwifi_parse_data in
  if negb (ty =? 2) then
    exists rho', res = Returned (Some (-22)) rho' t0 /\ rho' "data->body" = 0 /\ rho' "data->body_len" = 0
  else if n =? 0 then
    exists rho', res = Returned (Some 0) rho' t1 /\ rho' "data->body" = 0 /\ rho' "data->body_len" = 0
  else if q =? 0 then
    exists rho', res = Returned (Some (-12)) rho' (t1 ++ [("malloc", [n])])%list /\ rho' "data->body" = 0 /\ rho' "data->body_len" = n
  else
    exists rho', res = Returned (Some 0) rho' (t1 ++ [("malloc", [n]); ("memcpy", [q; b; n])])%list /\
                 rho' "data->body" = q /\ rho' "data->body_len" = n.
Proof. exact code_parse_data. Qed.
Print Assumptions c01_code_parse_data.

(* the same run against the model *)
Theorem c01_code_parse_data_refines_model : forall (f : Frame.frame) rho b q m,
  let ty := Frame.fc_type (Frame.f_fc f) in
  0 <= ty < 2 ^ 31 -> 0 <= Frame.f_flags f < 65536 -> 0 <= Frame.f_header_len f <= Frame.f_len f -> Frame.f_len f < 2 ^ 64 ->
  0 <= b < 2 ^ 64 -> rho "ret:malloc" = q -> 0 <= q < 2 ^ 64 ->
  let res := exec 40 m (data_env rho ty (Frame.f_flags f) (Frame.f_len f) (Frame.f_header_len f) b) [] body_libwifi_parse_data in
  let t0 := [("memset", [wrap u64 (rho "data"); 0; 32])] in
  match Frame.parse_data f with
  | Err c => c = -22 /\ exists rho', res = Returned (Some c) rho' t0
  | Ok d =>
      let n := Frame.d_body_len d in
      let qos := negb (Z.land (Frame.f_flags f) Consts.c_LIBWIFI_FLAGS_IS_QOS =? 0) in
      exists rho',
        res = Returned (Some (if negb (n =? 0) && (q =? 0) then -12 else 0)) rho'
                (t0 ++ data_copies rho qos ++
                 (if n =? 0 then [] else ("malloc", [n]) :: (if q =? 0 then [] else [("memcpy", [q; b; n])])))%list /\
        rho' "data->body_len" = n /\ rho' "data->body" = (if n =? 0 then 0 else q)
  end.
Proof. exact code_parse_data_refines_model. Qed.
Print Assumptions c01_code_parse_data_refines_model.

(* ---- libwifi_get_wpa_data AS TRANSLATED (Gen/Sites.v), only the frame body readable: the declared Key Data Length - a hostile 16-bit field - is clamped to 1024 AND to what the
   body carries behind the 107-octet descriptor, whatever it says (also stated as c12_code_get_wpa_data_safe) ---- *)
From LW Require Import Model.Eapol Proofs.CodeEapol.
(* every memcpy reads inside the body; the key-data copy takes at most what is present and at most 1024 octets *)
Theorem c01_code_get_wpa_data_safe : forall b a hl ty rho mc,
  wfbytes b -> 0 < a -> a + zlen b < 2 ^ 62 -> hl = 24 \/ hl = 26 ->
  hs_accepts b ty hl (hl + zlen b) mc = true ->
  wrap s32 (rho "ret:libwifi_check_wpa_handshake") = 1 ->
  exists v tr,
    observe (exec 60 (mem_at a b) (frame_env rho ty (hl + zlen b) hl a) [] body_libwifi_get_wpa_data) = Some (Some v, tr) /\
    (v = 0 \/ v = -12) /\
    forall d s n, In ("memcpy", [d; s; n]) tr ->
      a <= s /\ 0 <= n /\ s + n <= a + zlen b /\
      (s = a + 13 /\ n = 94 \/
       s = a + 107 /\ n <= 1024 /\ n <= zlen b - 107 /\ n <= 256 * znth b 105 + znth b 106 /\ d = wrap u64 (rho "ret:malloc") /\ d <> 0).
Proof. exact code_get_wpa_data_safe. Qed.
Print Assumptions c01_code_get_wpa_data_safe.

(* ---- the RSN and Microsoft vendor element handlers AS TRANSLATED (Gen/Sites.v): the decoder is handed EXACTLY the bounds of the element's body - [data, data + len) for RSN,
   [data + 4, data + len) for a WPA1 vendor element - and is not called at all for elements shorter than their fixed part; composed with c01_code_rsn_info_safe / _wpa_info_safe above
   (the decoders read only inside the bounds they are given) no octet outside the element is read (also stated under C08) ---- *)
From LW Require Import Proofs.CodeSmall.
(* the RSN element handler *)
Theorem c01_code_bss_handle_rsn_tag : forall rho e d len m,
  0 <= e < 2 ^ 64 -> 0 <= d < 2 ^ 63 -> - 2 ^ 31 <= len < 2 ^ 31 -> d + len < 2 ^ 63 ->
  let rho0 := upd (upd (upd rho "bss->encryption_info" e) "rsn_data" d) "rsn_len" len in
  let r := wrap s32 (rho "ret:libwifi_get_rsn_info") in
  let c1 := ("libwifi_get_rsn_info", [wrap u64 (rho "&rsn_info"); d; d + len]) in
  let res := exec 40 m rho0 [] body_libwifi_bss_handle_rsn_tag in
  exists rho', rho' "bss->encryption_info" = clear_wep e /\
    if len <? 6 then res = Returned (Some (-22)) rho' []
    else if negb (r =? 0) then res = Returned (Some (-22)) rho' [c1]
    else res = Returned (Some 0) rho' [c1; ("libwifi_enumerate_rsn_suites", [wrap u64 (rho "&rsn_info"); wrap u64 (rho "bss")]);
                                       ("memcpy", [wrap u64 (rho "&bss->rsn_info"); wrap u64 (rho "&rsn_info"); 64])].
Proof. exact code_bss_handle_rsn_tag. Qed.
Print Assumptions c01_code_bss_handle_rsn_tag.

(* the vendor (Microsoft OUI type 1 = WPA1, type 4 = WPS) element handler *)
Theorem c01_code_bss_handle_msft_tag : forall rho e a len buf,
  0 <= e < 2 ^ 64 -> 0 < a -> a + zlen buf < 2 ^ 62 -> wfbytes buf -> - 2 ^ 31 <= len < 2 ^ 31 -> (4 <= len -> 4 <= zlen buf) ->
  let rho0 := upd (upd (upd rho "bss->encryption_info" e) "msft_data" a) "msft_len" len in
  let t := znth buf 3 in
  let r := wrap s32 (rho "ret:libwifi_get_wpa_info") in
  let c1 := ("libwifi_get_wpa_info", [wrap u64 (rho "&wpa_info"); a + 4; a + len]) in
  let res := exec 60 (mem_at a buf) rho0 [] body_libwifi_bss_handle_msft_tag in
  if len <? 4 then exists rho', res = Returned (Some (-22)) rho' [] /\ rho' "bss->encryption_info" = e /\ rho' "bss->wps" = rho "bss->wps"
  else if t =? 1 then
    exists rho', rho' "bss->encryption_info" = Z.lor (clear_wep e) 4 /\ rho' "bss->wps" = rho "bss->wps" /\
      if len <? 10 then res = Returned (Some (-22)) rho' []
      else if negb (r =? 0) then res = Returned (Some (-22)) rho' [c1]
      else res = Returned (Some 0) rho'
                   [c1; ("libwifi_enumerate_wpa_suites", [wrap u64 (rho "&wpa_info"); wrap u64 (rho "bss")]);
                        ("memcpy", [wrap u64 (rho "&bss->wpa_info"); wrap u64 (rho "&wpa_info"); 58])]
  else exists rho', res = Returned (Some 0) rho' [] /\ rho' "bss->encryption_info" = e /\
                    rho' "bss->wps" = (if t =? 4 then 1 else rho "bss->wps").
Proof. exact code_bss_handle_msft_tag. Qed.
Print Assumptions c01_code_bss_handle_msft_tag.

(* ieee80211_radiotap_iterator_init AS TRANSLATED, the whole routine (Proofs/CodeRadiotapInit.v), in ANY memory that holds the
   header buffer and with any fuel from 60 + 8 * length on: the run RETURNS - it never reads outside the buffer, never overflows,
   the loop over the extended present words ends - with 0 exactly when Model/Radiotap.v rt_init accepts the header and with the
   model's negative code otherwise; what lies around the buffer has no influence. *)
From Coq Require Import String.
From LW Require Import Base.Bytes Base.CExpr Gen.Layout Gen.Sites Spec.CodeSpec Model.Radiotap Proofs.MemExt Proofs.CodeRadiotapInit.
Local Open Scope string_scope.
Local Open Scope list_scope.
Local Open Scope Z_scope.
Theorem c01_code_rtinit_returns : forall M buf h rho vns rns F,
  mem_agrees M h buf ->
  wfbytes buf -> 0 < h -> h + zlen buf < 2 ^ 62 -> zlen buf < 2 ^ 31 ->
  rho "max_length" = zlen buf -> rho "radiotap_header" = h ->
  (1 <= zlen buf -> rho "radiotap_header->it_version" = znth buf 0) ->
  rho "&radiotap_header->it_len" = h + off_ieee80211_radiotap_header__it_len ->
  rho "&radiotap_header->it_present" = h + off_ieee80211_radiotap_header__it_present ->
  rho "vns" = vns -> rho "&radiotap_ns" = rns -> 0 <= vns < 2 ^ 64 -> 0 <= rns < 2 ^ 64 ->
  (60 + 8 * Z.to_nat (zlen buf) <= F)%nat ->
  exists v rho1 tr1, exec F M rho [] body_ieee80211_radiotap_iterator_init = Returned (Some v) rho1 tr1 /\
    match rt_init (rd_strict buf) (zlen buf) with
    | Done (Err c) => v = c
    | Done (Ok _) => v = 0
    | _ => False
    end.
Proof. exact code_rtinit_returns_model_anywhere. Qed.
Print Assumptions c01_code_rtinit_returns.
