(* C06 - tag iteration reports only genuine in-bounds elements, in order, and terminates.
   Statements only; proofs in Proofs/TagIterProofs.v. *)
From LW Require Import Base.Bytes Model.TagIter Spec.TagSpec Proofs.TagIterProofs.
Local Open Scope Z_scope.

(* refinement: for EVERY buffer and EVERY read oracle that is right inside the buffer (and arbitrary,
   or faulting, outside it) the C loop - init, then do/while next - computes exactly the Spec.
   Done excludes OutOfFuel (termination) and Fault (no read outside the buffer). *)
Theorem c06_iterate_exact : forall buf rd, wfbytes buf -> agrees rd buf ->
  iterate rd (zlen buf) = Done (spec_iterate buf).
Proof. exact iterate_exact. Qed.
Print Assumptions c06_iterate_exact.

(* every reported element is a real element of the buffer *)
Theorem c06_sound : forall buf e, wfbytes buf -> In e (reported buf) -> genuine buf e.
Proof. exact reported_genuine. Qed.
Print Assumptions c06_sound.

(* wire order, none skipped or repeated: the first starts at 0, each next one where the previous ended *)
Theorem c06_order : forall buf, wfbytes buf -> contiguous 0 (reported buf).
Proof. exact reported_contiguous. Qed.
Print Assumptions c06_order.

(* it reports every element that precedes the first truncated one: 'elements' is the maximal chain of fitting
   elements (it stops only where fewer than two bytes remain or a declared body does not fit) ... *)
Theorem c06_elements_maximal : forall buf, wfbytes buf ->
  contiguous 0 (elements buf) /\ Forall (genuine buf) (elements buf) /\
  let stop := fold_left (fun _ e => e_off e + 2 + e_len e) (elements buf) 0 in
  (zlen buf - stop < 2 \/ zlen buf - stop - 2 < znth buf (stop + 1)).
Proof. exact elements_maximal. Qed.
Print Assumptions c06_elements_maximal.

(* ... and 'reported' is that whole chain: nothing is withheld (an element with an empty body used to end the
   report - finding F44 - and is now an element like any other) *)
Theorem c06_complete : forall buf, reported buf = elements buf.
Proof. exact reported_all. Qed.
Print Assumptions c06_complete.

(* the same on the C loop itself: whenever the first element fits, the loop reports the maximal chain, all of it *)
Theorem c06_reports_all : forall buf rd, wfbytes buf -> agrees rd buf -> elements buf <> [] ->
  iterate rd (zlen buf) = Done (Ok (elements buf)).
Proof. exact iterate_complete_all. Qed.
Print Assumptions c06_reports_all.

(* a buffer whose first element does not fit is refused *)
Theorem c06_first_refused : forall buf rd, wfbytes buf -> agrees rd buf ->
  (zlen buf < 2 \/ zlen buf - 2 < znth buf 1) -> iterate rd (zlen buf) = Done (Err (- EINVAL)).
Proof. exact first_refused. Qed.
Print Assumptions c06_first_refused.

(* at most one report per two bytes *)
Theorem c06_report_bound : forall buf, wfbytes buf -> 2 * zlen (reported buf) <= zlen buf.
Proof. exact reported_bound. Qed.
Print Assumptions c06_report_bound.
