(* C06 - tag iteration reports only genuine in-bounds elements, in order, and terminates.
   Statements only; proofs in Proofs/TagIterProofs.v. *)
From LW Require Import Base.Bytes Model.TagIter Spec.TagSpec Proofs.TagIterProofs.
Local Open Scope Z_scope.

(* refinement: for EVERY buffer and EVERY read oracle that is right inside the buffer (and arbitrary,
   or faulting, outside it) the C loop - init, then do/while next - computes exactly the Spec.
   Done excludes OutOfFuel (termination) and Fault (no read outside the buffer). *)
Theorem c06_iterate_exact : forall buf rd, wfbytes buf -> agrees rd buf ->
  iterate rd (zlen buf) = Done (spec_iterate buf).
Proof. exact iterate_exact. Qed.
Print Assumptions c06_iterate_exact.

(* every reported element is a real element of the buffer *)
Theorem c06_sound : forall buf e, wfbytes buf -> In e (reported buf) -> genuine buf e.
Proof. exact reported_genuine. Qed.
Print Assumptions c06_sound.

(* wire order, none skipped or repeated: the first starts at 0, each next one where the previous ended *)
Theorem c06_order : forall buf, wfbytes buf -> contiguous 0 (reported buf).
Proof. exact reported_contiguous. Qed.
Print Assumptions c06_order.

(* it reports every element that precedes the first truncated one: 'elements' is the maximal chain of fitting
   elements (it stops only where fewer than two bytes remain or a declared body does not fit) ... *)
Theorem c06_elements_maximal : forall buf, wfbytes buf ->
  contiguous 0 (elements buf) /\ Forall (genuine buf) (elements buf) /\
  let stop := fold_left (fun _ e => e_off e + 2 + e_len e) (elements buf) 0 in
  (zlen buf - stop < 2 \/ zlen buf - stop - 2 < znth buf (stop + 1)).
Proof. exact elements_maximal. Qed.
Print Assumptions c06_elements_maximal.

(* ... and 'reported' is that whole chain: nothing is withheld (an element with an empty body used to end the
   report - finding F44 - and is now an element like any other) *)
Theorem c06_complete : forall buf, reported buf = elements buf.
Proof. exact reported_all. Qed.
Print Assumptions c06_complete.

(* the same on the C loop itself: whenever the first element fits, the loop reports the maximal chain, all of it *)
Theorem c06_reports_all : forall buf rd, wfbytes buf -> agrees rd buf -> elements buf <> [] ->
  iterate rd (zlen buf) = Done (Ok (elements buf)).
Proof. exact iterate_complete_all. Qed.
Print Assumptions c06_reports_all.

(* a buffer whose first element does not fit is refused *)
Theorem c06_first_refused : forall buf rd, wfbytes buf -> agrees rd buf ->
  (zlen buf < 2 \/ zlen buf - 2 < znth buf 1) -> iterate rd (zlen buf) = Done (Err (- EINVAL)).
Proof. exact first_refused. Qed.
Print Assumptions c06_first_refused.

(* at most one report per two bytes *)
Theorem c06_report_bound : forall buf, wfbytes buf -> 2 * zlen (reported buf) <= zlen buf.
Proof. exact reported_bound. Qed.
Print Assumptions c06_report_bound.

(* ---- the iterator AS TRANSLATED from tag_iterator.c on this run (Gen/Sites.v, tie #1 extended to control flow) ----
   For every buffer placed anywhere in memory, with ONLY the buffer readable, the translated C statements - every guard,
   conversion, pointer addition and load as clang typed them - run without getting stuck (no read outside the buffer, no
   signed overflow) and leave exactly the iterator the hand-written model computes; so everything above, proved of the
   model, holds of the code these statements were translated from. *)
From Coq Require Import String.
From LW Require Import Base.CExpr Gen.Sites Proofs.CodeIter.
Local Open Scope string_scope.
Local Open Scope Z_scope.

Theorem c06_code_init_refines_model : forall buf start rho,
  wfbytes buf -> 0 <= start -> start + zlen buf < 2 ^ 62 ->
  let rho0 := upd (upd rho "tags_start" start) "data_len" (zlen buf) in
  let run := exec 30 (mem_at start buf) rho0 [] body_libwifi_tag_iterator_init in
  match tag_init (rd_strict buf) (zlen buf) with
  | Done (Err c) => observe run = Some (Some c, [])
  | Done (Ok it) =>
      exists rho1, run = Returned (Some 0) rho1 [] /\
        rho1 "it->tag_header" = start + it_hdr it /\ rho1 "it->tag_data" = start + it_data it /\
        rho1 "it->_next_tag_header" = start + it_next it /\ rho1 "it->_frame_end" = start + it_end it
  | _ => False
  end.
Proof. exact code_tag_iterator_init_refines. Qed.
Print Assumptions c06_code_init_refines_model.

Theorem c06_code_next_refines_model : forall buf start rho it,
  wfbytes buf -> 0 < start -> start + zlen buf < 2 ^ 62 ->
  0 <= it_next it < 2 ^ 62 -> -1 <= it_end it < zlen buf ->
  let run := exec 30 (mem_at start buf) (it_env rho start it) [] body_libwifi_tag_iterator_next in
  match tag_next (rd_strict buf) it with
  | Done (it', r) =>
      exists rho1, run = Returned (Some (match r with None => -1 | Some n => n end)) rho1 [] /\ it_fields rho1 start it'
  | _ => False
  end.
Proof. exact code_tag_iterator_next_refines. Qed.
Print Assumptions c06_code_next_refines_model.
