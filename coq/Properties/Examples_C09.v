(* C09 - non-vacuity witnesses and concrete instances.

   Covered:
     c09_single_word   nonvacuous (two hand-built headers), instance (decoded record written out; strict
                       oracle and an oracle returning garbage outside the buffer)
     c09_refused       nonvacuous (one witness per refusal reason), instance + concrete return code
     c09_length        nonvacuous (a three-word header with per-antenna entries, which s_wf1 does not
                       cover, and the single-word header), instance + concrete numbers
     c09_total         only wfbytes/agrees hypotheses: instances on a vendor-namespace header, an
                       endless chain of extended present words and a header whose fields overrun it_len
     c09_band_channel  only a range hypothesis: instances at 2437, 2484, 5180, 5955, 7115, 3000 MHz
   Skipped: c09_table (no hypotheses). *)
From LW Require Import Base.Bytes Model.Radiotap Spec.RadiotapSpec Properties.Properties_C09.
Local Open Scope Z_scope.

Ltac closed_cmp := vm_compute; first [reflexivity | discriminate | (intro; discriminate)].
Ltac wf_bytes := apply wfbytesb_spec; vm_compute; reflexivity.

(* an ACK frame (frame control d4 00, duration 0, receiver 00:16:3e:11:22:33) followed by four FCS bytes *)
Definition ack_fcs : list byte := [212;0;0;0; 0;22;62;17;34;51; 222;173;190;239].

(* ---- header 1: one present word 0x0048402f = TSFT | FLAGS | RATE | CHANNEL | DBM_ANTSIGNAL | RX_FLAGS |
        MCS | TIMESTAMP, it_len = 44.
        offset  8 TSFT u64 (naturally aligned after the 8-byte header)
               16 flags = 0x10 (FCS present)      17 rate = 12 (6 Mb/s)
               18 channel: 2437 MHz, flags 0x00c0 (aligned to 2 without padding)
               22 antenna signal = 0xd6 (-42 dBm)
               23 one padding byte (0xee, arbitrary) so that RX flags are 2-aligned at 24
               26 MCS known/flags/index = 7/1/7
               29..31 three padding bytes (arbitrary) so that the timestamp is 8-aligned at 32
               32 timestamp u64 0x1122334455667788, accuracy 16, unit 1, flags 3       -> 44 *)
Definition hdr1 : list byte :=
  [0;0;44;0; 47;64;72;0;
   120;86;52;18;0;0;0;0;
   16; 12; 133;9;192;0; 214; 238; 2;0; 7;1;7; 170;187;204;
   136;119;102;85;68;51;34;17; 16;0; 1; 3].
Definition buf1 : list byte := hdr1 ++ ack_fcs.
Definition info1 : rt_info :=
  {| i_chan_flags := 192; i_chan_freq := 2437; i_chan_center := 6; i_chan_band := 1; i_rate_raw := 12;
     i_antennas := []; i_signal := 214; i_flags := 16; i_ext_flags := 0; i_rx_flags := 2; i_tx_flags := 0;
     i_mcs_known := 7; i_mcs_flags := 1; i_mcs_mcs := 7; i_tx_power := 0;
     i_ts := 1234605616436508552; i_ts_accuracy := 16; i_ts_unit := 1; i_ts_flags := 3;
     i_rts_retries := 0; i_data_retries := 0; i_length := 44 |}.

(* ---- header 2: no TSFT; present = 0x0000082a = FLAGS | CHANNEL | DBM_ANTSIGNAL | ANTENNA.
        offset 8 flags = 2, 9 one padding byte (0xff), 10 channel 5180 MHz / 0x0140, 14 signal 0xbf, 15 antenna 1:
        the fields end at 16, the length field says 18 (two slack bytes a5 5a, which s_wf1 allows) *)
Definition hdr2 : list byte :=
  [0;0;18;0; 42;8;0;0;
   2; 255; 60;20;64;1; 191; 1; 165;90].
Definition buf2 : list byte := hdr2 ++ ack_fcs.
Definition info2 : rt_info :=
  {| i_chan_flags := 320; i_chan_freq := 5180; i_chan_center := 36; i_chan_band := 2; i_rate_raw := 0;
     i_antennas := []; i_signal := 191; i_flags := 2; i_ext_flags := 0; i_rx_flags := 0; i_tx_flags := 0;
     i_mcs_known := 0; i_mcs_flags := 0; i_mcs_mcs := 0; i_tx_power := 0;
     i_ts := 0; i_ts_accuracy := 0; i_ts_unit := 0; i_ts_flags := 0;
     i_rts_retries := 0; i_data_retries := 0; i_length := 18 |}.

Example buf1_wf : wfbytes buf1. Proof. wf_bytes. Qed.
Example buf2_wf : wfbytes buf2. Proof. wf_bytes. Qed.

(* the field offsets the specification computes for the two present words *)
Example hdr1_offsets : s_field_offsets (s_present buf1) =
  ([(0, 8); (1, 16); (2, 17); (3, 18); (5, 22); (14, 24); (19, 26); (22, 32)], 44).
Proof. vm_compute; reflexivity. Qed.
Example hdr2_offsets : s_field_offsets (s_present buf2) = ([(1, 8); (3, 10); (5, 14); (11, 15)], 16).
Proof. vm_compute; reflexivity. Qed.

(* ---------------- c09_single_word ---------------- *)
Example c09_single_word_nonvacuous :
  (wfbytes buf1 /\ agrees (rd_strict buf1) buf1 /\ s_wf1 buf1) /\
  (wfbytes buf2 /\ agrees (rd_env buf2 (fun _ => 255)) buf2 /\ s_wf1 buf2).
Proof.
  split; (split; [wf_bytes | split; [first [apply agrees_strict | apply agrees_env] |]]).
  - unfold s_wf1; repeat apply conj; closed_cmp.
  - unfold s_wf1; repeat apply conj; closed_cmp.
Qed.

Example c09_single_word_instance : parse_radiotap_info (rd_strict buf1) (zlen buf1) = Done (Ok info1).
Proof.
  destruct c09_single_word_nonvacuous as [[W [A S]] _].
  rewrite (c09_single_word buf1 _ W A S). vm_compute; reflexivity.
Qed.
(* header 2 with an oracle that answers 0xff for every address outside the buffer *)
Example c09_single_word_instance2 :
  parse_radiotap_info (rd_env buf2 (fun _ => 255)) (zlen buf2) = Done (Ok info2).
Proof.
  destruct c09_single_word_nonvacuous as [_ [W [A S]]].
  rewrite (c09_single_word buf2 _ W A S). vm_compute; reflexivity.
Qed.

(* ---------------- c09_refused: one buffer per reason ---------------- *)
Definition bad_short : list byte := [0;0;8;0; 0;0;0].                          (* 7 bytes supplied *)
Definition bad_version : list byte := 1 :: tl buf1.                            (* version 1 *)
Definition bad_len7 : list byte := [0;0;7;0; 2;0;0;0; 16] ++ ack_fcs.          (* it_len 7 < 8 *)
Definition bad_beyond : list byte := zfirstn 30 buf1.                          (* it_len 44 > 30 supplied *)
Definition bad_big : list byte := [0;0;0;1; 2;0;0;0] ++ repeat 0 292.          (* it_len 256 <= 300 supplied *)

Example c09_refused_nonvacuous :
  (wfbytes bad_short /\ agrees (rd_strict bad_short) bad_short /\ s_refused bad_short) /\
  (wfbytes bad_version /\ agrees (rd_strict bad_version) bad_version /\ s_refused bad_version) /\
  (wfbytes bad_len7 /\ agrees (rd_strict bad_len7) bad_len7 /\ s_refused bad_len7) /\
  (wfbytes bad_beyond /\ agrees (rd_strict bad_beyond) bad_beyond /\ s_refused bad_beyond) /\
  (wfbytes bad_big /\ agrees (rd_strict bad_big) bad_big /\ s_refused bad_big).
Proof.
  repeat apply conj; try wf_bytes; try apply agrees_strict; unfold s_refused.
  - left; closed_cmp.
  - right; left; closed_cmp.
  - right; right; left; closed_cmp.
  - right; right; right; left; closed_cmp.
  - right; right; right; right; closed_cmp.
Qed.
(* only the last reason holds for bad_big: enough bytes are supplied *)
Example bad_big_only_too_long :
  ~ zlen bad_big < 8 /\ znth bad_big 0 = 0 /\ ~ s_it_len bad_big < 8 /\ ~ zlen bad_big < s_it_len bad_big.
Proof. repeat apply conj; closed_cmp. Qed.

Example c09_refused_instance :
  (exists c, parse_radiotap_info (rd_strict bad_version) (zlen bad_version) = Done (Err c) /\ c < 0) /\
  (exists c, parse_radiotap_info (rd_strict bad_beyond) (zlen bad_beyond) = Done (Err c) /\ c < 0) /\
  (exists c, parse_radiotap_info (rd_strict bad_big) (zlen bad_big) = Done (Err c) /\ c < 0).
Proof.
  destruct c09_refused_nonvacuous as [_ [[W2 [A2 R2]] [_ [[W4 [A4 R4]] [W5 [A5 R5]]]]]].
  repeat apply conj; apply c09_refused; assumption.
Qed.
Example c09_refused_values :
  parse_radiotap_info (rd_strict bad_short) (zlen bad_short) = Done (Err (-22)) /\
  parse_radiotap_info (rd_strict bad_version) (zlen bad_version) = Done (Err (-22)) /\
  parse_radiotap_info (rd_strict bad_len7) (zlen bad_len7) = Done (Err (-22)) /\
  parse_radiotap_info (rd_strict bad_beyond) (zlen bad_beyond) = Done (Err (-22)) /\
  parse_radiotap_info (rd_strict bad_big) (zlen bad_big) = Done (Err (-22)).
Proof. repeat apply conj; vm_compute; reflexivity. Qed.

(* ---------------- c09_length ---------------- *)
(* header 3: three present words.  word 0 = FLAGS | DBM_ANTSIGNAL | ANTENNA | RADIOTAP_NS | EXT,
   word 1 = DBM_ANTSIGNAL | ANTENNA | RADIOTAP_NS | EXT, word 2 = DBM_ANTSIGNAL | ANTENNA;
   data from offset 16: flags 0x10, signal 0xc8, antenna 0 | signal 0xbe, antenna 1 | signal 0xb4, antenna 2;
   one slack byte; it_len = 24.  Not an s_wf1 header (bits 29 and 31 are set). *)
Definition hdr3 : list byte :=
  [0;0;24;0; 34;8;0;160;  32;8;0;160; 32;8;0;0;
   16; 200; 0;  190; 1;  180; 2; 0].
Definition buf3 : list byte := hdr3 ++ ack_fcs.
Definition info3 : rt_info :=
  {| i_chan_flags := 0; i_chan_freq := 0; i_chan_center := 0; i_chan_band := 0; i_rate_raw := 0;
     i_antennas := [(1, 190); (2, 180)]; i_signal := 200; i_flags := 16; i_ext_flags := 0; i_rx_flags := 0;
     i_tx_flags := 0; i_mcs_known := 0; i_mcs_flags := 0; i_mcs_mcs := 0; i_tx_power := 0;
     i_ts := 0; i_ts_accuracy := 0; i_ts_unit := 0; i_ts_flags := 0;
     i_rts_retries := 0; i_data_retries := 0; i_length := 24 |}.

Example c09_length_nonvacuous :
  (wfbytes buf3 /\ agrees (rd_strict buf3) buf3 /\
   parse_radiotap_info (rd_strict buf3) (zlen buf3) = Done (Ok info3)) /\
  (wfbytes buf1 /\ agrees (rd_strict buf1) buf1 /\
   parse_radiotap_info (rd_strict buf1) (zlen buf1) = Done (Ok info1)).
Proof.
  repeat apply conj; try wf_bytes; try apply agrees_strict.
  - vm_compute; reflexivity.
  - exact c09_single_word_instance.
Qed.
Example c09_length_instance :
  (i_length info3 = s_it_len buf3 /\ 8 <= i_length info3 <= zlen buf3 /\ i_length info3 <= 255) /\
  (i_length info1 = s_it_len buf1 /\ 8 <= i_length info1 <= zlen buf1 /\ i_length info1 <= 255).
Proof.
  destruct c09_length_nonvacuous as [[W3 [A3 P3]] [W1 [A1 P1]]].
  split; [exact (c09_length buf3 _ info3 W3 A3 P3) | exact (c09_length buf1 _ info1 W1 A1 P1)].
Qed.
Example c09_length_values :
  (i_length info3, s_it_len buf3, zlen buf3) = (24, 24, 38) /\
  (i_length info1, s_it_len buf1, zlen buf1) = (44, 44, 58).
Proof. split; vm_compute; reflexivity. Qed.

(* ---------------- c09_total (optional instances) ---------------- *)
(* header 4: word 0 = FLAGS | DBM_ANTSIGNAL | VENDOR_NS | EXT, word 1 = vendor bit 0; data from offset 12:
   flags, signal, vendor namespace header (2-aligned at 14: OUI 00:11:22, sub-namespace 1, skip length 4),
   four vendor bytes, four slack bytes; it_len = 28 *)
Definition hdr4 : list byte :=
  [0;0;28;0; 34;0;0;192;  1;0;0;0;
   16; 200;  0;17;34; 1; 4;0;  9;9;9;9; 0;0;0;0].
Definition buf4 : list byte := hdr4 ++ ack_fcs.
(* every present word announces another one, up to the end of the 16-byte header *)
Definition buf5 : list byte := [0;0;16;0; 0;0;0;128; 0;0;0;128; 0;0;0;128] ++ ack_fcs.
(* present = TSFT | TIMESTAMP (20 data bytes wanted) but it_len = 12: the fields overrun the header *)
Definition buf6 : list byte := [0;0;12;0; 1;0;64;0; 1;2;3;4] ++ ack_fcs.
Definition garbage : Z -> byte := fun _ => 255.

Example c09_total_instance :
  (exists o, parse_radiotap_info (rd_env buf4 garbage) (zlen buf4) = Done o) /\
  (exists o, parse_radiotap_info (rd_env buf5 garbage) (zlen buf5) = Done o) /\
  (exists o, parse_radiotap_info (rd_strict buf6) (zlen buf6) = Done o).
Proof.
  repeat apply conj; apply c09_total; try wf_bytes; first [apply agrees_env | apply agrees_strict].
Qed.
Example c09_total_values :
  (exists i, parse_radiotap_info (rd_env buf4 garbage) (zlen buf4) = Done (Ok i) /\
             (i_flags i, i_signal i, i_antennas i, i_length i) = (16, 200, [], 28)) /\
  parse_radiotap_info (rd_env buf5 garbage) (zlen buf5) = Done (Err (-22)) /\
  (* NOTE: the overrunning header is neither refused nor decoded: the iterator's -EINVAL just ends the
     loop and the routine reports success with an all-zero description of length 12.  Such a header is
     neither s_wf1 nor s_refused, so c09_single_word / c09_refused say nothing about it. *)
  (exists i, parse_radiotap_info (rd_strict buf6) (zlen buf6) = Done (Ok i) /\
             (i_ts i, i_flags i, i_signal i, i_length i) = (0, 0, 0, 12)) /\
  s_wf1b buf6 = false /\ ~ s_refused buf6.
Proof.
  repeat apply conj.
  - eexists; split; vm_compute; reflexivity.
  - vm_compute; reflexivity.
  - eexists; split; vm_compute; reflexivity.
  - vm_compute; reflexivity.
  - unfold s_refused. intros [H|[H|[H|[H|H]]]]; vm_compute in H; try discriminate; apply H; reflexivity.
Qed.

(* ---------------- c09_band_channel (optional instances) ---------------- *)
Example c09_band_channel_instance :
  band_center 2437 = (6, 1) /\ band_center 2484 = (14, 1) /\ band_center 5180 = (36, 2) /\
  band_center 5955 = (1, 4) /\ band_center 7115 = (233, 4) /\ band_center 3000 = (0, 0).
Proof.
  repeat apply conj; (rewrite c09_band_channel by lia); vm_compute; reflexivity.
Qed.

(* ---------------- c09_code_rtinit_refines_model: the hypotheses hold for a concrete three-word header at address 4096, and the
   theorem's conclusion, computed: init succeeds, _arg lands after the third present word ---------------- *)
From Coq Require Import String.
From LW Require Import Base.CExpr Gen.Sites Spec.CodeSpec Proofs.CodeSecurity Proofs.CodeRadiotapInit.
Local Open Scope string_scope.
Definition ex_chain3 : list byte :=
  [0; 0; 24; 0;   2; 0; 0; 160;   32; 0; 0; 160;   32; 0; 0; 0;   16; 200; 0; 0;  201; 0; 0; 0].
Definition ex_init_env : env :=
  env_of [("max_length", 24); ("radiotap_header", 4096); ("radiotap_header->it_version", 0);
          ("&radiotap_header->it_len", 4098); ("&radiotap_header->it_present", 4100); ("vns", 0); ("&radiotap_ns", 8192)].
Example c09_code_rtinit_refines_model_nonvacuous :
  wfbytes ex_chain3 /\ zlen ex_chain3 = 24 /\
  (exists it, rt_init (rd_strict ex_chain3) 24 = Done (Ok it) /\ r_arg it = Some 16 /\ r_shift it = 2684354562 /\ r_max it = 24) /\
  wp (60 + 8 * 24) (mem_at 4096 ex_chain3) ex_init_env [] body_ieee80211_radiotap_iterator_init
     (fun o => exists rho1 tr1, o = Returned (Some 0) rho1 tr1 /\ rho1 "iterator->_arg" = 4096 + 16 /\
                                rho1 "iterator->_next_bitmap" = 4096 + 8 /\ List.length tr1 = 5%nat).
Proof.
  split; [vm_compute; repeat constructor; discriminate | ].
  split; [reflexivity | ].
  split; [eexists; split; [vm_compute; reflexivity | repeat split] | ].
  exists 200%nat. split; [cbn; lia | ]. vm_compute. split; [discriminate | ]. eexists _, _. repeat split.
Qed.

(* ---------------- the translated iterator (init by exec, next with its gotos by execg) RUN by the kernel on seven concrete headers
   - three present words with namespace resets, absent bits between present ones, a field beyond it_len, a vendor namespace with skip
   octets, an undefined field, and three refusals - reports the model's hits and final code (instances of c09_code_rtnext_absent_pass /
   _enoent among them; evaluations, not universally quantified) ---------------- *)
From LW Require Import Proofs.CodeRadiotapNextRun.
Example c09_code_rtnext_runs_agree :
  code_run run_ex1 = model_run run_ex1 /\ model_run run_ex1 = ([(1, 16); (5, 17); (5, 18)], Some (-2)) /\
  code_run run_ex2 = model_run run_ex2 /\ model_run run_ex2 = ([(0, 8); (1, 16); (2, 17); (3, 18); (5, 22); (14, 24)], Some (-22)) /\
  code_run run_ex3 = model_run run_ex3 /\ model_run run_ex3 = ([(1, 12); (30, 14)], Some (-2)) /\
  code_run run_ex4 = model_run run_ex4 /\ model_run run_ex4 = ([(1, 8)], Some (-2)) /\
  code_run run_ex5 = ([], Some (-22)) /\ code_run run_ex6 = ([], Some (-22)) /\ code_run run_ex7 = ([], Some (-22)).
Proof. vm_compute. repeat split. Qed.

(* ---------------- c09_code_rtnext_field_pass: its hypotheses are satisfiable ---------------- *)
From Coq Require Import Bool Lia.
From LW Require Import Base.Sweep Base.CGoto Gen.Rtap Proofs.CodeRadiotapGen Proofs.SitesRadiotapIter Proofs.CodeRadiotapNextHit.
Local Open Scope Z_scope.
(* the hypotheses of c09_code_rtnext_field_pass hold in a concrete state: the memory of the in-kernel runs (header run_ex2, radiotap_ns
   at 8192, its table at 12288), the iterator in front of field 3 (CHANNEL, alignment 2) at the odd offset 17 *)
Definition ex_field_env : env :=
  env_of [("iterator->_arg_index", 3); ("iterator->_bitmap_shifter", 0x80805); ("iterator->_arg", HDR + 17);
          ("iterator->_rtheader", HDR); ("iterator->_max_length", 32); ("iterator->current_namespace", NS);
          ("iterator->_next_ns_data", 0)].
Example c09_code_rtnext_field_pass_hypotheses :
  let m := mem_for run_ex2 in let rho := ex_field_env in
  rho "iterator->_arg_index" = 3 /\ rho "iterator->_bitmap_shifter" = 0x80805 /\ rho "iterator->_arg" = HDR + 17 /\
  rho "iterator->_rtheader" = HDR /\ rho "iterator->_max_length" = 32 /\ rho "iterator->current_namespace" = NS /\
  0 <= 3 < rtap_n_bits /\ Z.odd 0x80805 = true /\ HDR + 17 + 32 < 2 ^ 62 /\ 0 < NS < 2 ^ 62 /\
  load_le m (NS + 8) 4 = Some rtap_n_bits /\ load_le m NS 8 = Some TB /\
  table_at m TB (fun k => fst (table_entry k)) (fun k => snd (table_entry k)) /\
  table_entry 3 = (2, 4) /\ aligned 17 2 = 18 /\ (32 <? 18 + 4) = false.
Proof.
  cbv zeta. repeat split; try reflexivity; try (vm_compute; reflexivity); try lia.
  intros k Hk.
  assert (H : forallb (fun k => match mem_for run_ex2 (TB + k) with
                                | Some v => v =? fst (table_entry k) + 16 * snd (table_entry k) | None => false end)
                      (zrange 0 23) = true) by (vm_compute; reflexivity).
  pose proof (forallb_zrange _ 0 23 H k Hk) as B. cbv beta in B.
  destruct (mem_for run_ex2 (TB + k)) as [v | ]; [ | discriminate]. apply Z.eqb_eq in B. rewrite B. reflexivity.
Qed.
