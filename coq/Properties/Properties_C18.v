(* C18 - capability tests select the IEEE-assigned capability bit.  Statements only. *)
From Coq Require Import List ZArith String.
From LW Require Import Base.Tok Gen.Consts Gen.Macros Spec.CapSpec Model.Macro Proofs.MacroProofs.
Import ListNotations.
Local Open Scope Z_scope.

(* variables a, b, c of the argument expression; every other identifier is an enumerator of the library *)
Definition env_of (a b c : Z) (s : string) : option Z :=
  if String.eqb s "a" then Some a else if String.eqb s "b" then Some b else if String.eqb s "c" then Some c
  else lookup_enum s.

(* for every published capability name, every argument shape and ALL operand values: the macro, expanded
   token by token exactly as the preprocessor does and parsed with C's precedence rules, is non-zero
   exactly when the IEEE-assigned bit is set in the value the argument expression denotes.
   (The capability field is 16 bits wide: the test looks at the low 16 bits of the argument, as the
   uint16_t field it is applied to holds them.) *)
Theorem c18_shapes : forall name bit sh a b c,
  In (name, bit) ieee_cap_bits -> In sh shapes ->
  0 <= a < 65536 -> 0 <= b < 65536 -> 0 <= c < 65536 ->
  exists v, check_cap_eval (sh_toks sh) name (env_of a b c) = Some v /\
            (v <> 0 <-> Z.testbit (sh_sem sh a b c) bit = true).
Proof. exact shapes_ok. Qed.
Print Assumptions c18_shapes.

(* the published enumerators are the IEEE bit numbers, and no two capabilities test the same bit *)
Theorem c18_values : forall name bit, In (name, bit) ieee_cap_bits -> lookup_enum name = Some bit.
Proof. exact cap_values. Qed.
Print Assumptions c18_values.

Theorem c18_distinct : NoDup (map snd enum_libwifi_capabilities) /\
  List.length enum_libwifi_capabilities = List.length ieee_cap_bits.
Proof. exact cap_distinct. Qed.
Print Assumptions c18_distinct.
