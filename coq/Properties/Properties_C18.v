(* C18 - capability tests select the IEEE-assigned capability bit.  Statements only. *)
From Coq Require Import List ZArith String.
From LW Require Import Base.Tok Gen.Consts Gen.Macros Spec.CapSpec Spec.CapGeneralSpec Model.Macro
  Proofs.MacroProofs Proofs.MacroGeneral.
Import ListNotations.
Local Open Scope Z_scope.

(* variables a, b, c of the argument expression; every other identifier is an enumerator of the library *)
Definition env_of (a b c : Z) (s : string) : option Z :=
  if String.eqb s "a" then Some a else if String.eqb s "b" then Some b else if String.eqb s "c" then Some c
  else lookup_enum s.

(* for every published capability name, every argument shape and ALL operand values: the macro, expanded
   token by token exactly as the preprocessor does and parsed with C's precedence rules, is non-zero
   exactly when the IEEE-assigned bit is set in the value the argument expression denotes.
   (The capability field is 16 bits wide: the test looks at the low 16 bits of the argument, as the
   uint16_t field it is applied to holds them.) *)
Theorem c18_shapes : forall name bit sh a b c,
  In (name, bit) ieee_cap_bits -> In sh shapes ->
  0 <= a < 65536 -> 0 <= b < 65536 -> 0 <= c < 65536 ->
  exists v, check_cap_eval (sh_toks sh) name (env_of a b c) = Some v /\
            (v <> 0 <-> Z.testbit (sh_sem sh a b c) bit = true).
Proof. exact shapes_ok. Qed.
Print Assumptions c18_shapes.

(* the published enumerators are the IEEE bit numbers, and no two capabilities test the same bit *)
Theorem c18_values : forall name bit, In (name, bit) ieee_cap_bits -> lookup_enum name = Some bit.
Proof. exact cap_values. Qed.
Print Assumptions c18_values.

Theorem c18_distinct : NoDup (map snd enum_libwifi_capabilities) /\
  List.length enum_libwifi_capabilities = List.length ieee_cap_bits.
Proof. exact cap_distinct. Qed.
Print Assumptions c18_distinct.

(* HOWEVER THE ARGUMENT EXPRESSION IS WRITTEN: for every published capability name and EVERY argument -
   any token list [arg] that is one expression of the modelled C grammar ([parse_expr arg = Some e]: all
   of C's unary, binary and conditional operators, parentheses, identifiers, literals) and mentions no
   macro of the library ([arg_ok]) - in every environment in which the capability names denote their
   IEEE bits and the argument has a value [v]: the macro invocation, expanded token by token and parsed
   with C's precedence rules, has a value, and it is non-zero exactly when the IEEE-assigned bit is set
   in [v].  ([v] ranges over all integers: no 16-bit assumption is needed here.) *)
Theorem c18_any_expression : forall name bit arg e env v,
  In (name, bit) ieee_cap_bits ->
  arg_ok arg -> parse_expr arg = Some e ->
  (forall s b, In (s, b) ieee_cap_bits -> env s = Some b) ->
  eval env e = Some v ->
  exists r, check_cap_eval arg name env = Some r /\ (r <> 0 <-> Z.testbit v bit = true).
Proof. exact any_expression_ok. Qed.
Print Assumptions c18_any_expression.

(* ... in particular with operand variables a, b, c and the header's enumerators, as in [c18_shapes] *)
Theorem c18_any_expression_env_of : forall name bit arg e a b c v,
  In (name, bit) ieee_cap_bits ->
  arg_ok arg -> parse_expr arg = Some e ->
  eval (env_of a b c) e = Some v ->
  exists r, check_cap_eval arg name (env_of a b c) = Some r /\ (r <> 0 <-> Z.testbit v bit = true).
Proof. exact any_expression_env_of. Qed.
Print Assumptions c18_any_expression_env_of.

(* the hypotheses are satisfiable by a non-trivial argument, [c ? a | 256 : ( b ^ a ) << 1] *)
Theorem c18_any_expression_example : arg_ok example_arg /\ exists e v,
  parse_expr example_arg = Some e /\ eval (env_of 4660 22136 0) e = Some v.
Proof. exact example_satisfiable. Qed.
Print Assumptions c18_any_expression_example.

(* the fuel of [parse_expr] is never the reason for a rejection *)
Theorem c18_parse_fuel : forall f ts e, parse_cond f ts = Some (e, []) -> parse_expr ts = Some e.
Proof. exact parse_expr_fuel_complete. Qed.
Print Assumptions c18_parse_fuel.
