(* C06 - non-vacuity witnesses and worked instances for Properties_C06.v.
   Covered:  c06_sound         (nonvacuous + instance: the second reported element of a 3-element buffer with a
                                stray trailing byte),
             c06_first_refused (nonvacuous + instance, both disjuncts: a first element that claims 5 body bytes
                                where 2 remain, and a 1-byte buffer; each with a strict and with a
                                garbage-returning read oracle).
   Theorems whose only hypotheses are wfbytes / agrees (instance only):
             c06_iterate_exact (two oracles), c06_order, c06_elements_maximal, c06_complete (a buffer with an empty
                                non-leading element: it and the element behind it are reported),
                                c06_report_bound.
             c06_reports_all   (nonvacuous + instance: that same buffer on the C loop, two oracles; and the
                                hypothesis elements <> [] separates).
   Skipped:  none. *)
From Coq Require Import ZArith Lia List.
From LW Require Import Base.Bytes Model.TagIter Spec.TagSpec Properties.Properties_C06.
Local Open Scope Z_scope.

(* SSID "home", DS parameter (channel 6), vendor element with two body bytes, one stray trailing byte *)
Definition buf3 : list byte := [0; 4; 104; 111; 109; 101;  3; 1; 6;  221; 2; 1; 2;  7].
Definition e1 : elem := {| e_off := 0; e_num := 0; e_len := 4 |}.
Definition e2 : elem := {| e_off := 6; e_num := 3; e_len := 1 |}.
Definition e3 : elem := {| e_off := 9; e_num := 221; e_len := 2 |}.
(* an empty element (number 5) between two ordinary ones *)
Definition bufc : list byte := [0; 1; 65;  5; 0;  3; 1; 6].
(* first element claims 5 body bytes, only 2 are there *)
Definition bufs : list byte := [0; 5; 1; 2].
(* what lies behind the buffer when the oracle does not fault: an all-255 memory *)
Definition junk : Z -> byte := fun _ => 255.

Lemma wf_buf3 : wfbytes buf3. Proof. apply wfbytesb_spec. vm_compute. reflexivity. Qed.
Lemma wf_bufc : wfbytes bufc. Proof. apply wfbytesb_spec. vm_compute. reflexivity. Qed.
Lemma wf_bufs : wfbytes bufs. Proof. apply wfbytesb_spec. vm_compute. reflexivity. Qed.

(* ---------- c06_iterate_exact ---------- *)
Example c06_iterate_exact_instance :
  iterate (rd_strict buf3) (zlen buf3) = Done (Ok [e1; e2; e3]) /\
  iterate (rd_env buf3 junk) (zlen buf3) = Done (Ok [e1; e2; e3]).
Proof.
  rewrite (c06_iterate_exact buf3 (rd_strict buf3) wf_buf3 (agrees_strict buf3)).
  rewrite (c06_iterate_exact buf3 (rd_env buf3 junk) wf_buf3 (agrees_env buf3 junk)).
  split; vm_compute; reflexivity.
Qed.
(* the buffer with an empty element in the middle: the model goes on past it exactly as the spec says (F44) *)
Definition ec1 : elem := {| e_off := 0; e_num := 0; e_len := 1 |}.
Definition ec2 : elem := {| e_off := 3; e_num := 5; e_len := 0 |}.
Definition ec3 : elem := {| e_off := 5; e_num := 3; e_len := 1 |}.
Example c06_iterate_exact_instance_empty :
  iterate (rd_strict bufc) (zlen bufc) = Done (Ok [ec1; ec2; ec3]).
Proof.
  rewrite (c06_iterate_exact bufc (rd_strict bufc) wf_bufc (agrees_strict bufc)). vm_compute. reflexivity.
Qed.

(* ---------- c06_sound ---------- *)
Example c06_sound_nonvacuous : wfbytes buf3 /\ In e2 (reported buf3).
Proof. split; [exact wf_buf3 |]. vm_compute. right. left. reflexivity. Qed.

Example c06_sound_instance :
  0 <= 6 /\ 6 + 2 + 1 <= 14 /\ 3 = znth buf3 6 /\ 1 = znth buf3 (6 + 1).
Proof.
  destruct c06_sound_nonvacuous as [A B]. exact (c06_sound buf3 e2 A B).
Qed.
(* the stray byte 7 and the body bytes are not reported as elements *)
Example c06_sound_reported : reported buf3 = [e1; e2; e3].
Proof. vm_compute. reflexivity. Qed.

(* ---------- c06_order ---------- *)
Example c06_order_instance :
  e_off e1 = 0 /\ e_off e2 = 0 + 2 + e_len e1 /\ e_off e3 = 0 + 2 + e_len e1 + 2 + e_len e2 /\ True.
Proof.
  pose proof (c06_order buf3 wf_buf3) as H. rewrite c06_sound_reported in H. exact H.
Qed.

(* ---------- c06_elements_maximal ---------- *)
(* buf3: the chain stops at offset 13, where fewer than 2 bytes (the stray one) remain *)
Example c06_elements_maximal_instance :
  elements buf3 = [e1; e2; e3] /\
  contiguous 0 [e1; e2; e3] /\ Forall (genuine buf3) [e1; e2; e3] /\ (14 - 13 < 2 \/ 14 - 13 - 2 < znth buf3 (13 + 1)).
Proof.
  assert (E : elements buf3 = [e1; e2; e3]) by (vm_compute; reflexivity).
  split; [exact E |].
  pose proof (c06_elements_maximal buf3 wf_buf3) as H. rewrite E in H. exact H.
Qed.
(* bufs: no element at all fits; stop = 0 and the second disjunct holds (4 - 0 - 2 < 5) *)
Example c06_elements_maximal_instance_short :
  elements bufs = [] /\ (4 - 0 < 2 \/ 4 - 0 - 2 < znth bufs (0 + 1)) /\ ~ (4 - 0 < 2).
Proof.
  assert (E : elements bufs = []) by (vm_compute; reflexivity).
  split; [exact E |].
  pose proof (c06_elements_maximal bufs wf_bufs) as [_ [_ H]]. rewrite E in H. split; [exact H | lia].
Qed.

(* ---------- c06_complete ---------- *)
(* the empty element 5 and the DS element behind it are reported: nothing of the chain is withheld *)
Example c06_complete_instance : reported bufc = [ec1; ec2; ec3].
Proof.
  rewrite (c06_complete bufc). vm_compute. reflexivity.
Qed.
(* and the buffer with the stray byte *)
Example c06_complete_instance_full : reported buf3 = [e1; e2; e3].
Proof. rewrite (c06_complete buf3). vm_compute. reflexivity. Qed.
(* several empty elements in a row, the last one ending the buffer: all reported *)
Example c06_complete_instance_empties :
  reported [7; 0; 8; 0; 9; 0] =
    [{| e_off := 0; e_num := 7; e_len := 0 |}; {| e_off := 2; e_num := 8; e_len := 0 |};
     {| e_off := 4; e_num := 9; e_len := 0 |}].
Proof. rewrite c06_complete. vm_compute. reflexivity. Qed.

(* ---------- c06_reports_all ---------- *)
Example c06_reports_all_nonvacuous :
  wfbytes bufc /\ agrees (rd_strict bufc) bufc /\ agrees (rd_env bufc junk) bufc /\ elements bufc <> [].
Proof.
  split; [exact wf_bufc |]. split; [apply agrees_strict |]. split; [apply agrees_env |].
  vm_compute. discriminate.
Qed.
Example c06_reports_all_instance :
  iterate (rd_strict bufc) 8 = Done (Ok [ec1; ec2; ec3]) /\
  iterate (rd_env bufc junk) 8 = Done (Ok [ec1; ec2; ec3]).
Proof.
  destruct c06_reports_all_nonvacuous as [A [B [C D]]].
  assert (E : elements bufc = [ec1; ec2; ec3]) by (vm_compute; reflexivity).
  rewrite <- E. split.
  - exact (c06_reports_all bufc (rd_strict bufc) A B D).
  - exact (c06_reports_all bufc (rd_env bufc junk) A C D).
Qed.
(* the hypothesis separates: bufs has no fitting first element, and the loop refuses it instead *)
Example c06_reports_all_hyp_separates :
  elements bufs = [] /\ iterate (rd_strict bufs) (zlen bufs) <> Done (Ok (elements bufs)).
Proof.
  split; [vm_compute; reflexivity |].
  rewrite (c06_iterate_exact bufs (rd_strict bufs) wf_bufs (agrees_strict bufs)). vm_compute. discriminate.
Qed.

(* ---------- c06_first_refused ---------- *)
(* second disjunct: the buffer has a header but the body does not fit *)
Example c06_first_refused_nonvacuous :
  wfbytes bufs /\ agrees (rd_strict bufs) bufs /\ (zlen bufs < 2 \/ zlen bufs - 2 < znth bufs 1) /\
  ~ zlen bufs < 2.
Proof.
  split; [exact wf_bufs |]. split; [apply agrees_strict |]. vm_compute.
  split; [right; reflexivity | discriminate].
Qed.
Example c06_first_refused_instance :
  iterate (rd_strict bufs) 4 = Done (Err (-22)) /\ iterate (rd_env bufs junk) 4 = Done (Err (-22)).
Proof.
  destruct c06_first_refused_nonvacuous as [A [B [C _]]].
  split.
  - exact (c06_first_refused bufs (rd_strict bufs) A B C).
  - exact (c06_first_refused bufs (rd_env bufs junk) A (agrees_env bufs junk) C).
Qed.
(* first disjunct: not even a header (the strict oracle would fault on the length octet: it is never read) *)
Example c06_first_refused_nonvacuous_tiny :
  wfbytes [221] /\ agrees (rd_strict [221]) [221] /\ (zlen [221] < 2 \/ zlen [221] - 2 < znth [221] 1).
Proof.
  split; [apply wfbytesb_spec; vm_compute; reflexivity |]. split; [apply agrees_strict |].
  left. vm_compute. reflexivity.
Qed.
Example c06_first_refused_instance_tiny : iterate (rd_strict [221]) 1 = Done (Err (-22)).
Proof.
  destruct c06_first_refused_nonvacuous_tiny as [A [B C]].
  exact (c06_first_refused [221] (rd_strict [221]) A B C).
Qed.
(* the hypothesis separates: buf3 satisfies neither disjunct (and is not refused, see c06_iterate_exact_instance) *)
Example c06_first_refused_hyp_separates : ~ (zlen buf3 < 2 \/ zlen buf3 - 2 < znth buf3 1).
Proof. vm_compute. intros [H | H]; discriminate H. Qed.

(* ---------- c06_report_bound ---------- *)
Example c06_report_bound_instance : 2 * 3 <= 14.
Proof.
  pose proof (c06_report_bound buf3 wf_buf3) as H. rewrite c06_sound_reported in H. exact H.
Qed.
(* the bound is attained by empty elements only *)
Example c06_report_bound_tight : 2 * zlen (reported [9; 0]) = zlen [9; 0].
Proof. vm_compute. reflexivity. Qed.
Example c06_report_bound_tight3 : 2 * zlen (reported [7; 0; 8; 0; 9; 0]) = zlen [7; 0; 8; 0; 9; 0].
Proof. vm_compute. reflexivity. Qed.

(* ---- the translated iterator on a concrete buffer: SSID "abc", DS 6, placed at address 4096 ---- *)
From Coq Require Import String.
From LW Require Import Base.CExpr Gen.Sites Spec.CodeSpec.
Local Open Scope string_scope.
Local Open Scope Z_scope.
Definition code_buf : list byte := [0; 3; 97; 98; 99; 3; 1; 6].
Example c06_code_init_refines_model_nonvacuous :
  wfbytes code_buf /\ 0 <= 4096 /\ 4096 + zlen code_buf < 2 ^ 62 /\
  observe (exec 30 (mem_at 4096 code_buf) (upd (upd (fun _ => 0) "tags_start" 4096) "data_len" (zlen code_buf)) []
                body_libwifi_tag_iterator_init) = Some (Some 0, []).
Proof. split; [apply wfbytesb_spec; vm_compute; reflexivity | ]. repeat split; vm_compute; congruence || reflexivity. Qed.
(* the second element is reported (its number, 3, is returned), a buffer cut inside it ends the iteration with -1 *)
Example c06_code_next_refines_model_instance :
  let it := {| it_hdr := 0; it_data := 2; it_next := 5; it_end := 7 |} in
  observe (exec 30 (mem_at 4096 code_buf) (it_env (fun _ => 0) 4096 it) [] body_libwifi_tag_iterator_next) = Some (Some 3, []) /\
  observe (exec 30 (mem_at 4096 (firstn 7 code_buf)) (it_env (fun _ => 0) 4096 {| it_hdr := 0; it_data := 2; it_next := 5; it_end := 6 |}) []
                body_libwifi_tag_iterator_next) = Some (Some (-1), []).
Proof. split; vm_compute; reflexivity. Qed.
(* reading one byte beyond the buffer makes the translated code stuck: with the last byte not readable the same call gets no answer *)
Example c06_code_stuck_outside :
  observe (exec 30 (mem_at 4096 (firstn 6 code_buf)) (it_env (fun _ => 0) 4096 {| it_hdr := 0; it_data := 2; it_next := 5; it_end := 7 |}) []
                body_libwifi_tag_iterator_next) = None.
Proof. vm_compute. reflexivity. Qed.
