(* C20 - non-vacuity witnesses and worked instances for Properties_C20.v.
   Covered:  c20_defined  (nonvacuous + instance),
             c20_monotone (nonvacuous + instance; two witness pairs: readings around a second boundary,
                           and two readings inside the same microsecond),
             c20_unit     (instance: the unit k is 1000 ns, shown on a reading; its inner hypothesis is
                           reading_ok again).
   Skipped:  none. *)
From Coq Require Import ZArith Lia.
From LW Require Import Model.Epoch Properties.Properties_C20.
Local Open Scope Z_scope.

(* two readings of CLOCK_REALTIME around a second boundary (2026-10-01, 1 ns before / 1500 ns after) *)
Definition s1 := 1790812799. Definition n1 := 999999999.
Definition s2 := 1790812800. Definition n2 := 1500.
(* two readings inside the same microsecond *)
Definition n3 := 1501. Definition n4 := 1999.

Example c20_defined_nonvacuous : reading_ok s1 n1.
Proof. unfold reading_ok, s1, n1. lia. Qed.

Example c20_defined_instance : epoch s1 n1 = Some 1790812799999999 /\ 0 <= 1790812799999999 < 2 ^ 63.
Proof.
  destruct (c20_defined s1 n1 c20_defined_nonvacuous) as [v [Hv Hr]].
  vm_compute in Hv. injection Hv as <-. split; [reflexivity | exact Hr].
Qed.

Example c20_monotone_nonvacuous :
  reading_ok s1 n1 /\ reading_ok s2 n2 /\ reading_le s1 n1 s2 n2 /\
  epoch s1 n1 = Some 1790812799999999 /\ epoch s2 n2 = Some 1790812800000001.
Proof.
  unfold reading_ok, reading_le, s1, n1, s2, n2.
  repeat split; try lia; vm_compute; reflexivity.
Qed.

Example c20_monotone_instance : 1790812799999999 <= 1790812800000001.
Proof.
  destruct c20_monotone_nonvacuous as [A [B [C [D E]]]].
  exact (c20_monotone s1 n1 s2 n2 _ _ A B C D E).
Qed.

(* (in the first witness the later reading has the SMALLER nanosecond part: only the seconds order them.)
   Second witness: the pair (n3, n4) falls in one microsecond: the two stamps are equal, which "<=" allows *)
Example c20_monotone_nonvacuous_same_us :
  reading_ok s2 n3 /\ reading_ok s2 n4 /\ reading_le s2 n3 s2 n4 /\
  epoch s2 n3 = Some 1790812800000001 /\ epoch s2 n4 = Some 1790812800000001.
Proof.
  unfold reading_ok, reading_le, s2, n3, n4.
  repeat split; try lia; vm_compute; reflexivity.
Qed.

(* the hypothesis reading_le really separates: the swapped pair does not satisfy it *)
Example c20_monotone_order_matters : ~ reading_le s2 n2 s1 n1.
Proof. unfold reading_le, s1, n1, s2, n2. lia. Qed.

(* c20_unit: whatever k the theorem provides, it reproduces the computed stamp on our reading;
   together with the computed value this pins (s*10^9+n)/k = microseconds *)
Example c20_unit_instance : exists k, 0 < k /\ (s1 * 10 ^ 9 + n1) / k = 1790812799999999.
Proof.
  destruct c20_unit as [k [Hk H]]. exists k. split; [exact Hk|].
  specialize (H s1 n1 c20_defined_nonvacuous).
  destruct c20_defined_instance as [E _]. rewrite E in H. injection H as H. symmetry. exact H.
Qed.
