(* C05 - tagged-parameter lists stay well-formed under any edit history.
   Statements only; proofs in Proofs/TagsProofs.v. *)
From LW Require Import Base.Bytes Model.TagIter Spec.TagSpec Model.Tags Gen.Consts Gen.Layout Proofs.TagsProofs.
Local Open Scope Z_scope.

(* the stored bytes are a well-formed element sequence and the recorded length is the byte count *)
Definition Inv (s : tags) : Prop :=
  exists l, wf_tags l /\ t_bytes s = enc l /\ t_len s = zlen (t_bytes s).
Definition wf_op (o : tag_op) : Prop :=
  match o with
  | OpAdd n b => wf_tag (n, b)
  | OpSetSsid b => wf_tag (c_TAG_SSID, b)
  | OpSetChannel c => 0 <= c < 256
  | OpRemove _ | OpCheck _ => True
  end.

(* every reachable state, histories of any length: no fault, no fuel exhaustion, invariant kept *)
Theorem c05_inv : forall ops s, Inv s -> Forall wf_op ops -> exists s', run s ops = Done s' /\ Inv s'.
Proof. exact run_inv. Qed.
Print Assumptions c05_inv.

Theorem c05_inv_init : Inv tags_empty.
Proof. exact inv_empty. Qed.
Print Assumptions c05_inv_init.

(* each operation does exactly what the reference list does: same return value, stored bytes = encoding of the
   new list.  spec_step is total (adding, removing, setting and counting are defined on every list, the empty one
   and those holding empty elements included - findings F44 and F50), so this constrains EVERY step ... *)
Theorem c05_step_refines : forall s l o l' r,
  wf_tags l -> t_bytes s = enc l -> t_len s = zlen (enc l) -> wf_op o ->
  spec_step c_TAG_SSID c_TAG_DS_PARAMETER l o = Some (l', r) ->
  exists s', step s o = Done (s', r) /\ t_bytes s' = enc l' /\ t_len s' = zlen (enc l').
Proof. exact step_refines. Qed.
Print Assumptions c05_step_refines.

(* ... which the next two statements make explicit: the reference step is never None, and every step of the C
   functions on every well-formed list is the reference step (no escape) *)
Theorem c05_spec_total : forall l o, exists l' r, spec_step c_TAG_SSID c_TAG_DS_PARAMETER l o = Some (l', r).
Proof. exact spec_step_total. Qed.
Print Assumptions c05_spec_total.

Theorem c05_step_refines_total : forall s l o,
  wf_tags l -> t_bytes s = enc l -> t_len s = zlen (enc l) -> wf_op o ->
  exists s' l' r, spec_step c_TAG_SSID c_TAG_DS_PARAMETER l o = Some (l', r) /\
    step s o = Done (s', r) /\ wf_tags l' /\ t_bytes s' = enc l' /\ t_len s' = zlen (enc l').
Proof. exact step_refines_total. Qed.
Print Assumptions c05_step_refines_total.

(* the encoding determines the list: 'bytes = enc l' pins down every element, so nothing else changed *)
Theorem c05_enc_injective : forall l1 l2, wf_tags l1 -> wf_tags l2 -> enc l1 = enc l2 -> l1 = l2.
Proof. exact enc_inj. Qed.
Print Assumptions c05_enc_injective.

(* the models keep the recorded length in Z.  That is faithful only while the C field that holds it cannot wrap: it is
   as wide as the host's size_t (the widths are re-read from the compiled headers on every run) *)
Theorem c05_length_field_wide :
  fsz_libwifi_tagged_parameters__length = host_sizeof_size_t /\ 8 <= host_sizeof_size_t.
Proof. split; [reflexivity | vm_compute; discriminate]. Qed.
Print Assumptions c05_length_field_wide.
