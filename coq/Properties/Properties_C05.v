(* C05 - tagged-parameter lists stay well-formed under any edit history.
   Statements only; proofs in Proofs/TagsProofs.v. *)
From LW Require Import Base.Bytes Model.TagIter Spec.TagSpec Model.Tags Gen.Consts Gen.Layout Proofs.TagsProofs.
Local Open Scope Z_scope.

(* the stored bytes are a well-formed element sequence and the recorded length is the byte count *)
Definition Inv (s : tags) : Prop :=
  exists l, wf_tags l /\ t_bytes s = enc l /\ t_len s = zlen (t_bytes s).
Definition wf_op (o : tag_op) : Prop :=
  match o with
  | OpAdd n b => wf_tag (n, b)
  | OpSetSsid b => wf_tag (c_TAG_SSID, b)
  | OpSetChannel c => 0 <= c < 256
  | OpRemove _ | OpCheck _ => True
  end.

(* every reachable state, histories of any length: no fault, no fuel exhaustion, invariant kept *)
Theorem c05_inv : forall ops s, Inv s -> Forall wf_op ops -> exists s', run s ops = Done s' /\ Inv s'.
Proof. exact run_inv. Qed.
Print Assumptions c05_inv.

Theorem c05_inv_init : Inv tags_empty.
Proof. exact inv_empty. Qed.
Print Assumptions c05_inv_init.

(* each operation does exactly what the reference list does: same return value, stored bytes = encoding of the
   new list.  spec_step is total (adding, removing, setting and counting are defined on every list, the empty one
   and those holding empty elements included - findings F44 and F50), so this constrains EVERY step ... *)
Theorem c05_step_refines : forall s l o l' r,
  wf_tags l -> t_bytes s = enc l -> t_len s = zlen (enc l) -> wf_op o ->
  spec_step c_TAG_SSID c_TAG_DS_PARAMETER l o = Some (l', r) ->
  exists s', step s o = Done (s', r) /\ t_bytes s' = enc l' /\ t_len s' = zlen (enc l').
Proof. exact step_refines. Qed.
Print Assumptions c05_step_refines.

(* ... which the next two statements make explicit: the reference step is never None, and every step of the C
   functions on every well-formed list is the reference step (no escape) *)
Theorem c05_spec_total : forall l o, exists l' r, spec_step c_TAG_SSID c_TAG_DS_PARAMETER l o = Some (l', r).
Proof. exact spec_step_total. Qed.
Print Assumptions c05_spec_total.

Theorem c05_step_refines_total : forall s l o,
  wf_tags l -> t_bytes s = enc l -> t_len s = zlen (enc l) -> wf_op o ->
  exists s' l' r, spec_step c_TAG_SSID c_TAG_DS_PARAMETER l o = Some (l', r) /\
    step s o = Done (s', r) /\ wf_tags l' /\ t_bytes s' = enc l' /\ t_len s' = zlen (enc l').
Proof. exact step_refines_total. Qed.
Print Assumptions c05_step_refines_total.

(* the encoding determines the list: 'bytes = enc l' pins down every element, so nothing else changed *)
Theorem c05_enc_injective : forall l1 l2, wf_tags l1 -> wf_tags l2 -> enc l1 = enc l2 -> l1 = l2.
Proof. exact enc_inj. Qed.
Print Assumptions c05_enc_injective.

(* the models keep the recorded length in Z.  That is faithful only while the C field that holds it cannot wrap: it is
   as wide as the host's size_t (the widths are re-read from the compiled headers on every run) *)
Theorem c05_length_field_wide :
  fsz_libwifi_tagged_parameters__length = host_sizeof_size_t /\ 8 <= host_sizeof_size_t.
Proof. split; [reflexivity | vm_compute; discriminate]. Qed.
Print Assumptions c05_length_field_wide.

(* ---- statements about the C code AS TRANSLATED on this run (Gen/Sites.v: every guard, declaration, conversion and call argument with the
   types clang computed; tools/sites.py), for every memory m and every environment: tie #1 extended from constants to arithmetic and
   control flow.  Vocabulary in Spec/CodeSpec.v, evaluator and interpreter in Base/CExpr.v, proofs in Proofs/SitesTags.v. ---- *)
From Coq Require Import String.
From LW Require Import Base.CExpr Gen.Sites Spec.CodeSpec Proofs.SitesTags.
Local Open Scope string_scope.
Local Open Scope Z_scope.

(* len = tags->length, tl = tag->header.tag_len, p = tags->parameters, q = what the allocator answers. *)
Theorem c05_code_add_tag : forall m rho len tl p q,
  0 <= len < 2 ^ 62 -> 0 <= tl < 256 -> 0 < p -> p + len + 257 < 2 ^ 63 ->
  (if (len =? 0)%Z then rho "ret:malloc" else rho "ret:realloc") = q ->
  0 <= q -> q + len + 257 < 2 ^ 63 ->
  let rho0 := upd (upd (upd rho "tags->length" len) "tag->header.tag_len" tl) "tags->parameters" p in
  let alloc := if (len =? 0)%Z then ("malloc", [2 + tl]) else ("realloc", [p; len + 2 + tl]) in
  if (q =? 0)%Z then observe (exec 40 m rho0 [] body_libwifi_add_tag) = Some (Some (-12), [alloc])
  else exists rho',
    exec 40 m rho0 [] body_libwifi_add_tag =
      Returned (Some 0) rho'
        [alloc; ("memcpy", [q + len; wrap u64 (rho "&tag->header"); 2]);
                ("memcpy", [q + len + 2; wrap u64 (rho "tag->body"); tl])] /\
    rho' "tags->length" = len + 2 + tl.
Proof. exact code_add_tag. Qed.
Print Assumptions c05_code_add_tag.

(* libwifi_create_tag: the object is zeroed, number and length are stored through the one-octet conversions the C code makes (a number
   or a length beyond 255 is silently reduced modulo 256 - stated here as what the code does, the properties quantify up to 255), one
   allocation of tag_length bytes, -ENOMEM (as a size_t) on NULL, else the body block is cleared and filled and 2 + tag_length returned *)
Theorem c05_code_create_tag : forall m rho num tl q,
  - 2 ^ 31 <= num < 2 ^ 31 -> 0 <= tl < 2 ^ 63 -> rho "ret:malloc" = q -> 0 <= q < 2 ^ 63 ->
  let rho0 := upd (upd rho "tag_number" num) "tag_length" tl in
  let pre := [("memset", [wrap u64 (rho "tagged_parameter"); 0; 10]); ("malloc", [tl])] in
  if (q =? 0)%Z then observe (exec 40 m rho0 [] body_libwifi_create_tag) = Some (Some (2 ^ 64 - 12), pre)
  else exists rho',
    exec 40 m rho0 [] body_libwifi_create_tag =
      Returned (Some (2 + tl)) rho'
        (pre ++ [("memset", [q; 0; tl]); ("memcpy", [q; wrap u64 (rho "tag_data"); tl])]) /\
    rho' "tagged_parameter->header.tag_len" = tl mod 256 /\ rho' "tagged_parameter->header.tag_num" = num mod 256 /\
    rho' "tagged_parameter->body" = q.
Proof. exact code_create_tag. Qed.
Print Assumptions c05_code_create_tag.

(* libwifi_quick_add_tag: c is what libwifi_create_tag answers (a size_t), r what libwifi_add_tag answers.  The answer of create_tag is
   narrowed to int; not positive: it is returned and nothing else is called; otherwise add_tag's answer is returned AFTER the temporary
   element has been released, whether add_tag succeeded or not *)
Theorem c05_code_quick_add_tag : forall m rho c r,
  rho "ret:libwifi_create_tag" = c -> 0 <= c < 2 ^ 64 -> rho "ret:libwifi_add_tag" = r -> - 2 ^ 31 <= r < 2 ^ 31 ->
  let ci := wrap s32 c in
  exists a1 a2 a3,
  observe (exec 40 m rho [] body_libwifi_quick_add_tag) =
    (if ci <=? 0 then Some (Some ci, [("libwifi_create_tag", a1)])
     else Some (Some r, [("libwifi_create_tag", a1); ("libwifi_add_tag", a2); ("libwifi_free_tag", a3)])).
Proof. exact code_quick_add_tag. Qed.
Print Assumptions c05_code_quick_add_tag.

(* ---- libwifi_check_tag and libwifi_remove_tag AS TRANSLATED, the tag iterator's two routines inlined at their call sites (Gen/Sites.v: SInline), for EVERY byte list placed anywhere
   with only the list readable: the whole do-while walk (induction on the model's walk) never gets stuck and returns what Model/Tags.v returns - the count of elements with that number
   (which cannot overflow the int counter: at most half the length), or for removal: nothing touched when the number is absent, otherwise ONE memmove closing the gap of the FIRST such
   element, then free (list empty) or realloc (a failed shrink keeps the old block and is not an error), the recorded length reduced by the element's size.  walk_of, remove_trace,
   new_params are defined in Proofs/CodeTagEdit.v. ---- *)
From Coq Require Import String.
From LW Require Import Base.Bytes Base.CExpr Gen.Sites Spec.CodeSpec Model.TagIter Model.Tags Proofs.CodeTagEdit.
Local Open Scope string_scope.
Local Open Scope list_scope.
Local Open Scope Z_scope.

Theorem c05_code_check_tag_refines_model : forall buf p n rho F,
  wfbytes buf -> zlen buf < 2 ^ 31 -> 0 < p -> p + zlen buf < 2 ^ 62 -> - 2 ^ 31 <= n < 2 ^ 31 ->
  rho "tags->parameters" = p -> rho "tags->length" = zlen buf -> rho "tag_number" = n ->
  (check_fuel (zlen buf) <= F)%nat ->
  exists v,
    check_tag {| t_len := zlen buf; t_bytes := buf |} n = Done v /\
    v = match walk_of buf with Err _ => -22 | Ok l => zlen (filter (fun e => e_num e =? n) l) end /\
    -22 <= v /\ 2 * v <= zlen buf /\
    observe (exec F (mem_at p buf) rho [] body_libwifi_check_tag) = Some (Some v, []).
Proof. exact code_check_tag_refines_model. Qed.
Print Assumptions c05_code_check_tag_refines_model.

Theorem c05_code_remove_tag_refines_model : forall buf p n rho F,
  wfbytes buf -> 0 < p -> p + zlen buf < 2 ^ 62 -> - 2 ^ 31 <= n < 2 ^ 31 ->
  rho "tags->parameters" = p -> rho "tags->length" = zlen buf -> rho "tag_number" = n ->
  (remove_fuel (zlen buf) <= F)%nat ->
  let s := {| t_len := zlen buf; t_bytes := buf |} in
  let run := exec F (mem_at p buf) rho [] body_libwifi_remove_tag in
  let ans := wrap u64 (rho "ret:realloc") in
  match walk_of buf with
  | Err _ =>
      remove_tag s n = Done (s, -22) /\
      exists rho', run = Returned (Some (-22)) rho' [] /\ rho' "tags->length" = zlen buf /\ rho' "tags->parameters" = p
  | Ok l =>
      match find_num n l with
      | None =>
          remove_tag s n = Done (s, 0) /\
          exists rho', run = Returned (Some 0) rho' [] /\ rho' "tags->length" = zlen buf /\ rho' "tags->parameters" = p
      | Some e =>
          let o := e_off e in let L := e_len e in
          (e_num e = n /\ exists l1 l2, l = l1 ++ e :: l2 /\ Forall (fun x => e_num x <> n) l1) /\
          (0 <= o /\ o + 2 + L <= zlen buf /\ n = znth buf o /\ L = znth buf (o + 1) /\ 0 <= L < 256) /\
          (exists s', remove_tag s n = Done (s', 0) /\ t_len s' = zlen buf - 2 - L /\
                      t_bytes s' = zfirstn o buf ++ slice (o + 2 + L) (zlen buf - o - 2 - L) buf) /\
          exists rho', run = Returned (Some 0) rho' (remove_trace p o L (zlen buf)) /\
                       rho' "tags->length" = zlen buf - 2 - L /\
                       rho' "tags->parameters" = new_params p ans (zlen buf - 2 - L)
      end
  end.
Proof. exact code_remove_tag_refines_model. Qed.
Print Assumptions c05_code_remove_tag_refines_model.

