(* C07 - serialisation never writes outside the caller's buffer.  Statements only. *)
From LW Require Import Base.Bytes Model.Tags Model.Radiotap Model.RadiotapGen Model.Gen Gen.Consts Gen.Layout Proofs.GenProofs.
Local Open Scope Z_scope.

Definition tags_ok (t : tags) : Prop := t_len t = zlen (t_bytes t).

(* every tagged generator object (all eleven dump routines share this shape) and EVERY caller buffer:
   too small -> error and the buffer is untouched; otherwise exactly g_length bytes are written from
   the buffer's first byte, the rest of the buffer is untouched, and no write ever leaves the buffer *)
Theorem c07_dump_object : forall g mem, tags_ok (g_tags g) ->
  g_dump_mem g mem = Done (if zlen mem <? g_length g then (Err (- EINVAL), mem)
                           else (Ok (g_length g), g_hdr g ++ g_fixed g ++ t_bytes (g_tags g) ++ zskipn (g_length g) mem)).
Proof. exact dump_object_ok. Qed.
Print Assumptions c07_dump_object.

Theorem c07_dump_action : forall a mem, a_detail_len a = zlen (a_detail a) -> 
  a_dump_mem a mem = Done (if zlen mem <? a_length a then (Err (- EINVAL), mem)
                           else (Ok (a_length a), a_hdr a ++ [a_category a] ++ a_detail a ++ zskipn (a_length a) mem)).
Proof. exact dump_action_ok. Qed.
Print Assumptions c07_dump_action.

Theorem c07_dump_tag : forall num len body mem, 0 <= len -> len = zlen body ->
  dump_tag_mem num len body mem = Done (if zlen mem <? 2 + len then (Err (- EINVAL), mem)
                                        else (Ok (2 + len), [num; len] ++ body ++ zskipn (2 + len) mem)).
Proof. exact dump_tag_ok. Qed.
Print Assumptions c07_dump_tag.

(* radiotap generation: for ALL 2^32 present words and up to the documented number of antennas the
   staging area is never overrun (Done, not Fault) and the header is at most LIBWIFI_MAX_RADIOTAP_LEN bytes *)
Theorem c07_radiotap_bound : forall present info, 0 <= present < 2 ^ 32 ->
  zlen (i_antennas info) <= c_LIBWIFI_MAX_RADIOTAP_ANTENNAS ->
  exists b, create_radiotap present info = Done b /\ zlen b <= c_LIBWIFI_MAX_RADIOTAP_LEN.
Proof. exact radiotap_bound. Qed.
Print Assumptions c07_radiotap_bound.

(* random address: exactly the six bytes of the buffer are written; a requested prefix is kept *)
Theorem c07_random_mac : forall mem prefix rnd, 6 <= zlen mem -> 6 <= zlen rnd ->
  (forall p, prefix = Some p -> 3 <= zlen p) ->
  exists m, random_mac mem prefix rnd = Done m /\ zlen m = zlen mem /\ zskipn 6 m = zskipn 6 mem /\
            match prefix with
            | Some p => zfirstn 3 m = zfirstn 3 p /\ slice 3 3 m = zfirstn 3 rnd
            | None => zfirstn 6 m = zfirstn 6 rnd
            end.
Proof. exact random_mac_ok. Qed.
Print Assumptions c07_random_mac.

(* ---- statements about the C code AS TRANSLATED on this run (Gen/Sites.v: every guard, declaration, conversion and call argument with the
   types clang computed; tools/sites.py), for every memory m and every environment: tie #1 extended from constants to arithmetic and
   control flow.  Vocabulary in Spec/CodeSpec.v, evaluator and interpreter in Base/CExpr.v, proofs in Proofs/SitesDump.v. ---- *)
From Coq Require Import String.
From LW Require Import Base.CExpr Gen.Sites Spec.CodeSpec Proofs.SitesDump.
Local Open Scope string_scope.
Local Open Scope Z_scope.


Theorem c07_code_dump_beacon : forall m ,
  dump_ok m body_libwifi_get_beacon_length body_libwifi_dump_beacon
          "libwifi_get_beacon_length" "beacon" "beacon->tags.length" (2 ^ 63) (2 ^ 64 - 22).
Proof. exact code_dump_beacon. Qed.
Print Assumptions c07_code_dump_beacon.


Theorem c07_code_dump_probe_req : forall m ,
  dump_ok m body_libwifi_get_probe_req_length body_libwifi_dump_probe_req
          "libwifi_get_probe_req_length" "probe_req" "probe_req->tags.length" (2 ^ 63) (2 ^ 64 - 22).
Proof. exact code_dump_probe_req. Qed.
Print Assumptions c07_code_dump_probe_req.


Theorem c07_code_dump_probe_resp : forall m ,
  dump_ok m body_libwifi_get_probe_resp_length body_libwifi_dump_probe_resp
          "libwifi_get_probe_resp_length" "probe_resp" "probe_resp->tags.length" (2 ^ 63) (2 ^ 64 - 22).
Proof. exact code_dump_probe_resp. Qed.
Print Assumptions c07_code_dump_probe_resp.


Theorem c07_code_dump_assoc_req : forall m ,
  dump_ok m body_libwifi_get_assoc_req_length body_libwifi_dump_assoc_req
          "libwifi_get_assoc_req_length" "assoc_req" "assoc_req->tags.length" (2 ^ 63) (2 ^ 64 - 22).
Proof. exact code_dump_assoc_req. Qed.
Print Assumptions c07_code_dump_assoc_req.


Theorem c07_code_dump_assoc_resp : forall m ,
  dump_ok m body_libwifi_get_assoc_resp_length body_libwifi_dump_assoc_resp
          "libwifi_get_assoc_resp_length" "assoc_resp" "assoc_resp->tags.length" (2 ^ 63) (2 ^ 64 - 22).
Proof. exact code_dump_assoc_resp. Qed.
Print Assumptions c07_code_dump_assoc_resp.


Theorem c07_code_dump_reassoc_req : forall m ,
  dump_ok m body_libwifi_get_reassoc_req_length body_libwifi_dump_reassoc_req
          "libwifi_get_reassoc_req_length" "reassoc_req" "reassoc_req->tags.length" (2 ^ 63) (2 ^ 64 - 22).
Proof. exact code_dump_reassoc_req. Qed.
Print Assumptions c07_code_dump_reassoc_req.


Theorem c07_code_dump_reassoc_resp : forall m ,
  dump_ok m body_libwifi_get_reassoc_resp_length body_libwifi_dump_reassoc_resp
          "libwifi_get_reassoc_resp_length" "reassoc_resp" "reassoc_resp->tags.length" (2 ^ 63) (2 ^ 64 - 22).
Proof. exact code_dump_reassoc_resp. Qed.
Print Assumptions c07_code_dump_reassoc_resp.


Theorem c07_code_dump_auth : forall m ,
  dump_ok m body_libwifi_get_auth_length body_libwifi_dump_auth
          "libwifi_get_auth_length" "auth" "auth->tags.length" (2 ^ 63) (2 ^ 64 - 22).
Proof. exact code_dump_auth. Qed.
Print Assumptions c07_code_dump_auth.


Theorem c07_code_dump_deauth : forall m ,
  dump_ok m body_libwifi_get_deauth_length body_libwifi_dump_deauth
          "libwifi_get_deauth_length" "deauth" "deauth->tags.length" (2 ^ 63) (2 ^ 64 - 22).
Proof. exact code_dump_deauth. Qed.
Print Assumptions c07_code_dump_deauth.


Theorem c07_code_dump_disassoc : forall m ,
  dump_ok m body_libwifi_get_disassoc_length body_libwifi_dump_disassoc
          "libwifi_get_disassoc_length" "disassoc" "disassoc->tags.length" (2 ^ 63) (2 ^ 64 - 22).
Proof. exact code_dump_disassoc. Qed.
Print Assumptions c07_code_dump_disassoc.

(* the timing advertisement routine reports the short buffer as -1, not -EINVAL *)
Theorem c07_code_dump_timing_advert : forall m ,
  dump_ok m body_libwifi_get_timing_advert_length body_libwifi_dump_timing_advert
          "libwifi_get_timing_advert_length" "adv" "adv->tags.length" (2 ^ 63) (2 ^ 64 - 1).
Proof. exact code_dump_timing_advert. Qed.
Print Assumptions c07_code_dump_timing_advert.

(* the payload of an action frame is the detail, whose length is one octet *)
Theorem c07_code_dump_action : forall m ,
  dump_ok m body_libwifi_get_action_length body_libwifi_dump_action
          "libwifi_get_action_length" "action" "action->fixed_parameters.details.detail_length" 256 (2 ^ 64 - 22).
Proof. exact code_dump_action. Qed.
Print Assumptions c07_code_dump_action.


Theorem c07_code_dump_tag : forall m rho buf bl tl,
  0 <= buf -> 0 <= bl -> buf + bl < 2 ^ 63 -> 0 <= tl < 256 ->
  let rho0 := upd (upd (upd rho "buf" buf) "buf_len" bl) "tag->header.tag_len" tl in
  exists tr,
    observe (exec 60 m rho0 [] body_libwifi_dump_tag) =
      (if 2 + tl >? bl then Some (Some (2 ^ 64 - 22), []) else Some (Some (2 + tl), tr)) /\
    (2 + tl <= bl -> writes_from buf tr (buf + 2 + tl)).
Proof. exact code_dump_tag. Qed.
Print Assumptions c07_code_dump_tag.
