(* C07 - serialisation never writes outside the caller's buffer.  Statements only. *)
From LW Require Import Base.Bytes Model.Tags Model.Radiotap Model.RadiotapGen Model.Gen Gen.Consts Gen.Layout Proofs.GenProofs.
Local Open Scope Z_scope.

Definition tags_ok (t : tags) : Prop := t_len t = zlen (t_bytes t).

(* every tagged generator object (all eleven dump routines share this shape) and EVERY caller buffer:
   too small -> error and the buffer is untouched; otherwise exactly g_length bytes are written from
   the buffer's first byte, the rest of the buffer is untouched, and no write ever leaves the buffer *)
Theorem c07_dump_object : forall g mem, tags_ok (g_tags g) ->
  g_dump_mem g mem = Done (if zlen mem <? g_length g then (Err (- EINVAL), mem)
                           else (Ok (g_length g), g_hdr g ++ g_fixed g ++ t_bytes (g_tags g) ++ zskipn (g_length g) mem)).
Proof. exact dump_object_ok. Qed.
Print Assumptions c07_dump_object.

Theorem c07_dump_action : forall a mem, a_detail_len a = zlen (a_detail a) -> 
  a_dump_mem a mem = Done (if zlen mem <? a_length a then (Err (- EINVAL), mem)
                           else (Ok (a_length a), a_hdr a ++ [a_category a] ++ a_detail a ++ zskipn (a_length a) mem)).
Proof. exact dump_action_ok. Qed.
Print Assumptions c07_dump_action.

Theorem c07_dump_tag : forall num len body mem, 0 <= len -> len = zlen body ->
  dump_tag_mem num len body mem = Done (if zlen mem <? 2 + len then (Err (- EINVAL), mem)
                                        else (Ok (2 + len), [num; len] ++ body ++ zskipn (2 + len) mem)).
Proof. exact dump_tag_ok. Qed.
Print Assumptions c07_dump_tag.

(* radiotap generation: for ALL 2^32 present words and up to the documented number of antennas the
   staging area is never overrun (Done, not Fault) and the header is at most LIBWIFI_MAX_RADIOTAP_LEN bytes *)
Theorem c07_radiotap_bound : forall present info, 0 <= present < 2 ^ 32 ->
  zlen (i_antennas info) <= c_LIBWIFI_MAX_RADIOTAP_ANTENNAS ->
  exists b, create_radiotap present info = Done b /\ zlen b <= c_LIBWIFI_MAX_RADIOTAP_LEN.
Proof. exact radiotap_bound. Qed.
Print Assumptions c07_radiotap_bound.

(* random address: exactly the six bytes of the buffer are written; a requested prefix is kept *)
Theorem c07_random_mac : forall mem prefix rnd, 6 <= zlen mem -> 6 <= zlen rnd ->
  (forall p, prefix = Some p -> 3 <= zlen p) ->
  exists m, random_mac mem prefix rnd = Done m /\ zlen m = zlen mem /\ zskipn 6 m = zskipn 6 mem /\
            match prefix with
            | Some p => zfirstn 3 m = zfirstn 3 p /\ slice 3 3 m = zfirstn 3 rnd
            | None => zfirstn 6 m = zfirstn 6 rnd
            end.
Proof. exact random_mac_ok. Qed.
Print Assumptions c07_random_mac.
