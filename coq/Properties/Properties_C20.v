(* C20 - timestamps never run backwards.  Only statements; proofs live in Proofs/EpochProofs.v. *)
From Coq Require Import ZArith.
From LW Require Import Model.Epoch Proofs.EpochProofs.
Local Open Scope Z_scope.

Theorem c20_defined : forall s n, reading_ok s n -> exists v, epoch s n = Some v /\ 0 <= v < 2 ^ 63.
Proof. exact epoch_defined. Qed.
Print Assumptions c20_defined.

Theorem c20_monotone : forall s1 n1 s2 n2 v1 v2,
  reading_ok s1 n1 -> reading_ok s2 n2 -> reading_le s1 n1 s2 n2 ->
  epoch s1 n1 = Some v1 -> epoch s2 n2 = Some v2 -> v1 <= v2.
Proof. exact epoch_monotone. Qed.
Print Assumptions c20_monotone.

Theorem c20_unit : exists k, 0 < k /\ forall s n, reading_ok s n ->
  epoch s n = Some ((s * 10 ^ 9 + n) / k).
Proof. exact epoch_unit. Qed.
Print Assumptions c20_unit.

(* ---- statements about the C code AS TRANSLATED on this run (Gen/Sites.v: every guard, declaration, conversion and call argument with the
   types clang computed; tools/sites.py), for every memory m and every environment: tie #1 extended from constants to arithmetic and
   control flow.  Vocabulary in Spec/CodeSpec.v, evaluator and interpreter in Base/CExpr.v, proofs in Proofs/SitesMisc.v. ---- *)
From Coq Require Import String.
From LW Require Import Base.CExpr Gen.Sites Spec.CodeSpec Proofs.SitesMisc.
Local Open Scope string_scope.
Local Open Scope Z_scope.

(* sec = spec.tv_sec, nsec = spec.tv_nsec *)
Theorem c20_code_epoch : forall m rho sec nsec,
  rho "spec.tv_sec" = sec -> rho "spec.tv_nsec" = nsec ->
  0 <= sec < 2 ^ 40 -> 0 <= nsec < 10 ^ 9 ->
  ceval rho m (site sites_libwifi_get_epoch "ret#0") = Some (sec * 1000000 + nsec / 1000).
Proof. exact code_epoch. Qed.
Print Assumptions c20_code_epoch.
