(* C14 - every object lifecycle releases exactly what it allocated.  Statements only.
   All theorems quantify over EVERY failure schedule sc as well, so they also serve C15. *)
From LW Require Import Base.Bytes Spec.TagSpec Model.Tags Gen.Consts Gen.Layout Model.Radiotap Model.Frame Model.Alloc Model.AllocScen
  Proofs.RadiotapProofs Proofs.AllocProofs.
Local Open Scope Z_scope.

Definition wf_op (o : tag_op) : Prop :=
  match o with
  | OpAdd n b => wf_tag (n, b)
  | OpSetSsid b => wf_tag (c_TAG_SSID, b)
  | OpSetChannel c => 0 <= c < 256
  | OpRemove _ | OpCheck _ => True
  end.
(* the object owns exactly the live blocks *)
Definition owns (o : tobj) (h : heap) : Prop :=
  live_blocks h = match o_ptr o with Some b => [b] | None => [] end.

(* any edit history of a tagged-parameter list, any failure schedule: no double free, no use after
   release, no NULL dereference (Done, not Fault); the only live block is the list's own; after the
   release routine nothing is left *)
Theorem c14_tags_history : forall sc ops, Forall wf_op ops ->
  exists o h, sk_run sc tobj0 ops heap0 = Done (o, h) /\ owns o h /\
              exists o' h', sk_free o h = Done (o', h') /\ live_blocks h' = [].
Proof. exact tags_history_clean. Qed.
Print Assumptions c14_tags_history.

(* every tag-carrying generator: create (which may fail half way), further edits, release *)
Theorem c14_generators : forall sc k ssid ch el extras,
  wf_tag (c_TAG_SSID, ssid) -> 0 <= ch < 256 -> wf_tag (c_TAG_TIME_ADVERTISEMENT, el) -> Forall wf_op extras ->
  exists rs tg h, sk_gen_scenario sc k ssid ch el extras = Done (rs, tg, h) /\ live_blocks h = [].
Proof. exact generators_clean. Qed.
Print Assumptions c14_generators.

(* action details *)
Theorem c14_action : forall sc (details : list (list byte)),
  let run := fold_left (fun (st : res (dobj * heap)) d =>
                          match st with Done (o, h) => match sk_add_detail sc o d h with Done (o', _, h') => Done (o', h') | Fault k z => Fault k z | OutOfFuel => OutOfFuel end
                                      | other => other end) details (Done (dobj0, heap0)) in
  exists o h, run = Done (o, h) /\ exists h', sk_free_action o h = Done h' /\ live_blocks h' = [].
Proof. exact action_clean. Qed.
Print Assumptions c14_action.

(* classify, run every parser (success and failure paths), release everything: for EVERY byte string,
   both radiotap modes, every failure schedule - nothing stays allocated and nothing is freed twice *)
Theorem c14_parse_pipeline : forall sc buf rd rt, wfbytes buf -> agrees rd buf ->
  exists rs h, sk_parse_scenario sc rd (zlen buf) rt = Done (rs, h) /\ live_blocks h = [].
Proof.
  intros sc buf rd rt Hwf Hag.
  apply parse_pipeline_clean_rel; try assumption.
  intros _. destruct (rt_total buf rd Hwf Hag) as [o Ho]. exists o. split; [exact Ho|].
  intros info ->. pose proof (rt_length buf rd info Hwf Hag Ho) as [_ [Hb _]]. lia.
Qed.
Print Assumptions c14_parse_pipeline.

(* the skeletons decide "first tag or not" and the block sizes from lengths kept in Z: faithful only while the C fields
   that hold them (tag-list length, frame length, header length) are as wide as size_t and cannot wrap *)
Theorem c14_length_fields_wide :
  fsz_libwifi_tagged_parameters__length = host_sizeof_size_t /\ fsz_libwifi_frame__len = host_sizeof_size_t /\
  fsz_libwifi_frame__header_len = host_sizeof_size_t /\ 8 <= host_sizeof_size_t.
Proof. repeat split; try reflexivity; try (vm_compute; discriminate). Qed.
Print Assumptions c14_length_fields_wide.

(* ---- statements about the C code AS TRANSLATED on this run (Gen/Sites.v: every guard, declaration, conversion and call argument with the
   types clang computed; tools/sites.py), for every memory m and every environment: tie #1 extended from constants to arithmetic and
   control flow.  Vocabulary in Spec/CodeSpec.v, evaluator and interpreter in Base/CExpr.v, proofs in Proofs/SitesTags.v. ---- *)
From Coq Require Import String.
From LW Require Import Base.CExpr Gen.Sites Spec.CodeSpec Proofs.SitesTags.
Local Open Scope string_scope.
Local Open Scope Z_scope.

(* dl = detail->detail_length, n = data_len, q = what the allocator answers.  A range for q is needed: the copy's
   destination is computed as the pointer sum q + dl, which has to stay an address (below 2^63), whence [q + dl < 2^63]. *)
Theorem c14_code_add_action_detail : forall m rho dl n q,
  0 <= dl < 256 -> 0 <= n < 2 ^ 63 ->
  (if (dl =? 0)%Z then rho "ret:malloc" else rho "ret:realloc") = q ->
  0 <= q -> q + dl < 2 ^ 63 ->
  let rho0 := upd (upd rho "detail->detail_length" dl) "data_len" n in
  let alloc := if (dl =? 0)%Z then ("malloc", [n]) else ("realloc", [wrap u64 (rho "detail->detail"); n + dl]) in
  if (n =? 0)%Z then observe (exec 40 m rho0 [] body_libwifi_add_action_detail) = Some (Some dl, [])
  else if n + dl >? 255 then observe (exec 40 m rho0 [] body_libwifi_add_action_detail) = Some (Some (2 ^ 64 - 22), [])
  else if (q =? 0)%Z then observe (exec 40 m rho0 [] body_libwifi_add_action_detail) = Some (Some (2 ^ 64 - 12), [alloc])
  else exists rho',
    exec 40 m rho0 [] body_libwifi_add_action_detail =
      Returned (Some (dl + n)) rho' [alloc; ("memcpy", [q + dl; wrap u64 (rho "data"); n])] /\
    rho' "detail->detail_length" = dl + n.
Proof. exact code_add_action_detail. Qed.
Print Assumptions c14_code_add_action_detail.

(* libwifi_free_action_detail releases the block exactly when a length is recorded, and then records none *)
Theorem c14_code_free_action_detail : forall m rho dl,
  0 <= dl < 256 ->
  let rho0 := upd rho "detail->detail_length" dl in
  if (dl =? 0)%Z then observe (exec 20 m rho0 [] body_libwifi_free_action_detail) = Some (None, [])
  else exists rho', exec 20 m rho0 [] body_libwifi_free_action_detail = Fell rho' [("free", [wrap u64 (rho "detail->detail")])] /\
       rho' "detail->detail_length" = 0.
Proof. exact code_free_action_detail. Qed.
Print Assumptions c14_code_free_action_detail.

(* libwifi_remove_tag as translated (iterator inlined), for every list: the block is released exactly when the list becomes empty (free, pointer cleared), shrunk otherwise, and a
   failed shrink keeps the old, still valid block and the new length - the allocation side of the removal, from the C text of this run (also stated as c05_code_remove_tag_refines_model) *)
From Coq Require Import String.
From LW Require Import Base.Bytes Base.CExpr Gen.Sites Spec.CodeSpec Model.TagIter Model.Tags Proofs.CodeTagEdit.
Local Open Scope string_scope.
Local Open Scope list_scope.
Local Open Scope Z_scope.

Theorem c14_code_remove_tag_refines_model : forall buf p n rho F,
  wfbytes buf -> 0 < p -> p + zlen buf < 2 ^ 62 -> - 2 ^ 31 <= n < 2 ^ 31 ->
  rho "tags->parameters" = p -> rho "tags->length" = zlen buf -> rho "tag_number" = n ->
  (remove_fuel (zlen buf) <= F)%nat ->
  let s := {| t_len := zlen buf; t_bytes := buf |} in
  let run := exec F (mem_at p buf) rho [] body_libwifi_remove_tag in
  let ans := wrap u64 (rho "ret:realloc") in
  match walk_of buf with
  | Err _ =>
      remove_tag s n = Done (s, -22) /\
      exists rho', run = Returned (Some (-22)) rho' [] /\ rho' "tags->length" = zlen buf /\ rho' "tags->parameters" = p
  | Ok l =>
      match find_num n l with
      | None =>
          remove_tag s n = Done (s, 0) /\
          exists rho', run = Returned (Some 0) rho' [] /\ rho' "tags->length" = zlen buf /\ rho' "tags->parameters" = p
      | Some e =>
          let o := e_off e in let L := e_len e in
          (e_num e = n /\ exists l1 l2, l = l1 ++ e :: l2 /\ Forall (fun x => e_num x <> n) l1) /\
          (0 <= o /\ o + 2 + L <= zlen buf /\ n = znth buf o /\ L = znth buf (o + 1) /\ 0 <= L < 256) /\
          (exists s', remove_tag s n = Done (s', 0) /\ t_len s' = zlen buf - 2 - L /\
                      t_bytes s' = zfirstn o buf ++ slice (o + 2 + L) (zlen buf - o - 2 - L) buf) /\
          exists rho', run = Returned (Some 0) rho' (remove_trace p o L (zlen buf)) /\
                       rho' "tags->length" = zlen buf - 2 - L /\
                       rho' "tags->parameters" = new_params p ans (zlen buf - 2 - L)
      end
  end.
Proof. exact code_remove_tag_refines_model. Qed.
Print Assumptions c14_code_remove_tag_refines_model.

(* ---- the release routines AS TRANSLATED from the sources on this run (Gen/Sites.v), and creation ; release pairs.  releases, release_table, wpa_owned, allocs, frees
   and the lifecycle statements' vocabulary are defined in Proofs/CodeRelease.v and Proofs/CodeReleasePairs.v ---- *)
From LW Require Import Base.Sweep Gen.Tables Spec.FrameSpec Proofs.FrameProofs Model.Frame Model.Eapol Proofs.CodeFrame Proofs.CodeEapol Proofs.CodeRelease Proofs.CodeReleasePairs Proofs.CodeSmall.

(* each of the 18 release routines, run on any object in any memory with any trace so far, makes exactly the free calls of its owning member(s) - the pointer value the object holds - and nothing else (the EAPOL one releases the key data exactly when a length is recorded) *)
Theorem c14_code_release_all : Forall (fun e => releases (snd (fst e)) (snd e)) release_table.
Proof. exact code_release_all. Qed.
Print Assumptions c14_code_release_all.

(* so every event of a release routine is a free of a listed member *)
Theorem c14_code_release_table_only_frees : Forall (fun e => forall m rho f, (3 <= f)%nat ->
            exists tr, observe (exec f m rho [] (snd (fst e))) = Some (None, tr) /\
                       NoDup (snd e rho) /\ tr = map (free_ev rho) (snd e rho) /\
                       Forall (fun ev => fst ev = "free") tr) release_table.
Proof. exact release_table_only_frees. Qed.
Print Assumptions c14_code_release_table_only_frees.

(* create_tag ; free_tag: one malloc, released once *)
Theorem c14_code_lifecycle_tag : forall m rho num tl q,
  - 2 ^ 31 <= num < 2 ^ 31 -> 0 <= tl < 2 ^ 63 -> rho "ret:malloc" = q -> 0 < q < 2 ^ 63 ->
  let rho0 := upd (upd rho "tag_number" num) "tag_length" tl in
  exists rho' tr,
    exec 40 m rho0 [] body_libwifi_create_tag = Returned (Some (2 + tl)) rho' tr /\
    rho' "tagged_parameter->body" = q /\
    allocs tr = [("malloc", [tl])] /\ frees tr = [] /\
    exec 3 m rho' tr body_libwifi_free_tag = Fell rho' (tr ++ [("free", [q])]).
Proof. exact lifecycle_tag. Qed.
Print Assumptions c14_code_lifecycle_tag.

(* add_tag: the list's block after a successful add is realloc's answer, which the frame's release routine frees *)
Theorem c14_code_add_tag_owner : forall m rho len tl p q,
  0 <= len < 2 ^ 62 -> 0 <= tl < 256 -> 0 < p -> p + len + 257 < 2 ^ 63 ->
  (if (len =? 0)%Z then rho "ret:malloc" else rho "ret:realloc") = q ->
  0 < q -> q + len + 257 < 2 ^ 63 ->
  let rho0 := upd (upd (upd rho "tags->length" len) "tag->header.tag_len" tl) "tags->parameters" p in
  exists rho' tr,
    exec 40 m rho0 [] body_libwifi_add_tag = Returned (Some 0) rho' tr /\
    allocs tr = [if (len =? 0)%Z then ("malloc", [2 + tl]) else ("realloc", [p; len + 2 + tl])] /\ frees tr = [] /\
    rho' "tags->parameters" = q /\ rho' "tags->length" = len + 2 + tl.
Proof. exact code_add_tag_owner. Qed.
Print Assumptions c14_code_add_tag_owner.

(* the deauth / disassoc parsers ; their release routines *)
Theorem c14_code_lifecycle_reason : forall body fbody obj subtype,
  CodeMgmt.reason_parser_ok body obj subtype ->
  releases fbody (fun _ => [(obj ++ "->tags.parameters")%string]) ->
  0 <= subtype < 2 ^ 31 ->
  forall rho o len hl b q m,
    0 <= o < 2 ^ 31 -> 0 < b -> 0 <= hl <= len -> b + len < 2 ^ 62 -> 0 <= q < 2 ^ 62 -> rho "ret:malloc" = q ->
    hl + 2 <= len ->
    let n := wrap s32 (len - (if o =? 0 then 24 else 28) - 2) in
    n <= 0 \/ q <> 0 ->
    exists rho' tr,
      exec 100 m (CodeMgmtDefs.frame_env rho 0 subtype o len hl b) [] body = Returned (Some 0) rho' tr /\
      rho' (obj ++ "->tags.parameters")%string = (if n <=? 0 then 0 else q) /\
      allocs tr = (if n <=? 0 then [] else [("malloc", [n])]) /\ frees tr = [] /\
      exec 3 m rho' tr fbody = Fell rho' (tr ++ [("free", [if n <=? 0 then 0 else q])]).
Proof. exact lifecycle_reason. Qed.
Print Assumptions c14_code_lifecycle_reason.

(* create_action ; free_action *)
Theorem c14_code_lifecycle_action : forall m rho cat,
  0 <= cat < 256 ->
  exists rho' tr,
    exec 40 m (upd rho "category" cat) [] body_libwifi_create_action = Returned (Some 0) rho' tr /\
    allocs tr = [] /\ frees tr = [] /\
    exec 3 m rho' tr body_libwifi_free_action = Fell rho' (tr ++ [("free", [0])]).
Proof. exact lifecycle_action. Qed.
Print Assumptions c14_code_lifecycle_action.

(* create_auth ; free_auth *)
Theorem c14_code_lifecycle_auth : forall m rho alg seq st,
  0 <= alg < 65536 -> 0 <= seq < 65536 -> 0 <= st < 65536 ->
  exists rho' tr,
    exec 40 m (upd (upd (upd rho "algorithm_number" alg) "transaction_sequence" seq) "status_code" st) [] body_libwifi_create_auth
      = Returned (Some 0) rho' tr /\
    allocs tr = [] /\ frees tr = [] /\
    exec 3 m rho' tr body_libwifi_free_auth = Fell rho' (tr ++ [("free", [0])]).
Proof. exact lifecycle_auth. Qed.
Print Assumptions c14_code_lifecycle_auth.

(* create_deauth ; free_deauth *)
Theorem c14_code_lifecycle_deauth : forall m rho reason,
  0 <= reason < 65536 ->
  exists rho' tr,
    exec 40 m (upd rho "reason_code" reason) [] body_libwifi_create_deauth = Returned (Some 0) rho' tr /\
    allocs tr = [] /\ frees tr = [] /\
    exec 3 m rho' tr body_libwifi_free_deauth = Fell rho' (tr ++ [("free", [0])]).
Proof. exact lifecycle_deauth. Qed.
Print Assumptions c14_code_lifecycle_deauth.

(* create_disassoc ; free_disassoc *)
Theorem c14_code_lifecycle_disassoc : forall m rho reason,
  0 <= reason < 65536 ->
  exists rho' tr,
    exec 40 m (upd rho "reason_code" reason) [] body_libwifi_create_disassoc = Returned (Some 0) rho' tr /\
    allocs tr = [] /\ frees tr = [] /\
    exec 3 m rho' tr body_libwifi_free_disassoc = Fell rho' (tr ++ [("free", [0])]).
Proof. exact lifecycle_disassoc. Qed.
Print Assumptions c14_code_lifecycle_disassoc.

(* the classifier: which blocks the frame object owns on every exit *)
Theorem c14_code_get_wifi_frame_owner : forall buf a rho,
  wfbytes buf -> 0 < a -> a + zlen buf < 2 ^ 62 -> 0 <= rho "ret:malloc" < 2 ^ 62 ->
  let q := rho "ret:malloc" in
  let b0 := znth buf 0 in
  let b1 := znth buf 1 in
  2 <= zlen buf ->
  forall hl, s_hdr_len (s_type b0) (s_subtype b0) (s_ordered b1) = Some hl -> hl <= zlen buf ->
    let tr := frame_memset rho :: (CodeFrame.hdr_copies rho a b0 b1 ++ tail_trace (rho "&fi->frame_control") a hl (zlen buf) q)%list in
    exists rho1,
      frame_run buf a rho = Returned (Some (tail_ret hl (zlen buf) q)) rho1 tr /\
      rho1 "fi->len" = zlen buf /\ rho1 "fi->header_len" = hl /\ rho1 "fi->flags" = s_flags b0 b1 /\
      rho1 "fi->body" = (if zlen buf =? hl then 0 else q) /\ rho1 "fi->radiotap_info" = 0.
Proof. exact code_get_wifi_frame_owner. Qed.
Print Assumptions c14_code_get_wifi_frame_owner.

(* get_wifi_frame ; free_wifi_frame, for every input: everything allocated is released exactly once, on the refusing exits inside the classifier itself *)
Theorem c14_code_lifecycle_wifi_frame : forall buf a rho,
  wfbytes buf -> 0 < a -> a + zlen buf < 2 ^ 62 -> 0 <= rho "ret:malloc" < 2 ^ 62 ->
  let q := rho "ret:malloc" in
  2 <= zlen buf ->
  forall hl, s_hdr_len (s_type (znth buf 0)) (s_subtype (znth buf 0)) (s_ordered (znth buf 1)) = Some hl -> hl <= zlen buf ->
    exists rho1 tr,
      frame_run buf a rho = Returned (Some (tail_ret hl (zlen buf) q)) rho1 tr /\
      rho1 "fi->body" = (if zlen buf =? hl then 0 else q) /\ rho1 "fi->radiotap_info" = 0 /\
      allocs tr = (if zlen buf =? hl then [] else [("malloc", [zlen buf - hl])]) /\ frees tr = [] /\
      exec 3 (mem_at a buf) rho1 tr body_libwifi_free_wifi_frame =
        Fell rho1 (tr ++ [("free", [0]); ("free", [if zlen buf =? hl then 0 else q])]).
Proof. exact lifecycle_wifi_frame. Qed.
Print Assumptions c14_code_lifecycle_wifi_frame.

(* get_wpa_data: the key data block *)
Theorem c14_code_get_wpa_data_owner : forall b a hl ty rho,
  wfbytes b -> 0 < a -> a + zlen b < 2 ^ 62 -> hl = 24 \/ hl = 26 ->
  0 <= wrap s32 (rho "ret:libwifi_check_wpa_handshake") -> 107 <= zlen b ->
  let mp := wrap u64 (rho "ret:malloc") in
  let declared := 256 * znth b 105 + znth b 106 in
  let kdl := Z.min (Z.min declared 1024) (zlen b - 107) in
  exists v rho' tr,
    exec 60 (mem_at a b) (frame_env rho ty (hl + zlen b) hl a) [] body_libwifi_get_wpa_data = Returned v rho' tr /\
    rho' "data->key_info.key_data_length" = kdl /\
    rho' "data->key_info.key_data" = (if kdl =? 0 then 0 else mp).
Proof. exact code_get_wpa_data_owner. Qed.
Print Assumptions c14_code_get_wpa_data_owner.

(* get_wpa_data ; free_wpa_data *)
Theorem c14_code_lifecycle_wpa_data : forall b a hl ty rho,
  wfbytes b -> 0 < a -> a + zlen b < 2 ^ 62 -> hl = 24 \/ hl = 26 ->
  0 <= wrap s32 (rho "ret:libwifi_check_wpa_handshake") -> 107 <= zlen b ->
  let mp := wrap u64 (rho "ret:malloc") in
  let declared := 256 * znth b 105 + znth b 106 in
  let kdl := Z.min (Z.min declared 1024) (zlen b - 107) in
  exists v rho' tr,
    exec 60 (mem_at a b) (frame_env rho ty (hl + zlen b) hl a) [] body_libwifi_get_wpa_data = Returned (Some v) rho' tr /\
    v = (if negb (kdl =? 0) && (mp =? 0) then -12 else 0) /\
    allocs tr = (if kdl =? 0 then [] else [("malloc", [kdl])]) /\ frees tr = [] /\
    exec 3 (mem_at a b) rho' tr body_libwifi_free_wpa_data = Fell rho' (tr ++ (if kdl =? 0 then [] else [("free", [mp])])).
Proof. exact lifecycle_wpa_data. Qed.
Print Assumptions c14_code_lifecycle_wpa_data.

(* parse_data ; free_data *)
Theorem c14_code_lifecycle_data : forall rho ty fl len hl b q m,
  0 <= ty < 2 ^ 31 -> 0 <= fl < 65536 -> 0 <= hl <= len -> len < 2 ^ 64 -> 0 <= b < 2 ^ 64 ->
  rho "ret:malloc" = q -> 0 <= q < 2 ^ 64 ->
  let n := len - hl in
  let taken := negb (negb (ty =? 2) || (n =? 0)) in       (* the routine reaches malloc *)
  exists v rho' tr,
    exec 40 m (data_env rho ty fl len hl b) [] body_libwifi_parse_data = Returned (Some v) rho' tr /\
    v = (if negb (ty =? 2) then -22 else if taken && (q =? 0) then -12 else 0) /\
    allocs tr = (if taken then [("malloc", [n])] else []) /\ frees tr = [] /\
    exec 3 m rho' tr body_libwifi_free_data = Fell rho' (tr ++ [("free", [if taken then q else 0])]).
Proof. exact lifecycle_data. Qed.
Print Assumptions c14_code_lifecycle_data.

