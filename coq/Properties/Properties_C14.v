(* C14 - every object lifecycle releases exactly what it allocated.  Statements only.
   All theorems quantify over EVERY failure schedule sc as well, so they also serve C15. *)
From LW Require Import Base.Bytes Spec.TagSpec Model.Tags Gen.Consts Gen.Layout Model.Radiotap Model.Frame Model.Alloc Model.AllocScen
  Proofs.RadiotapProofs Proofs.AllocProofs.
Local Open Scope Z_scope.

Definition wf_op (o : tag_op) : Prop :=
  match o with
  | OpAdd n b => wf_tag (n, b)
  | OpSetSsid b => wf_tag (c_TAG_SSID, b)
  | OpSetChannel c => 0 <= c < 256
  | OpRemove _ | OpCheck _ => True
  end.
(* the object owns exactly the live blocks *)
Definition owns (o : tobj) (h : heap) : Prop :=
  live_blocks h = match o_ptr o with Some b => [b] | None => [] end.

(* any edit history of a tagged-parameter list, any failure schedule: no double free, no use after
   release, no NULL dereference (Done, not Fault); the only live block is the list's own; after the
   release routine nothing is left *)
Theorem c14_tags_history : forall sc ops, Forall wf_op ops ->
  exists o h, sk_run sc tobj0 ops heap0 = Done (o, h) /\ owns o h /\
              exists o' h', sk_free o h = Done (o', h') /\ live_blocks h' = [].
Proof. exact tags_history_clean. Qed.
Print Assumptions c14_tags_history.

(* every tag-carrying generator: create (which may fail half way), further edits, release *)
Theorem c14_generators : forall sc k ssid ch el extras,
  wf_tag (c_TAG_SSID, ssid) -> 0 <= ch < 256 -> wf_tag (c_TAG_TIME_ADVERTISEMENT, el) -> Forall wf_op extras ->
  exists rs tg h, sk_gen_scenario sc k ssid ch el extras = Done (rs, tg, h) /\ live_blocks h = [].
Proof. exact generators_clean. Qed.
Print Assumptions c14_generators.

(* action details *)
Theorem c14_action : forall sc (details : list (list byte)),
  let run := fold_left (fun (st : res (dobj * heap)) d =>
                          match st with Done (o, h) => match sk_add_detail sc o d h with Done (o', _, h') => Done (o', h') | Fault k z => Fault k z | OutOfFuel => OutOfFuel end
                                      | other => other end) details (Done (dobj0, heap0)) in
  exists o h, run = Done (o, h) /\ exists h', sk_free_action o h = Done h' /\ live_blocks h' = [].
Proof. exact action_clean. Qed.
Print Assumptions c14_action.

(* classify, run every parser (success and failure paths), release everything: for EVERY byte string,
   both radiotap modes, every failure schedule - nothing stays allocated and nothing is freed twice *)
Theorem c14_parse_pipeline : forall sc buf rd rt, wfbytes buf -> agrees rd buf ->
  exists rs h, sk_parse_scenario sc rd (zlen buf) rt = Done (rs, h) /\ live_blocks h = [].
Proof.
  intros sc buf rd rt Hwf Hag.
  apply parse_pipeline_clean_rel; try assumption.
  intros _. destruct (rt_total buf rd Hwf Hag) as [o Ho]. exists o. split; [exact Ho|].
  intros info ->. pose proof (rt_length buf rd info Hwf Hag Ho) as [_ [Hb _]]. lia.
Qed.
Print Assumptions c14_parse_pipeline.

(* the skeletons decide "first tag or not" and the block sizes from lengths kept in Z: faithful only while the C fields
   that hold them (tag-list length, frame length, header length) are as wide as size_t and cannot wrap *)
Theorem c14_length_fields_wide :
  fsz_libwifi_tagged_parameters__length = host_sizeof_size_t /\ fsz_libwifi_frame__len = host_sizeof_size_t /\
  fsz_libwifi_frame__header_len = host_sizeof_size_t /\ 8 <= host_sizeof_size_t.
Proof. repeat split; try reflexivity; try (vm_compute; discriminate). Qed.
Print Assumptions c14_length_fields_wide.

(* ---- statements about the C code AS TRANSLATED on this run (Gen/Sites.v: every guard, declaration, conversion and call argument with the
   types clang computed; tools/sites.py), for every memory m and every environment: tie #1 extended from constants to arithmetic and
   control flow.  Vocabulary in Spec/CodeSpec.v, evaluator and interpreter in Base/CExpr.v, proofs in Proofs/SitesTags.v. ---- *)
From Coq Require Import String.
From LW Require Import Base.CExpr Gen.Sites Spec.CodeSpec Proofs.SitesTags.
Local Open Scope string_scope.
Local Open Scope Z_scope.

(* dl = detail->detail_length, n = data_len, q = what the allocator answers.  A range for q is needed: the copy's
   destination is computed as the pointer sum q + dl, which has to stay an address (below 2^63), whence [q + dl < 2^63]. *)
Theorem c14_code_add_action_detail : forall m rho dl n q,
  0 <= dl < 256 -> 0 <= n < 2 ^ 63 ->
  (if (dl =? 0)%Z then rho "ret:malloc" else rho "ret:realloc") = q ->
  0 <= q -> q + dl < 2 ^ 63 ->
  let rho0 := upd (upd rho "detail->detail_length" dl) "data_len" n in
  let alloc := if (dl =? 0)%Z then ("malloc", [n]) else ("realloc", [wrap u64 (rho "detail->detail"); n + dl]) in
  if (n =? 0)%Z then observe (exec 40 m rho0 [] body_libwifi_add_action_detail) = Some (Some dl, [])
  else if n + dl >? 255 then observe (exec 40 m rho0 [] body_libwifi_add_action_detail) = Some (Some (2 ^ 64 - 22), [])
  else if (q =? 0)%Z then observe (exec 40 m rho0 [] body_libwifi_add_action_detail) = Some (Some (2 ^ 64 - 12), [alloc])
  else exists rho',
    exec 40 m rho0 [] body_libwifi_add_action_detail =
      Returned (Some (dl + n)) rho' [alloc; ("memcpy", [q + dl; wrap u64 (rho "data"); n])] /\
    rho' "detail->detail_length" = dl + n.
Proof. exact code_add_action_detail. Qed.
Print Assumptions c14_code_add_action_detail.

(* libwifi_free_action_detail releases the block exactly when a length is recorded, and then records none *)
Theorem c14_code_free_action_detail : forall m rho dl,
  0 <= dl < 256 ->
  let rho0 := upd rho "detail->detail_length" dl in
  if (dl =? 0)%Z then observe (exec 20 m rho0 [] body_libwifi_free_action_detail) = Some (None, [])
  else exists rho', exec 20 m rho0 [] body_libwifi_free_action_detail = Fell rho' [("free", [wrap u64 (rho "detail->detail")])] /\
       rho' "detail->detail_length" = 0.
Proof. exact code_free_action_detail. Qed.
Print Assumptions c14_code_free_action_detail.

(* libwifi_remove_tag as translated (iterator inlined), for every list: the block is released exactly when the list becomes empty (free, pointer cleared), shrunk otherwise, and a
   failed shrink keeps the old, still valid block and the new length - the allocation side of the removal, from the C text of this run (also stated as c05_code_remove_tag_refines_model) *)
From Coq Require Import String.
From LW Require Import Base.Bytes Base.CExpr Gen.Sites Spec.CodeSpec Model.TagIter Model.Tags Proofs.CodeTagEdit.
Local Open Scope string_scope.
Local Open Scope list_scope.
Local Open Scope Z_scope.

Theorem c14_code_remove_tag_refines_model : forall buf p n rho F,
  wfbytes buf -> 0 < p -> p + zlen buf < 2 ^ 62 -> - 2 ^ 31 <= n < 2 ^ 31 ->
  rho "tags->parameters" = p -> rho "tags->length" = zlen buf -> rho "tag_number" = n ->
  (remove_fuel (zlen buf) <= F)%nat ->
  let s := {| t_len := zlen buf; t_bytes := buf |} in
  let run := exec F (mem_at p buf) rho [] body_libwifi_remove_tag in
  let ans := wrap u64 (rho "ret:realloc") in
  match walk_of buf with
  | Err _ =>
      remove_tag s n = Done (s, -22) /\
      exists rho', run = Returned (Some (-22)) rho' [] /\ rho' "tags->length" = zlen buf /\ rho' "tags->parameters" = p
  | Ok l =>
      match find_num n l with
      | None =>
          remove_tag s n = Done (s, 0) /\
          exists rho', run = Returned (Some 0) rho' [] /\ rho' "tags->length" = zlen buf /\ rho' "tags->parameters" = p
      | Some e =>
          let o := e_off e in let L := e_len e in
          (e_num e = n /\ exists l1 l2, l = l1 ++ e :: l2 /\ Forall (fun x => e_num x <> n) l1) /\
          (0 <= o /\ o + 2 + L <= zlen buf /\ n = znth buf o /\ L = znth buf (o + 1) /\ 0 <= L < 256) /\
          (exists s', remove_tag s n = Done (s', 0) /\ t_len s' = zlen buf - 2 - L /\
                      t_bytes s' = zfirstn o buf ++ slice (o + 2 + L) (zlen buf - o - 2 - L) buf) /\
          exists rho', run = Returned (Some 0) rho' (remove_trace p o L (zlen buf)) /\
                       rho' "tags->length" = zlen buf - 2 - L /\
                       rho' "tags->parameters" = new_params p ans (zlen buf - 2 - L)
      end
  end.
Proof. exact code_remove_tag_refines_model. Qed.
Print Assumptions c14_code_remove_tag_refines_model.
