(* C09 - radiotap headers are decoded at their specified aligned offsets or refused.  Statements only. *)
From LW Require Import Base.Bytes Model.Radiotap Spec.RadiotapSpec Spec.RadiotapChainSpec Proofs.RadiotapProofs
  Proofs.RadiotapChainProofs.
Local Open Scope Z_scope.

(* every byte string, any chain of present words, namespaces and vendor data: the decoder terminates
   and reads nothing outside the supplied bytes (Done: neither OutOfFuel nor Fault, for a read oracle
   that is arbitrary or faulting outside the buffer) *)
Theorem c09_total : forall buf rd, wfbytes buf -> agrees rd buf ->
  exists o, parse_radiotap_info rd (zlen buf) = Done o.
Proof. exact rt_total. Qed.
Print Assumptions c09_total.

(* non-zero version, length below 8, length beyond the supplied bytes, length not representable: refused *)
Theorem c09_refused : forall buf rd, wfbytes buf -> agrees rd buf -> s_refused buf ->
  exists c, parse_radiotap_info rd (zlen buf) = Done (Err c) /\ c < 0.
Proof. exact rt_refused. Qed.
Print Assumptions c09_refused.

(* the reported header length is the header's own length field, and it lies inside the supplied bytes *)
Theorem c09_length : forall buf rd info, wfbytes buf -> agrees rd buf ->
  parse_radiotap_info rd (zlen buf) = Done (Ok info) ->
  i_length info = s_it_len buf /\ 8 <= i_length info <= zlen buf /\ i_length info <= 255.
Proof. exact rt_length. Qed.
Print Assumptions c09_length.

(* every well-formed single-word header - ALL 2^23 selections of the defined fields, all field values,
   arbitrary padding and trailing bytes - decodes to the values stored at the naturally aligned
   little-endian offsets of the radiotap specification *)
Theorem c09_single_word : forall buf rd, wfbytes buf -> agrees rd buf -> s_wf1 buf ->
  parse_radiotap_info rd (zlen buf) = Done (Ok (s_info buf)).
Proof. exact rt_single_word. Qed.
Print Assumptions c09_single_word.

(* the library's alignment/size table (as compiled) is the specification's *)
Theorem c09_table : Gen.Rtap.rtap_align_size = s_align_size /\ Gen.Rtap.rtap_n_bits = 23.
Proof. exact rt_table. Qed.
Print Assumptions c09_table.

(* band and channel number follow the frequency, for all 65536 frequencies *)
Theorem c09_band_channel : forall f, 0 <= f < 65536 -> band_center f = s_band_center f.
Proof. exact band_center_ok. Qed.
Print Assumptions c09_band_channel.

(* every well-formed header with ANY chain of present words - any number of words, namespace resets
   (bit 29), vendor namespaces (bit 30: 6-byte header at 2-byte alignment, any skip length, vendor
   words with arbitrary field bits, continued or followed by further vendor namespaces), all field
   values, padding and trailing bytes - decodes to the values stored at the naturally aligned
   little-endian offsets the radiotap specification assigns (s_chain_layout: structural recursion over
   the list of present words), per-antenna signals included; rd is arbitrary outside the buffer *)
Theorem c09_chain : forall buf rd, wfbytes buf -> agrees rd buf -> s_wf_chain buf ->
  parse_radiotap_info rd (zlen buf) = Done (Ok (s_info_chain buf)).
Proof. exact rt_chain. Qed.
Print Assumptions c09_chain.

(* the class is decidable, and it contains every well-formed single-word header, on which the chain
   specification is the single-word one *)
Theorem c09_chain_decidable : forall buf, s_wf_chainb buf = true <-> s_wf_chain buf.
Proof. exact s_wf_chainb_iff. Qed.
Print Assumptions c09_chain_decidable.
Theorem c09_chain_extends_single : forall buf, wfbytes buf -> s_wf1 buf ->
  s_wf_chain buf /\ s_info_chain buf = s_info buf.
Proof.
  intros buf Hwf H1. split; [apply (wf1_wf_chain buf Hwf H1)|apply (chain_single buf Hwf H1)].
Qed.
Print Assumptions c09_chain_extends_single.
