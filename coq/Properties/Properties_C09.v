(* C09 - radiotap headers are decoded at their specified aligned offsets or refused.  Statements only. *)
From LW Require Import Base.Bytes Model.Radiotap Spec.RadiotapSpec Spec.RadiotapChainSpec Proofs.RadiotapProofs
  Proofs.RadiotapChainProofs.
Local Open Scope Z_scope.

(* every byte string, any chain of present words, namespaces and vendor data: the decoder terminates
   and reads nothing outside the supplied bytes (Done: neither OutOfFuel nor Fault, for a read oracle
   that is arbitrary or faulting outside the buffer) *)
Theorem c09_total : forall buf rd, wfbytes buf -> agrees rd buf ->
  exists o, parse_radiotap_info rd (zlen buf) = Done o.
Proof. exact rt_total. Qed.
Print Assumptions c09_total.

(* non-zero version, length below 8, length beyond the supplied bytes, length not representable: refused *)
Theorem c09_refused : forall buf rd, wfbytes buf -> agrees rd buf -> s_refused buf ->
  exists c, parse_radiotap_info rd (zlen buf) = Done (Err c) /\ c < 0.
Proof. exact rt_refused. Qed.
Print Assumptions c09_refused.

(* the reported header length is the header's own length field, and it lies inside the supplied bytes *)
Theorem c09_length : forall buf rd info, wfbytes buf -> agrees rd buf ->
  parse_radiotap_info rd (zlen buf) = Done (Ok info) ->
  i_length info = s_it_len buf /\ 8 <= i_length info <= zlen buf /\ i_length info <= 255.
Proof. exact rt_length. Qed.
Print Assumptions c09_length.

(* every well-formed single-word header - ALL 2^23 selections of the defined fields, all field values,
   arbitrary padding and trailing bytes - decodes to the values stored at the naturally aligned
   little-endian offsets of the radiotap specification *)
Theorem c09_single_word : forall buf rd, wfbytes buf -> agrees rd buf -> s_wf1 buf ->
  parse_radiotap_info rd (zlen buf) = Done (Ok (s_info buf)).
Proof. exact rt_single_word. Qed.
Print Assumptions c09_single_word.

(* the library's alignment/size table (as compiled) is the specification's *)
Theorem c09_table : Gen.Rtap.rtap_align_size = s_align_size /\ Gen.Rtap.rtap_n_bits = 23.
Proof. exact rt_table. Qed.
Print Assumptions c09_table.

(* band and channel number follow the frequency, for all 65536 frequencies *)
Theorem c09_band_channel : forall f, 0 <= f < 65536 -> band_center f = s_band_center f.
Proof. exact band_center_ok. Qed.
Print Assumptions c09_band_channel.

(* every well-formed header with ANY chain of present words - any number of words, namespace resets
   (bit 29), vendor namespaces (bit 30: 6-byte header at 2-byte alignment, any skip length, vendor
   words with arbitrary field bits, continued or followed by further vendor namespaces), all field
   values, padding and trailing bytes - decodes to the values stored at the naturally aligned
   little-endian offsets the radiotap specification assigns (s_chain_layout: structural recursion over
   the list of present words), per-antenna signals included; rd is arbitrary outside the buffer *)
Theorem c09_chain : forall buf rd, wfbytes buf -> agrees rd buf -> s_wf_chain buf ->
  parse_radiotap_info rd (zlen buf) = Done (Ok (s_info_chain buf)).
Proof. exact rt_chain. Qed.
Print Assumptions c09_chain.

(* the class is decidable, and it contains every well-formed single-word header, on which the chain
   specification is the single-word one *)
Theorem c09_chain_decidable : forall buf, s_wf_chainb buf = true <-> s_wf_chain buf.
Proof. exact s_wf_chainb_iff. Qed.
Print Assumptions c09_chain_decidable.
Theorem c09_chain_extends_single : forall buf, wfbytes buf -> s_wf1 buf ->
  s_wf_chain buf /\ s_info_chain buf = s_info buf.
Proof.
  intros buf Hwf H1. split; [apply (wf1_wf_chain buf Hwf H1)|apply (chain_single buf Hwf H1)].
Qed.
Print Assumptions c09_chain_extends_single.

(* ---- libwifi_parse_radiotap_info AS TRANSLATED (Gen/Sites.v): the header guards (frame_len < 8, it_len < 8 or > 255 refuse having called nothing but the memset; the iterator's
   error is returned as it is), ONE turn of the field switch for every field number (the members assigned are exactly the little-endian values at the field's sub-offsets - CHANNEL
   0/2, MCS 0/1/2, TIMESTAMP 0/8/10/11 ... - and with the field's last octet unreadable the turn is stuck), that turn refines the Spec's per-field decoder (s_apply) and the model's
   (rt_field) for every field number and contents, and the loop ends with 0 when the iterator's next answers non-zero.  The iterator routines themselves contain goto and are not
   executed by exec: their answers are unknowns here and they stay tied by the correspondence.  rt_turn_env, rt_turn_calls, rt_entry_env, info_rel ... are defined in
   Proofs/CodeRadiotapParse.v. ---- *)
From Coq Require Import String.
From LW Require Import Base.Bytes Base.CExpr Gen.Sites Spec.CodeSpec Proofs.CodeRadiotapParse.
Local Open Scope string_scope.
Local Open Scope Z_scope.

Theorem c09_code_rtap_header_guards : forall buf a rho F,
  wfbytes buf -> 0 < a -> a + zlen buf < 2 ^ 62 -> rho "frame" = a -> rho "frame_len" = zlen buf ->
  let m := mem_at a buf in
  let r0 := wrap (mkty true 32) (rho "ret:ieee80211_radiotap_iterator_init") in
  let run := exec (11 + F) m rho [] body_libwifi_parse_radiotap_info in
  if (zlen buf <? 8) || (le16 buf 2 <? 8) || (255 <? le16 buf 2) then
    observe run = Some (Some (-22), [rt_memset_call rho])
  else if negb (r0 =? 0) then
    observe run = Some (Some r0, [rt_memset_call rho; rt_init_call rho a (zlen buf)])
  else
    run = exec F m (rt_entry_env rho a (le16 buf 2)) [rt_memset_call rho; rt_init_call rho a (zlen buf)] [rt_loop; rt_ret0].
Proof. exact code_rtap_header_guards. Qed.
Print Assumptions c09_code_rtap_header_guards.

Theorem c09_code_rtap_switch_field : forall p fb rho tr k F,
  0 < p -> p + zlen fb < 2 ^ 62 -> wfbytes fb -> rho "it.this_arg" = p ->
  wrap (mkty true 32) (rho "it.this_arg_index") = k -> rt_size k <= zlen fb -> (30 <= F)%nat ->
  exec F (mem_at p fb) rho tr [rt_switch] = Fell (rt_turn_env k fb rho) (tr ++ rt_turn_calls k p fb rho)%list.
Proof. exact code_rtap_switch_field. Qed.
Print Assumptions c09_code_rtap_switch_field.

Theorem c09_code_rtap_switch_refines_spec : forall fb rho k x sk,
  k <> 31 -> info_rel rho x sk ->
  info_rel (rt_turn_env k fb rho) (fst (s_apply fb (x, sk) (k, 0))) (snd (s_apply fb (x, sk) (k, 0))).
Proof. exact code_rtap_switch_refines_spec. Qed.
Print Assumptions c09_code_rtap_switch_refines_spec.

Theorem c09_code_rtap_switch_refines_model : forall fb rho k x sk,
  wfbytes fb -> 0 <= k < 23 -> snd (table_entry k) <= zlen fb -> info_rel rho x sk ->
  exists x' sk', rt_field (rd_strict fb) x sk k 0 = Done (x', sk') /\ info_rel (rt_turn_env k fb rho) x' sk'.
Proof. exact code_rtap_switch_refines_model. Qed.
Print Assumptions c09_code_rtap_switch_refines_model.

Theorem c09_code_rtap_loop_exit : forall m rho tr rho2 tr2 F,
  wrap (mkty true 32) (rho "ret") = 0 ->
  exec (5 + F) m rho tr [rt_switch] = Fell rho2 tr2 ->
  let rn := wrap (mkty true 32) (rho2 "ret:ieee80211_radiotap_iterator_next") in
  rn <> 0 ->
  let rho3 := upd (clobber rho2 (length (tr2 ++ [rt_next_call rho2])) "it") "ret" rn in
  exec (6 + F) m rho tr [rt_loop; rt_ret0] = Returned (Some 0) rho3 (tr2 ++ [rt_next_call rho2])%list /\
  (forall x, String.prefix "it" x = false -> x <> "ret" -> rho3 x = rho2 x).
Proof. exact code_rtap_loop_exit. Qed.
Print Assumptions c09_code_rtap_loop_exit.

(* ---- the radiotap iterator (core/radiotap/radiotap.c) AS TRANSLATED, expression by expression (Gen/Sites.v): its two routines contain `goto` and pointer increments and are the only
   bodies not executed by the interpreter, so the tie is made per NAMED SITE - every condition, assigned value and returned value of both routines evaluates, for all values in the stated
   ranges, to the formula Model/Radiotap.v (rt_init, ext_chain, rt_next, shift_next) uses at that step - and per SHAPE of the two switches.  A changed alignment, size, bound, mask, label
   or load offset in the C text falsifies one of these.  Vocabulary (NEXT, INIT, holds, le16, le32, site) in Proofs/SitesRadiotapIter.v. ---- *)
From Coq Require Import String.
From LW Require Import Base.Bytes Base.Sweep Base.CExpr Gen.Consts Gen.Rtap Gen.Layout Gen.Sites Spec.CodeSpec Model.Radiotap Proofs.SitesLemmas Proofs.CodeIter Proofs.CodeRadiotapGen Proofs.SitesRadiotapIter.
Local Open Scope string_scope.
Local Open Scope Z_scope.
Local Open Scope list_scope.

(* every one of the 60 named sites of iterator_next, in order, with the lemma that evaluates it *)
Theorem c09_code_rtnext_sites_covered : map fst NEXT =
  [ "loop#0"; "decl:hit#0"; "decl:pad#0"; "decl:align#0"; "decl:size#0"; "decl:subns#0"      (* site_rtnext_constants *)
  ; "if#0"; "ret#0"                                                                          (* site_rtnext_if0 *)
  ; "if#1"                                                                                   (* site_rtnext_if1 *)
  ; "switch#0"                                                                               (* site_rtnext_switch; rtnext_switch0_shape, _pick *)
  ; "set:align#0"; "set:size#0"; "set:align#1"; "set:size#1"                                 (* site_rtnext_constants; rtnext_case_special_runs, _vendor_runs *)
  ; "if#2"                                                                                   (* site_rtnext_if2_null, site_rtnext_if2 *)
  ; "if#3"; "ret#1"                                                                          (* site_rtnext_if3 *)
  ; "set:align#2"                                                                            (* site_rtnext_constants *)
  ; "set:align#3"; "set:size#2"                                                              (* site_rtnext_align_size_load, _table *)
  ; "if#4"; "set:iterator->_arg#0"; "set:iterator->current_namespace#0"                      (* site_rtnext_if4 *)
  ; "set:pad#0"                                                                              (* site_rtnext_pad, _pad_mod, _pad_table *)
  ; "if#5"; "upd:iterator->_arg#0"                                                           (* site_rtnext_if5_arg *)
  ; "if#6"                                                                                   (* site_rtnext_switch *)
  ; "if#7"; "ret#2"                                                                          (* site_rtnext_if7, site_rtnext_bounds_below_header *)
  ; "set:oui#0"; "set:subns#0"                                                               (* site_rtnext_vendor_loads, site_rtnext_oui_value *)
  ; "find_ns#0:set:iterator->current_namespace#0"; "find_ns#0:if#0"                          (* site_rtnext_find_ns (find_ns inlined: no vendor namespaces registered) *)
  ; "find_ns#0:set:find_ns#0$i#0"; "find_ns#0:loop#0"; "find_ns#0:upd:find_ns#0$i#0"; "find_ns#0:if#1"; "find_ns#0:if#2"
  ; "find_ns#0:set:iterator->current_namespace#1"                                            (* the search loop: not reached with _vns = NULL *)
  ; "set:vnslen#0"                                                                           (* site_rtnext_vendor_loads *)
  ; "set:iterator->_next_ns_data#0"; "if#8"; "upd:size#0"                                    (* site_rtnext_vendor_sizes *)
  ; "set:iterator->this_arg_index#0"; "set:iterator->this_arg#0"; "set:iterator->this_arg_size#0"; "upd:iterator->_arg#1"
                                                                                             (* site_rtnext_this_arg *)
  ; "if#9"; "ret#3"                                                                          (* site_rtnext_if9, site_rtnext_bounds_below_header *)
  ; "switch#1"                                                                               (* site_rtnext_switch; rtnext_switch1_shape, _pick *)
  ; "set:iterator->_reset_on_ext#0"; "set:iterator->is_radiotap_ns#0"; "set:iterator->this_arg_index#1"; "if#10"; "set:hit#0"
                                                                                             (* site_rtnext_vendor_case *)
  ; "set:iterator->_reset_on_ext#1"; "set:iterator->current_namespace#1"; "set:iterator->is_radiotap_ns#1"
                                                                                             (* site_rtnext_rtns_case *)
  ; "set:iterator->_bitmap_shifter#0"; "upd:iterator->_next_bitmap#0"; "if#11"; "set:iterator->_arg_index#0"; "upd:iterator->_arg_index#0"
  ; "set:iterator->_reset_on_ext#2"                                                          (* site_rtnext_ext_case *)
  ; "set:hit#1"; "upd:iterator->_bitmap_shifter#0"; "upd:iterator->_arg_index#1"             (* site_rtnext_next_entry *)
  ; "if#12"; "ret#4" ]                                                                       (* site_rtnext_if12; rtnext_after_switch1 *)
  /\ length NEXT = 69%nat.
Proof. exact rtnext_sites_covered. Qed.
Print Assumptions c09_code_rtnext_sites_covered.

(* every one of the 26 named sites of iterator_init *)
Theorem c09_code_rtinit_sites_covered : map fst INIT =
  [ "if#0"; "ret#0"                                                                          (* site_rtinit_if0 *)
  ; "if#1"; "ret#1"                                                                          (* site_rtinit_if1 *)
  ; "if#2"; "ret#2"                                                                          (* site_rtinit_it_len *)
  ; "set:iterator->_rtheader#0"                                                              (* site_rtinit_pointers *)
  ; "set:iterator->_max_length#0"                                                            (* site_rtinit_it_len *)
  ; "set:iterator->_arg_index#0"                                                             (* site_rtinit_constants *)
  ; "set:iterator->_bitmap_shifter#0"                                                        (* site_rtinit_present *)
  ; "set:iterator->_arg#0"                                                                   (* site_rtinit_pointers *)
  ; "set:iterator->_reset_on_ext#0"                                                          (* site_rtinit_constants *)
  ; "set:iterator->_next_bitmap#0"; "upd:iterator->_next_bitmap#0"                           (* site_rtinit_present, site_rtinit_next_bitmap_step *)
  ; "set:iterator->_vns#0"; "set:iterator->current_namespace#0"                              (* site_rtinit_pointers *)
  ; "set:iterator->is_radiotap_ns#0"                                                         (* site_rtinit_constants *)
  ; "if#3"                                                                                   (* site_rtinit_if3 *)
  ; "if#4"; "ret#3"                                                                          (* site_rtinit_bound *)
  ; "loop#0"; "upd:iterator->_arg#0"                                                         (* site_rtinit_loop *)
  ; "if#5"; "ret#4"                                                                          (* site_rtinit_bound *)
  ; "upd:iterator->_arg#1"                                                                   (* site_rtinit_loop *)
  ; "set:iterator->this_arg#0"                                                               (* site_rtinit_pointers *)
  ; "ret#5" ]                                                                                (* site_rtinit_constants *)
  /\ length INIT = 27%nat.
Proof. exact rtinit_sites_covered. Qed.
Print Assumptions c09_code_rtinit_sites_covered.

(* what is NOT an evaluated site: the four gotos and their label in next; nothing in init (the pointer increments are sites since
   the translator scales them by the pointee's size, the while loop is an executable SLoop) *)
Theorem c09_code_rtiter_not_sites : flat_map others body_ieee80211_radiotap_iterator_next = ["goto next_entry"; "goto next_entry"; "ContinueStmt"; "ContinueStmt"; "goto next_entry"; "goto next_entry"; "label next_entry"] /\
  flat_map others body_ieee80211_radiotap_iterator_init = [].
Proof. exact rtiter_not_sites. Qed.
Print Assumptions c09_code_rtiter_not_sites.

(* the constants: returned codes, the alignment / size of the special and vendor bits, the flags set by the second switch *)
Theorem c09_code_site_rtnext_constants : forall m rho,
  map (fun kv => ceval rho m (site NEXT (fst kv))) rtnext_const_sites = map (fun kv => Some (snd kv)) rtnext_const_sites.
Proof. exact site_rtnext_constants. Qed.
Print Assumptions c09_code_site_rtnext_constants.

(* the -ENOENT exit: bit 31 of the word and the shifter even *)
Theorem c09_code_site_rtnext_if0 : forall m rho idx sh,
  rho "iterator->_arg_index" = idx -> rho "iterator->_bitmap_shifter" = sh -> 0 <= idx < 2 ^ 31 -> 0 <= sh < 2 ^ 32 ->
  ceval rho m (site NEXT "if#0") = Some (b2z ((idx mod 32 =? c_IEEE80211_RADIOTAP_EXT) && negb (Z.odd sh))) /\
  ceval rho m (site NEXT "ret#0") = Some (- ENOENT).
Proof. exact site_rtnext_if0. Qed.
Print Assumptions c09_code_site_rtnext_if0.

(* argument not present *)
Theorem c09_code_site_rtnext_if1 : forall m rho sh,
  rho "iterator->_bitmap_shifter" = sh -> 0 <= sh < 2 ^ 32 ->
  ceval rho m (site NEXT "if#1") = Some (b2z (negb (Z.odd sh))).
Proof. exact site_rtnext_if1. Qed.
Print Assumptions c09_code_site_rtnext_if1.

(* both switches and the vendor test select on idx mod 32 *)
Theorem c09_code_site_rtnext_switch : forall m rho idx,
  rho "iterator->_arg_index" = idx -> 0 <= idx < 2 ^ 31 ->
  ceval rho m (site NEXT "switch#0") = Some (idx mod 32) /\
  ceval rho m (site NEXT "switch#1") = Some (idx mod 32) /\
  ceval rho m (site NEXT "if#6") = Some (b2z (idx mod 32 =? c_IEEE80211_RADIOTAP_VENDOR_NAMESPACE)).
Proof. exact site_rtnext_switch. Qed.
Print Assumptions c09_code_site_rtnext_switch.

(* first switch: 29 and 31 share align 1 / size 0, 30 has align 2 / size 6, the default consults the namespace table *)
Theorem c09_code_rtnext_switch0_shape : rtnext_switch0 = SSwitch "switch#0" (site NEXT "switch#0")
                     [([29; 31], rtnext_case_special); ([30], rtnext_case_vendor)] rtnext_case_default.
Proof. exact rtnext_switch0_shape. Qed.
Print Assumptions c09_code_rtnext_switch0_shape.

(* which case each value picks *)
Theorem c09_code_rtnext_switch0_pick : forall v,
  pick_case v [([29; 31], rtnext_case_special); ([30], rtnext_case_vendor)] rtnext_case_default =
  if (v =? c_IEEE80211_RADIOTAP_RADIOTAP_NAMESPACE) || (v =? c_IEEE80211_RADIOTAP_EXT) then rtnext_case_special
  else if v =? c_IEEE80211_RADIOTAP_VENDOR_NAMESPACE then rtnext_case_vendor else rtnext_case_default.
Proof. exact rtnext_switch0_pick. Qed.
Print Assumptions c09_code_rtnext_switch0_pick.

(* alignment and size are the low / high nibble of the table byte loaded at align_size + idx = Model table_entry *)
Theorem c09_code_site_rtnext_align_size_table : forall m rho ns idx T,
  rho "iterator->current_namespace" = ns -> rho "iterator->_arg_index" = idx ->
  0 <= ns < 2 ^ 62 -> 0 <= idx < rtap_n_bits -> load_le m ns 8 = Some T -> 0 <= T < 2 ^ 62 ->
  table_at m T (fun k => fst (table_entry k)) (fun k => snd (table_entry k)) ->
  ceval rho m (site NEXT "set:align#3") = Some (fst (table_entry idx)) /\
  ceval rho m (site NEXT "set:size#2") = Some (snd (table_entry idx)).
Proof. exact site_rtnext_align_size_table. Qed.
Print Assumptions c09_code_site_rtnext_align_size_table.

(* the padding mask equals (arg - header) mod align for every table entry *)
Theorem c09_code_site_rtnext_pad_table : forall m rho h a idx,
  rho "iterator->_rtheader" = h -> rho "iterator->_arg" = h + a -> rho "align" = fst (table_entry idx) ->
  0 <= h -> 0 <= a -> h + a < 2 ^ 64 -> 0 <= idx < rtap_n_bits ->
  ceval rho m (site NEXT "set:pad#0") = Some (a mod fst (table_entry idx)).
Proof. exact site_rtnext_pad_table. Qed.
Print Assumptions c09_code_site_rtnext_pad_table.

(* the argument pointer advances by align - pad *)
Theorem c09_code_site_rtnext_if5_arg : forall m rho h a al pad,
  rho "iterator->_arg" = h + a -> rho "align" = al -> rho "pad" = pad ->
  0 <= h -> 0 <= a -> h + a < 2 ^ 62 -> 0 <= pad < al -> al < 2 ^ 31 ->
  ceval rho m (site NEXT "if#5") = Some pad /\
  ceval rho m (site NEXT "upd:iterator->_arg#0") = Some (h + (a + (al - pad))).
Proof. exact site_rtnext_if5_arg. Qed.
Print Assumptions c09_code_site_rtnext_if5_arg.

(* vendor header must fit: -EINVAL when arg + size exceeds the stated length *)
Theorem c09_code_site_rtnext_if7 : forall m rho h a sz mx,
  rho "iterator->_rtheader" = h -> rho "iterator->_arg" = h + a -> rho "size" = sz -> rho "iterator->_max_length" = mx ->
  0 <= h -> 0 <= a -> h + a < 2 ^ 62 -> 0 <= sz < 2 ^ 31 -> 0 <= mx < 2 ^ 31 ->
  ceval rho m (site NEXT "if#7") = Some (b2z (mx <? a + sz)) /\ ceval rho m (site NEXT "ret#2") = Some (- EINVAL).
Proof. exact site_rtnext_if7. Qed.
Print Assumptions c09_code_site_rtnext_if7.

(* argument must fit *)
Theorem c09_code_site_rtnext_if9 : forall m rho h a mx,
  rho "iterator->_rtheader" = h -> rho "iterator->_arg" = h + a -> rho "iterator->_max_length" = mx ->
  0 <= h -> 0 <= a -> h + a < 2 ^ 64 -> 0 <= mx < 2 ^ 31 ->
  ceval rho m (site NEXT "if#9") = Some (b2z (mx <? a)) /\ ceval rho m (site NEXT "ret#3") = Some (- EINVAL).
Proof. exact site_rtnext_if9. Qed.
Print Assumptions c09_code_site_rtnext_if9.

(* OUI, sub-namespace and skip length are the octets at arg .. arg + 5 *)
Theorem c09_code_site_rtnext_vendor_loads : forall m rho h buf a,
  holds m h buf -> wfbytes buf -> rho "iterator->_arg" = h + a ->
  0 <= h -> 0 <= a -> h + a < 2 ^ 62 -> a + 6 <= zlen buf ->
  ceval rho m (site NEXT "set:oui#0") = Some (Z.lor (Z.lor (znth buf a * 2 ^ 16) (znth buf (a + 1) * 2 ^ 8)) (znth buf (a + 2))) /\
  ceval rho m (site NEXT "set:subns#0") = Some (znth buf (a + 3)) /\
  ceval rho m (site NEXT "set:vnslen#0") = Some (le16 buf (a + 4)).
Proof. exact site_rtnext_vendor_loads. Qed.
Print Assumptions c09_code_site_rtnext_vendor_loads.

(* next namespace data = arg + size + skip length; the size grows by the skip length when no namespace is registered *)
Theorem c09_code_site_rtnext_vendor_sizes : forall m rho h a sz vl ns,
  rho "iterator->_arg" = h + a -> rho "size" = sz -> rho "vnslen" = vl -> rho "iterator->current_namespace" = ns ->
  0 <= h -> 0 <= a -> h + a < 2 ^ 62 -> 0 <= sz < 2 ^ 30 -> 0 <= vl < 2 ^ 16 -> 0 <= ns < 2 ^ 64 ->
  ceval rho m (site NEXT "set:iterator->_next_ns_data#0") = Some (h + (a + sz + vl)) /\
  ceval rho m (site NEXT "if#8") = Some (b2z (ns =? 0)) /\
  ceval rho m (site NEXT "upd:size#0") = Some (sz + vl).
Proof. exact site_rtnext_vendor_sizes. Qed.
Print Assumptions c09_code_site_rtnext_vendor_sizes.

(* what is reported: index, pointer, size; the pointer then advances by size *)
Theorem c09_code_site_rtnext_this_arg : forall m rho h a sz idx,
  rho "iterator->_arg" = h + a -> rho "size" = sz -> rho "iterator->_arg_index" = idx ->
  0 <= h -> 0 <= a -> h + a < 2 ^ 62 -> 0 <= sz < 2 ^ 31 -> - 2 ^ 31 <= idx < 2 ^ 31 ->
  ceval rho m (site NEXT "set:iterator->this_arg_index#0") = Some idx /\
  ceval rho m (site NEXT "set:iterator->this_arg#0") = Some (h + a) /\
  ceval rho m (site NEXT "set:iterator->this_arg_size#0") = Some sz /\
  ceval rho m (site NEXT "upd:iterator->_arg#1") = Some (h + (a + sz)).
Proof. exact site_rtnext_this_arg. Qed.
Print Assumptions c09_code_site_rtnext_this_arg.

(* second switch: the statements of cases 30, 29, 31 and of the default with the label next_entry *)
Theorem c09_code_rtnext_switch1_shape : rtnext_switch1 = SSwitch "switch#1" (site NEXT "switch#1")
                     [([30], rtnext_case2_vendor); ([29], rtnext_case2_rtns); ([31], rtnext_case2_ext)] rtnext_case2_default.
Proof. exact rtnext_switch1_shape. Qed.
Print Assumptions c09_code_rtnext_switch1_shape.

(* case 30 *)
Theorem c09_code_site_rtnext_vendor_case : forall m rho ns,
  rho "iterator->current_namespace" = ns -> 0 <= ns < 2 ^ 64 ->
  ceval rho m (site NEXT "set:iterator->_reset_on_ext#0") = Some 1 /\
  ceval rho m (site NEXT "set:iterator->is_radiotap_ns#0") = Some 0 /\
  ceval rho m (site NEXT "set:iterator->this_arg_index#1") = Some c_IEEE80211_RADIOTAP_VENDOR_NAMESPACE /\
  ceval rho m (site NEXT "if#10") = Some (b2z (ns =? 0)) /\
  ceval rho m (site NEXT "set:hit#0") = Some 1.
Proof. exact site_rtnext_vendor_case. Qed.
Print Assumptions c09_code_site_rtnext_vendor_case.

(* case 29 *)
Theorem c09_code_site_rtnext_rtns_case : forall m rho rns,
  rho "&radiotap_ns" = rns -> 0 <= rns < 2 ^ 64 ->
  ceval rho m (site NEXT "set:iterator->_reset_on_ext#1") = Some 1 /\
  ceval rho m (site NEXT "set:iterator->current_namespace#1") = Some rns /\
  ceval rho m (site NEXT "set:iterator->is_radiotap_ns#1") = Some 1.
Proof. exact site_rtnext_rtns_case. Qed.
Print Assumptions c09_code_site_rtnext_rtns_case.

(* case 31: next present word loaded little-endian at _next_bitmap; index reset or incremented *)
Theorem c09_code_site_rtnext_ext_case : forall m rho h buf nb rs idx,
  holds m h buf -> wfbytes buf -> rho "iterator->_next_bitmap" = h + nb -> rho "iterator->_reset_on_ext" = rs ->
  rho "iterator->_arg_index" = idx ->
  0 <= h -> 0 <= nb -> h + nb < 2 ^ 62 -> nb + 4 <= zlen buf -> - 2 ^ 31 <= rs < 2 ^ 31 -> - 2 ^ 31 <= idx < 2 ^ 31 - 1 ->
  ceval rho m (site NEXT "set:iterator->_bitmap_shifter#0") = Some (le32 buf nb) /\
  ceval rho m (site NEXT "if#11") = Some rs /\
  ceval rho m (site NEXT "set:iterator->_arg_index#0") = Some 0 /\
  ceval rho m (site NEXT "upd:iterator->_arg_index#0") = Some (idx + 1) /\
  ceval rho m (site NEXT "set:iterator->_reset_on_ext#2") = Some 0.
Proof. exact site_rtnext_ext_case. Qed.
Print Assumptions c09_code_site_rtnext_ext_case.

(* default and next_entry: hit; shifter >> 1, index + 1 (the model's shift_next) *)
Theorem c09_code_site_rtnext_next_entry : forall m rho sh idx,
  rho "iterator->_bitmap_shifter" = sh -> rho "iterator->_arg_index" = idx ->
  0 <= sh < 2 ^ 32 -> - 2 ^ 31 <= idx < 2 ^ 31 - 1 ->
  ceval rho m (site NEXT "set:hit#1") = Some 1 /\
  ceval rho m (site NEXT "upd:iterator->_bitmap_shifter#0") = Some (Z.shiftr sh 1) /\
  ceval rho m (site NEXT "upd:iterator->_arg_index#1") = Some (idx + 1).
Proof. exact site_rtnext_next_entry. Qed.
Print Assumptions c09_code_site_rtnext_next_entry.

(* a hit returns 0 *)
Theorem c09_code_site_rtnext_if12 : forall m rho hit,
  rho "hit" = hit -> - 2 ^ 31 <= hit < 2 ^ 31 ->
  ceval rho m (site NEXT "if#12") = Some hit /\ ceval rho m (site NEXT "ret#4") = Some 0.
Proof. exact site_rtnext_if12. Qed.
Print Assumptions c09_code_site_rtnext_if12.

(* init: max_length < 8 refused *)
Theorem c09_code_site_rtinit_if0 : forall m rho mx,
  rho "max_length" = mx -> - 2 ^ 31 <= mx < 2 ^ 31 ->
  ceval rho m (site INIT "if#0") = Some (b2z (mx <? sizeof_ieee80211_radiotap_header)) /\
  ceval rho m (site INIT "ret#0") = Some (- EINVAL).
Proof. exact site_rtinit_if0. Qed.
Print Assumptions c09_code_site_rtinit_if0.

(* init: version must be 0 *)
Theorem c09_code_site_rtinit_if1 : forall m rho ver,
  rho "radiotap_header->it_version" = ver -> 0 <= ver < 256 ->
  ceval rho m (site INIT "if#1") = Some ver /\ ceval rho m (site INIT "ret#1") = Some (- EINVAL).
Proof. exact site_rtinit_if1. Qed.
Print Assumptions c09_code_site_rtinit_if1.

(* init: it_len little-endian at header + 2, refused when above max_length; becomes _max_length *)
Theorem c09_code_site_rtinit_it_len : forall m rho h buf mx,
  holds m h buf -> wfbytes buf -> rho "&radiotap_header->it_len" = h + off_ieee80211_radiotap_header__it_len ->
  rho "max_length" = mx -> 0 <= h < 2 ^ 62 -> 4 <= zlen buf -> - 2 ^ 31 <= mx < 2 ^ 31 ->
  ceval rho m (site INIT "if#2") = Some (b2z (mx <? le16 buf 2)) /\
  ceval rho m (site INIT "ret#2") = Some (- EINVAL) /\
  ceval rho m (site INIT "set:iterator->_max_length#0") = Some (le16 buf 2).
Proof. exact site_rtinit_it_len. Qed.
Print Assumptions c09_code_site_rtinit_it_len.

(* init: first present word little-endian at header + 4 *)
Theorem c09_code_site_rtinit_present : forall m rho h buf,
  holds m h buf -> wfbytes buf -> rho "&radiotap_header->it_present" = h + off_ieee80211_radiotap_header__it_present ->
  0 <= h < 2 ^ 62 -> 8 <= zlen buf ->
  ceval rho m (site INIT "set:iterator->_bitmap_shifter#0") = Some (le32 buf 4) /\
  ceval rho m (site INIT "set:iterator->_next_bitmap#0") = Some (h + 4).
Proof. exact site_rtinit_present. Qed.
Print Assumptions c09_code_site_rtinit_present.

(* init: _arg = header + 8, namespace &radiotap_ns *)
Theorem c09_code_site_rtinit_pointers : forall m rho h vns rns arg,
  rho "radiotap_header" = h -> rho "vns" = vns -> rho "&radiotap_ns" = rns -> rho "iterator->_arg" = arg ->
  0 <= h < 2 ^ 62 -> 0 <= vns < 2 ^ 64 -> 0 <= rns < 2 ^ 64 -> 0 <= arg < 2 ^ 64 ->
  ceval rho m (site INIT "set:iterator->_rtheader#0") = Some h /\
  ceval rho m (site INIT "set:iterator->_arg#0") = Some (h + sizeof_ieee80211_radiotap_header) /\
  ceval rho m (site INIT "set:iterator->_vns#0") = Some vns /\
  ceval rho m (site INIT "set:iterator->current_namespace#0") = Some rns /\
  ceval rho m (site INIT "set:iterator->this_arg#0") = Some arg.
Proof. exact site_rtinit_pointers. Qed.
Print Assumptions c09_code_site_rtinit_pointers.

(* init: EXT bit test *)
Theorem c09_code_site_rtinit_if3 : forall m rho sh,
  rho "iterator->_bitmap_shifter" = sh -> 0 <= sh < 2 ^ 32 ->
  ceval rho m (site INIT "if#3") = Some (Z.land sh bit31).
Proof. exact site_rtinit_if3. Qed.
Print Assumptions c09_code_site_rtinit_if3.

(* init: each further present word must fit *)
Theorem c09_code_site_rtinit_bound : forall m rho h a mx,
  rho "iterator->_rtheader" = h -> rho "iterator->_arg" = h + a -> rho "iterator->_max_length" = mx ->
  0 <= h -> 0 <= a -> h + a < 2 ^ 62 -> 0 <= mx < 2 ^ 31 ->
  ceval rho m (site INIT "if#4") = Some (b2z (mx <? a + 4)) /\ ceval rho m (site INIT "ret#3") = Some (- EINVAL) /\
  ceval rho m (site INIT "if#5") = Some (b2z (mx <? a + 4)) /\ ceval rho m (site INIT "ret#4") = Some (- EINVAL).
Proof. exact site_rtinit_bound. Qed.
Print Assumptions c09_code_site_rtinit_bound.

(* init: the chain continues while bit 31 of the word at _arg is set; steps of 4 *)
Theorem c09_code_site_rtinit_loop : forall m rho h buf a,
  holds m h buf -> wfbytes buf -> rho "iterator->_arg" = h + a ->
  0 <= h -> 0 <= a -> h + a < 2 ^ 62 -> a + 4 <= zlen buf ->
  ceval rho m (site INIT "loop#0") = Some (Z.land (le32 buf a) bit31) /\
  ceval rho m (site INIT "upd:iterator->_arg#0") = Some (h + (a + 4)) /\
  ceval rho m (site INIT "upd:iterator->_arg#1") = Some (h + (a + 4)).
Proof. exact site_rtinit_loop. Qed.
Print Assumptions c09_code_site_rtinit_loop.


(* ---------------------------------------------------------------------------------------------------------------
   ieee80211_radiotap_iterator_init AS TRANSLATED, THE WHOLE ROUTINE (Proofs/CodeRadiotapInit.v): executable since the translator
   scales pointer increments by the pointee's size and turns the while loop over the extended present words into an SLoop.
   For EVERY header buffer, with only the buffer readable: the run ends within 60 + 8 * length steps (no load outside the buffer, no
   overflow), returns the model's error code exactly when Model/Radiotap.v rt_init refuses (short buffer, version, it_len beyond the
   buffer, a chain of present words that does not end inside it_len - the loop by induction on the words left), and otherwise
   returns 0 leaving the model's iterator in the object's members: _max_length, index 0, the first present word, _arg / this_arg
   after the last present word, _next_bitmap = header + 8 (the increment by ONE uint32_t: C09-n's char pointer gives + 5),
   the radiotap namespace selected. *)
From LW Require Import Proofs.CodeSecurity Proofs.CodeRadiotapInit.

Theorem c09_code_rtinit_refines_model : forall buf h, wfbytes buf -> 0 < h -> h + zlen buf < 2 ^ 62 -> zlen buf < 2 ^ 31 ->
  forall rho vns rns,
  rho "max_length" = zlen buf -> rho "radiotap_header" = h ->
  (1 <= zlen buf -> rho "radiotap_header->it_version" = znth buf 0) ->
  rho "&radiotap_header->it_len" = h + off_ieee80211_radiotap_header__it_len ->
  rho "&radiotap_header->it_present" = h + off_ieee80211_radiotap_header__it_present ->
  rho "vns" = vns -> rho "&radiotap_ns" = rns -> 0 <= vns < 2 ^ 64 -> 0 <= rns < 2 ^ 64 ->
  wp (60 + 8 * Z.to_nat (zlen buf)) (mem_at h buf) rho [] body_ieee80211_radiotap_iterator_init
     (fun o => match rt_init (rd_strict buf) (zlen buf) with
               | Done (Err c) => exists rho1 tr1, o = Returned (Some c) rho1 tr1
               | Done (Ok it) =>
                   exists rho1 tr1, o = Returned (Some 0) rho1 tr1 /\
                     rho1 "iterator->_rtheader" = h /\ rho1 "iterator->_max_length" = r_max it /\
                     rho1 "iterator->_arg_index" = r_idx it /\ rho1 "iterator->_bitmap_shifter" = r_shift it /\
                     (exists a, r_arg it = Some a /\ rho1 "iterator->_arg" = h + a /\ rho1 "iterator->this_arg" = h + a) /\
                     rho1 "iterator->_next_bitmap" = h + r_nextbm it /\ rho1 "iterator->_reset_on_ext" = b2z (r_reset it) /\
                     r_ns it = true /\ rho1 "iterator->current_namespace" = rns /\ rho1 "iterator->is_radiotap_ns" = 1 /\
                     rho1 "iterator->_vns" = vns
               | _ => False
               end).
Proof. exact code_rtinit_refines_model. Qed.
Print Assumptions c09_code_rtinit_refines_model.

(* ---------------------------------------------------------------------------------------------------------------
   ieee80211_radiotap_iterator_next AS TRANSLATED is executable by Base/CGoto.v's execg - exec plus forward gotos: a jump out of a
   compound statement continues behind the label found in the rest of the enclosing list or in the default group of a switch of it
   (find_ns is inlined at its call site).  Proofs/CodeRadiotapNextPass.v, for ALL values in range:
   WHERE goto next_entry lands (computed from the translated body), the -ENOENT exit, and the whole pass over an absent argument:
   the jump lands behind the label, shifter >> 1, index + 1, `if (hit)` not taken, and the loop makes its next pass from exactly
   the model's shift_next state with one unit of fuel less.  (The passes that report a field are covered per named site above and
   executed by the kernel on every run's sampled headers: Proofs/CodeRadiotapNextRun.v, lib/xcheck.py.) *)
From LW Require Import Base.CGoto Proofs.CodeRadiotapNextPass.

Theorem c09_code_rtnext_goto_landing :
  landing "next_entry" rtnext_tail7 = Some (SSwitch "switch#1" (CLit (mkty true 32) 0) [] next_entry_tail :: after_switch1) /\
  next_entry_tail =
    [SSet "upd:iterator->_bitmap_shifter#0" "iterator->_bitmap_shifter" (site NEXT "upd:iterator->_bitmap_shifter#0");
     SSet "upd:iterator->_arg_index#1" "iterator->_arg_index" (site NEXT "upd:iterator->_arg_index#1")] /\
  after_switch1 = [SIf "if#12" (site NEXT "if#12") [SRet "ret#4" (Some (site NEXT "ret#4"))] []].
Proof. split; [exact landing_next_entry | split; reflexivity]. Qed.
Print Assumptions c09_code_rtnext_goto_landing.

Theorem c09_code_rtnext_enoent : forall m rho tr idx sh F,
  rho "iterator->_arg_index" = idx -> rho "iterator->_bitmap_shifter" = sh -> 0 <= idx < 2 ^ 31 -> 0 <= sh < 2 ^ 32 ->
  idx mod 32 = c_IEEE80211_RADIOTAP_EXT -> Z.odd sh = false ->
  execg (10 + F) m rho tr body_ieee80211_radiotap_iterator_next = GReturned (Some (- ENOENT)) (locals0 rho) tr.
Proof. exact rtnext_code_enoent. Qed.
Print Assumptions c09_code_rtnext_enoent.

Theorem c09_code_rtnext_absent_pass : forall m rho tr idx sh F,
  rho "iterator->_arg_index" = idx -> rho "iterator->_bitmap_shifter" = sh -> 0 <= idx < 2 ^ 31 - 1 -> 0 <= sh < 2 ^ 32 ->
  idx mod 32 <> c_IEEE80211_RADIOTAP_EXT -> Z.odd sh = false ->
  execg (14 + F) m rho tr body_ieee80211_radiotap_iterator_next =
  execg (13 + F) m (upd (upd (locals0 rho) "iterator->_bitmap_shifter" (Z.shiftr sh 1)) "iterator->_arg_index" (idx + 1)) tr
        body_ieee80211_radiotap_iterator_next.
Proof. exact rtnext_code_absent_pass. Qed.
Print Assumptions c09_code_rtnext_absent_pass.

(* the pass that REPORTS A FIELD (Proofs/CodeRadiotapNextHit.v), for ALL values in range: argument present, field number below n_bits
   in the radiotap namespace whose table the memory holds.  Alignment and size are LOADED from the table, the argument pointer is
   rounded up to the alignment relative to the header, the bounds test decides between -EINVAL and the hit; on a hit the default group
   of the second switch sets hit, falls INTO the label next_entry (shifter >> 1, index + 1), `if (hit)` returns 0 with
   this_arg_index = idx and this_arg = header + the ALIGNED offset (the model's  Hit (r_idx it) a), _arg behind the field. *)
From LW Require Import Proofs.CodeRadiotapGen Proofs.CodeRadiotapNextHit.

Theorem c09_code_rtnext_field_pass : forall m rho tr idx sh h a mx rns T F,
  rho "iterator->_arg_index" = idx -> rho "iterator->_bitmap_shifter" = sh -> rho "iterator->_arg" = h + a ->
  rho "iterator->_rtheader" = h -> rho "iterator->_max_length" = mx -> rho "iterator->current_namespace" = rns ->
  0 <= idx < rtap_n_bits -> 0 <= sh < 2 ^ 32 -> Z.odd sh = true ->
  0 <= h -> 0 <= a -> h + a + 32 < 2 ^ 62 -> 0 <= mx < 2 ^ 31 -> 0 < rns < 2 ^ 62 -> 0 <= rho "iterator->_next_ns_data" < 2 ^ 64 ->
  load_le m (rns + 8) 4 = Some rtap_n_bits -> load_le m rns 8 = Some T -> 0 <= T < 2 ^ 62 ->
  table_at m T (fun k => fst (table_entry k)) (fun k => snd (table_entry k)) ->
  let al := fst (table_entry idx) in let sz := snd (table_entry idx) in
  let a' := if a mod al =? 0 then a else a + (al - a mod al) in
  if mx <? a' + sz then
    exists rho', execg (60 + F) m rho tr body_ieee80211_radiotap_iterator_next = GReturned (Some (- EINVAL)) rho' tr
  else
    exists rho', execg (60 + F) m rho tr body_ieee80211_radiotap_iterator_next = GReturned (Some 0) rho' tr /\
      rho' "iterator->this_arg_index" = idx /\ rho' "iterator->this_arg" = h + a' /\ rho' "iterator->this_arg_size" = sz /\
      rho' "iterator->_arg" = h + (a' + sz) /\ rho' "iterator->_bitmap_shifter" = Z.shiftr sh 1 /\
      rho' "iterator->_arg_index" = idx + 1 /\ rho' "iterator->_max_length" = mx /\ rho' "iterator->_rtheader" = h /\
      rho' "iterator->current_namespace" = rns /\ rho' "iterator->_next_bitmap" = rho "iterator->_next_bitmap" /\
      rho' "iterator->_reset_on_ext" = rho "iterator->_reset_on_ext".
Proof. exact rtnext_code_field_pass. Qed.
Print Assumptions c09_code_rtnext_field_pass.

(* the pass over bit 29 (namespace reset): the jump out of case 29 INTO THE DEFAULT GROUP OF THE SAME SWITCH lands behind the label *)
From LW Require Import Proofs.CodeRadiotapNextReset Proofs.CodeRadiotapNextExt.
Theorem c09_code_rtnext_ns_reset_pass : forall m rho tr idx sh h a mx rns F,
  rho "iterator->_arg_index" = idx -> rho "iterator->_bitmap_shifter" = sh -> rho "iterator->_arg" = h + a ->
  rho "iterator->_rtheader" = h -> rho "iterator->_max_length" = mx -> rho "&radiotap_ns" = rns ->
  0 <= idx < 2 ^ 31 - 1 -> idx mod 32 = c_IEEE80211_RADIOTAP_RADIOTAP_NAMESPACE -> 0 <= sh < 2 ^ 32 -> Z.odd sh = true ->
  0 <= h -> 0 <= a -> h + a + 32 < 2 ^ 62 -> 0 <= mx < 2 ^ 31 -> 0 <= rns < 2 ^ 64 ->
  if mx <? a then
    exists rho', execg (60 + F) m rho tr body_ieee80211_radiotap_iterator_next = GReturned (Some (- EINVAL)) rho' tr
  else
    exists rho', execg (60 + F) m rho tr body_ieee80211_radiotap_iterator_next =
                 execg (59 + F) m rho' tr body_ieee80211_radiotap_iterator_next /\
      rho' "iterator->_arg" = h + a /\ rho' "iterator->_bitmap_shifter" = Z.shiftr sh 1 /\ rho' "iterator->_arg_index" = idx + 1 /\
      rho' "iterator->_reset_on_ext" = 1 /\ rho' "iterator->current_namespace" = rns /\ rho' "iterator->is_radiotap_ns" = 1 /\
      rho' "iterator->_max_length" = mx /\ rho' "iterator->_rtheader" = h /\
      rho' "iterator->_next_bitmap" = rho "iterator->_next_bitmap".
Proof. exact rtnext_code_ns_reset_pass. Qed.
Print Assumptions c09_code_rtnext_ns_reset_pass.

(* the pass over bit 31 (another present word follows): the word is LOADED at _next_bitmap inside the header, _next_bitmap + 4,
   the index reset to 0 after a namespace word and incremented otherwise *)
Theorem c09_code_rtnext_ext_pass : forall m rho tr idx sh h buf a mx nb rs F,
  holds m h buf -> wfbytes buf ->
  rho "iterator->_arg_index" = idx -> rho "iterator->_bitmap_shifter" = sh -> rho "iterator->_arg" = h + a ->
  rho "iterator->_rtheader" = h -> rho "iterator->_max_length" = mx -> rho "iterator->_next_bitmap" = h + nb ->
  rho "iterator->_reset_on_ext" = rs ->
  0 <= idx < 2 ^ 31 - 2 -> idx mod 32 = c_IEEE80211_RADIOTAP_EXT -> 0 <= sh < 2 ^ 32 -> Z.odd sh = true ->
  0 <= h -> 0 <= a -> h + a + 32 < 2 ^ 62 -> 0 <= mx < 2 ^ 31 -> 0 <= nb -> nb + 4 <= zlen buf -> h + nb + 4 < 2 ^ 62 ->
  - 2 ^ 31 <= rs < 2 ^ 31 ->
  if mx <? a then
    exists rho', execg (60 + F) m rho tr body_ieee80211_radiotap_iterator_next = GReturned (Some (- EINVAL)) rho' tr
  else
    exists rho' tr', execg (60 + F) m rho tr body_ieee80211_radiotap_iterator_next =
                     execg (59 + F) m rho' tr' body_ieee80211_radiotap_iterator_next /\
      rho' "iterator->_arg" = h + a /\ rho' "iterator->_bitmap_shifter" = le32 buf nb /\
      rho' "iterator->_arg_index" = (if rs =? 0 then idx + 1 else 0) /\
      rho' "iterator->_next_bitmap" = h + nb + 4 /\ rho' "iterator->_reset_on_ext" = 0 /\
      rho' "iterator->_max_length" = mx /\ rho' "iterator->_rtheader" = h /\
      rho' "iterator->current_namespace" = rho "iterator->current_namespace".
Proof. exact rtnext_code_ext_pass. Qed.
Print Assumptions c09_code_rtnext_ext_pass.

(* an undefined field number in the radiotap namespace: -ENOENT from the default group of the first switch; and a present bit while NO
   namespace is current: align = 0, _arg := _next_ns_data, goto next_entry out of an `if` inside the first switch, past the rest of
   the loop body, into the default group of the second switch (Proofs/CodeRadiotapNextSkip.v) *)
From LW Require Import Proofs.CodeRadiotapNextSkip.
Theorem c09_code_rtnext_undefined_field : forall m rho tr idx sh rns F,
  rho "iterator->_arg_index" = idx -> rho "iterator->_bitmap_shifter" = sh -> rho "iterator->current_namespace" = rns ->
  rho "&radiotap_ns" = rns ->
  rtap_n_bits <= idx < 2 ^ 31 -> idx mod 32 <> 29 -> idx mod 32 <> 30 -> idx mod 32 <> 31 -> 0 <= sh < 2 ^ 32 -> Z.odd sh = true ->
  0 < rns < 2 ^ 62 -> load_le m (rns + 8) 4 = Some rtap_n_bits ->
  exists rho', execg (40 + F) m rho tr body_ieee80211_radiotap_iterator_next = GReturned (Some (- ENOENT)) rho' tr.
Proof. exact rtnext_code_undefined_field. Qed.
Print Assumptions c09_code_rtnext_undefined_field.

Theorem c09_code_rtnext_unknown_ns_skip : forall m rho tr idx sh nnd rns F,
  rho "iterator->_arg_index" = idx -> rho "iterator->_bitmap_shifter" = sh -> rho "iterator->current_namespace" = 0 ->
  rho "&radiotap_ns" = rns -> rho "iterator->_next_ns_data" = nnd ->
  0 <= idx < 2 ^ 31 - 1 -> idx mod 32 <> 29 -> idx mod 32 <> 30 -> idx mod 32 <> 31 -> 0 <= sh < 2 ^ 32 -> Z.odd sh = true ->
  0 < rns < 2 ^ 64 -> 0 <= nnd < 2 ^ 64 ->
  exists rho', execg (40 + F) m rho tr body_ieee80211_radiotap_iterator_next =
               execg (39 + F) m rho' tr body_ieee80211_radiotap_iterator_next /\
    rho' "iterator->_arg" = nnd /\ rho' "iterator->current_namespace" = 0 /\
    rho' "iterator->_bitmap_shifter" = Z.shiftr sh 1 /\ rho' "iterator->_arg_index" = idx + 1 /\
    rho' "iterator->_max_length" = rho "iterator->_max_length" /\ rho' "iterator->_rtheader" = rho "iterator->_rtheader" /\
    rho' "iterator->_next_bitmap" = rho "iterator->_next_bitmap" /\ rho' "iterator->_reset_on_ext" = rho "iterator->_reset_on_ext".
Proof. exact rtnext_code_unknown_ns_skip. Qed.
Print Assumptions c09_code_rtnext_unknown_ns_skip.

(* the pass over bit 30 (vendor namespace, none registered): the six-octet vendor header LOADED inside the buffer, find_ns (inlined)
   clears the namespace, _next_ns_data behind the vendor data, both bounds tests, this_arg_index = 30 reported at the 2-aligned offset
   (Proofs/CodeRadiotapNextVendor.v).  With it EVERY kind of pass of the while (1) loop has a whole-pass theorem for all values. *)
From LW Require Import Proofs.CodeRadiotapNextVendor.
Theorem c09_code_rtnext_vendor_pass : forall m rho tr idx sh h buf a mx ns0 F,
  holds m h buf -> wfbytes buf ->
  rho "iterator->_arg_index" = idx -> rho "iterator->_bitmap_shifter" = sh -> rho "iterator->_arg" = h + a ->
  rho "iterator->_rtheader" = h -> rho "iterator->_max_length" = mx -> rho "iterator->_vns" = 0 ->
  rho "iterator->current_namespace" = ns0 ->
  0 <= idx < 2 ^ 31 - 1 -> idx mod 32 = c_IEEE80211_RADIOTAP_VENDOR_NAMESPACE -> 0 <= sh < 2 ^ 32 -> Z.odd sh = true ->
  0 <= h -> 0 <= a -> h + a + 70000 < 2 ^ 62 -> 0 <= mx < 2 ^ 31 -> mx <= zlen buf -> 0 <= ns0 < 2 ^ 64 ->
  let a2 := if a mod 2 =? 0 then a else a + (2 - a mod 2) in let vl := le16 buf (a2 + 4) in
  if mx <? a2 + 6 then
    exists rho', execg (80 + F) m rho tr body_ieee80211_radiotap_iterator_next = GReturned (Some (- EINVAL)) rho' tr
  else if mx <? a2 + (6 + vl) then
    exists rho' tr', execg (80 + F) m rho tr body_ieee80211_radiotap_iterator_next = GReturned (Some (- EINVAL)) rho' tr'
  else
    exists rho' tr', execg (80 + F) m rho tr body_ieee80211_radiotap_iterator_next = GReturned (Some 0) rho' tr' /\
      rho' "iterator->this_arg_index" = c_IEEE80211_RADIOTAP_VENDOR_NAMESPACE /\ rho' "iterator->this_arg" = h + a2 /\
      rho' "iterator->this_arg_size" = 6 + vl /\ rho' "iterator->_arg" = h + (a2 + (6 + vl)) /\
      rho' "iterator->_next_ns_data" = h + (a2 + 6 + vl) /\ rho' "iterator->current_namespace" = 0 /\
      rho' "iterator->_reset_on_ext" = 1 /\ rho' "iterator->is_radiotap_ns" = 0 /\
      rho' "iterator->_bitmap_shifter" = Z.shiftr sh 1 /\ rho' "iterator->_arg_index" = idx + 1.
Proof. exact rtnext_code_vendor_pass. Qed.
Print Assumptions c09_code_rtnext_vendor_pass.

(* k absent arguments in a row: composition of whole passes by induction on their number - the run from rho with k more units of fuel
   is the run from the state after k applications of the model's shift_next *)
Theorem c09_code_rtnext_absent_run : forall m tr F (k : nat) rho idx sh,
  rho "iterator->_arg_index" = idx -> rho "iterator->_bitmap_shifter" = sh ->
  0 <= idx -> idx + Z.of_nat k < 2 ^ 31 - 1 -> 0 <= sh < 2 ^ 32 ->
  (forall j, 0 <= j < Z.of_nat k -> Z.testbit sh j = false /\ (idx + j) mod 32 <> c_IEEE80211_RADIOTAP_EXT) ->
  execg (13 + F + k) m rho tr body_ieee80211_radiotap_iterator_next =
  execg (13 + F) m (absent_iter k rho idx sh) tr body_ieee80211_radiotap_iterator_next.
Proof. exact rtnext_code_absent_run. Qed.
Print Assumptions c09_code_rtnext_absent_run.
