(* C09 - radiotap headers are decoded at their specified aligned offsets or refused.  Statements only. *)
From LW Require Import Base.Bytes Model.Radiotap Spec.RadiotapSpec Spec.RadiotapChainSpec Proofs.RadiotapProofs
  Proofs.RadiotapChainProofs.
Local Open Scope Z_scope.

(* every byte string, any chain of present words, namespaces and vendor data: the decoder terminates
   and reads nothing outside the supplied bytes (Done: neither OutOfFuel nor Fault, for a read oracle
   that is arbitrary or faulting outside the buffer) *)
Theorem c09_total : forall buf rd, wfbytes buf -> agrees rd buf ->
  exists o, parse_radiotap_info rd (zlen buf) = Done o.
Proof. exact rt_total. Qed.
Print Assumptions c09_total.

(* non-zero version, length below 8, length beyond the supplied bytes, length not representable: refused *)
Theorem c09_refused : forall buf rd, wfbytes buf -> agrees rd buf -> s_refused buf ->
  exists c, parse_radiotap_info rd (zlen buf) = Done (Err c) /\ c < 0.
Proof. exact rt_refused. Qed.
Print Assumptions c09_refused.

(* the reported header length is the header's own length field, and it lies inside the supplied bytes *)
Theorem c09_length : forall buf rd info, wfbytes buf -> agrees rd buf ->
  parse_radiotap_info rd (zlen buf) = Done (Ok info) ->
  i_length info = s_it_len buf /\ 8 <= i_length info <= zlen buf /\ i_length info <= 255.
Proof. exact rt_length. Qed.
Print Assumptions c09_length.

(* every well-formed single-word header - ALL 2^23 selections of the defined fields, all field values,
   arbitrary padding and trailing bytes - decodes to the values stored at the naturally aligned
   little-endian offsets of the radiotap specification *)
Theorem c09_single_word : forall buf rd, wfbytes buf -> agrees rd buf -> s_wf1 buf ->
  parse_radiotap_info rd (zlen buf) = Done (Ok (s_info buf)).
Proof. exact rt_single_word. Qed.
Print Assumptions c09_single_word.

(* the library's alignment/size table (as compiled) is the specification's *)
Theorem c09_table : Gen.Rtap.rtap_align_size = s_align_size /\ Gen.Rtap.rtap_n_bits = 23.
Proof. exact rt_table. Qed.
Print Assumptions c09_table.

(* band and channel number follow the frequency, for all 65536 frequencies *)
Theorem c09_band_channel : forall f, 0 <= f < 65536 -> band_center f = s_band_center f.
Proof. exact band_center_ok. Qed.
Print Assumptions c09_band_channel.

(* every well-formed header with ANY chain of present words - any number of words, namespace resets
   (bit 29), vendor namespaces (bit 30: 6-byte header at 2-byte alignment, any skip length, vendor
   words with arbitrary field bits, continued or followed by further vendor namespaces), all field
   values, padding and trailing bytes - decodes to the values stored at the naturally aligned
   little-endian offsets the radiotap specification assigns (s_chain_layout: structural recursion over
   the list of present words), per-antenna signals included; rd is arbitrary outside the buffer *)
Theorem c09_chain : forall buf rd, wfbytes buf -> agrees rd buf -> s_wf_chain buf ->
  parse_radiotap_info rd (zlen buf) = Done (Ok (s_info_chain buf)).
Proof. exact rt_chain. Qed.
Print Assumptions c09_chain.

(* the class is decidable, and it contains every well-formed single-word header, on which the chain
   specification is the single-word one *)
Theorem c09_chain_decidable : forall buf, s_wf_chainb buf = true <-> s_wf_chain buf.
Proof. exact s_wf_chainb_iff. Qed.
Print Assumptions c09_chain_decidable.
Theorem c09_chain_extends_single : forall buf, wfbytes buf -> s_wf1 buf ->
  s_wf_chain buf /\ s_info_chain buf = s_info buf.
Proof.
  intros buf Hwf H1. split; [apply (wf1_wf_chain buf Hwf H1)|apply (chain_single buf Hwf H1)].
Qed.
Print Assumptions c09_chain_extends_single.

(* ---- libwifi_parse_radiotap_info AS TRANSLATED (Gen/Sites.v): the header guards (frame_len < 8, it_len < 8 or > 255 refuse having called nothing but the memset; the iterator's
   error is returned as it is), ONE turn of the field switch for every field number (the members assigned are exactly the little-endian values at the field's sub-offsets - CHANNEL
   0/2, MCS 0/1/2, TIMESTAMP 0/8/10/11 ... - and with the field's last octet unreadable the turn is stuck), that turn refines the Spec's per-field decoder (s_apply) and the model's
   (rt_field) for every field number and contents, and the loop ends with 0 when the iterator's next answers non-zero.  The iterator routines themselves contain goto and are not
   executed by exec: their answers are unknowns here and they stay tied by the correspondence.  rt_turn_env, rt_turn_calls, rt_entry_env, info_rel ... are defined in
   Proofs/CodeRadiotapParse.v. ---- *)
From Coq Require Import String.
From LW Require Import Base.Bytes Base.CExpr Gen.Sites Spec.CodeSpec Proofs.CodeRadiotapParse.
Local Open Scope string_scope.
Local Open Scope Z_scope.

Theorem c09_code_rtap_header_guards : forall buf a rho F,
  wfbytes buf -> 0 < a -> a + zlen buf < 2 ^ 62 -> rho "frame" = a -> rho "frame_len" = zlen buf ->
  let m := mem_at a buf in
  let r0 := wrap (mkty true 32) (rho "ret:ieee80211_radiotap_iterator_init") in
  let run := exec (11 + F) m rho [] body_libwifi_parse_radiotap_info in
  if (zlen buf <? 8) || (le16 buf 2 <? 8) || (255 <? le16 buf 2) then
    observe run = Some (Some (-22), [rt_memset_call rho])
  else if negb (r0 =? 0) then
    observe run = Some (Some r0, [rt_memset_call rho; rt_init_call rho a (zlen buf)])
  else
    run = exec F m (rt_entry_env rho a (le16 buf 2)) [rt_memset_call rho; rt_init_call rho a (zlen buf)] [rt_loop; rt_ret0].
Proof. exact code_rtap_header_guards. Qed.
Print Assumptions c09_code_rtap_header_guards.

Theorem c09_code_rtap_switch_field : forall p fb rho tr k F,
  0 < p -> p + zlen fb < 2 ^ 62 -> wfbytes fb -> rho "it.this_arg" = p ->
  wrap (mkty true 32) (rho "it.this_arg_index") = k -> rt_size k <= zlen fb -> (30 <= F)%nat ->
  exec F (mem_at p fb) rho tr [rt_switch] = Fell (rt_turn_env k fb rho) (tr ++ rt_turn_calls k p fb rho)%list.
Proof. exact code_rtap_switch_field. Qed.
Print Assumptions c09_code_rtap_switch_field.

Theorem c09_code_rtap_switch_refines_spec : forall fb rho k x sk,
  k <> 31 -> info_rel rho x sk ->
  info_rel (rt_turn_env k fb rho) (fst (s_apply fb (x, sk) (k, 0))) (snd (s_apply fb (x, sk) (k, 0))).
Proof. exact code_rtap_switch_refines_spec. Qed.
Print Assumptions c09_code_rtap_switch_refines_spec.

Theorem c09_code_rtap_switch_refines_model : forall fb rho k x sk,
  wfbytes fb -> 0 <= k < 23 -> snd (table_entry k) <= zlen fb -> info_rel rho x sk ->
  exists x' sk', rt_field (rd_strict fb) x sk k 0 = Done (x', sk') /\ info_rel (rt_turn_env k fb rho) x' sk'.
Proof. exact code_rtap_switch_refines_model. Qed.
Print Assumptions c09_code_rtap_switch_refines_model.

Theorem c09_code_rtap_loop_exit : forall m rho tr rho2 tr2 F,
  wrap (mkty true 32) (rho "ret") = 0 ->
  exec (5 + F) m rho tr [rt_switch] = Fell rho2 tr2 ->
  let rn := wrap (mkty true 32) (rho2 "ret:ieee80211_radiotap_iterator_next") in
  rn <> 0 ->
  let rho3 := upd (clobber rho2 (length (tr2 ++ [rt_next_call rho2])) "it") "ret" rn in
  exec (6 + F) m rho tr [rt_loop; rt_ret0] = Returned (Some 0) rho3 (tr2 ++ [rt_next_call rho2])%list /\
  (forall x, String.prefix "it" x = false -> x <> "ret" -> rho3 x = rho2 x).
Proof. exact code_rtap_loop_exit. Qed.
Print Assumptions c09_code_rtap_loop_exit.

