(* C04 - management parsers report what the frame says; generated frames round-trip.  Statements only. *)
From LW Require Import Base.Bytes Model.TagIter Spec.TagSpec Model.Radiotap Model.Frame Spec.FrameSpec Model.Security Model.Mgmt
  Spec.EapolSpec Spec.SecuritySpec Spec.MgmtSpec Spec.GenSpec Proofs.MgmtProofs Proofs.RoundtripProofs.
Local Open Scope Z_scope.

(* every parser returns exactly the Spec on every classified frame (all reads inside the library's own
   copies: Done, not Fault) *)
Theorem c04_bss_exact : forall f, frame_ok f ->
  parse_beacon f = Done (s_parse_beacon f) /\ parse_probe_resp f = Done (s_parse_probe_resp f) /\
  parse_assoc_resp f = Done (s_parse_assoc_resp f) /\ parse_reassoc_resp f = Done (s_parse_reassoc_resp f).
Proof. exact bss_parsers_exact. Qed.
Print Assumptions c04_bss_exact.

Theorem c04_sta_exact : forall f, frame_ok f ->
  parse_probe_req f = Done (s_parse_probe_req f) /\ parse_assoc_req f = Done (s_parse_assoc_req f) /\
  parse_reassoc_req f = Done (s_parse_reassoc_req f).
Proof. exact sta_parsers_exact. Qed.
Print Assumptions c04_sta_exact.

Theorem c04_reason_exact : forall f, frame_ok f ->
  parse_deauth f = Done (s_parse_reason f 12) /\ parse_disassoc f = Done (s_parse_reason f 10).
Proof. exact reason_parsers_exact. Qed.
Print Assumptions c04_reason_exact.

(* the parser of every other subtype refuses the frame *)
Theorem c04_other_subtype_refused : forall f st fixed cap all, s_is f st = false ->
  s_parse_bss f st fixed cap all = Err (- EINVAL) /\ s_parse_sta f st fixed = Err (- EINVAL) /\
  s_parse_reason f st = Err (- EINVAL).
Proof. exact other_subtype_refused. Qed.
Print Assumptions c04_other_subtype_refused.

(* the reported result does not depend on the radiotap / FCS circumstances of the frame *)
Theorem c04_flag_independent : forall f f', f_fc f = f_fc f' -> f_header f = f_header f' -> f_body f = f_body f' ->
  s_parse_beacon f = s_parse_beacon f' /\ s_parse_probe_resp f = s_parse_probe_resp f' /\
  s_parse_assoc_resp f = s_parse_assoc_resp f' /\ s_parse_reassoc_resp f = s_parse_reassoc_resp f' /\
  s_parse_probe_req f = s_parse_probe_req f' /\ s_parse_assoc_req f = s_parse_assoc_req f' /\
  s_parse_reassoc_req f = s_parse_reassoc_req f' /\ (forall st, s_parse_reason f st = s_parse_reason f' st).
Proof. exact flag_independent. Qed.
Print Assumptions c04_flag_independent.

(* ---- the parsers see EVERY element of the tagged parameters, also those behind an element with an empty body
   (finding F44: iteration used to stop at the first empty non-leading element).  The elements of an encoded list
   t1 .. tn, with the offsets of their headers: *)
Fixpoint elems_at (l : list tag) (off : Z) : list elem :=
  match l with
  | [] => []
  | t :: r => {| e_off := off; e_num := fst t; e_len := zlen (snd t) |} :: elems_at r (off + 2 + zlen (snd t))
  end.
Theorem c04_elements_after_empty : forall t l, spec_iterate (enc (t :: l)) = Ok (elems_at (t :: l) 0).
Proof. exact iterate_enc. Qed.
Print Assumptions c04_elements_after_empty.

(* ---- generated frames round-trip.  Appended tags may be anything that does not itself carry an SSID,
   a channel or security information (numbers 0, 3, 61, 48, 221) *)
Definition neutral (extras : list tag) : Prop :=
  Forall (fun t => ~ In (fst t) [0; 3; 61; 48; 221]) extras.
Definition hidden_of (ssid : list byte) : Z := if forallb (fun b => b =? 0) ssid then 1 else 0.
Definition ssid_field (ssid : list byte) : list byte := put0 ssid zero33.

Theorem c04_roundtrip_beacon : forall a1 a2 a3 ssid ch now extras,
  mac_ok a1 -> mac_ok a2 -> mac_ok a3 -> ssid_ok ssid -> zlen ssid <= 32 -> u8 ch -> 0 <= now < 2 ^ 64 ->
  wf_tags extras -> neutral extras ->
  exists f, spec_classify (s_beacon a1 a2 a3 ssid ch now extras) None = Ok f /\
    s_parse_beacon f = Ok {| b_transmitter := a2; b_receiver := a1; b_bssid := a3; b_ssid := ssid_field ssid;
                             b_hidden := hidden_of ssid; b_channel := ch; b_wps := 0; b_enc := 0; b_wpa := wpa0;
                             b_rsn := rsn0; b_tags := enc ([(0, ssid); (3, [ch])] ++ extras) |}.
Proof. exact roundtrip_beacon. Qed.
Print Assumptions c04_roundtrip_beacon.

Theorem c04_roundtrip_probe_resp : forall a1 a2 a3 ssid ch now extras,
  mac_ok a1 -> mac_ok a2 -> mac_ok a3 -> ssid_ok ssid -> zlen ssid <= 32 -> u8 ch -> 0 <= now < 2 ^ 64 ->
  wf_tags extras -> neutral extras ->
  exists f, spec_classify (s_probe_resp a1 a2 a3 ssid ch now extras) None = Ok f /\
    s_parse_probe_resp f = Ok {| b_transmitter := a2; b_receiver := a1; b_bssid := a3; b_ssid := ssid_field ssid;
                                 b_hidden := hidden_of ssid; b_channel := ch; b_wps := 0; b_enc := 0; b_wpa := wpa0;
                                 b_rsn := rsn0; b_tags := enc ([(0, ssid); (3, [ch])] ++ extras) |}.
Proof. exact roundtrip_probe_resp. Qed.
Print Assumptions c04_roundtrip_probe_resp.

Theorem c04_roundtrip_assoc_resp : forall a1 a2 a3 ch extras,
  mac_ok a1 -> mac_ok a2 -> mac_ok a3 -> u8 ch -> wf_tags extras -> neutral extras ->
  exists f, spec_classify (s_assoc_resp a1 a2 a3 ch extras) None = Ok f /\
    s_parse_assoc_resp f = Ok {| b_transmitter := a2; b_receiver := a1; b_bssid := a3; b_ssid := zero33;
                                 b_hidden := 0; b_channel := ch; b_wps := 0; b_enc := 0; b_wpa := wpa0;
                                 b_rsn := rsn0; b_tags := enc ([(3, [ch]); (1, DEFAULT_RATES)] ++ extras) |}.
Proof. exact roundtrip_assoc_resp. Qed.
Print Assumptions c04_roundtrip_assoc_resp.

Theorem c04_roundtrip_reassoc_resp : forall a1 a2 a3 ch extras,
  mac_ok a1 -> mac_ok a2 -> mac_ok a3 -> u8 ch -> wf_tags extras -> neutral extras ->
  exists f, spec_classify (s_reassoc_resp a1 a2 a3 ch extras) None = Ok f /\
    s_parse_reassoc_resp f = Ok {| b_transmitter := a2; b_receiver := a1; b_bssid := a3; b_ssid := zero33;
                                   b_hidden := 0; b_channel := ch; b_wps := 0; b_enc := 0; b_wpa := wpa0;
                                   b_rsn := rsn0; b_tags := enc ([(3, [ch])] ++ extras) |}.
Proof. exact roundtrip_reassoc_resp. Qed.
Print Assumptions c04_roundtrip_reassoc_resp.

Definition randomized_of (a2 : list byte) : Z := if Z.testbit (znth a2 0) 1 then 1 else 0.
Theorem c04_roundtrip_sta : forall a1 a2 a3 ap ssid ch extras,
  mac_ok a1 -> mac_ok a2 -> mac_ok a3 -> mac_ok ap -> ssid_ok ssid -> zlen ssid <= 32 -> u8 ch ->
  wf_tags extras -> neutral extras ->
  let expect := {| s_channel := ch; s_randomized := randomized_of a2; s_transmitter := a2; s_receiver := a1;
                   s_bssid := a3; s_ssid := ssid_field ssid; s_broadcast_ssid := 0;
                   s_tags := enc ([(0, ssid); (3, [ch])] ++ extras) |} in
  (exists f, spec_classify (s_probe_req a1 a2 a3 ssid ch extras) None = Ok f /\ s_parse_probe_req f = Ok expect) /\
  (exists f, spec_classify (s_assoc_req a1 a2 a3 ssid ch extras) None = Ok f /\ s_parse_assoc_req f = Ok expect) /\
  (exists f, spec_classify (s_reassoc_req a1 a2 a3 ap ssid ch extras) None = Ok f /\ s_parse_reassoc_req f = Ok expect).
Proof. exact roundtrip_sta. Qed.
Print Assumptions c04_roundtrip_sta.

Theorem c04_roundtrip_reason : forall a1 a2 a3 reason extras,
  mac_ok a1 -> mac_ok a2 -> mac_ok a3 -> u16 reason -> wf_tags extras ->
  (exists f, spec_classify (s_deauth a1 a2 a3 reason extras) None = Ok f /\
     s_parse_reason f 12 = Ok {| p_ordered := 0; p_header := s_mgmt_header 12 a1 a2 a3; p_reason := reason; p_tags := enc extras |}) /\
  (exists f, spec_classify (s_disassoc a1 a2 a3 reason extras) None = Ok f /\
     s_parse_reason f 10 = Ok {| p_ordered := 0; p_header := s_mgmt_header 10 a1 a2 a3; p_reason := reason; p_tags := enc extras |}).
Proof. exact roundtrip_reason. Qed.
Print Assumptions c04_roundtrip_reason.

(* ---- the nine management-frame parsers AS TRANSLATED (Gen/Sites.v), for every classified-frame object (type, subtype, order flag, len, header_len, body address), allocator
   answer and callee answers, with only the frame body readable where the routine loads from it: refusal exactly on a wrong type / subtype or a too short frame (each routine's own
   comparison: rule_le / rule_bss / rule_none), ONE malloc(len - hl - FIXED), -ENOMEM before anything is copied from the body, then memcpy(q, body + FIXED, len - hl - FIXED): the
   tagged parameters are the bytes that FOLLOW the fixed parameters, all of them (FIXED = 12, 12, 6, 6, 0, 4, 10); every copy from the body stays inside it; the capability octets
   are loaded at offsets 10 / 0.  Deauthentication and disassociation deviate (reason_parser_ok): they size the tags from the constants 24/28 rather than from header_len and narrow
   the length to int - consistent with what the classifier sets (reason_parser_consistent); parse_deauth_refuted_header_len / _refuted_int in Proofs/CodeMgmt.v show what happens
   outside that.  parser_ok, parser_post, reason_parser_ok, rule_* are defined in Proofs/CodeMgmt.v. ---- *)
From Coq Require Import String.
From LW Require Import Base.Bytes Base.CExpr Gen.Sites Spec.CodeSpec Proofs.CodeMgmt.
Local Open Scope string_scope.
Local Open Scope Z_scope.

Theorem c04_code_parse_beacon_ok : parser_ok body_libwifi_parse_beacon 8 12 "bss->tags.length" "bss->tags.parameters" (rule_bss 12) (bss_names 10).
Proof. exact parse_beacon_ok. Qed.
Print Assumptions c04_code_parse_beacon_ok.

Theorem c04_code_parse_probe_resp_ok : parser_ok body_libwifi_parse_probe_resp 5 12 "bss->tags.length" "bss->tags.parameters" (rule_bss 12) (bss_names 10).
Proof. exact parse_probe_resp_ok. Qed.
Print Assumptions c04_code_parse_probe_resp_ok.

Theorem c04_code_parse_assoc_resp_ok : parser_ok body_libwifi_parse_assoc_resp 1 6 "bss->tags.length" "bss->tags.parameters" (rule_bss 6) (bss_names 0).
Proof. exact parse_assoc_resp_ok. Qed.
Print Assumptions c04_code_parse_assoc_resp_ok.

Theorem c04_code_parse_reassoc_resp_ok : parser_ok body_libwifi_parse_reassoc_resp 3 6 "bss->tags.length" "bss->tags.parameters" (rule_bss 6) (bss_names 0).
Proof. exact parse_reassoc_resp_ok. Qed.
Print Assumptions c04_code_parse_reassoc_resp_ok.

Theorem c04_code_parse_probe_req_ok : parser_ok body_libwifi_parse_probe_req 4 0 "sta->tags.length" "sta->tags.parameters" rule_none sta_names.
Proof. exact parse_probe_req_ok. Qed.
Print Assumptions c04_code_parse_probe_req_ok.

Theorem c04_code_parse_assoc_req_ok : parser_ok body_libwifi_parse_assoc_req 0 4 "sta->tags.length" "sta->tags.parameters" (rule_le 4) sta_names.
Proof. exact parse_assoc_req_ok. Qed.
Print Assumptions c04_code_parse_assoc_req_ok.

Theorem c04_code_parse_reassoc_req_ok : parser_ok body_libwifi_parse_reassoc_req 2 10 "sta->tags.length" "sta->tags.parameters" (rule_le 10) sta_names.
Proof. exact parse_reassoc_req_ok. Qed.
Print Assumptions c04_code_parse_reassoc_req_ok.

Theorem c04_code_seven_parsers_read_inside_the_body : parser_reads body_libwifi_parse_beacon 12 (bss_names 10) /\
  parser_reads body_libwifi_parse_probe_resp 12 (bss_names 10) /\
  parser_reads body_libwifi_parse_assoc_resp 6 (bss_names 0) /\
  parser_reads body_libwifi_parse_reassoc_resp 6 (bss_names 0) /\
  parser_reads body_libwifi_parse_probe_req 0 sta_names /\
  parser_reads body_libwifi_parse_assoc_req 4 sta_names /\
  parser_reads body_libwifi_parse_reassoc_req 10 sta_names.
Proof. exact seven_parsers_read_inside_the_body. Qed.
Print Assumptions c04_code_seven_parsers_read_inside_the_body.

Theorem c04_code_parse_deauth_ok : reason_parser_ok body_libwifi_parse_deauth "deauth" 12.
Proof. exact parse_deauth_ok. Qed.
Print Assumptions c04_code_parse_deauth_ok.

Theorem c04_code_parse_disassoc_ok : reason_parser_ok body_libwifi_parse_disassoc "disassoc" 10.
Proof. exact parse_disassoc_ok. Qed.
Print Assumptions c04_code_parse_disassoc_ok.

Theorem c04_code_reason_parser_consistent : forall body obj subtype,
  reason_parser_ok body obj subtype ->
  forall rho ty st o len hl b q m,
    0 <= ty < 2 ^ 31 -> 0 <= st < 2 ^ 31 -> 0 <= o < 2 ^ 31 ->
    0 < b -> 0 <= hl <= len -> b + len < 2 ^ 62 -> 0 <= q < 2 ^ 62 -> rho "ret:malloc" = q ->
    hl = (if o =? 0 then 24 else 28) -> len - hl - 2 < 2 ^ 31 ->
    let res := exec 100 m (frame_env rho ty st o len hl b) [] body in
    let n := len - hl - 2 in
    let t0 := [("memset", [wrap u64 (rho obj); 0; 50])] in
    let t1 := (t0 ++ [reason_hdr obj rho o; ("memcpy", [wrap u64 (rho ("&" ++ obj ++ "->fixed_parameters")%string); b; 2])])%list in
    if negb (ty =? 0) || negb (st =? subtype) then observe res = Some (Some (-22), t0)
    else if len <? hl + 2 then observe res = Some (Some (-22), t0)
    else
      b + 2 <= b + (len - hl) /\ (b + 2) + n = b + (len - hl) /\ 0 <= n /\
      if n =? 0 then
        exists rho', res = Returned (Some 0) rho' t1 /\ rho' (obj ++ "->tags.length") = n /\ rho' (obj ++ "->tags.parameters") = 0
      else if q =? 0 then observe res = Some (Some (-12), (t1 ++ [("malloc", [n])])%list)
      else exists rho',
        res = Returned (Some 0) rho' (t1 ++ [("malloc", [n]); ("memcpy", [q; b + 2; n])])%list /\
        rho' (obj ++ "->tags.length") = n /\ rho' (obj ++ "->tags.parameters") = q.
Proof. exact reason_parser_consistent. Qed.
Print Assumptions c04_code_reason_parser_consistent.

(* ---- the two element parsers AS TRANSLATED, the iterator's next inlined: for every tag buffer whose first element fits, with only the buffer readable, the do-while loop visits exactly
   the Spec's maximal chain of elements (elements buf), each once, in order - an element with an empty body does not stop it - and hands each handler the address and length of that
   element's body; the channel is the first octet of the last DS (/ HT operation) element with a body; a non-zero answer of the RSN / Microsoft handler ends the walk with -EINVAL at that
   element.  sta_events, bss_events, chan_of, first_fits, it_initial are defined in Proofs/CodeTagParse.v.  (Translator artefact, stated there: a call in the right operand of && is
   recorded as if made unconditionally - bss_memcmp_event_inside_refuted.) ---- *)
From Coq Require Import String.
From LW Require Import Base.Bytes Base.CExpr Gen.Sites Spec.CodeSpec Spec.TagSpec Model.TagIter Proofs.CodeTagParse.
Local Open Scope string_scope.
Local Open Scope list_scope.
Local Open Scope Z_scope.

Theorem c04_code_sta_tag_parser_walk : forall buf p rho F,
  wfbytes buf -> 0 < p -> p + zlen buf < 2 ^ 62 ->
  first_fits buf -> it_initial rho p buf ->
  (40 + List.length (elements buf) <= F)%nat ->
  exists rho',
    exec F (mem_at p buf) rho [] body_libwifi_sta_tag_parser =
      Returned (Some 0) rho' (flat_map (sta_events p (rho "sta") (rho "&sta->channel")) (elements buf)) /\
    rho' "sta->channel" = fold_left (chan_of buf false) (elements buf) (rho "sta->channel").
Proof. exact code_sta_tag_parser_walk. Qed.
Print Assumptions c04_code_sta_tag_parser_walk.

Theorem c04_code_bss_tag_parser_walk : forall buf p rho F,
  wfbytes buf -> 0 < p -> p + zlen buf < 2 ^ 62 ->
  first_fits buf -> it_initial rho p buf ->
  wrap (mkty true 32) (rho "ret:libwifi_bss_handle_rsn_tag") = 0 ->
  wrap (mkty true 32) (rho "ret:libwifi_bss_handle_msft_tag") = 0 ->
  (44 + List.length (elements buf) <= F)%nat ->
  exists rho',
    exec F (mem_at p buf) rho [] body_libwifi_bss_tag_parser =
      Returned (Some 0) rho'
        (flat_map (bss_events p (rho "bss") (rho "&bss->channel") (rho "str:\x00P\xf2") (rho "ret:memcmp")) (elements buf)) /\
    rho' "bss->channel" = fold_left (chan_of buf true) (elements buf) (rho "bss->channel").
Proof. exact code_bss_tag_parser_walk. Qed.
Print Assumptions c04_code_bss_tag_parser_walk.

Theorem c04_code_bss_tag_parser_rejects : forall buf p rho F (pre : list elem) (e : elem) (post : list elem),
  wfbytes buf -> 0 < p -> p + zlen buf < 2 ^ 62 ->
  first_fits buf -> it_initial rho p buf ->
  (44 + List.length (elements buf) <= F)%nat ->
  let fails := bss_fails (rho "ret:libwifi_bss_handle_rsn_tag") (rho "ret:libwifi_bss_handle_msft_tag") (rho "ret:memcmp") in
  let events := bss_events p (rho "bss") (rho "&bss->channel") (rho "str:\x00P\xf2") (rho "ret:memcmp") in
  elements buf = (pre ++ e :: post)%list -> forallb (fun x => negb (fails x)) pre = true -> fails e = true ->
  exists rho',
    exec F (mem_at p buf) rho [] body_libwifi_bss_tag_parser =
      Returned (Some (-22)) rho' (flat_map events pre ++ events e)%list /\
    rho' "bss->channel" = fold_left (chan_of buf true) pre (rho "bss->channel").
Proof. exact code_bss_tag_parser_rejects. Qed.
Print Assumptions c04_code_bss_tag_parser_rejects.

Theorem c04_code_tag_parsers_visit_model_walk : forall buf,
  wfbytes buf -> first_fits buf ->
  iterate (rd_strict buf) (zlen buf) = Done (Ok (elements buf)) /\
  elements buf <> [] /\ Forall (genuine buf) (elements buf) /\ contiguous 0 (elements buf).
Proof. exact code_tag_parsers_visit_model_walk. Qed.
Print Assumptions c04_code_tag_parsers_visit_model_walk.

(* ---- the SSID element handler AS TRANSLATED (Gen/Sites.v): at most 32 octets copied, the hidden indication exactly when the element is empty or every comparison with a zero
   octet answered equal (ONE unknown for all the memcmp answers of a run: see DESIGN 4a) ---- *)
From Coq Require Import String.
From LW Require Import Base.Bytes Base.CExpr Gen.Sites Spec.CodeSpec Proofs.CodeSmall.
Local Open Scope string_scope.
Local Open Scope list_scope.
Local Open Scope Z_scope.

(* the SSID handler on every element length *)
Theorem c04_code_handle_ssid_tag : forall rho tgt tt td len m,
  0 <= len < 2 ^ 31 -> 0 <= td -> td + 32 < 2 ^ 63 -> 0 <= tgt -> tgt + 53 < 2 ^ 63 -> - 2 ^ 31 <= tt < 2 ^ 31 ->
  let rho0 := upd (upd (upd (upd rho "target" tgt) "target_type" tt) "tag_data" td) "tag_len" len in
  let L := Z.min len 32 in
  let r := wrap s32 (rho "ret:memcmp") in
  let s := wrap u64 (rho "str:\x00") in
  let compares := if r =? 0 then L else Z.min L 1 in
  let hidden := (len =? 0) || (r =? 0) in
  exists rho',
    exec 60 m rho0 [] body_libwifi_handle_ssid_tag =
      Fell rho' (map (ssid_cmp s td) (zrange 0 (Z.to_nat compares)) ++ ssid_store tt tgt td L) /\
    (tt = 0 -> rho' "bss->hidden" = b2z hidden).
Proof. exact code_handle_ssid_tag. Qed.
Print Assumptions c04_code_handle_ssid_tag.

