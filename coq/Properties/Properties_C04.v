(* C04 - management parsers report what the frame says; generated frames round-trip.  Statements only. *)
From LW Require Import Base.Bytes Model.TagIter Spec.TagSpec Model.Radiotap Model.Frame Spec.FrameSpec Model.Security Model.Mgmt
  Spec.EapolSpec Spec.SecuritySpec Spec.MgmtSpec Spec.GenSpec Proofs.MgmtProofs Proofs.RoundtripProofs.
Local Open Scope Z_scope.

(* every parser returns exactly the Spec on every classified frame (all reads inside the library's own
   copies: Done, not Fault) *)
Theorem c04_bss_exact : forall f, frame_ok f ->
  parse_beacon f = Done (s_parse_beacon f) /\ parse_probe_resp f = Done (s_parse_probe_resp f) /\
  parse_assoc_resp f = Done (s_parse_assoc_resp f) /\ parse_reassoc_resp f = Done (s_parse_reassoc_resp f).
Proof. exact bss_parsers_exact. Qed.
Print Assumptions c04_bss_exact.

Theorem c04_sta_exact : forall f, frame_ok f ->
  parse_probe_req f = Done (s_parse_probe_req f) /\ parse_assoc_req f = Done (s_parse_assoc_req f) /\
  parse_reassoc_req f = Done (s_parse_reassoc_req f).
Proof. exact sta_parsers_exact. Qed.
Print Assumptions c04_sta_exact.

Theorem c04_reason_exact : forall f, frame_ok f ->
  parse_deauth f = Done (s_parse_reason f 12) /\ parse_disassoc f = Done (s_parse_reason f 10).
Proof. exact reason_parsers_exact. Qed.
Print Assumptions c04_reason_exact.

(* the parser of every other subtype refuses the frame *)
Theorem c04_other_subtype_refused : forall f st fixed cap all, s_is f st = false ->
  s_parse_bss f st fixed cap all = Err (- EINVAL) /\ s_parse_sta f st fixed = Err (- EINVAL) /\
  s_parse_reason f st = Err (- EINVAL).
Proof. exact other_subtype_refused. Qed.
Print Assumptions c04_other_subtype_refused.

(* the reported result does not depend on the radiotap / FCS circumstances of the frame *)
Theorem c04_flag_independent : forall f f', f_fc f = f_fc f' -> f_header f = f_header f' -> f_body f = f_body f' ->
  s_parse_beacon f = s_parse_beacon f' /\ s_parse_probe_resp f = s_parse_probe_resp f' /\
  s_parse_assoc_resp f = s_parse_assoc_resp f' /\ s_parse_reassoc_resp f = s_parse_reassoc_resp f' /\
  s_parse_probe_req f = s_parse_probe_req f' /\ s_parse_assoc_req f = s_parse_assoc_req f' /\
  s_parse_reassoc_req f = s_parse_reassoc_req f' /\ (forall st, s_parse_reason f st = s_parse_reason f' st).
Proof. exact flag_independent. Qed.
Print Assumptions c04_flag_independent.

(* ---- the parsers see EVERY element of the tagged parameters, also those behind an element with an empty body
   (finding F44: iteration used to stop at the first empty non-leading element).  The elements of an encoded list
   t1 .. tn, with the offsets of their headers: *)
Fixpoint elems_at (l : list tag) (off : Z) : list elem :=
  match l with
  | [] => []
  | t :: r => {| e_off := off; e_num := fst t; e_len := zlen (snd t) |} :: elems_at r (off + 2 + zlen (snd t))
  end.
Theorem c04_elements_after_empty : forall t l, spec_iterate (enc (t :: l)) = Ok (elems_at (t :: l) 0).
Proof. exact iterate_enc. Qed.
Print Assumptions c04_elements_after_empty.

(* ---- generated frames round-trip.  Appended tags may be anything that does not itself carry an SSID,
   a channel or security information (numbers 0, 3, 61, 48, 221) *)
Definition neutral (extras : list tag) : Prop :=
  Forall (fun t => ~ In (fst t) [0; 3; 61; 48; 221]) extras.
Definition hidden_of (ssid : list byte) : Z := if forallb (fun b => b =? 0) ssid then 1 else 0.
Definition ssid_field (ssid : list byte) : list byte := put0 ssid zero33.

Theorem c04_roundtrip_beacon : forall a1 a2 a3 ssid ch now extras,
  mac_ok a1 -> mac_ok a2 -> mac_ok a3 -> ssid_ok ssid -> zlen ssid <= 32 -> u8 ch -> 0 <= now < 2 ^ 64 ->
  wf_tags extras -> neutral extras ->
  exists f, spec_classify (s_beacon a1 a2 a3 ssid ch now extras) None = Ok f /\
    s_parse_beacon f = Ok {| b_transmitter := a2; b_receiver := a1; b_bssid := a3; b_ssid := ssid_field ssid;
                             b_hidden := hidden_of ssid; b_channel := ch; b_wps := 0; b_enc := 0; b_wpa := wpa0;
                             b_rsn := rsn0; b_tags := enc ([(0, ssid); (3, [ch])] ++ extras) |}.
Proof. exact roundtrip_beacon. Qed.
Print Assumptions c04_roundtrip_beacon.

Theorem c04_roundtrip_probe_resp : forall a1 a2 a3 ssid ch now extras,
  mac_ok a1 -> mac_ok a2 -> mac_ok a3 -> ssid_ok ssid -> zlen ssid <= 32 -> u8 ch -> 0 <= now < 2 ^ 64 ->
  wf_tags extras -> neutral extras ->
  exists f, spec_classify (s_probe_resp a1 a2 a3 ssid ch now extras) None = Ok f /\
    s_parse_probe_resp f = Ok {| b_transmitter := a2; b_receiver := a1; b_bssid := a3; b_ssid := ssid_field ssid;
                                 b_hidden := hidden_of ssid; b_channel := ch; b_wps := 0; b_enc := 0; b_wpa := wpa0;
                                 b_rsn := rsn0; b_tags := enc ([(0, ssid); (3, [ch])] ++ extras) |}.
Proof. exact roundtrip_probe_resp. Qed.
Print Assumptions c04_roundtrip_probe_resp.

Theorem c04_roundtrip_assoc_resp : forall a1 a2 a3 ch extras,
  mac_ok a1 -> mac_ok a2 -> mac_ok a3 -> u8 ch -> wf_tags extras -> neutral extras ->
  exists f, spec_classify (s_assoc_resp a1 a2 a3 ch extras) None = Ok f /\
    s_parse_assoc_resp f = Ok {| b_transmitter := a2; b_receiver := a1; b_bssid := a3; b_ssid := zero33;
                                 b_hidden := 0; b_channel := ch; b_wps := 0; b_enc := 0; b_wpa := wpa0;
                                 b_rsn := rsn0; b_tags := enc ([(3, [ch]); (1, DEFAULT_RATES)] ++ extras) |}.
Proof. exact roundtrip_assoc_resp. Qed.
Print Assumptions c04_roundtrip_assoc_resp.

Theorem c04_roundtrip_reassoc_resp : forall a1 a2 a3 ch extras,
  mac_ok a1 -> mac_ok a2 -> mac_ok a3 -> u8 ch -> wf_tags extras -> neutral extras ->
  exists f, spec_classify (s_reassoc_resp a1 a2 a3 ch extras) None = Ok f /\
    s_parse_reassoc_resp f = Ok {| b_transmitter := a2; b_receiver := a1; b_bssid := a3; b_ssid := zero33;
                                   b_hidden := 0; b_channel := ch; b_wps := 0; b_enc := 0; b_wpa := wpa0;
                                   b_rsn := rsn0; b_tags := enc ([(3, [ch])] ++ extras) |}.
Proof. exact roundtrip_reassoc_resp. Qed.
Print Assumptions c04_roundtrip_reassoc_resp.

Definition randomized_of (a2 : list byte) : Z := if Z.testbit (znth a2 0) 1 then 1 else 0.
Theorem c04_roundtrip_sta : forall a1 a2 a3 ap ssid ch extras,
  mac_ok a1 -> mac_ok a2 -> mac_ok a3 -> mac_ok ap -> ssid_ok ssid -> zlen ssid <= 32 -> u8 ch ->
  wf_tags extras -> neutral extras ->
  let expect := {| s_channel := ch; s_randomized := randomized_of a2; s_transmitter := a2; s_receiver := a1;
                   s_bssid := a3; s_ssid := ssid_field ssid; s_broadcast_ssid := 0;
                   s_tags := enc ([(0, ssid); (3, [ch])] ++ extras) |} in
  (exists f, spec_classify (s_probe_req a1 a2 a3 ssid ch extras) None = Ok f /\ s_parse_probe_req f = Ok expect) /\
  (exists f, spec_classify (s_assoc_req a1 a2 a3 ssid ch extras) None = Ok f /\ s_parse_assoc_req f = Ok expect) /\
  (exists f, spec_classify (s_reassoc_req a1 a2 a3 ap ssid ch extras) None = Ok f /\ s_parse_reassoc_req f = Ok expect).
Proof. exact roundtrip_sta. Qed.
Print Assumptions c04_roundtrip_sta.

Theorem c04_roundtrip_reason : forall a1 a2 a3 reason extras,
  mac_ok a1 -> mac_ok a2 -> mac_ok a3 -> u16 reason -> wf_tags extras ->
  (exists f, spec_classify (s_deauth a1 a2 a3 reason extras) None = Ok f /\
     s_parse_reason f 12 = Ok {| p_ordered := 0; p_header := s_mgmt_header 12 a1 a2 a3; p_reason := reason; p_tags := enc extras |}) /\
  (exists f, spec_classify (s_disassoc a1 a2 a3 reason extras) None = Ok f /\
     s_parse_reason f 10 = Ok {| p_ordered := 0; p_header := s_mgmt_header 10 a1 a2 a3; p_reason := reason; p_tags := enc extras |}).
Proof. exact roundtrip_reason. Qed.
Print Assumptions c04_roundtrip_reason.
