(* C13 - concrete instances for Properties_C13.v.

   The four environment theorems only assume wfbytes buf, so no _nonvacuous witnesses are needed.  Each gets
   instances with two DIFFERENT environments (ENV1: every octet outside the buffer is 0, ENV2: octet i
   outside the buffer is 255 - i mod 256) on buffers that tempt the parser to look past the end, and the
   common result is written out:
     c13_classify_env_independent_instance{,_truncated_header,_truncated_radiotap}
     c13_radiotap_env_independent_instance{,_overlong,_ext_bitmap}
     c13_iteration_env_independent_instance{,_dangling}
     c13_fcs_env_independent_instance{,_short}
   In every proof the ENV1 side is computed and the ENV2 side is obtained from the theorem.
   c13_env_is_observable shows that the two environments are told apart as soon as a length larger than
   the buffer is passed, i.e. the equalities above are not an artefact of rd_env.
     c13_ie_decoders_env_independent_instance{,_short}   (the element decoders handed a byte range directly)
   Skipped: c13_no_state_between_calls (no hypotheses). *)
From Coq Require Import List.
From LW Require Import Base.Bytes Model.TagIter Model.Radiotap Model.Frame Model.CRC Model.Security Model.Mgmt Proofs.SafetyProofs
  Properties.Properties_C13.
Import ListNotations.
Local Open Scope Z_scope.

Ltac wf := apply wfbytesb_spec; vm_compute; reflexivity.

Definition ENV1 : Z -> byte := fun _ => 0.
Definition ENV2 : Z -> byte := fun i => 255 - i mod 256.

(* ---------- shared byte strings (the beacon and capture of Examples_C01) ---------- *)
Definition AP : list byte := [0; 22; 62; 17; 34; 51].
Definition RSNIE : list byte :=
  [48; 20; 1; 0; 0; 15; 172; 4; 1; 0; 0; 15; 172; 4; 1; 0; 0; 15; 172; 2; 0; 0].
Definition TAGS : list byte :=
  [0; 4; 104; 111; 109; 101;  1; 4; 130; 132; 139; 150;  3; 1; 6] ++ RSNIE ++ [221; 6; 0; 80; 242; 2; 1; 1].
Definition BEACON_HDR : list byte := [128; 0; 0; 0; 255; 255; 255; 255; 255; 255] ++ AP ++ AP ++ [16; 0].
Definition BEACON_FIXED : list byte := [239; 205; 171; 137; 103; 69; 35; 1; 100; 0; 17; 4].
Definition BEACON : list byte := BEACON_HDR ++ BEACON_FIXED ++ TAGS.
Definition BEACON_FCS : list byte := [30; 178; 6; 243].
Definition RTAP : list byte := [0; 0; 24; 0; 47; 8; 0; 0;  1; 2; 3; 4; 5; 6; 7; 8;  16; 2; 133; 9; 160; 0; 196; 1].
Definition CAPTURE : list byte := RTAP ++ BEACON ++ BEACON_FCS.

Definition RTAP_INFO : rt_info :=
  {| i_chan_flags := 160; i_chan_freq := 2437; i_chan_center := 6; i_chan_band := 1; i_rate_raw := 2;
     i_antennas := []; i_signal := 196; i_flags := 16; i_ext_flags := 0; i_rx_flags := 0; i_tx_flags := 0;
     i_mcs_known := 0; i_mcs_flags := 0; i_mcs_mcs := 0; i_tx_power := 0;
     i_ts := 0; i_ts_accuracy := 0; i_ts_unit := 0; i_ts_flags := 0;
     i_rts_retries := 0; i_data_retries := 0; i_length := 24 |}.
Definition F_CAPTURE : frame :=
  {| f_rtap := Some RTAP_INFO; f_flags := 9; f_fc := [128; 0]; f_len := 81;
     f_header := BEACON_HDR; f_header_len := 24; f_body := BEACON_FIXED ++ TAGS |}.

(* ---------- c13_classify_env_independent ---------- *)
(* radiotap header, beacon, FCS: the body copy ends exactly where the FCS begins *)
Example c13_classify_env_independent_instance :
  get_wifi_frame (rd_env CAPTURE ENV1) (zlen CAPTURE) true = Done (Ok F_CAPTURE) /\
  get_wifi_frame (rd_env CAPTURE ENV2) (zlen CAPTURE) true = Done (Ok F_CAPTURE).
Proof.
  assert (W : wfbytes CAPTURE) by wf.
  rewrite <- (c13_classify_env_independent CAPTURE true ENV1 ENV2 W).
  split; vm_compute; reflexivity.
Qed.
(* a beacon cut inside the third address: the 24-octet header would reach 4 octets past the end *)
Definition BEACON_CUT : list byte := firstn 20 BEACON.
Example c13_classify_env_independent_instance_truncated_header :
  get_wifi_frame (rd_env BEACON_CUT ENV1) (zlen BEACON_CUT) false = Done (Err (-22)) /\
  get_wifi_frame (rd_env BEACON_CUT ENV2) (zlen BEACON_CUT) false = Done (Err (-22)).
Proof.
  assert (W : wfbytes BEACON_CUT) by wf.
  rewrite <- (c13_classify_env_independent BEACON_CUT false ENV1 ENV2 W).
  split; vm_compute; reflexivity.
Qed.
(* radiotap header with the FCS flag followed by 3 octets: frame control would be readable, the FCS not *)
Definition CAPTURE_CUT : list byte := firstn 27 CAPTURE.
Example c13_classify_env_independent_instance_truncated_radiotap :
  get_wifi_frame (rd_env CAPTURE_CUT ENV1) (zlen CAPTURE_CUT) true = Done (Err (-22)) /\
  get_wifi_frame (rd_env CAPTURE_CUT ENV2) (zlen CAPTURE_CUT) true = Done (Err (-22)).
Proof.
  assert (W : wfbytes CAPTURE_CUT) by wf.
  rewrite <- (c13_classify_env_independent CAPTURE_CUT true ENV1 ENV2 W).
  split; vm_compute; reflexivity.
Qed.

(* ---------- c13_radiotap_env_independent ---------- *)
(* the present word announces a TIMESTAMP field (bit 22, 12 octets at offset 24) beyond the 24 octets that
   are declared and supplied: it is not read, the fields that fit are reported *)
Definition RTAP_GREEDY : list byte := [0; 0; 24; 0; 47; 8; 64; 0] ++ skipn 8 RTAP.
Example c13_radiotap_env_independent_instance :
  parse_radiotap_info (rd_env RTAP_GREEDY ENV1) (zlen RTAP_GREEDY) = Done (Ok RTAP_INFO) /\
  parse_radiotap_info (rd_env RTAP_GREEDY ENV2) (zlen RTAP_GREEDY) = Done (Ok RTAP_INFO).
Proof.
  assert (W : wfbytes RTAP_GREEDY) by wf.
  rewrite <- (c13_radiotap_env_independent RTAP_GREEDY ENV1 ENV2 W).
  split; vm_compute; reflexivity.
Qed.
(* declared length 64, 24 octets supplied *)
Definition RTAP_OVERLONG : list byte := [0; 0; 64; 0] ++ skipn 4 RTAP.
Example c13_radiotap_env_independent_instance_overlong :
  parse_radiotap_info (rd_env RTAP_OVERLONG ENV1) (zlen RTAP_OVERLONG) = Done (Err (-22)) /\
  parse_radiotap_info (rd_env RTAP_OVERLONG ENV2) (zlen RTAP_OVERLONG) = Done (Err (-22)).
Proof.
  assert (W : wfbytes RTAP_OVERLONG) by wf.
  rewrite <- (c13_radiotap_env_independent RTAP_OVERLONG ENV1 ENV2 W).
  split; vm_compute; reflexivity.
Qed.
(* bare 8-octet header whose present word has the "another bitmap follows" bit: the next bitmap word would
   be octets 8..11, outside *)
Definition RTAP_EXT : list byte := [0; 0; 8; 0; 47; 8; 0; 128].
Example c13_radiotap_env_independent_instance_ext_bitmap :
  parse_radiotap_info (rd_env RTAP_EXT ENV1) (zlen RTAP_EXT) = Done (Err (-22)) /\
  parse_radiotap_info (rd_env RTAP_EXT ENV2) (zlen RTAP_EXT) = Done (Err (-22)).
Proof.
  assert (W : wfbytes RTAP_EXT) by wf.
  rewrite <- (c13_radiotap_env_independent RTAP_EXT ENV1 ENV2 W).
  split; vm_compute; reflexivity.
Qed.

(* ---------- c13_iteration_env_independent ---------- *)
(* cut in the middle of the RSN element: its length octet (20) is inside, 11 of its octets are not *)
Definition TAGS_CUT : list byte := firstn 26 TAGS.
Definition THREE_ELEMS : list elem :=
  [ {| e_off := 0; e_num := 0; e_len := 4 |}; {| e_off := 6; e_num := 1; e_len := 4 |};
    {| e_off := 12; e_num := 3; e_len := 1 |} ].
Example c13_iteration_env_independent_instance :
  iterate (rd_env TAGS_CUT ENV1) (zlen TAGS_CUT) = Done (Ok THREE_ELEMS) /\
  iterate (rd_env TAGS_CUT ENV2) (zlen TAGS_CUT) = Done (Ok THREE_ELEMS).
Proof.
  assert (W : wfbytes TAGS_CUT) by wf.
  rewrite <- (c13_iteration_env_independent TAGS_CUT ENV1 ENV2 W).
  split; vm_compute; reflexivity.
Qed.
(* cut right after the RSN element's number: its length octet is the first octet outside (0 under ENV1,
   239 under ENV2) *)
Definition TAGS_DANGLING : list byte := firstn 16 TAGS.
Example c13_iteration_env_independent_instance_dangling :
  ENV1 16 <> ENV2 16 /\
  iterate (rd_env TAGS_DANGLING ENV1) (zlen TAGS_DANGLING) = Done (Ok THREE_ELEMS) /\
  iterate (rd_env TAGS_DANGLING ENV2) (zlen TAGS_DANGLING) = Done (Ok THREE_ELEMS).
Proof.
  split; [vm_compute; discriminate |].
  assert (W : wfbytes TAGS_DANGLING) by wf.
  rewrite <- (c13_iteration_env_independent TAGS_DANGLING ENV1 ENV2 W).
  split; vm_compute; reflexivity.
Qed.
(* the environments are observable: with a length that lies about the buffer the results differ *)
Example c13_env_is_observable :
  iterate (rd_env TAGS_DANGLING ENV1) 300 <> iterate (rd_env TAGS_DANGLING ENV2) 300 /\
  crc32 (rd_env BEACON ENV1) (zlen BEACON + 1) <> crc32 (rd_env BEACON ENV2) (zlen BEACON + 1).
Proof. split; vm_compute; discriminate. Qed.

(* ---------- c13_fcs_env_independent ---------- *)
Definition BEACON_WITH_FCS : list byte := BEACON ++ BEACON_FCS.
Example c13_fcs_env_independent_instance :
  (crc32 (rd_env BEACON ENV1) (zlen BEACON) = Done 4077302302 /\
   crc32 (rd_env BEACON ENV2) (zlen BEACON) = Done 4077302302) /\
  (frame_verify (rd_env BEACON_WITH_FCS ENV1) (zlen BEACON_WITH_FCS) = Done 1 /\
   frame_verify (rd_env BEACON_WITH_FCS ENV2) (zlen BEACON_WITH_FCS) = Done 1).
Proof.
  assert (W1 : wfbytes BEACON) by wf.
  assert (W2 : wfbytes BEACON_WITH_FCS) by wf.
  destruct (c13_fcs_env_independent BEACON ENV1 ENV2 W1) as [Hc _].
  destruct (c13_fcs_env_independent BEACON_WITH_FCS ENV1 ENV2 W2) as [_ Hv].
  rewrite <- Hc, <- Hv.
  repeat split; vm_compute; reflexivity.
Qed.
(* three octets: a 4-octet FCS would start before the buffer and end inside it; nothing is read *)
Definition THREE_BYTES : list byte := [128; 0; 0].
Example c13_fcs_env_independent_instance_short :
  (crc32 (rd_env THREE_BYTES ENV1) (zlen THREE_BYTES) = Done 510968466 /\
   crc32 (rd_env THREE_BYTES ENV2) (zlen THREE_BYTES) = Done 510968466) /\
  (frame_verify (rd_env THREE_BYTES ENV1) (zlen THREE_BYTES) = Done 0 /\
   frame_verify (rd_env THREE_BYTES ENV2) (zlen THREE_BYTES) = Done 0).
Proof.
  assert (W : wfbytes THREE_BYTES) by wf.
  destruct (c13_fcs_env_independent THREE_BYTES ENV1 ENV2 W) as [Hc Hv].
  rewrite <- Hc, <- Hv.
  repeat split; vm_compute; reflexivity.
Qed.

(* ---------- c13_ie_decoders_env_independent ---------- *)
(* an RSN body whose key-management count (2) promises more than is there: the octets behind the range differ
   under the two environments, the refusal does not *)
Definition RSN_OVERPROMISE : list byte := [1; 0; 0; 15; 172; 4; 1; 0; 0; 15; 172; 4; 2; 0; 0; 15; 172; 2].
Example c13_ie_decoders_env_independent_instance :
  ENV1 18 <> ENV2 18 /\
  get_rsn_info (rd_env RSN_OVERPROMISE ENV1) 0 (zlen RSN_OVERPROMISE) = Done (Err (-22)) /\
  get_rsn_info (rd_env RSN_OVERPROMISE ENV2) 0 (zlen RSN_OVERPROMISE) = Done (Err (-22)) /\
  (* the same range without its last six octets ends behind the pairwise list and decodes *)
  (exists i, get_rsn_info (rd_env (firstn 12 RSN_OVERPROMISE) ENV1) 0 12 = Done (Ok i) /\
             get_rsn_info (rd_env (firstn 12 RSN_OVERPROMISE) ENV2) 0 12 = Done (Ok i) /\ r_akms i = []).
Proof.
  split; [vm_compute; discriminate |].
  assert (W : wfbytes RSN_OVERPROMISE) by wf. assert (W' : wfbytes (firstn 12 RSN_OVERPROMISE)) by wf.
  rewrite <- (proj1 (c13_ie_decoders_env_independent RSN_OVERPROMISE ENV1 ENV2 W)).
  split; [vm_compute; reflexivity|]. split; [vm_compute; reflexivity|].
  pose proof (proj1 (c13_ie_decoders_env_independent _ ENV1 ENV2 W')) as H.
  change (zlen (firstn 12 RSN_OVERPROMISE)) with 12 in H. rewrite <- H.
  eexists. split; [vm_compute; reflexivity|]. split; reflexivity.
Qed.
(* three octets: before the repair of F45 the decoders read six octets whatever the length, i.e. ENV octets 3..5, and
   the Microsoft element handler the type octet at index 3 *)
Definition THREE_OCTETS : list byte := [0; 80; 242].
Example c13_ie_decoders_env_independent_instance_short :
  (get_rsn_info (rd_env THREE_OCTETS ENV1) 0 (zlen THREE_OCTETS) = Done (Err (-22)) /\
   get_rsn_info (rd_env THREE_OCTETS ENV2) 0 (zlen THREE_OCTETS) = Done (Err (-22))) /\
  (get_wpa_info (rd_env THREE_OCTETS ENV1) 0 (zlen THREE_OCTETS) = Done (Err (-22)) /\
   get_wpa_info (rd_env THREE_OCTETS ENV2) 0 (zlen THREE_OCTETS) = Done (Err (-22))) /\
  (handle_msft (rd_env THREE_OCTETS ENV1) bss0 0 (zlen THREE_OCTETS) = Done (Err (-22)) /\
   handle_msft (rd_env THREE_OCTETS ENV2) bss0 0 (zlen THREE_OCTETS) = Done (Err (-22))).
Proof.
  assert (W : wfbytes THREE_OCTETS) by wf.
  destruct (c13_ie_decoders_env_independent THREE_OCTETS ENV1 ENV2 W) as [H1 [H2 H3]].
  rewrite <- H1, <- H2, <- (H3 bss0).
  repeat split; vm_compute; reflexivity.
Qed.
