(* C03 - non-vacuity witnesses and concrete instances for Properties_C03.v.

   Every theorem of Properties_C03.v has real hypotheses (mac_ok / ssid_ok / u8 / u16 / wf_tags / ...), so
   every one gets
     c03_<T>_nonvacuous : the conjunction of all hypotheses of T at concrete, non-empty values
     c03_<T>_instance   : obtained by APPLYING T: the reported length, the literal byte string dumped into
                          a large buffer and into a buffer of exactly the length, and the refusal
                          (Err (-22) = -EINVAL) one byte below the length.
   Covered (nonvacuous + instance): c03_beacon, c03_probe_resp, c03_probe_req, c03_assoc_req,
     c03_reassoc_req, c03_assoc_resp, c03_reassoc_resp, c03_auth, c03_deauth, c03_disassoc,
     c03_timing_advert (capabilities 2 and 1), c03_action (ack and no-ack), c03_images.
   Additional witnesses: c03_beacon_maxssid_* (32-octet SSID, the 802.11 maximum; ssid_ok itself allows up
     to 255 octets, see c03_ssid_ok_bound_is_255) with a non-empty extras list.
   Skipped: none. *)
From LW Require Import Base.Bytes Model.TagIter Spec.TagSpec Model.Tags Model.Gen Spec.GenSpec Proofs.GenProofs
  Properties.Properties_C03.
Local Open Scope Z_scope.

(* ---------- shared concrete values ---------- *)
Definition BCAST : list byte := [255; 255; 255; 255; 255; 255].          (* ff:ff:ff:ff:ff:ff *)
Definition STA   : list byte := [0; 22; 62; 17; 34; 51].                 (* 00:16:3e:11:22:33 *)
Definition OLDAP : list byte := [0; 22; 62; 68; 85; 102].                (* 00:16:3e:44:55:66 *)
Definition HOME  : list byte := [104; 111; 109; 101].                    (* "home" *)
Definition SSID32 : list byte :=                                          (* "abcdefghijklmnopqrstuvwxyz012345" *)
  [97; 98; 99; 100; 101; 102; 103; 104; 105; 106; 107; 108; 109; 110; 111; 112; 113; 114; 115; 116; 117; 118;
   119; 120; 121; 122; 48; 49; 50; 51; 52; 53].
Definition CH := 6.
Definition NOW := 81985529216486895.                                      (* 0x0123456789ABCDEF *)
(* supported rates, a WMM vendor element, an empty ERP element *)
Definition EXTRAS : list tag := [(1, [130; 132; 139; 150]); (221, [0; 80; 242; 2; 1; 1]); (42, [])].
(* timing advertisement arguments *)
Definition TV : list byte := [234; 7; 10; 1; 12; 30; 45; 244; 1; 0].     (* 2026-10-01 12:30:45.500 *)
Definition TE : list byte := [0; 0; 0; 0; 5].
Definition TU : list byte := [3].
Definition US : list byte := [85; 83; 32].                               (* "US " *)
(* action frame: vendor-specific category, OUI, an empty detail (skipped by the library), two more details *)
Definition DETAILS : list (list byte) := [[0; 80; 242]; []; [9]; [1; 2; 3; 4]].

Ltac wf := apply wfbytesb_spec; vm_compute; reflexivity.
Ltac mac := split; [reflexivity | wf].

Lemma BCAST_ok : mac_ok BCAST. Proof. mac. Qed.
Lemma STA_ok : mac_ok STA. Proof. mac. Qed.
Lemma OLDAP_ok : mac_ok OLDAP. Proof. mac. Qed.
Lemma HOME_ok : ssid_ok HOME. Proof. split; [vm_compute; discriminate | wf]. Qed.
Lemma SSID32_ok : ssid_ok SSID32. Proof. split; [vm_compute; discriminate | wf]. Qed.
Lemma CH_ok : u8 CH. Proof. unfold u8, CH; lia. Qed.
Lemma NOW_ok : 0 <= NOW < 2 ^ 64. Proof. unfold NOW; lia. Qed.
Lemma EXTRAS_ok : wf_tags EXTRAS.
Proof.
  unfold wf_tags, EXTRAS.
  repeat (apply Forall_cons; [unfold wf_tag; cbn [fst snd]; split; [lia | split; [vm_compute; discriminate | wf]] | ]).
  apply Forall_nil.
Qed.

(* dumps_exactly at a concrete buffer size *)
Lemma dump_at g bytes n : dumps_exactly g bytes ->
  g_dump g n = if n <? zlen bytes then Err (- EINVAL) else Ok bytes.
Proof. intros [_ H]. apply H. Qed.
Lemma length_at g bytes : dumps_exactly g bytes -> g_length g = zlen bytes.
Proof. intros [H _]. exact H. Qed.

(* proves  g_length g = L /\ g_dump g big = Ok B /\ g_dump g L = Ok B /\ g_dump g (L-1) = Err (-22)
   from a proof of dumps_exactly g _ *)
Ltac by_theorem H :=
  split; [rewrite (length_at _ _ H); vm_compute; reflexivity |];
  rewrite !(dump_at _ _ _ H); vm_compute; repeat split; reflexivity.

(* ---------- beacon ---------- *)
Example c03_beacon_nonvacuous :
  mac_ok BCAST /\ mac_ok STA /\ mac_ok STA /\ ssid_ok HOME /\ u8 CH /\ 0 <= NOW < 2 ^ 64 /\ wf_tags EXTRAS.
Proof. exact (conj BCAST_ok (conj STA_ok (conj STA_ok (conj HOME_ok (conj CH_ok (conj NOW_ok EXTRAS_ok)))))). Qed.

Definition BEACON_BYTES : list byte :=
  [128; 0; 0; 0; 255; 255; 255; 255; 255; 255; 0; 22; 62; 17; 34; 51; 0; 22; 62; 17; 34; 51; 0; 0;   (* header *)
   239; 205; 171; 137; 103; 69; 35; 1;  100; 0;  1; 0;                          (* timestamp, interval, capab *)
   0; 4; 104; 111; 109; 101;  3; 1; 6;                                          (* SSID "home", DS 6 *)
   1; 4; 130; 132; 139; 150;  221; 6; 0; 80; 242; 2; 1; 1;  42; 0].             (* the three extras *)

Example c03_beacon_instance :
  let g := with_extras (create_beacon BCAST STA STA HOME CH NOW) EXTRAS in
  g_length g = 61 /\ g_dump g 200 = Ok BEACON_BYTES /\ g_dump g 61 = Ok BEACON_BYTES /\ g_dump g 60 = Err (-22).
Proof.
  intro g; subst g.
  pose proof (c03_beacon _ _ _ _ _ _ _ BCAST_ok STA_ok STA_ok HOME_ok CH_ok NOW_ok EXTRAS_ok) as H.
  by_theorem H.
Qed.

(* the hypotheses are jointly satisfiable with a 32-octet SSID and non-empty extras; ssid_ok itself only
   bounds the SSID by the one-octet element length (255), not by the 32 octets of 802.11 *)
Example c03_beacon_maxssid_nonvacuous :
  zlen SSID32 = 32 /\
  mac_ok BCAST /\ mac_ok STA /\ mac_ok STA /\ ssid_ok SSID32 /\ u8 CH /\ 0 <= NOW < 2 ^ 64 /\ wf_tags EXTRAS.
Proof.
  split; [reflexivity |].
  exact (conj BCAST_ok (conj STA_ok (conj STA_ok (conj SSID32_ok (conj CH_ok (conj NOW_ok EXTRAS_ok)))))).
Qed.
Example c03_beacon_maxssid_instance :
  let g := with_extras (create_beacon BCAST STA STA SSID32 CH NOW) EXTRAS in
  g_length g = 89 /\
  g_dump g 89 = Ok (firstn 36 BEACON_BYTES ++ [0; 32] ++ SSID32 ++ skipn 42 BEACON_BYTES) /\
  g_dump g 88 = Err (-22).
Proof.
  intro g; subst g.
  pose proof (c03_beacon _ _ _ _ _ _ _ BCAST_ok STA_ok STA_ok SSID32_ok CH_ok NOW_ok EXTRAS_ok) as H.
  by_theorem H.
Qed.
Example c03_ssid_ok_bound_is_255 : ssid_ok (repeat 65 255) /\ ~ ssid_ok (repeat 65 256).
Proof.
  split; [split; [vm_compute; discriminate | wf] |].
  intros [H _]. vm_compute in H. apply H. reflexivity.
Qed.
(* a 255-octet SSID together with the non-empty extras is accepted by the theorem as well *)
Example c03_beacon_ssid255_instance :
  let g := with_extras (create_beacon BCAST STA STA (repeat 65 255) CH NOW) EXTRAS in
  g_length g = 312 /\ g_dump g 311 = Err (-22) /\
  g_dump g 312 = Ok (firstn 36 BEACON_BYTES ++ [0; 255] ++ repeat 65 255 ++ skipn 42 BEACON_BYTES).
Proof.
  intro g; subst g.
  assert (Hs : ssid_ok (repeat 65 255)) by (split; [vm_compute; discriminate | wf]).
  pose proof (c03_beacon _ _ _ _ _ _ _ BCAST_ok STA_ok STA_ok Hs CH_ok NOW_ok EXTRAS_ok) as H.
  by_theorem H.
Qed.

(* ---------- probe response ---------- *)
Example c03_probe_resp_nonvacuous :
  mac_ok STA /\ mac_ok OLDAP /\ mac_ok OLDAP /\ ssid_ok HOME /\ u8 CH /\ 0 <= NOW < 2 ^ 64 /\ wf_tags EXTRAS.
Proof. exact (conj STA_ok (conj OLDAP_ok (conj OLDAP_ok (conj HOME_ok (conj CH_ok (conj NOW_ok EXTRAS_ok)))))). Qed.
Example c03_probe_resp_instance :
  let g := with_extras (create_probe_resp STA OLDAP OLDAP HOME CH NOW) EXTRAS in
  g_length g = 61 /\
  g_dump g 200 = Ok ([80; 0; 0; 0; 0; 22; 62; 17; 34; 51; 0; 22; 62; 68; 85; 102; 0; 22; 62; 68; 85; 102; 0; 0]
                     ++ skipn 24 BEACON_BYTES) /\
  g_dump g 60 = Err (-22).
Proof.
  intro g; subst g.
  pose proof (c03_probe_resp _ _ _ _ _ _ _ STA_ok OLDAP_ok OLDAP_ok HOME_ok CH_ok NOW_ok EXTRAS_ok) as H.
  by_theorem H.
Qed.

(* ---------- probe request ---------- *)
Example c03_probe_req_nonvacuous :
  mac_ok BCAST /\ mac_ok STA /\ mac_ok BCAST /\ ssid_ok HOME /\ u8 CH /\ wf_tags EXTRAS.
Proof. exact (conj BCAST_ok (conj STA_ok (conj BCAST_ok (conj HOME_ok (conj CH_ok EXTRAS_ok))))). Qed.
Example c03_probe_req_instance :
  let g := with_extras (create_probe_req BCAST STA BCAST HOME CH) EXTRAS in
  g_length g = 49 /\
  g_dump g 49 = Ok [64; 0; 0; 0; 255; 255; 255; 255; 255; 255; 0; 22; 62; 17; 34; 51; 255; 255; 255; 255; 255; 255; 0; 0;
                    0; 4; 104; 111; 109; 101; 3; 1; 6; 1; 4; 130; 132; 139; 150; 221; 6; 0; 80; 242; 2; 1; 1; 42; 0] /\
  g_dump g 48 = Err (-22).
Proof.
  intro g; subst g.
  pose proof (c03_probe_req _ _ _ _ _ _ BCAST_ok STA_ok BCAST_ok HOME_ok CH_ok EXTRAS_ok) as H.
  by_theorem H.
Qed.

(* ---------- association request ---------- *)
Example c03_assoc_req_nonvacuous :
  mac_ok OLDAP /\ mac_ok STA /\ mac_ok OLDAP /\ ssid_ok HOME /\ u8 CH /\ wf_tags EXTRAS.
Proof. exact (conj OLDAP_ok (conj STA_ok (conj OLDAP_ok (conj HOME_ok (conj CH_ok EXTRAS_ok))))). Qed.
Example c03_assoc_req_instance :
  let g := with_extras (create_assoc_req OLDAP STA OLDAP HOME CH) EXTRAS in
  g_length g = 53 /\
  g_dump g 53 = Ok [0; 0; 0; 0; 0; 22; 62; 68; 85; 102; 0; 22; 62; 17; 34; 51; 0; 22; 62; 68; 85; 102; 0; 0;
                    1; 0; 1; 0;                                             (* capability, listen interval *)
                    0; 4; 104; 111; 109; 101; 3; 1; 6; 1; 4; 130; 132; 139; 150; 221; 6; 0; 80; 242; 2; 1; 1; 42; 0] /\
  g_dump g 52 = Err (-22).
Proof.
  intro g; subst g.
  pose proof (c03_assoc_req _ _ _ _ _ _ OLDAP_ok STA_ok OLDAP_ok HOME_ok CH_ok EXTRAS_ok) as H.
  by_theorem H.
Qed.

(* ---------- reassociation request ---------- *)
Example c03_reassoc_req_nonvacuous :
  mac_ok BCAST /\ mac_ok STA /\ mac_ok STA /\ mac_ok OLDAP /\ ssid_ok HOME /\ u8 CH /\ wf_tags EXTRAS.
Proof. exact (conj BCAST_ok (conj STA_ok (conj STA_ok (conj OLDAP_ok (conj HOME_ok (conj CH_ok EXTRAS_ok)))))). Qed.
Example c03_reassoc_req_instance :
  let g := with_extras (create_reassoc_req BCAST STA STA OLDAP HOME CH) EXTRAS in
  g_length g = 59 /\
  g_dump g 59 = Ok [32; 0; 0; 0; 255; 255; 255; 255; 255; 255; 0; 22; 62; 17; 34; 51; 0; 22; 62; 17; 34; 51; 0; 0;
                    1; 0; 1; 0; 0; 22; 62; 68; 85; 102;                     (* capab, listen, current AP *)
                    0; 4; 104; 111; 109; 101; 3; 1; 6; 1; 4; 130; 132; 139; 150; 221; 6; 0; 80; 242; 2; 1; 1; 42; 0] /\
  g_dump g 58 = Err (-22).
Proof.
  intro g; subst g.
  pose proof (c03_reassoc_req _ _ _ _ _ _ _ BCAST_ok STA_ok STA_ok OLDAP_ok HOME_ok CH_ok EXTRAS_ok) as H.
  by_theorem H.
Qed.

(* ---------- association / reassociation response ---------- *)
Example c03_assoc_resp_nonvacuous : mac_ok STA /\ mac_ok OLDAP /\ mac_ok OLDAP /\ u8 CH /\ wf_tags EXTRAS.
Proof. exact (conj STA_ok (conj OLDAP_ok (conj OLDAP_ok (conj CH_ok EXTRAS_ok)))). Qed.
Example c03_assoc_resp_instance :
  let g := with_extras (create_assoc_resp STA OLDAP OLDAP CH) EXTRAS in
  g_length g = 59 /\
  g_dump g 59 = Ok [16; 0; 0; 0; 0; 22; 62; 17; 34; 51; 0; 22; 62; 68; 85; 102; 0; 22; 62; 68; 85; 102; 0; 0;
                    1; 0; 0; 0; 0; 0;                                       (* capab, status 0, AID 0 *)
                    3; 1; 6; 1; 8; 130; 132; 139; 150; 36; 48; 72; 108;      (* DS 6, default rates *)
                    1; 4; 130; 132; 139; 150; 221; 6; 0; 80; 242; 2; 1; 1; 42; 0] /\
  g_dump g 58 = Err (-22).
Proof.
  intro g; subst g.
  pose proof (c03_assoc_resp _ _ _ _ _ STA_ok OLDAP_ok OLDAP_ok CH_ok EXTRAS_ok) as H.
  by_theorem H.
Qed.

Example c03_reassoc_resp_nonvacuous : mac_ok STA /\ mac_ok OLDAP /\ mac_ok OLDAP /\ u8 CH /\ wf_tags EXTRAS.
Proof. exact (conj STA_ok (conj OLDAP_ok (conj OLDAP_ok (conj CH_ok EXTRAS_ok)))). Qed.
Example c03_reassoc_resp_instance :
  let g := with_extras (create_reassoc_resp STA OLDAP OLDAP CH) EXTRAS in
  g_length g = 49 /\
  g_dump g 49 = Ok [48; 0; 0; 0; 0; 22; 62; 17; 34; 51; 0; 22; 62; 68; 85; 102; 0; 22; 62; 68; 85; 102; 0; 0;
                    1; 0; 0; 0; 0; 0; 3; 1; 6;
                    1; 4; 130; 132; 139; 150; 221; 6; 0; 80; 242; 2; 1; 1; 42; 0] /\
  g_dump g 48 = Err (-22).
Proof.
  intro g; subst g.
  pose proof (c03_reassoc_resp _ _ _ _ _ STA_ok OLDAP_ok OLDAP_ok CH_ok EXTRAS_ok) as H.
  by_theorem H.
Qed.

(* ---------- authentication: shared key (1), sequence 2, status 15 (challenge failure) ---------- *)
Lemma u16_1 : u16 1. Proof. unfold u16; lia. Qed.
Lemma u16_2 : u16 2. Proof. unfold u16; lia. Qed.
Lemma u16_15 : u16 15. Proof. unfold u16; lia. Qed.
Lemma u16_big : u16 43981. Proof. unfold u16; lia. Qed.        (* 0xABCD: both octets non-zero *)
Example c03_auth_nonvacuous :
  mac_ok OLDAP /\ mac_ok STA /\ mac_ok OLDAP /\ u16 1 /\ u16 2 /\ u16 15 /\ wf_tags EXTRAS.
Proof. exact (conj OLDAP_ok (conj STA_ok (conj OLDAP_ok (conj u16_1 (conj u16_2 (conj u16_15 EXTRAS_ok)))))). Qed.
Example c03_auth_instance :
  let g := with_extras (create_auth OLDAP STA OLDAP 1 2 15) EXTRAS in
  g_length g = 46 /\
  g_dump g 46 = Ok [176; 0; 0; 0; 0; 22; 62; 68; 85; 102; 0; 22; 62; 17; 34; 51; 0; 22; 62; 68; 85; 102; 0; 0;
                    1; 0; 2; 0; 15; 0;
                    1; 4; 130; 132; 139; 150; 221; 6; 0; 80; 242; 2; 1; 1; 42; 0] /\
  g_dump g 45 = Err (-22).
Proof.
  intro g; subst g.
  pose proof (c03_auth _ _ _ _ _ _ _ OLDAP_ok STA_ok OLDAP_ok u16_1 u16_2 u16_15 EXTRAS_ok) as H.
  by_theorem H.
Qed.

(* ---------- deauthentication / disassociation, reason 0xABCD to show the octet order ---------- *)
Example c03_deauth_nonvacuous : mac_ok STA /\ mac_ok OLDAP /\ mac_ok OLDAP /\ u16 43981 /\ wf_tags EXTRAS.
Proof. exact (conj STA_ok (conj OLDAP_ok (conj OLDAP_ok (conj u16_big EXTRAS_ok)))). Qed.
Example c03_deauth_instance :
  let g := with_extras (create_deauth STA OLDAP OLDAP 43981) EXTRAS in
  g_length g = 42 /\
  g_dump g 42 = Ok [192; 0; 0; 0; 0; 22; 62; 17; 34; 51; 0; 22; 62; 68; 85; 102; 0; 22; 62; 68; 85; 102; 0; 0;
                    205; 171;
                    1; 4; 130; 132; 139; 150; 221; 6; 0; 80; 242; 2; 1; 1; 42; 0] /\
  g_dump g 41 = Err (-22).
Proof.
  intro g; subst g.
  pose proof (c03_deauth _ _ _ _ _ STA_ok OLDAP_ok OLDAP_ok u16_big EXTRAS_ok) as H.
  by_theorem H.
Qed.

Example c03_disassoc_nonvacuous : mac_ok STA /\ mac_ok OLDAP /\ mac_ok OLDAP /\ u16 43981 /\ wf_tags EXTRAS.
Proof. exact (conj STA_ok (conj OLDAP_ok (conj OLDAP_ok (conj u16_big EXTRAS_ok)))). Qed.
Example c03_disassoc_instance :
  let g := with_extras (create_disassoc STA OLDAP OLDAP 43981) EXTRAS in
  g_length g = 42 /\
  g_dump g 42 = Ok [160; 0; 0; 0; 0; 22; 62; 17; 34; 51; 0; 22; 62; 68; 85; 102; 0; 22; 62; 68; 85; 102; 0; 0;
                    205; 171;
                    1; 4; 130; 132; 139; 150; 221; 6; 0; 80; 242; 2; 1; 1; 42; 0] /\
  g_dump g 41 = Err (-22).
Proof.
  intro g; subst g.
  pose proof (c03_disassoc _ _ _ _ _ STA_ok OLDAP_ok OLDAP_ok u16_big EXTRAS_ok) as H.
  by_theorem H.
Qed.

(* ---------- timing advertisement ---------- *)
Lemma TV_len : zlen TV = 10. Proof. reflexivity. Qed.
Lemma TV_wf : wfbytes TV. Proof. wf. Qed.
Lemma TE_len : zlen TE = 5. Proof. reflexivity. Qed.
Lemma TE_wf : wfbytes TE. Proof. wf. Qed.
Lemma TU_len : zlen TU = 1. Proof. reflexivity. Qed.
Lemma TU_wf : wfbytes TU. Proof. wf. Qed.
Lemma US_len : zlen US = 3. Proof. reflexivity. Qed.
Lemma US_wf : wfbytes US. Proof. wf. Qed.
Lemma u8_1 : u8 1. Proof. unfold u8; lia. Qed.
Lemma u8_2 : u8 2. Proof. unfold u8; lia. Qed.
Lemma u16_300 : u16 300. Proof. unfold u16; lia. Qed.
Lemma u8_20 : u8 20. Proof. unfold u8; lia. Qed.
Lemma u8_17 : u8 17. Proof. unfold u8; lia. Qed.
Lemma u8_161 : u8 161. Proof. unfold u8; lia. Qed.                        (* -95 dBm as an octet *)

Example c03_timing_advert_nonvacuous :
  mac_ok BCAST /\ mac_ok STA /\ mac_ok STA /\ u8 2 /\ zlen TV = 10 /\ wfbytes TV /\ zlen TE = 5 /\ wfbytes TE /\
  zlen TU = 1 /\ wfbytes TU /\ zlen US = 3 /\ wfbytes US /\ u16 300 /\ u8 20 /\ u8 17 /\ u8 161 /\
  0 <= NOW < 2 ^ 64 /\ wf_tags EXTRAS.
Proof.
  exact (conj BCAST_ok (conj STA_ok (conj STA_ok (conj u8_2 (conj TV_len (conj TV_wf (conj TE_len (conj TE_wf
        (conj TU_len (conj TU_wf (conj US_len (conj US_wf (conj u16_300 (conj u8_20 (conj u8_17 (conj u8_161
        (conj NOW_ok EXTRAS_ok))))))))))))))))).
Qed.

Definition TIMING_FIXED : list byte :=
  [96; 0; 0; 0; 255; 255; 255; 255; 255; 255; 0; 22; 62; 17; 34; 51; 0; 22; 62; 17; 34; 51; 0; 0;
   239; 205; 171; 137; 103; 69; 35; 1;          (* timestamp *)
   100;  100; 0;  1; 0;                         (* measurement pilot interval, beacon interval, capability *)
   85; 83; 32;  44; 1;  20; 17; 161].           (* "US ", max regulatory power 300, max tx, tx used, noise *)
Definition EXTRAS_BYTES : list byte := [1; 4; 130; 132; 139; 150; 221; 6; 0; 80; 242; 2; 1; 1; 42; 0].

(* capabilities 2: time value, time error and the update counter *)
Example c03_timing_advert_instance :
  let g := with_extras (create_timing_advert BCAST STA STA 2 TV TE TU US 300 20 17 161 NOW) EXTRAS in
  g_length g = 80 /\
  g_dump g 80 = Ok (TIMING_FIXED ++ [69; 17; 2] ++ TV ++ TE ++ TU ++ EXTRAS_BYTES) /\
  g_dump g 79 = Err (-22).
Proof.
  intro g; subst g.
  pose proof (c03_timing_advert _ _ _ _ _ _ _ _ _ _ _ _ _ _ BCAST_ok STA_ok STA_ok u8_2 TV_len TV_wf TE_len TE_wf
                TU_len TU_wf US_len US_wf u16_300 u8_20 u8_17 u8_161 NOW_ok EXTRAS_ok) as H.
  by_theorem H.
Qed.
(* capabilities 1: time value and time error only *)
Example c03_timing_advert_instance_cap1 :
  let g := with_extras (create_timing_advert BCAST STA STA 1 TV TE TU US 300 20 17 161 NOW) EXTRAS in
  g_length g = 79 /\
  g_dump g 79 = Ok (TIMING_FIXED ++ [69; 16; 1] ++ TV ++ TE ++ EXTRAS_BYTES) /\
  g_dump g 78 = Err (-22).
Proof.
  intro g; subst g.
  pose proof (c03_timing_advert _ _ _ _ _ _ _ _ _ _ _ _ _ _ BCAST_ok STA_ok STA_ok u8_1 TV_len TV_wf TE_len TE_wf
                TU_len TU_wf US_len US_wf u16_300 u8_20 u8_17 u8_161 NOW_ok EXTRAS_ok) as H.
  by_theorem H.
Qed.

(* ---------- action / action no-ack ---------- *)
Lemma u8_127 : u8 127. Proof. unfold u8; lia. Qed.
Lemma DETAILS_wf : Forall wfbytes DETAILS.
Proof. unfold DETAILS. repeat (apply Forall_cons; [wf |]). apply Forall_nil. Qed.
Lemma DETAILS_len : zlen (concat DETAILS) <= 255. Proof. vm_compute; discriminate. Qed.

Example c03_action_nonvacuous :
  mac_ok STA /\ mac_ok OLDAP /\ mac_ok OLDAP /\ u8 127 /\ Forall wfbytes DETAILS /\ zlen (concat DETAILS) <= 255.
Proof. exact (conj STA_ok (conj OLDAP_ok (conj OLDAP_ok (conj u8_127 (conj DETAILS_wf DETAILS_len))))). Qed.

Definition ACTION_TAIL : list byte :=
  [0; 0; 0; 22; 62; 17; 34; 51; 0; 22; 62; 68; 85; 102; 0; 22; 62; 68; 85; 102; 0; 0;
   127;  0; 80; 242;  9;  1; 2; 3; 4].

Example c03_action_instance :
  let a := fold_left (fun a d => fst (add_action_detail a d)) DETAILS (create_action false STA OLDAP OLDAP 127) in
  a_length a = 33 /\ a_dump a 100 = Ok (208 :: 0 :: ACTION_TAIL) /\ a_dump a 33 = Ok (208 :: 0 :: ACTION_TAIL) /\
  a_dump a 32 = Err (-22).
Proof.
  intro a; subst a.
  pose proof (c03_action false _ _ _ _ _ STA_ok OLDAP_ok OLDAP_ok u8_127 DETAILS_wf DETAILS_len) as [HL HD].
  split; [rewrite HL; vm_compute; reflexivity |].
  rewrite !HD. vm_compute. repeat split; reflexivity.
Qed.
Example c03_action_instance_noack :
  let a := fold_left (fun a d => fst (add_action_detail a d)) DETAILS (create_action true STA OLDAP OLDAP 127) in
  a_length a = 33 /\ a_dump a 33 = Ok (224 :: 0 :: ACTION_TAIL) /\ a_dump a 32 = Err (-22).
Proof.
  intro a; subst a.
  pose proof (c03_action true _ _ _ _ _ STA_ok OLDAP_ok OLDAP_ok u8_127 DETAILS_wf DETAILS_len) as [HL HD].
  split; [rewrite HL; vm_compute; reflexivity |].
  rewrite !HD. vm_compute. repeat split; reflexivity.
Qed.
(* the detail bound of the hypothesis is attained: 255 detail octets in three pieces *)
Example c03_action_maxdetail_instance :
  let ds := [repeat 1 100; repeat 2 100; repeat 3 55] in
  let a := fold_left (fun a d => fst (add_action_detail a d)) ds (create_action false STA OLDAP OLDAP 4) in
  a_length a = 280 /\ a_dump a 279 = Err (-22) /\
  a_dump a 280 = Ok (208 :: 0 :: firstn 22 ACTION_TAIL ++ [4] ++ repeat 1 100 ++ repeat 2 100 ++ repeat 3 55).
Proof.
  intros ds a; subst a ds.
  assert (Hw : Forall wfbytes [repeat 1 100; repeat 2 100; repeat 3 55])
    by (repeat (apply Forall_cons; [wf |]); apply Forall_nil).
  assert (Hl : zlen (concat [repeat 1 100; repeat 2 100; repeat 3 55]) <= 255) by (vm_compute; discriminate).
  assert (H4 : u8 4) by (unfold u8; lia).
  pose proof (c03_action false _ _ _ _ _ STA_ok OLDAP_ok OLDAP_ok H4 Hw Hl) as [HL HD].
  split; [rewrite HL; vm_compute; reflexivity |].
  rewrite !HD. vm_compute. repeat split; reflexivity.
Qed.

(* ---------- ATIM, RTS, CTS images ---------- *)
Lemma u16_314 : u16 314. Proof. unfold u16; lia. Qed.
Example c03_images_nonvacuous : mac_ok STA /\ mac_ok OLDAP /\ mac_ok BCAST /\ u16 314.
Proof. exact (conj STA_ok (conj OLDAP_ok (conj BCAST_ok u16_314))). Qed.
(* create_rts takes (transmitter, receiver); on the air the receiver address comes first *)
Example c03_images_instance :
  create_atim STA OLDAP BCAST =
    [144; 0; 0; 0; 0; 22; 62; 17; 34; 51; 0; 22; 62; 68; 85; 102; 255; 255; 255; 255; 255; 255; 0; 0] /\
  create_rts STA OLDAP 314 = [180; 0; 58; 1; 0; 22; 62; 68; 85; 102; 0; 22; 62; 17; 34; 51] /\
  create_cts STA 314 = [196; 0; 58; 1; 0; 22; 62; 17; 34; 51].
Proof.
  destruct (c03_images _ _ _ _ STA_ok OLDAP_ok BCAST_ok u16_314) as [Ha [Hr Hc]].
  rewrite Ha, Hr, Hc. vm_compute. repeat split; reflexivity.
Qed.
