(* C14 - non-vacuity witnesses and worked instances for Properties_C14.v.
   Covered:  c14_tags_history   (nonvacuous + instance: a 6-operation history with a duplicated element, under the
                                 schedule failing exactly the third allocation and under the never-failing one;
                                 final object, heap and allocation trace written out),
             c14_generators     (nonvacuous + instance: SSID "home", channel 6, a 17-byte Time Advertisement body,
                                 four further edits; beacon generator with the third allocation failing inside
                                 create, timing-advertisement generator with the failure falling into the edits,
                                 beacon generator without failure).
   Theorems without hypotheses beyond wfbytes / agrees (instance only):
             c14_action         (three details, third allocation failing / no failure),
             c14_parse_pipeline (a real beacon: plain mode with the parser's copy failing and without failure,
                                 a beacon whose truncated WPA element makes the parser fail AFTER its allocation,
                                 radiotap mode with the third allocation failing).
   Skipped:  none.
   Every final heap is computed and shown to have no live block; the traces are part of the literals. *)
From Coq Require Import ZArith Lia List Bool.
From LW Require Import Base.Bytes Spec.TagSpec Model.Tags Gen.Consts Model.Radiotap Model.Frame Model.Alloc
  Model.AllocScen Spec.GenSpec Properties.Properties_C14.
Local Open Scope Z_scope.

Lemma wf_tagb_ok t : wf_tagb t = true -> wf_tag t.
Proof.
  unfold wf_tagb, wf_tag. rewrite !andb_true_iff. intros [[[A B] C] D].
  apply wfbytesb_spec in D. repeat split; try assumption; lia.
Qed.

(* failure schedules: exactly the k-th allocation attempt (counted from 0) fails / none fails *)
Definition sc1 : sched := fun k => Nat.eqb k 1.
Definition sc2 : sched := fun k => Nat.eqb k 2.
Definition sc_ok : sched := fun _ => false.

Definition home : list byte := [104; 111; 109; 101].      (* "home" *)
Definition cafe : list byte := [99; 97; 102; 101].         (* "cafe" *)

(* ---------- c14_tags_history ---------- *)
Definition ops : list tag_op :=
  [OpAdd 221 [1; 2]; OpAdd 221 [9]; OpSetSsid home; OpSetChannel 6; OpRemove 221; OpCheck 221].

Example c14_tags_history_nonvacuous : Forall wf_op ops.
Proof.
  unfold ops. repeat constructor; cbn [wf_op]; try (apply wf_tagb_ok; vm_compute; reflexivity); lia.
Qed.

(* third allocation (the temporary tag of the second add) fails: that add is lost (-ENOMEM, not visible in
   sk_run which drops return values), everything else proceeds; one live block, owned by the list *)
Definition o_fin2 : tobj :=
  {| o_tags := {| t_len := 9; t_bytes := [0; 4; 104; 111; 109; 101; 3; 1; 6] |}; o_ptr := Some 6 |}.
Definition h_fin2 : heap :=
  {| h_live := [(6, 9)]; h_next := 7; h_count := 8;
     h_trace := [EMalloc 2 (Some 0); EMalloc 4 (Some 1); EFree (Some 0); EMalloc 1 None; EMalloc 4 (Some 2);
                 ERealloc (Some 1) 10 (Some 3); EFree (Some 2); EMalloc 1 (Some 4); ERealloc (Some 3) 13 (Some 5);
                 EFree (Some 4); ERealloc (Some 5) 9 (Some 6)] |}.

Example c14_tags_history_instance :
  sk_run sc2 tobj0 ops heap0 = Done (o_fin2, h_fin2) /\ owns o_fin2 h_fin2 /\
  exists o' h', sk_free o_fin2 h_fin2 = Done (o', h') /\ live_blocks h' = [].
Proof.
  destruct (c14_tags_history sc2 ops c14_tags_history_nonvacuous) as (o & h & R & O & F).
  assert (E : sk_run sc2 tobj0 ops heap0 = Done (o_fin2, h_fin2)) by (vm_compute; reflexivity).
  rewrite E in R. assert (o = o_fin2 /\ h = h_fin2) as [-> ->] by (split; congruence).
  split; [reflexivity |]. split; [exact O | exact F].
Qed.
Example c14_tags_history_freed :
  sk_free o_fin2 h_fin2 =
    Done (o_fin2, {| h_live := []; h_next := 7; h_count := 8; h_trace := h_trace h_fin2 ++ [EFree (Some 6)] |}).
Proof. vm_compute. reflexivity. Qed.

(* no failure: both 221 elements are stored, the first one is removed again *)
Definition o_fin_ok : tobj :=
  {| o_tags := {| t_len := 12; t_bytes := [221; 1; 9; 0; 4; 104; 111; 109; 101; 3; 1; 6] |}; o_ptr := Some 8 |}.
Example c14_tags_history_instance_nofail :
  exists h, sk_run sc_ok tobj0 ops heap0 = Done (o_fin_ok, h) /\ owns o_fin_ok h /\ live_blocks h = [8] /\
            exists o' h', sk_free o_fin_ok h = Done (o', h') /\ live_blocks h' = [].
Proof.
  destruct (c14_tags_history sc_ok ops c14_tags_history_nonvacuous) as (o & h & R & O & F).
  exists h. assert (o = o_fin_ok) as ->.
  { vm_compute in R. injection R as <- _. reflexivity. }
  split; [exact R |]. split; [exact O |]. split; [exact O | exact F].
Qed.

(* ---------- c14_generators ---------- *)
(* Time Advertisement element body: capabilities 2, time value (10), time error (5), update counter (1) *)
Definition tadv : list byte := [2; 1; 2; 3; 4; 5; 6; 7; 8; 9; 10; 0; 0; 0; 0; 1; 3].
Example tadv_is_spec : tadv = s_time_adv_body 2 [1; 2; 3; 4; 5; 6; 7; 8; 9; 10] [0; 0; 0; 0; 1] [3].
Proof. vm_compute. reflexivity. Qed.
Definition extras : list tag_op := [OpAdd 221 [0; 80; 242; 1]; OpSetSsid cafe; OpRemove 3; OpCheck 0].

Example c14_generators_nonvacuous :
  wf_tag (c_TAG_SSID, home) /\ 0 <= 6 < 256 /\ wf_tag (c_TAG_TIME_ADVERTISEMENT, tadv) /\ Forall wf_op extras.
Proof.
  split; [apply wf_tagb_ok; vm_compute; reflexivity |]. split; [lia |].
  split; [apply wf_tagb_ok; vm_compute; reflexivity |].
  unfold extras. repeat constructor; cbn [wf_op]; try (apply wf_tagb_ok; vm_compute; reflexivity); lia.
Qed.

(* beacon, third allocation fails: the SSID is stored, the channel's temporary tag cannot be allocated, create
   returns -ENOMEM, no further edits are made, release frees the SSID block *)
Example c14_generators_instance :
  exists h, sk_gen_scenario sc2 GBeacon home 6 tadv extras = Done ([-12], [0; 4; 104; 111; 109; 101], h) /\
            live_blocks h = [] /\
            h_trace h = [EMalloc 4 (Some 0); EMalloc 6 (Some 1); EFree (Some 0); EMalloc 1 None; EFree (Some 1)].
Proof.
  destruct c14_generators_nonvacuous as [A [B [C D]]].
  destruct (c14_generators sc2 GBeacon home 6 tadv extras A B C D) as (rs & tg & h & R & L).
  exists h. rewrite R. vm_compute in R. injection R as <- <- <-.
  split; [reflexivity | split; [exact L | reflexivity]].
Qed.

(* timing advertisement, third allocation fails: create succeeds, the first extra add is refused (-12),
   the SSID is set, removing the absent element 3 returns 0, counting element 0 returns 1 *)
Example c14_generators_instance_timing :
  exists h, sk_gen_scenario sc2 GTimingAd home 6 tadv extras =
              Done ([0; -12; 0; 0; 1], [69; 17] ++ tadv ++ [0; 4; 99; 97; 102; 101], h) /\ live_blocks h = [].
Proof.
  destruct c14_generators_nonvacuous as [A [B [C D]]].
  destruct (c14_generators sc2 GTimingAd home 6 tadv extras A B C D) as (rs & tg & h & R & L).
  exists h. rewrite R. vm_compute in R. injection R as <- <- <-.
  split; [reflexivity | exact L].
Qed.

(* beacon, no failure: ten allocations, all four edits done *)
Example c14_generators_instance_nofail :
  exists h, sk_gen_scenario sc_ok GBeacon home 6 tadv extras =
              Done ([0; 0; 0; 0; 1], [221; 4; 0; 80; 242; 1; 0; 4; 99; 97; 102; 101], h) /\
            live_blocks h = [] /\ h_count h = 10%nat.
Proof.
  destruct c14_generators_nonvacuous as [A [B [C D]]].
  destruct (c14_generators sc_ok GBeacon home 6 tadv extras A B C D) as (rs & tg & h & R & L).
  exists h. rewrite R. vm_compute in R. injection R as <- <- <-.
  split; [reflexivity | split; [exact L | reflexivity]].
Qed.

(* ---------- c14_action ---------- *)
Definition details : list (list byte) := [[1; 2; 3]; [4; 5]; [6]].
Definition run_details (sc : sched) (details : list (list byte)) : res (dobj * heap) :=
  fold_left (fun (st : res (dobj * heap)) d =>
               match st with Done (o, h) => match sk_add_detail sc o d h with Done (o', _, h') => Done (o', h') | Fault k z => Fault k z | OutOfFuel => OutOfFuel end
                           | other => other end) details (Done (dobj0, heap0)).

(* third allocation (the second realloc) fails: the third detail is not stored, the block of the first two
   stays the object's and is released *)
Example c14_action_instance :
  exists h, run_details sc2 details = Done ({| d_len := 5; d_bytes := [1; 2; 3; 4; 5]; d_ptr := Some 1 |}, h) /\
            h_trace h = [EMalloc 3 (Some 0); ERealloc (Some 0) 5 (Some 1); ERealloc (Some 1) 6 None] /\
            exists h', sk_free_action {| d_len := 5; d_bytes := [1; 2; 3; 4; 5]; d_ptr := Some 1 |} h = Done h' /\
                       live_blocks h' = [].
Proof.
  pose proof (c14_action sc2 details) as H. cbv zeta in H. destruct H as (o & h & R & F).
  change (run_details sc2 details = Done (o, h)) in R.
  exists h. assert (o = {| d_len := 5; d_bytes := [1; 2; 3; 4; 5]; d_ptr := Some 1 |}) as ->.
  { vm_compute in R. injection R as <- _. reflexivity. }
  split; [exact R |]. split; [| exact F].
  vm_compute in R. injection R as <-. reflexivity.
Qed.
Example c14_action_instance_nofail :
  exists h, run_details sc_ok details = Done ({| d_len := 6; d_bytes := [1; 2; 3; 4; 5; 6]; d_ptr := Some 2 |}, h) /\
            exists h', sk_free_action {| d_len := 6; d_bytes := [1; 2; 3; 4; 5; 6]; d_ptr := Some 2 |} h = Done h' /\
                       live_blocks h' = [].
Proof.
  pose proof (c14_action sc_ok details) as H. cbv zeta in H. destruct H as (o & h & R & F).
  change (run_details sc_ok details = Done (o, h)) in R.
  exists h. assert (o = {| d_len := 6; d_bytes := [1; 2; 3; 4; 5; 6]; d_ptr := Some 2 |}) as ->.
  { vm_compute in R. injection R as <- _. reflexivity. }
  split; [exact R | exact F].
Qed.

(* ---------- c14_parse_pipeline ---------- *)
Definition bcast : list byte := [255; 255; 255; 255; 255; 255].
Definition ap : list byte := [2; 0; 0; 0; 0; 1].
(* beacon from 02:00:00:00:00:01, timestamp 1000, interval 100, capability 1, SSID "home", channel 6,
   supported rates *)
Definition beacon : list byte :=
  [128; 0; 0; 0; 255; 255; 255; 255; 255; 255; 2; 0; 0; 0; 0; 1; 2; 0; 0; 0; 0; 1; 0; 0;
   232; 3; 0; 0; 0; 0; 0; 0; 100; 0; 1; 0;
   0; 4; 104; 111; 109; 101; 3; 1; 6; 1; 8; 130; 132; 139; 150; 36; 48; 72; 108].
Example beacon_is_spec : beacon = s_beacon bcast ap ap home 6 1000 [(1, DEFAULT_RATES)].
Proof. vm_compute. reflexivity. Qed.
(* the same beacon with a WPA vendor element cut after its type octet instead of the rates *)
Definition beacon_badwpa : list byte := s_beacon bcast ap ap home 6 1000 [(221, [0; 80; 242; 1])].
(* the beacon behind a minimal radiotap header (version 0, length 8, no fields) *)
Definition rt_beacon : list byte := [0; 0; 8; 0; 0; 0; 0; 0] ++ beacon.

Lemma wf_beacon : wfbytes beacon. Proof. apply wfbytesb_spec. vm_compute. reflexivity. Qed.
Lemma wf_beacon_badwpa : wfbytes beacon_badwpa. Proof. apply wfbytesb_spec. vm_compute. reflexivity. Qed.
Lemma wf_rt_beacon : wfbytes rt_beacon. Proof. apply wfbytesb_spec. vm_compute. reflexivity. Qed.

(* plain mode, second allocation (the beacon parser's copy of the 19 tag bytes) fails: the classifier returns 0,
   the beacon parser -ENOMEM, every other parser refuses the frame (-EINVAL); the frame body block is freed *)
Example c14_parse_pipeline_instance :
  exists h, sk_parse_scenario sc1 (rd_strict beacon) (zlen beacon) false =
              Done ([0; -12; -22; -22; -22; -22; -22; -22; -22; -22; -22; -22], h) /\ live_blocks h = [] /\
            firstn 3 (h_trace h) = [EMalloc 31 (Some 0); EMalloc 19 None; EFree None] /\
            last (h_trace h) (EFree None) = EFree (Some 0).
Proof.
  destruct (c14_parse_pipeline sc1 beacon (rd_strict beacon) false wf_beacon (agrees_strict beacon))
    as (rs & h & R & L).
  exists h. rewrite R. vm_compute in R. injection R as <- <-.
  split; [reflexivity | split; [exact L | split; reflexivity]].
Qed.
(* no failure: the beacon parser succeeds (0), two allocations, both released *)
Example c14_parse_pipeline_instance_nofail :
  exists h, sk_parse_scenario sc_ok (rd_strict beacon) (zlen beacon) false =
              Done ([0; 0; -22; -22; -22; -22; -22; -22; -22; -22; -22; -22], h) /\ live_blocks h = [] /\
            firstn 3 (h_trace h) = [EMalloc 31 (Some 0); EMalloc 19 (Some 1); EFree (Some 1)].
Proof.
  destruct (c14_parse_pipeline sc_ok beacon (rd_strict beacon) false wf_beacon (agrees_strict beacon))
    as (rs & h & R & L).
  exists h. rewrite R. vm_compute in R. injection R as <- <-.
  split; [reflexivity | split; [exact L | reflexivity]].
Qed.
(* failure path AFTER a successful allocation: the parser copies the tags, then rejects the truncated WPA
   element (-EINVAL); the copy is still released *)
Example c14_parse_pipeline_instance_badwpa :
  exists h, sk_parse_scenario sc_ok (rd_strict beacon_badwpa) (zlen beacon_badwpa) false =
              Done ([0; -22; -22; -22; -22; -22; -22; -22; -22; -22; -22; -22], h) /\ live_blocks h = [] /\
            firstn 3 (h_trace h) = [EMalloc 27 (Some 0); EMalloc 15 (Some 1); EFree (Some 1)].
Proof.
  destruct (c14_parse_pipeline sc_ok beacon_badwpa (rd_strict beacon_badwpa) false wf_beacon_badwpa
              (agrees_strict beacon_badwpa)) as (rs & h & R & L).
  exists h. rewrite R. vm_compute in R. injection R as <- <-.
  split; [reflexivity | split; [exact L | reflexivity]].
Qed.
(* radiotap mode, third allocation fails: radiotap info (77 bytes) and frame body are allocated, the parser's
   copy fails; both remaining blocks are released at the end *)
Example c14_parse_pipeline_instance_radiotap :
  exists h, sk_parse_scenario sc2 (rd_strict rt_beacon) (zlen rt_beacon) true =
              Done ([0; -12; -22; -22; -22; -22; -22; -22; -22; -22; -22; -22], h) /\ live_blocks h = [] /\
            firstn 3 (h_trace h) = [EMalloc 77 (Some 0); EMalloc 31 (Some 1); EMalloc 19 None] /\
            skipn 13 (h_trace h) = [EFree (Some 0); EFree (Some 1)].
Proof.
  destruct (c14_parse_pipeline sc2 rt_beacon (rd_strict rt_beacon) true wf_rt_beacon (agrees_strict rt_beacon))
    as (rs & h & R & L).
  exists h. rewrite R. vm_compute in R. injection R as <- <-.
  split; [reflexivity | split; [exact L | split; reflexivity]].
Qed.
