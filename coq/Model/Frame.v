(* Model of core/frame/frame.c (libwifi_get_wifi_frame) and parse/data/data.c (libwifi_parse_data).
   Header sizes, bit-field masks, flag values and the QoS subtype set come from Gen. *)
From LW Require Import Base.Bytes Gen.Consts Gen.Layout Gen.Tables Model.Radiotap.
Local Open Scope Z_scope.

Definition ENOMEM : Z := 12.

(* value of a bit-field given its byte mask (as dumped by the translator's probe) and the object bytes:
   little-endian host, contiguous mask *)
Definition lowbit (m : Z) : Z := Z.land m (- m).
Definition bf_get (mask bytes : list Z) : Z :=
  let m := le_dec mask in
  if m =? 0 then 0 else Z.land (le_dec (firstn (length mask) bytes)) m / lowbit m.

Record frame := {
  f_rtap : option rt_info;      (* *radiotap_info, when RADIOTAP_PRESENT *)
  f_flags : Z;
  f_fc : list byte;             (* frame_control: 2 bytes *)
  f_len : Z;
  f_header : list byte;         (* the header_len bytes copied into the header union *)
  f_header_len : Z;
  f_body : list byte            (* len - header_len bytes on the heap *)
}.

Definition fc_type (fc : list byte) : Z := bf_get bf_libwifi_frame_ctrl__type fc.
Definition fc_subtype (fc : list byte) : Z := bf_get bf_libwifi_frame_ctrl__subtype fc.
Definition fc_ordered (fc : list byte) : Z := bf_get bf_libwifi_frame_ctrl__flags__ordered fc.
Definition is_qos_subtype (st : Z) : bool := existsb (Z.eqb st) qos_subtypes.

Section M.
  Variable rd : Z -> res byte.

  (* libwifi_get_wifi_frame(fi, frame, frame_len, radiotap) *)
  Definition get_wifi_frame (frame_len : Z) (radiotap : bool) : res (outcome frame) :=
    let* pre :=
      (if radiotap then
         let* o := parse_radiotap_info rd frame_len in
         match o with
         | Err c => Done (Err c)
         | Ok info =>
           let dl := frame_len - i_length info in
           if Z.land (i_flags info) c_IEEE80211_RADIOTAP_F_FCS =? 0
           then Done (Ok (dl, i_length info, c_LIBWIFI_FLAGS_RADIOTAP_PRESENT, Some info))
           else if dl <? 4 then Done (Err (- EINVAL))
           else Done (Ok (dl - 4, i_length info,
                          Z.lor c_LIBWIFI_FLAGS_FCS_PRESENT c_LIBWIFI_FLAGS_RADIOTAP_PRESENT, Some info))
         end
       else Done (Ok (frame_len, 0, 0, None))) in
    match pre with
    | Err c => Done (Err c)
    | Ok (data_len, off, flags0, rt) =>
      if data_len <? sizeof_libwifi_frame_ctrl then Done (Err (- EINVAL)) else
      let* fc := rd_bytes rd (Z.to_nat sizeof_libwifi_frame_ctrl) off in
      let ty := fc_type fc in
      let finish flags hl :=
        if data_len <? hl then Done (Err (- EINVAL)) else
        let* hdr := rd_bytes rd (Z.to_nat hl) off in
        let* body := rd_bytes rd (Z.to_nat (data_len - hl)) (off + hl) in
        Done (Ok {| f_rtap := rt; f_flags := flags; f_fc := fc; f_len := data_len;
                    f_header := hdr; f_header_len := hl; f_body := body |}) in
      if ty =? c_TYPE_DATA then
        if is_qos_subtype (fc_subtype fc)
        then finish (Z.lor flags0 c_LIBWIFI_FLAGS_IS_QOS) sizeof_libwifi_data_qos_frame_header
        else finish flags0 sizeof_libwifi_data_frame_header
      else if ty =? c_TYPE_MANAGEMENT then
        if fc_ordered fc =? 0
        then finish flags0 sizeof_libwifi_mgmt_unordered_frame_header
        else finish (Z.lor flags0 c_LIBWIFI_FLAGS_IS_ORDERED) sizeof_libwifi_mgmt_ordered_frame_header
      else if ty =? c_TYPE_CONTROL then finish flags0 sizeof_libwifi_ctrl_frame_header
      else Done (Err (- EINVAL))
    end.
End M.

(* libwifi_parse_data(data, frame): works on the classified frame only *)
Record data_info := { d_receiver : list byte; d_transmitter : list byte; d_body : list byte; d_body_len : Z }.
Definition parse_data (f : frame) : outcome data_info :=
  if negb (fc_type (f_fc f) =? c_TYPE_DATA) then Err (- EINVAL) else
  let a1 := if Z.land (f_flags f) c_LIBWIFI_FLAGS_IS_QOS =? 0
            then off_libwifi_data_frame_header__addr1 else off_libwifi_data_qos_frame_header__addr1 in
  let a2 := if Z.land (f_flags f) c_LIBWIFI_FLAGS_IS_QOS =? 0
            then off_libwifi_data_frame_header__addr2 else off_libwifi_data_qos_frame_header__addr2 in
  Ok {| d_receiver := slice a1 6 (f_header f); d_transmitter := slice a2 6 (f_header f);
        d_body := f_body f; d_body_len := f_len f - f_header_len f |}.
