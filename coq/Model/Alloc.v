(* Allocation skeletons (C14, C15): every library routine that allocates or frees, as a program over
   an abstract heap that performs exactly the routine's malloc / realloc / free calls, with sizes and
   branches taken from the functional models.  Allocation attempt number k fails when `sc k = true`
   (the failure schedule).  A skeleton step that would dereference a NULL or released block, or free a
   block twice, is a Fault. *)
From LW Require Import Base.Bytes Gen.Consts Gen.Layout Model.TagIter Spec.TagSpec Model.Tags
  Model.Radiotap Model.Frame Model.Eapol.
Local Open Scope Z_scope.

Definition blk := Z.
Inductive ev :=
| EMalloc (n : Z) (r : option blk)
| ERealloc (p : option blk) (n : Z) (r : option blk)
| EFree (p : option blk).
Record heap := { h_live : list (blk * Z); h_next : blk; h_count : nat; h_trace : list ev }.
Definition heap0 : heap := {| h_live := []; h_next := 0; h_count := 0; h_trace := [] |}.
Definition sched := nat -> bool.
Definition ENOMEM : Z := 12.

Definition is_live (b : blk) (h : heap) : bool := existsb (fun p => fst p =? b) (h_live h).
Definition drop_blk (b : blk) (l : list (blk * Z)) : list (blk * Z) := filter (fun p => negb (fst p =? b)) l.

Definition h_malloc (sc : sched) (n : Z) (h : heap) : option blk * heap :=
  if sc (h_count h) then
    (None, {| h_live := h_live h; h_next := h_next h; h_count := S (h_count h); h_trace := h_trace h ++ [EMalloc n None] |})
  else
    (Some (h_next h), {| h_live := (h_next h, n) :: h_live h; h_next := h_next h + 1; h_count := S (h_count h);
                         h_trace := h_trace h ++ [EMalloc n (Some (h_next h))] |}).

(* realloc(NULL, n) behaves as malloc; a failed realloc leaves the old block allocated *)
Definition h_realloc (sc : sched) (p : option blk) (n : Z) (h : heap) : res (option blk * heap) :=
  match p with
  | None =>
    if sc (h_count h) then
      Done (None, {| h_live := h_live h; h_next := h_next h; h_count := S (h_count h); h_trace := h_trace h ++ [ERealloc None n None] |})
    else
      Done (Some (h_next h), {| h_live := (h_next h, n) :: h_live h; h_next := h_next h + 1; h_count := S (h_count h);
                               h_trace := h_trace h ++ [ERealloc None n (Some (h_next h))] |})
  | Some b =>
    if negb (is_live b h) then Fault UseAfterFree b else
    if sc (h_count h) then
      Done (None, {| h_live := h_live h; h_next := h_next h; h_count := S (h_count h);
                     h_trace := h_trace h ++ [ERealloc p n None] |})
    else
      Done (Some (h_next h), {| h_live := (h_next h, n) :: drop_blk b (h_live h); h_next := h_next h + 1;
                               h_count := S (h_count h); h_trace := h_trace h ++ [ERealloc p n (Some (h_next h))] |})
  end.

Definition h_free (p : option blk) (h : heap) : res heap :=
  match p with
  | None => Done {| h_live := h_live h; h_next := h_next h; h_count := h_count h; h_trace := h_trace h ++ [EFree None] |}
  | Some b =>
    if negb (is_live b h) then Fault DoubleFree b else
    Done {| h_live := drop_blk b (h_live h); h_next := h_next h; h_count := h_count h; h_trace := h_trace h ++ [EFree p] |}
  end.

(* a read or write through p *)
Definition h_deref (p : option blk) (h : heap) : res unit :=
  match p with
  | None => Fault NullDeref 0
  | Some b => if is_live b h then Done tt else Fault UseAfterFree b
  end.

(* ---------------------------------------------------------------- tagged parameter lists *)
Record tobj := { o_tags : tags; o_ptr : option blk }.      (* tags.length / contents, tags.parameters *)
Definition tobj0 : tobj := {| o_tags := tags_empty; o_ptr := None |}.

Section S.
  Variable sc : sched.

  (* libwifi_add_tag(tags, {num, len, body}) *)
  Definition sk_add_tag (o : tobj) (num len : Z) (body : list byte) (h : heap) : res (tobj * Z * heap) :=
    let plen := sizeof_libwifi_tag_header + len in
    let* '(p, h1) :=
      (if t_len (o_tags o) =? 0 then Done (h_malloc sc plen h)
       else h_realloc sc (o_ptr o) (t_len (o_tags o) + plen) h) in
    match p with
    | None => Done (o, - ENOMEM, h1)
    | Some b =>
      let* _ := h_deref (Some b) h1 in
      Done ({| o_tags := add_tag (o_tags o) num len body; o_ptr := Some b |}, 0, h1)
    end.

  (* libwifi_quick_add_tag(tags, num, data, len) = create_tag + add_tag + free_tag *)
  Definition sk_quick_add (o : tobj) (num : Z) (data : list byte) (h : heap) : res (tobj * Z * heap) :=
    let '(pb, h1) := h_malloc sc (zlen data) h in
    match pb with
    | None => Done (o, - ENOMEM, h1)
    | Some b =>
      let* '(o', r, h2) := sk_add_tag o (num mod 256) (zlen data mod 256) data h1 in
      let* h3 := h_free (Some b) h2 in
      Done (o', r, h3)
    end.

  (* libwifi_remove_tag(tags, num) *)
  Definition sk_remove_tag (o : tobj) (num : Z) (h : heap) : res (tobj * Z * heap) :=
    let* '(t', r) := remove_tag (o_tags o) num in
    if (r =? 0) && negb (t_len t' =? t_len (o_tags o)) then
      (* an element was found: memmove inside the block, then shrink *)
      let* _ := h_deref (o_ptr o) h in
      if t_len t' =? 0 then
        let* h1 := h_free (o_ptr o) h in Done ({| o_tags := t'; o_ptr := None |}, 0, h1)
      else
        let* '(p, h1) := h_realloc sc (o_ptr o) (t_len t') h in
        Done ({| o_tags := t'; o_ptr := (match p with Some b => Some b | None => o_ptr o end) |}, 0, h1)
    else Done ({| o_tags := t'; o_ptr := o_ptr o |}, r, h).

  (* libwifi_check_tag, libwifi_dump_*: read the block when there is something to read *)
  Definition sk_read (o : tobj) (h : heap) : res unit :=
    if t_len (o_tags o) =? 0 then Done tt else h_deref (o_ptr o) h.

  (* libwifi_set_*_ssid / _channel: check, add the new element, then remove the old one *)
  Definition sk_set_tag (o : tobj) (num : Z) (data : list byte) (h : heap) : res (tobj * Z * heap) :=
    let* present := (if t_len (o_tags o) =? 0 then Done 0
                     else let* _ := sk_read o h in check_tag (o_tags o) num) in
    if present <? 0 then Done (o, present, h) else
    let* '(o1, r, h1) := sk_quick_add o num data h in
    if negb (r =? 0) then Done (o1, r, h1) else
    if 0 <? present then sk_remove_tag o1 num h1 else Done (o1, 0, h1).

  (* libwifi_free_* of a generator object *)
  Definition sk_free (o : tobj) (h : heap) : res (tobj * heap) :=
    let* h1 := h_free (o_ptr o) h in Done ({| o_tags := o_tags o; o_ptr := o_ptr o |}, h1).

  Definition sk_step (o : tobj) (op : tag_op) (h : heap) : res (tobj * Z * heap) :=
    match op with
    | OpAdd n b => sk_quick_add o n b h
    | OpRemove n => sk_remove_tag o n h
    | OpSetSsid b => sk_set_tag o c_TAG_SSID b h
    | OpSetChannel c => sk_set_tag o c_TAG_DS_PARAMETER [c] h
    | OpCheck n => let* _ := sk_read o h in let* c := check_tag (o_tags o) n in Done (o, c, h)
    end.
  Fixpoint sk_run (o : tobj) (ops : list tag_op) (h : heap) : res (tobj * heap) :=
    match ops with
    | [] => Done (o, h)
    | op :: r => let* '(o', _, h') := sk_step o op h in sk_run o' r h'
    end.

  (* ---------------------------------------------------------------- action details *)
  Record dobj := { d_len : Z; d_bytes : list byte; d_ptr : option blk }.
  Definition dobj0 : dobj := {| d_len := 0; d_bytes := []; d_ptr := None |}.
  (* libwifi_add_action_detail(detail, data, data_len) *)
  Definition sk_add_detail (d : dobj) (data : list byte) (h : heap) : res (dobj * Z * heap) :=
    if zlen data =? 0 then Done (d, d_len d, h) else
    if 255 <? d_len d + zlen data then Done (d, - EINVAL, h) else
    let* '(p, h1) := (if d_len d =? 0 then Done (h_malloc sc (zlen data) h)
                      else h_realloc sc (d_ptr d) (zlen data + d_len d) h) in
    match p with
    | None => Done (d, - ENOMEM, h1)
    | Some b =>
      let l := d_len d + zlen data in
      Done ({| d_len := l; d_bytes := d_bytes d ++ data; d_ptr := Some b |}, l, h1)
    end.
  Definition sk_free_action (d : dobj) (h : heap) : res heap := h_free (d_ptr d) h.

  (* ---------------------------------------------------------------- classification and parsers *)
  (* libwifi_get_wifi_frame: which blocks the frame object owns afterwards *)
  Record fobj := { fo_rtap : option blk; fo_body : option blk }.
  Definition fobj0 : fobj := {| fo_rtap := None; fo_body := None |}.
  (* `res` is the functional outcome (Model.Frame.get_wifi_frame); rt_parsed tells whether the radiotap
     header was decoded and the FCS check passed, i.e. whether the info copy is allocated *)
  Definition sk_get_wifi_frame (radiotap rt_ok : bool) (result : outcome frame) (h : heap) : fobj * Z * heap :=
    let '(pr, h1) := if radiotap && rt_ok then h_malloc sc sizeof_libwifi_radiotap_info h else (None, h) in
    if radiotap && rt_ok && (match pr with None => true | Some _ => false end) then (fobj0, - ENOMEM, h1) else
    match result with
    | Err c => ({| fo_rtap := pr; fo_body := None |}, c, h1)
    | Ok f =>
      let bl := f_len f - f_header_len f in
      if 0 <? bl then
        let '(pb, h2) := h_malloc sc bl h1 in
        match pb with
        | None => ({| fo_rtap := pr; fo_body := None |}, - ENOMEM, h2)
        | Some b => ({| fo_rtap := pr; fo_body := Some b |}, 0, h2)
        end
      else ({| fo_rtap := pr; fo_body := None |}, 0, h1)
    end.
  Definition sk_free_wifi_frame (f : fobj) (h : heap) : res heap :=
    let* h1 := h_free (fo_rtap f) h in h_free (fo_body f) h1.

  (* a parser that copies `n` bytes when it gets as far as the copy (reached = the checks before the
     malloc passed), then may still fail; released by free(ptr) *)
  Definition sk_copy_parser (reached : bool) (n : Z) (code_after : Z) (h : heap) : option blk * Z * heap :=
    if negb reached then (None, code_after, h) else
    let '(p, h1) := h_malloc sc n h in
    match p with
    | None => (None, - ENOMEM, h1)
    | Some b => (Some b, code_after, h1)
    end.
End S.

(* what remains allocated *)
Definition live_blocks (h : heap) : list blk := map fst (h_live h).
