(* Model of parse/misc/security.c (libwifi_get_rsn_info, libwifi_get_wpa_info, the two enumerate
   routines) and of the RSN / Microsoft element handlers of parse/management/common.c.
   Offsets are into the parser's copy of the tagged parameters; reads go through rd. *)
From LW Require Import Base.Bytes Base.Sweep Gen.Consts Gen.Layout Gen.Tables.
Local Open Scope Z_scope.

Definition EINVAL : Z := 22.
Definition suite := (list byte * Z)%type.      (* (oui, suite type) *)
Definition suite_len : Z := sizeof_libwifi_cipher_suite.
Definition max_suites : Z := c_LIBWIFI_MAX_CIPHER_SUITES.

Record rsn_info := { r_version : Z; r_group : suite; r_pairwise : list suite; r_akms : list suite; r_caps : Z }.
Record wpa_info := { wi_version : Z; wi_multicast : suite; wi_unicast : list suite; wi_akms : list suite }.
Definition rsn0 : rsn_info := {| r_version := 0; r_group := ([0;0;0], 0); r_pairwise := []; r_akms := []; r_caps := 0 |}.
Definition wpa0 : wpa_info := {| wi_version := 0; wi_multicast := ([0;0;0], 0); wi_unicast := []; wi_akms := [] |}.

Section M.
  Variable rd : Z -> res byte.

  Definition rd_suite (p : Z) : res suite :=
    let* oui := rd_bytes rd 3 p in let* ty := rd (p + 3) in Done (oui, ty).
  Fixpoint rd_suites (n : nat) (p : Z) : res (list suite) :=
    match n with
    | O => Done []
    | S k => let* s := rd_suite p in let* r := rd_suites k (p + suite_len) in Done (s :: r)
    end.
  (* count (16-bit little-endian), the whole list must fit (Err otherwise); the first max_suites suites are kept
     and the walk continues behind the whole list *)
  Definition rd_suite_list (p end_ : Z) : res (outcome (list suite * Z)) :=
    if end_ <? p + 2 then Done (Err (- EINVAL)) else
    let* c := rd_le rd 2 p in
    let p1 := p + 2 in
    if end_ - p1 <? c * suite_len then Done (Err (- EINVAL)) else
    let cnt := if max_suites <? c then max_suites else c in
    let* l := rd_suites (Z.to_nat cnt) p1 in
    Done (Ok (l, p1 + c * suite_len)).

  (* libwifi_get_rsn_info(info, tag_data = base, tag_end = end_) *)
  Definition get_rsn_info (base end_ : Z) : res (outcome rsn_info) :=
    (* the version and the group cipher suite are read unconditionally: they must be there *)
    if end_ - base <? 2 + suite_len then Done (Err (- EINVAL)) else
    let* ver := rd_le rd 2 base in
    let* grp := rd_suite (base + 2) in
    let p := base + 2 + suite_len in
    (* every field after the group cipher suite is optional: the element may end here *)
    if end_ =? p then Done (Ok {| r_version := ver; r_group := grp; r_pairwise := []; r_akms := []; r_caps := 0 |}) else
    if end_ <? p then Done (Err (- EINVAL)) else
    let* o1 := rd_suite_list p end_ in
    match o1 with
    | Err c => Done (Err c)
    | Ok (pw, p2) =>
      (* ... or after the pairwise list *)
      if end_ =? p2 then Done (Ok {| r_version := ver; r_group := grp; r_pairwise := pw; r_akms := []; r_caps := 0 |}) else
      let* o2 := rd_suite_list p2 end_ in
      match o2 with
      | Err c => Done (Err c)
      | Ok (ak, p3) =>
        let* caps := (if end_ <? p3 + 2 then Done 0 else rd_le rd 2 p3) in
        Done (Ok {| r_version := ver; r_group := grp; r_pairwise := pw; r_akms := ak; r_caps := caps |})
      end
    end.

  (* libwifi_get_wpa_info(info, tag_data = base, tag_end = end_) *)
  Definition get_wpa_info (base end_ : Z) : res (outcome wpa_info) :=
    if end_ - base <? 2 + suite_len then Done (Err (- EINVAL)) else
    let* ver := rd_le rd 2 base in
    let* mc := rd_suite (base + 2) in
    let p := base + 2 + suite_len in
    if end_ =? p then Done (Ok {| wi_version := ver; wi_multicast := mc; wi_unicast := []; wi_akms := [] |}) else
    if end_ <? p then Done (Err (- EINVAL)) else
    let* o1 := rd_suite_list p end_ in
    match o1 with
    | Err c => Done (Err c)
    | Ok (uc, p2) =>
      if end_ =? p2 then Done (Ok {| wi_version := ver; wi_multicast := mc; wi_unicast := uc; wi_akms := [] |}) else
      let* o2 := rd_suite_list p2 end_ in
      match o2 with
      | Err c => Done (Err c)
      | Ok (ak, _) => Done (Ok {| wi_version := ver; wi_multicast := mc; wi_unicast := uc; wi_akms := ak |})
      end
    end.
End M.

(* the enumerate routines: flags of the suites listed under the element kind's OUI *)
Definition oui_eqb (a b : list byte) : bool := if list_eq_dec Z.eq_dec a b then true else false.
Definition suite_flags (oui : list byte) (tbl : list (Z * Z)) (s : suite) : Z :=
  if oui_eqb (fst s) oui then match lookup_z (snd s) tbl with Some f => f | None => 0 end else 0.
Definition suites_flags (oui : list byte) (tbl : list (Z * Z)) (l : list suite) : Z :=
  fold_left (fun acc s => Z.lor acc (suite_flags oui tbl s)) l 0.
Definition enumerate_rsn (i : rsn_info) : Z :=
  Z.lor (suite_flags rsn_oui rsn_group_table (r_group i))
    (Z.lor (suites_flags rsn_oui rsn_pairwise_table (r_pairwise i)) (suites_flags rsn_oui rsn_akm_table (r_akms i))).
Definition enumerate_wpa (i : wpa_info) : Z :=
  Z.lor (suite_flags wpa_oui wpa_group_table (wi_multicast i))
    (Z.lor (suites_flags wpa_oui wpa_pairwise_table (wi_unicast i)) (suites_flags wpa_oui wpa_akm_table (wi_akms i))).

(* bss->encryption_info &= ~(unsigned int) WEP, executed when the WEP flag is set: the 32-bit complement
   is zero-extended, so the upper 32 bits are cleared as well *)
Definition clear_wep (info : Z) : Z :=
  if Z.land info c_WEP =? 0 then info else Z.land info (4294967295 - c_WEP).
