(* Model of core/frame/tag.c: the tagged-parameter list as (recorded length, stored bytes).
   Allocation is not modelled here (C14/C15 have their own skeletons): every allocation succeeds. *)
From LW Require Import Base.Bytes Model.TagIter Spec.TagSpec Gen.Consts Gen.Layout.
Local Open Scope Z_scope.

Record tags := { t_len : Z; t_bytes : list byte }.
Definition tags_empty : tags := {| t_len := 0; t_bytes := [] |}.
Definition ENOMEM : Z := 12.

(* libwifi_add_tag(tags, tag) with tag = {header = {num, len}, body}; memcpy copies header.tag_len body bytes *)
Definition add_tag (s : tags) (num len : Z) (body : list byte) : tags :=
  {| t_len := t_len s + (sizeof_libwifi_tag_header + len);
     t_bytes := t_bytes s ++ [num; len] ++ zfirstn len body |}.

(* libwifi_create_tag + libwifi_add_tag + libwifi_free_tag: number and length are stored in one octet each *)
Definition quick_add_tag (s : tags) (num : Z) (data : list byte) : tags * Z :=
  let len8 := zlen data mod 256 in
  (add_tag s (num mod 256) len8 data, 0).

(* the iterator runs over the stored bytes; it cannot leave them (proved in C06), so rd_strict is used *)
Definition iter_of (s : tags) : res (outcome (list elem)) :=
  iterate (rd_strict (t_bytes s)) (t_len s).

Fixpoint find_num (n : Z) (l : list elem) : option elem :=
  match l with
  | [] => None
  | e :: r => if e_num e =? n then Some e else find_num n r
  end.

(* libwifi_remove_tag(tags, tag_number) -> (new list, return value) *)
Definition remove_tag (s : tags) (n : Z) : res (tags * Z) :=
  if t_len s =? 0 then Done (s, 0) else       (* nothing to remove from an empty list *)
  let* o := iter_of s in
  match o with
  | Err _ => Done (s, - EINVAL)
  | Ok elems =>
    match find_num n elems with
    | None => Done (s, 0)
    | Some e =>
      let total := e_len e + sizeof_libwifi_tag_header in
      let copy_len := t_len s - e_off e - total in
      let moved := slice (e_off e + total) copy_len (t_bytes s) in
      Done ({| t_len := t_len s - total;
               t_bytes := zfirstn (e_off e) (t_bytes s) ++ moved |}, 0)
    end
  end.

(* libwifi_check_tag(tags, tag_number) *)
Definition check_tag (s : tags) (n : Z) : res Z :=
  if t_len s =? 0 then Done 0 else            (* an empty list holds no tag of any number *)
  let* o := iter_of s in
  match o with
  | Err _ => Done (- EINVAL)
  | Ok elems => Done (zlen (filter (fun e => e_num e =? n) elems))
  end.

(* libwifi_set_beacon_ssid and its siblings: count the old elements when the list is not empty, quick-add the
   new one, then remove the first element with that number (the old one) if there was any *)
Definition set_tag (s : tags) (num : Z) (data : list byte) : res (tags * Z) :=
  let* present := (if t_len s =? 0 then Done 0 else check_tag s num) in
  if present <? 0 then Done (s, present) else
  let '(s1, r) := quick_add_tag s num data in
  if negb (r =? 0) then Done (s1, r) else
  if 0 <? present then remove_tag s1 num else Done (s1, 0).
Definition set_ssid (s : tags) (ssid : list byte) := set_tag s c_TAG_SSID ssid.
Definition set_channel (s : tags) (ch : Z) := set_tag s c_TAG_DS_PARAMETER [ch].

(* libwifi_dump_tag(tag, buf, buf_len): Ok bytes written at the start of the buffer, or Err *)
Definition dump_tag (num len : Z) (body : list byte) (buf_len : Z) : outcome (list byte) :=
  if buf_len <? sizeof_libwifi_tag_header + len then Err (- EINVAL)
  else Ok ([num; len] ++ zfirstn len body).

(* edit histories (C05): the operations are Spec.TagSpec.tag_op *)
Definition step (s : tags) (o : tag_op) : res (tags * Z) :=
  match o with
  | OpAdd n b => Done (quick_add_tag s n b)
  | OpRemove n => remove_tag s n
  | OpSetSsid b => set_ssid s b
  | OpSetChannel c => set_channel s c
  | OpCheck n => let* c := check_tag s n in Done (s, c)
  end.
Fixpoint run (s : tags) (ops : list tag_op) : res tags :=
  match ops with
  | [] => Done s
  | o :: r => let* '(s', _) := step s o in run s' r
  end.
