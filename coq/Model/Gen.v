(* Model of the frame generators (gen/management/*.c, gen/control/*.c): create_* fills a zeroed packed
   struct field by field at the offsets the compiler chose (Gen/Layout.v), tagged parameters go through
   the Model.Tags routines, dump_* concatenates header, fixed parameters and tags into the caller's
   buffer after the length check.  The clock reading enters as the value libwifi_get_epoch returned. *)
From LW Require Import Base.Bytes Gen.Consts Gen.Layout Model.TagIter Spec.TagSpec Model.Tags Model.Frame.
Local Open Scope Z_scope.

(* overwrite bytes off .. off+len bs-1 of a block *)
Definition put (off : Z) (bs : list byte) (blk : list byte) : list byte :=
  zfirstn off blk ++ bs ++ zskipn (off + zlen bs) blk.
Definition zeros (n : Z) : list byte := repeat 0 (Z.to_nat n).
(* assign v to the bit-field with byte mask `mask` inside a zeroed object of the mask's length *)
Definition bf_bytes (mask : list Z) (v : Z) : list byte :=
  le_enc (length mask) (Z.land (v * lowbit (le_dec mask)) (le_dec mask)).
Definition or_bytes (a b : list byte) : list byte := map (fun p => Z.lor (fst p) (snd p)) (combine a b).

(* frame_header of every management generator: struct libwifi_mgmt_unordered_frame_header *)
Definition mgmt_header (subtype : Z) (a1 a2 a3 : list byte) : list byte :=
  let fc := or_bytes (bf_bytes bf_libwifi_frame_ctrl__type c_TYPE_MANAGEMENT)
                     (bf_bytes bf_libwifi_frame_ctrl__subtype subtype) in
  put off_libwifi_mgmt_unordered_frame_header__addr3 (zfirstn 6 a3)
    (put off_libwifi_mgmt_unordered_frame_header__addr2 (zfirstn 6 a2)
      (put off_libwifi_mgmt_unordered_frame_header__addr1 (zfirstn 6 a1)
        (put off_libwifi_mgmt_unordered_frame_header__frame_control fc
          (zeros sizeof_libwifi_mgmt_unordered_frame_header)))).

(* a generator object with tagged parameters *)
Record gobj := { g_hdr : list byte; g_fixed : list byte; g_tags : tags }.
Definition mk (h f : list byte) (t : tags) : gobj := {| g_hdr := h; g_fixed := f; g_tags := t |}.
Definition g_length (g : gobj) : Z := zlen (g_hdr g) + zlen (g_fixed g) + t_len (g_tags g).
(* libwifi_dump_*(obj, buf, buf_len) *)
Definition g_dump (g : gobj) (buf_len : Z) : outcome (list byte) :=
  if buf_len <? g_length g then Err (- EINVAL) else Ok (g_hdr g ++ g_fixed g ++ t_bytes (g_tags g)).
Definition g_add (g : gobj) (num : Z) (data : list byte) : gobj :=
  mk (g_hdr g) (g_fixed g) (fst (quick_add_tag (g_tags g) num data)).

Definition tags_of (r : res (tags * Z)) : tags := match r with Done (t, _) => t | _ => tags_empty end.
Definition ssid_chan (ssid : list byte) (ch : Z) : tags :=
  let t1 := fst (quick_add_tag tags_empty c_TAG_SSID ssid) in
  fst (quick_add_tag t1 c_TAG_DS_PARAMETER [ch]).
(* the setters on a fresh object: remove is skipped while the list is empty *)
Definition set_ssid_chan (ssid : list byte) (ch : Z) : tags :=
  tags_of (set_channel (tags_of (set_ssid tags_empty ssid)) ch).

Definition le16b (v : Z) := le_enc 2 v.

Definition create_beacon a1 a2 a3 ssid ch (now : Z) : gobj :=
  mk (mgmt_header c_SUBTYPE_BEACON a1 a2 a3)
     (put off_libwifi_beacon_fixed_parameters__capabilities_information (le16b c_LIBWIFI_DEFAULT_AP_CAPABS)
       (put off_libwifi_beacon_fixed_parameters__beacon_interval (le16b c_LIBWIFI_DEFAULT_BEACON_INTERVAL)
         (put off_libwifi_beacon_fixed_parameters__timestamp (le_enc 8 now)
           (zeros sizeof_libwifi_beacon_fixed_parameters))))
     (set_ssid_chan ssid ch).
Definition create_probe_resp a1 a2 a3 ssid ch (now : Z) : gobj :=
  mk (mgmt_header c_SUBTYPE_PROBE_RESP a1 a2 a3)
     (put off_libwifi_probe_resp_fixed_parameters__capabilities_information (le16b c_LIBWIFI_DEFAULT_AP_CAPABS)
       (put off_libwifi_probe_resp_fixed_parameters__probe_resp_interval (le16b 100)
         (put off_libwifi_probe_resp_fixed_parameters__timestamp (le_enc 8 now)
           (zeros sizeof_libwifi_probe_resp_fixed_parameters))))
     (set_ssid_chan ssid ch).
Definition create_probe_req a1 a2 a3 ssid ch : gobj :=
  mk (mgmt_header c_SUBTYPE_PROBE_REQ a1 a2 a3) [] (ssid_chan ssid ch).
Definition create_assoc_req a1 a2 a3 ssid ch : gobj :=
  mk (mgmt_header c_SUBTYPE_ASSOC_REQ a1 a2 a3)
     (put off_libwifi_assoc_req_fixed_parameters__listen_interval (le16b c_LIBWIFI_DEFAULT_LISTEN_INTERVAL)
       (put off_libwifi_assoc_req_fixed_parameters__capabilities_information (le16b c_LIBWIFI_DEFAULT_AP_CAPABS)
         (zeros sizeof_libwifi_assoc_req_fixed_parameters)))
     (ssid_chan ssid ch).
Definition create_reassoc_req a1 a2 a3 cur_ap ssid ch : gobj :=
  mk (mgmt_header c_SUBTYPE_REASSOC_REQ a1 a2 a3)
     (put off_libwifi_reassoc_req_fixed_parameters__current_ap_address (zfirstn 6 cur_ap)
       (put off_libwifi_reassoc_req_fixed_parameters__listen_interval (le16b c_LIBWIFI_DEFAULT_LISTEN_INTERVAL)
         (put off_libwifi_reassoc_req_fixed_parameters__capabilities_information (le16b c_LIBWIFI_DEFAULT_AP_CAPABS)
           (zeros sizeof_libwifi_reassoc_req_fixed_parameters))))
     (ssid_chan ssid ch).
Definition create_assoc_resp a1 a2 a3 ch : gobj :=
  let t1 := tags_of (set_channel tags_empty ch) in
  mk (mgmt_header c_SUBTYPE_ASSOC_RESP a1 a2 a3)
     (put off_libwifi_assoc_resp_fixed_parameters__status_code (le16b c_STATUS_SUCCESS)
       (put off_libwifi_assoc_resp_fixed_parameters__capabilities_information (le16b c_LIBWIFI_DEFAULT_AP_CAPABS)
         (zeros sizeof_libwifi_assoc_resp_fixed_parameters)))
     (fst (quick_add_tag t1 c_TAG_SUPP_RATES c_LIBWIFI_DEFAULT_SUPP_RATES)).
Definition create_reassoc_resp a1 a2 a3 ch : gobj :=
  mk (mgmt_header c_SUBTYPE_REASSOC_RESP a1 a2 a3)
     (put off_libwifi_reassoc_resp_fixed_parameters__status_code (le16b c_STATUS_SUCCESS)
       (put off_libwifi_reassoc_resp_fixed_parameters__capabilities_information (le16b c_LIBWIFI_DEFAULT_AP_CAPABS)
         (zeros sizeof_libwifi_reassoc_resp_fixed_parameters)))
     (tags_of (set_channel tags_empty ch)).
Definition create_auth a1 a2 a3 algo seq status : gobj :=
  mk (mgmt_header c_SUBTYPE_AUTH a1 a2 a3)
     (put off_libwifi_auth_fixed_parameters__status_code (le16b status)
       (put off_libwifi_auth_fixed_parameters__transaction_sequence (le16b seq)
         (put off_libwifi_auth_fixed_parameters__algorithm_number (le16b algo)
           (zeros sizeof_libwifi_auth_fixed_parameters))))
     tags_empty.
Definition create_deauth a1 a2 a3 reason : gobj :=
  mk (mgmt_header c_SUBTYPE_DEAUTH a1 a2 a3)
     (put off_libwifi_deauth_fixed_parameters__reason_code (le16b reason) (zeros sizeof_libwifi_deauth_fixed_parameters))
     tags_empty.
Definition create_disassoc a1 a2 a3 reason : gobj :=
  mk (mgmt_header c_SUBTYPE_DISASSOC a1 a2 a3)
     (put off_libwifi_disassoc_fixed_parameters__reason_code (le16b reason) (zeros sizeof_libwifi_disassoc_fixed_parameters))
     tags_empty.

(* timing advertisement: fixed parameters and one Time Advertisement element built from adv_fields *)
Definition create_timing_advert a1 a2 a3 (cap : Z) (tvalue terror tupdate country : list byte)
    (max_reg max_tx tx_used noise now : Z) : gobj :=
  let el := [cap mod 256] ++
            (if cap mod 256 =? 1 then zfirstn 10 tvalue ++ zfirstn 5 terror
             else if cap mod 256 =? 2 then zfirstn 10 tvalue ++ zfirstn 5 terror ++ zfirstn 1 tupdate else []) in
  mk (mgmt_header c_SUBTYPE_TIME_ADV a1 a2 a3)
     (put off_libwifi_timing_advert_fixed_params__noise_floor [noise mod 256]
      (put off_libwifi_timing_advert_fixed_params__tx_power_used [tx_used mod 256]
       (put off_libwifi_timing_advert_fixed_params__max_tx_power [max_tx mod 256]
        (put off_libwifi_timing_advert_fixed_params__max_reg_power (le16b max_reg)
         (put off_libwifi_timing_advert_fixed_params__country (zfirstn 3 country)
          (put off_libwifi_timing_advert_fixed_params__capabilities_information (le16b c_LIBWIFI_DEFAULT_AP_CAPABS)
           (put off_libwifi_timing_advert_fixed_params__beacon_interval (le16b c_LIBWIFI_DEFAULT_BEACON_INTERVAL)
            (put off_libwifi_timing_advert_fixed_params__measurement_pilot_interval [c_LIBWIFI_DEFAULT_BEACON_INTERVAL mod 256]
             (put off_libwifi_timing_advert_fixed_params__timestamp (le_enc 8 now)
              (zeros sizeof_libwifi_timing_advert_fixed_params))))))))))
     (fst (quick_add_tag tags_empty c_TAG_TIME_ADVERTISEMENT el)).

(* action frames carry a category octet and detail bytes (one-octet running length) instead of tags *)
Record aobj := { a_hdr : list byte; a_category : Z; a_detail : list byte; a_detail_len : Z }.
Definition create_action (noack : bool) a1 a2 a3 (category : Z) : aobj :=
  {| a_hdr := mgmt_header (if noack then c_SUBTYPE_ACTION_NOACK else c_SUBTYPE_ACTION) a1 a2 a3;
     a_category := category mod 256; a_detail := []; a_detail_len := 0 |}.
(* libwifi_add_action_detail(detail, data, data_len) -> new object, returned running length (or -EINVAL
   when the one-octet length would overflow) *)
Definition add_action_detail (a : aobj) (data : list byte) : aobj * Z :=
  if zlen data =? 0 then (a, a_detail_len a) else
  if 255 <? a_detail_len a + zlen data then (a, - EINVAL) else
  let l := a_detail_len a + zlen data in
  ({| a_hdr := a_hdr a; a_category := a_category a; a_detail := a_detail a ++ data; a_detail_len := l |}, l).
Definition a_length (a : aobj) : Z := zlen (a_hdr a) + 1 + a_detail_len a.
Definition a_dump (a : aobj) (buf_len : Z) : outcome (list byte) :=
  if buf_len <? a_length a then Err (- EINVAL)
  else Ok (a_hdr a ++ [a_category a] ++ zfirstn (a_detail_len a) (a_detail a)).

(* in-memory images of the fixed-size objects *)
Definition create_atim a1 a2 a3 : list byte := mgmt_header c_SUBTYPE_ATIM a1 a2 a3.
Definition ctrl_fc (subtype : Z) : list byte :=
  or_bytes (bf_bytes bf_libwifi_frame_ctrl__type c_TYPE_CONTROL) (bf_bytes bf_libwifi_frame_ctrl__subtype subtype).
Definition create_rts (transmitter receiver : list byte) (duration : Z) : list byte :=
  put off_libwifi_rts__transmitter_addr (zfirstn 6 transmitter)
    (put off_libwifi_rts__receiver_addr (zfirstn 6 receiver)
      (put (off_libwifi_rts__frame_header + off_libwifi_ctrl_frame_header__duration) (le16b duration)
        (put (off_libwifi_rts__frame_header + off_libwifi_ctrl_frame_header__frame_control) (ctrl_fc c_SUBTYPE_RTS)
          (zeros sizeof_libwifi_rts)))).
Definition create_cts (receiver : list byte) (duration : Z) : list byte :=
  put off_libwifi_cts__receiver_addr (zfirstn 6 receiver)
    (put (off_libwifi_cts__frame_header + off_libwifi_ctrl_frame_header__duration) (le16b duration)
      (put (off_libwifi_cts__frame_header + off_libwifi_ctrl_frame_header__frame_control) (ctrl_fc c_SUBTYPE_CTS)
        (zeros sizeof_libwifi_cts))).

(* ---- serialisation into the caller's memory (C07): every memcpy of a dump routine is a checked write
   into a block of exactly buf_len bytes; a write past its end is a Fault *)
Definition wr (mem : list byte) (off : Z) (bs : list byte) : res (list byte) :=
  if (off <? 0) || (zlen mem <? off + zlen bs) then Fault OobWrite (off + zlen bs) else Done (put off bs mem).

(* libwifi_dump_<tagged object>(obj, buf, buf_len): (return value, buffer afterwards) *)
Definition g_dump_mem (g : gobj) (mem : list byte) : res (outcome Z * list byte) :=
  if zlen mem <? g_length g then Done (Err (- EINVAL), mem) else
  let* m1 := wr mem 0 (g_hdr g) in
  let* m2 := wr m1 (zlen (g_hdr g)) (g_fixed g) in
  let* m3 := wr m2 (zlen (g_hdr g) + zlen (g_fixed g)) (zfirstn (t_len (g_tags g)) (t_bytes (g_tags g))) in
  Done (Ok (g_length g), m3).
Definition a_dump_mem (a : aobj) (mem : list byte) : res (outcome Z * list byte) :=
  if zlen mem <? a_length a then Done (Err (- EINVAL), mem) else
  let* m1 := wr mem 0 (a_hdr a) in
  let* m2 := wr m1 (zlen (a_hdr a)) [a_category a] in
  let* m3 := wr m2 (zlen (a_hdr a) + 1) (zfirstn (a_detail_len a) (a_detail a)) in
  Done (Ok (a_length a), m3).
(* libwifi_dump_tag(tag, buf, buf_len) with tag = {num, len, body} *)
Definition dump_tag_mem (num len : Z) (body : list byte) (mem : list byte) : res (outcome Z * list byte) :=
  if zlen mem <? sizeof_libwifi_tag_header + len then Done (Err (- EINVAL), mem) else
  let* m1 := wr mem 0 [num; len] in
  let* m2 := wr m1 sizeof_libwifi_tag_header (zfirstn len body) in
  Done (Ok (sizeof_libwifi_tag_header + len), m2).

(* libwifi_random_mac(buf, prefix): memset 6, optional 3-byte prefix, the rest from the random source;
   rnd is what getrandom delivers (as many bytes as requested) *)
Definition random_mac (mem : list byte) (prefix : option (list byte)) (rnd : list byte) : res (list byte) :=
  let* m0 := wr mem 0 (zeros 6) in
  match prefix with
  | Some p => let* m1 := wr m0 0 (zfirstn 3 p) in wr m1 3 (zfirstn 3 rnd)
  | None => wr m0 0 (zfirstn 6 rnd)
  end.
