(* Model of parse/data/eapol.c.  The routines work on a classified frame: they look at the frame
   control type, len, header_len and the heap copy of the body.  Body bytes are read through
   rd_strict over the body (a Fault is a read outside the library's own copy). *)
From LW Require Import Base.Bytes Base.Sweep Gen.Consts Gen.Layout Gen.Tables Model.Radiotap Model.Frame.
Local Open Scope Z_scope.

Definition llc_len : Z := sizeof_libwifi_logical_link_ctrl.
(* sizeof(struct libwifi_wpa_auth_data) - sizeof(unsigned char * ) *)
Definition desc_len : Z := sizeof_libwifi_wpa_auth_data - host_sizeof_ptr.
Definition ki_off : Z := llc_len + off_libwifi_wpa_auth_data__key_info.   (* key_info inside the body *)

Definition body_rd (f : frame) : Z -> res byte := rd_strict (f_body f).

(* libwifi_check_wpa_handshake(frame): Ok 1 or Err -EINVAL *)
Definition check_wpa_handshake (f : frame) : res (outcome Z) :=
  if negb (fc_type (f_fc f) =? c_TYPE_DATA) then Done (Err (- EINVAL)) else
  if f_len f <? f_header_len f + llc_len then Done (Err (- EINVAL)) else
  let* dsap := body_rd f off_libwifi_logical_link_ctrl__dsap in
  let* ssap := body_rd f off_libwifi_logical_link_ctrl__ssap in
  let* ctl := body_rd f off_libwifi_logical_link_ctrl__control in
  if negb ((dsap =? 170) && (ssap =? 170) && (ctl =? 3)) then Done (Err (- EINVAL)) else
  let* oui := rd_bytes (body_rd f) (Z.to_nat fsz_libwifi_logical_link_ctrl__oui) off_libwifi_logical_link_ctrl__oui in
  if negb (if list_eq_dec Z.eq_dec oui c_XEROX_OUI then true else false) then Done (Err (- EINVAL)) else
  let* ty := rd_be (body_rd f) 2 off_libwifi_logical_link_ctrl__type in
  if negb (ty =? c_LLC_TYPE_AUTH) then Done (Err (- EINVAL)) else
  if f_len f <? f_header_len f + (llc_len + desc_len) then Done (Err (- EINVAL)) else
  Done (Ok 1).

(* libwifi_check_wpa_message(frame): one of the WPA_HANDSHAKE_PART enumerators *)
Definition check_wpa_message (f : frame) : res Z :=
  if f_len f <? f_header_len f + (llc_len + desc_len) then Done c_HANDSHAKE_INVALID else
  let* ki := rd_be (body_rd f) 2 (ki_off + off_libwifi_wpa_key_info__information) in
  match lookup_z ki eapol_msg_table with Some m => Done m | None => Done eapol_msg_default end.

(* libwifi_get_wpa_key_data_length(frame) *)
Definition get_wpa_key_data_length (f : frame) : res Z :=
  let* h := check_wpa_handshake f in
  match h with
  | Err _ => Done (- EINVAL)
  | Ok _ => rd_be (body_rd f) 2 (ki_off + off_libwifi_wpa_key_info__key_data_length)
  end.

Record wpa_data := {
  w_version : Z; w_type : Z; w_length : Z; w_descriptor : Z;
  w_information : Z; w_key_length : Z; w_replay : Z;
  w_nonce : list byte; w_iv : list byte; w_rsc : list byte; w_id : list byte; w_mic : list byte;
  w_key_data_length : Z; w_key_data : list byte
}.

(* libwifi_get_wpa_data(frame, data) *)
Definition get_wpa_data (f : frame) : res (outcome wpa_data) :=
  let* h := check_wpa_handshake f in
  match h with
  | Err c => Done (Err c)
  | Ok _ =>
    let rb := body_rd f in
    let a := llc_len in
    let* ver := rb (a + off_libwifi_wpa_auth_data__version) in
    let* ty := rb (a + off_libwifi_wpa_auth_data__type) in
    let* len := rd_be rb 2 (a + off_libwifi_wpa_auth_data__length) in
    let* desc := rb (a + off_libwifi_wpa_auth_data__descriptor) in
    let k := ki_off in
    let* info := rd_be rb 2 (k + off_libwifi_wpa_key_info__information) in
    let* klen := rd_be rb 2 (k + off_libwifi_wpa_key_info__key_length) in
    let* replay := rd_be rb 8 (k + off_libwifi_wpa_key_info__replay_counter) in
    let* nonce := rd_bytes rb (Z.to_nat fsz_libwifi_wpa_key_info__nonce) (k + off_libwifi_wpa_key_info__nonce) in
    let* iv := rd_bytes rb (Z.to_nat fsz_libwifi_wpa_key_info__iv) (k + off_libwifi_wpa_key_info__iv) in
    let* rsc := rd_bytes rb (Z.to_nat fsz_libwifi_wpa_key_info__rsc) (k + off_libwifi_wpa_key_info__rsc) in
    let* id := rd_bytes rb (Z.to_nat fsz_libwifi_wpa_key_info__id) (k + off_libwifi_wpa_key_info__id) in
    let* mic := rd_bytes rb (Z.to_nat fsz_libwifi_wpa_key_info__mic) (k + off_libwifi_wpa_key_info__mic) in
    let* declared := rd_be rb 2 (k + off_libwifi_wpa_key_info__key_data_length) in
    let capped := if eapol_keydata_cap <? declared then eapol_keydata_cap else declared in
    let avail := (f_len f - f_header_len f) - (llc_len + desc_len) in
    let kdl := if 0 <? declared then (if avail <? capped then avail else capped) else declared in
    let* kd := rd_bytes rb (Z.to_nat kdl) (llc_len + desc_len) in
    Done (Ok {| w_version := ver; w_type := ty; w_length := len; w_descriptor := desc;
                w_information := info; w_key_length := klen; w_replay := replay;
                w_nonce := nonce; w_iv := iv; w_rsc := rsc; w_id := id; w_mic := mic;
                w_key_data_length := kdl; w_key_data := kd |})
  end.
