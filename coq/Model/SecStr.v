(* Model of the four security description routines of parse/misc/security.c and their append helper.
   Tables (flag value, name), the "None" string and the separator come from the source (Gen/Tables.v);
   the caller's buffer is a block of LIBWIFI_SECURITY_BUF_LEN bytes, every write outside it is a Fault. *)
From LW Require Import Base.Bytes Gen.Consts Gen.Tables.
Local Open Scope Z_scope.

Definition buf_len : Z := c_LIBWIFI_SECURITY_BUF_LEN.

(* snprintf(buf + off, size, "%s", s): at most size-1 characters and a terminating NUL *)
Definition snprintf_at (mem : list byte) (off size : Z) (s : list byte) : res (list byte) :=
  let k := Z.min (zlen s) (size - 1) in
  if (off <? 0) || (zlen mem <? off + k + 1) then Fault OobWrite (off + k)
  else Done (zfirstn off mem ++ zfirstn k s ++ [0] ++ zskipn (off + k + 1) mem).

Record sec_st := { s_mem : list byte; s_off : Z; s_append : bool }.

(* _libwifi_add_sec_item(buf, &offset, &append, item) *)
Definition add_sec_item (st : sec_st) (item : list byte) : res sec_st :=
  let* '(m1, o1) :=
    (if s_append st
     then let* m := snprintf_at (s_mem st) (s_off st) buf_len sec_separator in
          Done (m, s_off st + zlen sec_separator)
     else Done (s_mem st, s_off st)) in
  let* m2 := snprintf_at m1 o1 buf_len item in
  Done {| s_mem := m2; s_off := o1 + zlen item; s_append := true |}.

Fixpoint add_items (st : sec_st) (info : Z) (tbl : list (Z * list byte)) : res sec_st :=
  match tbl with
  | [] => Done st
  | (flag, name) :: r =>
    if Z.land info flag =? 0 then add_items st info r
    else let* st' := add_sec_item st name in add_items st' info r
  end.

(* memset(buf, 0, LEN); "None" when the summary is 0; otherwise one item per set flag, in table order *)
Definition describe (tbl : list (Z * list byte)) (none : list byte) (info : Z) : res (list byte) :=
  let mem0 := repeat 0 (Z.to_nat buf_len) in
  if info =? 0 then snprintf_at mem0 0 buf_len none
  else let* st := add_items {| s_mem := mem0; s_off := 0; s_append := false |} info tbl in
       Done (s_mem st).

Definition get_security_type := describe sec_table_security_type sec_none_security_type.
Definition get_group_ciphers := describe sec_table_group_ciphers sec_none_group_ciphers.
Definition get_pairwise_ciphers := describe sec_table_pairwise_ciphers sec_none_pairwise_ciphers.
Definition get_auth_key_suites := describe sec_table_auth_key_suites sec_none_auth_key_suites.

(* the C string held by a buffer: bytes before the first NUL *)
Fixpoint cstr (m : list byte) : list byte :=
  match m with [] => [] | b :: r => if b =? 0 then [] else b :: cstr r end.
