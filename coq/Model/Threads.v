(* C16 - a small-step model of several threads using the library, each on its own objects.
   The only state threads could share through the library is the library's writable static data G
   (Gen/Globals.v lists it; the theorem instantiates G with what that list leaves: nothing).
   A library step of thread t maps (shared, local) to (shared, local). *)
From Coq Require Import List Arith.
Import ListNotations.

Section Threads.
  Variable G : Type.                     (* library-owned shared writable state *)
  Variable L : Type.                     (* a thread's own objects, buffers and results *)
  Variable step : nat -> G -> L -> G * L.

  Definition upd (s : nat -> L) (t : nat) (v : L) : nat -> L := fun u => if Nat.eqb u t then v else s u.
  (* run a schedule: a list of thread ids, one library step each *)
  Fixpoint run (sched : list nat) (g : G) (s : nat -> L) : G * (nat -> L) :=
    match sched with
    | [] => (g, s)
    | t :: r => let '(g', l') := step t g (s t) in run r g' (upd s t l')
    end.
  (* the same thread alone, performing n steps *)
  Fixpoint alone (t : nat) (n : nat) (g : G) (l : L) : G * L :=
    match n with
    | O => (g, l)
    | S k => let '(g', l') := step t g l in alone t k g' l'
    end.
  (* the library keeps no shared mutable state: no step reads or writes G *)
  Definition footprint_empty : Prop :=
    exists f : nat -> L -> L, forall t g l, step t g l = (g, f t l).
End Threads.
