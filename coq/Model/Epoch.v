(* Model of libwifi_get_epoch: the return expression as translated from the source (Gen/Arith.v),
   evaluated on one clock reading.  None = the expression is outside the translated fragment. *)
From Coq Require Import ZArith.
From LW Require Import Base.Expr Gen.Arith.
Local Open Scope Z_scope.

Definition epoch (sec nsec : Z) : option Z := teval epoch_expr sec nsec.

(* a clock reading as clock_gettime(CLOCK_REALTIME) can deliver it; the bound on the seconds keeps
   every intermediate product inside a signed 64-bit long (the C arithmetic is modelled unbounded) *)
Definition reading_ok (sec nsec : Z) : Prop := 0 <= sec < 2 ^ 40 /\ 0 <= nsec < 10 ^ 9.
Definition reading_le (s1 n1 s2 n2 : Z) : Prop := s1 < s2 \/ (s1 = s2 /\ n1 <= n2).
