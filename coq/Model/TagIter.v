(* Model of core/frame/tag_iterator.c.  Pointers are offsets from the start of the tag data; every C
   read of the buffer is one call of the read oracle rd (DESIGN.md section 3). *)
From LW Require Import Base.Bytes.
Local Open Scope Z_scope.

Record tag_it := { it_hdr : Z; it_data : Z; it_next : Z; it_end : Z }.
(* one reported element: where its header is, its number, its length *)
Record elem := { e_off : Z; e_num : byte; e_len : Z }.

Definition EINVAL : Z := 22.

Section M.
  Variable rd : Z -> res byte.

  (* libwifi_tag_iterator_init(it, tags_start, data_len) *)
  Definition tag_init (len : Z) : res (outcome tag_it) :=
    if len <? 2 then Done (Err (- EINVAL)) else
    let* tl := rd 1 in
    if len - 2 <? tl then Done (Err (- EINVAL)) else
    Done (Ok {| it_hdr := 0; it_data := 2; it_next := 2 + tl; it_end := len - 1 |}).

  (* libwifi_tag_iterator_next(it): None is the C return value -1, Some n the tag number *)
  Definition tag_next (it : tag_it) : res (tag_it * option Z) :=
    if it_end it <=? it_next it then Done (it, None) else
    let h := it_next it in
    let it1 := {| it_hdr := h; it_data := it_data it; it_next := it_next it; it_end := it_end it |} in
    let* tl := rd (h + 1) in
    let bytes_left := it_end it - h in
    if bytes_left <=? tl then Done (it1, None) else
    let* n := rd h in
    Done ({| it_hdr := h; it_data := h + 2; it_next := h + 2 + tl; it_end := it_end it |}, Some n).

  (* the element the iterator currently points at (tag_header->tag_num / tag_len) *)
  Definition cur_elem (it : tag_it) : res elem :=
    let* n := rd (it_hdr it) in
    let* l := rd (it_hdr it + 1) in
    Done {| e_off := it_hdr it; e_num := n; e_len := l |}.

  (* do { report current } while (next != -1) *)
  Fixpoint walk (fuel : nat) (it : tag_it) : res (list elem) :=
    match fuel with
    | O => OutOfFuel
    | S f =>
      let* e := cur_elem it in
      let* '(it', r) := tag_next it in
      match r with
      | None => Done [e]
      | Some _ => let* rest := walk f it' in Done (e :: rest)
      end
    end.

  (* init followed by the caller's do/while loop; Err when init refuses *)
  Definition iterate (len : Z) : res (outcome (list elem)) :=
    let* o := tag_init len in
    match o with
    | Err c => Done (Err c)
    | Ok it => let* l := walk (Z.to_nat len + 1) it in Done (Ok l)
    end.
End M.
