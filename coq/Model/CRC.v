(* Model of core/frame/crc.c.  Constants (initial value, reflected polynomial, inner loop count, final
   xor) come from the source through Gen/Arith.v; the loop structure is transcribed by hand. *)
From LW Require Import Base.Bytes Gen.Arith.
Local Open Scope Z_scope.

(* mask = -(crc & 1); crc = (crc >> 1) ^ (POLY & mask) *)
Definition crc_shift (crc : Z) : Z :=
  Z.lxor (Z.shiftr crc 1) (if Z.odd crc then crc_poly else 0).
Fixpoint crc_shifts (n : nat) (crc : Z) : Z :=
  match n with O => crc | S k => crc_shifts k (crc_shift crc) end.
(* crc = crc ^ byte; for (j = 7; j >= 0; j--) shift *)
Definition crc_byte (crc b : Z) : Z := crc_shifts (Z.to_nat crc_nbits) (Z.lxor crc b).

Section M.
  Variable rd : Z -> res byte.
  Fixpoint crc_loop (n : nat) (off crc : Z) : res Z :=
    match n with
    | O => Done crc
    | S k => let* b := rd off in crc_loop k (off + 1) (crc_byte crc b)
    end.
  (* libwifi_crc32(message, message_len): bytes off .. off+len-1 of the buffer *)
  Definition crc32_at (off len : Z) : res Z :=
    let* c := crc_loop (Z.to_nat len) off crc_init in Done (Z.lxor c crc_final).
  Definition crc32 (len : Z) : res Z := crc32_at 0 len.
  (* libwifi_calculate_fcs: BYTESWAP32 is the identity on this little-endian host *)
  Definition calculate_fcs (len : Z) : res Z := crc32 len.
  (* libwifi_frame_verify(frame, frame_len) *)
  Definition frame_verify (len : Z) : res Z :=
    if len <? 4 then Done 0 else
    let* o := rd_le rd 4 (len - 4) in
    let* c := crc32 (len - 4) in
    Done (if c =? o then 1 else 0).
End M.

(* the same on a list, for callers that own the bytes *)
Definition crc32_list (msg : list byte) : Z :=
  Z.lxor (fold_left crc_byte msg crc_init) crc_final.
