(* Allocation scenarios (C14/C15): the generators' create routines and the classify/parse/release
   pipeline as sequences of the skeleton steps of Model/Alloc.v, with branches and sizes computed by
   the functional models. *)
From LW Require Import Base.Bytes Gen.Consts Gen.Layout Model.TagIter Spec.TagSpec Model.Tags
  Model.Radiotap Model.Frame Model.Eapol Model.Security Model.Mgmt Model.Alloc.
Local Open Scope Z_scope.

Inductive gkind := GBeacon | GProbeResp | GProbeReq | GAssocReq | GReassocReq | GAssocResp | GReassocResp | GTimingAd.

Section S.
  Variable sc : sched.

  (* libwifi_create_<kind>: the tag operations it performs, stopping at the first failure *)
  Definition sk_create (k : gkind) (ssid : list byte) (ch : Z) (el : list byte) (h : heap) : res (tobj * Z * heap) :=
    let two_adds :=
      let* '(o1, r1, h1) := sk_quick_add sc tobj0 c_TAG_SSID ssid h in
      if negb (r1 =? 0) then Done (o1, r1, h1) else sk_quick_add sc o1 c_TAG_DS_PARAMETER [ch] h1 in
    match k with
    | GBeacon | GProbeResp =>
      let* '(o1, r1, h1) := sk_set_tag sc tobj0 c_TAG_SSID ssid h in
      if negb (r1 =? 0) then Done (o1, r1, h1) else sk_set_tag sc o1 c_TAG_DS_PARAMETER [ch] h1
    | GProbeReq | GAssocReq | GReassocReq => two_adds
    | GAssocResp =>
      let* '(o1, r1, h1) := sk_set_tag sc tobj0 c_TAG_DS_PARAMETER [ch] h in
      if negb (r1 =? 0) then Done (o1, r1, h1) else sk_quick_add sc o1 c_TAG_SUPP_RATES c_LIBWIFI_DEFAULT_SUPP_RATES h1
    | GReassocResp => sk_set_tag sc tobj0 c_TAG_DS_PARAMETER [ch] h
    | GTimingAd => sk_quick_add sc tobj0 c_TAG_TIME_ADVERTISEMENT el h
    end.

  (* create, extra tags, release: returns of every call and the heap at the end *)
  Definition sk_gen_scenario (k : gkind) (ssid : list byte) (ch : Z) (el : list byte) (extras : list tag_op)
      : res (list Z * list byte * heap) :=
    let* '(o, r, h) := sk_create k ssid ch el heap0 in
    let* '(rs, o', h') :=
      (fix go (o : tobj) (ops : list tag_op) (h : heap) (acc : list Z) : res (list Z * tobj * heap) :=
         match ops with
         | [] => Done (acc, o, h)
         | op :: rest => let* '(o1, r1, h1) := sk_step sc o op h in go o1 rest h1 (acc ++ [r1])
         end) o (if r =? 0 then extras else []) h [r] in
    let* '(_, h'') := sk_free o' h' in
    Done (rs, zfirstn (t_len (o_tags o')) (t_bytes (o_tags o')), h'').

  Definition code_of {A} (r : res (outcome A)) : Z :=
    match r with Done (Ok _) => 0 | Done (Err c) => c | _ => -1000 end.

  (* one parser call followed by its release *)
  Definition sk_parse_release (reached : bool) (n code : Z) (h : heap) : res (Z * heap) :=
    let '(p, r, h1) := sk_copy_parser sc reached n code h in
    let* h2 := h_free p h1 in Done (r, h2).
  (* libwifi_free_wpa_data only calls free when key_data_length > 0 *)
  Definition sk_parse_release_guarded (reached : bool) (n code : Z) (h : heap) : res (Z * heap) :=
    let '(p, r, h1) := sk_copy_parser sc reached n code h in
    if reached then let* h2 := h_free p h1 in Done (r, h2) else Done (r, h1).

  (* classify, then every parser on the classified frame, each released, then release the frame *)
  Definition sk_parse_scenario (rd : Z -> res byte) (len : Z) (radiotap : bool) : res (list Z * heap) :=
    let* result := get_wifi_frame rd len radiotap in
    let* rt_ok :=
      (if radiotap then
         let* o := parse_radiotap_info rd len in
         match o with
         | Ok info => Done (negb (negb (Z.land (i_flags info) c_IEEE80211_RADIOTAP_F_FCS =? 0) && (len - i_length info <? 4)))
         | Err _ => Done false
         end
       else Done false) in
    let '(fo, r0, h0) := sk_get_wifi_frame sc radiotap rt_ok result heap0 in
    if negb (r0 =? 0) then
      let* h1 := sk_free_wifi_frame fo h0 in Done ([r0], h1)
    else
    match result with
    | Err _ => let* h1 := sk_free_wifi_frame fo h0 in Done ([r0], h1)
    | Ok f =>
      let hl := f_header_len f in
      let bl := f_len f - hl in
      let bssk st fixed (pr : res (outcome bss)) h :=
        sk_parse_release (is_mgmt_subtype f st && negb (f_len f <=? hl + fixed) && negb (f_len f <? hl + fixed + 2))
                         (bl - fixed) (code_of pr) h in
      let stak st fixed need (pr : res (outcome sta)) h :=
        sk_parse_release (is_mgmt_subtype f st && negb (need && (f_len f <=? hl + fixed))) (bl - fixed) (code_of pr) h in
      let reak st (pr : res (outcome parsed_reason)) h :=
        sk_parse_release (is_mgmt_subtype f st && negb (f_len f <? hl + 2) && (0 <? bl - 2)) (bl - 2) (code_of pr) h in
      let* '(r1, h1) := bssk c_SUBTYPE_BEACON sizeof_libwifi_beacon_fixed_parameters (parse_beacon f) h0 in
      let* '(r2, h2) := bssk c_SUBTYPE_PROBE_RESP sizeof_libwifi_probe_resp_fixed_parameters (parse_probe_resp f) h1 in
      let* '(r3, h3) := bssk c_SUBTYPE_ASSOC_RESP sizeof_libwifi_assoc_resp_fixed_parameters (parse_assoc_resp f) h2 in
      let* '(r4, h4) := bssk c_SUBTYPE_REASSOC_RESP sizeof_libwifi_reassoc_resp_fixed_parameters (parse_reassoc_resp f) h3 in
      let* '(r5, h5) := stak c_SUBTYPE_PROBE_REQ 0 false (parse_probe_req f) h4 in
      let* '(r6, h6) := stak c_SUBTYPE_ASSOC_REQ sizeof_libwifi_assoc_req_fixed_parameters true (parse_assoc_req f) h5 in
      let* '(r7, h7) := stak c_SUBTYPE_REASSOC_REQ sizeof_libwifi_reassoc_req_fixed_parameters true (parse_reassoc_req f) h6 in
      let* '(r8, h8) := reak c_SUBTYPE_DEAUTH (parse_deauth f) h7 in
      let* '(r9, h9) := reak c_SUBTYPE_DISASSOC (parse_disassoc f) h8 in
      let* '(r10, h10) := sk_parse_release ((fc_type (f_fc f) =? c_TYPE_DATA) && (0 <? bl)) bl
                                           (match parse_data f with Ok _ => 0 | Err c => c end) h9 in
      let* wd := get_wpa_data f in
      let kdl := match wd with Ok d => w_key_data_length d | Err _ => 0 end in
      let* '(r11, h11) := sk_parse_release_guarded (0 <? kdl) kdl (match wd with Ok _ => 0 | Err c => c end) h10 in
      let* h12 := sk_free_wifi_frame fo h11 in
      Done ([r0; r1; r2; r3; r4; r5; r6; r7; r8; r9; r10; r11], h12)
    end.
End S.
