(* Model of gen/misc/radiotap.c (libwifi_create_radiotap).  The staging array rtap_data is written
   strictly left to right, so it is modelled as the list of bytes written so far; a write that would
   pass its end (LIBWIFI_MAX_RADIOTAP_LEN - 8 bytes) is a Fault. *)
From LW Require Import Base.Bytes Gen.Consts Gen.Rtap Gen.Layout Model.Radiotap.
Local Open Scope Z_scope.

Definition staging_len : Z := c_LIBWIFI_MAX_RADIOTAP_LEN - 8.

Definition emit (data : list byte) (bs : list byte) : res (list byte) :=
  if staging_len <? zlen data + zlen bs then Fault OobWrite (zlen data + zlen bs) else Done (data ++ bs).

(* the bytes the switch writes for one field (info fields hold unsigned values) *)
Definition field_bytes (info : rt_info) (field : Z) : list byte :=
  if field =? c_IEEE80211_RADIOTAP_CHANNEL then le_enc 2 (i_chan_freq info) ++ le_enc 2 (i_chan_flags info)
  else if field =? c_IEEE80211_RADIOTAP_RATE then le_enc 1 (i_rate_raw info)
  else if field =? c_IEEE80211_RADIOTAP_DBM_ANTSIGNAL then le_enc 1 (i_signal info)
  else if field =? c_IEEE80211_RADIOTAP_ANTENNA then
    (* for (i < antenna_count): info->antennas->antenna_number, info->antennas->signal (always element 0) *)
    match i_antennas info with
    | [] => []
    | (n0, s0) :: _ => concat (repeat [n0 mod 256; s0 mod 256] (length (i_antennas info)))
    end
  else if field =? c_IEEE80211_RADIOTAP_FLAGS then le_enc 1 (i_flags info)
  else if field =? c_IEEE80211_RADIOTAP_RX_FLAGS then le_enc 2 (i_rx_flags info)
  else if field =? c_IEEE80211_RADIOTAP_TX_FLAGS then le_enc 2 (i_tx_flags info)
  else if field =? c_IEEE80211_RADIOTAP_MCS then
    le_enc 1 (i_mcs_known info) ++ le_enc 1 (i_mcs_flags info) ++ le_enc 1 (i_mcs_mcs info)
  else if field =? c_IEEE80211_RADIOTAP_DBM_TX_POWER then le_enc 1 (i_tx_power info)
  else if field =? c_IEEE80211_RADIOTAP_TIMESTAMP then
    le_enc 8 (i_ts info) ++ le_enc 2 (i_ts_accuracy info) ++ le_enc 1 (i_ts_unit info) ++ le_enc 1 (i_ts_flags info)
  else if field =? c_IEEE80211_RADIOTAP_RTS_RETRIES then le_enc 1 (i_rts_retries info)
  else if field =? c_IEEE80211_RADIOTAP_DATA_RETRIES then le_enc 1 (i_data_retries info)
  else [].

(* for (field = start; field < n_bits; field++) with presence_bit already shifted *)
Fixpoint gen_fields (n : nat) (field : Z) (present : Z) (info : rt_info) (data : list byte) : res (list byte) :=
  match n with
  | O => Done data
  | S k =>
    if Z.odd present then
      let align := fst (table_entry field) in
      let padding := (if 0 <? align then (align - zlen data mod align) mod align else 0) mod 256 in
      let* d1 := (if 0 <? padding then emit data (repeat 0 (Z.to_nat padding)) else Done data) in
      let* d2 := emit d1 (field_bytes info field) in
      gen_fields k (field + 1) (Z.shiftr present 1) info d2
    else gen_fields k (field + 1) (Z.shiftr present 1) info data
  end.

(* libwifi_create_radiotap(info, radiotap_header): the bytes written to the caller's buffer; the
   returned length is their count *)
Definition create_radiotap (present : Z) (info : rt_info) : res (list byte) :=
  let* data := gen_fields (Z.to_nat rtap_n_bits) 0 present info [] in
  let it_len := sizeof_ieee80211_radiotap_header + zlen data in
  Done ([0; 0] ++ le_enc 2 it_len ++ le_enc 4 present ++ data).
