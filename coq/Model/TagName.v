(* Model of libwifi_get_tag_name: the switch table as translated from the source (Gen/Tables.v). *)
From Coq Require Import List ZArith String.
From LW Require Import Base.Sweep Gen.Tables.
Import ListNotations.
Local Open Scope Z_scope.

(* the C argument is an int: the model takes any integer *)
Definition get_tag_name (z : Z) : string :=
  match lookup_z z tag_name_table with Some s => s | None => tag_name_default end.
