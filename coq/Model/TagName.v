(* Model of libwifi_get_tag_name: the switch table as translated from the source (Gen/Tables.v). *)
From Coq Require Import List ZArith String.
From LW Require Import Gen.Tables.
Import ListNotations.
Local Open Scope Z_scope.

Fixpoint lookup_z {A} (z : Z) (l : list (Z * A)) : option A :=
  match l with
  | [] => None
  | (k, v) :: r => if k =? z then Some v else lookup_z z r
  end.

(* the C argument is an int: the model takes any integer *)
Definition get_tag_name (z : Z) : string :=
  match lookup_z z tag_name_table with Some s => s | None => tag_name_default end.
