(* Model of parse/management/*.c: the element handlers of common.c and the nine parsers.  The parsers
   work on a classified frame; the tagged parameters they iterate over are their own heap copy, read
   here through rd_strict over that copy (a Fault is a read outside the copy). *)
From LW Require Import Base.Bytes Base.Sweep Gen.Consts Gen.Layout Gen.Tables
  Model.TagIter Model.Radiotap Model.Frame Model.Security.
Local Open Scope Z_scope.

Record bss := {
  b_transmitter : list byte; b_receiver : list byte; b_bssid : list byte;
  b_ssid : list byte;            (* char ssid[33] *)
  b_hidden : Z; b_channel : Z; b_wps : Z; b_enc : Z;
  b_wpa : wpa_info; b_rsn : rsn_info;
  b_tags : list byte
}.
Record sta := {
  s_channel : Z; s_randomized : Z; s_transmitter : list byte; s_receiver : list byte; s_bssid : list byte;
  s_ssid : list byte; s_broadcast_ssid : Z; s_tags : list byte
}.
Definition zero6 : list byte := [0;0;0;0;0;0].
Definition zero33 : list byte := repeat 0 33.
Definition bss0 : bss :=
  {| b_transmitter := zero6; b_receiver := zero6; b_bssid := zero6; b_ssid := zero33; b_hidden := 0; b_channel := 0;
     b_wps := 0; b_enc := 0; b_wpa := wpa0; b_rsn := rsn0; b_tags := [] |}.
Definition sta0 : sta :=
  {| s_channel := 0; s_randomized := 0; s_transmitter := zero6; s_receiver := zero6; s_bssid := zero6;
     s_ssid := zero33; s_broadcast_ssid := 0; s_tags := [] |}.

Definition put0 (bs blk : list byte) : list byte := bs ++ skipn (length bs) blk.   (* memcpy(blk, bs, len bs) *)

Section M.
  Variable rd : Z -> res byte.     (* the parser's copy of the tagged parameters *)

  (* libwifi_handle_ssid_tag: (new ssid buffer, hidden) *)
  Definition handle_ssid (old : list byte) (data len : Z) : res (list byte * Z) :=
    let l := if 32 <? len then 32 else len in
    let* bytes := rd_bytes rd (Z.to_nat l) data in
    let null_ssid := forallb (fun b => b =? 0) bytes in
    (* memset(ssid, 0, 33) then memcpy: a repeated SSID element replaces the earlier one *)
    Done (put0 bytes zero33, if (len <=? 0) || null_ssid then 1 else 0).

  Definition set_enc (b : bss) (e : Z) : bss :=
    {| b_transmitter := b_transmitter b; b_receiver := b_receiver b; b_bssid := b_bssid b; b_ssid := b_ssid b;
       b_hidden := b_hidden b; b_channel := b_channel b; b_wps := b_wps b; b_enc := e; b_wpa := b_wpa b;
       b_rsn := b_rsn b; b_tags := b_tags b |}.

  (* libwifi_bss_handle_rsn_tag(bss, rsn_data = data, rsn_len = len) *)
  Definition handle_rsn (b : bss) (data len : Z) : res (outcome bss) :=
    let b1 := set_enc b (clear_wep (b_enc b)) in
    if len <? 2 + suite_len then Done (Err (- EINVAL)) else
    let* o := get_rsn_info rd data (data + len) in
    match o with
    | Err c => Done (Err c)
    | Ok info =>
      Done (Ok {| b_transmitter := b_transmitter b1; b_receiver := b_receiver b1; b_bssid := b_bssid b1;
                  b_ssid := b_ssid b1; b_hidden := b_hidden b1; b_channel := b_channel b1; b_wps := b_wps b1;
                  b_enc := Z.lor (b_enc b1) (enumerate_rsn info); b_wpa := b_wpa b1; b_rsn := info;
                  b_tags := b_tags b1 |})
    end.

  (* libwifi_bss_handle_msft_tag(bss, msft_data = data, msft_len = len); the type is an int8_t *)
  Definition handle_msft (b : bss) (data len : Z) : res (outcome bss) :=
    (* the OUI and type must be there before the type can be looked at *)
    if len <? sizeof_libwifi_tag_vendor_header then Done (Err (- EINVAL)) else
    let* ty := rd (data + 3) in
    if ty =? c_MICROSOFT_OUI_TYPE_WPA then
      let b1 := set_enc b (Z.lor (clear_wep (b_enc b)) c_WPA) in
      if len <? sizeof_libwifi_tag_vendor_header + 2 + suite_len then Done (Err (- EINVAL)) else
      let* o := get_wpa_info rd (data + sizeof_libwifi_tag_vendor_header) (data + len) in
      match o with
      | Err c => Done (Err c)
      | Ok info =>
        Done (Ok {| b_transmitter := b_transmitter b1; b_receiver := b_receiver b1; b_bssid := b_bssid b1;
                    b_ssid := b_ssid b1; b_hidden := b_hidden b1; b_channel := b_channel b1; b_wps := b_wps b1;
                    b_enc := Z.lor (b_enc b1) (enumerate_wpa info); b_wpa := info; b_rsn := b_rsn b1;
                    b_tags := b_tags b1 |})
      end
    else if ty =? c_MICROSOFT_OUI_TYPE_WPS then
      Done (Ok {| b_transmitter := b_transmitter b; b_receiver := b_receiver b; b_bssid := b_bssid b;
                  b_ssid := b_ssid b; b_hidden := b_hidden b; b_channel := b_channel b; b_wps := 1;
                  b_enc := b_enc b; b_wpa := b_wpa b; b_rsn := b_rsn b; b_tags := b_tags b |})
    else Done (Ok b).

  (* one pass of the switch in libwifi_bss_tag_parser on the element the iterator points at *)
  Definition bss_elem (b : bss) (e : elem) : res (outcome bss) :=
    let data := e_off e + 2 in
    if e_num e =? c_TAG_SSID then
      let* '(ss, hid) := handle_ssid (b_ssid b) data (e_len e) in
      Done (Ok {| b_transmitter := b_transmitter b; b_receiver := b_receiver b; b_bssid := b_bssid b;
                  b_ssid := ss; b_hidden := hid; b_channel := b_channel b; b_wps := b_wps b;
                  b_enc := b_enc b; b_wpa := b_wpa b; b_rsn := b_rsn b; b_tags := b_tags b |})
    else if (e_num e =? c_TAG_DS_PARAMETER) || (e_num e =? c_TAG_HT_OPERATION) then
      if 1 <=? e_len e then
        let* ch := rd data in
        Done (Ok {| b_transmitter := b_transmitter b; b_receiver := b_receiver b; b_bssid := b_bssid b;
                    b_ssid := b_ssid b; b_hidden := b_hidden b; b_channel := ch; b_wps := b_wps b;
                    b_enc := b_enc b; b_wpa := b_wpa b; b_rsn := b_rsn b; b_tags := b_tags b |})
      else Done (Ok b)
    else if e_num e =? c_TAG_RSN then
      let* o := handle_rsn b data (e_len e) in
      match o with Err _ => Done (Err (- EINVAL)) | Ok b' => Done (Ok b') end
    else if e_num e =? c_TAG_VENDOR_SPECIFIC then
      if sizeof_libwifi_tag_vendor_header <=? e_len e then
        let* oui := rd_bytes rd 3 data in
        if oui_eqb oui c_MICROSOFT_OUI then
          let* o := handle_msft b data (e_len e) in
          match o with Err _ => Done (Err (- EINVAL)) | Ok b' => Done (Ok b') end
        else Done (Ok b)
      else Done (Ok b)
    else if e_num e =? c_TAG_ELEMENT_EXTENSION then
      (* the extension number is looked at (no extension is implemented) only when the element has a body *)
      if sizeof_libwifi_tag_extension_header <=? e_len e then let* _ := rd data in Done (Ok b) else Done (Ok b)
    else Done (Ok b).

  Fixpoint bss_elems (b : bss) (l : list elem) : res (outcome bss) :=
    match l with
    | [] => Done (Ok b)
    | e :: r => let* o := bss_elem b e in match o with Err c => Done (Err c) | Ok b' => bss_elems b' r end
    end.

  Definition sta_elem (s : sta) (e : elem) : res sta :=
    let data := e_off e + 2 in
    if e_num e =? c_TAG_SSID then
      let* '(ss, _) := handle_ssid (s_ssid s) data (e_len e) in
      Done {| s_channel := s_channel s; s_randomized := s_randomized s; s_transmitter := s_transmitter s;
              s_receiver := s_receiver s; s_bssid := s_bssid s; s_ssid := ss; s_broadcast_ssid := s_broadcast_ssid s;
              s_tags := s_tags s |}
    else if e_num e =? c_TAG_DS_PARAMETER then
      if 1 <=? e_len e then
        let* ch := rd data in
        Done {| s_channel := ch; s_randomized := s_randomized s; s_transmitter := s_transmitter s;
                s_receiver := s_receiver s; s_bssid := s_bssid s; s_ssid := s_ssid s;
                s_broadcast_ssid := s_broadcast_ssid s; s_tags := s_tags s |}
      else Done s
    else Done s.
  Fixpoint sta_elems (s : sta) (l : list elem) : res sta :=
    match l with [] => Done s | e :: r => let* s' := sta_elem s e in sta_elems s' r end.
End M.

(* ---- the parsers proper: f is the classified frame *)
Definition hdr_addr (f : frame) (off : Z) : list byte := slice off 6 (f_header f).
Definition A1 := off_libwifi_mgmt_unordered_frame_header__addr1.
Definition A2 := off_libwifi_mgmt_unordered_frame_header__addr2.
Definition A3 := off_libwifi_mgmt_unordered_frame_header__addr3.
Definition is_mgmt_subtype (f : frame) (st : Z) : bool :=
  (fc_type (f_fc f) =? c_TYPE_MANAGEMENT) && (fc_subtype (f_fc f) =? st).

(* iterate over the copy `tags` (length tlen) and run the element handlers *)
Definition run_bss (b : bss) (tags : list byte) : res (outcome bss) :=
  let rd := rd_strict tags in
  let* o := iterate rd (zlen tags) in
  match o with
  | Err _ => Done (Err (- EINVAL))
  | Ok elems => bss_elems rd b elems
  end.
Definition run_sta (s : sta) (tags : list byte) : res (outcome sta) :=
  let rd := rd_strict tags in
  let* o := iterate rd (zlen tags) in
  match o with
  | Err _ => Done (Err (- EINVAL))
  | Ok elems => let* s' := sta_elems rd s elems in Done (Ok s')
  end.

(* beacon / probe response / (re)association response: fixed parameters of `fixed` bytes with the
   capability field at offset cap_off; which addresses are exposed differs per parser *)
Definition parse_bss_kind (f : frame) (st fixed cap_off : Z) (all_addrs : bool) : res (outcome bss) :=
  if negb (is_mgmt_subtype f st) then Done (Err (- EINVAL)) else
  if f_len f <=? f_header_len f + fixed then Done (Err (- EINVAL)) else
  if f_len f <? f_header_len f + fixed + 2 then Done (Err (- EINVAL)) else
  let* cap := rd_le (rd_strict (f_body f)) 2 cap_off in
  let enc0 := if Z.land cap (2 ^ c_CAPABILITIES_PRIVACY) =? 0 then 0 else c_WEP in
  let tags := zskipn fixed (f_body f) in
  let b := {| b_transmitter := (if all_addrs then hdr_addr f A2 else zero6);
              b_receiver := (if all_addrs then hdr_addr f A1 else zero6);
              b_bssid := hdr_addr f A3; b_ssid := zero33; b_hidden := 0; b_channel := 0; b_wps := 0;
              b_enc := enc0; b_wpa := wpa0; b_rsn := rsn0; b_tags := tags |} in
  run_bss b tags.

Definition parse_beacon (f : frame) :=
  parse_bss_kind f c_SUBTYPE_BEACON sizeof_libwifi_beacon_fixed_parameters
    off_libwifi_beacon_fixed_parameters__capabilities_information true.
Definition parse_probe_resp (f : frame) :=
  parse_bss_kind f c_SUBTYPE_PROBE_RESP sizeof_libwifi_probe_resp_fixed_parameters
    off_libwifi_probe_resp_fixed_parameters__capabilities_information true.
Definition parse_assoc_resp (f : frame) :=
  parse_bss_kind f c_SUBTYPE_ASSOC_RESP sizeof_libwifi_assoc_resp_fixed_parameters
    off_libwifi_assoc_resp_fixed_parameters__capabilities_information true.
Definition parse_reassoc_resp (f : frame) :=
  parse_bss_kind f c_SUBTYPE_REASSOC_RESP sizeof_libwifi_reassoc_resp_fixed_parameters
    off_libwifi_reassoc_resp_fixed_parameters__capabilities_information true.

(* probe request / (re)association request *)
Definition parse_sta_kind (f : frame) (st fixed : Z) (need_fixed : bool) : res (outcome sta) :=
  if negb (is_mgmt_subtype f st) then Done (Err (- EINVAL)) else
  let tx := hdr_addr f A2 in
  if need_fixed && (f_len f <=? f_header_len f + fixed) then Done (Err (- EINVAL)) else
  let tags := zskipn fixed (f_body f) in
  let s := {| s_channel := 0; s_randomized := (if Z.land (znth tx 0) 2 =? 0 then 0 else 1); s_transmitter := tx;
              s_receiver := hdr_addr f A1; s_bssid := hdr_addr f A3; s_ssid := zero33; s_broadcast_ssid := 0; s_tags := tags |} in
  run_sta s tags.
Definition parse_probe_req (f : frame) := parse_sta_kind f c_SUBTYPE_PROBE_REQ 0 false.
Definition parse_assoc_req (f : frame) :=
  parse_sta_kind f c_SUBTYPE_ASSOC_REQ sizeof_libwifi_assoc_req_fixed_parameters true.
Definition parse_reassoc_req (f : frame) :=
  parse_sta_kind f c_SUBTYPE_REASSOC_REQ sizeof_libwifi_reassoc_req_fixed_parameters true.

(* deauthentication / disassociation: header copy, reason code, tag copy *)
Record parsed_reason := { p_ordered : Z; p_header : list byte; p_reason : Z; p_tags : list byte }.
Definition parse_reason_kind (f : frame) (st : Z) : res (outcome parsed_reason) :=
  if negb (is_mgmt_subtype f st) then Done (Err (- EINVAL)) else
  if f_len f <? f_header_len f + 2 then Done (Err (- EINVAL)) else
  let* reason := rd_le (rd_strict (f_body f)) 2 0 in
  Done (Ok {| p_ordered := (if fc_ordered (f_fc f) =? 0 then 0 else 1); p_header := f_header f;
              p_reason := reason; p_tags := zskipn 2 (f_body f) |}).
Definition parse_deauth (f : frame) := parse_reason_kind f c_SUBTYPE_DEAUTH.
Definition parse_disassoc (f : frame) := parse_reason_kind f c_SUBTYPE_DISASSOC.
