(* Model of core/radiotap/radiotap.c (the iterator, called with vns = NULL) and of
   parse/misc/radiotap.c (libwifi_parse_radiotap_info, libwifi_parse_radiotap_rssi).
   Pointers are offsets from the start of the radiotap header; every buffer read is an rd call.
   The alignment/size table is the one compiled into radiotap_ns (Gen/Rtap.v); enumerator values
   and limits come from Gen/Consts.v. *)
From LW Require Import Base.Bytes Gen.Consts Gen.Rtap Gen.Layout.
Local Open Scope Z_scope.

Definition EINVAL : Z := 22.
Definition ENOENT : Z := 2.

(* iterator state. r_arg = None models _arg after it was set from a NULL _next_ns_data: every later
   bounds comparison on it is "beyond" (the unsigned difference is huge) *)
Record rt_it := {
  r_max : Z;             (* _max_length *)
  r_idx : Z;             (* _arg_index *)
  r_shift : Z;           (* _bitmap_shifter *)
  r_arg : option Z;      (* _arg *)
  r_nextbm : Z;          (* _next_bitmap *)
  r_reset : bool;        (* _reset_on_ext *)
  r_ns : bool;           (* current_namespace: true = &radiotap_ns, false = NULL *)
  r_nnd : option Z       (* _next_ns_data *)
}.

Definition table_entry (i : Z) : Z * Z := nth (Z.to_nat i) rtap_align_size (0, 0).
Definition bit31 : Z := 2147483648.

Section M.
  Variable rd : Z -> res byte.

  (* skip the chain of extended bitmap words: arg points at the word being tested *)
  Fixpoint ext_chain (fuel : nat) (arg max : Z) : res (outcome Z) :=
    match fuel with
    | O => OutOfFuel
    | S f =>
      let* w := rd_le rd 4 arg in
      if Z.land w bit31 =? 0 then Done (Ok arg)
      else let arg' := arg + 4 in
           if max <? arg' + 4 then Done (Err (- EINVAL)) else ext_chain f arg' max
    end.

  (* ieee80211_radiotap_iterator_init(it, header, max_length, NULL) *)
  Definition rt_init (max_length : Z) : res (outcome rt_it) :=
    if max_length <? sizeof_ieee80211_radiotap_header then Done (Err (- EINVAL)) else
    let* ver := rd 0 in
    if negb (ver =? 0) then Done (Err (- EINVAL)) else
    let* itlen := rd_le rd 2 2 in
    if max_length <? itlen then Done (Err (- EINVAL)) else
    let* present := rd_le rd 4 4 in
    let arg0 := sizeof_ieee80211_radiotap_header in
    let mk arg := {| r_max := itlen; r_idx := 0; r_shift := present; r_arg := Some arg;
                     r_nextbm := 8; r_reset := false; r_ns := true; r_nnd := None |} in
    if Z.land present bit31 =? 0 then Done (Ok (mk arg0)) else
    if itlen <? arg0 + 4 then Done (Err (- EINVAL)) else
    let* o := ext_chain (Z.to_nat itlen + 1) arg0 itlen in
    match o with
    | Err c => Done (Err c)
    | Ok a => Done (Ok (mk (a + 4)))
    end.

  Inductive rt_step := Hit (idx : Z) (arg : Z) | End (code : Z).

  Definition shift_next (it : rt_it) : rt_it :=
    {| r_max := r_max it; r_idx := r_idx it + 1; r_shift := Z.shiftr (r_shift it) 1; r_arg := r_arg it;
       r_nextbm := r_nextbm it; r_reset := r_reset it; r_ns := r_ns it; r_nnd := r_nnd it |}.
  Definition with_arg (it : rt_it) (a : option Z) : rt_it :=
    {| r_max := r_max it; r_idx := r_idx it; r_shift := r_shift it; r_arg := a;
       r_nextbm := r_nextbm it; r_reset := r_reset it; r_ns := r_ns it; r_nnd := r_nnd it |}.

  (* ieee80211_radiotap_iterator_next: one pass of the while(1) loop per unit of fuel *)
  Fixpoint rt_next (fuel : nat) (it : rt_it) : res (rt_it * rt_step) :=
    match fuel with
    | O => OutOfFuel
    | S f =>
      let bit := r_idx it mod 32 in
      let present := Z.odd (r_shift it) in
      if (bit =? c_IEEE80211_RADIOTAP_EXT) && negb present then Done (it, End (- ENOENT)) else
      if negb present then rt_next f (shift_next it) else
      (* alignment and size of this argument *)
      let special := (bit =? c_IEEE80211_RADIOTAP_RADIOTAP_NAMESPACE) || (bit =? c_IEEE80211_RADIOTAP_EXT) in
      let vendor := bit =? c_IEEE80211_RADIOTAP_VENDOR_NAMESPACE in
      let in_table := r_ns it && (r_idx it <? rtap_n_bits) in
      if negb special && negb vendor && negb in_table && r_ns it then Done (it, End (- ENOENT)) else
      let '(align, size) := if special then (1, 0) else if vendor then (2, 6)
                            else if in_table then table_entry (r_idx it) else (0, 0) in
      if align =? 0 then
        (* skip all subsequent data of this namespace *)
        rt_next f (shift_next {| r_max := r_max it; r_idx := r_idx it; r_shift := r_shift it;
                                 r_arg := r_nnd it; r_nextbm := r_nextbm it; r_reset := r_reset it;
                                 r_ns := false; r_nnd := r_nnd it |})
      else
      match r_arg it with
      | None => Done (it, End (- EINVAL))      (* NULL-based _arg: every bounds test fails *)
      | Some a0 =>
        let pad := a0 mod align in
        let a := if pad =? 0 then a0 else a0 + (align - pad) in
        if vendor then
          if r_max it <? a + size then Done (it, End (- EINVAL)) else
          let* _ := rd_bytes rd 4 a in          (* OUI and sub-namespace are read for find_ns (no namespace registered) *)
          let* vnslen := rd_le rd 2 (a + 4) in
          let size' := size + vnslen in
          let a' := a + size' in
          if r_max it <? a' then Done (it, End (- EINVAL)) else
          let it' := {| r_max := r_max it; r_idx := r_idx it + 1; r_shift := Z.shiftr (r_shift it) 1;
                        r_arg := Some a'; r_nextbm := r_nextbm it; r_reset := true; r_ns := false;
                        r_nnd := Some (a + size + vnslen) |} in
          Done (it', Hit c_IEEE80211_RADIOTAP_VENDOR_NAMESPACE a)
        else
          let a' := a + size in
          if r_max it <? a' then Done (it, End (- EINVAL)) else
          if bit =? c_IEEE80211_RADIOTAP_RADIOTAP_NAMESPACE then
            rt_next f {| r_max := r_max it; r_idx := r_idx it + 1; r_shift := Z.shiftr (r_shift it) 1;
                         r_arg := Some a'; r_nextbm := r_nextbm it; r_reset := true; r_ns := true;
                         r_nnd := r_nnd it |}
          else if bit =? c_IEEE80211_RADIOTAP_EXT then
            let* w := rd_le rd 4 (r_nextbm it) in
            rt_next f {| r_max := r_max it; r_idx := (if r_reset it then 0 else r_idx it + 1); r_shift := w;
                         r_arg := Some a'; r_nextbm := r_nextbm it + 4; r_reset := false; r_ns := r_ns it;
                         r_nnd := r_nnd it |}
          else
            Done ({| r_max := r_max it; r_idx := r_idx it + 1; r_shift := Z.shiftr (r_shift it) 1;
                     r_arg := Some a'; r_nextbm := r_nextbm it; r_reset := r_reset it; r_ns := r_ns it;
                     r_nnd := r_nnd it |}, Hit (r_idx it) a)
      end
    end.

  (* ---------------- struct libwifi_radiotap_info (integer fields as unsigned byte/word values) *)
  Record rt_info := {
    i_chan_flags : Z; i_chan_freq : Z; i_chan_center : Z; i_chan_band : Z;
    i_rate_raw : Z;
    i_antennas : list (Z * Z);       (* (antenna_number, signal), antenna_count = length *)
    i_signal : Z; i_flags : Z; i_ext_flags : Z; i_rx_flags : Z; i_tx_flags : Z;
    i_mcs_known : Z; i_mcs_flags : Z; i_mcs_mcs : Z;
    i_tx_power : Z;
    i_ts : Z; i_ts_accuracy : Z; i_ts_unit : Z; i_ts_flags : Z;
    i_rts_retries : Z; i_data_retries : Z;
    i_length : Z
  }.
  Definition info0 : rt_info :=
    {| i_chan_flags := 0; i_chan_freq := 0; i_chan_center := 0; i_chan_band := 0; i_rate_raw := 0;
       i_antennas := []; i_signal := 0; i_flags := 0; i_ext_flags := 0; i_rx_flags := 0; i_tx_flags := 0;
       i_mcs_known := 0; i_mcs_flags := 0; i_mcs_mcs := 0; i_tx_power := 0;
       i_ts := 0; i_ts_accuracy := 0; i_ts_unit := 0; i_ts_flags := 0;
       i_rts_retries := 0; i_data_retries := 0; i_length := 0 |}.

  (* frequency -> (center channel, band) as in the CHANNEL case; band bits are or-ed into 0 *)
  Definition band_center (freq : Z) : Z * Z :=
    if (2412 <=? freq) && (freq <=? 2484) then
      ((if freq =? 2484 then 14 else (freq - 2407) / 5) mod 256, c_LIBWIFI_RADIOTAP_BAND_2GHZ)
    else if (5160 <=? freq) && (freq <=? 5885) then (((freq - 5000) / 5) mod 256, c_LIBWIFI_RADIOTAP_BAND_5GHZ)
    else if (5955 <=? freq) && (freq <=? 7115) then (((freq - 5950) / 5) mod 256, c_LIBWIFI_RADIOTAP_BAND_6GHZ)
    else (0, 0).

  Fixpoint set_last_antenna (l : list (Z * Z)) (num : Z) : list (Z * Z) :=
    match l with
    | [] => []
    | [(_, s)] => [(num, s)]
    | x :: r => x :: set_last_antenna r num
    end.

  (* the switch of libwifi_parse_radiotap_info on one hit; skipped = skipped_antenna *)
  Definition rt_field (info : rt_info) (skipped : bool) (idx a : Z) : res (rt_info * bool) :=
    let upd f := Done (f, skipped) in
    if idx =? c_IEEE80211_RADIOTAP_CHANNEL then
      let* freq := rd_le rd 2 a in
      let* fl := rd_le rd 2 (a + 2) in
      let '(center, band) := band_center freq in
      upd {| i_chan_flags := fl; i_chan_freq := freq;
             i_chan_center := (if band =? 0 then i_chan_center info else center);
             i_chan_band := Z.lor (i_chan_band info) band;
             i_rate_raw := i_rate_raw info; i_antennas := i_antennas info; i_signal := i_signal info;
             i_flags := i_flags info; i_ext_flags := i_ext_flags info; i_rx_flags := i_rx_flags info;
             i_tx_flags := i_tx_flags info; i_mcs_known := i_mcs_known info; i_mcs_flags := i_mcs_flags info;
             i_mcs_mcs := i_mcs_mcs info; i_tx_power := i_tx_power info; i_ts := i_ts info;
             i_ts_accuracy := i_ts_accuracy info; i_ts_unit := i_ts_unit info; i_ts_flags := i_ts_flags info;
             i_rts_retries := i_rts_retries info; i_data_retries := i_data_retries info; i_length := i_length info |}
    else if idx =? c_IEEE80211_RADIOTAP_RATE then
      let* b := rd a in
      upd {| i_chan_flags := i_chan_flags info; i_chan_freq := i_chan_freq info; i_chan_center := i_chan_center info;
             i_chan_band := i_chan_band info; i_rate_raw := b; i_antennas := i_antennas info; i_signal := i_signal info;
             i_flags := i_flags info; i_ext_flags := i_ext_flags info; i_rx_flags := i_rx_flags info;
             i_tx_flags := i_tx_flags info; i_mcs_known := i_mcs_known info; i_mcs_flags := i_mcs_flags info;
             i_mcs_mcs := i_mcs_mcs info; i_tx_power := i_tx_power info; i_ts := i_ts info;
             i_ts_accuracy := i_ts_accuracy info; i_ts_unit := i_ts_unit info; i_ts_flags := i_ts_flags info;
             i_rts_retries := i_rts_retries info; i_data_retries := i_data_retries info; i_length := i_length info |}
    else if idx =? c_IEEE80211_RADIOTAP_DBM_ANTSIGNAL then
      let* b := rd a in
      if negb skipped then
        Done ({| i_chan_flags := i_chan_flags info; i_chan_freq := i_chan_freq info; i_chan_center := i_chan_center info;
                 i_chan_band := i_chan_band info; i_rate_raw := i_rate_raw info; i_antennas := i_antennas info; i_signal := b;
                 i_flags := i_flags info; i_ext_flags := i_ext_flags info; i_rx_flags := i_rx_flags info;
                 i_tx_flags := i_tx_flags info; i_mcs_known := i_mcs_known info; i_mcs_flags := i_mcs_flags info;
                 i_mcs_mcs := i_mcs_mcs info; i_tx_power := i_tx_power info; i_ts := i_ts info;
                 i_ts_accuracy := i_ts_accuracy info; i_ts_unit := i_ts_unit info; i_ts_flags := i_ts_flags info;
                 i_rts_retries := i_rts_retries info; i_data_retries := i_data_retries info; i_length := i_length info |}, true)
      else if zlen (i_antennas info) <? c_LIBWIFI_MAX_RADIOTAP_ANTENNAS then
        upd {| i_chan_flags := i_chan_flags info; i_chan_freq := i_chan_freq info; i_chan_center := i_chan_center info;
               i_chan_band := i_chan_band info; i_rate_raw := i_rate_raw info;
               i_antennas := i_antennas info ++ [(zlen (i_antennas info), b)]; i_signal := i_signal info;
               i_flags := i_flags info; i_ext_flags := i_ext_flags info; i_rx_flags := i_rx_flags info;
               i_tx_flags := i_tx_flags info; i_mcs_known := i_mcs_known info; i_mcs_flags := i_mcs_flags info;
               i_mcs_mcs := i_mcs_mcs info; i_tx_power := i_tx_power info; i_ts := i_ts info;
               i_ts_accuracy := i_ts_accuracy info; i_ts_unit := i_ts_unit info; i_ts_flags := i_ts_flags info;
               i_rts_retries := i_rts_retries info; i_data_retries := i_data_retries info; i_length := i_length info |}
      else upd info
    else if idx =? c_IEEE80211_RADIOTAP_ANTENNA then
      let* b := rd a in
      upd {| i_chan_flags := i_chan_flags info; i_chan_freq := i_chan_freq info; i_chan_center := i_chan_center info;
             i_chan_band := i_chan_band info; i_rate_raw := i_rate_raw info;
             i_antennas := set_last_antenna (i_antennas info) b; i_signal := i_signal info;
             i_flags := i_flags info; i_ext_flags := i_ext_flags info; i_rx_flags := i_rx_flags info;
             i_tx_flags := i_tx_flags info; i_mcs_known := i_mcs_known info; i_mcs_flags := i_mcs_flags info;
             i_mcs_mcs := i_mcs_mcs info; i_tx_power := i_tx_power info; i_ts := i_ts info;
             i_ts_accuracy := i_ts_accuracy info; i_ts_unit := i_ts_unit info; i_ts_flags := i_ts_flags info;
             i_rts_retries := i_rts_retries info; i_data_retries := i_data_retries info; i_length := i_length info |}
    else if idx =? c_IEEE80211_RADIOTAP_FLAGS then
      let* b := rd a in
      upd {| i_chan_flags := i_chan_flags info; i_chan_freq := i_chan_freq info; i_chan_center := i_chan_center info;
             i_chan_band := i_chan_band info; i_rate_raw := i_rate_raw info; i_antennas := i_antennas info; i_signal := i_signal info;
             i_flags := b; i_ext_flags := i_ext_flags info; i_rx_flags := i_rx_flags info;
             i_tx_flags := i_tx_flags info; i_mcs_known := i_mcs_known info; i_mcs_flags := i_mcs_flags info;
             i_mcs_mcs := i_mcs_mcs info; i_tx_power := i_tx_power info; i_ts := i_ts info;
             i_ts_accuracy := i_ts_accuracy info; i_ts_unit := i_ts_unit info; i_ts_flags := i_ts_flags info;
             i_rts_retries := i_rts_retries info; i_data_retries := i_data_retries info; i_length := i_length info |}
    else if idx =? c_IEEE80211_RADIOTAP_RX_FLAGS then
      let* w := rd_le rd 2 a in
      upd {| i_chan_flags := i_chan_flags info; i_chan_freq := i_chan_freq info; i_chan_center := i_chan_center info;
             i_chan_band := i_chan_band info; i_rate_raw := i_rate_raw info; i_antennas := i_antennas info; i_signal := i_signal info;
             i_flags := i_flags info; i_ext_flags := i_ext_flags info; i_rx_flags := w;
             i_tx_flags := i_tx_flags info; i_mcs_known := i_mcs_known info; i_mcs_flags := i_mcs_flags info;
             i_mcs_mcs := i_mcs_mcs info; i_tx_power := i_tx_power info; i_ts := i_ts info;
             i_ts_accuracy := i_ts_accuracy info; i_ts_unit := i_ts_unit info; i_ts_flags := i_ts_flags info;
             i_rts_retries := i_rts_retries info; i_data_retries := i_data_retries info; i_length := i_length info |}
    else if idx =? c_IEEE80211_RADIOTAP_TX_FLAGS then
      let* w := rd_le rd 2 a in
      upd {| i_chan_flags := i_chan_flags info; i_chan_freq := i_chan_freq info; i_chan_center := i_chan_center info;
             i_chan_band := i_chan_band info; i_rate_raw := i_rate_raw info; i_antennas := i_antennas info; i_signal := i_signal info;
             i_flags := i_flags info; i_ext_flags := i_ext_flags info; i_rx_flags := i_rx_flags info;
             i_tx_flags := w; i_mcs_known := i_mcs_known info; i_mcs_flags := i_mcs_flags info;
             i_mcs_mcs := i_mcs_mcs info; i_tx_power := i_tx_power info; i_ts := i_ts info;
             i_ts_accuracy := i_ts_accuracy info; i_ts_unit := i_ts_unit info; i_ts_flags := i_ts_flags info;
             i_rts_retries := i_rts_retries info; i_data_retries := i_data_retries info; i_length := i_length info |}
    else if idx =? c_IEEE80211_RADIOTAP_MCS then
      let* k := rd a in
      let* fl := rd (a + 1) in
      let* m := rd (a + 2) in
      upd {| i_chan_flags := i_chan_flags info; i_chan_freq := i_chan_freq info; i_chan_center := i_chan_center info;
             i_chan_band := i_chan_band info; i_rate_raw := i_rate_raw info; i_antennas := i_antennas info; i_signal := i_signal info;
             i_flags := i_flags info; i_ext_flags := i_ext_flags info; i_rx_flags := i_rx_flags info;
             i_tx_flags := i_tx_flags info; i_mcs_known := k; i_mcs_flags := fl;
             i_mcs_mcs := m; i_tx_power := i_tx_power info; i_ts := i_ts info;
             i_ts_accuracy := i_ts_accuracy info; i_ts_unit := i_ts_unit info; i_ts_flags := i_ts_flags info;
             i_rts_retries := i_rts_retries info; i_data_retries := i_data_retries info; i_length := i_length info |}
    else if idx =? c_IEEE80211_RADIOTAP_DBM_TX_POWER then
      let* b := rd a in
      upd {| i_chan_flags := i_chan_flags info; i_chan_freq := i_chan_freq info; i_chan_center := i_chan_center info;
             i_chan_band := i_chan_band info; i_rate_raw := i_rate_raw info; i_antennas := i_antennas info; i_signal := i_signal info;
             i_flags := i_flags info; i_ext_flags := i_ext_flags info; i_rx_flags := i_rx_flags info;
             i_tx_flags := i_tx_flags info; i_mcs_known := i_mcs_known info; i_mcs_flags := i_mcs_flags info;
             i_mcs_mcs := i_mcs_mcs info; i_tx_power := b; i_ts := i_ts info;
             i_ts_accuracy := i_ts_accuracy info; i_ts_unit := i_ts_unit info; i_ts_flags := i_ts_flags info;
             i_rts_retries := i_rts_retries info; i_data_retries := i_data_retries info; i_length := i_length info |}
    else if idx =? c_IEEE80211_RADIOTAP_TIMESTAMP then
      let* ts := rd_le rd 8 a in
      let* acc := rd_le rd 2 (a + 8) in
      let* u := rd (a + 10) in
      let* fl := rd (a + 11) in
      upd {| i_chan_flags := i_chan_flags info; i_chan_freq := i_chan_freq info; i_chan_center := i_chan_center info;
             i_chan_band := i_chan_band info; i_rate_raw := i_rate_raw info; i_antennas := i_antennas info; i_signal := i_signal info;
             i_flags := i_flags info; i_ext_flags := i_ext_flags info; i_rx_flags := i_rx_flags info;
             i_tx_flags := i_tx_flags info; i_mcs_known := i_mcs_known info; i_mcs_flags := i_mcs_flags info;
             i_mcs_mcs := i_mcs_mcs info; i_tx_power := i_tx_power info; i_ts := ts;
             i_ts_accuracy := acc; i_ts_unit := u; i_ts_flags := fl;
             i_rts_retries := i_rts_retries info; i_data_retries := i_data_retries info; i_length := i_length info |}
    else if idx =? c_IEEE80211_RADIOTAP_RTS_RETRIES then
      let* b := rd a in
      upd {| i_chan_flags := i_chan_flags info; i_chan_freq := i_chan_freq info; i_chan_center := i_chan_center info;
             i_chan_band := i_chan_band info; i_rate_raw := i_rate_raw info; i_antennas := i_antennas info; i_signal := i_signal info;
             i_flags := i_flags info; i_ext_flags := i_ext_flags info; i_rx_flags := i_rx_flags info;
             i_tx_flags := i_tx_flags info; i_mcs_known := i_mcs_known info; i_mcs_flags := i_mcs_flags info;
             i_mcs_mcs := i_mcs_mcs info; i_tx_power := i_tx_power info; i_ts := i_ts info;
             i_ts_accuracy := i_ts_accuracy info; i_ts_unit := i_ts_unit info; i_ts_flags := i_ts_flags info;
             i_rts_retries := b; i_data_retries := i_data_retries info; i_length := i_length info |}
    else if idx =? c_IEEE80211_RADIOTAP_DATA_RETRIES then
      let* b := rd a in
      upd {| i_chan_flags := i_chan_flags info; i_chan_freq := i_chan_freq info; i_chan_center := i_chan_center info;
             i_chan_band := i_chan_band info; i_rate_raw := i_rate_raw info; i_antennas := i_antennas info; i_signal := i_signal info;
             i_flags := i_flags info; i_ext_flags := i_ext_flags info; i_rx_flags := i_rx_flags info;
             i_tx_flags := i_tx_flags info; i_mcs_known := i_mcs_known info; i_mcs_flags := i_mcs_flags info;
             i_mcs_mcs := i_mcs_mcs info; i_tx_power := i_tx_power info; i_ts := i_ts info;
             i_ts_accuracy := i_ts_accuracy info; i_ts_unit := i_ts_unit info; i_ts_flags := i_ts_flags info;
             i_rts_retries := i_rts_retries info; i_data_retries := b; i_length := i_length info |}
    else upd info.

  (* while (!ret) { switch ...; ret = next(&it); } - the first pass sees this_arg_index 0 (no case) *)
  Fixpoint rt_loop (fuel : nat) (it : rt_it) (info : rt_info) (skipped : bool) : res rt_info :=
    match fuel with
    | O => OutOfFuel
    | S f =>
      let* '(it', st) := rt_next (Z.to_nat (32 * (r_max it + 8))) it in
      match st with
      | End _ => Done info
      | Hit idx a => let* '(info', sk') := rt_field info skipped idx a in rt_loop f it' info' sk'
      end
    end.

  (* libwifi_parse_radiotap_info(info, frame, frame_len) *)
  Definition parse_radiotap_info (frame_len : Z) : res (outcome rt_info) :=
    if frame_len <? sizeof_ieee80211_radiotap_header then Done (Err (- EINVAL)) else
    let* itlen := rd_le rd 2 2 in
    if (itlen <? sizeof_ieee80211_radiotap_header) || (255 <? itlen) then Done (Err (- EINVAL)) else
    let* o := rt_init frame_len in
    match o with
    | Err c => Done (Err c)
    | Ok it =>
      let i0 := {| i_chan_flags := 0; i_chan_freq := 0; i_chan_center := 0; i_chan_band := 0; i_rate_raw := 0;
                   i_antennas := []; i_signal := 0; i_flags := 0; i_ext_flags := 0; i_rx_flags := 0; i_tx_flags := 0;
                   i_mcs_known := 0; i_mcs_flags := 0; i_mcs_mcs := 0; i_tx_power := 0;
                   i_ts := 0; i_ts_accuracy := 0; i_ts_unit := 0; i_ts_flags := 0;
                   i_rts_retries := 0; i_data_retries := 0; i_length := itlen |} in
      let* info := rt_loop (Z.to_nat (32 * (itlen + 8))) it i0 false in
      Done (Ok info)
    end.

  (* libwifi_parse_radiotap_rssi(frame): trusts it_len (no length argument): first DBM_ANTSIGNAL or 0 *)
  Fixpoint rssi_loop (fuel : nat) (it : rt_it) : res Z :=
    match fuel with
    | O => OutOfFuel
    | S f =>
      let* '(it', st) := rt_next (Z.to_nat (32 * (r_max it + 8))) it in
      match st with
      | End _ => Done 0
      | Hit idx a => if idx =? c_IEEE80211_RADIOTAP_DBM_ANTSIGNAL then rd a else rssi_loop f it'
      end
    end.
  Definition parse_radiotap_rssi : res Z :=
    let* itlen := rd_le rd 2 2 in
    let* o := rt_init itlen in
    match o with
    | Err _ => Done 0
    | Ok it => rssi_loop (Z.to_nat (32 * (itlen + 8))) it
    end.
End M.
