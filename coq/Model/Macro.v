(* C18 - executable model of the C preprocessor's function-like macro expansion (purely textual
   parameter substitution, argument pre-expansion, rescanning), of C's expression grammar
   (precedence and associativity) and of expression evaluation on mathematical integers.
   Definitions only: this file is extracted to OCaml for the correspondence driver. *)
From Coq Require Import List ZArith String Bool.
From LW Require Import Base.Tok Gen.Consts Gen.Macros.
Import ListNotations.
Local Open Scope Z_scope.
Local Open Scope string_scope.

(* ---------- enumerators ---------- *)

Fixpoint assoc_str (s : string) (l : list (string * Z)) : option Z :=
  match l with
  | [] => None
  | (k, v) :: r => if String.eqb s k then Some v else assoc_str s r
  end.

Fixpoint assoc_enums (s : string) (l : list (string * list (string * Z))) : option Z :=
  match l with
  | [] => None
  | (_, e) :: r => match assoc_str s e with Some v => Some v | None => assoc_enums s r end
  end.

Definition lookup_enum (s : string) : option Z :=
  match assoc_str s enum_libwifi_capabilities with
  | Some v => Some v
  | None => assoc_enums s all_enums
  end.

(* ---------- macro expansion on token lists ---------- *)

Fixpoint find_macro (s : string) (l : list macro) : option macro :=
  match l with
  | [] => None
  | m :: r => if String.eqb s (m_name m) then Some m else find_macro s r
  end.

(* [collect_args ts depth cur acc]: [ts] starts just after the opening parenthesis of an invocation.
   Splits at top-level commas up to the matching closing parenthesis; [cur] is the current argument
   (reversed), [acc] the finished arguments (reversed).  Returns the arguments and the remaining tokens;
   None when the closing parenthesis is missing. *)
Fixpoint collect_args (ts : list tok) (depth : nat) (cur : list tok) (acc : list (list tok))
  : option (list (list tok) * list tok) :=
  match ts with
  | [] => None
  | t :: r =>
    match depth with
    | O =>
      match t with
      | TRParen => Some (rev (rev cur :: acc), r)
      | TComma => collect_args r O [] (rev cur :: acc)
      | TLParen => collect_args r 1%nat (t :: cur) acc
      | _ => collect_args r O (t :: cur) acc
      end
    | S d =>
      match t with
      | TRParen => collect_args r d (t :: cur) acc
      | TLParen => collect_args r (S (S d)) (t :: cur) acc
      | _ => collect_args r depth (t :: cur) acc
      end
    end
  end.

(* the argument bound to parameter [s], if [s] is a parameter *)
Fixpoint param_arg (s : string) (params : list string) (args : list (list tok)) : option (list tok) :=
  match params, args with
  | p :: ps, a :: az => if String.eqb s p then Some a else param_arg s ps az
  | _, _ => None
  end.

(* textual substitution: every parameter identifier of the body is replaced by the argument's tokens;
   nothing else is touched, NO parentheses are added *)
Fixpoint subst_body (params : list string) (args : list (list tok)) (body : list tok) : list tok :=
  match body with
  | [] => []
  | TId s :: r =>
    match param_arg s params args with
    | Some a => (a ++ subst_body params args r)%list
    | None => TId s :: subst_body params args r
    end
  | t :: r => t :: subst_body params args r
  end.

Fixpoint map_opt {A B : Type} (f : A -> option B) (l : list A) : option (list B) :=
  match l with
  | [] => Some []
  | x :: r =>
    match f x with
    | Some y => match map_opt f r with Some ys => Some (y :: ys) | None => None end
    | None => None
    end
  end.

(* [F()] for a macro without parameters is an invocation with no argument, not with one empty argument *)
Definition fix_args (params : list string) (args : list (list tok)) : list (list tok) :=
  match params, args with
  | [], [ [] ] => []
  | _, _ => args
  end.

Definition cons_opt (t : tok) (o : option (list tok)) : option (list tok) :=
  match o with Some l => Some (t :: l) | None => None end.

(* expansion against the macro table [ms]: None on fuel exhaustion (e.g. a recursive macro), on an
   unterminated invocation or on a wrong argument count *)
Fixpoint expand_with (ms : list macro) (fuel : nat) (ts : list tok) {struct fuel} : option (list tok) :=
  match fuel with
  | O => None
  | S f =>
    match ts with
    | [] => Some []
    | TId s :: TLParen :: rest =>
      match find_macro s ms with
      | Some m =>
        match collect_args rest O [] [] with
        | Some (args0, rest') =>
          let args := fix_args (m_params m) args0 in
          if Nat.eqb (List.length args) (List.length (m_params m)) then
            match map_opt (expand_with ms f) args with
            | Some args' => expand_with ms f (subst_body (m_params m) args' (m_body m) ++ rest')%list
            | None => None
            end
          else None
        | None => None
        end
      | None => cons_opt (TId s) (expand_with ms f (TLParen :: rest))
      end
    | t :: rest => cons_opt t (expand_with ms f rest)
    end
  end.

Definition expand_all : nat -> list tok -> option (list tok) := expand_with all_macros.

(* ---------- C expressions ---------- *)

Inductive unop := UBitNot | ULogNot | UNeg | UPlus.
Inductive binop :=
| BMul | BDiv | BMod | BAdd | BSub | BShl | BShr | BLt | BGt | BLe | BGe | BEq | BNe
| BAnd | BXor | BOr | BLAnd | BLOr.

Inductive cexpr :=
| EVar (s : string)
| ELit (z : Z)
| EUn (o : unop) (e : cexpr)
| EBin (o : binop) (l r : cexpr)
| ECond (c a b : cexpr).

Definition unop_of (s : string) : option unop :=
  if String.eqb s "~" then Some UBitNot
  else if String.eqb s "!" then Some ULogNot
  else if String.eqb s "-" then Some UNeg
  else if String.eqb s "+" then Some UPlus
  else None.

(* binary operator and its precedence level (higher binds tighter); all are left associative *)
Definition binop_of (s : string) : option (binop * nat) :=
  if String.eqb s "*" then Some (BMul, 10%nat)
  else if String.eqb s "/" then Some (BDiv, 10%nat)
  else if String.eqb s "%" then Some (BMod, 10%nat)
  else if String.eqb s "+" then Some (BAdd, 9%nat)
  else if String.eqb s "-" then Some (BSub, 9%nat)
  else if String.eqb s "<<" then Some (BShl, 8%nat)
  else if String.eqb s ">>" then Some (BShr, 8%nat)
  else if String.eqb s "<" then Some (BLt, 7%nat)
  else if String.eqb s ">" then Some (BGt, 7%nat)
  else if String.eqb s "<=" then Some (BLe, 7%nat)
  else if String.eqb s ">=" then Some (BGe, 7%nat)
  else if String.eqb s "==" then Some (BEq, 6%nat)
  else if String.eqb s "!=" then Some (BNe, 6%nat)
  else if String.eqb s "&" then Some (BAnd, 5%nat)
  else if String.eqb s "^" then Some (BXor, 4%nat)
  else if String.eqb s "|" then Some (BOr, 3%nat)
  else if String.eqb s "&&" then Some (BLAnd, 2%nat)
  else if String.eqb s "||" then Some (BLOr, 1%nat)
  else None.

(* precedence climbing.
   parse_cond    : conditional-expression  ::= binary(1) [ '?' conditional ':' conditional ]
   parse_bin p   : a chain of binary operators of level >= p
   parse_loop p  : continuation of such a chain with the left operand already parsed
   parse_unary   : ('~' | '!' | '-' | '+')* primary
   parse_primary : identifier | literal | '(' conditional ')' *)
Fixpoint parse_cond (fuel : nat) (ts : list tok) {struct fuel} : option (cexpr * list tok) :=
  match fuel with
  | O => None
  | S f =>
    match parse_bin f 1%nat ts with
    | Some (c, rest) =>
      match rest with
      | TOp o :: rest1 =>
        if String.eqb o "?" then
          match parse_cond f rest1 with
          | Some (a, TOp o2 :: rest2) =>
            if String.eqb o2 ":" then
              match parse_cond f rest2 with
              | Some (b, rest3) => Some (ECond c a b, rest3)
              | None => None
              end
            else None
          | _ => None
          end
        else Some (c, rest)
      | _ => Some (c, rest)
      end
    | None => None
    end
  end
with parse_bin (fuel : nat) (minp : nat) (ts : list tok) {struct fuel} : option (cexpr * list tok) :=
  match fuel with
  | O => None
  | S f =>
    match parse_unary f ts with
    | Some (l, rest) => parse_loop f minp l rest
    | None => None
    end
  end
with parse_loop (fuel : nat) (minp : nat) (lhs : cexpr) (ts : list tok) {struct fuel}
  : option (cexpr * list tok) :=
  match fuel with
  | O => None
  | S f =>
    match ts with
    | TOp o :: rest =>
      match binop_of o with
      | Some (b, p) =>
        if Nat.leb minp p then
          match parse_bin f (S p) rest with
          | Some (rhs, rest') => parse_loop f minp (EBin b lhs rhs) rest'
          | None => None
          end
        else Some (lhs, ts)
      | None => Some (lhs, ts)
      end
    | _ => Some (lhs, ts)
    end
  end
with parse_unary (fuel : nat) (ts : list tok) {struct fuel} : option (cexpr * list tok) :=
  match fuel with
  | O => None
  | S f =>
    match ts with
    | TOp o :: rest =>
      match unop_of o with
      | Some u =>
        match parse_unary f rest with
        | Some (e, rest') => Some (EUn u e, rest')
        | None => None
        end
      | None => None
      end
    | _ => parse_primary f ts
    end
  end
with parse_primary (fuel : nat) (ts : list tok) {struct fuel} : option (cexpr * list tok) :=
  match fuel with
  | O => None
  | S f =>
    match ts with
    | TId s :: rest => Some (EVar s, rest)
    | TNum z :: rest => Some (ELit z, rest)
    | TLParen :: rest =>
      match parse_cond f rest with
      | Some (e, TRParen :: rest') => Some (e, rest')
      | _ => None
      end
    | _ => None
    end
  end.

(* the whole token list must be one expression *)
Definition parse_expr (ts : list tok) : option cexpr :=
  match parse_cond (6 * List.length ts + 8)%nat ts with
  | Some (e, []) => Some e
  | _ => None
  end.

(* ---------- evaluation ---------- *)

Definition of_bool (b : bool) : Z := if b then 1 else 0.

Definition unop_sem (o : unop) (x : Z) : Z :=
  match o with
  | UBitNot => Z.lnot x
  | ULogNot => of_bool (Z.eqb x 0)
  | UNeg => Z.opp x
  | UPlus => x
  end.

(* the strict binary operators ([&&] and [||] are short-circuit and handled in [eval]; given both
   operand values they yield this) *)
Definition binop_sem (o : binop) (x y : Z) : option Z :=
  match o with
  | BMul => Some (x * y)
  | BDiv => if Z.eqb y 0 then None else Some (Z.quot x y)
  | BMod => if Z.eqb y 0 then None else Some (Z.rem x y)
  | BAdd => Some (x + y)
  | BSub => Some (x - y)
  | BShl => Some (Z.shiftl x y)
  | BShr => Some (Z.shiftr x y)
  | BLt => Some (of_bool (Z.ltb x y))
  | BGt => Some (of_bool (Z.ltb y x))
  | BLe => Some (of_bool (Z.leb x y))
  | BGe => Some (of_bool (Z.leb y x))
  | BEq => Some (of_bool (Z.eqb x y))
  | BNe => Some (of_bool (negb (Z.eqb x y)))
  | BAnd => Some (Z.land x y)
  | BXor => Some (Z.lxor x y)
  | BOr => Some (Z.lor x y)
  | BLAnd => Some (of_bool (negb (Z.eqb x 0) && negb (Z.eqb y 0)))
  | BLOr => Some (of_bool (negb (Z.eqb x 0) || negb (Z.eqb y 0)))
  end.

Fixpoint eval (env : string -> option Z) (e : cexpr) : option Z :=
  match e with
  | EVar s => env s
  | ELit z => Some z
  | EUn o x => match eval env x with Some v => Some (unop_sem o v) | None => None end
  | EBin BLAnd l r =>
    match eval env l with
    | Some x =>
      if Z.eqb x 0 then Some 0
      else match eval env r with Some y => Some (of_bool (negb (Z.eqb y 0))) | None => None end
    | None => None
    end
  | EBin BLOr l r =>
    match eval env l with
    | Some x =>
      if Z.eqb x 0
      then match eval env r with Some y => Some (of_bool (negb (Z.eqb y 0))) | None => None end
      else Some 1
    | None => None
    end
  | EBin o l r =>
    match eval env l with
    | Some x => match eval env r with Some y => binop_sem o x y | None => None end
    | None => None
    end
  | ECond c a b =>
    match eval env c with
    | Some x => if Z.eqb x 0 then eval env b else eval env a
    | None => None
    end
  end.

(* ---------- the capability test as the compiler sees it ---------- *)

Definition expand_fuel (ts : list tok) : nat := (64 * (List.length ts + 4))%nat.

Definition check_cap_with (ms : list macro) (arg : list tok) (cap : string) : option cexpr :=
  let src := ([TId "libwifi_check_capabilities"; TLParen] ++ arg ++ [TComma; TId cap; TRParen])%list in
  match expand_with ms (expand_fuel src) src with
  | Some ts => parse_expr ts
  | None => None
  end.

Definition check_cap (arg : list tok) (cap : string) : option cexpr := check_cap_with all_macros arg cap.

Definition check_cap_eval (arg : list tok) (cap : string) (env : string -> option Z) : option Z :=
  match check_cap arg cap with
  | Some e => eval env e
  | None => None
  end.
